import NavisModel.Model.Xform
import Mathlib.Tactic.Ring
import Mathlib.Tactic.FieldSimp
import Mathlib.Tactic.Linarith
/-! Helper lemmas for C16 (stack / slice, mirror, re-winding, tangents, scale). -/
namespace Navis.Xform

theorem V3.ext' {p q : V3} (h1 : p.x = q.x) (h2 : p.y = q.y) (h3 : p.z = q.z) : p = q := by
  cases p; cases q; simp_all

/-! ## slices of the stacked block -/

theorem sliceFront_stack (f : RowFn) (a b c : List V3) :
    sliceFront a.length ((stack a b c).map f) = a.map f := by
  simp [sliceFront, stack]

theorem drop_take_stack (f : RowFn) (a b c : List V3) :
    (((stack a b c).map f).drop a.length).take b.length = b.map f := by
  simp [stack]

theorem sliceHelpers_stack (f : RowFn) (a b c : List V3) (h : b.length = a.length) :
    sliceHelpers a.length ((stack a b c).map f) = b.map f := by
  have := drop_take_stack f a b c
  rw [h] at this
  exact this

theorem sliceBack_stack (f : RowFn) (a b c : List V3) (h : c.length ≠ 0) :
    sliceBack c.length ((stack a b c).map f) = c.map f := by
  unfold sliceBack
  rw [if_neg h]
  have e : (stack a b c).map f = (a.map f ++ b.map f) ++ c.map f := by simp [stack]
  rw [e]
  have hl : (a.map f ++ b.map f ++ c.map f).length - c.length = (a.map f ++ b.map f).length := by
    simp only [List.length_append, List.length_map]; omega
  rw [hl, List.drop_left]

theorem setXYZ_map {α} (t : Table α) (f : RowFn) : t.setXYZ (t.xyz.map f) = some (t.mapXYZ f) := by
  simp [Table.setXYZ, Table.mapXYZ]

theorem mapXYZ_nil {α} (t : Table α) (g : RowFn) (h : t.xyz.length = 0) : t.mapXYZ g = t := by
  have : t.xyz = [] := List.eq_nil_of_length_eq_zero h
  cases t; simp_all [Table.mapXYZ]

theorem assignConns_stack {β} (f : RowFn) (a b : List V3) (c : Option (Table β)) :
    assignConns c ((stack a b (connXYZ c)).map f) = some (c.map (Table.mapXYZ f)) := by
  cases c with
  | none => rfl
  | some t =>
    by_cases h : t.xyz.length = 0
    · simp [assignConns, h, mapXYZ_nil t f h]
    · have hs := sliceBack_stack f a b t.xyz h
      simp only [assignConns, connXYZ, if_neg h, hs, setXYZ_map, Option.map]

theorem tangentDirs_helpers (f : RowFn) (c : Rat) : ∀ (pts v : List V3),
    tangentDirs (pts.map f) ((List.zipWith (fun p w => V3.add p (V3.smul c w)) pts v).map f)
      = List.zipWith (fun p w => V3.sub (f p) (f (V3.add p (V3.smul c w)))) pts v := by
  intro pts
  induction pts with
  | nil => intro v; simp [tangentDirs]
  | cons p ps ih =>
    intro v
    cases v with
    | nil => simp [tangentDirs]
    | cons w ws =>
      have := ih ws
      simp only [tangentDirs, List.map_zipWith] at this ⊢
      simp only [List.map_cons, List.zipWith_cons_cons, this]

theorem length_helpers (c : Rat) (pts v : List V3) (h : v.length = pts.length) :
    (List.zipWith (fun p w => V3.add p (V3.smul c w)) pts v).length = pts.length := by
  simp [h]

/-- The central lemma: under the guard, `xformNeuron` (stack / transform / slice) is `specXform`. -/
theorem xformNeuron_eq_spec {α β μ} (f : RowFn) (guess : Int) (n : Neuron α β μ) (h : helpersOK n) :
    xformNeuron f guess n = some (specXform f guess n) := by
  by_cases hw : (n.kind == Kind.dots && usesHelpers n.k) = true
  · -- k-less Dotprops: helper points are part of the block
    have hk : n.kind = Kind.dots := by
      have := (Bool.and_eq_true _ _).mp hw
      simpa using this.1
    have hu : usesHelpers n.k = true := ((Bool.and_eq_true _ _).mp hw).2
    obtain ⟨v, hv, hlen⟩ := h hk hu
    have hH : xformHelpers n = some (List.zipWith (fun p w => V3.add p (V3.smul n.res w)) n.pts.xyz v) := by
      simp [xformHelpers, hw, helperPts, hv, hlen]
    have hl := length_helpers n.res n.pts.xyz v hlen
    unfold xformNeuron
    simp only [hH]
    rw [sliceFront_stack, setXYZ_map, assignConns_stack]
    simp only [sliceHelpers_stack f _ _ _ hl, Table.mapXYZ, tangentDirs_helpers]
    simp only [specXform, hk, hu, hv, Option.getD_some, Table.mapXYZ, usedMagnitude, stack,
      List.length_append, hl]
    simp [Nat.add_assoc]
  · have hw' : (n.kind == Kind.dots && usesHelpers n.k) = false := by simpa using hw
    have hH : xformHelpers n = some [] := by simp [xformHelpers, hw']
    unfold xformNeuron
    simp only [hH]
    rw [sliceFront_stack, setXYZ_map, assignConns_stack]
    simp only [specXform, hw', Table.mapXYZ, usedMagnitude, stack, List.length_append]
    simp

/-- Without the guard the code raises (`none`): a k-less Dotprops without usable tangents. -/
theorem xformNeuron_none_of_bad {α β μ} (f : RowFn) (guess : Int) (n : Neuron α β μ)
    (hk : n.kind = Kind.dots) (hu : usesHelpers n.k = true)
    (hbad : ∀ v, n.vect = some v → v.length ≠ n.pts.xyz.length) :
    xformNeuron f guess n = none := by
  have hH : xformHelpers n = none := by
    unfold xformHelpers helperPts
    simp only [hk, hu, beq_self_eq_true, Bool.and_self, if_true]
    cases hv : n.vect with
    | none => rfl
    | some v => simp [hbad v hv]
  unfold xformNeuron
  simp only [hH]

/-! ## sequences -/

theorem seqApply_append (ts us : List Aff) (p : V3) :
    seqApply (ts ++ us) p = seqApply us (seqApply ts p) := by
  simp [seqApply, List.foldl_append]

theorem seqApply_nil (p : V3) : seqApply [] p = p := rfl

theorem seqApply_single (T : Aff) (p : V3) : seqApply [T] p = T.apply p := rfl

/-- an affine map moves a difference of points by its linear part -/
theorem aff_sub (T : Aff) (p q : V3) : V3.sub (T.apply p) (T.apply q) = T.lin (V3.sub p q) := by
  apply V3.ext' <;> simp only [V3.sub, Aff.apply, Aff.lin] <;> ring

theorem aff_helper_dir (T : Aff) (c : Rat) (p v : V3) :
    V3.sub (T.apply p) (T.apply (V3.add p (V3.smul c v))) = V3.smul (-c) (T.lin v) := by
  apply V3.ext' <;> simp only [V3.sub, V3.add, V3.smul, Aff.apply, Aff.lin] <;> ring

/-! ## mirror -/

theorem mirrorMat_apply (a : Axis) (s : Rat) (p : V3) : (mirrorMat a s).apply p = mirrorPt a s p := by
  cases a <;> apply V3.ext' <;> simp only [mirrorMat, Aff.apply, mirrorPt, V3.set, V3.get] <;> ring

theorem mirrorPt_mirrorPt (a : Axis) (s : Rat) (p : V3) : mirrorPt a s (mirrorPt a s p) = p := by
  cases a <;> apply V3.ext' <;> simp only [mirrorPt, V3.set, V3.get] <;> ring

theorem mirrorPt_get_self (a : Axis) (s : Rat) (p : V3) : (mirrorPt a s p).get a = s - p.get a := by
  cases a <;> simp [mirrorPt, V3.set, V3.get]

theorem mirrorPt_get_other (a b : Axis) (s : Rat) (p : V3) (h : b ≠ a) : (mirrorPt a s p).get b = p.get b := by
  cases a <;> cases b <;> simp_all [mirrorPt, V3.set, V3.get]

theorem mirrorMat_det (a : Axis) (s : Rat) : (mirrorMat a s).det = -1 := by
  cases a <;> simp only [mirrorMat, Aff.det] <;> ring

/-- the linear part of the flip: negate one component -/
def flipVec (a : Axis) (v : V3) : V3 := v.set a (-(v.get a))

theorem flipVec_flipVec (a : Axis) (v : V3) : flipVec a (flipVec a v) = v := by
  cases a <;> apply V3.ext' <;> simp [flipVec, V3.set, V3.get]

theorem flipVec_normSq (a : Axis) (v : V3) : V3.normSq (flipVec a v) = V3.normSq v := by
  cases a <;> simp only [flipVec, V3.set, V3.get, V3.normSq, V3.dot] <;> ring

theorem mirror_helper_dir (a : Axis) (s c : Rat) (p v : V3) :
    V3.sub (mirrorPt a s p) (mirrorPt a s (V3.add p (V3.smul c v))) = V3.smul (-c) (flipVec a v) := by
  cases a <;> apply V3.ext' <;> simp only [mirrorPt, flipVec, V3.set, V3.get, V3.sub, V3.add, V3.smul] <;> ring

theorem flipVec_smul (a : Axis) (t : Rat) (v : V3) : flipVec a (V3.smul t v) = V3.smul t (flipVec a v) := by
  cases a <;> apply V3.ext' <;> simp only [flipVec, V3.set, V3.get, V3.smul] <;> ring

theorem smul_smul (s t : Rat) (v : V3) : V3.smul s (V3.smul t v) = V3.smul (s * t) v := by
  apply V3.ext' <;> simp only [V3.smul] <;> ring

theorem mapXYZ_mapXYZ {α} (g : RowFn) (hg : ∀ p, g (g p) = p) (t : Table α) : (t.mapXYZ g).mapXYZ g = t := by
  cases t with
  | mk xyz cols =>
    simp only [Table.mapXYZ, List.map_map]
    congr
    have : (g ∘ g) = id := funext hg
    rw [this, List.map_id]

theorem rewind_rewind (f : Face) : rewind (rewind f) = f := by cases f; rfl

theorem map_rewind_rewind (fs : List Face) : (fs.map rewind).map rewind = fs := by
  rw [List.map_map]
  have : (rewind ∘ rewind) = id := funext rewind_rewind
  rw [this, List.map_id]

theorem connsIf_eq {β} (g : RowFn) (c : Option (Table β)) :
    (c.map fun t => if t.xyz.length = 0 then t else t.mapXYZ g) = c.map (Table.mapXYZ g) := by
  cases c with
  | none => rfl
  | some t =>
    by_cases h : t.xyz.length = 0
    · simp only [Option.map, if_pos h, mapXYZ_nil t g h]
    · simp only [Option.map, if_neg h]

theorem conns_mapXYZ_twice {β} (g : RowFn) (hg : ∀ p, g (g p) = p) (c : Option (Table β)) :
    (c.map (Table.mapXYZ g)).map (Table.mapXYZ g) = c := by
  cases c with
  | none => rfl
  | some t => simp [mapXYZ_mapXYZ g hg t]

/-- what `mirror_brain` returns for skeletons and meshes, in closed form -/
theorem mirrorNeuron_tree {α β μ} (g : RowFn) (n : Neuron α β μ) (h : n.kind = Kind.tree) :
    mirrorNeuron g n = some { n with pts := n.pts.mapXYZ g, conns := n.conns.map (Table.mapXYZ g) } := by
  unfold mirrorNeuron
  rw [connsIf_eq]
  simp [h]

theorem mirrorNeuron_mesh {α β μ} (g : RowFn) (n : Neuron α β μ) (h : n.kind = Kind.mesh) :
    mirrorNeuron g n = some { n with pts := n.pts.mapXYZ g, faces := n.faces.map rewind,
                                     conns := n.conns.map (Table.mapXYZ g) } := by
  unfold mirrorNeuron
  rw [connsIf_eq]
  simp [h]

theorem mirrorNeuron_dots_k {α β μ} (g : RowFn) (n : Neuron α β μ) (h : n.kind = Kind.dots)
    (hu : usesHelpers n.k = false) :
    mirrorNeuron g n = some { n with pts := n.pts.mapXYZ g, vect := none, alpha := none,
                                     conns := n.conns.map (Table.mapXYZ g) } := by
  unfold mirrorNeuron
  rw [connsIf_eq]
  simp [h, hu]

theorem mirrorNeuron_dots_helpers {α β μ} (g : RowFn) (n : Neuron α β μ) (h : n.kind = Kind.dots)
    (hu : usesHelpers n.k = true) (v : List V3) (hv : n.vect = some v) (hl : v.length = n.pts.xyz.length) :
    mirrorNeuron g n = some { n with
      pts := n.pts.mapXYZ g
      vect := some (List.zipWith (fun p w => V3.sub (g p) (g (V3.add p (V3.smul (n.res * 2) w)))) n.pts.xyz v)
      conns := n.conns.map (Table.mapXYZ g) } := by
  unfold mirrorNeuron
  rw [connsIf_eq]
  simp only [h, hu, if_true, helperPts, hv, hl, Table.mapXYZ, tangentDirs_helpers]

theorem mirrorNeuron_twice {α β μ} (g : RowFn) (hg : ∀ p, g (g p) = p) (n : Neuron α β μ)
    (hk : n.kind ≠ Kind.dots) : (mirrorNeuron g n).bind (mirrorNeuron g) = some n := by
  cases hkk : n.kind with
  | dots => exact absurd hkk hk
  | tree =>
    rw [mirrorNeuron_tree g n hkk]
    simp only [Option.bind_some]
    have h2 := mirrorNeuron_tree g { n with pts := n.pts.mapXYZ g, conns := n.conns.map (Table.mapXYZ g) } hkk
    rw [h2]
    simp only [mapXYZ_mapXYZ g hg, conns_mapXYZ_twice g hg]
  | mesh =>
    rw [mirrorNeuron_mesh g n hkk]
    simp only [Option.bind_some]
    have h2 := mirrorNeuron_mesh g
      { n with pts := n.pts.mapXYZ g, faces := n.faces.map rewind, conns := n.conns.map (Table.mapXYZ g) } hkk
    rw [h2]
    simp only [mapXYZ_mapXYZ g hg, conns_mapXYZ_twice g hg, map_rewind_rewind]

/-! ## orientation -/

theorem triNormal_swap (A B C : V3) : triNormal C B A = V3.neg (triNormal A B C) := by
  apply V3.ext' <;> simp only [triNormal, V3.cross, V3.sub, V3.neg] <;> ring

theorem triple_swap (A B C Q : V3) : triple C B A Q = - triple A B C Q := by
  simp only [triple, triNormal, V3.cross, V3.sub, V3.dot]; ring

theorem triple_mirror (a : Axis) (s : Rat) (A B C Q : V3) :
    triple (mirrorPt a s A) (mirrorPt a s B) (mirrorPt a s C) (mirrorPt a s Q) = - triple A B C Q := by
  cases a <;> simp only [triple, triNormal, V3.cross, V3.sub, V3.dot, mirrorPt, V3.set, V3.get] <;> ring

theorem triple_mirror_rewind (a : Axis) (s : Rat) (A B C Q : V3) :
    triple (mirrorPt a s C) (mirrorPt a s B) (mirrorPt a s A) (mirrorPt a s Q) = triple A B C Q := by
  rw [triple_swap, triple_mirror]; ring

theorem vertexAt_map (g : RowFn) (verts : List V3) (i : Nat) (h : i < verts.length) :
    vertexAt (verts.map g) i = g (vertexAt verts i) := by
  simp [vertexAt, List.getD_eq_getElem?_getD, h]

/-! ## tangents -/

theorem normSq_smul (s : Rat) (d : V3) : V3.normSq (V3.smul s d) = s * s * V3.normSq d := by
  simp only [V3.normSq, V3.dot, V3.smul]; ring

theorem normSq_nonneg (v : V3) : 0 ≤ V3.normSq v := by
  simp only [V3.normSq, V3.dot]
  have h1 := mul_self_nonneg v.x
  have h2 := mul_self_nonneg v.y
  have h3 := mul_self_nonneg v.z
  linarith

theorem normSq_eq_zero {v : V3} (h : V3.normSq v ≤ 0) : v = ⟨0, 0, 0⟩ := by
  simp only [V3.normSq, V3.dot] at h
  have h1 := mul_self_nonneg v.x
  have h2 := mul_self_nonneg v.y
  have h3 := mul_self_nonneg v.z
  have e1 : v.x * v.x = 0 := by linarith
  have e2 : v.y * v.y = 0 := by linarith
  have e3 : v.z * v.z = 0 := by linarith
  apply V3.ext'
  · exact mul_self_eq_zero.mp e1
  · exact mul_self_eq_zero.mp e2
  · exact mul_self_eq_zero.mp e3

theorem absRat_le_zero {r : Rat} (h : absRat r ≤ 0) : r = 0 := by
  unfold absRat at h
  split at h <;> linarith

/-- `tangentOK` with zero tolerance pins `v` down: it is the positive multiple of `d` of unit length. -/
theorem tangentOK_zero {d v : V3} (h : tangentOK 0 d v = true) :
    V3.normSq v = 1 ∧ 0 < V3.dot v d ∧
      ∃ s : Rat, 0 < s ∧ v = V3.smul s d ∧ s * s * V3.normSq d = 1 := by
  simp only [tangentOK, Bool.and_eq_true, decide_eq_true_eq] at h
  obtain ⟨⟨h1, h2⟩, h3⟩ := h
  have hn : V3.normSq v = 1 := by
    have := absRat_le_zero h1; linarith
  have hc : V3.cross v d = ⟨0, 0, 0⟩ := normSq_eq_zero (by simpa using h2)
  have hdpos : 0 < V3.normSq d := by
    rcases lt_or_eq_of_le (normSq_nonneg d) with hlt | heq
    · exact hlt
    · exfalso
      have hd0 : d = ⟨0, 0, 0⟩ := normSq_eq_zero (le_of_eq heq.symm)
      rw [hd0] at h3
      simp [V3.dot] at h3
  have hdne : V3.normSq d ≠ 0 := ne_of_gt hdpos
  -- BAC-CAB: (d·d) v = (v·d) d + d × (v × d)
  have hx : V3.normSq d * v.x = V3.dot v d * d.x + (d.y * (V3.cross v d).z - d.z * (V3.cross v d).y) := by
    simp only [V3.normSq, V3.dot, V3.cross]; ring
  have hy : V3.normSq d * v.y = V3.dot v d * d.y + (d.z * (V3.cross v d).x - d.x * (V3.cross v d).z) := by
    simp only [V3.normSq, V3.dot, V3.cross]; ring
  have hz : V3.normSq d * v.z = V3.dot v d * d.z + (d.x * (V3.cross v d).y - d.y * (V3.cross v d).x) := by
    simp only [V3.normSq, V3.dot, V3.cross]; ring
  rw [hc] at hx hy hz
  simp only [mul_zero, sub_zero, add_zero] at hx hy hz
  refine ⟨hn, h3, V3.dot v d / V3.normSq d, div_pos h3 hdpos, ?_, ?_⟩
  · apply V3.ext' <;> simp only [V3.smul]
    · field_simp; linarith
    · field_simp; linarith
    · field_simp; linarith
  · have hv : v = V3.smul (V3.dot v d / V3.normSq d) d := by
      apply V3.ext' <;> simp only [V3.smul]
      · field_simp; linarith
      · field_simp; linarith
      · field_simp; linarith
    have := normSq_smul (V3.dot v d / V3.normSq d) d
    rw [← hv, hn] at this
    exact this.symm

/-! ## scale -/

theorem pow10_zero : pow10 0 = 1 := by simp [pow10]

theorem pow10_pos (m : Int) : 0 < pow10 m := by
  unfold pow10
  split
  · exact pow_pos (by norm_num) _
  · exact one_div_pos.mpr (pow_pos (by norm_num) _)

theorem pow10_ne_zero (m : Int) : pow10 m ≠ 0 := ne_of_gt (pow10_pos m)

theorem pow10_ofNat (k : Nat) : pow10 (k : Int) = (10 : Rat) ^ k := by
  simp [pow10]

theorem scale_cancel (m : Int) (r u : Rat) : (r * pow10 m) * (u / pow10 m) = r * u := by
  have := pow10_ne_zero m
  field_simp

/-! ## masked assignment (`symmetrize_brain`) -/

theorem scatter_filter_map (mask : V3 → Bool) (h : RowFn) : ∀ l : List V3,
    scatter mask l ((l.filter mask).map h) = l.map fun p => if mask p then h p else p := by
  intro l
  induction l with
  | nil => rfl
  | cons p ps ih =>
    by_cases hm : mask p = true
    · simp [scatter, List.filter, hm, ih]
    · have hm' : mask p = false := by simpa using hm
      simp [scatter, List.filter, hm', ih]

theorem symmetrizeNeuron_dots_helpers {α β μ} (h : RowFn) (n : Neuron α β μ) (hk : n.kind = Kind.dots)
    (hu : usesHelpers n.k = true) (v : List V3) (hv : n.vect = some v) (hl : v.length = n.pts.xyz.length) :
    symmetrizeNeuron (List.map h) n = some { n with
      pts := n.pts.mapXYZ h
      vect := some (List.zipWith (fun p w => V3.sub (h p) (h (V3.add p (V3.smul (n.res * 2) w)))) n.pts.xyz v)
      conns := n.conns.map (Table.mapXYZ h) } := by
  unfold symmetrizeNeuron
  have hc := connsIf_eq h n.conns
  simp only [Table.mapXYZ] at hc
  simp only [hk, hu, if_true, helperPts, hv, hl, Table.mapXYZ, tangentDirs_helpers, hc]

theorem symmetrizeNeuron_dots_k {α β μ} (h : RowFn) (n : Neuron α β μ) (hk : n.kind = Kind.dots)
    (hu : usesHelpers n.k = false) :
    symmetrizeNeuron (List.map h) n = some { n with
      pts := n.pts.mapXYZ h
      vect := none
      alpha := none
      conns := n.conns.map (Table.mapXYZ h) } := by
  unfold symmetrizeNeuron
  have hc := connsIf_eq h n.conns
  simp only [Table.mapXYZ] at hc
  simp only [hk, hu, hc, Table.mapXYZ, Bool.false_eq_true, if_false]

theorem symmetrizeNeuron_tree_mesh {α β μ} (h : RowFn) (n : Neuron α β μ) (hk : n.kind ≠ Kind.dots) :
    symmetrizeNeuron (List.map h) n = some { n with pts := n.pts.mapXYZ h, conns := n.conns.map (Table.mapXYZ h) } := by
  unfold symmetrizeNeuron
  have hc := connsIf_eq h n.conns
  simp only [Table.mapXYZ] at hc
  cases hkk : n.kind with
  | dots => exact absurd hkk hk
  | tree => simp only [hc, Table.mapXYZ]
  | mesh => simp only [hc, Table.mapXYZ]

/-! ## checker -/

theorem closeRat_zero {a b : Rat} (h : closeRat 0 a b = true) : a = b := by
  simp only [closeRat, zero_mul, decide_eq_true_eq] at h
  have := absRat_le_zero h
  linarith

theorem closeOpt_zero {a b : Option Rat} (h : closeOpt 0 a b = true) : a = b := by
  cases a <;> cases b <;> simp_all [closeOpt]
  exact closeRat_zero h

theorem closeCol_zero : ∀ {a b : List (Option Rat)}, closeCol 0 a b = true → a = b
  | [], [], _ => rfl
  | [], _ :: _, h => by simp [closeCol] at h
  | _ :: _, [], h => by simp [closeCol] at h
  | x :: xs, y :: ys, h => by
    simp only [closeCol, Bool.and_eq_true] at h
    rw [closeOpt_zero h.1, closeCol_zero h.2]

theorem closeOptCol_zero {a b : Option (List (Option Rat))} (h : closeOptCol 0 a b = true) : a = b := by
  cases a <;> cases b <;> simp_all [closeOptCol]
  exact closeCol_zero h

theorem tangentsOK_zero : ∀ {ds vs : List V3}, tangentsOK 0 ds vs = true →
    ds.length = vs.length ∧ ∀ i (h1 : i < ds.length) (h2 : i < vs.length), tangentOK 0 ds[i] vs[i] = true
  | [], [], _ => ⟨rfl, fun i h1 _ => absurd h1 (Nat.not_lt_zero i)⟩
  | [], _ :: _, h => by simp [tangentsOK] at h
  | _ :: _, [], h => by simp [tangentsOK] at h
  | d :: ds, v :: vs, h => by
    simp only [tangentsOK, Bool.and_eq_true] at h
    obtain ⟨hl, hi⟩ := tangentsOK_zero h.2
    refine ⟨by simp [hl], ?_⟩
    intro i h1 h2
    cases i with
    | zero => simpa using h.1
    | succ j => simpa using hi j (by simpa using h1) (by simpa using h2)

theorem checkXform_exact {α β μ} [DecidableEq α] [DecidableEq β] [DecidableEq μ]
    (eps : Rat) (f : RowFn) (guess : Int) (n out : Neuron α β μ) (h : checkXform eps f guess n out = true) :
    out.kind = (specXform f guess n).kind ∧ out.pts = (specXform f guess n).pts ∧
    out.conns = (specXform f guess n).conns ∧ out.faces = (specXform f guess n).faces ∧
    out.k = (specXform f guess n).k ∧ out.info = (specXform f guess n).info := by
  simp only [checkXform, Bool.and_eq_true, decide_eq_true_eq] at h
  obtain ⟨⟨⟨⟨⟨⟨⟨⟨⟨⟨h1, h2⟩, h3⟩, h4⟩, h5⟩, h6⟩, _⟩, _⟩, _⟩, _⟩, _⟩ := h
  exact ⟨h1, h2, h3, h4, h5, h6⟩

theorem checkXform_zero_scale {α β μ} [DecidableEq α] [DecidableEq β] [DecidableEq μ]
    (f : RowFn) (guess : Int) (n out : Neuron α β μ) (h : checkXform 0 f guess n out = true) :
    out.radius = (specXform f guess n).radius ∧ out.units = (specXform f guess n).units ∧
    out.somaRadius = (specXform f guess n).somaRadius := by
  simp only [checkXform, Bool.and_eq_true, decide_eq_true_eq] at h
  obtain ⟨⟨⟨⟨_, h8⟩, h9⟩, h10⟩, _⟩ := h
  exact ⟨closeOptCol_zero h8, closeOpt_zero h9, closeOpt_zero h10⟩

/-! ## `xform_brain` and `mirror_brain(via=…)` -/

theorem brainUnitsRev_skip (xs ys : List (Bool × Option Rat)) (h : ∀ e ∈ xs, e.1 = true) :
    brainUnitsRev (xs ++ ys) = brainUnitsRev ys := by
  induction xs with
  | nil => rfl
  | cons e xs ih =>
    obtain ⟨a, u⟩ := e
    have ha : a = true := h (a, u) List.mem_cons_self
    subst ha
    simp only [List.cons_append, brainUnitsRev]
    exact ih fun e he => h e (List.mem_cons_of_mem _ he)

theorem brainUnits_last (es as : List (Bool × Option Rat)) (u : Option Rat) (h : ∀ e ∈ as, e.1 = true) :
    brainUnits (es ++ (false, u) :: as) = u := by
  simp only [brainUnits, List.reverse_append, List.reverse_cons, List.append_assoc, List.singleton_append]
  rw [brainUnitsRev_skip _ _ (fun e he => h e (List.mem_reverse.mp he))]
  rfl

theorem brainUnits_alias (as : List (Bool × Option Rat)) (h : ∀ e ∈ as, e.1 = true) : brainUnits as = none := by
  have := brainUnitsRev_skip as.reverse [] (fun e he => h e (List.mem_reverse.mp he))
  simpa [brainUnits, brainUnitsRev] using this

theorem mapXYZ_comp {α} (f g : RowFn) (t : Table α) : (t.mapXYZ f).mapXYZ g = t.mapXYZ (fun p => g (f p)) := by
  simp [Table.mapXYZ, List.map_map, Function.comp_def]

theorem conns_mapXYZ_mapXYZ {β} (f g : RowFn) (c : Option (Table β)) :
    (c.map (Table.mapXYZ f)).map (Table.mapXYZ g) = c.map (Table.mapXYZ fun p => g (f p)) := by
  cases c <;> simp [mapXYZ_comp]

theorem xformBrainNeuron_eq {α β μ} (f : RowFn) (guess : Int) (o : Option Rat) (n : Neuron α β μ) (h : helpersOK n) :
    xformBrainNeuron f guess o n = some (match o with
      | some u => { specXform f guess n with units := some u }
      | none => specXform f guess n) := by
  simp only [xformBrainNeuron, xformNeuron_eq_spec f guess n h, Option.map_some]
  cases o <;> rfl

theorem helpersOK_of_not_dots {α β μ} (n : Neuron α β μ) (h : n.kind ≠ Kind.dots) : helpersOK n :=
  fun hk => absurd hk h

/-- what `xform_brain` returns, as far as `mirror_brain` / a second `xform_brain` can see, for a skeleton / mesh -/
theorem xformBrain_fields {α β μ} (f : RowFn) (guess : Int) (o : Option Rat) (n : Neuron α β μ)
    (hk : n.kind ≠ Kind.dots) :
    ∃ out, xformBrainNeuron f guess o n = some out ∧ out.kind = n.kind ∧ out.pts = n.pts.mapXYZ f
      ∧ out.conns = n.conns.map (Table.mapXYZ f) ∧ out.faces = n.faces ∧ out.k = n.k ∧ out.info = n.info := by
  refine ⟨_, xformBrainNeuron_eq f guess o n (helpersOK_of_not_dots n hk), ?_⟩
  cases o <;> exact ⟨rfl, rfl, rfl, rfl, rfl, rfl⟩

theorem mirrorNeuron_fields {α β μ} (g : RowFn) (n : Neuron α β μ) (hk : n.kind ≠ Kind.dots) :
    ∃ out, mirrorNeuron g n = some out ∧ out.kind = n.kind ∧ out.pts = n.pts.mapXYZ g
      ∧ out.conns = n.conns.map (Table.mapXYZ g)
      ∧ out.faces = (if n.kind = Kind.mesh then n.faces.map rewind else n.faces) ∧ out.k = n.k ∧ out.info = n.info := by
  cases hkind : n.kind with
  | dots => exact absurd hkind hk
  | tree => exact ⟨_, mirrorNeuron_tree g n hkind, by simp [hkind]⟩
  | mesh => exact ⟨_, mirrorNeuron_mesh g n hkind, by simp [hkind]⟩

theorem mirrorViaNeuron_fields {α β μ} (f1 : RowFn) (m1 : Int) (o1 : Option Rat) (g : RowFn) (f2 : RowFn) (m2 : Int)
    (o2 : Option Rat) (n : Neuron α β μ) (hk : n.kind ≠ Kind.dots) :
    ∃ out, mirrorViaNeuron f1 m1 o1 g f2 m2 o2 n = some out ∧ out.kind = n.kind
      ∧ out.pts = n.pts.mapXYZ (fun p => f2 (g (f1 p)))
      ∧ out.conns = n.conns.map (Table.mapXYZ fun p => f2 (g (f1 p)))
      ∧ out.faces = (if n.kind = Kind.mesh then n.faces.map rewind else n.faces) ∧ out.k = n.k ∧ out.info = n.info := by
  obtain ⟨a, ha, ak, ap, ac, af, akk, ai⟩ := xformBrain_fields f1 m1 o1 n hk
  obtain ⟨b, hb, bk, bp, bc, bf, bkk, bi⟩ := mirrorNeuron_fields g a (ak ▸ hk)
  obtain ⟨c, hc, ck, cp, cc, cf, ckk, ci⟩ := xformBrain_fields f2 m2 o2 b (bk ▸ ak ▸ hk)
  refine ⟨c, by simp [mirrorViaNeuron, ha, hb, hc], by rw [ck, bk, ak], ?_, ?_, ?_, by rw [ckk, bkk, akk],
    by rw [ci, bi, ai]⟩
  · rw [cp, bp, ap, mapXYZ_comp, mapXYZ_comp]
  · rw [cc, bc, ac, conns_mapXYZ_mapXYZ, conns_mapXYZ_mapXYZ]
  · rw [cf, bf, af, ak]

theorem checkXformBrain_exact {α β μ} [DecidableEq α] [DecidableEq β] [DecidableEq μ]
    (eps : Rat) (f : RowFn) (guess : Int) (o : Option Rat) (n out : Neuron α β μ)
    (h : checkXformBrain eps f guess o n out = true) :
    out.kind = (specXform f guess n).kind ∧ out.pts = (specXform f guess n).pts ∧
    out.conns = (specXform f guess n).conns ∧ out.faces = (specXform f guess n).faces ∧
    out.k = (specXform f guess n).k ∧ out.info = (specXform f guess n).info := by
  cases o with
  | none => exact checkXform_exact eps f guess n out h
  | some u =>
    simp only [checkXformBrain, Bool.and_eq_true] at h
    exact checkXform_exact eps f guess n { out with units := (specXform f guess n).units } h.1

theorem checkXformBrain_units {α β μ} [DecidableEq α] [DecidableEq β] [DecidableEq μ]
    (f : RowFn) (guess : Int) (u : Rat) (n out : Neuron α β μ)
    (h : checkXformBrain 0 f guess (some u) n out = true) : out.units = some u := by
  simp only [checkXformBrain, Bool.and_eq_true] at h
  exact closeOpt_zero h.2

/-! ## soundness of the mirror / symmetrize / table checkers -/

theorem sameNeuron_exact {α β μ} [DecidableEq α] [DecidableEq β] [DecidableEq μ]
    (eps : Rat) (helper : Bool) (m out : Neuron α β μ) (h : sameNeuron eps helper m out = true) :
    out.kind = m.kind ∧ out.pts = m.pts ∧ out.conns = m.conns ∧ out.faces = m.faces ∧ out.k = m.k ∧ out.info = m.info := by
  simp only [sameNeuron, Bool.and_eq_true, decide_eq_true_eq] at h
  obtain ⟨⟨⟨⟨⟨⟨⟨⟨⟨⟨h1, h2⟩, h3⟩, h4⟩, h5⟩, h6⟩, _⟩, _⟩, _⟩, _⟩, _⟩ := h
  exact ⟨h1, h2, h3, h4, h5, h6⟩

theorem checkMirror_some {α β μ} [DecidableEq α] [DecidableEq β] [DecidableEq μ]
    (eps : Rat) (g : RowFn) (n out : Neuron α β μ) (h : checkMirror eps g n out = true) :
    ∃ m, mirrorNeuron g n = some m ∧ out.kind = m.kind ∧ out.pts = m.pts ∧ out.conns = m.conns ∧
      out.faces = m.faces ∧ out.k = m.k ∧ out.info = m.info := by
  unfold checkMirror at h
  cases hm : mirrorNeuron g n with
  | none => simp [hm] at h
  | some m =>
    rw [hm] at h
    exact ⟨m, rfl, sameNeuron_exact eps _ m out h⟩

theorem checkSymm_some {α β μ} [DecidableEq α] [DecidableEq β] [DecidableEq μ]
    (eps : Rat) (S : List V3 → List V3) (n out : Neuron α β μ) (h : checkSymm eps S n out = true) :
    ∃ m, symmetrizeNeuron S n = some m ∧ out.kind = m.kind ∧ out.pts = m.pts ∧ out.conns = m.conns ∧
      out.faces = m.faces ∧ out.k = m.k ∧ out.info = m.info := by
  unfold checkSymm at h
  cases hm : symmetrizeNeuron S n with
  | none => simp [hm] at h
  | some m =>
    rw [hm] at h
    exact ⟨m, rfl, sameNeuron_exact eps _ m out h⟩

theorem checkMirror_fields {α β μ} [DecidableEq α] [DecidableEq β] [DecidableEq μ]
    (eps : Rat) (g : RowFn) (n out : Neuron α β μ) (h : checkMirror eps g n out = true) :
    out.kind = n.kind ∧ out.pts = n.pts.mapXYZ g ∧ out.conns = n.conns.map (Table.mapXYZ g)
    ∧ out.faces = (if n.kind = Kind.mesh then n.faces.map rewind else n.faces) ∧ out.k = n.k ∧ out.info = n.info := by
  obtain ⟨m, hm, h1, h2, h3, h4, h5, h6⟩ := checkMirror_some eps g n out h
  cases hk : n.kind with
  | tree =>
    rw [mirrorNeuron_tree g n hk] at hm
    cases hm
    simp_all
  | mesh =>
    rw [mirrorNeuron_mesh g n hk] at hm
    cases hm
    simp_all
  | dots =>
    by_cases hu : usesHelpers n.k = true
    · unfold mirrorNeuron at hm
      rw [connsIf_eq] at hm
      simp only [hk, hu, if_true] at hm
      cases hh : helperPts (n.res * 2) n.pts.xyz n.vect with
      | none => simp [hh] at hm
      | some hp =>
        simp only [hh] at hm
        cases hm
        simp_all
    · have hu' : usesHelpers n.k = false := by simpa using hu
      rw [mirrorNeuron_dots_k g n hk hu'] at hm
      cases hm
      simp_all

theorem checkTable_iff {α} [DecidableEq α] (f : RowFn) (t out : Table α) :
    checkTable f t out = true ↔ out = t.mapXYZ f := by
  cases t; cases out
  simp [checkTable, Table.mapXYZ]

theorem checkMesh_iff (g : RowFn) (v : List V3) (fs : List Face) (v' : List V3) (fs' : List Face) :
    checkMesh g v fs v' fs' = true ↔ (v', fs') = mirrorMesh g v fs := by
  simp [checkMesh, mirrorMesh]

/-! ## `_guess_change`: `round(log10 ·)` without logarithms -/

theorem pow10_eq_zpow (m : Int) : pow10 m = (10 : Rat) ^ m := by
  unfold pow10
  split
  · next h =>
    conv_rhs => rw [← Int.toNat_of_nonneg h]
    rw [zpow_natCast]
  · next h =>
    have hn : 0 ≤ -m := by omega
    have e : m = -((-m).toNat : Int) := by rw [Int.toNat_of_nonneg hn]; omega
    conv_rhs => rw [e]
    rw [zpow_neg, zpow_natCast, one_div]

theorem pow10_mono {a b : Int} (h : a ≤ b) : pow10 a ≤ pow10 b := by
  rw [pow10_eq_zpow, pow10_eq_zpow]
  exact zpow_le_zpow_right₀ (by norm_num) h

theorem roundLog10_sound (c : Rat) (m : Int) (h : roundLog10 c = some m) :
    0 < c ∧ pow10 (2 * m - 1) ≤ c * c ∧ c * c < pow10 (2 * m + 1) := by
  unfold roundLog10 at h
  split at h
  · exact absurd h (by simp)
  · next hc =>
    have := List.find?_some h
    simp only [Bool.and_eq_true, decide_eq_true_eq] at this
    exact ⟨lt_of_not_ge hc, this.1, this.2⟩

theorem roundLog10_complete (c : Rat) (m : Int) (hc : 0 < c) (hm : -40 ≤ m ∧ m ≤ 40)
    (h1 : pow10 (2 * m - 1) ≤ c * c) (h2 : c * c < pow10 (2 * m + 1)) : roundLog10 c = some m := by
  have hmem : m ∈ (List.range 81).map fun (i : Nat) => (i : Int) - 40 := by
    simp only [List.mem_map, List.mem_range]
    exact ⟨(m + 40).toNat, by omega, by omega⟩
  cases hr : roundLog10 c with
  | none =>
    unfold roundLog10 at hr
    rw [if_neg (not_le.mpr hc)] at hr
    have := List.find?_eq_none.mp hr m hmem
    simp [h1, h2] at this
  | some m' =>
    obtain ⟨_, g1, g2⟩ := roundLog10_sound c m' hr
    congr 1
    by_contra hne
    rcases lt_or_gt_of_ne hne with hlt | hgt
    · have : pow10 (2 * m' + 1) ≤ pow10 (2 * m - 1) := pow10_mono (by omega)
      linarith
    · have : pow10 (2 * m + 1) ≤ pow10 (2 * m' - 1) := pow10_mono (by omega)
      linarith

theorem pow10_strict {a b : Int} (h : a < b) : pow10 a < pow10 b := by
  rw [pow10_eq_zpow, pow10_eq_zpow]
  exact zpow_lt_zpow_right₀ (by norm_num) h
theorem pow10_sq (k : Int) : pow10 k * pow10 k = pow10 (2 * k) := by
  rw [pow10_eq_zpow, pow10_eq_zpow, ← zpow_add₀ (by norm_num : (10 : Rat) ≠ 0)]
  congr 1; omega

end Navis.Xform
