import NavisModel.Model.Partition
/-! Helper lemmas for C09 (core Lean only). -/
namespace Navis.Partition

theorem chunkStart_succ (n k i : Nat) : chunkStart n k (i+1) = chunkStart n k i + chunkSize n k i := by
  unfold chunkStart chunkSize
  split <;> rename_i h
  · rw [Nat.min_eq_left (by omega), Nat.min_eq_left (by omega), Nat.add_mul]; omega
  · rw [Nat.min_eq_right (by omega), Nat.min_eq_right (by omega), Nat.add_mul]; omega

theorem chunkStart_zero (n k : Nat) : chunkStart n k 0 = 0 := by simp [chunkStart]

theorem chunkStart_k (n k : Nat) (hk : 0 < k) : chunkStart n k k = n := by
  unfold chunkStart
  have h1 : n % k < k := Nat.mod_lt _ hk
  rw [Nat.min_eq_right (by omega)]
  have := Nat.div_add_mod n k
  omega

/-- Concatenating the first `m` chunks gives `range (chunkStart m)`. -/
theorem flatten_prefix (n k m : Nat) :
    ((List.range m).map (chunk n k)).flatten = List.range (chunkStart n k m) := by
  induction m with
  | zero => simp [chunkStart_zero]
  | succ m ih =>
    rw [List.range_succ, List.map_append, List.flatten_append, ih, chunkStart_succ]
    simp only [List.map_cons, List.map_nil, List.flatten_cons, List.flatten_nil, List.append_nil, chunk]
    rw [List.range_eq_range', List.range_eq_range']
    have := List.range'_append_1 (s := 0) (m := chunkStart n k m) (n := chunkSize n k m)
    simpa using this

theorem arraySplit_flatten (n k : Nat) (hk : 0 < k) : (arraySplit n k).flatten = List.range n := by
  unfold arraySplit; rw [flatten_prefix, chunkStart_k n k hk]

theorem arraySplit_length (n k : Nat) : (arraySplit n k).length = k := by simp [arraySplit]

theorem chunk_length (n k i : Nat) : (chunk n k i).length = chunkSize n k i := by simp [chunk]

theorem chunk_nodup (n k i : Nat) : (chunk n k i).Nodup := by
  unfold chunk; exact List.nodup_range'

theorem mem_chunk {n k i x : Nat} : x ∈ chunk n k i ↔ chunkStart n k i ≤ x ∧ x < chunkStart n k (i+1) := by
  unfold chunk; rw [chunkStart_succ]; simp [List.mem_range'_1]

theorem chunkStart_mono (n k : Nat) {i j : Nat} (h : i ≤ j) : chunkStart n k i ≤ chunkStart n k j := by
  induction h with
  | refl => exact Nat.le_refl _
  | step _ ih => rw [chunkStart_succ]; omega

/-- Every index below `n` lies in exactly one chunk. -/
theorem exists_chunk (n k : Nat) (hk : 0 < k) {x : Nat} (hx : x < n) : ∃ i, i < k ∧ x ∈ chunk n k i := by
  have : x ∈ (arraySplit n k).flatten := by rw [arraySplit_flatten n k hk]; simpa using hx
  rw [List.mem_flatten] at this
  obtain ⟨l, hl, hxl⟩ := this
  unfold arraySplit at hl
  rw [List.mem_map] at hl
  obtain ⟨i, hi, rfl⟩ := hl
  exact ⟨i, by simpa using hi, hxl⟩

theorem chunk_disjoint (n k : Nat) {i j x : Nat} (hi : x ∈ chunk n k i) (hj : x ∈ chunk n k j) : i = j := by
  rw [mem_chunk] at hi hj
  rcases Nat.lt_trichotomy i j with h | h | h
  · have := chunkStart_mono n k (show i+1 ≤ j by omega); omega
  · exact h
  · have := chunkStart_mono n k (show j+1 ≤ i by omega); omega

theorem chunk_lt (n k : Nat) (hk : 0 < k) {i x : Nat} (hi : i < k) (hx : x ∈ chunk n k i) : x < n := by
  rw [mem_chunk] at hx
  have := chunkStart_mono n k (show i+1 ≤ k by omega)
  rw [chunkStart_k n k hk] at this; omega

/-! ### Job-local indices -/

theorem getD_idxOf_of_mem {l : List Nat} {x : Nat} (h : x ∈ l) : l.getD (l.idxOf x) 0 = x := by
  have hlt := List.idxOf_lt_length_of_mem h
  rw [List.getD_eq_getElem?_getD, List.getElem?_eq_getElem hlt]; simp

/-- One entry of a `nblast` job block, addressed by position. -/
theorem jobResult_get {α} (f : Nat → Nat → α) (j : Job) (a b : Nat) (ha : a < j.qix.length) (hb : b < j.tix.length) :
    ((jobResult f j)[a]?).bind (·[b]?) = some (f (j.qix[a]) (j.tix[b])) := by
  unfold jobResult localQueries localTargets localList
  simp only [List.getElem?_map, List.getElem?_range ha, Option.map_some, Option.bind_some,
    List.getElem?_range hb]
  rw [List.getD_eq_getElem?_getD, List.getD_eq_getElem?_getD, List.getElem?_append_left ha,
    List.getElem?_append_right (by omega)]
  simp [ha, hb]

theorem jobResultAll_get {α} (f : Nat → Nat → α) (e : List Nat) (j : Job)
    (hq : ∀ x ∈ j.qix, x ∈ e) (ht : ∀ x ∈ j.tix, x ∈ e)
    (a b : Nat) (ha : a < j.qix.length) (hb : b < j.tix.length) :
    ((jobResultAll f e j)[a]?).bind (·[b]?) = some (f (j.qix[a]) (j.tix[b])) := by
  unfold jobResultAll
  simp only [List.getElem?_map, List.getElem?_eq_getElem ha, List.getElem?_eq_getElem hb,
    Option.map_some, Option.bind_some]
  rw [getD_idxOf_of_mem (hq _ (List.getElem_mem ha)), getD_idxOf_of_mem (ht _ (List.getElem_mem hb))]

/-- Placing a block whose entries are `f` at the right global positions. -/
theorem place_spec {α} (f : Nat → Nat → α) (m : Mat α) (j : Job) (res : List (List α))
    (hres : ∀ a b (ha : a < j.qix.length) (hb : b < j.tix.length),
        (res[a]?).bind (·[b]?) = some (f (j.qix[a]) (j.tix[b])))
    (r c : Nat) :
    place m j res r c = if r ∈ j.qix ∧ c ∈ j.tix then some (f r c) else m r c := by
  unfold place
  split
  · rename_i h
    have ha := List.idxOf_lt_length_of_mem h.1
    have hb := List.idxOf_lt_length_of_mem h.2
    have := hres _ _ ha hb
    rw [List.getElem_idxOf ha, List.getElem_idxOf hb] at this
    cases hrow : res[List.idxOf r j.qix]? with
    | none => rw [hrow] at this; simp at this
    | some row =>
      rw [hrow] at this; simp only [Option.bind_some] at this
      simp only [this]
  · rfl

/-- General fold lemma: after placing any list of correct blocks, a cell is `some (f r c)` if it is
covered by one of the jobs and untouched otherwise. -/
theorem fold_place {α} (f : Nat → Nat → α) (blk : Job → List (List α))
    (hblk : ∀ j a b (ha : a < j.qix.length) (hb : b < j.tix.length),
        ((blk j)[a]?).bind (·[b]?) = some (f (j.qix[a]) (j.tix[b])))
    (done : List Job) (m : Mat α) (r c : Nat) :
    (done.foldl (fun m j => place m j (blk j)) m) r c =
      if ∃ j ∈ done, r ∈ j.qix ∧ c ∈ j.tix then some (f r c) else m r c := by
  induction done generalizing m with
  | nil => simp
  | cons d ds ih =>
    simp only [List.foldl_cons]
    rw [ih, place_spec f _ d (blk d) (hblk d)]
    by_cases hx : ∃ j ∈ ds, r ∈ j.qix ∧ c ∈ j.tix
    · rw [if_pos hx, if_pos]
      obtain ⟨j, hj, h⟩ := hx; exact ⟨j, by simp [hj], h⟩
    · rw [if_neg hx]
      by_cases hd : r ∈ d.qix ∧ c ∈ d.tix
      · rw [if_pos hd, if_pos]; exact ⟨d, by simp, hd⟩
      · rw [if_neg hd, if_neg]
        rintro ⟨j, hj, h⟩
        rw [List.mem_cons] at hj
        rcases hj with rfl | hj
        · exact hd h
        · exact hx ⟨j, hj, h⟩

theorem mem_jobs {nq nt rows cols : Nat} {j : Job} :
    j ∈ jobs nq nt rows cols ↔ ∃ a < rows, ∃ b < cols, j = ⟨chunk nq rows a, chunk nt cols b⟩ := by
  unfold jobs arraySplit
  simp only [List.mem_flatMap, List.mem_map, List.mem_range]
  constructor
  · rintro ⟨q, ⟨a, ha, rfl⟩, t, ⟨b, hb, rfl⟩, rfl⟩; exact ⟨a, ha, b, hb, rfl⟩
  · rintro ⟨a, ha, b, hb, rfl⟩; exact ⟨_, ⟨a, ha, rfl⟩, _, ⟨b, hb, rfl⟩, rfl⟩

/-- Every cell of the matrix is covered by some job of the grid. -/
theorem cell_covered (nq nt rows cols : Nat) (hr : 0 < rows) (hc : 0 < cols) {r c : Nat}
    (hrq : r < nq) (hct : c < nt) : ∃ j ∈ jobs nq nt rows cols, r ∈ j.qix ∧ c ∈ j.tix := by
  obtain ⟨a, ha, hra⟩ := exists_chunk nq rows hr hrq
  obtain ⟨b, hb, hcb⟩ := exists_chunk nt cols hc hct
  exact ⟨⟨chunk nq rows a, chunk nt cols b⟩, mem_jobs.mpr ⟨a, ha, b, hb, rfl⟩, hra, hcb⟩

/-- Jobs only ever write inside the matrix. -/
theorem job_in_range (nq nt rows cols : Nat) (hr : 0 < rows) (hc : 0 < cols) {j : Job}
    (hj : j ∈ jobs nq nt rows cols) {r c : Nat} (h : r ∈ j.qix ∧ c ∈ j.tix) : r < nq ∧ c < nt := by
  obtain ⟨a, ha, b, hb, rfl⟩ := mem_jobs.mp hj
  exact ⟨chunk_lt nq rows hr ha h.1, chunk_lt nt cols hc hb h.2⟩

/-! ### `find_optimal_partition` -/

theorem foldl_best_mem {α} (lt : α → α → Bool) (xs : List α) (x : α) :
    xs.foldl (fun best y => if lt y best then y else best) x ∈ x :: xs := by
  induction xs generalizing x with
  | nil => simp
  | cons y ys ih =>
    simp only [List.foldl_cons]
    have := ih (if lt y x then y else x)
    rw [List.mem_cons] at this
    rcases this with h | h
    · rw [h]; split <;> simp
    · simp [h]

theorem argminFirst_mem {α} (lt : α → α → Bool) (xs : List α) (x : α) (h : argminFirst lt xs = some x) : x ∈ xs := by
  cases xs with
  | nil => simp [argminFirst] at h
  | cons y ys =>
    simp only [argminFirst, Option.some.injEq] at h
    rw [← h]; exact foldl_best_mem lt ys y

theorem mem_optCandidates {N nq nt r c : Nat} (h : (r, c) ∈ optCandidates N nq nt) :
    1 ≤ r ∧ r ≤ N ∧ N % r = 0 ∧ r ≤ nq ∧ c = min (N / r) nt := by
  unfold optCandidates at h
  rw [List.mem_filterMap] at h
  obtain ⟨x, hx, hx2⟩ := h
  rw [List.mem_map] at hx
  obtain ⟨y, hy, rfl⟩ := hx
  rw [List.mem_range] at hy
  split at hx2
  · simp at hx2
  · split at hx2
    · simp at hx2
    · simp only [Option.some.injEq, Prod.mk.injEq] at hx2
      obtain ⟨rfl, rfl⟩ := hx2
      refine ⟨by omega, by omega, by omega, by omega, rfl⟩

theorem findOptimalPartition_range (N nq nt r c : Nat) (hnt : 0 < nt)
    (h : findOptimalPartition N nq nt = some (r, c)) : 1 ≤ r ∧ r ≤ nq ∧ 1 ≤ c ∧ c ≤ nt := by
  have hm := mem_optCandidates (argminFirst_mem _ _ _ h)
  obtain ⟨h1, h2, h3, h4, h5⟩ := hm
  have hdiv : 1 ≤ N / r := by
    have : r ∣ N := Nat.dvd_of_mod_eq_zero h3
    have hN : 0 < N := by omega
    exact Nat.div_pos h2 (by omega)
  subst h5
  refine ⟨h1, h4, ?_, Nat.min_le_right _ _⟩
  rw [Nat.le_min]; exact ⟨hdiv, hnt⟩

theorem findOptimalPartition_isSome (N nq nt : Nat) (hN : 0 < N) (hq : 0 < nq) :
    (findOptimalPartition N nq nt).isSome := by
  unfold findOptimalPartition
  have hmem : (1, min (N / 1) nt) ∈ optCandidates N nq nt := by
    unfold optCandidates
    rw [List.mem_filterMap]
    refine ⟨1, ?_, ?_⟩
    · rw [List.mem_map]; exact ⟨0, by simpa using hN, rfl⟩
    · simp; omega
  cases hc : optCandidates N nq nt with
  | nil => rw [hc] at hmem; simp at hmem
  | cons x xs => simp [argminFirst]

end Navis.Partition
