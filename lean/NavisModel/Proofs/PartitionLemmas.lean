import NavisModel.Model.Partition
/-! Helper lemmas for C09 (core Lean only). -/
namespace Navis.Partition

theorem chunkStart_succ (n k i : Nat) : chunkStart n k (i+1) = chunkStart n k i + chunkSize n k i := by
  unfold chunkStart chunkSize
  split <;> rename_i h
  · rw [Nat.min_eq_left (by omega), Nat.min_eq_left (by omega), Nat.add_mul]; omega
  · rw [Nat.min_eq_right (by omega), Nat.min_eq_right (by omega), Nat.add_mul]; omega

theorem chunkStart_zero (n k : Nat) : chunkStart n k 0 = 0 := by simp [chunkStart]

theorem chunkStart_k (n k : Nat) (hk : 0 < k) : chunkStart n k k = n := by
  unfold chunkStart
  have h1 : n % k < k := Nat.mod_lt _ hk
  rw [Nat.min_eq_right (by omega)]
  have := Nat.div_add_mod n k
  omega

/-- Concatenating the first `m` chunks gives `range (chunkStart m)`. -/
theorem flatten_prefix (n k m : Nat) :
    ((List.range m).map (chunk n k)).flatten = List.range (chunkStart n k m) := by
  induction m with
  | zero => simp [chunkStart_zero]
  | succ m ih =>
    rw [List.range_succ, List.map_append, List.flatten_append, ih, chunkStart_succ]
    simp only [List.map_cons, List.map_nil, List.flatten_cons, List.flatten_nil, List.append_nil, chunk]
    rw [List.range_eq_range', List.range_eq_range']
    have := List.range'_append_1 (s := 0) (m := chunkStart n k m) (n := chunkSize n k m)
    simpa using this

theorem arraySplit_flatten (n k : Nat) (hk : 0 < k) : (arraySplit n k).flatten = List.range n := by
  unfold arraySplit; rw [flatten_prefix, chunkStart_k n k hk]

theorem arraySplit_length (n k : Nat) : (arraySplit n k).length = k := by simp [arraySplit]

theorem chunk_length (n k i : Nat) : (chunk n k i).length = chunkSize n k i := by simp [chunk]

theorem chunk_nodup (n k i : Nat) : (chunk n k i).Nodup := by
  unfold chunk; exact List.nodup_range'

theorem mem_chunk {n k i x : Nat} : x ∈ chunk n k i ↔ chunkStart n k i ≤ x ∧ x < chunkStart n k (i+1) := by
  unfold chunk; rw [chunkStart_succ]; simp [List.mem_range'_1]

theorem chunkStart_mono (n k : Nat) {i j : Nat} (h : i ≤ j) : chunkStart n k i ≤ chunkStart n k j := by
  induction h with
  | refl => exact Nat.le_refl _
  | step _ ih => rw [chunkStart_succ]; omega

/-- Every index below `n` lies in exactly one chunk. -/
theorem exists_chunk (n k : Nat) (hk : 0 < k) {x : Nat} (hx : x < n) : ∃ i, i < k ∧ x ∈ chunk n k i := by
  have : x ∈ (arraySplit n k).flatten := by rw [arraySplit_flatten n k hk]; simpa using hx
  rw [List.mem_flatten] at this
  obtain ⟨l, hl, hxl⟩ := this
  unfold arraySplit at hl
  rw [List.mem_map] at hl
  obtain ⟨i, hi, rfl⟩ := hl
  exact ⟨i, by simpa using hi, hxl⟩

theorem chunk_disjoint (n k : Nat) {i j x : Nat} (hi : x ∈ chunk n k i) (hj : x ∈ chunk n k j) : i = j := by
  rw [mem_chunk] at hi hj
  rcases Nat.lt_trichotomy i j with h | h | h
  · have := chunkStart_mono n k (show i+1 ≤ j by omega); omega
  · exact h
  · have := chunkStart_mono n k (show j+1 ≤ i by omega); omega

theorem chunk_lt (n k : Nat) (hk : 0 < k) {i x : Nat} (hi : i < k) (hx : x ∈ chunk n k i) : x < n := by
  rw [mem_chunk] at hx
  have := chunkStart_mono n k (show i+1 ≤ k by omega)
  rw [chunkStart_k n k hk] at this; omega

/-! ### Job-local indices -/

theorem getD_idxOf_of_mem {l : List Nat} {x : Nat} (h : x ∈ l) : l.getD (l.idxOf x) 0 = x := by
  have hlt := List.idxOf_lt_length_of_mem h
  rw [List.getD_eq_getElem?_getD, List.getElem?_eq_getElem hlt]; simp

/-- One entry of a `nblast` job block, addressed by position. -/
theorem jobResult_get {α} (f : Nat → Nat → α) (j : Job) (a b : Nat) (ha : a < j.qix.length) (hb : b < j.tix.length) :
    ((jobResult f j)[a]?).bind (·[b]?) = some (f (j.qix[a]) (j.tix[b])) := by
  unfold jobResult localQueries localTargets localList
  simp only [List.getElem?_map, List.getElem?_range ha, Option.map_some, Option.bind_some,
    List.getElem?_range hb]
  rw [List.getD_eq_getElem?_getD, List.getD_eq_getElem?_getD, List.getElem?_append_left ha,
    List.getElem?_append_right (by omega)]
  simp [ha, hb]

theorem jobResultAll_get {α} (f : Nat → Nat → α) (e : List Nat) (j : Job)
    (hq : ∀ x ∈ j.qix, x ∈ e) (ht : ∀ x ∈ j.tix, x ∈ e)
    (a b : Nat) (ha : a < j.qix.length) (hb : b < j.tix.length) :
    ((jobResultAll f e j)[a]?).bind (·[b]?) = some (f (j.qix[a]) (j.tix[b])) := by
  unfold jobResultAll
  simp only [List.getElem?_map, List.getElem?_eq_getElem ha, List.getElem?_eq_getElem hb,
    Option.map_some, Option.bind_some]
  rw [getD_idxOf_of_mem (hq _ (List.getElem_mem ha)), getD_idxOf_of_mem (ht _ (List.getElem_mem hb))]

/-- Placing a block whose entries are `f` at the right global positions. -/
theorem place_spec {α} (f : Nat → Nat → α) (m : Mat α) (j : Job) (res : List (List α))
    (hres : ∀ a b (ha : a < j.qix.length) (hb : b < j.tix.length),
        (res[a]?).bind (·[b]?) = some (f (j.qix[a]) (j.tix[b])))
    (r c : Nat) :
    place m j res r c = if r ∈ j.qix ∧ c ∈ j.tix then some (f r c) else m r c := by
  unfold place
  split
  · rename_i h
    have ha := List.idxOf_lt_length_of_mem h.1
    have hb := List.idxOf_lt_length_of_mem h.2
    have := hres _ _ ha hb
    rw [List.getElem_idxOf ha, List.getElem_idxOf hb] at this
    cases hrow : res[List.idxOf r j.qix]? with
    | none => rw [hrow] at this; simp at this
    | some row =>
      rw [hrow] at this; simp only [Option.bind_some] at this
      simp only [this]
  · rfl

/-- General fold lemma: after placing any list of correct blocks, a cell is `some (f r c)` if it is
covered by one of the jobs and untouched otherwise. -/
theorem fold_place {α} (f : Nat → Nat → α) (blk : Job → List (List α))
    (hblk : ∀ j a b (ha : a < j.qix.length) (hb : b < j.tix.length),
        ((blk j)[a]?).bind (·[b]?) = some (f (j.qix[a]) (j.tix[b])))
    (done : List Job) (m : Mat α) (r c : Nat) :
    (done.foldl (fun m j => place m j (blk j)) m) r c =
      if ∃ j ∈ done, r ∈ j.qix ∧ c ∈ j.tix then some (f r c) else m r c := by
  induction done generalizing m with
  | nil => simp
  | cons d ds ih =>
    simp only [List.foldl_cons]
    rw [ih, place_spec f _ d (blk d) (hblk d)]
    by_cases hx : ∃ j ∈ ds, r ∈ j.qix ∧ c ∈ j.tix
    · rw [if_pos hx, if_pos]
      obtain ⟨j, hj, h⟩ := hx; exact ⟨j, by simp [hj], h⟩
    · rw [if_neg hx]
      by_cases hd : r ∈ d.qix ∧ c ∈ d.tix
      · rw [if_pos hd, if_pos]; exact ⟨d, by simp, hd⟩
      · rw [if_neg hd, if_neg]
        rintro ⟨j, hj, h⟩
        rw [List.mem_cons] at hj
        rcases hj with rfl | hj
        · exact hd h
        · exact hx ⟨j, hj, h⟩

theorem mem_jobs {nq nt rows cols : Nat} {j : Job} :
    j ∈ jobs nq nt rows cols ↔ ∃ a < rows, ∃ b < cols, j = ⟨chunk nq rows a, chunk nt cols b⟩ := by
  unfold jobs arraySplit
  simp only [List.mem_flatMap, List.mem_map, List.mem_range]
  constructor
  · rintro ⟨q, ⟨a, ha, rfl⟩, t, ⟨b, hb, rfl⟩, rfl⟩; exact ⟨a, ha, b, hb, rfl⟩
  · rintro ⟨a, ha, b, hb, rfl⟩; exact ⟨_, ⟨a, ha, rfl⟩, _, ⟨b, hb, rfl⟩, rfl⟩

/-- Every cell of the matrix is covered by some job of the grid. -/
theorem cell_covered (nq nt rows cols : Nat) (hr : 0 < rows) (hc : 0 < cols) {r c : Nat}
    (hrq : r < nq) (hct : c < nt) : ∃ j ∈ jobs nq nt rows cols, r ∈ j.qix ∧ c ∈ j.tix := by
  obtain ⟨a, ha, hra⟩ := exists_chunk nq rows hr hrq
  obtain ⟨b, hb, hcb⟩ := exists_chunk nt cols hc hct
  exact ⟨⟨chunk nq rows a, chunk nt cols b⟩, mem_jobs.mpr ⟨a, ha, b, hb, rfl⟩, hra, hcb⟩

/-- Jobs only ever write inside the matrix. -/
theorem job_in_range (nq nt rows cols : Nat) (hr : 0 < rows) (hc : 0 < cols) {j : Job}
    (hj : j ∈ jobs nq nt rows cols) {r c : Nat} (h : r ∈ j.qix ∧ c ∈ j.tix) : r < nq ∧ c < nt := by
  obtain ⟨a, ha, b, hb, rfl⟩ := mem_jobs.mp hj
  exact ⟨chunk_lt nq rows hr ha h.1, chunk_lt nt cols hc hb h.2⟩

/-! ### `find_optimal_partition` -/

theorem foldl_best_mem {α} (lt : α → α → Bool) (xs : List α) (x : α) :
    xs.foldl (fun best y => if lt y best then y else best) x ∈ x :: xs := by
  induction xs generalizing x with
  | nil => simp
  | cons y ys ih =>
    simp only [List.foldl_cons]
    have := ih (if lt y x then y else x)
    rw [List.mem_cons] at this
    rcases this with h | h
    · rw [h]; split <;> simp
    · simp [h]

theorem argminFirst_mem {α} (lt : α → α → Bool) (xs : List α) (x : α) (h : argminFirst lt xs = some x) : x ∈ xs := by
  cases xs with
  | nil => simp [argminFirst] at h
  | cons y ys =>
    simp only [argminFirst, Option.some.injEq] at h
    rw [← h]; exact foldl_best_mem lt ys y

theorem mem_optCandidates {N nq nt r c : Nat} (h : (r, c) ∈ optCandidates N nq nt) :
    1 ≤ r ∧ r ≤ N ∧ N % r = 0 ∧ r ≤ nq ∧ c = min (N / r) nt := by
  unfold optCandidates at h
  rw [List.mem_filterMap] at h
  obtain ⟨x, hx, hx2⟩ := h
  rw [List.mem_map] at hx
  obtain ⟨y, hy, rfl⟩ := hx
  rw [List.mem_range] at hy
  split at hx2
  · simp at hx2
  · split at hx2
    · simp at hx2
    · simp only [Option.some.injEq, Prod.mk.injEq] at hx2
      obtain ⟨rfl, rfl⟩ := hx2
      refine ⟨by omega, by omega, by omega, by omega, rfl⟩

theorem findOptimalPartition_range (N nq nt r c : Nat) (hnt : 0 < nt)
    (h : findOptimalPartition N nq nt = some (r, c)) : 1 ≤ r ∧ r ≤ nq ∧ 1 ≤ c ∧ c ≤ nt := by
  have hm := mem_optCandidates (argminFirst_mem _ _ _ h)
  obtain ⟨h1, h2, h3, h4, h5⟩ := hm
  have hdiv : 1 ≤ N / r := by
    have : r ∣ N := Nat.dvd_of_mod_eq_zero h3
    have hN : 0 < N := by omega
    exact Nat.div_pos h2 (by omega)
  subst h5
  refine ⟨h1, h4, ?_, Nat.min_le_right _ _⟩
  rw [Nat.le_min]; exact ⟨hdiv, hnt⟩

theorem findOptimalPartition_isSome (N nq nt : Nat) (hN : 0 < N) (hq : 0 < nq) :
    (findOptimalPartition N nq nt).isSome := by
  unfold findOptimalPartition
  have hmem : (1, min (N / 1) nt) ∈ optCandidates N nq nt := by
    unfold optCandidates
    rw [List.mem_filterMap]
    refine ⟨1, ?_, ?_⟩
    · rw [List.mem_map]; exact ⟨0, by simpa using hN, rfl⟩
    · simp; omega
  cases hc : optCandidates N nq nt with
  | nil => rw [hc] at hmem; simp at hmem
  | cons x xs => simp [argminFirst]

/-! ## Extensions (second pass) -/

/-- Placement of explicitly given blocks (what the driver evaluates on navis' own job results): if every
block holds `f` at its positions, the assembled matrix holds `f` on every covered cell. -/
theorem fold_place_pairs {α} (f : Nat → Nat → α) (done : List (Job × List (List α)))
    (hblk : ∀ jr ∈ done, ∀ a b (ha : a < jr.1.qix.length) (hb : b < jr.1.tix.length),
        ((jr.2)[a]?).bind (·[b]?) = some (f (jr.1.qix[a]) (jr.1.tix[b])))
    (m : Mat α) (r c : Nat) :
    (done.foldl (fun m jr => place m jr.1 jr.2) m) r c =
      if ∃ jr ∈ done, r ∈ jr.1.qix ∧ c ∈ jr.1.tix then some (f r c) else m r c := by
  induction done generalizing m with
  | nil => simp
  | cons d ds ih =>
    simp only [List.foldl_cons]
    rw [ih (fun jr hjr => hblk jr (by simp [hjr])), place_spec f _ d.1 d.2 (hblk d (by simp))]
    by_cases hx : ∃ jr ∈ ds, r ∈ jr.1.qix ∧ c ∈ jr.1.tix
    · rw [if_pos hx, if_pos]
      obtain ⟨j, hj, h⟩ := hx; exact ⟨j, by simp [hj], h⟩
    · rw [if_neg hx]
      by_cases hd : r ∈ d.1.qix ∧ c ∈ d.1.tix
      · rw [if_pos hd, if_pos]; exact ⟨d, by simp, hd⟩
      · rw [if_neg hd, if_neg]
        rintro ⟨j, hj, h⟩
        rw [List.mem_cons] at hj
        rcases hj with rfl | hj
        · exact hd h
        · exact hx ⟨j, hj, h⟩

/-! ### `scores='both'` -/

theorem addOdd_cons_cons (v w : Nat) (rest : List Nat) :
    addOdd (v :: w :: rest) = v :: (w + 1) :: addOdd rest := by
  unfold addOdd
  rw [List.mapIdx_cons, List.mapIdx_cons]
  simp only [Nat.zero_mod, Nat.zero_ne_one, if_false, Nat.zero_add, Nat.one_mod, if_true]
  congr 2
  have : (fun (i v : Nat) => if (i + 1 + 1) % 2 = 1 then v + 1 else v) =
      (fun i v => if i % 2 = 1 then v + 1 else v) := by
    funext i v
    have : (i + 1 + 1) % 2 = i % 2 := by omega
    rw [this]
  rw [this]

/-- `np.repeat(qix*2, 2)` with `[1::2] += 1` lists `2q, 2q+1` for every query `q` of the block. -/
theorem bothRows_eq (qix : List Nat) : bothRows qix = qix.flatMap fun q => [2 * q, 2 * q + 1] := by
  unfold bothRows repeat2
  induction qix with
  | nil => rfl
  | cons q qs ih =>
    simp only [List.map_cons, List.flatMap_cons, List.cons_append, List.nil_append]
    rw [addOdd_cons_cons, ih, Nat.mul_comm]

theorem bothRows_length (qix : List Nat) : (bothRows qix).length = 2 * qix.length := by
  rw [bothRows_eq]
  induction qix with
  | nil => rfl
  | cons q qs ih => simp only [List.flatMap_cons, List.length_append, List.length_cons, List.length_nil, ih]; omega

theorem bothRows_getElem? (qix : List Nat) (k : Nat) :
    (bothRows qix)[k]? = (qix[k / 2]?).map fun q => 2 * q + k % 2 := by
  rw [bothRows_eq]
  induction qix generalizing k with
  | nil => simp
  | cons q qs ih =>
    simp only [List.flatMap_cons, List.cons_append, List.nil_append]
    match k with
    | 0 => simp
    | 1 => simp
    | k + 2 =>
      simp only [List.getElem?_cons_succ]
      rw [ih k]
      have h1 : (k + 2) / 2 = k / 2 + 1 := by omega
      have h2 : (k + 2) % 2 = k % 2 := by omega
      rw [h1, h2, List.getElem?_cons_succ]

theorem mem_bothRows {qix : List Nat} {R : Nat} : R ∈ bothRows qix ↔ R / 2 ∈ qix := by
  rw [bothRows_eq, List.mem_flatMap]
  constructor
  · rintro ⟨q, hq, h⟩
    simp only [List.mem_cons, List.not_mem_nil, or_false] at h
    have : R / 2 = q := by omega
    rw [this]; exact hq
  · intro h
    refine ⟨R / 2, h, ?_⟩
    simp only [List.mem_cons, List.not_mem_nil, or_false]
    omega

theorem getElem?_flatten_uniform {α} (ls : List (List α)) (m : Nat) (h : ∀ l ∈ ls, l.length = m)
    (i b : Nat) (hb : b < m) : ls.flatten[i * m + b]? = (ls[i]?).bind (·[b]?) := by
  induction ls generalizing i with
  | nil => simp
  | cons l ls ih =>
    have hl : l.length = m := h l (by simp)
    rw [List.flatten_cons]
    match i with
    | 0 =>
      rw [Nat.zero_mul, Nat.zero_add, List.getElem?_append_left (by omega)]
      simp
    | i + 1 =>
      rw [List.getElem?_append_right (by rw [hl, Nat.add_mul]; omega)]
      have : (i + 1) * m + b - l.length = i * m + b := by rw [hl, Nat.add_mul]; omega
      rw [this, ih (fun l hl => h l (by simp [hl])) i]
      simp

/-- Row `k` of the block a `both` job returns is the forward (`k` even) or reverse (`k` odd) row of
query `k / 2`: the interleaving produced by `hstack` + `reshape`. -/
theorem bothBlock_get {α} (res : List (List (α × α))) (nq nt : Nat) (_hlen : res.length = nq)
    (hrow : ∀ row ∈ res, row.length = nt) (k b : Nat) (hk : k < 2 * nq) (hb : b < nt) :
    ((bothBlock res nq nt)[k]?).bind (·[b]?) =
      ((res[k / 2]?).bind (·[b]?)).map fun p => if k % 2 = 0 then p.1 else p.2 := by
  unfold bothBlock reshape
  rw [List.getElem?_map, List.getElem?_range hk]
  simp only [Option.map_some, Option.bind_some]
  rw [List.getElem?_take, if_pos hb, List.getElem?_drop]
  have huni : ∀ l ∈ hstack (res.map (·.map Prod.fst)) (res.map (·.map Prod.snd)), l.length = 2 * nt := by
    intro l hl
    unfold hstack at hl
    obtain ⟨i, hi, rfl⟩ := List.getElem_of_mem hl
    simp only [List.getElem_zipWith, List.getElem_map, List.length_append, List.length_map]
    simp only [List.length_zipWith, List.length_map, Nat.min_self] at hi
    have := hrow res[i] (List.getElem_mem hi)
    omega
  have hrowk : (hstack (res.map (·.map Prod.fst)) (res.map (·.map Prod.snd)))[k / 2]? =
      (res[k / 2]?).map fun row => row.map Prod.fst ++ row.map Prod.snd := by
    unfold hstack
    rw [List.getElem?_zipWith, List.getElem?_map, List.getElem?_map]
    cases res[k / 2]? <;> simp
  rcases Nat.mod_two_eq_zero_or_one k with hpar | hpar
  · have hidx : k * nt + b = (k / 2) * (2 * nt) + b := by
      have : k = 2 * (k / 2) := by omega
      conv => lhs; rw [this]
      rw [Nat.mul_comm 2 (k / 2), Nat.mul_assoc]
    rw [hidx, getElem?_flatten_uniform _ (2 * nt) huni (k / 2) b (by omega), hrowk]
    cases hr : res[k / 2]? with
    | none => simp
    | some row =>
      have hrl : row.length = nt := hrow row (List.mem_of_getElem? hr)
      simp only [Option.map_some, Option.bind_some]
      rw [List.getElem?_append_left (by simp; omega), List.getElem?_map]
      simp [hpar]
  · have hidx : k * nt + b = (k / 2) * (2 * nt) + (nt + b) := by
      have : k = 2 * (k / 2) + 1 := by omega
      conv => lhs; rw [this]
      rw [Nat.add_mul, Nat.mul_comm 2 (k / 2), Nat.mul_assoc]; omega
    rw [hidx, getElem?_flatten_uniform _ (2 * nt) huni (k / 2) (nt + b) (by omega), hrowk]
    cases hr : res[k / 2]? with
    | none => simp
    | some row =>
      have hrl : row.length = nt := hrow row (List.mem_of_getElem? hr)
      simp only [Option.map_some, Option.bind_some]
      rw [List.getElem?_append_right (by simp; omega)]
      simp only [List.length_map, hrl, Nat.add_sub_cancel_left, List.getElem?_map]
      simp [hpar]

theorem jobResult_length {α} (f : Nat → Nat → α) (j : Job) : (jobResult f j).length = j.qix.length := by
  simp [jobResult, localQueries]

theorem jobResult_row_length {α} (f : Nat → Nat → α) (j : Job) :
    ∀ row ∈ jobResult f j, row.length = j.tix.length := by
  intro row hrow
  unfold jobResult at hrow
  rw [List.mem_map] at hrow
  obtain ⟨a, _, rfl⟩ := hrow
  simp [localTargets]

/-- One cell of a `both` job block, addressed through the destination rows `bothRows qix`. -/
theorem jobResultBoth_get {α} (f : Nat → Nat → α × α) (j : Job) (k b : Nat)
    (hk : k < (bothJob j).qix.length) (hb : b < (bothJob j).tix.length) :
    ((jobResultBoth f j)[k]?).bind (·[b]?) =
      some ((fun R c => if R % 2 = 0 then (f (R / 2) c).1 else (f (R / 2) c).2)
        ((bothJob j).qix[k]) ((bothJob j).tix[b])) := by
  have hk' : k < 2 * j.qix.length := by simpa [bothJob, bothRows_length] using hk
  have hb' : b < j.tix.length := by simpa [bothJob] using hb
  have ha : k / 2 < j.qix.length := by omega
  unfold jobResultBoth
  rw [bothBlock_get _ _ _ (jobResult_length f j) (jobResult_row_length f j) k b hk' hb',
    jobResult_get f j (k / 2) b ha hb']
  have hrow : (bothJob j).qix[k] = 2 * j.qix[k / 2] + k % 2 := by
    have := bothRows_getElem? j.qix k
    rw [List.getElem?_eq_getElem ha] at this
    simp only [Option.map_some] at this
    have h2 : (bothJob j).qix[k]? = some ((bothJob j).qix[k]) := List.getElem?_eq_getElem hk
    simp only [bothJob] at h2 ⊢
    rw [this] at h2
    exact (Option.some.inj h2).symm
  simp only [Option.map_some, hrow]
  show _ = some (if (2 * j.qix[k / 2] + k % 2) % 2 = 0 then (f ((2 * j.qix[k / 2] + k % 2) / 2) j.tix[b]).fst
      else (f ((2 * j.qix[k / 2] + k % 2) / 2) j.tix[b]).snd)
  have e2 : (2 * j.qix[k / 2] + k % 2) / 2 = j.qix[k / 2] := by omega
  have e1 : (2 * j.qix[k / 2] + k % 2) % 2 = k % 2 := by omega
  rw [e1, e2]

/-! ### `find_batch_partition` -/

theorem batchRowsLoop_spec (cols n : Nat) (fuel rows : Nat) :
    rows ≤ batchRowsLoop cols n fuel rows ∧ batchRowsLoop cols n fuel rows ≤ rows + fuel ∧
    (∀ r, rows ≤ r → r < batchRowsLoop cols n fuel rows → (r * cols) % n ≠ 0) ∧
    ((batchRowsLoop cols n fuel rows * cols) % n = 0 ∨ batchRowsLoop cols n fuel rows = rows + fuel) := by
  induction fuel generalizing rows with
  | zero =>
    simp only [batchRowsLoop, Nat.add_zero, Nat.le_refl, true_and, or_true, and_true]
    intro r h1 h2; omega
  | succ fuel ih =>
    unfold batchRowsLoop
    split
    · rename_i hne
      obtain ⟨h1, h2, h3, h4⟩ := ih (rows + 1)
      refine ⟨by omega, by omega, ?_, ?_⟩
      · intro r hr hlt
        by_cases hrr : r = rows
        · rw [hrr]; exact hne
        · exact h3 r (by omega) hlt
      · rcases h4 with h4 | h4
        · exact Or.inl h4
        · exact Or.inr (by omega)
    · rename_i hz
      refine ⟨Nat.le_refl _, by omega, ?_, Or.inl (by omega)⟩
      intro r hr hlt; omega

/-- Among `n` consecutive row counts one makes `rows * cols` a multiple of `n`: the `while` loop stops
after fewer than `n_cores` increments. -/
theorem batchRowsLoop_terminates (cols n rows : Nat) (hn : 0 < n) :
    (batchRowsLoop cols n n rows * cols) % n = 0 ∧ batchRowsLoop cols n n rows < rows + n := by
  obtain ⟨h1, h2, h3, h4⟩ := batchRowsLoop_spec cols n n rows
  -- a multiple of n within reach
  let r0 := rows + (n - rows % n) % n
  have hr0 : r0 % n = 0 := by
    have hm : rows % n < n := Nat.mod_lt _ hn
    by_cases hz : rows % n = 0
    · have : (n - rows % n) % n = 0 := by rw [hz, Nat.sub_zero, Nat.mod_self]
      simp only [r0, this, Nat.add_zero]; exact hz
    · have : (n - rows % n) % n = n - rows % n := Nat.mod_eq_of_lt (by omega)
      simp only [r0, this]
      have hdm := Nat.div_add_mod rows n
      have : rows + (n - rows % n) = n * (rows / n + 1) := by rw [Nat.mul_add]; omega
      rw [this]; exact Nat.mul_mod_right _ _
  have hr0c : (r0 * cols) % n = 0 := by rw [Nat.mul_mod, hr0]; simp
  have hr0lt : r0 < rows + n := by
    have : (n - rows % n) % n < n := Nat.mod_lt _ hn
    simp only [r0]; omega
  have hr0ge : rows ≤ r0 := by simp only [r0]; omega
  have hle : batchRowsLoop cols n n rows ≤ r0 := by
    rcases Nat.lt_or_ge r0 (batchRowsLoop cols n n rows) with hlt | hge
    · exact absurd hr0c (h3 r0 hr0ge hlt)
    · exact hge
  refine ⟨?_, by omega⟩
  rcases h4 with h4 | h4
  · exact h4
  · omega

theorem findBatchPartition_none (npb nq nt : Nat) :
    findBatchPartition npb nq nt none = (max 1 (nq / npb), max 1 (nt / npb)) := rfl

theorem findBatchPartition_range_none (npb nq nt : Nat) (hq : 0 < nq) (ht : 0 < nt) :
    1 ≤ (findBatchPartition npb nq nt none).1 ∧ (findBatchPartition npb nq nt none).1 ≤ nq ∧
    1 ≤ (findBatchPartition npb nq nt none).2 ∧ (findBatchPartition npb nq nt none).2 ≤ nt := by
  rw [findBatchPartition_none]
  have h1 : nq / npb ≤ nq := Nat.div_le_self _ _
  have h2 : nt / npb ≤ nt := Nat.div_le_self _ _
  simp only
  omega

theorem findBatchPartition_cores (npb nq nt n : Nat) :
    let base := max 1 (nq / npb)
    let cols := max 1 (nt / npb)
    let rc := findBatchPartition npb nq nt (some n)
    rc.2 = cols ∧ base ≤ rc.1 ∧
      (n ≠ 0 ∧ base * cols > n → (rc.1 * rc.2) % n = 0 ∧ rc.1 < base + n ∧
          ∀ r, base ≤ r → r < rc.1 → (r * cols) % n ≠ 0) ∧
      (¬ (n ≠ 0 ∧ base * cols > n) → rc.1 = base) := by
  intro base cols rc
  by_cases h : n ≠ 0 ∧ base * cols > n
  · have hrc : rc = (batchRowsLoop cols n n base, cols) := by
      simp only [rc, findBatchPartition]; rw [if_pos h]
    obtain ⟨h1, h2, h3, _⟩ := batchRowsLoop_spec cols n n base
    obtain ⟨t1, t2⟩ := batchRowsLoop_terminates cols n base (by omega)
    rw [hrc]
    exact ⟨rfl, h1, fun _ => ⟨t1, t2, h3⟩, fun hn => absurd h hn⟩
  · have hrc : rc = (base, cols) := by
      simp only [rc, findBatchPartition]; rw [if_neg h]
    rw [hrc]
    exact ⟨rfl, Nat.le_refl _, fun hp => absurd hp h, fun _ => rfl⟩

theorem findOptimalPartition_cores (N nq nt r c : Nat)
    (h : findOptimalPartition N nq nt = some (r, c)) : N % r = 0 ∧ c = min (N / r) nt ∧ r * c ≤ N := by
  have hm := mem_optCandidates (argminFirst_mem _ _ _ h)
  obtain ⟨h1, h2, h3, h4, h5⟩ := hm
  refine ⟨h3, h5, ?_⟩
  subst h5
  have : r * (N / r) ≤ N := Nat.mul_div_le N r
  have : r * min (N / r) nt ≤ r * (N / r) := Nat.mul_le_mul_left r (Nat.min_le_left _ _)
  omega

theorem chooseNblast_range (ncores : Option Nat) (progress : Bool) (npbP npbM nq nt r c : Nat)
    (hq : 0 < nq) (ht : 0 < nt) (h : chooseNblast ncores progress npbP npbM nq nt = some (r, c)) :
    1 ≤ r ∧ r ≤ nq ∧ 1 ≤ c ∧ c ≤ nt := by
  unfold chooseNblast at h
  cases ncores with
  | none => simp only [Option.some.injEq, Prod.mk.injEq] at h; omega
  | some n =>
    simp only at h
    split at h
    · split at h
      · have := findBatchPartition_range_none npbP nq nt hq ht
        simp only [Option.some.injEq] at h
        rw [h] at this; exact this
      · split at h
        · exact findOptimalPartition_range n nq nt r c ht h
        · have := findBatchPartition_range_none npbM nq nt hq ht
          simp only [Option.some.injEq] at h
          rw [h] at this; exact this
    · simp only [Option.some.injEq, Prod.mk.injEq] at h; omega

theorem chooseNblast_isSome (ncores : Option Nat) (progress : Bool) (npbP npbM nq nt : Nat) (hq : 0 < nq) :
    (chooseNblast ncores progress npbP npbM nq nt).isSome := by
  unfold chooseNblast
  cases ncores with
  | none => rfl
  | some n =>
    simp only
    split
    · rename_i hn
      split
      · rfl
      · split
        · exact findOptimalPartition_isSome n nq nt (by omega) hq
        · rfl
    · rfl

theorem chooseSimple_range (ncores : Option Nat) (progress : Bool) (npbP nq nt r c : Nat)
    (hq : 0 < nq) (ht : 0 < nt) (h : chooseSimple ncores progress npbP nq nt = some (r, c)) :
    1 ≤ r ∧ r ≤ nq ∧ 1 ≤ c ∧ c ≤ nt := by
  unfold chooseSimple at h
  cases ncores with
  | none => simp only [Option.some.injEq, Prod.mk.injEq] at h; omega
  | some n =>
    simp only at h
    split at h
    · split at h
      · have := findBatchPartition_range_none npbP nq nt hq ht
        simp only [Option.some.injEq] at h
        rw [h] at this; exact this
      · exact findOptimalPartition_range n nq nt r c ht h
    · simp only [Option.some.injEq, Prod.mk.injEq] at h; omega

theorem chooseSimple_isSome (ncores : Option Nat) (progress : Bool) (npbP nq nt : Nat) (hq : 0 < nq) :
    (chooseSimple ncores progress npbP nq nt).isSome := by
  unfold chooseSimple
  cases ncores with
  | none => rfl
  | some n =>
    simp only
    split
    · split
      · rfl
      · exact findOptimalPartition_isSome n nq nt (by omega) hq
    · rfl

end Navis.Partition
