import NavisModel.Proofs.PathLemmas
/-! The reroot operation preserves well-formedness (rank form) — core Lean only. -/
namespace Navis.Forest

theorem idxOf_cons_ne' {x a : Int} (l : List Int) (h : x ≠ a) : (x :: l).idxOf a = l.idxOf a + 1 := by
  rw [List.idxOf_cons]
  have : (x == a) = false := by simpa using h
  simp [this]

theorem predOnPath_some {path : List Int} {i a : Int} (h : predOnPath path i = some a) :
    a ∈ path ∧ i ∈ path ∧ (path.Nodup → path.idxOf a + 1 = path.idxOf i) := by
  induction path with
  | nil => simp [predOnPath] at h
  | cons x rest ih =>
    cases rest with
    | nil => simp [predOnPath] at h
    | cons y rest' =>
      unfold predOnPath at h
      by_cases hy : y = i
      · rw [if_pos hy] at h
        simp only [Option.some.injEq] at h
        subst h; subst hy
        refine ⟨by simp, by simp, ?_⟩
        intro hnd
        have hne : x ≠ y := by
          intro he; rw [List.nodup_cons] at hnd; exact hnd.1 (by simp [he])
        rw [List.idxOf_cons_self, idxOf_cons_ne' _ hne, List.idxOf_cons_self]
      · rw [if_neg hy] at h
        obtain ⟨h1, h2, h3⟩ := ih h
        refine ⟨List.mem_cons_of_mem _ h1, List.mem_cons_of_mem _ h2, ?_⟩
        intro hnd
        rw [List.nodup_cons] at hnd
        have hxa : x ≠ a := by intro he; exact hnd.1 (he ▸ h1)
        have hxi : x ≠ i := by intro he; exact hnd.1 (he ▸ h2)
        have := h3 hnd.2
        rw [idxOf_cons_ne' _ hxa, idxOf_cons_ne' _ hxi]
        omega

theorem predOnPath_none {path : List Int} {i : Int} (h : predOnPath path i = none) : i ∉ path.tail := by
  induction path with
  | nil => simp
  | cons x rest ih =>
    cases rest with
    | nil => simp
    | cons y rest' =>
      unfold predOnPath at h
      by_cases hy : y = i
      · rw [if_pos hy] at h; simp at h
      · rw [if_neg hy] at h
        have := ih h
        simp only [List.tail_cons] at this ⊢
        intro hm
        rcases List.mem_cons.mp hm with h1 | h1
        · exact hy h1.symm
        · exact this h1

@[simp] theorem ids_rerootParents (t : Table) (r : Int) (path : List Int) : ids (rerootParents t r path) = ids t := by
  unfold rerootParents ids
  rw [List.map_map]
  apply List.map_congr_left
  intro n _
  simp only [Function.comp]
  split
  · rfl
  · split <;> rfl

theorem mem_rerootParents {t : Table} {r : Int} {path : List Int} {m : Node} (hm : m ∈ rerootParents t r path) :
    ∃ n ∈ t, m.id = n.id ∧
      ((n.id = r ∧ m.parent = -1) ∨
       (n.id ≠ r ∧ ∃ p, predOnPath path n.id = some p ∧ m.parent = p) ∨
       (n.id ≠ r ∧ predOnPath path n.id = none ∧ m = n)) := by
  unfold rerootParents at hm
  obtain ⟨n, hn, rfl⟩ := List.mem_map.mp hm
  refine ⟨n, hn, ?_, ?_⟩
  · split
    · rfl
    · split <;> rfl
  · by_cases hr : n.id = r
    · left; simp [hr]
    · right
      cases hp : predOnPath path n.id with
      | some p => left; simp [hr, hp]
      | none => right; simp [hr, hp]

/-- **reroot preserves well-formedness** for every table, every target (general path form). -/
theorem WF_rerootParents_gen {t : Table} (hw : WF t) (r : Int) (path : List Int)
    (hnodup : path.Nodup) (hsub : ∀ a ∈ path, a ∈ ids t) (hhead : path.head? = some r) :
    WF (rerootParents t r path) := by
  obtain ⟨hnd, hpos, rk, hrk⟩ := hw
  refine ⟨by rw [ids_rerootParents]; exact hnd, ?_,
    (fun i => if i ∈ path then path.idxOf i else rk i + path.length), ?_⟩
  · intro m hm
    obtain ⟨n, hn, hid, _⟩ := mem_rerootParents hm
    rw [hid]; exact hpos n hn
  · intro m hm
    obtain ⟨n, hn, hid, hcase⟩ := mem_rerootParents hm
    rw [ids_rerootParents]
    rcases hcase with ⟨_, hp⟩ | ⟨hne, p, hp, hmp⟩ | ⟨hne, hp, rfl⟩
    · left; rw [hp]; decide
    · right
      obtain ⟨h1, h2, h3⟩ := predOnPath_some hp
      have h3' := h3 hnodup
      refine ⟨by rw [hmp]; exact hsub p h1, ?_⟩
      simp only
      rw [hmp, hid, if_pos h1, if_pos h2]
      omega
    · -- untouched node: it is not on the path
      have hnot : m.id ∉ path := by
        intro hmem
        have htail := predOnPath_none hp
        cases path with
        | nil => simp at hmem
        | cons x rest =>
          simp only [List.tail_cons] at htail
          have hx : x = r := by simpa using hhead
          rcases List.mem_cons.mp hmem with h | h
          · exact hne (h.trans hx)
          · exact htail h
      rcases hrk m hn with h | ⟨hpin, hlt⟩
      · left; exact h
      · right
        refine ⟨hpin, ?_⟩
        simp only
        rw [if_neg hnot]
        by_cases hpp : m.parent ∈ path
        · rw [if_pos hpp]
          have := List.idxOf_lt_length_of_mem hpp
          omega
        · rw [if_neg hpp]; omega

theorem WF_rerootParents {t : Table} (hw : WF t) (r : Int) (hr : r ∈ ids t) :
    WF (rerootParents t r (rootPath t r)) :=
  WF_rerootParents_gen hw r _ (pathToRoot_nodup hw _ r) (pathToRoot_subset t _ r) (pathToRoot_head t t.length r hr)

@[simp] theorem ids_reroot (t : Table) (r : Int) : ids (reroot t r) = ids t := by
  unfold reroot
  cases hf : find? t r with
  | none => rfl
  | some nr =>
    simp only
    split
    · rfl
    · simp only [ids, List.map_map]
      have : ∀ (u : Table) (g : Node → Node), (∀ n, (g n).id = n.id) → (u.map g).map (·.id) = u.map (·.id) := by
        intro u g hg; rw [List.map_map]; apply List.map_congr_left; intro n _; exact hg n
      rw [← List.map_map, this, ← ids, ← ids, ids_rerootParents]
      intro n
      split
      · rfl
      · split <;> rfl

theorem WF_reroot {t : Table} (hw : WF t) (r : Int) : WF (reroot t r) := by
  unfold reroot
  cases hf : find? t r with
  | none => exact hw
  | some nr =>
    simp only
    split
    · exact hw
    · have hr : r ∈ ids t := mem_ids.mpr ⟨nr, (find?_some hf).1, (find?_some hf).2⟩
      apply WF_of_same_links _ (WF_rerootParents hw r hr)
      rw [List.map_map]
      apply List.map_congr_left
      intro n _
      simp only [Function.comp]
      split
      · rfl
      · split <;> rfl

theorem WF_rerootMany {t : Table} (hw : WF t) (rs : List Int) : WF (rerootMany t rs) := by
  unfold rerootMany
  induction rs generalizing t with
  | nil => exact hw
  | cons r rs ih => exact ih (WF_reroot hw r)

end Navis.Forest
