import NavisModel.Model.TreeEdit
import NavisModel.Proofs.SubsetAlgebra
/-!
C10 second pass (core Lean only): connectors / tags / soma across `_subset_treeneuron`, the boolean-mask
form, the parent assignment of `reroot_skeleton` as the source spells it, sequences of reroot targets,
cable length and weighted undirected edges across a reroot.
-/
namespace Navis.TreeEdit
open Navis.Forest

/-! ## connectors, tags, soma across a subset -/

theorem mem_filterConns {t' : Table} {cs : List Conn} {c : Conn} :
    c ∈ filterConns t' cs ↔ c ∈ cs ∧ c.node ∈ ids t' := by
  unfold filterConns
  simp [List.mem_filter]

/-- The connector table after a subset is the original one filtered (same rows, same order, same
multiplicities) to the connectors whose node was requested and exists. -/
theorem subsetNeuron_conns (x : Neuron) (keep : Int → Bool) :
    (subsetNeuron x keep false).conns = x.conns.filter fun c => keep c.node && (ids x.nodes).contains c.node := by
  unfold subsetNeuron filterConns
  simp only [Bool.false_eq_true, if_false]
  apply List.filter_congr
  intro c _
  rw [ids_subset, Bool.eq_iff_iff]
  simp only [List.contains_eq_mem, decide_eq_true_eq, List.mem_filter, Bool.and_eq_true]
  exact ⟨fun h => ⟨h.2, h.1⟩, fun h => ⟨h.2, h.1⟩⟩

theorem subsetNeuron_conns_keep_disc (x : Neuron) (keep : Int → Bool) : (subsetNeuron x keep true).conns = x.conns := by
  unfold subsetNeuron
  simp

theorem mem_filterTags {t' : Table} {tg : Tags} {name : String} {l : List Int} :
    (name, l) ∈ filterTags t' tg ↔ ∃ l0, (name, l0) ∈ tg ∧ l = l0.filter (fun i => (ids t').contains i) ∧ l ≠ [] := by
  unfold filterTags
  simp only [List.mem_filter, List.mem_map, Bool.not_eq_true', List.isEmpty_eq_false_iff]
  constructor
  · rintro ⟨⟨e, he, heq⟩, hne⟩
    simp only [Prod.mk.injEq] at heq
    obtain ⟨h1, h2⟩ := heq
    exact ⟨e.2, by rw [← h1]; exact he, h2.symm, hne⟩
  · rintro ⟨l0, hl0, rfl, hne⟩
    exact ⟨⟨(name, l0), hl0, rfl⟩, hne⟩

/-- No tag loses its name order, no tag is left empty, and the surviving ids of a tag are exactly its ids
on surviving nodes (in order). -/
theorem filterTags_keys_sublist (t' : Table) (tg : Tags) : ((filterTags t' tg).map (·.1)).Sublist (tg.map (·.1)) := by
  unfold filterTags
  have h1 : ((tg.map fun e => (e.1, e.2.filter fun i => (ids t').contains i)).map (·.1)) = tg.map (·.1) := by
    rw [List.map_map]; rfl
  rw [← h1]
  exact (List.filter_sublist).map _

theorem filterSoma_eq_some {t' : Table} {s : Option Int} {i : Int} : filterSoma t' s = some i ↔ s = some i ∧ i ∈ ids t' := by
  unfold filterSoma
  cases s with
  | none => simp
  | some j =>
    by_cases h : (ids t').contains j = true
    · simp only [h, if_true, Option.some.injEq]
      constructor
      · rintro rfl; exact ⟨rfl, by simpa using h⟩
      · rintro ⟨h1, _⟩; exact h1
    · simp only [h]
      simp only [Bool.false_eq_true, if_false, Option.some.injEq]
      constructor
      · intro hh; cases hh
      · rintro ⟨rfl, h2⟩; exact absurd (by simpa using h2) h

/-! ## the boolean-mask form -/

theorem maskRows_eq_filter (keep : Int → Bool) : ∀ (t : Table), maskRows t ((ids t).map keep) = t.filter fun n => keep n.id
  | [] => rfl
  | n :: t => by
    have ih := maskRows_eq_filter keep t
    unfold maskRows at ih ⊢
    simp only [ids, List.map_cons, List.zip_cons_cons, List.filter_cons]
    by_cases h : keep n.id = true
    · simp only [h, if_true, List.map_cons]
      rw [← ih]; rfl
    · simp only [h]
      simp only [Bool.false_eq_true, if_false]
      rw [← ih]; rfl

/-- **A boolean mask selects the same neuron as the ids it marks** (the mask is positional, the id form is not). -/
theorem subsetMask_eq_subset (t : Table) (keep : Int → Bool) : subsetMask t ((ids t).map keep) = subset t keep := by
  unfold subsetMask subset
  rw [maskRows_eq_filter]

/-- The ids a mask marks are the marked ids, in table order. -/
theorem maskIds_eq_filter (t : Table) (keep : Int → Bool) : maskIds t ((ids t).map keep) = (ids t).filter keep := by
  unfold maskIds
  rw [maskRows_eq_filter, ids_filter]

/-! ## the parent assignment as the source spells it -/

theorem slice_tail (l : List Int) : ({ start := some 1 } : Slice).apply l = l.tail := by
  unfold Slice.apply normIdx
  simp only [List.take_length]
  cases l with
  | nil => rfl
  | cons a l =>
    simp only [List.length_cons, List.tail_cons]
    have : min (1 : Int).toNat (l.length + 1) = 1 := by simp
    simp

theorem slice_dropLast (l : List Int) : ({ stop := some (-1) } : Slice).apply l = l.dropLast := by
  unfold Slice.apply normIdx
  simp only [List.drop_zero]
  have : ((-1 : Int) + (l.length : Int)).toNat = l.length - 1 := by omega
  simp only [show ((-1 : Int) < 0) from by decide, if_true, this]
  exact (List.dropLast_eq_take).symm

/-- `zip(path[1:], path[:-1])` lists every node of the path (but the first) with its predecessor. -/
theorem find?_zip_tail_dropLast : ∀ (l : List Int) (i : Int),
    (l.tail.zip l.dropLast).find? (fun e => e.1 == i) = (predOnPath l i).map fun a => (i, a)
  | [], i => rfl
  | [a], i => rfl
  | a :: b :: rest, i => by
    have ih := find?_zip_tail_dropLast (b :: rest) i
    simp only [List.tail_cons, List.dropLast_cons_cons, List.zip_cons_cons, List.find?_cons] at ih ⊢
    unfold predOnPath
    by_cases hb : b = i
    · subst hb; simp
    · have : (b == i) = false := by simpa using hb
      simp only [this, if_neg hb]
      exact ih

theorem find?_reverse_of_nodup_keys {ps : List (Int × Int)} (hnd : (ps.map (·.1)).Nodup) (i : Int) :
    ps.reverse.find? (fun e => e.1 == i) = ps.find? (fun e => e.1 == i) := by
  induction ps with
  | nil => rfl
  | cons p ps ih =>
    simp only [List.map_cons, List.nodup_cons] at hnd
    rw [List.reverse_cons, List.find?_append, ih hnd.2, List.find?_cons]
    by_cases hp : p.1 = i
    · have hnone : ps.find? (fun e => e.1 == i) = none := by
        rw [List.find?_eq_none]
        intro e he hei
        simp only [beq_iff_eq] at hei
        exact hnd.1 (List.mem_map.mpr ⟨e, he, by rw [hei, hp]⟩)
      simp [hnone, hp]
    · have : (p.1 == i) = false := by simpa using hp
      cases hq : ps.find? (fun e => e.1 == i) <;> simp [this, hq]

theorem keys_zip_tail_dropLast_nodup {l : List Int} (hnd : l.Nodup) : ((l.tail.zip l.dropLast).map (·.1)).Nodup := by
  have hkeys : (l.tail.zip l.dropLast).map (·.1) = l.tail := by
    apply List.map_fst_zip
    simp
  rw [hkeys]
  exact hnd.sublist (List.tail_sublist l)

/-- On a duplicate-free path the two slices of the source produce exactly the path reversal of the model. -/
theorem rerootLinksAW_ref (t : Table) (r : Int) {path : List Int} (hnd : path.Nodup) :
    rerootLinksAW refRerootSpec t r path = rerootParents t r path := by
  unfold rerootLinksAW refRerootSpec setParent assignParents rerootParents
  simp only [slice_tail, slice_dropLast, List.map_map]
  apply List.map_congr_left
  intro n _
  simp only [Function.comp]
  rw [find?_reverse_of_nodup_keys (keys_zip_tail_dropLast_nodup hnd), find?_zip_tail_dropLast]
  by_cases hr : n.id = r
  · rw [if_pos hr]
    cases predOnPath path n.id <;> simp [hr]
  · rw [if_neg hr]
    cases hp : predOnPath path n.id with
    | none => simp [hr]
    | some a => simp [hr]

/-- One loop iteration as written = `Forest.reroot` (for the slices `path[1:]` / `path[:-1]` and parent `-1`). -/
theorem rerootStepAW_ref {t : Table} (hw : WF t) (r : Int) : rerootStepAW refRerootSpec t r = reroot t r := by
  unfold rerootStepAW reroot
  cases hf : find? t r with
  | none => rfl
  | some nr =>
    simp only
    split
    · rfl
    · rw [rerootLinksAW_ref t r (rootPath_nodup hw r)]

/-- **The reroot loop as the source spells it is the model's `rerootMany`** — provided the skip test re-reads
the roots in every iteration (it then only skips targets for which `reroot` is the identity anyway). -/
theorem rerootLoopAW_ref {rs : List Int} : ∀ {t : Table} (snap : List Int), WF t →
    rerootLoopAW refRerootSpec snap t rs = rerootMany t rs := by
  induction rs with
  | nil => intro t snap _; rfl
  | cons r rs ih =>
    intro t snap hw
    unfold rerootLoopAW rerootMany
    simp only [refRerootSpec, if_true, List.foldl_cons]
    by_cases hr : (roots t).contains r = true
    · rw [if_pos hr]
      have hroot : reroot t r = t := by
        obtain ⟨n, hn, hid, hp⟩ := mem_roots.mp (by simpa using hr)
        unfold reroot
        rw [← hid, find?_of_mem hw.1 hn]
        simp [hp]
      rw [hroot]
      exact ih snap hw
    · rw [if_neg hr]
      have := rerootStepAW_ref hw r
      unfold refRerootSpec at this
      rw [this]
      exact ih snap (WF_reroot hw r)

/-! ## sequences of reroot targets -/

theorem rerootMany_snoc (t : Table) (rs : List Int) (r : Int) : rerootMany t (rs ++ [r]) = reroot (rerootMany t rs) r := by
  unfold rerootMany
  rw [List.foldl_append]
  rfl

theorem ids_rerootMany (t : Table) (rs : List Int) : ids (rerootMany t rs) = ids t := by
  unfold rerootMany
  induction rs generalizing t with
  | nil => rfl
  | cons r rs ih => rw [List.foldl_cons, ih, ids_reroot]

theorem coords_rerootMany (t : Table) (rs : List Int) :
    (rerootMany t rs).map (fun n => (n.id, n.x, n.y, n.z)) = t.map (fun n => (n.id, n.x, n.y, n.z)) := by
  unfold rerootMany
  induction rs generalizing t with
  | nil => rfl
  | cons r rs ih => rw [List.foldl_cons, ih, reroot_coords]

theorem uedges_rerootMany_perm {t : Table} (hw : WF t) (rs : List Int) : (uedges (rerootMany t rs)).Perm (uedges t) := by
  unfold rerootMany
  induction rs generalizing t with
  | nil => exact List.Perm.refl _
  | cons r rs ih =>
    rw [List.foldl_cons]
    exact (ih (WF_reroot hw r)).trans (uedges_reroot_perm hw r)

/-- After a sequence of reroots the LAST target is a root. -/
theorem rerootMany_last_root (t : Table) (rs : List Int) (r : Int) (hr : r ∈ ids t) :
    ∃ n ∈ rerootMany t (rs ++ [r]), n.id = r ∧ n.parent < 0 := by
  rw [rerootMany_snoc]
  exact reroot_new_root' _ r (by rw [ids_rerootMany]; exact hr)

/-! ## cable length and weighted undirected edges -/

theorem cable_eq_sum_edges (t : Table) (len : Int → Int → Nat) :
    cable t len = ((edges t).map fun e => len e.1 e.2).sum := by
  unfold cable edges
  rw [List.map_map]
  rfl

/-- For a symmetric edge-length function the cable length only depends on the undirected edges. -/
theorem cable_eq_sum_uedges (t : Table) (len : Int → Int → Nat) (hsym : ∀ a b, len a b = len b a) :
    cable t len = ((uedges t).map fun e => len e.1 e.2).sum := by
  rw [cable_eq_sum_edges]
  unfold uedges
  rw [List.map_map]
  congr 1
  apply List.map_congr_left
  intro e _
  simp only [Function.comp, uedge]
  split
  · rfl
  · exact hsym _ _

/-- **Rerooting does not change the cable length** (any symmetric edge length, e.g. the Euclidean one). -/
theorem cable_reroot {t : Table} (hw : WF t) (len : Int → Int → Nat) (hsym : ∀ a b, len a b = len b a) (r : Int) :
    cable (reroot t r) len = cable t len := by
  rw [cable_eq_sum_uedges _ len hsym, cable_eq_sum_uedges _ len hsym]
  exact ((uedges_reroot_perm hw r).map _).sum_nat

theorem cable_rerootMany {t : Table} (hw : WF t) (len : Int → Int → Nat) (hsym : ∀ a b, len a b = len b a) (rs : List Int) :
    cable (rerootMany t rs) len = cable t len := by
  rw [cable_eq_sum_uedges _ len hsym, cable_eq_sum_uedges _ len hsym]
  exact ((uedges_rerootMany_perm hw rs).map _).sum_nat

theorem wuedges_graphOf (t : Table) (len : Int → Int → Nat) (hsym : ∀ a b, len a b = len b a) :
    wuedges (graphOf t len) = (uedges t).map fun e => (e, len e.1 e.2) := by
  unfold wuedges graphOf uedges
  rw [List.map_map, List.map_map]
  apply List.map_congr_left
  intro e _
  simp only [Function.comp, uedge]
  split
  · rfl
  · simp only [Prod.mk.injEq, true_and]; exact hsym _ _

/-- **Rerooting keeps the undirected edges with their weights** (as a multiset). -/
theorem wuedges_reroot_perm {t : Table} (hw : WF t) (len : Int → Int → Nat) (hsym : ∀ a b, len a b = len b a) (rs : List Int) :
    (wuedges (graphOf (rerootMany t rs) len)).Perm (wuedges (graphOf t len)) := by
  rw [wuedges_graphOf _ len hsym, wuedges_graphOf _ len hsym]
  exact (uedges_rerootMany_perm hw rs).map _

end Navis.TreeEdit
