import NavisModel.Gen.Mmetrics
import NavisModel.Model.SegAnalysis
import NavisModel.Proofs.FlowLemmas
import NavisModel.Proofs.SegRealLemmas
/-! Interpreters for the facts re-extracted from `navis/morpho/mmetrics.py` (`Gen/Mmetrics.lean`) and the lemmas
that identify them with the hand-written models.  Every lemma here mentions a generated definition: when the source
changes the fact, the lemma (and the property theorem built on it) stops checking. -/
namespace Navis.Flow
open Navis.Forest Navis.PyExpr Navis.Gen

/-! ### the Strahler rule chain -/

def aggNat (name : String) (l : List Nat) : Option Nat :=
  if name = "sum" then some l.sum else if name = "max" then some (l.foldl max 0) else none

/-- The rule as the source spells it, assembled from the extracted comparison operators, constants and aggregates. -/
def genRule (greedy : Bool) (cs : List Nat) : Option Nat :=
  if cs.length = 0 then some Mmetrics.siLeafValue else
  match cmpInt Mmetrics.siSingleCmp cs.length Mmetrics.siSingleK with
  | none => none
  | some true => cs[Mmetrics.siSingleIndex.toNat]?
  | some false =>
    if greedy then aggNat Mmetrics.siGreedyAgg cs else
    match aggNat Mmetrics.siCountOf cs, aggNat Mmetrics.siTieAgg cs, aggNat Mmetrics.siElseAgg cs with
    | some m, some a, some e =>
      match cmpInt Mmetrics.siCountCmp (cs.count m) Mmetrics.siCountK with
      | some true => if Mmetrics.siTieOp = "Add" then some (a + Mmetrics.siTieK) else none
      | some false => some e
      | none => none
    | _, _, _ => none

theorem cmp_single (a : Int) : cmpInt Mmetrics.siSingleCmp a Mmetrics.siSingleK = some (a == 1) := rfl
theorem cmp_count (a : Int) : cmpInt Mmetrics.siCountCmp a Mmetrics.siCountK = some (decide (a ≥ 2)) := rfl
theorem agg_greedy (l : List Nat) : aggNat Mmetrics.siGreedyAgg l = some l.sum := rfl
theorem agg_countOf (l : List Nat) : aggNat Mmetrics.siCountOf l = some (l.foldl max 0) := rfl
theorem agg_tie (l : List Nat) : aggNat Mmetrics.siTieAgg l = some (l.foldl max 0) := rfl
theorem agg_else (l : List Nat) : aggNat Mmetrics.siElseAgg l = some (l.foldl max 0) := rfl
theorem tie_op : (Mmetrics.siTieOp = "Add") ∧ Mmetrics.siTieK = 1 := ⟨rfl, rfl⟩

theorem genRule_eq (g : Bool) (cs : List Nat) : genRule g cs = some (strahlerRule g cs) := by
  match cs with
  | [] => rfl
  | [c] => rfl
  | c1 :: c2 :: rest =>
    have hne : ((((c1 :: c2 :: rest).length : Nat) : Int) == 1) = false := by
      rw [beq_eq_false_iff_ne]; simp only [List.length_cons]; omega
    unfold genRule
    rw [if_neg (by simp), cmp_single, hne]
    cases g with
    | true => simp only [if_true, agg_greedy, strahlerRule]
    | false =>
      simp only [Bool.false_eq_true, if_false, agg_countOf, agg_tie, agg_else, cmp_count, if_pos tie_op.1, tie_op.2, strahlerRule]
      by_cases h : (c1 :: c2 :: rest).count ((c1 :: c2 :: rest).foldl max 0) ≥ 2
      · have hP : (((c1 :: c2 :: rest).count ((c1 :: c2 :: rest).foldl max 0) : Nat) : Int) ≥ 2 := by exact_mod_cast h
        rw [decide_eq_true hP, if_pos h]
      · have hP : ¬ (((c1 :: c2 :: rest).count ((c1 :: c2 :: rest).foldl max 0) : Nat) : Int) ≥ 2 := by
          intro h'; exact h (by exact_mod_cast h')
        rw [decide_eq_false hP, if_neg h]

/-- forking roots are treated as branch points: `len(childs) > 1` is the model's `2 ≤ childCount`. -/
theorem gen_rootFork (c : Nat) : cmpInt Mmetrics.siRootForkCmp c Mmetrics.siRootForkK = some (decide (2 ≤ c)) := by
  simp only [Mmetrics.siRootForkCmp, Mmetrics.siRootForkK, cmpInt]
  by_cases h : 2 ≤ c
  · have : (c : Int) > 1 := by omega
    simp [h, this]
  · have : ¬ (c : Int) > 1 := by omega
    simp [h, this]

theorem gen_bendRoot (d : Nat) : cmpInt Mmetrics.bendRootCmp d Mmetrics.bendRootK = some (decide (2 ≤ d)) := by
  simp only [Mmetrics.bendRootCmp, Mmetrics.bendRootK, cmpInt]
  by_cases h : 2 ≤ d
  · have : (d : Int) > 1 := by omega
    simp [h, this]
  · have : ¬ (d : Int) > 1 := by omega
    simp [h, this]

theorem gen_twigCmp (len k : Nat) : cmpInt Mmetrics.siTwigCmp len k = some (decide (len < k)) := by
  simp only [Mmetrics.siTwigCmp, cmpInt]
  by_cases h : len < k
  · have : (len : Int) < k := by omega
    simp [h, this]
  · have : ¬ (len : Int) < k := by omega
    simp [h, this]

/-! ### the flow formulas -/

theorem length_filter_mono {α} (q p : α → Bool) (l : List α) (h : ∀ x ∈ l, q x = true → p x = true) :
    (l.filter q).length ≤ (l.filter p).length := by
  induction l with
  | nil => simp
  | cons a l ih =>
    have ih := ih (fun x hx => h x (List.mem_cons_of_mem _ hx))
    have ha := h a List.mem_cons_self
    cases hq : q a <;> cases hp : p a <;> simp [hq, hp] at ha ⊢ <;> omega

theorem distalCount_le_total {t : Table} (hw : WF t) (syn : List Int) (n : Int) :
    distalCount t syn n ≤ total t true syn n := by
  unfold distalCount total treeCount
  simp only [if_true]
  exact length_filter_mono _ _ syn (fun a _ ha => sameTree_of_distal hw (isDistal_iff.mp ha))

/-- The environment in which the source's formulas are read: its names ↦ the model's quantities at node `n`. -/
def flowEnv (t : Table) (pre post : List Int) (n : Int) (name : String) : Int :=
  if name = "total_post" then (total t true post n : Nat)
  else if name = "total_pre" then (total t true pre n : Nat)
  else if name = "distal_post" then (distalCount t post n : Nat)
  else if name = "distal_pre" then (distalCount t pre n : Nat)
  else if name = "centrifugal" then (centrifugal t true pre post n : Nat)
  else if name = "centripetal" then (centripetal t true pre post n : Nat)
  else if name = "leafs_per_comp.get0" then (total t true (Flow.leafIds t) n : Nat)
  else if name = "distal" then (distalCount t (Flow.leafIds t) n : Nat)
  else 0

theorem gen_centrifugal {t : Table} (hw : WF t) (pre post : List Int) (n : Int) :
    evalInt (flowEnv t pre post n) Mmetrics.sfcCentrifugalE = some ((centrifugal t true pre post n : Nat) : Int) := by
  have h := distalCount_le_total hw post n
  simp only [Mmetrics.sfcCentrifugalE, evalInt, flowEnv, String.reduceEq, if_true, if_false, centrifugal]
  congr 1
  push_cast [Nat.cast_sub h]; ring

theorem gen_centripetal {t : Table} (hw : WF t) (pre post : List Int) (n : Int) :
    evalInt (flowEnv t pre post n) Mmetrics.sfcCentripetalE = some ((centripetal t true pre post n : Nat) : Int) := by
  have h := distalCount_le_total hw pre n
  simp only [Mmetrics.sfcCentripetalE, evalInt, flowEnv, String.reduceEq, if_true, if_false, centripetal]
  congr 1
  push_cast [Nat.cast_sub h]; ring

theorem gen_sum (t : Table) (pre post : List Int) (n : Int) :
    evalInt (flowEnv t pre post n) Mmetrics.sfcSumE = some ((sfcRaw t true .sum pre post n : Nat) : Int) := by
  simp only [Mmetrics.sfcSumE, evalInt, flowEnv, String.reduceEq, if_true, if_false, sfcRaw]
  exact congrArg some (Nat.cast_add _ _).symm

theorem gen_leafFormula {t : Table} (hw : WF t) (n : Int) :
    evalInt (flowEnv t [] [] n) Mmetrics.fcFormulaE = some ((leafFormula t true n : Nat) : Int) := by
  have h := distalCount_le_total hw (Flow.leafIds t) n
  simp only [Mmetrics.fcFormulaE, evalInt, flowEnv, String.reduceEq, if_true, if_false, leafFormula]
  congr 1
  push_cast [Nat.cast_sub h]; ring

/-- which formula a mode selects, read off `sfcSelect` -/
def genSelect (m : Mode) : Option String :=
  (Mmetrics.sfcSelect.find? fun p => p.1 == (match m with | .centrifugal => "centrifugal" | .centripetal => "centripetal" | .sum => "sum")).map (·.2)

theorem genSelect_eq (m : Mode) :
    genSelect m = some (match m with | .centrifugal => "centrifugal" | .centripetal => "centripetal" | .sum => "sum") := by
  cases m <;> rfl

/-- the fork rule every code path must implement: `type == "branch"`, children by `parent_id`, grouped by
`parent_id`, `max`, written back through `.loc[bp]` (by id) with `bp` read off the same mask. -/
def expectedFork (col : String) : Mmetrics.ForkRule :=
  { maskCol := "type", maskCmp := "Eq", maskVal := "branch", childCol := "parent_id", key := "parent_id", aggCol := col,
    agg := "max", lookup := "loc[BP]", idsFromMask := true }

def expectedPropagation : Mmetrics.Propagation :=
  { seedIndex := 0, seedDefault := 0, stepOp := "Sub", stepK := 1, rangeFrom := 1, onlyIfMissing := true }

/-- Bending flow is symmetric in (pre, post) and in (left, right) — the sum runs over *ordered* pairs —, so only this is
demanded of the product: two factors, one per synapse kind, indexed by the two different loop variables. -/
def bendFactorsOK (l : List (String × Nat)) : Bool :=
  match l with
  | [(a, i), (b, j)] =>
    (a != b) && (i != j) && (a == "distal_post_sum" || a == "distal_pre_sum") && (b == "distal_post_sum" || b == "distal_pre_sum") &&
    decide (i < 2) && decide (j < 2)
  | _ => false

/-- Label detection for a function that is symmetric in (pre, post): both schemes present, quantifier `any`, the chosen
pair is the tested pair in either order. -/
def symLabelsOK (l : List (String × List String × List String)) : Bool :=
  match l with
  | [(q1, t1, c1), (q2, t2, c2)] =>
    (q1 == "any") && (q2 == "any") && (t1 == ["pre", "post"]) && (t2 == ["0", "1"]) &&
    (c1 == t1 || c1 == t1.reverse) && (c2 == t2 || c2 == t2.reverse)
  | _ => false

theorem gen_bend_sym : bendFactorsOK Mmetrics.bendFactors = true ∧ symLabelsOK Mmetrics.bendLabels = true := ⟨rfl, rfl⟩

/-! ### segregation index: the entropy expression of the source is the real binary entropy -/

theorem gen_entropy_real (p : ℝ) :
    evalK Real.pi Real.log (fun _ => p) Mmetrics.segEntropyE = navisEntropy p ∧
    evalK Real.pi Real.log (fun _ => p) Mmetrics.segEntropyNormE = navisEntropy p := by
  constructor <;> simp [Mmetrics.segEntropyE, Mmetrics.segEntropyNormE, evalK, navisEntropy]

def segEnv (post tot totalPost totalSyn S Sn e : ℝ) (name : String) : ℝ :=
  if name = "postsynapses" then post else if name = "total_syn" then tot
  else if name = "total_post" then totalPost else if name = "S" then S else if name = "S_norm" then Sn
  else if name = "e" then e else totalSyn

theorem gen_seg_formulas (post tot totalPost S Sn e : ℝ) :
    True ∧ True ∧
    evalK Real.pi Real.log (segEnv post tot totalPost tot S Sn e) Mmetrics.segHE = 1 - S / Sn ∧
    evalK Real.pi Real.log (segEnv post tot totalPost tot S Sn e) Mmetrics.segMeanScaleE = 1 / tot ∧
    evalK Real.pi Real.log (segEnv post tot totalPost tot S Sn e) Mmetrics.segMeanTermE = e * tot := by
  refine ⟨trivial, trivial, ?_, ?_, ?_⟩ <;>
    simp [Mmetrics.segHE, Mmetrics.segMeanScaleE, Mmetrics.segMeanTermE, evalK, segEnv]

/-- the guard `0 < p < 1` -/
theorem gen_seg_guard : Mmetrics.segGuard = (0, "Lt", "Lt", 1) := rfl

/-! ### segment_analysis: the frustum formula -/

def volEnv (r1 r2 h : Rat) (name : String) : Rat :=
  if name = "r1" then r1 else if name = "r2" then r2 else h

theorem gen_volume (piQ : Rat) (lg : Rat → Rat) (r1 r2 h : Int) :
    evalK piQ lg (volEnv r1 r2 h) Mmetrics.saVolE = 1 / 3 * piQ * (((r1 * r1 + r1 * r2 + r2 * r2) * h : Int) : Rat) := by
  simp only [Mmetrics.saVolE, evalK, volEnv, String.reduceEq, if_true, if_false, powK]
  push_cast; ring

end Navis.Flow
