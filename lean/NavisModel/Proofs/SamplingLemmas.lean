import NavisModel.Model.Sampling
import NavisModel.Proofs.OpsWF
/-! C13 second pass: the parametrised as-written downsampling (`Model/Sampling.lean`) instantiated with the rule the
translator extracts today *is* `Forest.downsample` (the model every downsampling theorem is about) — including the
glue the first pass left to the harness: `preserve_nodes=None`, the soma ids appended to the fix points, rational
(float) factors, the sentinel `list_of_parents[-1] = -1`, the early return.  Core Lean only. -/
namespace Navis.Sampling
open Navis.Forest Navis.Resample

/-! ### generic list helpers -/

theorem lookupD_functional {l : List (Int × Int)} {F : Int → Int} (hF : ∀ e ∈ l, e.2 = F e.1) {k : Int} (d : Int)
    (hk : ∃ e ∈ l, e.1 = k) : lookupD l k d = F k := by
  obtain ⟨e, he, hek⟩ := hk
  obtain ⟨e', he', hk', hl⟩ := lookupD_mem (m := l) d (k := k) (List.mem_map.mpr ⟨e, he, hek⟩)
  rw [hl, hF e' he', hk']

theorem any_key_iff {l : List (Int × Int)} {k : Int} : (l.any fun e => e.1 == k) = true ↔ ∃ e ∈ l, e.1 = k := by
  simp [List.any_eq_true]

theorem mem_appendSoma (fix soma : List Int) (s : Int) : s ∈ appendSoma fix soma ↔ s ∈ fix ∨ s ∈ soma := by
  unfold appendSoma
  induction soma generalizing fix with
  | nil => simp
  | cons a rest ih =>
    rw [List.foldl_cons, ih]
    by_cases h : fix.contains a = true
    · rw [if_pos h]
      have : a ∈ fix := by simpa using h
      constructor
      · rintro (h1 | h1)
        · exact Or.inl h1
        · exact Or.inr (List.mem_cons_of_mem _ h1)
      · rintro (h1 | h1)
        · exact Or.inl h1
        · rcases List.mem_cons.mp h1 with rfl | h2
          · exact Or.inl this
          · exact Or.inr h2
    · rw [if_neg h]
      constructor
      · rintro (h1 | h1)
        · rcases List.mem_append.mp h1 with h2 | h2
          · exact Or.inl h2
          · exact Or.inr (by rw [List.mem_singleton.mp h2]; exact List.mem_cons_self)
        · exact Or.inr (List.mem_cons_of_mem _ h1)
      · rintro (h1 | h1)
        · exact Or.inl (List.mem_append_left _ h1)
        · rcases List.mem_cons.mp h1 with rfl | h2
          · exact Or.inl (List.mem_append_right _ (List.mem_singleton.mpr rfl))
          · exact Or.inr h2

/-! ### the scan and the walk for `walkRule0` -/

theorem parentsG_rule0 {t : Table} (hpos : ∀ n ∈ t, 0 ≤ n.id) (i : Int) :
    parentsG walkRule0 t i = (parentOf t i).getD (-1) := by
  unfold parentsG
  by_cases h : i = -1
  · subst h
    have : parentOf t (-1) = none := by
      unfold parentOf
      cases hf : find? t (-1) with
      | none => rfl
      | some n =>
        obtain ⟨hn, hid⟩ := find?_some hf
        have := hpos n hn
        omega
    simp [walkRule0, this]
  · have : (i == walkRule0.sentinelKey) = false := by simpa [walkRule0] using h
    rw [this]; rfl

/-- `i < q` for an integer counter is `i < ⌈q⌉`: a float factor acts as its ceiling. -/
theorem loopTest_rule0 (q : Option Rat) (i : Nat) :
    (!(loopTest walkRule0 q ((i : Nat) : Int))) = dsLimit (q.map ceilNat) i := by
  cases q with
  | none => simp [loopTest, walkRule0, Cmp.evalInf, dsLimit]
  | some f =>
    simp only [loopTest, walkRule0, Cmp.evalRat, dsLimit, Option.map_some, ceilNat]
    have h := @Rat.lt_ceil_iff f (i : Int)
    by_cases hc : ((i : Int) : Rat) < f
    · have h1 : (i : Int) < f.ceil := h.mpr hc
      have : ¬ f.ceil.toNat ≤ i := by omega
      simp [hc, this]
    · have h1 : ¬ (i : Int) < f.ceil := fun h' => hc (h.mp h')
      have : f.ceil.toNat ≤ i := by omega
      simp [hc, this]

theorem scanG_rule0 {t : Table} (hpos : ∀ n ∈ t, 0 ≤ n.id) (fixB : Int → Bool) (q : Option Rat) (fuel : Nat)
    (p : Int) (i : Nat) :
    scanG walkRule0 t fixB q fuel p ((i : Nat) : Int) = dsScan t fixB (q.map ceilNat) fuel p i := by
  induction fuel generalizing p i with
  | zero => rfl
  | succ g ih =>
    rw [dsScan_succ]
    unfold scanG
    rw [loopTest_rule0]
    by_cases h1 : dsLimit (q.map ceilNat) i = true
    · rw [if_pos h1, if_pos h1]
    · rw [if_neg h1, if_neg h1]
      have e : ((walkRule0.stopMem && fixB p) || walkRule0.stopRootCmp.evalInt p walkRule0.stopRootK) =
          (decide (p < 0) || fixB p) := by
        simp only [walkRule0, Cmp.evalInt, Bool.true_and]
        rw [Bool.or_comm]
      rw [e]
      by_cases h2 : (decide (p < 0) || fixB p) = true
      · rw [if_pos h2, if_pos h2]
      · rw [if_neg h2, if_neg h2, parentsG_rule0 hpos]
        have : ((i : Nat) : Int) + walkRule0.loopStep = ((i + 1 : Nat) : Int) := by simp [walkRule0]
        rw [this]
        exact ih _ _

/-- What the outer loop records for `this`, in terms of the hand-written scan. -/
theorem recG_rule0 {t : Table} (hpos : ∀ n ∈ t, 0 ≤ n.id) (fixB : Int → Bool) (q : Option Rat) (this : Int) :
    recG walkRule0 t fixB q this =
      if 0 ≤ (parentOf t this).getD (-1) then dsScan t fixB (q.map ceilNat) (t.length + 1) ((parentOf t this).getD (-1)) 0
      else (-1, true) := by
  unfold recG
  rw [parentsG_rule0 hpos]
  have e : walkRule0.contCmp.evalInt ((parentOf t this).getD (-1)) walkRule0.contK = decide (0 ≤ (parentOf t this).getD (-1)) := by
    simp [walkRule0, Cmp.evalInt]
  rw [e]
  by_cases h : 0 ≤ (parentOf t this).getD (-1)
  · rw [if_pos h]
    simp only [h, decide_true, if_true]
    have := scanG_rule0 hpos fixB q (t.length + 1) ((parentOf t this).getD (-1)) 0
    simpa [walkRule0] using this
  · rw [if_neg h]
    simp [h, walkRule0]

theorem walkG_succ (r : WalkRule) (t : Table) (stopB : Int → Bool) (q : Option Rat) (fuel : Nat) (this : Int) :
    walkG r t stopB q (fuel + 1) this =
      if (recG r t stopB q this).2 then [(this, (recG r t stopB q this).1)]
      else (this, (recG r t stopB q this).1) :: walkG r t stopB q fuel (recG r t stopB q this).1 := rfl

theorem walkG_filter_rule0 {t : Table} (hpos : ∀ n ∈ t, 0 ≤ n.id) (fixB : Int → Bool) (q : Option Rat) (fuel : Nat)
    (this : Int) :
    (walkG walkRule0 t fixB q fuel this).filter (fun e => (ids t).contains e.1) =
      dsWalk t fixB (q.map ceilNat) fuel this := by
  induction fuel generalizing this with
  | zero => rfl
  | succ g ih =>
    rw [dsWalk_succ, walkG_succ]
    cases hp : parentOf t this with
    | none =>
      have hnot : this ∉ ids t := by
        intro hm
        obtain ⟨p, hp'⟩ := parentOf_isSome_of_mem hm
        rw [hp] at hp'; cases hp'
      have hr : recG walkRule0 t fixB q this = (-1, true) := by
        rw [recG_rule0 hpos, hp]; simp
      rw [hr]
      simp [hnot]
    | some p =>
      have hin : this ∈ ids t := by
        obtain ⟨n, _, hn, hid, _⟩ := parentOf_some hp
        exact mem_ids.mpr ⟨n, hn, hid⟩
      by_cases hneg : p < 0
      · have hr : recG walkRule0 t fixB q this = (-1, true) := by
          rw [recG_rule0 hpos, hp]
          simp only [Option.getD_some]
          rw [if_neg (by omega)]
        rw [hr]
        simp [hin, hneg]
      · have hr : recG walkRule0 t fixB q this = dsScan t fixB (q.map ceilNat) (t.length + 1) p 0 := by
          rw [recG_rule0 hpos, hp]
          simp only [Option.getD_some]
          rw [if_pos (by omega)]
        rw [hr]
        simp only [hneg, if_false]
        by_cases hs : (dsScan t fixB (q.map ceilNat) (t.length + 1) p 0).2 = true
        · rw [if_pos hs, if_pos hs]
          simp [hin]
        · rw [if_neg hs, if_neg hs, List.filter_cons]
          simp only [List.contains_eq_mem, hin, decide_true, if_true]
          rw [← ih]
          simp

theorem walkG_functional (r : WalkRule) (t : Table) (stopB : Int → Bool) (q : Option Rat) (fuel : Nat) (this : Int) :
    ∀ e ∈ walkG r t stopB q fuel this, e.2 = (recG r t stopB q e.1).1 := by
  induction fuel generalizing this with
  | zero => intro e he; simp [walkG] at he
  | succ g ih =>
    intro e he
    rw [walkG_succ] at he
    by_cases h : (recG r t stopB q this).2 = true
    · rw [if_pos h] at he
      rw [List.mem_singleton.mp he]
    · rw [if_neg h] at he
      rcases List.mem_cons.mp he with rfl | h'
      · rfl
      · exact ih _ e h'

/-! ### the whole function -/

/-- Membership in the fix-point list of the as-written code = the fix predicate of the hand-written model. -/
theorem fix_contains_rule0 {t : Table} (hw : WF t) (pres : Option (List Int)) (soma : List Int)
    (hs : ∀ s ∈ soma, s ∈ ids t) (i : Int) :
    (appendSoma ((t.filter (selG walkRule0 pres)).map (·.id)) soma).contains i = dsFix t (pres.getD [] ++ soma) i := by
  rw [Bool.eq_iff_iff, List.contains_iff_mem, mem_appendSoma]
  unfold dsFix
  cases hf : find? t i with
  | none =>
    have hnot := find?_none hf
    constructor
    · rintro (h | h)
      · obtain ⟨n, hn, rfl⟩ := List.mem_map.mp h
        exact absurd (mem_ids_of_mem (List.mem_filter.mp hn).1) hnot
      · exact absurd (hs i h) hnot
    · intro h; simp at h
  | some n =>
    obtain ⟨hn, hid⟩ := find?_some hf
    have hsel : selG walkRule0 pres n = (n.label != .slab || (pres.getD []).contains i) := by
      unfold selG
      cases pres with
      | none => simp [walkRule0]
      | some P => simp [walkRule0, hid]
    constructor
    · rintro (h | h)
      · obtain ⟨m, hm, hmid⟩ := List.mem_map.mp h
        obtain ⟨hmt, hmsel⟩ := List.mem_filter.mp hm
        have : m = n := by
          have h1 := find?_of_mem hw.1 hmt
          rw [hmid, hf] at h1
          exact (Option.some.inj h1).symm
        subst this
        rw [hsel] at hmsel
        simp only [Bool.or_eq_true, List.contains_eq_mem, List.mem_append, decide_eq_true_eq] at hmsel ⊢
        rcases hmsel with h1 | h1
        · exact Or.inl h1
        · exact Or.inr (Or.inl h1)
      · simp only [Bool.or_eq_true, List.contains_eq_mem, List.mem_append, decide_eq_true_eq]
        exact Or.inr (Or.inr h)
    · intro h
      simp only [Bool.or_eq_true, List.contains_eq_mem, List.mem_append, decide_eq_true_eq] at h
      rcases h with h | h | h
      · left
        exact List.mem_map.mpr ⟨n, List.mem_filter.mpr ⟨hn, by rw [hsel]; simp [h]⟩, hid⟩
      · left
        exact List.mem_map.mpr ⟨n, List.mem_filter.mpr ⟨hn, by rw [hsel]; simp [h]⟩, hid⟩
      · exact Or.inr h

theorem mem_starts_rule0 {t : Table} (hw : WF t) (pres : Option (List Int)) (soma : List Int)
    (hs : ∀ s ∈ soma, s ∈ ids t) (i : Int) :
    i ∈ appendSoma ((t.filter (selG walkRule0 pres)).map (·.id)) soma ↔
      i ∈ (ids t).filter (dsFix t (pres.getD [] ++ soma)) := by
  have h := fix_contains_rule0 hw pres soma hs i
  rw [List.mem_filter, ← h, List.contains_iff_mem]
  constructor
  · intro hi
    refine ⟨?_, hi⟩
    rcases (mem_appendSoma _ _ _).mp hi with h1 | h1
    · obtain ⟨n, hn, rfl⟩ := List.mem_map.mp h1
      exact mem_ids_of_mem (List.mem_filter.mp hn).1
    · exact hs i h1
  · exact fun h => h.2

/-- The final table only depends on the pair list through its entries with a key in the table, provided the
list is functional. -/
theorem table_of_pairs_congr {t : Table} {A B : List (Int × Int)} {F : Int → Int}
    (hA : ∀ e ∈ A, e.2 = F e.1) (hmem : ∀ e, (e ∈ A ∧ e.1 ∈ ids t) ↔ e ∈ B) :
    ((t.filter fun n => A.any fun e => e.1 == n.id).map fun n => { n with parent := lookupD A.reverse n.id n.parent }) =
    ((t.filter fun n => B.any fun e => e.1 == n.id).map fun n => { n with parent := lookupD B.reverse n.id n.parent }) := by
  have hB : ∀ e ∈ B, e.2 = F e.1 := fun e he => hA e ((hmem e).mpr he).1
  have hkey : ∀ n ∈ t, (∃ e ∈ A, e.1 = n.id) ↔ ∃ e ∈ B, e.1 = n.id := by
    intro n hn
    constructor
    · rintro ⟨e, he, hk⟩
      exact ⟨e, (hmem e).mp ⟨he, hk ▸ mem_ids_of_mem hn⟩, hk⟩
    · rintro ⟨e, he, hk⟩
      exact ⟨e, ((hmem e).mpr he).1, hk⟩
  have hfilt : (t.filter fun n => A.any fun e => e.1 == n.id) = t.filter fun n => B.any fun e => e.1 == n.id := by
    apply List.filter_congr
    intro n hn
    rw [Bool.eq_iff_iff, any_key_iff, any_key_iff]
    exact hkey n hn
  rw [hfilt]
  apply List.map_congr_left
  intro n hn
  obtain ⟨hnt, hany⟩ := List.mem_filter.mp hn
  have hk2 : ∃ e ∈ B, e.1 = n.id := any_key_iff.mp hany
  have hk1 : ∃ e ∈ A, e.1 = n.id := (hkey n hnt).mpr hk2
  have l1 : lookupD A.reverse n.id n.parent = F n.id :=
    lookupD_functional (fun e he => hA e (List.mem_reverse.mp he)) n.parent
      (by obtain ⟨e, he, hk⟩ := hk1; exact ⟨e, List.mem_reverse.mpr he, hk⟩)
  have l2 : lookupD B.reverse n.id n.parent = F n.id :=
    lookupD_functional (fun e he => hB e (List.mem_reverse.mp he)) n.parent
      (by obtain ⟨e, he, hk⟩ := hk2; exact ⟨e, List.mem_reverse.mpr he, hk⟩)
  rw [l1, l2]

/-- A floored factor compared with an integer counter: `⌈(⌊q⌋ : Rat)⌉ = ⌊q⌋`. -/
theorem effFactor_rule0 (q : Option Rat) : (effFactor walkRule0 q).map ceilNat = q.map floorNat := by
  cases q with
  | none => rfl
  | some f => simp [effFactor, walkRule0, ceilNat, floorNat]

/-- **The as-written code with today's rule is the hand-written model** (`⌊q⌋` for a float factor: it is rounded down
before the walk; `pres = none` for `preserve_nodes=None`; the soma ids, which navis appends to the fix points, act as
preserved nodes). -/
theorem downsampleG_rule0 {t : Table} (hw : WF t) (q : Option Rat) (pres : Option (List Int)) (soma : List Int)
    (hs : ∀ s ∈ soma, s ∈ ids t) :
    downsampleG walkRule0 t q pres soma = downsample t (q.map floorNat) (pres.getD [] ++ soma) := by
  have hpos := hw.2.1
  rw [← effFactor_rule0, downsample_eq]
  unfold downsampleG
  have e0 : walkRule0.smallCmp.evalInt (t.length : Int) walkRule0.smallK = decide (t.length ≤ 1) := by
    simp only [walkRule0, Cmp.evalInt]
    rw [Bool.eq_iff_iff, decide_eq_true_iff, decide_eq_true_iff]
    omega
  rw [e0]
  by_cases hlen : t.length ≤ 1
  · simp [hlen]
  · simp only [hlen, decide_false, Bool.false_eq_true, if_false]
    simp only [show walkRule0.stopSetHasSoma = true from rfl, show walkRule0.startsHaveSoma = true from rfl, if_true]
    have hstop : (fun i => (appendSoma ((t.filter (selG walkRule0 pres)).map (·.id)) soma).contains i) =
        dsFix t (pres.getD [] ++ soma) := funext (fix_contains_rule0 hw pres soma hs)
    rw [hstop]
    congr 1
    apply table_of_pairs_congr (F := fun k => (recG walkRule0 t (dsFix t (pres.getD [] ++ soma)) (effFactor walkRule0 q) k).1)
    · intro e he
      obtain ⟨s, _, hes⟩ := List.mem_flatMap.mp he
      exact walkG_functional _ _ _ _ _ _ e hes
    · intro e
      unfold dsPairs
      constructor
      · rintro ⟨he, hk⟩
        obtain ⟨s, hs', hes⟩ := List.mem_flatMap.mp he
        refine List.mem_flatMap.mpr ⟨s, (mem_starts_rule0 hw pres soma hs s).mp hs', ?_⟩
        rw [← walkG_filter_rule0 hpos]
        exact List.mem_filter.mpr ⟨hes, by simpa using hk⟩
      · intro he
        obtain ⟨s, hs', hes⟩ := List.mem_flatMap.mp he
        rw [← walkG_filter_rule0 hpos] at hes
        obtain ⟨h1, h2⟩ := List.mem_filter.mp hes
        exact ⟨List.mem_flatMap.mpr ⟨s, (mem_starts_rule0 hw pres soma hs s).mpr hs', h1⟩, by simpa using h2⟩

/-! ### resampling: the parametrised segment loop for `resRule0` is `Resample.plan` -/

theorem sampleCountG_rule0 (total res : Rat) : sampleCountG resRule0 total res = sampleCount total res := by
  unfold sampleCountG sampleCount
  simp only [resRule0, Cmp.evalRat, CountFn.eval]
  by_cases h : total < res
  · simp [h]
  · simp [h]

theorem cntG_rule0 (len : Int → Int → Nat) (res : Rat) : cntG resRule0 len res = cntOf len res := by
  funext s
  unfold cntG cntOf
  exact sampleCountG_rule0 _ _

theorem baseG_rule0 (t : Table) : baseG resRule0 t = maxId t + 1 := rfl

theorem linkPairs_eq_zip : ∀ l : List Int, linkPairs l = l.dropLast.zip l.tail
  | [] => rfl
  | [_] => rfl
  | a :: b :: rest => by
    rw [linkPairs, linkPairs_eq_zip (b :: rest)]
    simp [List.dropLast]

theorem pySlice_dropLast (l : List Int) : pySlice l none (some (-1)) = l.dropLast := by
  unfold pySlice pyBound
  simp only [List.drop_zero]
  rw [List.dropLast_eq_take]
  congr 1
  simp only [show ¬ (0 : Int) ≤ -1 by omega, if_false]
  have : (-(-1 : Int)).toNat = 1 := rfl
  rw [this]
  omega

theorem pySlice_tail (l : List Int) : pySlice l (some 1) none = l.tail := by
  unfold pySlice pyBound
  simp only [show (0 : Int) ≤ 1 by omega, if_true, List.take_length]
  cases l with
  | nil => rfl
  | cons a rest =>
    have : min (1 : Int).toNat (a :: rest).length = 1 := by
      simp only [List.length_cons]
      have : (1 : Int).toNat = 1 := rfl
      rw [this]; omega
    rw [this]; rfl

theorem pySlice_head (a : Int) (rest : List Int) : pySlice (a :: rest) none (some 1) = [a] := by
  unfold pySlice pyBound
  simp only [show (0 : Int) ≤ 1 by omega, if_true, List.drop_zero]
  have : min (1 : Int).toNat (a :: rest).length = 1 := by
    simp only [List.length_cons]
    have : (1 : Int).toNat = 1 := rfl
    rw [this]; omega
  rw [this]; rfl

theorem drop_len_pred (d : Int) : ∀ (l : List Int), l ≠ [] → l.drop (l.length - 1) = [l.getLastD d]
  | [], h => absurd rfl h
  | [a], _ => rfl
  | a :: b :: rest, _ => by
    have := drop_len_pred d (b :: rest) (by simp)
    simpa using this

theorem pySlice_last (a : Int) (rest : List Int) : pySlice (a :: rest) (some (-1)) none = [(a :: rest).getLastD (-1)] := by
  unfold pySlice pyBound
  simp only [show ¬ (0 : Int) ≤ -1 by omega, if_false, List.take_length]
  have h1 : (-(-1 : Int)).toNat = 1 := rfl
  rw [h1]
  have h2 : (a :: rest).length - min 1 (a :: rest).length = (a :: rest).length - 1 := by
    simp only [List.length_cons]; omega
  rw [h2]
  exact drop_len_pred (-1) (a :: rest) (by simp)

theorem pyIndex_zero (l : List Int) : (pyIndex l 0).getD (-1) = segFirst l := by
  unfold pyIndex segFirst
  cases l <;> simp

theorem pyIndex_neg_one (l : List Int) : (pyIndex l (-1)).getD (-1) = segLast l := by
  unfold pyIndex segLast
  simp only [show ¬ (0 : Int) ≤ -1 by omega, if_false]
  have h1 : (-(-1 : Int)).toNat = 1 := rfl
  rw [h1]
  cases l with
  | nil => simp
  | cons a rest =>
    have hne : a :: rest ≠ [] := by simp
    have hlen : 1 ≤ (a :: rest).length := by simp
    rw [if_pos hlen, List.getLastD_eq_getLast?, List.getLast?_eq_getElem?]

theorem segRowsG_rule0 (s : List Int) (hs : s ≠ []) (base : Int) (c : Option Nat) :
    segRowsG resRule0 s base c =
      match c with
      | none => (segRows ⟨segFirst s, segLast s, base, 0⟩, base)
      | some n => (segRows ⟨segFirst s, segLast s, base, n - 2⟩, base + ((n - 2 : Nat) : Int) + 2) := by
  cases c with
  | none =>
    simp only [segRowsG, resRule0, pyIndex_zero, pyIndex_neg_one]
    rfl
  | some n =>
    obtain ⟨a, rest, rfl⟩ := List.exists_cons_of_ne_nil hs
    simp only [segRowsG, resRule0, pySlice_head, pySlice_last, pySlice_dropLast, pySlice_tail]
    have hf : segFirst (a :: rest) = a := rfl
    have hl : segLast (a :: rest) = (a :: rest).getLastD (-1) := rfl
    rw [hf, hl]
    have hids : [a] ++ fresh base (n - 2) ++ [(a :: rest).getLastD (-1)] =
        newIds a ((a :: rest).getLastD (-1)) base (n - 2) := by simp [newIds]
    rw [hids]
    refine Prod.ext ?_ ?_
    · simp only [segRows, segChain]
      rw [linkPairs_eq_zip]
    · simp only [newIds, List.length_cons, List.length_append, List.length_nil, fresh, List.length_map, List.length_range]
      omega

theorem planG_rule0 (cnt : List Int → Option Nat) (segs : List (List Int)) (hne : ∀ s ∈ segs, s ≠ []) (base : Int) :
    planG resRule0 cnt segs base = (plan cnt segs base).flatMap segRows := by
  induction segs generalizing base with
  | nil => rfl
  | cons s rest ih =>
    have hs := hne s List.mem_cons_self
    have hr : ∀ s' ∈ rest, s' ≠ [] := fun s' h => hne s' (List.mem_cons_of_mem _ h)
    rw [planG, segRowsG_rule0 s hs, plan]
    cases hc : cnt s with
    | none => simp only [List.flatMap_cons]; rw [ih hr]
    | some n => simp only [List.flatMap_cons]; rw [ih hr]

theorem smallSegments_ne_nil (t : Table) : ∀ s ∈ smallSegments t, s ≠ [] := by
  intro s hs
  unfold smallSegments at hs
  obtain ⟨n, _, rfl⟩ := List.mem_map.mp hs
  simp

/-- **The parametrised resampling structure with today's rule is the hand-written `resampleStruct`.** -/
theorem resampleStructG_rule0 (t : Table) (cnt : List Int → Option Nat) :
    resampleStructG resRule0 t cnt = resampleStruct t cnt := by
  unfold resampleStructG resampleStruct allLinks planOf
  rw [baseG_rule0, planG_rule0 cnt _ (smallSegments_ne_nil t)]
  rfl

end Navis.Sampling
