import NavisModel.Proofs.HealConnLemmas
/-!
C11 helper lemmas, part 3 (core Lean only): Kruskal on the fragment quotient graph.

* union–find invariant: two fragments carry the same label iff the accepted edges connect them;
* the accepted edges are acyclic on the quotient graph and, together with the old edges, on the nodes;
* every candidate edge ends up inside one class (spanning);
* cut property: every accepted edge is a lightest candidate edge across some cut of the quotient graph.
-/
namespace Navis.Heal
open Navis.Forest

/-! ### sorting (local copies, to stay independent of other properties' lemma files) -/

theorem insertBy_perm' {α} (lt : α → α → Bool) (x : α) (l : List α) : (insertBy lt x l).Perm (x :: l) := by
  induction l with
  | nil => simp [insertBy]
  | cons y ys ih =>
    unfold insertBy
    split
    · exact ((List.Perm.cons y ih).trans (List.Perm.swap x y ys))
    · exact List.Perm.refl _

theorem sortBy_perm' {α} (lt : α → α → Bool) (l : List α) : (sortBy lt l).Perm l := by
  induction l with
  | nil => simp [sortBy]
  | cons x xs ih => exact (insertBy_perm' lt x _).trans (List.Perm.cons x ih)

theorem insertBy_pairwise' {α} {R : α → α → Prop} (lt : α → α → Bool) (htr : ∀ a b c, R a b → R b c → R a c)
    (h1 : ∀ y x, lt y x = true → R y x) (h2 : ∀ y x, lt y x = false → R x y) (x : α) (l : List α)
    (hl : l.Pairwise R) : (insertBy lt x l).Pairwise R := by
  induction l with
  | nil => simp [insertBy]
  | cons y ys ih =>
    rw [List.pairwise_cons] at hl
    unfold insertBy
    cases hlt : lt y x with
    | true =>
      simp only [if_true]
      rw [List.pairwise_cons]
      refine ⟨?_, ih hl.2⟩
      intro z hz
      rcases List.mem_cons.mp ((insertBy_perm' lt x ys).mem_iff.mp hz) with h | h
      · rw [h]; exact h1 y x hlt
      · exact hl.1 z h
    | false =>
      simp only [Bool.false_eq_true, if_false]
      rw [List.pairwise_cons, List.pairwise_cons]
      refine ⟨?_, hl⟩
      intro z hz
      rcases List.mem_cons.mp hz with h | h
      · rw [h]; exact h2 y x hlt
      · exact htr _ _ _ (h2 y x hlt) (hl.1 z h)

theorem sortBy_pairwise' {α} {R : α → α → Prop} (lt : α → α → Bool) (htr : ∀ a b c, R a b → R b c → R a c)
    (h1 : ∀ y x, lt y x = true → R y x) (h2 : ∀ y x, lt y x = false → R x y) (l : List α) :
    (sortBy lt l).Pairwise R := by
  induction l with
  | nil => simp [sortBy]
  | cons x xs ih => exact insertBy_pairwise' lt htr h1 h2 x _ ih

/-- `e` is not after `f` in the order of candidate edges. -/
def CEdge.le (e f : CEdge) : Prop := f.lt e = false

theorem CEdge.le_d2 {e f : CEdge} (h : e.le f) : e.d2 ≤ f.d2 := by
  unfold CEdge.le CEdge.lt at h
  simp only [Bool.or_eq_false_iff, decide_eq_false_iff_not, Bool.and_eq_false_iff] at h
  omega

theorem sortEdges_perm (l : List CEdge) : (sortEdges l).Perm l := sortBy_perm' _ l

theorem sortEdges_sorted (l : List CEdge) : (sortEdges l).Pairwise CEdge.le := by
  apply sortBy_pairwise'
  · intro a b c h1 h2
    unfold CEdge.le CEdge.lt at *
    simp only [Bool.or_eq_false_iff, decide_eq_false_iff_not, Bool.and_eq_false_iff, beq_eq_false_iff_ne, ne_eq,
      beq_iff_eq] at *
    omega
  · intro y x h
    unfold CEdge.le
    simpa using h
  · intro y x h
    unfold CEdge.le
    have hxy : x.lt y = true := by simpa using h
    unfold CEdge.lt at *
    simp only [Bool.or_eq_true, decide_eq_true_eq, Bool.and_eq_true, beq_iff_eq, Bool.or_eq_false_iff,
      decide_eq_false_iff_not, Bool.and_eq_false_iff, beq_eq_false_iff_ne, ne_eq] at *
    omega

/-! ### union–find steps -/

theorem kStep_mono (s : KState) (e : CEdge) {x y : Int} (h : s.comp x = s.comp y) :
    (kStep s e).comp x = (kStep s e).comp y := by
  unfold kStep
  split
  · exact h
  · simp only [merge]; rw [h]

theorem kStep_joins (s : KState) (e : CEdge) : (kStep s e).comp e.fa = (kStep s e).comp e.fb := by
  unfold kStep
  split
  · rename_i h; exact h
  · rename_i h
    simp only [merge]
    rw [if_neg h]
    simp

theorem foldl_kStep_mono (l : List CEdge) (s : KState) {x y : Int} (h : s.comp x = s.comp y) :
    (l.foldl kStep s).comp x = (l.foldl kStep s).comp y := by
  induction l generalizing s with
  | nil => exact h
  | cons e rest ih => exact ih _ (kStep_mono s e h)

/-- After the fold both ends of every processed edge carry the same label. -/
theorem foldl_kStep_joins (l : List CEdge) (s : KState) : ∀ e ∈ l, (l.foldl kStep s).comp e.fa = (l.foldl kStep s).comp e.fb := by
  induction l generalizing s with
  | nil => simp
  | cons x rest ih =>
    intro e he
    rcases List.mem_cons.mp he with rfl | he
    · exact foldl_kStep_mono rest _ (kStep_joins s e)
    · exact ih _ e he

theorem kStep_added (s : KState) (e x : CEdge) (h : x ∈ (kStep s e).added) :
    x ∈ s.added ∨ (x = e ∧ s.comp e.fa ≠ s.comp e.fb) := by
  unfold kStep at h
  split at h
  · exact Or.inl h
  · rename_i hne
    rcases List.mem_append.mp h with h | h
    · exact Or.inl h
    · simp at h; exact Or.inr ⟨h, hne⟩

/-- Every accepted edge was accepted at some point of the scan, joining two different classes. -/
theorem foldl_kStep_added (l : List CEdge) (s : KState) {x : CEdge} (h : x ∈ (l.foldl kStep s).added) :
    x ∈ s.added ∨ ∃ pre post, l = pre ++ x :: post ∧
      (pre.foldl kStep s).comp x.fa ≠ (pre.foldl kStep s).comp x.fb := by
  induction l generalizing s with
  | nil => exact Or.inl h
  | cons e rest ih =>
    rcases ih (kStep s e) h with h1 | ⟨pre, post, h2, h3⟩
    · rcases kStep_added s e x h1 with h4 | ⟨h4, h5⟩
      · exact Or.inl h4
      · right; exact ⟨[], rest, by rw [h4]; rfl, by rw [h4]; exact h5⟩
    · right; exact ⟨e :: pre, post, by rw [h2]; rfl, h3⟩

theorem kruskal_sub (es : List CEdge) : ∀ e ∈ kruskal es, e ∈ es := by
  intro e he
  unfold kruskal at he
  rcases foldl_kStep_added _ _ he with h | ⟨pre, post, h, _⟩
  · simp [kInit] at h
  · exact (sortEdges_perm es).mem_iff.mp (by rw [h]; simp)

/-- Both ends of every candidate edge are in one class at the end. -/
theorem kruskal_joins (es : List CEdge) :
    ∀ e ∈ es, ((sortEdges es).foldl kStep kInit).comp e.fa = ((sortEdges es).foldl kStep kInit).comp e.fb := by
  intro e he
  exact foldl_kStep_joins _ _ e ((sortEdges_perm es).mem_iff.mpr he)

/-- **Cut property.** Every accepted edge is a lightest candidate edge across a cut of the quotient
graph (the class of one of its ends at the moment it is accepted). -/
theorem kruskal_cut (es : List CEdge) : ∀ e ∈ kruskal es,
    ∃ S : Int → Prop, S e.fa ∧ ¬ S e.fb ∧ ∀ c ∈ es, (S c.fa ↔ ¬ S c.fb) → e.le c := by
  intro e he
  unfold kruskal at he
  rcases foldl_kStep_added _ _ he with h | ⟨pre, post, hsplit, hne⟩
  · simp [kInit] at h
  · let sk := pre.foldl kStep kInit
    refine ⟨fun x => sk.comp x = sk.comp e.fa, rfl, fun h => hne h.symm, ?_⟩
    intro c hc hcross
    have hc' : c ∈ pre ++ e :: post := by rw [← hsplit]; exact (sortEdges_perm es).mem_iff.mpr hc
    have hsorted := sortEdges_sorted es
    rw [hsplit, List.pairwise_append] at hsorted
    rcases List.mem_append.mp hc' with hp | hp
    · -- already joined before `e` was scanned: cannot cross the cut
      exfalso
      have hj : sk.comp c.fa = sk.comp c.fb := foldl_kStep_joins pre kInit c hp
      simp only at hcross
      rw [hj] at hcross
      exact (iff_not_self hcross)
    · rcases List.mem_cons.mp hp with rfl | hp
      · unfold CEdge.le
        unfold CEdge.lt
        simp
      · exact (List.pairwise_cons.mp hsorted.2.1).1 c hp

/-! ### the union–find invariant on the quotient graph -/

/-- Quotient edges (fragment pairs) of a list of accepted edges. -/
def qE (l : List CEdge) : EL := l.map fun e => (e.fa, e.fb)

theorem qE_append (a b : List CEdge) : qE (a ++ b) = qE a ++ qE b := by simp [qE]

structure QInv (s : KState) : Prop where
  conn : ∀ x y, Conn (qE s.added) x y ↔ s.comp x = s.comp y
  acyc : Acyc (qE s.added)

theorem QInv.init : QInv kInit := by
  refine ⟨?_, by simp [kInit, qE, Acyc.nil]⟩
  intro x y
  simp only [kInit, qE, List.map_nil, id]
  constructor
  · intro h
    induction h with
    | refl => rfl
    | step _ hadj _ => rcases hadj with h | h <;> simp at h
  · rintro rfl; exact .refl _

theorem Conn.snoc_split {E : EL} {e : Int × Int} {u v : Int} (h : Conn (E ++ [e]) u v) :
    Conn E u v ∨ (Conn E u e.1 ∧ Conn E e.2 v) ∨ (Conn E u e.2 ∧ Conn E e.1 v) := by
  apply Conn.cons_split
  exact h.of_subset fun x hx => by
    rcases List.mem_append.mp hx with h | h
    · exact List.mem_cons_of_mem _ h
    · simp at h; rw [h]; exact List.mem_cons_self

theorem Acyc.snoc {E : EL} (h : Acyc E) {a b : Int} (hn : ¬ Conn E a b) : Acyc (E ++ [(a, b)]) :=
  (h.cons hn).perm (List.perm_append_singleton _ _).symm

theorem QInv.step {s : KState} (h : QInv s) (e : CEdge) : QInv (kStep s e) := by
  unfold kStep
  split
  · exact h
  · rename_i hne
    have hnc : ¬ Conn (qE s.added) e.fa e.fb := fun hc => hne ((h.conn _ _).mp hc)
    refine ⟨?_, by simp only [qE_append]; exact h.acyc.snoc hnc⟩
    intro x y
    simp only [qE_append, merge]
    have hnew : Adj (qE s.added ++ qE [e]) e.fa e.fb := Or.inl (by simp [qE])
    have hold : ∀ {u v}, Conn (qE s.added) u v → Conn (qE s.added ++ qE [e]) u v :=
      fun hc => hc.of_subset fun z hz => List.mem_append_left _ hz
    constructor
    · intro hc
      have hc' : Conn (qE s.added ++ [(e.fa, e.fb)]) x y := by simpa [qE] using hc
      rcases hc'.snoc_split with h0 | ⟨h1, h2⟩ | ⟨h1, h2⟩
      · rw [(h.conn _ _).mp h0]
      · have e1 := (h.conn _ _).mp h1
        have e2 := (h.conn _ _).mp h2
        simp only at e1 e2
        rw [if_neg (by rw [e1]; exact hne), if_pos e2.symm, e1]
      · have e1 := (h.conn _ _).mp h1
        have e2 := (h.conn _ _).mp h2
        simp only at e1 e2
        rw [if_pos e1, if_neg (by rw [← e2]; exact hne), e2]
    · intro heq
      by_cases hx : s.comp x = s.comp e.fb <;> by_cases hy : s.comp y = s.comp e.fb
      · exact hold ((h.conn _ _).mpr (hx.trans hy.symm))
      · rw [if_pos hx, if_neg hy] at heq
        have c1 := hold ((h.conn _ _).mpr hx)
        have c2 := hold ((h.conn _ _).mpr heq)
        exact (c1.trans (Conn.single hnew.symm)).trans c2
      · rw [if_neg hx, if_pos hy] at heq
        have c1 := hold ((h.conn _ _).mpr heq)
        have c2 := hold ((h.conn _ _).mpr hy)
        exact (c1.trans (Conn.single hnew)).trans c2.symm
      · rw [if_neg hx, if_neg hy] at heq
        exact hold ((h.conn _ _).mpr heq)

theorem QInv.foldl (l : List CEdge) {s : KState} (h : QInv s) : QInv (l.foldl kStep s) := by
  induction l generalizing s with
  | nil => exact h
  | cons e rest ih => exact ih (h.step e)

theorem kruskal_QInv (es : List CEdge) : QInv ((sortEdges es).foldl kStep kInit) := QInv.init.foldl _

/-- The accepted edges are acyclic on the quotient graph … -/
theorem kruskal_acyc (es : List CEdge) : Acyc (qE (kruskal es)) := (kruskal_QInv es).acyc

/-- … and connect the two fragments of every candidate edge (maximal spanning forest). -/
theorem kruskal_spans (es : List CEdge) : ∀ c ∈ es, Conn (qE (kruskal es)) c.fa c.fb := by
  intro c hc
  exact ((kruskal_QInv es).conn _ _).mpr (kruskal_joins es c hc)

/-! ### lifting to the nodes -/

/-- A candidate edge joins two table nodes and records their fragments. -/
def Valid (t : Table) (e : CEdge) : Prop :=
  e.a ∈ ids t ∧ e.b ∈ ids t ∧ fragOf t e.a = e.fa ∧ fragOf t e.b = e.fb

theorem fragOf_eq_of_Conn {t : Table} (hw : WF t) {a b : Int} (h : Conn (uedges t) a b) : fragOf t a = fragOf t b := by
  unfold fragOf; rw [rootOf_eq_of_Conn hw h]

theorem Conn_of_fragOf_eq {t : Table} (hw : WF t) {a b : Int} (ha : a ∈ ids t) (hb : b ∈ ids t)
    (h : fragOf t a = fragOf t b) : Conn (uedges t) a b := by
  obtain ⟨ra, h1, _, h3⟩ := Conn_rootOf hw ha
  obtain ⟨rb, h4, _, h6⟩ := Conn_rootOf hw hb
  unfold fragOf at h
  rw [h1, h4] at h
  simp only [Option.getD_some] at h
  subst h
  exact h3.trans h6.symm

theorem adj_addedU {A : List CEdge} {x y : Int} (h : Adj (addedU A) x y) :
    ∃ e ∈ A, (x = e.a ∧ y = e.b) ∨ (x = e.b ∧ y = e.a) := by
  unfold addedU at h
  rcases h with h | h
  · obtain ⟨e, he, heq⟩ := List.mem_map.mp h
    exact ⟨e, he, uedge_cases heq.symm⟩
  · obtain ⟨e, he, heq⟩ := List.mem_map.mp h
    refine ⟨e, he, ?_⟩
    rcases uedge_cases heq.symm with ⟨h1, h2⟩ | ⟨h1, h2⟩
    · exact Or.inr ⟨h2, h1⟩
    · exact Or.inl ⟨h2, h1⟩

theorem adj_addedU_of_mem {A : List CEdge} {e : CEdge} (he : e ∈ A) : Adj (addedU A) e.a e.b := by
  have hm : uedge e.a e.b ∈ addedU A := List.mem_map.mpr ⟨e, he, rfl⟩
  unfold uedge at hm
  split at hm
  · exact Or.inl hm
  · exact Or.inr hm

/-- Node-level connectivity through old and added edges implies quotient-level connectivity. -/
theorem lift_down {t : Table} (hw : WF t) {A : List CEdge} (hv : ∀ e ∈ A, Valid t e) {i j : Int}
    (h : Conn (addedU A ++ uedges t) i j) : Conn (qE A) (fragOf t i) (fragOf t j) := by
  induction h with
  | refl => exact .refl _
  | @step b c _ hadj ih =>
    have : Adj (addedU A) b c ∨ Adj (uedges t) b c := by
      rcases hadj with h | h
      · rcases List.mem_append.mp h with h | h
        · exact Or.inl (Or.inl h)
        · exact Or.inr (Or.inl h)
      · rcases List.mem_append.mp h with h | h
        · exact Or.inl (Or.inr h)
        · exact Or.inr (Or.inr h)
    rcases this with h | h
    · obtain ⟨e, he, hc⟩ := adj_addedU h
      obtain ⟨_, _, h3, h4⟩ := hv e he
      have hq : Adj (qE A) e.fa e.fb := Or.inl (List.mem_map.mpr ⟨e, he, rfl⟩)
      rcases hc with ⟨h1, h2⟩ | ⟨h1, h2⟩
      · rw [h2, h4]; rw [h1, h3] at ih; exact .step ih hq
      · rw [h2, h3]; rw [h1, h4] at ih; exact .step ih hq.symm
    · rw [← fragOf_eq_of_Conn hw (Conn.single h)]; exact ih

/-- … and conversely for table nodes. -/
theorem lift_up {t : Table} (hw : WF t) {A : List CEdge} (hv : ∀ e ∈ A, Valid t e) {x y : Int}
    (h : Conn (qE A) x y) : ∀ i j, i ∈ ids t → j ∈ ids t → fragOf t i = x → fragOf t j = y →
      Conn (addedU A ++ uedges t) i j := by
  have hB : ∀ {u v}, Conn (uedges t) u v → Conn (addedU A ++ uedges t) u v :=
    fun hc => hc.of_subset fun z hz => List.mem_append_right _ hz
  induction h with
  | refl =>
    intro i j hi hj h1 h2
    exact hB (Conn_of_fragOf_eq hw hi hj (h1.trans h2.symm))
  | @step z y _ hadj ih =>
    intro i j hi hj h1 h2
    have : ∃ e ∈ A, (z = e.fa ∧ y = e.fb) ∨ (z = e.fb ∧ y = e.fa) := by
      unfold qE at hadj
      rcases hadj with h | h
      · obtain ⟨e, he, heq⟩ := List.mem_map.mp h
        exact ⟨e, he, Or.inl ⟨(congrArg Prod.fst heq).symm, (congrArg Prod.snd heq).symm⟩⟩
      · obtain ⟨e, he, heq⟩ := List.mem_map.mp h
        exact ⟨e, he, Or.inr ⟨(congrArg Prod.snd heq).symm, (congrArg Prod.fst heq).symm⟩⟩
    obtain ⟨e, he, hc⟩ := this
    obtain ⟨va, vb, h3, h4⟩ := hv e he
    have hnew : Adj (addedU A ++ uedges t) e.a e.b :=
      (adj_addedU_of_mem he).elim (fun h => Or.inl (List.mem_append_left _ h)) (fun h => Or.inr (List.mem_append_left _ h))
    rcases hc with ⟨hz, hy⟩ | ⟨hz, hy⟩
    · have c1 := ih i e.a hi va h1 (h3.trans hz.symm)
      have c2 := hB (Conn_of_fragOf_eq hw vb hj (h4.trans (hy.symm.trans h2.symm)))
      exact (c1.step hnew).trans c2
    · have c1 := ih i e.b hi vb h1 (h4.trans hz.symm)
      have c2 := hB (Conn_of_fragOf_eq hw va hj (h3.trans (hy.symm.trans h2.symm)))
      exact (c1.step hnew.symm).trans c2

/-- Node-level invariant of the scan: old + accepted edges stay acyclic. -/
structure NInv (t : Table) (s : KState) : Prop where
  q : QInv s
  valid : ∀ e ∈ s.added, Valid t e
  acyc : Acyc (addedU s.added ++ uedges t)

theorem NInv.init {t : Table} (hw : WF t) : NInv t kInit :=
  ⟨QInv.init, by simp [kInit], by simpa [kInit, addedU] using Acyc_uedges hw⟩

theorem NInv.step {t : Table} (hw : WF t) {s : KState} (h : NInv t s) {e : CEdge} (hv : Valid t e) :
    NInv t (kStep s e) := by
  refine ⟨h.q.step e, ?_, ?_⟩
  · intro x hx
    rcases kStep_added s e x hx with h1 | ⟨h1, _⟩
    · exact h.valid x h1
    · rw [h1]; exact hv
  · unfold kStep
    split
    · exact h.acyc
    · rename_i hne
      have hnc : ¬ Conn (addedU s.added ++ uedges t) e.a e.b := by
        intro hc
        have := lift_down hw h.valid hc
        rw [hv.2.2.1, hv.2.2.2] at this
        exact hne ((h.q.conn _ _).mp this)
      have hperm : ((uedge e.a e.b) :: (addedU s.added ++ uedges t)).Perm (addedU (s.added ++ [e]) ++ uedges t) := by
        unfold addedU
        simp only [List.map_append, List.map_cons, List.map_nil, List.append_assoc]
        exact (List.perm_middle).symm
      apply Acyc.perm _ hperm
      unfold uedge
      split
      · exact h.acyc.cons hnc
      · exact h.acyc.cons (fun hc => hnc hc.symm)

theorem NInv.foldl {t : Table} (hw : WF t) (l : List CEdge) (hv : ∀ e ∈ l, Valid t e) {s : KState} (h : NInv t s) :
    NInv t (l.foldl kStep s) := by
  induction l generalizing s with
  | nil => exact h
  | cons e rest ih =>
    exact ih (fun x hx => hv x (List.mem_cons_of_mem _ hx)) (h.step hw (hv e List.mem_cons_self))

theorem kruskal_NInv {t : Table} (hw : WF t) (es : List CEdge) (hv : ∀ e ∈ es, Valid t e) :
    NInv t ((sortEdges es).foldl kStep kInit) :=
  (NInv.init hw).foldl hw _ (fun e he => hv e ((sortEdges_perm es).mem_iff.mp he))

end Navis.Heal
