import NavisModel.Proofs.PathLemmas
/-! The executable well-formedness check `wfB` decides `WF` (core Lean only). -/
namespace Navis.Forest

theorem nodupB_iff (l : List Int) : nodupB l = true ↔ l.Nodup := by
  induction l with
  | nil => simp [nodupB]
  | cons x xs ih =>
    simp only [nodupB, Bool.and_eq_true, Bool.not_eq_true', List.nodup_cons, ih]
    constructor
    · rintro ⟨h1, h2⟩; exact ⟨by simpa using h1, h2⟩
    · rintro ⟨h1, h2⟩; exact ⟨by simpa using h1, h2⟩

/-- More fuel does not change a walk that already reaches a root. -/
theorem pathToRoot_fuel_succ (t : Table) (f : Nat) (i : Int) (h : reachesRoot t f i = true) :
    pathToRoot t (f + 1) i = pathToRoot t f i := by
  induction f generalizing i with
  | zero => simp [reachesRoot] at h
  | succ f ih =>
    unfold reachesRoot at h
    rw [pathToRoot]
    conv => rhs; rw [pathToRoot]
    cases hf : find? t i with
    | none => rw [hf] at h
    | some n =>
      rw [hf] at h
      simp only at h ⊢
      by_cases hp : n.parent < 0
      · simp only [hp, if_true]
      · simp only [hp, if_false] at h ⊢
        rw [ih _ h]

theorem reachesRoot_parent {t : Table} {f : Nat} {i : Int} {n : Node} (hf : find? t i = some n) (hp : ¬ n.parent < 0)
    (h : reachesRoot t (f + 1) i = true) : reachesRoot t f n.parent = true := by
  unfold reachesRoot at h
  rw [hf] at h
  simpa [hp] using h

/-- **Soundness**: a table accepted by the executable check is a well-formed forest. -/
theorem wfB_sound {t : Table} (h : wfB t = true) : WF t := by
  unfold wfB at h
  simp only [Bool.and_eq_true, List.all_eq_true, decide_eq_true_eq, Bool.or_eq_true, List.contains_eq_mem] at h
  obtain ⟨⟨⟨h1, h2⟩, h3⟩, h4⟩ := h
  have hnd := (nodupB_iff _).mp h1
  refine ⟨hnd, h2, fun i => (rootPath t i).length, ?_⟩
  intro n hn
  by_cases hp : n.parent < 0
  · exact Or.inl hp
  · right
    have hpin : n.parent ∈ ids t := by
      rcases h3 n hn with h | h
      · exact absurd h hp
      · exact h
    refine ⟨hpin, ?_⟩
    have hf := find?_of_mem hnd hn
    have hr := reachesRoot_parent hf hp (h4 n hn)
    have e1 : rootPath t n.id = n.id :: pathToRoot t t.length n.parent := by
      unfold rootPath
      rw [pathToRoot, hf]; simp [hp]
    have e2 : rootPath t n.parent = pathToRoot t t.length n.parent := by
      unfold rootPath; exact pathToRoot_fuel_succ t _ _ hr
    show (rootPath t n.parent).length < (rootPath t n.id).length
    rw [e1, e2]; simp

/-- **Completeness**: every well-formed forest is accepted (the check raises no false alarm). -/
theorem wfB_complete {t : Table} (hw : WF t) : wfB t = true := by
  have hpar := WF_parents hw
  unfold wfB
  simp only [Bool.and_eq_true, List.all_eq_true, decide_eq_true_eq, Bool.or_eq_true, List.contains_eq_mem]
  refine ⟨⟨⟨(nodupB_iff _).mpr hw.1, hw.2.1⟩, hpar⟩, ?_⟩
  intro n hn
  rw [reachesRoot_iff_ends]
  exact rootPath_ends hw n.id (mem_ids_of_mem hn)

theorem wfB_iff (t : Table) : wfB t = true ↔ WF t := ⟨wfB_sound, wfB_complete⟩

/-- `labelsOKB` means what the property says: every label is the one its child count and parent demand. -/
theorem labelsOKB_iff (t : Table) :
    labelsOKB t = true ↔ ∀ n ∈ t, n.label = labelOf (childCount t n.id) (n.parent < 0) := by
  simp [labelsOKB, List.all_eq_true]

end Navis.Forest
