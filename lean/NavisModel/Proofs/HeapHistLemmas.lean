import NavisModel.Proofs.HeapLemmas
import NavisModel.Proofs.HeapTraceLemmas
/-!
Helper definitions and lemmas for C03: HISTORIES — `x = f₁(x, inplace=i₁); x = f₂(x, inplace=i₂); …` with the `inplace` flags chosen
arbitrarily per step.
-/
namespace Navis.Heap

/-- a history: per step the body of the function and the `inplace` flag the caller chose; the value is threaded through -/
def runHist : List (List Stmt × Bool) → Store × Ref → Store × Ref
  | [], st => st
  | op :: h, st => runHist h (call op.1 st.1 st.2 op.2)

/-- the address-free run of the same bodies: flags play no role -/
def ahist (a : Abs) (h : List (List Stmt × Bool)) : Abs := h.foldl (fun a op => aexec a op.1) a

theorem runHist_append (h h' : List (List Stmt × Bool)) : ∀ st, runHist (h ++ h') st = runHist h' (runHist h st) := by
  induction h with
  | nil => intro st; rfl
  | cons op h ih => intro st; exact ih _

theorem runHist_abs : ∀ (h : List (List Stmt × Bool)) (st : Store × Ref), Sep st.1 st.2 →
    Sep (runHist h st).1 (runHist h st).2 ∧ (runHist h st).1.abs (runHist h st).2 = ahist (st.1.abs st.2) h := by
  intro h; induction h with
  | nil => intro st hs; exact ⟨hs, rfl⟩
  | cons op h ih =>
    intro st hs
    obtain ⟨b, ip⟩ := op
    have hstep : Sep (call b st.1 st.2 ip).1 (call b st.1 st.2 ip).2 ∧
        (call b st.1 st.2 ip).1.abs (call b st.1 st.2 ip).2 = aexec (st.1.abs st.2) b := by
      cases ip with
      | true => exact call_abs_inplace b hs false
      | false =>
        have := call_abs_copy b hs false
        simpa using this
    obtain ⟨h1, h2⟩ := ih _ hstep.1
    refine ⟨h1, ?_⟩
    show (runHist h (call b st.1 st.2 ip)).1.abs (runHist h (call b st.1 st.2 ip)).2 = ahist (aexec (st.1.abs st.2) b) h
    rw [h2, hstep.2]

/-- once the threaded value is an object allocated after `s0` that owns its containers, the rest of the history — whatever the
flags — only touches cells allocated after `s0` -/
theorem runHist_inv {s0 : Store} : ∀ (h : List (List Stmt × Bool)) (st : Store × Ref) (v : Bool),
    (∀ op ∈ h, writesOwn true op.1 = true) → Inv s0 st.1 st.2 v → st.2 < st.1.objs.length →
    Ext s0 (runHist h st).1 := by
  intro h; induction h with
  | nil => intro st v _ hi _; exact hi.ext
  | cons op h ih =>
    intro st v hw hi hy
    obtain ⟨b, ip⟩ := op
    have hwb : writesOwn true b = true := hw (b, ip) (List.mem_cons_self)
    have hwh : ∀ op ∈ h, writesOwn true op.1 = true := fun op ho => hw op (List.mem_cons_of_mem _ ho)
    cases ip with
    | true =>
      obtain ⟨h1, h2⟩ := exec_inv b st.1 v hy hi (writesOwn_mono b v hwb)
      exact ih (exec st.1 st.2 b, st.2) _ hwh h1 h2
    | false =>
      show Ext s0 (runHist h (call b st.1 st.2 false)).1
      simp only [call, Bool.false_eq_true, if_false]
      have hlen : st.1.objs.length < (copyObj st.1 st.2 false).1.objs.length := by rw [copyObj_objs_length]; omega
      have hc : Inv s0 (copyObj st.1 st.2 false).1 st.1.objs.length true := (copyObj_inv st.1 st.2 false).weaken hi.ext
      rw [copyObj_snd]
      obtain ⟨h1, h2⟩ := exec_inv b _ true hlen hc hwb
      exact ih (_, st.1.objs.length) _ hwh h1 h2

/-- all flags `true`: the very object passed in is handed back -/
theorem runHist_all_inplace : ∀ (h : List (List Stmt × Bool)) (st : Store × Ref), (∀ op ∈ h, op.2 = true) →
    (runHist h st).2 = st.2 := by
  intro h; induction h with
  | nil => intro st _; rfl
  | cons op h ih =>
    intro st hall
    have h1 : op.2 = true := hall op List.mem_cons_self
    show (runHist h (call op.1 st.1 st.2 op.2)).2 = st.2
    rw [ih _ (fun o ho => hall o (List.mem_cons_of_mem _ ho)), h1]
    rfl

/-- the object space never shrinks along a history, and once the threaded value is fresh it stays fresh -/
theorem runHist_fresh (n : Nat) : ∀ (h : List (List Stmt × Bool)) (st : Store × Ref), n ≤ st.1.objs.length →
    (n ≤ st.2 ∨ ∃ op ∈ h, op.2 = false) → n ≤ (runHist h st).2 := by
  intro h; induction h with
  | nil =>
    intro st _ hh
    rcases hh with hh | ⟨op, ho, _⟩
    · exact hh
    · cases ho
  | cons op h ih =>
    intro st hn hh
    obtain ⟨b, ip⟩ := op
    have hle := call_objs_length_le b st.1 st.2 ip false
    show n ≤ (runHist h (call b st.1 st.2 ip)).2
    cases ip with
    | false =>
      refine ih _ (Nat.le_trans hn hle) (.inl ?_)
      rw [call_snd_false]; exact hn
    | true =>
      refine ih _ (Nat.le_trans hn hle) ?_
      rcases hh with hh | ⟨op, ho, hf⟩
      · exact .inl hh
      · rcases List.mem_cons.mp ho with e | ho
        · subst e; cases hf
        · exact .inr ⟨op, ho, hf⟩

/-- a non-inplace step followed by ANY history (arbitrary flags) leaves the store it started from untouched -/
theorem runHist_frame_after_copy (b : List Stmt) (post : List (List Stmt × Bool)) (st : Store × Ref)
    (hb : writesOwn true b = true) (hw : ∀ op ∈ post, writesOwn true op.1 = true) :
    Ext st.1 (runHist ((b, false) :: post) st).1 := by
  show Ext st.1 (runHist post (call b st.1 st.2 false)).1
  simp only [call, Bool.false_eq_true, if_false]
  have hlen : st.1.objs.length < (copyObj st.1 st.2 false).1.objs.length := by rw [copyObj_objs_length]; omega
  rw [copyObj_snd]
  obtain ⟨h1, h2⟩ := exec_inv b _ true hlen (copyObj_inv st.1 st.2 false) hb
  exact runHist_inv post (_, st.1.objs.length) _ hw h1 h2

theorem ahist_bodies (h : List (List Stmt × Bool)) (a : Abs) : ahist a h = (h.map (·.1)).foldl aexec a := by
  simp [ahist, List.foldl_map]

/-! ## histories of NeuronList operators -/

inductive ListOp where
  | add (o : Ref)
  | filter (keep : Ref → Bool)
  | orOne (o : Ref) (present : Bool)
  | orList (extra : List Ref)

def applyListOp (s : Store) (l : Ref) : ListOp → Store × Ref
  | .add o => listAdd s l o
  | .filter keep => listFilter s l keep
  | .orOne o present => listOr s l o present
  | .orList extra => listOrList s l extra

/-- `nl = nl + a; nl = nl - b; nl = nl | c; …` — the list value is threaded through -/
def runListOps : List ListOp → Store × Ref → Store × Ref
  | [], st => st
  | op :: ops, st => runListOps ops (applyListOp st.1 st.2 op)

theorem applyListOp_ext (s : Store) (l : Ref) (op : ListOp) :
    Ext s (applyListOp s l op).1 ∧ (applyListOp s l op).2 = s.lists.length := by
  cases op <;> exact ⟨(Ext.refl s).allocLst _, rfl⟩

theorem runListOps_ext : ∀ (ops : List ListOp) (st : Store × Ref), Ext st.1 (runListOps ops st).1 := by
  intro ops; induction ops with
  | nil => intro st; exact Ext.refl _
  | cons op ops ih => intro st; exact (applyListOp_ext st.1 st.2 op).1.trans (ih _)

theorem runListOps_fresh (n : Nat) : ∀ (ops : List ListOp) (st : Store × Ref), n ≤ st.1.lists.length →
    (n ≤ st.2 ∨ ops ≠ []) → n ≤ (runListOps ops st).2 := by
  intro ops; induction ops with
  | nil =>
    intro st _ h
    rcases h with h | h
    · exact h
    · exact absurd rfl h
  | cons op ops ih =>
    intro st hn _
    obtain ⟨he, h2⟩ := applyListOp_ext st.1 st.2 op
    exact ih _ (Nat.le_trans hn he.llen) (.inl (by rw [h2]; exact hn))

end Navis.Heap
