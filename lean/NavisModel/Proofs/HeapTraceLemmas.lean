import NavisModel.Proofs.HeapLemmas
/-!
Helper lemmas for C03, second part: what the event traces extracted from the source say about the RESULT of a call
(identity and end state), not only about the frame.

* `runTrace_fresh` — on a trace without `retIn`, once a guard has run the name holds an object allocated after the
  call started (so the object returned by a non-inplace call is not the input);
* `runTrace_snoc_retIn` — a trace ending in `retIn` returns the input object itself;
* `runTrace_equiv` — on a trace without `writeIn` / `retIn` / `lostDelegate` the in-place run and the copying run end
  in the same observable state;
* `lostDelegate_differs` — `[guard, lostDelegate]` ends in different observable states with and without `inplace`.
-/
namespace Navis.Heap

theorem step_objs_length (t : Store) (o : Ref) (st : Stmt) : (step t o st).objs.length = t.objs.length := by
  cases st with
  | wr a f =>
    simp only [step]
    cases (t.obj o).get a <;> simp
  | rebind a f => simp [step, Store.setObj]
  | setMeta f => simp [step, Store.setObj]
  | thaw =>
    simp only [step]
    split
    · cases (t.obj o).graph <;> simp [Store.setObj]
    · rfl
  | clear a => simp [step, Store.setObj]

theorem exec_objs_length (b : List Stmt) : ∀ (t : Store) (o : Ref), (exec t o b).objs.length = t.objs.length := by
  induction b with
  | nil => intro t o; rfl
  | cons st b ih =>
    intro t o
    show (exec (step t o st) o b).objs.length = _
    rw [ih, step_objs_length]

theorem call_objs_length_le (b : List Stmt) (s : Store) (x : Ref) (ip stale : Bool) :
    s.objs.length ≤ (call b s x ip stale).1.objs.length := by
  cases ip
  · simp only [call, Bool.false_eq_true, if_false]
    rw [exec_objs_length, copyObj_objs_length]; omega
  · simp only [call, if_true]
    rw [exec_objs_length]; omega

/-- one event never shrinks the object space -/
theorem runEv_objs_le (f : Abs → Int) (x0 : Ref) (ip : Bool) (st : Store × Ref) (e : Ev) :
    st.1.objs.length ≤ (runEv f x0 ip st e).1.objs.length := by
  cases e with
  | guard =>
    simp only [runEv]
    split
    · exact Nat.le_refl _
    · rw [copyObj_objs_length]; omega
  | write => simp only [runEv]; rw [step_objs_length]; omega
  | writeIn => simp only [runEv]; rw [step_objs_length]; omega
  | delegate => exact Nat.le_refl _
  | branch => exact Nat.le_refl _
  | retIn => exact Nat.le_refl _
  | lostDelegate => exact call_objs_length_le _ _ _ _ false

/-- **freshness of the result.**  On a trace without `retIn`: if the name already holds an object allocated at or
after address `n` (≤ the current size of the object space), or a guard is still to come, the name ends up holding an
object allocated at or after `n`. -/
theorem runTrace_fresh (f : Abs → Int) (x0 : Ref) (n : Nat) : ∀ (t : List Ev) (st : Store × Ref),
    t.contains .retIn = false → n ≤ st.1.objs.length → (n ≤ st.2 ∨ t.contains .guard = true) →
    n ≤ (t.foldl (runEv f x0 false) st).2 := by
  intro t; induction t with
  | nil =>
    intro st _ _ h
    rcases h with h | h
    · exact h
    · simp at h
  | cons e t ih =>
    intro st hr hn h
    have hr' : t.contains .retIn = false := by
      simp only [List.contains_cons, Bool.or_eq_false_iff] at hr; exact hr.2
    simp only [List.foldl_cons]
    have hle := runEv_objs_le f x0 false st e
    cases e with
    | guard =>
      refine ih _ hr' (Nat.le_trans hn hle) (.inl ?_)
      simp only [runEv, Bool.false_eq_true, if_false]
      rw [copyObj_snd]; exact hn
    | retIn => simp at hr
    | write =>
      refine ih _ hr' (Nat.le_trans hn hle) ?_
      rcases h with h | h
      · exact .inl h
      · exact .inr (by simpa using h)
    | writeIn =>
      refine ih _ hr' (Nat.le_trans hn hle) ?_
      rcases h with h | h
      · exact .inl h
      · exact .inr (by simpa using h)
    | delegate =>
      refine ih _ hr' (Nat.le_trans hn hle) ?_
      rcases h with h | h
      · exact .inl h
      · exact .inr (by simpa using h)
    | branch =>
      refine ih _ hr' (Nat.le_trans hn hle) ?_
      rcases h with h | h
      · exact .inl h
      · exact .inr (by simpa using h)
    | lostDelegate =>
      refine ih _ hr' (Nat.le_trans hn hle) ?_
      rcases h with h | h
      · exact .inl h
      · exact .inr (by simpa using h)

/-- a trace that ends in `retIn` hands back the input object -/
theorem runTrace_snoc_retIn (f : Abs → Int) (t : List Ev) (s : Store) (x : Ref) (ip : Bool) :
    (runTrace f (t ++ [.retIn]) s x ip).2 = x := by
  simp [runTrace, List.foldl_append, runEv]

/-! ## in-place run and copying run of a trace end in the same observable state -/

/-- abs of a fresh, non-stale copy -/
theorem copy_sep_fresh {s : Store} {x : Ref} (h : Sep s x) :
    Sep (copyObj s x false).1 (copyObj s x false).2 ∧ (copyObj s x false).1.abs (copyObj s x false).2 = s.abs x := by
  rw [copyObj_snd]
  have := copy_sep h false
  simpa using this

theorem runTrace_equiv (f : Abs → Int) (x0 : Ref) : ∀ (t : List Ev) (a b : Store × Ref),
    t.contains .writeIn = false → t.contains .retIn = false → t.contains .lostDelegate = false →
    Sep a.1 a.2 → Sep b.1 b.2 → a.1.abs a.2 = b.1.abs b.2 →
    (t.foldl (runEv f x0 true) a).1.abs (t.foldl (runEv f x0 true) a).2 =
      (t.foldl (runEv f x0 false) b).1.abs (t.foldl (runEv f x0 false) b).2 := by
  intro t; induction t with
  | nil => intro a b _ _ _ _ _ h; exact h
  | cons e t ih =>
    intro a b hw hr hl ha hb hab
    have hw' : t.contains .writeIn = false := by
      simp only [List.contains_cons, Bool.or_eq_false_iff] at hw; exact hw.2
    have hr' : t.contains .retIn = false := by
      simp only [List.contains_cons, Bool.or_eq_false_iff] at hr; exact hr.2
    have hl' : t.contains .lostDelegate = false := by
      simp only [List.contains_cons, Bool.or_eq_false_iff] at hl; exact hl.2
    simp only [List.foldl_cons]
    cases e with
    | guard =>
      obtain ⟨h1, h2⟩ := copy_sep_fresh hb
      refine ih _ _ hw' hr' hl' ?_ ?_ ?_
      · simpa [runEv] using ha
      · simpa [runEv] using h1
      · simp only [runEv, if_true, Bool.false_eq_true, if_false]; rw [h2]; exact hab
    | write =>
      obtain ⟨h1, h2⟩ := step_abs ha (.wr .nodes f)
      obtain ⟨h3, h4⟩ := step_abs hb (.wr .nodes f)
      refine ih _ _ hw' hr' hl' ?_ ?_ ?_
      · simpa [runEv] using h1
      · simpa [runEv] using h3
      · simp only [runEv]; rw [h2, h4, hab]
    | writeIn => simp at hw
    | delegate => exact ih a b hw' hr' hl' ha hb hab
    | branch => exact ih a b hw' hr' hl' ha hb hab
    | retIn => simp at hr
    | lostDelegate => simp at hl

/-! ## a discarded delegation makes the two runs differ -/

theorem astep_bump_ne {a : Abs} (h : a.nodes ≠ none) : astep a (.wr .nodes bump) ≠ a := by
  intro he
  cases hn : a.nodes with
  | none => exact h hn
  | some v =>
    have hg : a.get .nodes = some v := hn
    rw [astep_wr_some bump hg] at he
    have := congrArg Abs.nodes he
    simp [Abs.set, bump, hn] at this
    omega

theorem lostDelegate_differs {s : Store} {x : Ref} (hx : Sep s x) (hn : (s.obj x).nodes ≠ none) :
    (runTrace bump [.guard, .lostDelegate] s x true).1.abs (runTrace bump [.guard, .lostDelegate] s x true).2 ≠
      (runTrace bump [.guard, .lostDelegate] s x false).1.abs (runTrace bump [.guard, .lostDelegate] s x false).2 := by
  -- in place: the callee writes into x
  have hin : (runTrace bump [.guard, .lostDelegate] s x true).1.abs (runTrace bump [.guard, .lostDelegate] s x true).2 =
      astep (s.abs x) (.wr .nodes bump) := by
    simp only [runTrace, List.foldl_cons, List.foldl_nil, runEv, if_true]
    exact (call_abs_inplace [.wr .nodes bump] hx false).2
  -- copying: the callee writes into a second copy, the object that is returned keeps the input's state
  obtain ⟨h1, h2⟩ := copy_sep_fresh hx
  have hout : (runTrace bump [.guard, .lostDelegate] s x false).1.abs (runTrace bump [.guard, .lostDelegate] s x false).2 =
      s.abs x := by
    simp only [runTrace, List.foldl_cons, List.foldl_nil, runEv, Bool.false_eq_true, if_false]
    have he := lostDelegate_ext bump (copyObj s x false).1 (copyObj s x false).2
    rw [(Sep.of_ext he h1).2, h2]
  rw [hin, hout]
  apply astep_bump_ne
  intro h0
  apply hn
  have : (s.abs x).nodes = (s.obj x).nodes.map s.rd := rfl
  rw [this] at h0
  cases hq : (s.obj x).nodes with
  | none => rfl
  | some q => rw [hq] at h0; simp at h0

/-- the conjuncts of `okTrace` -/
theorem okTrace_parts {t : List Ev} (h : okTrace t = true) :
    noWriteBeforeGuard t = true ∧ t.contains .writeIn = false ∧ t.contains .retIn = false ∧
      t.contains .lostDelegate = false ∧ (t.contains .guard || t.contains .delegate || t.contains .branch) = true := by
  simp only [okTrace, Bool.and_eq_true, Bool.not_eq_true'] at h
  exact ⟨h.1.1.1.1, h.1.1.1.2, h.1.1.2, h.1.2, h.2⟩

end Navis.Heap
