import NavisModel.Model.Voxel
import Mathlib.Tactic.Linarith
import Mathlib.Tactic.Ring
import Mathlib.Tactic.FieldSimp
/-! Helper lemmas for C19: half-to-even rounding, voxel indices, counting, tangents, alpha. -/
namespace Navis.Voxel

/-! ## rounding -/

theorem floor_le' (q : Rat) : (q.floor : Rat) ≤ q := Rat.floor_le q

theorem lt_floor_add_one' (q : Rat) : q < (q.floor : Rat) + 1 := by
  have := Rat.lt_floor_add_one q
  push_cast at this
  exact this

/-- The three branches of `roundHalfEven`, with what each one knows. -/
theorem round_cases (q : Rat) :
    (roundHalfEven q = q.floor ∧ q - (q.floor : Rat) ≤ 1 / 2) ∨
    (roundHalfEven q = q.floor + 1 ∧ 1 / 2 ≤ q - (q.floor : Rat)) := by
  unfold roundHalfEven
  split
  · left; exact ⟨rfl, by linarith⟩
  · split
    · right; exact ⟨rfl, by linarith⟩
    · rename_i h1 h2
      have h : q - (q.floor : Rat) = 1 / 2 := le_antisymm (not_lt.mp h2) (not_lt.mp h1)
      split
      · left; exact ⟨rfl, by linarith⟩
      · right; exact ⟨rfl, by linarith⟩

theorem round_lt_half (q : Rat) (h : q - (q.floor : Rat) < 1 / 2) : roundHalfEven q = q.floor := by
  unfold roundHalfEven; rw [if_pos h]

theorem round_gt_half (q : Rat) (h : 1 / 2 < q - (q.floor : Rat)) : roundHalfEven q = q.floor + 1 := by
  unfold roundHalfEven
  rw [if_neg (by linarith), if_pos h]

theorem round_tie (q : Rat) (h : q - (q.floor : Rat) = 1 / 2) :
    roundHalfEven q = if q.floor % 2 = 0 then q.floor else q.floor + 1 := by
  unfold roundHalfEven
  rw [if_neg (by linarith), if_neg (by linarith)]

theorem round_upper (q : Rat) : (roundHalfEven q : Rat) - q ≤ 1 / 2 := by
  rcases round_cases q with ⟨h, _⟩ | ⟨h, h2⟩
  · rw [h]; have := floor_le' q; linarith
  · rw [h]; push_cast; linarith

theorem round_lower (q : Rat) : q - (roundHalfEven q : Rat) ≤ 1 / 2 := by
  rcases round_cases q with ⟨h, h2⟩ | ⟨h, _⟩
  · rw [h]; linarith
  · rw [h]; push_cast; have := lt_floor_add_one' q; linarith

theorem floor_le_round (q : Rat) : q.floor ≤ roundHalfEven q := by
  rcases round_cases q with ⟨h, _⟩ | ⟨h, _⟩ <;> omega

theorem round_le_floor_add_one (q : Rat) : roundHalfEven q ≤ q.floor + 1 := by
  rcases round_cases q with ⟨h, _⟩ | ⟨h, _⟩ <;> omega

/-- Exact ties go to the even neighbour. -/
theorem round_tie_even (q : Rat) (h : q - (q.floor : Rat) = 1 / 2) : roundHalfEven q % 2 = 0 := by
  rw [round_tie q h]
  split <;> omega

theorem round_intCast (n : Int) : roundHalfEven (n : Rat) = n := by
  have hf : (n : Rat).floor = n := Rat.floor_intCast n
  have : (n : Rat) - (((n : Rat).floor : Int) : Rat) < 1 / 2 := by rw [hf]; norm_num
  rw [round_lt_half _ this, hf]

/-- `roundHalfEven q` is the integer nearest to `q` whenever that is unique. -/
theorem round_nearest (q : Rat) (n : Int) (h1 : (n : Rat) - q < 1 / 2) (h2 : q - (n : Rat) < 1 / 2) :
    roundHalfEven q = n := by
  have hu := round_upper q
  have hl := round_lower q
  have h3 : ((roundHalfEven q : Int) : Rat) - (n : Rat) < 1 := by linarith
  have h4 : (n : Rat) - ((roundHalfEven q : Int) : Rat) < 1 := by linarith
  have h5 : roundHalfEven q - n < 1 := by exact_mod_cast h3
  have h6 : n - roundHalfEven q < 1 := by exact_mod_cast h4
  omega

theorem round_mono {a b : Rat} (h : a ≤ b) : roundHalfEven a ≤ roundHalfEven b := by
  have hf : a.floor ≤ b.floor := Rat.floor_monotone h
  rcases Int.lt_or_eq_of_le hf with hlt | heq
  · have h1 := round_le_floor_add_one a
    have h2 := floor_le_round b
    omega
  · by_cases ha : a - (a.floor : Rat) < 1 / 2
    · rw [round_lt_half a ha]; have := floor_le_round b; omega
    · by_cases ha' : 1 / 2 < a - (a.floor : Rat)
      · have hb : 1 / 2 < b - (b.floor : Rat) := by rw [← heq]; linarith
        rw [round_gt_half a ha', round_gt_half b hb, heq]
      · have hae : a - (a.floor : Rat) = 1 / 2 := le_antisymm (not_lt.mp ha') (not_lt.mp ha)
        by_cases hb : 1 / 2 < b - (b.floor : Rat)
        · rw [round_gt_half b hb]; have := round_le_floor_add_one a; omega
        · have hbe : b - (b.floor : Rat) = 1 / 2 := by
            apply le_antisymm (not_lt.mp hb)
            rw [← heq]; linarith
          rw [round_tie a hae, round_tie b hbe, heq]

theorem round_le_ceil (q : Rat) : roundHalfEven q ≤ q.ceil := by
  have h : q ≤ ((q.ceil : Int) : Rat) := Rat.le_ceil
  have := round_mono h
  rwa [round_intCast] at this

/-! ## one axis -/

/-- A point inside the bounds gets a non-negative index. -/
theorem idx1_nonneg (pitch lo p : Rat) (hp : 0 < pitch) (h : lo ≤ p) : 0 ≤ idx1 pitch lo p := by
  unfold idx1 ix1
  have : lo / pitch ≤ p / pitch := div_le_div_of_nonneg_right h (le_of_lt hp)
  have := round_mono this
  omega

/-- A point inside the bounds gets an index below the grid's shape. -/
theorem idx1_lt_shape (pitch lo hi p : Rat) (hp : 0 < pitch) (h : p ≤ hi) : idx1 pitch lo p < shape1 pitch lo hi := by
  unfold idx1 ix1 shape1
  have h1 : p / pitch ≤ hi / pitch := div_le_div_of_nonneg_right h (le_of_lt hp)
  have h2 : roundHalfEven (p / pitch) ≤ (hi / pitch).ceil := by
    have h3 : p / pitch ≤ (((hi / pitch).ceil : Int) : Rat) := le_trans h1 Rat.le_ceil
    have := round_mono h3
    rwa [round_intCast] at this
  have h4 := floor_le_round (lo / pitch)
  omega

theorem coord1_eq (pitch lo u : Rat) (i : Int) (hp : pitch ≠ 0) :
    coord1 pitch lo u i = u * (lo + (i : Rat) * pitch) := by
  unfold coord1 offset1 units1
  field_simp

/-- Per axis: the point (scaled into the grid's space) is within one voxel size of the coordinate of its voxel. -/
theorem within1 (pitch lo u p : Rat) (hp : 0 < pitch) (hu : 0 < u) :
    u * p - coord1 pitch lo u (idx1 pitch lo p) ≤ units1 pitch u ∧
    -(units1 pitch u) ≤ u * p - coord1 pitch lo u (idx1 pitch lo p) := by
  rw [coord1_eq _ _ _ _ (ne_of_gt hp)]
  unfold idx1 ix1 units1
  have a1 := round_upper (p / pitch)
  have a2 := round_lower (p / pitch)
  have b1 := round_upper (lo / pitch)
  have b2 := round_lower (lo / pitch)
  have hpe : p = p / pitch * pitch := by field_simp
  have hle : lo = lo / pitch * pitch := by field_simp
  generalize roundHalfEven (p / pitch) = rp at *
  generalize roundHalfEven (lo / pitch) = rl at *
  push_cast
  generalize p / pitch = P at *
  generalize lo / pitch = L at *
  subst hpe hle
  have hup : 0 < u * pitch := mul_pos hu hp
  constructor
  · have : u * (P * pitch) - u * (L * pitch + ((rp : Rat) - (rl : Rat)) * pitch)
        = (u * pitch) * ((P - rp) + (rl - L)) := by ring
    rw [this]
    have : (P - (rp : Rat)) + ((rl : Rat) - L) ≤ 1 := by linarith
    calc (u * pitch) * ((P - rp) + (rl - L)) ≤ (u * pitch) * 1 := mul_le_mul_of_nonneg_left this (le_of_lt hup)
      _ = pitch * u := by ring
  · have : u * (P * pitch) - u * (L * pitch + ((rp : Rat) - (rl : Rat)) * pitch)
        = (u * pitch) * ((P - rp) + (rl - L)) := by ring
    rw [this]
    have : -1 ≤ (P - (rp : Rat)) + ((rl : Rat) - L) := by linarith
    calc -(pitch * u) = (u * pitch) * (-1) := by ring
      _ ≤ (u * pitch) * ((P - rp) + (rl - L)) := mul_le_mul_of_nonneg_left this (le_of_lt hup)

/-- Voxel coordinates of in-grid indices stay within the grid's extent: `lo·u ≤ coord < (hi + 2·pitch)·u`. -/
theorem coord1_extent (pitch lo hi u : Rat) (i : Int) (hp : 0 < pitch) (hu : 0 < u)
    (h0 : 0 ≤ i) (h1 : i < shape1 pitch lo hi) :
    u * lo ≤ coord1 pitch lo u i ∧ coord1 pitch lo u i < u * (hi + 2 * pitch) := by
  rw [coord1_eq _ _ _ _ (ne_of_gt hp)]
  unfold shape1 at h1
  have hi0 : (0 : Rat) ≤ (i : Rat) := by exact_mod_cast h0
  have hi1 : i ≤ (hi / pitch).ceil - (lo / pitch).floor := by omega
  have hi2 : (i : Rat) ≤ ((hi / pitch).ceil : Rat) - ((lo / pitch).floor : Rat) := by exact_mod_cast hi1
  have hc : ((hi / pitch).ceil : Rat) < hi / pitch + 1 := by
    have : (hi / pitch).ceil < (hi / pitch).ceil + 1 := by omega
    have h := Rat.lt_ceil_iff.mp (show (hi / pitch).ceil - 1 < (hi / pitch).ceil by omega)
    push_cast at h
    linarith
  have hf := lt_floor_add_one' (lo / pitch)
  have hlt : (i : Rat) < hi / pitch - lo / pitch + 2 := by linarith
  have hhe : hi / pitch - lo / pitch + 2 = (hi - lo + 2 * pitch) / pitch := by field_simp
  constructor
  · have : 0 ≤ (i : Rat) * pitch := mul_nonneg hi0 (le_of_lt hp)
    have : lo ≤ lo + (i : Rat) * pitch := by linarith
    exact mul_le_mul_of_nonneg_left this (le_of_lt hu)
  · have h2 : (i : Rat) * pitch < (hi - lo + 2 * pitch) := by
      rw [hhe] at hlt
      exact (lt_div_iff₀ hp).mp hlt
    have : lo + (i : Rat) * pitch < hi + 2 * pitch := by linarith
    exact mul_lt_mul_of_pos_left this hu

/-! ## lists: `dedup`, counting -/

section lists
variable {α : Type}

theorem sum_map_add (l : List α) (f g : α → Nat) :
    (l.map fun v => f v + g v).sum = (l.map f).sum + (l.map g).sum := by
  induction l with
  | nil => rfl
  | cons a l ih => simp only [List.map_cons, List.sum_cons, ih]; omega

variable [DecidableEq α]

theorem mem_dedup (l : List α) (a : α) : a ∈ dedup l ↔ a ∈ l := by
  induction l with
  | nil => simp [dedup]
  | cons b l ih =>
    unfold dedup
    split
    · rename_i hb
      rw [ih, List.mem_cons]
      constructor
      · exact Or.inr
      · rintro (rfl | h)
        · exact hb
        · exact h
    · rw [List.mem_cons, List.mem_cons, ih]

theorem nodup_dedup (l : List α) : (dedup l).Nodup := by
  induction l with
  | nil => simp [dedup]
  | cons b l ih =>
    unfold dedup
    split
    · exact ih
    · rename_i hb
      exact List.nodup_cons.mpr ⟨fun h => hb ((mem_dedup l b).mp h), ih⟩

theorem sum_indicator (w : List α) (a : α) :
    (w.map fun v => if a = v then 1 else 0).sum = w.count a := by
  induction w with
  | nil => rfl
  | cons b w ih =>
    simp only [List.map_cons, List.sum_cons, ih, List.count_cons]
    by_cases h : a = b
    · subst h; simp; omega
    · have : ¬ b = a := fun e => h e.symm
      simp [h, this]

/-- Counting the points voxel by voxel over any duplicate-free list of voxels that contains every voxel
satisfying `P`: the counts add up to the number of points whose voxel satisfies `P`. -/
theorem sum_counts_filter (l u : List α) (P : α → Bool) (hu : u.Nodup) (hc : ∀ a ∈ l, P a = true → a ∈ u) :
    ((u.filter P).map fun v => l.count v).sum = (l.filter P).length := by
  induction l with
  | nil => simp
  | cons a l ih =>
    have ih' := ih (fun b hb hP => hc b (List.mem_cons_of_mem _ hb) hP)
    have hcount : ∀ v, (a :: l).count v = l.count v + (if a = v then 1 else 0) := by
      intro v
      rw [List.count_cons]
      by_cases h : a = v
      · subst h; simp
      · simp [h]
    simp only [hcount]
    rw [sum_map_add, ih', sum_indicator]
    have hn : (u.filter P).Nodup := hu.filter _
    by_cases hP : P a = true
    · have hm : a ∈ u.filter P := List.mem_filter.mpr ⟨hc a (List.mem_cons_self) hP, hP⟩
      rw [List.filter_cons_of_pos hP, List.length_cons]
      have : (u.filter P).count a = 1 := by rw [hn.count, if_pos hm]
      omega
    · have hm : a ∉ u.filter P := fun h => hP (List.mem_filter.mp h).2
      rw [List.filter_cons_of_neg hP, List.count_eq_zero_of_not_mem hm]
      omega

end lists

/-! ## the grid -/

theorem counts_sum (g : Grid) (pts : List P3) : gridSum (counts g pts) = nInside g pts := by
  unfold gridSum counts filled nInside
  rw [List.map_map]
  have h := sum_counts_filter (allIdx g pts) (dedup (allIdx g pts)) (inGrid g) (nodup_dedup _)
    (fun a ha _ => (mem_dedup _ a).mpr ha)
  have hcomp : ((fun x : I3 × Nat => x.2) ∘ fun v => (v, List.count v (allIdx g pts)))
      = fun v => List.count v (allIdx g pts) := rfl
  rw [hcomp, h]
  unfold allIdx
  rw [List.filter_map, List.length_map]
  rfl

theorem mem_filled (g : Grid) (pts : List P3) (v : I3) :
    v ∈ filled g pts ↔ (∃ p ∈ pts, voxIdx g p = v) ∧ inGrid g v = true := by
  unfold filled allIdx
  rw [List.mem_filter, mem_dedup, List.mem_map]

theorem inGrid_iff (g : Grid) (v : I3) : inGrid g v = true ↔
    (0 ≤ v.x ∧ v.x < (shape g).x) ∧ (0 ≤ v.y ∧ v.y < (shape g).y) ∧ (0 ≤ v.z ∧ v.z < (shape g).z) := by
  unfold inGrid
  simp only [Bool.and_eq_true, decide_eq_true_eq]
  constructor
  · rintro ⟨⟨⟨⟨⟨a, b⟩, c⟩, d⟩, e⟩, f⟩; exact ⟨⟨a, d⟩, ⟨b, e⟩, ⟨c, f⟩⟩
  · rintro ⟨⟨a, d⟩, ⟨b, e⟩, ⟨c, f⟩⟩; exact ⟨⟨⟨⟨⟨a, b⟩, c⟩, d⟩, e⟩, f⟩

theorem inBounds_iff (g : Grid) (p : P3) : inBounds g p = true ↔
    (g.lo.x ≤ p.x ∧ p.x ≤ g.hi.x) ∧ (g.lo.y ≤ p.y ∧ p.y ≤ g.hi.y) ∧ (g.lo.z ≤ p.z ∧ p.z ≤ g.hi.z) := by
  unfold inBounds
  simp only [Bool.and_eq_true, decide_eq_true_eq]
  constructor
  · rintro ⟨⟨⟨⟨⟨a, b⟩, c⟩, d⟩, e⟩, f⟩; exact ⟨⟨a, b⟩, ⟨c, d⟩, ⟨e, f⟩⟩
  · rintro ⟨⟨a, b⟩, ⟨c, d⟩, ⟨e, f⟩⟩; exact ⟨⟨⟨⟨⟨a, b⟩, c⟩, d⟩, e⟩, f⟩

def PosGrid (g : Grid) : Prop :=
  (0 < g.pitch.x ∧ 0 < g.pitch.y ∧ 0 < g.pitch.z) ∧ (0 < g.u.x ∧ 0 < g.u.y ∧ 0 < g.u.z)

theorem inGrid_of_inBounds (g : Grid) (hg : PosGrid g) (p : P3) (h : inBounds g p = true) :
    inGrid g (voxIdx g p) = true := by
  obtain ⟨⟨px, py, pz⟩, _⟩ := hg
  obtain ⟨⟨x0, x1⟩, ⟨y0, y1⟩, ⟨z0, z1⟩⟩ := (inBounds_iff g p).mp h
  rw [inGrid_iff]
  exact ⟨⟨idx1_nonneg _ _ _ px x0, idx1_lt_shape _ _ _ _ px x1⟩,
         ⟨idx1_nonneg _ _ _ py y0, idx1_lt_shape _ _ _ _ py y1⟩,
         ⟨idx1_nonneg _ _ _ pz z0, idx1_lt_shape _ _ _ _ pz z1⟩⟩

theorem absLe_iff (a b : Rat) : absLe a b = true ↔ a ≤ b ∧ -b ≤ a := by
  unfold absLe; simp only [Bool.and_eq_true, decide_eq_true_eq]

theorem near_own (g : Grid) (hg : PosGrid g) (p : P3) : nearB g p (voxIdx g p) = true := by
  obtain ⟨⟨px, py, pz⟩, ⟨ux, uy, uz⟩⟩ := hg
  unfold nearB
  simp only [Bool.and_eq_true, absLe_iff]
  exact ⟨⟨within1 _ _ _ _ px ux, within1 _ _ _ _ py uy⟩, within1 _ _ _ _ pz uz⟩

theorem covers_filled (g : Grid) (hg : PosGrid g) (pts : List P3) : coversB g pts (filled g pts) = true := by
  unfold coversB
  rw [List.all_eq_true]
  intro p hp
  by_cases hb : inBounds g p = true
  · have hin := inGrid_of_inBounds g hg p hb
    have hm : voxIdx g p ∈ filled g pts := (mem_filled g pts _).mpr ⟨⟨p, hp, rfl⟩, hin⟩
    have : ((filled g pts).any fun v => nearB g p v) = true :=
      List.any_eq_true.mpr ⟨_, hm, near_own g hg p⟩
    simp [this]
  · simp [hb]

theorem inside_filled (g : Grid) (pts : List P3) : insideB g (filled g pts) = true := by
  unfold insideB
  rw [List.all_eq_true]
  intro v hv
  exact ((mem_filled g pts v).mp hv).2

/-- Without clipping (every voxel inside the grid) nothing is dropped. -/
theorem filled_of_all_inside (g : Grid) (pts : List P3)
    (h : ∀ p ∈ pts, inGrid g (voxIdx g p) = true) : filled g pts = dedup (allIdx g pts) := by
  unfold filled
  apply List.filter_eq_self.mpr
  intro v hv
  obtain ⟨p, hp, rfl⟩ := List.mem_map.mp ((mem_dedup _ v).mp hv)
  exact h p hp

/-! ## tangents -/

theorem midpoint_eq (c q : P3) : add c (half (sub q c)) = half (add c q) := by
  unfold add half sub
  congr 1 <;> ring

theorem cross_self_neg (c q : P3) : cross (sub c q) (sub q c) = ⟨0, 0, 0⟩ := by
  unfold cross sub
  congr 1 <;> ring

theorem sub_neg (c q : P3) : sub c q = scale (-1) (sub q c) := by
  unfold sub scale
  congr 1 <;> ring

theorem norm2_nonneg (a : P3) : 0 ≤ norm2 a := by
  unfold norm2 dot
  nlinarith [mul_self_nonneg a.x, mul_self_nonneg a.y, mul_self_nonneg a.z]

theorem norm2_eq_zero_iff (a : P3) : norm2 a = 0 ↔ a = ⟨0, 0, 0⟩ := by
  constructor
  · intro h
    unfold norm2 dot at h
    have hx : a.x = 0 := by nlinarith [mul_self_nonneg a.x, mul_self_nonneg a.y, mul_self_nonneg a.z]
    have hy : a.y = 0 := by nlinarith [mul_self_nonneg a.x, mul_self_nonneg a.y, mul_self_nonneg a.z]
    have hz : a.z = 0 := by nlinarith [mul_self_nonneg a.x, mul_self_nonneg a.y, mul_self_nonneg a.z]
    cases a; simp_all
  · rintro rfl; unfold norm2 dot; norm_num

theorem sub_eq_zero_iff (c q : P3) : sub c q = ⟨0, 0, 0⟩ ↔ c = q := by
  constructor
  · intro h
    unfold sub at h
    have hx : c.x - q.x = 0 := congrArg V3.x h
    have hy : c.y - q.y = 0 := congrArg V3.y h
    have hz : c.z - q.z = 0 := congrArg V3.z h
    cases c; cases q
    simp only [V3.mk.injEq]
    exact ⟨by linarith, by linarith, by linarith⟩
  · rintro rfl; unfold sub; simp

/-- The midpoint is equidistant from child and parent: a quarter of the squared edge length from both. -/
theorem midpoint_equidistant (c q : P3) :
    norm2 (sub (half (add c q)) c) = norm2 (sub c q) / 4 ∧ norm2 (sub (half (add c q)) q) = norm2 (sub c q) / 4 := by
  unfold norm2 dot sub half add
  constructor <;> ring

theorem tangents_eq (t : List Row) (es : List (P3 × P3)) (h : edgePairs t = some es) :
    tangents t = some (((es.filter fun e => decide (e.1 ≠ e.2))).map fun e => edgeTangent e.1 e.2) := by
  unfold tangents
  rw [h, Option.map_some]
  congr 1
  rw [List.filter_map]
  congr 1
  apply List.filter_congr
  intro e _
  have key : (edgeTangent e.1 e.2).len2 = 0 ↔ e.1 = e.2 := by
    show norm2 (sub e.1 e.2) = 0 ↔ _
    rw [norm2_eq_zero_iff, sub_eq_zero_iff]
  show decide ((edgeTangent e.1 e.2).len2 ≠ 0) = decide (e.1 ≠ e.2)
  exact decide_eq_decide.mpr (not_congr key)

/-! ## alpha, k -/

theorem alpha_bounds (s1 s2 s3 : Rat) (h12 : s2 ≤ s1) (h23 : s3 ≤ s2) (h3 : 0 ≤ s3) (hpos : 0 < s1 + s2 + s3) :
    0 ≤ alpha s1 s2 s3 ∧ alpha s1 s2 s3 ≤ 1 := by
  unfold alpha
  rw [if_pos hpos]
  constructor
  · exact div_nonneg (by linarith) (le_of_lt hpos)
  · exact (div_le_iff₀ hpos).mpr (by linarith)

theorem alpha_eq_one_iff (s1 s2 s3 : Rat) (h23 : s3 ≤ s2) (h3 : 0 ≤ s3) (hpos : 0 < s1 + s2 + s3) :
    alpha s1 s2 s3 = 1 ↔ s2 = 0 ∧ s3 = 0 := by
  unfold alpha
  rw [if_pos hpos, div_eq_one_iff_eq (ne_of_gt hpos)]
  constructor
  · intro h; constructor <;> linarith
  · rintro ⟨rfl, rfl⟩; ring

theorem alpha_eq_zero_iff (s1 s2 s3 : Rat) (hpos : 0 < s1 + s2 + s3) :
    alpha s1 s2 s3 = 0 ↔ s1 = s2 := by
  unfold alpha
  rw [if_pos hpos, div_eq_zero_iff]
  constructor
  · rintro (h | h)
    · linarith
    · linarith
  · intro h; left; linarith

/-- Without any positivity assumption (the guarded division): alpha is `0` for an all-zero spectrum. -/
theorem alpha_bounds_all (s1 s2 s3 : Rat) (h12 : s2 ≤ s1) (h23 : s3 ≤ s2) (h3 : 0 ≤ s3) :
    0 ≤ alpha s1 s2 s3 ∧ alpha s1 s2 s3 ≤ 1 := by
  by_cases hpos : 0 < s1 + s2 + s3
  · exact alpha_bounds s1 s2 s3 h12 h23 h3 hpos
  · unfold alpha; rw [if_neg hpos]; exact ⟨le_refl 0, by norm_num⟩

theorem alpha_zero_sum (s1 s2 s3 : Rat) (h : ¬ 0 < s1 + s2 + s3) : alpha s1 s2 s3 = 0 := by
  unfold alpha; rw [if_neg h]

/-- Collinear neighbourhood: all centred points are multiples `tᵢ · d` of one direction.  Then the inertia matrix
is `(Σ tᵢ²) d dᵀ`: it maps `d` to a multiple of `d` and kills everything orthogonal to `d`. -/
theorem inertia_collinear (d : P3) (ts : List Rat) (w : P3) :
    inertiaApply (ts.map fun t => scale t d) w = scale ((ts.map fun t => t * t).sum * dot d w) d := by
  induction ts with
  | nil => simp [inertiaApply, scale]
  | cons t ts ih =>
    simp only [List.map_cons, List.sum_cons]
    unfold inertiaApply at ih ⊢
    rw [List.foldr_cons, ih]
    unfold add scale dot
    congr 1 <;> simp only <;> ring

end Navis.Voxel
