import NavisModel.Model.Volume
/-!
Helper lemmas for property C18 (inside/outside tests, pruning by volume, snapping).  Core Lean only.
-/
namespace Navis.Volume

/-! ## 1. boxes, half-integer points, CSG solids -/

theorem strictIn_eq_closedIn_of_odd (lo hi q : Int) (h : q % 2 = 1) : strictIn lo hi q = closedIn lo hi q := by
  unfold strictIn closedIn
  have h1 : decide (2 * lo < q) = decide (2 * lo ≤ q) := by
    apply decide_eq_decide.mpr; omega
  have h2 : decide (q < 2 * hi) = decide (q ≤ 2 * hi) := by
    apply decide_eq_decide.mpr; omega
  rw [h1, h2]

theorem inBox_eq_inBoxClosed (b : Box) (p : P3) (h : Half p) : inBox b p = inBoxClosed b p := by
  obtain ⟨hx, hy, hz⟩ := h
  unfold inBox inBoxClosed
  rw [strictIn_eq_closedIn_of_odd _ _ _ hx, strictIn_eq_closedIn_of_odd _ _ _ hy,
    strictIn_eq_closedIn_of_odd _ _ _ hz]

theorem halfB_iff (p : P3) : halfB p = true ↔ Half p := by
  simp [halfB, Half, and_assoc]

theorem strictIn_iff (lo hi q : Int) : strictIn lo hi q = true ↔ 2 * lo < q ∧ q < 2 * hi := by
  simp [strictIn]

theorem inBox_iff (b : Box) (p : P3) :
    inBox b p = true ↔ (2 * b.lo.x < p.x ∧ p.x < 2 * b.hi.x) ∧ (2 * b.lo.y < p.y ∧ p.y < 2 * b.hi.y)
      ∧ (2 * b.lo.z < p.z ∧ p.z < 2 * b.hi.z) := by
  simp [inBox, strictIn_iff, and_assoc]

theorem foldl_step_append (p : P3) (acc : Bool) (S T : Solid) :
    (S ++ T).foldl (step p) acc = T.foldl (step p) (S.foldl (step p) acc) := by
  simp [List.foldl_append]

theorem mem_append_singleton (S : Solid) (sb : Bool × Box) (p : P3) :
    mem (S ++ [sb]) p = step p (mem S p) sb := by
  simp [mem, List.foldl_append]

/-- adding a box = union -/
theorem mem_add (S : Solid) (b : Box) (p : P3) : mem (S ++ [(true, b)]) p = (mem S p || inBox b p) := by
  rw [mem_append_singleton]; unfold step
  cases mem S p <;> cases inBox b p <;> rfl

/-- carving a box = difference -/
theorem mem_carve (S : Solid) (b : Box) (p : P3) : mem (S ++ [(false, b)]) p = (mem S p && !inBox b p) := by
  rw [mem_append_singleton]; unfold step
  cases mem S p <;> cases inBox b p <;> rfl

theorem foldl_step_union (p : P3) (acc : Bool) (bs : List Box) :
    (unionOf bs).foldl (step p) acc = (acc || bs.any fun b => inBox b p) := by
  induction bs generalizing acc with
  | nil => simp [unionOf]
  | cons b t ih =>
    have : unionOf (b :: t) = (true, b) :: unionOf t := rfl
    rw [this, List.foldl_cons, ih]
    unfold step
    cases acc <;> cases h : inBox b p <;> simp [h]

theorem mem_unionOf (bs : List Box) (p : P3) : mem (unionOf bs) p = bs.any fun b => inBox b p := by
  unfold mem; rw [foldl_step_union]; rfl

/-- "the last box containing the point decides" -/
theorem foldl_step_last (p : P3) (acc : Bool) (S : Solid) :
    S.foldl (step p) acc =
      match S.reverse.find? (fun sb => inBox sb.2 p) with
      | some sb => sb.1
      | none => acc := by
  induction S generalizing acc with
  | nil => rfl
  | cons x t ih =>
    rw [List.foldl_cons, ih, List.reverse_cons, List.find?_append]
    cases h : t.reverse.find? (fun sb => inBox sb.2 p) with
    | some sb => rfl
    | none =>
      simp only [Option.or, List.find?_cons, List.find?_nil, step]
      cases hx : inBox x.2 p <;> simp

theorem mem_eq_last (S : Solid) (p : P3) :
    mem S p = match S.reverse.find? (fun sb => inBox sb.2 p) with
      | some sb => sb.1
      | none => false := foldl_step_last p false S

/-- a point in no box at all is outside -/
theorem mem_false_of_no_box (S : Solid) (p : P3) (h : ∀ sb ∈ S, inBox sb.2 p = false) : mem S p = false := by
  rw [mem_eq_last]
  have : S.reverse.find? (fun sb => inBox sb.2 p) = none := by
    rw [List.find?_eq_none]
    intro sb hsb
    simp [h sb (List.mem_reverse.mp hsb)]
  rw [this]

/-! ### voxel sets -/

theorem inBox_cell_centre (v w : P3) : inBox (cell v) (centre w) = decide (v = w) := by
  rcases v with ⟨a, b, c⟩
  rcases w with ⟨a', b', c'⟩
  by_cases h : (⟨a, b, c⟩ : P3) = ⟨a', b', c'⟩
  · rw [decide_eq_true h]
    injection h with h1 h2 h3
    subst h1 h2 h3
    rw [inBox_iff]; simp only [cell, centre]; omega
  · rw [decide_eq_false h]
    apply Bool.eq_false_iff.mpr
    intro hin
    rw [inBox_iff] at hin
    simp only [cell, centre] at hin
    apply h
    have h1 : a = a' := by omega
    have h2 : b = b' := by omega
    have h3 : c = c' := by omega
    subst h1 h2 h3; rfl

theorem half_centre (v : P3) : Half (centre v) := by
  simp only [Half, centre]; omega

/-- the centre of voxel `w` is inside the union of the cells `vs` iff `w` is one of them -/
theorem mem_voxels_centre (vs : List P3) (w : P3) : mem (unionOf (vs.map cell)) (centre w) = vs.contains w := by
  rw [mem_unionOf, List.any_map]
  induction vs with
  | nil => rfl
  | cons v t ih =>
    rw [List.any_cons, ih, List.contains_cons]
    simp only [Function.comp, inBox_cell_centre]
    by_cases h : v = w
    · subst h; simp
    · have h' : ¬ w = v := fun e => h e.symm
      simp [h, h']

/-! ## 2. integer poses -/

/-- a proper box: `lo ≤ hi` on every axis -/
def Box.ok (b : Box) : Prop := b.lo.x ≤ b.hi.x ∧ b.lo.y ≤ b.hi.y ∧ b.lo.z ≤ b.hi.z

instance (b : Box) : Decidable b.ok := by unfold Box.ok; exact inferInstance

theorem strictIn_pose (s : Nat) (hs : 0 < s) (f : Bool) (lo hi q t : Int) (h : lo ≤ hi) :
    strictIn (min (sgn f s * lo + t) (sgn f s * hi + t)) (max (sgn f s * lo + t) (sgn f s * hi + t))
      (sgn f s * q + 2 * t) = strictIn lo hi q := by
  have hk : (0 : Int) < (s : Int) := Int.natCast_pos.mpr hs
  have a1 : 2 * lo < q ↔ 2 * ((s : Int) * lo) < (s : Int) * q := by
    rw [Int.mul_left_comm 2 (s : Int) lo]
    exact ⟨fun h => Int.mul_lt_mul_of_pos_left h hk, fun h => Int.lt_of_mul_lt_mul_left h (Int.le_of_lt hk)⟩
  have a2 : q < 2 * hi ↔ (s : Int) * q < 2 * ((s : Int) * hi) := by
    rw [Int.mul_left_comm 2 (s : Int) hi]
    exact ⟨fun h => Int.mul_lt_mul_of_pos_left h hk, fun h => Int.lt_of_mul_lt_mul_left h (Int.le_of_lt hk)⟩
  have a3 : (s : Int) * lo ≤ (s : Int) * hi := Int.mul_le_mul_of_nonneg_left h (Int.le_of_lt hk)
  rw [Bool.eq_iff_iff, strictIn_iff, strictIn_iff]
  cases f <;> simp only [sgn, Int.neg_mul, if_true, if_false, Bool.false_eq_true] <;> omega

theorem inBox_pose (π : Pose) (hπ : π.ok) (b : Box) (hb : b.ok) (p : P3) :
    inBox (π.box b) (π.pt p) = inBox b p := by
  obtain ⟨h1, h2, h3⟩ := hπ
  obtain ⟨b1, b2, b3⟩ := hb
  have ex := strictIn_pose π.sx h1 π.fx b.lo.x b.hi.x p.x
  have ey := strictIn_pose π.sy h2 π.fy b.lo.y b.hi.y p.y
  have ez := strictIn_pose π.sz h3 π.fz b.lo.z b.hi.z p.z
  unfold Pose.box Pose.vert Pose.pt Pose.lin
  cases π.perm <;> simp only [Perm3.app, inBox, ex _ b1, ey _ b2, ez _ b3] <;>
    cases strictIn b.lo.x b.hi.x p.x <;> cases strictIn b.lo.y b.hi.y p.y <;>
    cases strictIn b.lo.z b.hi.z p.z <;> rfl

theorem mem_pose (π : Pose) (hπ : π.ok) (S : Solid) (hS : ∀ sb ∈ S, sb.2.ok) (p : P3) :
    mem (π.solid S) (π.pt p) = mem S p := by
  unfold mem
  generalize false = acc
  induction S generalizing acc with
  | nil => rfl
  | cons x t ih =>
    have hx : x.2.ok := hS x (List.mem_cons_self)
    have ht : ∀ sb ∈ t, sb.2.ok := fun sb h => hS sb (List.mem_cons_of_mem _ h)
    simp only [Pose.solid, List.map_cons, List.foldl_cons]
    have : step (π.pt p) acc (x.1, π.box x.2) = step p acc x := by
      simp only [step, inBox_pose π hπ x.2 hx p]
    rw [this]
    exact ih ht (step p acc x)

/-- half-integer points stay half-integer points under an odd-scale pose … in general parity is
preserved by translation and flips; scaling by an odd factor keeps oddness. -/
theorem half_pose_of_odd (π : Pose) (p : P3) (hp : Half p)
    (ho : π.sx % 2 = 1 ∧ π.sy % 2 = 1 ∧ π.sz % 2 = 1) : Half (π.pt p) := by
  obtain ⟨px, py, pz⟩ := hp
  obtain ⟨ox, oy, oz⟩ := ho
  have odd_mul : ∀ (s : Nat) (f : Bool) (q : Int), s % 2 = 1 → q % 2 = 1 → (sgn f s * q) % 2 = 1 := by
    intro s f q hs hq
    have hs' : ((s : Int)) % 2 = 1 := by omega
    have : ((s : Int) * q) % 2 = 1 := by
      rw [Int.mul_emod, hs', hq]; rfl
    cases f <;> simp only [sgn, if_true, if_false, Bool.false_eq_true, Int.neg_mul] <;> omega
  have hx := odd_mul π.sx π.fx p.x ox px
  have hy := odd_mul π.sy π.fy p.y oy py
  have hz := odd_mul π.sz π.fz p.z oz pz
  unfold Pose.pt Pose.lin Half
  cases π.perm <;> simp only [Perm3.app] <;> omega

/-! ## 3. boolean masks -/

theorem masked_map_map {α β} (l : List α) (f : α → β) (g : α → Bool) :
    masked (l.map f) (l.map g) = (l.filter g).map f := by
  induction l with
  | nil => rfl
  | cons a t ih =>
    have ih' : List.filterMap (fun am : β × Bool => if am.2 = true then some am.1 else none)
        ((t.map f).zip (t.map g)) = (t.filter g).map f := ih
    simp only [masked, List.map_cons, List.zip_cons_cons, List.filterMap_cons, List.filter_cons]
    cases h : g a <;> simp [ih']

theorem masked_map {α} (l : List α) (g : α → Bool) : masked l (l.map g) = l.filter g := by
  have := masked_map_map l id g
  simpa using this

theorem all_id_map {α} (l : List α) (g : α → Bool) : (l.map g).all id = l.all g := by
  simp [List.all_map]

/-- the predicate a mode keeps -/
def keepPred (μ : Inside) (mode : Mode) (q : P3) : Bool :=
  match mode with
  | .IN => μ q
  | .OUT => !μ q

theorem keepMask_points (μ : Inside) (mode : Mode) (pts : List P3) :
    keepMask mode (inVolumePoints μ pts) = pts.map (keepPred μ mode) := by
  cases mode <;> simp [keepMask, inVolumePoints, keepPred, List.map_map, Function.comp_def]

theorem keepPred_out (μ : Inside) (q : P3) : keepPred μ .OUT q = !keepPred μ .IN q := rfl

/-! ## 4. `in_volume` on skeletons -/

/-- what `subset_neuron` does for a row predicate `g` when `node_id`s are unique -/
def pruneBy (g : Node → Bool) (t : Tree) : Tree :=
  { nodes := t.nodes.filter g,
    conns := t.conns.filter fun c => ((t.nodes.filter g).map (·.id)).contains c.node }

/-- every connector sits on an existing node -/
def Attached (t : Tree) : Prop := ∀ c ∈ t.conns, c.node ∈ t.ids

theorem inVolumeTree_unfold (μ : Inside) (mode : Mode) (t : Tree) :
    inVolumeTree μ mode t =
      if t.nodes.all (fun v => keepPred μ mode v.pos) then t
      else subsetTree t ((t.nodes.filter fun v => keepPred μ mode v.pos).map (·.id)) := by
  unfold inVolumeTree
  simp only [keepMask_points, List.map_map, Tree.ids]
  rw [all_id_map, masked_map_map]
  rfl

theorem eq_of_id_eq {l : List Node} (hn : (l.map (·.id)).Nodup) {a b : Node} (ha : a ∈ l) (hb : b ∈ l)
    (h : a.id = b.id) : a = b := by
  induction l with
  | nil => cases ha
  | cons x t ih =>
    rw [List.map_cons, List.nodup_cons] at hn
    rcases List.mem_cons.mp ha with rfl | ha' <;> rcases List.mem_cons.mp hb with rfl | hb'
    · rfl
    · exact absurd (h ▸ List.mem_map_of_mem hb') hn.1
    · exact absurd (h ▸ List.mem_map_of_mem ha') hn.1
    · exact ih hn.2 ha' hb'

theorem filter_isin_ids (l : List Node) (hn : (l.map (·.id)).Nodup) (g : Node → Bool) :
    (l.filter fun v => ((l.filter g).map (·.id)).contains v.id) = l.filter g := by
  apply List.filter_congr
  intro v hv
  cases hg : g v
  · apply Bool.eq_false_iff.mpr
    intro hc
    rw [List.contains_iff_mem, List.mem_map] at hc
    obtain ⟨w, hw, hid⟩ := hc
    rw [List.mem_filter] at hw
    have := eq_of_id_eq hn hw.1 hv hid
    subst this
    rw [hg] at hw; exact absurd hw.2 (by simp)
  · rw [List.contains_iff_mem, List.mem_map]
    exact ⟨v, List.mem_filter.mpr ⟨hv, hg⟩, rfl⟩

theorem subsetTree_eq_pruneBy (t : Tree) (hn : t.ids.Nodup) (g : Node → Bool) :
    subsetTree t ((t.nodes.filter g).map (·.id)) = pruneBy g t := by
  unfold subsetTree pruneBy
  simp only [filter_isin_ids t.nodes hn g]

theorem pruneBy_of_all (t : Tree) (ha : Attached t) (g : Node → Bool) (hall : t.nodes.all g = true) :
    pruneBy g t = t := by
  have h1 : t.nodes.filter g = t.nodes := List.filter_eq_self.mpr (List.all_eq_true.mp hall)
  unfold pruneBy
  rw [h1]
  have h2 : (t.conns.filter fun c => (t.nodes.map (·.id)).contains c.node) = t.conns := by
    apply List.filter_eq_self.mpr
    intro c hc
    rw [List.contains_iff_mem]
    exact ha c hc
  rw [h2]

/-- the node table after `in_volume`: unique ids suffice -/
theorem inVolumeTree_nodes (μ : Inside) (mode : Mode) (t : Tree) (hn : t.ids.Nodup) :
    (inVolumeTree μ mode t).nodes = t.nodes.filter fun v => keepPred μ mode v.pos := by
  rw [inVolumeTree_unfold]
  split
  · rename_i hall
    exact (List.filter_eq_self.mpr (List.all_eq_true.mp hall)).symm
  · rw [subsetTree_eq_pruneBy t hn]; rfl

/-- node table and connector table after `in_volume` -/
theorem inVolumeTree_eq_pruneBy (μ : Inside) (mode : Mode) (t : Tree) (hn : t.ids.Nodup) (ha : Attached t) :
    inVolumeTree μ mode t = pruneBy (fun v => keepPred μ mode v.pos) t := by
  rw [inVolumeTree_unfold]
  split
  · rename_i hall
    exact (pruneBy_of_all t ha _ hall).symm
  · exact subsetTree_eq_pruneBy t hn _

theorem pruneBy_ids (g : Node → Bool) (t : Tree) : (pruneBy g t).ids = (t.nodes.filter g).map (·.id) := rfl

theorem mem_ids_filter (l : List Node) (hn : (l.map (·.id)).Nodup) (g : Node → Bool) (v : Node) (hv : v ∈ l) :
    v.id ∈ (l.filter g).map (·.id) ↔ g v = true := by
  constructor
  · intro h
    obtain ⟨w, hw, hid⟩ := List.mem_map.mp h
    rw [List.mem_filter] at hw
    have := eq_of_id_eq hn hw.1 hv hid
    subst this; exact hw.2
  · intro h
    exact List.mem_map.mpr ⟨v, List.mem_filter.mpr ⟨hv, h⟩, rfl⟩

/-- for an attached connector, "its node is kept by OUT" is the negation of "its node is kept by IN" -/
theorem conn_out_eq_not_in (l : List Node) (hn : (l.map (·.id)).Nodup) (g : Node → Bool) (i : Int)
    (hi : i ∈ l.map (·.id)) :
    ((l.filter fun v => !g v).map (·.id)).contains i = !((l.filter g).map (·.id)).contains i := by
  obtain ⟨v, hv, rfl⟩ := List.mem_map.mp hi
  have h1 := mem_ids_filter l hn g v hv
  have h2 := mem_ids_filter l hn (fun v => !g v) v hv
  cases hg : g v
  · have : ((l.filter g).map (·.id)).contains v.id = false := by
      apply Bool.eq_false_iff.mpr; intro hc
      rw [List.contains_iff_mem] at hc
      rw [h1.mp hc] at hg; cases hg
    rw [this]
    rw [Bool.not_false, List.contains_iff_mem]
    exact h2.mpr (by simp [hg])
  · have : ((l.filter g).map (·.id)).contains v.id = true := by
      rw [List.contains_iff_mem]; exact h1.mpr hg
    rw [this, Bool.not_true]
    apply Bool.eq_false_iff.mpr; intro hc
    rw [List.contains_iff_mem] at hc
    have := h2.mp hc
    simp [hg] at this

/-! ## 5. dicts of volumes -/
section Dict
variable {β γ σ : Type}

def dkeys (d : List (String × β)) : List String := d.map (·.1)

theorem dset_of_not_mem (d : List (String × β)) (k : String) (v : β) (h : k ∉ dkeys d) :
    dset d k v = d ++ [(k, v)] := by
  induction d with
  | nil => rfl
  | cons p t ih =>
    obtain ⟨a, b⟩ := p
    have ha : ¬ a = k := fun e => h (by simp [dkeys, e])
    have ht : k ∉ dkeys t := fun e => h (by simp only [dkeys, List.map_cons, List.mem_cons]; exact Or.inr e)
    simp only [dset, ha, if_false, ih ht, List.cons_append]

theorem foldl_dset_nodup (f : γ → β) (vols : List (String × γ)) (d : List (String × β))
    (h : (dkeys d ++ vols.map (·.1)).Nodup) :
    vols.foldl (fun d kv => dset d kv.1 (f kv.2)) d = d ++ vols.map fun kv => (kv.1, f kv.2) := by
  induction vols generalizing d with
  | nil => simp
  | cons kv t ih =>
    rw [List.map_cons, List.nodup_append] at h
    obtain ⟨hd, hkt, hdisj⟩ := h
    rw [List.nodup_cons] at hkt
    have hk : kv.1 ∉ dkeys d := fun hm => hdisj _ hm _ (List.mem_cons_self) rfl
    rw [List.foldl_cons, dset_of_not_mem d kv.1 (f kv.2) hk]
    rw [ih]
    · simp
    · rw [List.nodup_append]
      refine ⟨?_, hkt.2, ?_⟩
      · simp only [dkeys, List.map_append, List.map_cons, List.map_nil]
        rw [List.nodup_append]
        refine ⟨hd, by simp, ?_⟩
        intro a ha b hb
        rw [List.mem_singleton] at hb
        subst hb
        intro e; subst e; exact hk ha
      · intro a ha b hb
        simp only [dkeys, List.map_append, List.map_cons, List.map_nil, List.mem_append,
          List.mem_singleton] at ha
        rcases ha with ha | ha
        · exact hdisj a ha b (List.mem_cons_of_mem _ hb)
        · subst ha; intro e; subst e; exact hkt.1 hb

/-- with distinct names the loop over the dict is a plain `map`: every volume gets the single-volume answer -/
theorem inVolumeDict_eq_map (f : σ → β) (vols : List (String × σ)) (h : (vols.map (·.1)).Nodup) :
    inVolumeDict f vols = vols.map fun kv => (kv.1, f kv.2) := by
  unfold inVolumeDict
  rw [foldl_dset_nodup f vols [] (by simpa [dkeys] using h)]
  simp

theorem mkDict_eq_self (vols : List (String × γ)) (h : (vols.map (·.1)).Nodup) : mkDict vols = vols := by
  unfold mkDict
  have := foldl_dset_nodup (fun x : γ => x) vols [] (by simpa [dkeys] using h)
  simpa using this

theorem dget_map (f : γ → β) (vols : List (String × γ)) (k : String) :
    dget (vols.map fun kv => (kv.1, f kv.2)) k = (dget vols k).map f := by
  induction vols with
  | nil => rfl
  | cons p t ih =>
    obtain ⟨a, b⟩ := p
    simp only [List.map_cons, dget]
    by_cases h : a = k
    · simp [h]
    · simp [h, ih]

theorem dget_of_mem (vols : List (String × γ)) (h : (vols.map (·.1)).Nodup) (k : String) (v : γ)
    (hm : (k, v) ∈ vols) : dget vols k = some v := by
  induction vols with
  | nil => cases hm
  | cons p t ih =>
    obtain ⟨a, b⟩ := p
    rw [List.map_cons, List.nodup_cons] at h
    rcases List.mem_cons.mp hm with e | hm'
    · injection e with e1 e2; subst e1 e2; simp [dget]
    · have : ¬ a = k := by
        intro e; subst e
        exact h.1 (List.mem_map.mpr ⟨(a, v), hm', rfl⟩)
      simp only [dget, this, if_false]
      exact ih h.2 hm'

theorem dget_none_of_not_mem (vols : List (String × γ)) (k : String) (h : k ∉ vols.map (·.1)) :
    dget vols k = none := by
  induction vols with
  | nil => rfl
  | cons p t ih =>
    obtain ⟨a, b⟩ := p
    simp only [List.map_cons, List.mem_cons, not_or] at h
    have : ¬ a = k := fun e => h.1 e.symm
    simp only [dget, this, if_false]
    exact ih h.2

end Dict

/-! ## 6. `snap` -/

theorem sq_nonneg (a : Int) : 0 ≤ sq a := by
  unfold sq
  rcases Int.le_total 0 a with h | h
  · exact Int.mul_nonneg h h
  · have : a * a = (-a) * (-a) := by rw [Int.neg_mul_neg]
    rw [this]; exact Int.mul_nonneg (by omega) (by omega)

theorem sq_eq_zero (a : Int) (h : sq a = 0) : a = 0 := by
  unfold sq at h
  rcases Int.mul_eq_zero.mp h with h | h <;> exact h

theorem d2_nonneg (a b : P3) : 0 ≤ d2 a b := by
  unfold d2
  have := sq_nonneg (a.x - b.x); have := sq_nonneg (a.y - b.y); have := sq_nonneg (a.z - b.z)
  omega

theorem d2_self (a : P3) : d2 a a = 0 := by simp [d2, sq]

theorem d2_eq_zero (a b : P3) (h : d2 a b = 0) : a = b := by
  unfold d2 at h
  have h1 := sq_nonneg (a.x - b.x); have h2 := sq_nonneg (a.y - b.y); have h3 := sq_nonneg (a.z - b.z)
  have e1 := sq_eq_zero (a.x - b.x) (by omega)
  have e2 := sq_eq_zero (a.y - b.y) (by omega)
  have e3 := sq_eq_zero (a.z - b.z) (by omega)
  rcases a with ⟨ax, ay, az⟩; rcases b with ⟨bx, b_y, bz⟩
  simp only at e1 e2 e3
  have : ax = bx := by omega
  have : ay = b_y := by omega
  have : az = bz := by omega
  subst_vars; rfl

theorem d2_comm (a b : P3) : d2 a b = d2 b a := by
  unfold d2 sq
  have h : ∀ u v : Int, (u - v) * (u - v) = (v - u) * (v - u) := by
    intro u v
    have : v - u = -(u - v) := by omega
    rw [this, Int.neg_mul_neg]
  rw [h a.x b.x, h a.y b.y, h a.z b.z]

/-- `k` is the first index of a minimum `m` of `ds` -/
def IsArgmin (ds : List Int) (k : Nat) (m : Int) : Prop :=
  ds[k]? = some m ∧ (∀ x ∈ ds, m ≤ x) ∧ ∀ j x, j < k → ds[j]? = some x → m < x

theorem argminAux_spec (l pre : List Int) (bi : Nat) (bv : Int) (h : IsArgmin pre bi bv) :
    IsArgmin (pre ++ l) (argminAux bi bv pre.length l).1 (argminAux bi bv pre.length l).2 := by
  induction l generalizing pre bi bv with
  | nil => simpa [argminAux] using h
  | cons v t ih =>
    obtain ⟨hget, hmin, hfirst⟩ := h
    have hbi : bi < pre.length := by
      rcases Nat.lt_or_ge bi pre.length with h | h
      · exact h
      · rw [List.getElem?_eq_none h] at hget; cases hget
    have hassoc : pre ++ v :: t = (pre ++ [v]) ++ t := by simp
    have hlen : (pre ++ [v]).length = pre.length + 1 := by simp
    unfold argminAux
    split
    · rename_i hlt
      rw [hassoc, ← hlen]
      apply ih
      refine ⟨by simp, ?_, ?_⟩
      · intro x hx
        rcases List.mem_append.mp hx with hx | hx
        · have := hmin x hx; omega
        · rw [List.mem_singleton] at hx; omega
      · intro j x hj hx
        rw [List.getElem?_append_left hj] at hx
        have := hmin x (List.mem_of_getElem? hx); omega
    · rename_i hge
      rw [hassoc, ← hlen]
      apply ih
      refine ⟨?_, ?_, ?_⟩
      · rw [List.getElem?_append_left hbi]; exact hget
      · intro x hx
        rcases List.mem_append.mp hx with hx | hx
        · exact hmin x hx
        · rw [List.mem_singleton] at hx; omega
      · intro j x hj hx
        rw [List.getElem?_append_left (by omega)] at hx
        exact hfirst j x hj hx

theorem argmin_spec (ds : List Int) (k : Nat) (m : Int) (h : argmin ds = some (k, m)) : IsArgmin ds k m := by
  cases ds with
  | nil => cases h
  | cons v t =>
    simp only [argmin, Option.some.injEq] at h
    have := argminAux_spec t [v] 0 v ⟨by simp, by simp, by intro j x hj; omega⟩
    simp only [List.length_singleton, List.singleton_append] at this
    rw [h] at this
    exact this

theorem argmin_isSome (ds : List Int) (h : ds ≠ []) : ∃ k m, argmin ds = some (k, m) := by
  cases ds with
  | nil => exact absurd rfl h
  | cons v t => exact ⟨_, _, rfl⟩

theorem argmin_none (ds : List Int) : argmin ds = none ↔ ds = [] := by
  cases ds <;> simp [argmin]

theorem isArgmin_unique (ds : List Int) (k k' : Nat) (m m' : Int) (h : IsArgmin ds k m) (h' : IsArgmin ds k' m') :
    k = k' ∧ m = m' := by
  obtain ⟨g, mn, fs⟩ := h
  obtain ⟨g', mn', fs'⟩ := h'
  have hm : m = m' := by
    have := mn m' (List.mem_of_getElem? g'); have := mn' m (List.mem_of_getElem? g); omega
  subst hm
  refine ⟨?_, rfl⟩
  rcases Nat.lt_trichotomy k k' with h | h | h
  · have := fs' k m h g; omega
  · exact h
  · have := fs k' m h g'; omega

theorem snapIdx_spec (data : List P3) (p : P3) (k : Nat) (m : Int) (h : snapIdx data p = some (k, m)) :
    ∃ q, data[k]? = some q ∧ d2 p q = m ∧ (∀ r ∈ data, m ≤ d2 p r)
      ∧ ∀ j r, j < k → data[j]? = some r → m < d2 p r := by
  obtain ⟨hget, hmin, hfirst⟩ := argmin_spec _ _ _ h
  rw [List.getElem?_map] at hget
  cases hq : data[k]? with
  | none => rw [hq] at hget; cases hget
  | some q =>
    rw [hq] at hget
    simp only [Option.map_some, Option.some.injEq] at hget
    refine ⟨q, rfl, hget, ?_, ?_⟩
    · intro r hr; exact hmin _ (List.mem_map_of_mem hr)
    · intro j r hj hr
      apply hfirst j _ hj
      rw [List.getElem?_map, hr]; rfl

theorem snapIdx_isSome (data : List P3) (p : P3) (h : data ≠ []) : ∃ k m, snapIdx data p = some (k, m) := by
  apply argmin_isSome
  intro e; apply h
  cases data with
  | nil => rfl
  | cons a t => simp at e

/-- a strictly nearest row is what every correct nearest-neighbour search returns -/
theorem snapIdx_of_strict (data : List P3) (p : P3) (j : Nat) (q : P3) (hq : data[j]? = some q)
    (hs : ∀ i r, i ≠ j → data[i]? = some r → d2 p q < d2 p r) : snapIdx data p = some (j, d2 p q) := by
  have hne : data ≠ [] := by intro e; rw [e] at hq; cases hq
  obtain ⟨k, m, hk⟩ := snapIdx_isSome data p hne
  obtain ⟨q', hq', hd, hmin, _⟩ := snapIdx_spec data p k m hk
  by_cases hkj : k = j
  · subst hkj
    rw [hq] at hq'; injection hq' with e; subst e
    rw [hk, hd]
  · have h1 := hs k q' hkj hq'
    have h2 := hmin q (List.mem_of_getElem? hq)
    omega

theorem attach_lt (data : List P3) (c : PConn) (h : data ≠ []) : attach data c < data.length := by
  obtain ⟨k, m, hk⟩ := snapIdx_isSome data c.pos h
  obtain ⟨q, hq, _⟩ := snapIdx_spec data c.pos k m hk
  have : k < data.length := by
    rcases Nat.lt_or_ge k data.length with h | h
    · exact h
    · rw [List.getElem?_eq_none h] at hq; cases hq
  simp [attach, hk, this]

/-! ## 7. point clouds and meshes -/

/-- the predicate `g` evaluated on row `i` (`false` outside the table) -/
def inAt (l : List P3) (g : P3 → Bool) (i : Nat) : Bool := (l[i]?.map g).getD false

theorem masked_range' (l : List P3) (g : P3 → Bool) (s : Nat) :
    masked (List.range' s l.length) (l.map g)
      = (List.range' s l.length).filter fun i => inAt l g (i - s) := by
  induction l generalizing s with
  | nil => rfl
  | cons a t ih =>
    have ih' := ih (s + 1)
    unfold masked at ih' ⊢
    simp only [List.length_cons, List.range'_succ, List.map_cons, List.zip_cons_cons, List.filterMap_cons,
      List.filter_cons]
    have h0 : inAt (a :: t) g (s - s) = g a := by simp [inAt]
    have htail : (List.range' (s + 1) t.length).filter (fun i => inAt (a :: t) g (i - s))
        = (List.range' (s + 1) t.length).filter (fun i => inAt t g (i - (s + 1))) := by
      apply List.filter_congr
      intro i hi
      rw [List.mem_range'_1] at hi
      have : i - s = (i - (s + 1)) + 1 := by omega
      rw [this]; simp [inAt]
    rw [h0, htail, ← ih']
    cases g a <;> rfl

theorem maskedIdx_map (l : List P3) (g : P3 → Bool) :
    maskedIdx (l.map g) = (List.range l.length).filter (inAt l g) := by
  unfold maskedIdx
  rw [List.length_map, List.range_eq_range', masked_range' l g 0]
  rfl

theorem inAt_of_all (l : List P3) (g : P3 → Bool) (h : l.all g = true) (i : Nat) (hi : i < l.length) :
    inAt l g i = true := by
  have := List.all_eq_true.mp h (l[i]) (List.getElem_mem hi)
  simp [inAt, List.getElem?_eq_getElem hi, this]

theorem inAt_not (l : List P3) (g : P3 → Bool) (i : Nat) (hi : i < l.length) :
    inAt l (fun q => !g q) i = !inAt l g i := by
  simp [inAt, List.getElem?_eq_getElem hi]

/-- indices the volume test selects, both branches of `if not all(in_v)` -/
theorem selected_eq (μ : Inside) (mode : Mode) (pts : List P3) :
    (if (keepMask mode (inVolumePoints μ pts)).all id then List.range pts.length
      else maskedIdx (keepMask mode (inVolumePoints μ pts)))
      = (List.range pts.length).filter (inAt pts (keepPred μ mode)) := by
  rw [keepMask_points, all_id_map]
  split
  · rename_i hall
    symm
    apply List.filter_eq_self.mpr
    intro i hi
    exact inAt_of_all pts _ hall i (List.mem_range.mp hi)
  · exact maskedIdx_map pts _

theorem inVolumeDots_kept (μ : Inside) (mode : Mode) (d : Dots) :
    (inVolumeDots μ mode d).kept = (List.range d.pts.length).filter (inAt d.pts (keepPred μ mode)) := by
  rw [← selected_eq]
  unfold inVolumeDots
  split <;> rfl

theorem inVolumeMesh_subset (μ : Inside) (mode : Mode) (m : Mesh) :
    (inVolumeMesh μ mode m).subset = (List.range m.verts.length).filter (inAt m.verts (keepPred μ mode)) := by
  rw [← selected_eq]
  unfold inVolumeMesh
  split <;> rfl

/-- kept connector ids of a point cloud -/
theorem inVolumeDots_conns (μ : Inside) (mode : Mode) (d : Dots) (hne : d.pts ≠ []) :
    (inVolumeDots μ mode d).conns.map (·.1)
      = (d.conns.filter fun c => (inVolumeDots μ mode d).kept.contains (attach d.pts c)).map (·.cid) := by
  unfold inVolumeDots
  split
  · simp only [allDots, List.map_map]
    have : (d.conns.filter fun c => (List.range d.pts.length).contains (attach d.pts c)) = d.conns := by
      apply List.filter_eq_self.mpr
      intro c _
      rw [List.contains_iff_mem, List.mem_range]
      exact attach_lt d.pts c hne
    rw [this]; rfl
  · simp only [subsetDots, List.map_map]; rfl

theorem inVolumeMesh_conns (μ : Inside) (mode : Mode) (m : Mesh) (hne : m.verts ≠ []) :
    (inVolumeMesh μ mode m).conns.map (·.1)
      = (m.conns.filter fun c => (inVolumeMesh μ mode m).kept.contains (attach m.verts c)).map (·.cid) := by
  unfold inVolumeMesh
  split
  · simp only [allMesh, List.map_map]
    have : (m.conns.filter fun c => (List.range m.verts.length).contains (attach m.verts c)) = m.conns := by
      apply List.filter_eq_self.mpr
      intro c _
      rw [List.contains_iff_mem, List.mem_range]
      exact attach_lt m.verts c hne
    rw [this]; rfl
  · simp only [subsetMesh, List.map_map]; rfl

theorem getElem?_idxOf_of_mem (l : List Nat) (a : Nat) (h : a ∈ l) : l[l.idxOf a]? = some a := by
  have hl := List.idxOf_lt_length_of_mem h
  rw [List.getElem?_eq_getElem hl, List.getElem_idxOf hl]

/-- the re-indexed `vertex_id` column addresses the same vertex in the pruned mesh -/
theorem inVolumeMesh_reindex (μ : Inside) (mode : Mode) (m : Mesh) (hne : m.verts ≠ []) (cj : Int × Nat)
    (h : cj ∈ (inVolumeMesh μ mode m).conns) :
    ∃ c ∈ m.conns, c.cid = cj.1 ∧ (inVolumeMesh μ mode m).kept[cj.2]? = some (attach m.verts c) := by
  unfold inVolumeMesh at h ⊢
  split at h
  · rename_i hall
    simp only [hall, if_true]
    obtain ⟨c, hc, rfl⟩ := List.mem_map.mp h
    exact ⟨c, hc, rfl, List.getElem?_range (attach_lt m.verts c hne)⟩
  · rename_i hall
    simp only [hall]
    obtain ⟨c, hc, rfl⟩ := List.mem_map.mp h
    rw [List.mem_filter, List.contains_iff_mem] at hc
    exact ⟨c, hc.1, rfl, getElem?_idxOf_of_mem _ _ hc.2⟩

/-- the re-indexed `point` column addresses the same point in the pruned cloud -/
theorem inVolumeDots_reindex (μ : Inside) (mode : Mode) (d : Dots) (hne : d.pts ≠ []) (cj : Int × Nat)
    (h : cj ∈ (inVolumeDots μ mode d).conns) :
    ∃ c ∈ d.conns, c.cid = cj.1 ∧ (inVolumeDots μ mode d).kept[cj.2]? = some (attach d.pts c) := by
  unfold inVolumeDots at h ⊢
  split at h
  · rename_i hall
    simp only [hall, if_true]
    obtain ⟨c, hc, rfl⟩ := List.mem_map.mp h
    exact ⟨c, hc, rfl, List.getElem?_range (attach_lt d.pts c hne)⟩
  · rename_i hall
    simp only [hall]
    obtain ⟨c, hc, rfl⟩ := List.mem_map.mp h
    rw [List.mem_filter, List.contains_iff_mem] at hc
    exact ⟨c, hc.1, rfl, getElem?_idxOf_of_mem _ _ hc.2⟩

/-- complementary filters of the row indices -/
theorem selected_partition (μ : Inside) (pts : List P3) :
    ((List.range pts.length).filter (inAt pts (keepPred μ .IN))
      ++ (List.range pts.length).filter (inAt pts (keepPred μ .OUT))).Perm (List.range pts.length) := by
  have : (List.range pts.length).filter (inAt pts (keepPred μ .OUT))
      = (List.range pts.length).filter (fun i => !inAt pts (keepPred μ .IN) i) := by
    apply List.filter_congr
    intro i hi
    exact inAt_not pts (keepPred μ .IN) i (List.mem_range.mp hi)
  rw [this]
  exact List.filter_append_perm _ _

theorem selected_disjoint (μ : Inside) (pts : List P3) (i : Nat)
    (h : i ∈ (List.range pts.length).filter (inAt pts (keepPred μ .IN))) :
    i ∉ (List.range pts.length).filter (inAt pts (keepPred μ .OUT)) := by
  intro h'
  rw [List.mem_filter] at h h'
  have := inAt_not pts (keepPred μ .IN) i (List.mem_range.mp h.1)
  have e : inAt pts (keepPred μ .OUT) i = !inAt pts (keepPred μ .IN) i := this
  rw [e, h.2] at h'
  exact absurd h'.2 (by simp)

/-! ### meshes: faces decide which vertices survive -/

/-- all faces address existing vertices -/
def FacesValid (m : Mesh) : Prop := ∀ f ∈ m.faces, f.a < m.verts.length ∧ f.b < m.verts.length ∧ f.c < m.verts.length

/-- every vertex belongs to at least one face (what `trimesh` processing leaves) -/
def Referenced (m : Mesh) : Prop := ∀ i, i < m.verts.length → ∃ f ∈ m.faces, f.has i = true

/-- no face has vertices on both sides of the surface -/
def NoStraddle (μ : Inside) (m : Mesh) : Prop := ∀ f ∈ m.faces, f.straddles μ m.verts = false

theorem Face.has_iff (f : Face) (i : Nat) : f.has i = true ↔ f.a = i ∨ f.b = i ∨ f.c = i := by
  simp [Face.has, or_assoc]

theorem Face.allIn_iff (f : Face) (s : List Nat) : f.allIn s = true ↔ f.a ∈ s ∧ f.b ∈ s ∧ f.c ∈ s := by
  simp [Face.allIn, and_assoc]

theorem submeshVerts_sub (m : Mesh) (subset : List Nat) (i : Nat) (h : i ∈ submeshVerts m subset) : i ∈ subset := by
  unfold submeshVerts at h
  rw [List.mem_filter, List.any_eq_true] at h
  obtain ⟨_, f, _, hf⟩ := h
  rw [Bool.and_eq_true, Face.allIn_iff, Face.has_iff] at hf
  obtain ⟨⟨ha, hb, hc⟩, hi⟩ := hf
  rcases hi with rfl | rfl | rfl <;> assumption

theorem mem_selected (pts : List P3) (g : P3 → Bool) (i : Nat) :
    i ∈ (List.range pts.length).filter (inAt pts g) ↔ ∃ q, pts[i]? = some q ∧ g q = true := by
  rw [List.mem_filter, List.mem_range]
  constructor
  · rintro ⟨hi, hg⟩
    refine ⟨pts[i], List.getElem?_eq_getElem hi, ?_⟩
    simpa [inAt, List.getElem?_eq_getElem hi] using hg
  · rintro ⟨q, hq, hg⟩
    have hi : i < pts.length := by
      rcases Nat.lt_or_ge i pts.length with h | h
      · exact h
      · rw [List.getElem?_eq_none h] at hq; cases hq
    refine ⟨hi, ?_⟩
    simp [inAt, hq, hg]

theorem keepPred_congr (μ : Inside) (mode : Mode) (p q : P3) (h : μ p = μ q) :
    keepPred μ mode p = keepPred μ mode q := by
  cases mode <;> simp [keepPred, h]

/-- without straddling faces, on a mesh all of whose vertices carry a face, `submesh` keeps exactly the selected
vertices -/
theorem submeshVerts_eq_of_noStraddle (μ : Inside) (mode : Mode) (m : Mesh) (hv : FacesValid m)
    (hr : Referenced m) (hs : NoStraddle μ m) :
    submeshVerts m ((List.range m.verts.length).filter (inAt m.verts (keepPred μ mode)))
      = (List.range m.verts.length).filter (inAt m.verts (keepPred μ mode)) := by
  unfold submeshVerts
  apply List.filter_congr
  intro i hi
  have hi' := List.mem_range.mp hi
  cases hg : inAt m.verts (keepPred μ mode) i
  · apply Bool.eq_false_iff.mpr
    intro hany
    rw [List.any_eq_true] at hany
    obtain ⟨f, _, hf⟩ := hany
    rw [Bool.and_eq_true, Face.allIn_iff, Face.has_iff] at hf
    obtain ⟨⟨ha, hb, hc⟩, hi⟩ := hf
    have : i ∈ (List.range m.verts.length).filter (inAt m.verts (keepPred μ mode)) := by
      rcases hi with rfl | rfl | rfl <;> assumption
    rw [List.mem_filter, hg] at this
    exact absurd this.2 (by simp)
  · rw [List.any_eq_true]
    obtain ⟨f, hf, hfi⟩ := hr i hi'
    refine ⟨f, hf, ?_⟩
    rw [Bool.and_eq_true]
    refine ⟨?_, hfi⟩
    obtain ⟨va, vb, vc⟩ := hv f hf
    have hst := hs f hf
    simp only [Face.straddles, List.getD_eq_getElem?_getD, List.getElem?_eq_getElem va,
      List.getElem?_eq_getElem vb, List.getElem?_eq_getElem vc, Option.getD_some,
      Bool.not_eq_false', Bool.and_eq_true, beq_iff_eq] at hst
    obtain ⟨eab, ebc⟩ := hst
    -- keepPred at i
    have gi : keepPred μ mode m.verts[i] = true := by
      simpa [inAt, List.getElem?_eq_getElem hi'] using hg
    have sel : ∀ k (hk : k < m.verts.length), μ m.verts[k] = μ m.verts[i] →
        k ∈ (List.range m.verts.length).filter (inAt m.verts (keepPred μ mode)) := by
      intro k hk e
      rw [mem_selected]
      exact ⟨m.verts[k], List.getElem?_eq_getElem hk, by rw [keepPred_congr μ mode _ _ e]; exact gi⟩
    rw [Face.has_iff] at hfi
    rw [Face.allIn_iff]
    rcases hfi with h | h | h
    · subst h
      exact ⟨sel _ va rfl, sel _ vb eab.symm, sel _ vc (ebc.symm.trans eab.symm)⟩
    · subst h
      exact ⟨sel _ va eab, sel _ vb rfl, sel _ vc ebc.symm⟩
    · subst h
      exact ⟨sel _ va (eab.trans ebc), sel _ vb ebc, sel _ vc rfl⟩

theorem inVolumeMesh_kept_sub (μ : Inside) (mode : Mode) (m : Mesh) (i : Nat)
    (h : i ∈ (inVolumeMesh μ mode m).kept) : i ∈ (inVolumeMesh μ mode m).subset := by
  unfold inVolumeMesh at h ⊢
  split
  · rename_i hall; simp only [hall, if_true] at h; exact h
  · rename_i hall; simp only [hall] at h
    exact submeshVerts_sub m _ i h

theorem inVolumeMesh_kept_of_noStraddle (μ : Inside) (mode : Mode) (m : Mesh) (hv : FacesValid m)
    (hr : Referenced m) (hs : NoStraddle μ m) :
    (inVolumeMesh μ mode m).kept = (List.range m.verts.length).filter (inAt m.verts (keepPred μ mode)) := by
  have hsub := inVolumeMesh_subset μ mode m
  unfold inVolumeMesh at hsub ⊢
  by_cases hall : (keepMask mode (inVolumePoints μ m.verts)).all id = true
  · rw [if_pos hall] at hsub ⊢; exact hsub
  · rw [if_neg hall] at hsub ⊢
    have e : (subsetMesh m (maskedIdx (keepMask mode (inVolumePoints μ m.verts)))).subset
        = maskedIdx (keepMask mode (inVolumePoints μ m.verts)) := rfl
    rw [e] at hsub
    show submeshVerts m (maskedIdx (keepMask mode (inVolumePoints μ m.verts))) = _
    rw [hsub]
    exact submeshVerts_eq_of_noStraddle μ mode m hv hr hs

/-! ## 8. convex polytopes -/

theorem memPoly_iff (P : Polytope) (p : P3) : memPoly P p = true ↔ ∀ h ∈ P, dot h.n p < 2 * h.d := by
  simp [memPoly, List.all_eq_true]

theorem memPoly_append (P Q : Polytope) (p : P3) : memPoly (P ++ Q) p = (memPoly P p && memPoly Q p) := by
  simp [memPoly, List.all_append]

theorem memPoly_eq_closed (P : Polytope) (p : P3) (h : offFaces P p = true) : memPoly P p = memPolyClosed P p := by
  induction P with
  | nil => rfl
  | cons a t ih =>
    simp only [offFaces, List.all_cons, Bool.and_eq_true, decide_eq_true_eq] at h
    have ht : offFaces t p = true := h.2
    simp only [memPoly, memPolyClosed, List.all_cons] at ih ⊢
    rw [ih ht]
    have : decide (dot a.n p < 2 * a.d) = decide (dot a.n p ≤ 2 * a.d) := by
      apply decide_eq_decide.mpr
      have := h.1
      omega
    rw [this]

/-- the six half-spaces of a box -/
def boxPoly (b : Box) : Polytope :=
  [⟨⟨1, 0, 0⟩, b.hi.x⟩, ⟨⟨-1, 0, 0⟩, -b.lo.x⟩, ⟨⟨0, 1, 0⟩, b.hi.y⟩, ⟨⟨0, -1, 0⟩, -b.lo.y⟩,
   ⟨⟨0, 0, 1⟩, b.hi.z⟩, ⟨⟨0, 0, -1⟩, -b.lo.z⟩]

theorem memPoly_boxPoly (b : Box) (p : P3) : memPoly (boxPoly b) p = inBox b p := by
  rw [Bool.eq_iff_iff, memPoly_iff, inBox_iff]
  simp only [boxPoly, List.mem_cons, List.not_mem_nil, or_false, forall_eq_or_imp, forall_eq, dot]
  omega

/-! ## 9. voxel neurons, back-end selection -/

theorem masked_nil_left {α} (m : List Bool) : masked ([] : List α) m = [] := by simp [masked]

theorem masked_nil_right {α} (l : List α) : masked l [] = [] := by simp [masked]

theorem masked_cons {α} (a : α) (l : List α) (b : Bool) (m : List Bool) :
    masked (a :: l) (b :: m) = if b then a :: masked l m else masked l m := by
  cases b <;> simp [masked]

theorem masked_zip {α β} (a : List α) (b : List β) (m : List Bool) :
    masked (a.zip b) m = (masked a m).zip (masked b m) := by
  induction a generalizing b m with
  | nil => simp [masked_nil_left]
  | cons x a ih =>
    cases b with
    | nil => simp [masked_nil_left]
    | cons y b =>
      cases m with
      | nil => simp [masked_nil_right]
      | cons c m =>
        rw [List.zip_cons_cons, masked_cons, masked_cons, masked_cons, ih]
        cases c <;> simp

theorem filter_eq_self_of_all {α} (l : List α) (g : α → Bool) (h : l.all g = true) : l.filter g = l := by
  apply List.filter_eq_self.mpr
  intro a ha
  exact List.all_eq_true.mp h a ha

theorem inVolumeVox_cells (μ : Inside) (mode : Mode) (v : Vox) :
    (inVolumeVox μ mode v).cells = v.cells.filter fun c => keepPred μ mode (v.centre2 c) := by
  unfold inVolumeVox
  rw [keepMask_points, List.map_map, all_id_map]
  by_cases h : v.cells.all (keepPred μ mode ∘ v.centre2) = true
  · rw [if_pos h]
    exact (filter_eq_self_of_all _ _ h).symm
  · rw [if_neg h]
    exact masked_map v.cells (keepPred μ mode ∘ v.centre2)

theorem zip_map_fst_of_length {α β γ} (a : List α) (b : List β) (g : α → γ) (h : b.length = a.length) :
    (a.zip b).map (fun ab => g ab.1) = a.map g := by
  induction a generalizing b with
  | nil => simp
  | cons x a ih =>
    cases b with
    | nil => simp at h
    | cons y b =>
      simp only [List.zip_cons_cons, List.map_cons]
      rw [ih b (by simpa using h)]

theorem inVolumeVox_rows (μ : Inside) (mode : Mode) (v : Vox) (h : v.values.length = v.cells.length) :
    (inVolumeVox μ mode v).cells.zip (inVolumeVox μ mode v).values
      = (v.cells.zip v.values).filter fun cv => keepPred μ mode (v.centre2 cv.1) := by
  unfold inVolumeVox
  rw [keepMask_points, List.map_map, all_id_map]
  have hm : v.cells.map (keepPred μ mode ∘ v.centre2)
      = (v.cells.zip v.values).map (fun cv => (keepPred μ mode ∘ v.centre2) cv.1) :=
    (zip_map_fst_of_length v.cells v.values _ h).symm
  by_cases hall : v.cells.all (keepPred μ mode ∘ v.centre2) = true
  · rw [if_pos hall]
    symm
    apply filter_eq_self_of_all
    rw [← all_id_map, ← all_id_map] at *
    have : (v.cells.zip v.values).map (fun cv => keepPred μ mode (v.centre2 cv.1))
        = v.cells.map (keepPred μ mode ∘ v.centre2) := hm.symm
    rw [this]; exact hall
  · rw [if_neg hall]
    simp only
    rw [← masked_zip, hm]
    exact masked_map (v.cells.zip v.values) fun cv => (keepPred μ mode ∘ v.centre2) cv.1

theorem half_centre2 (v : Vox) (c : P3) (hu : v.units.x % 2 = 1 ∧ v.units.y % 2 = 1 ∧ v.units.z % 2 = 1) :
    Half (v.centre2 c) := by
  obtain ⟨hx, hy, hz⟩ := hu
  unfold Half Vox.centre2
  refine ⟨?_, ?_, ?_⟩ <;> simp only <;> omega

theorem selectBackend_spec (av : String → Bool) (bs : List String) (b : String)
    (h : selectBackend av bs = some b) :
    ∃ pre post, bs = pre ++ b :: post ∧ (b = "scipy" ∨ av b = true)
      ∧ ∀ c ∈ pre, c ≠ "scipy" ∧ av c = false := by
  induction bs with
  | nil => cases h
  | cons c t ih =>
    unfold selectBackend at h
    by_cases hc : (c == "scipy" || av c) = true
    · rw [if_pos hc] at h
      cases h
      refine ⟨[], t, rfl, ?_, by intro c hc; cases hc⟩
      simpa using hc
    · rw [if_neg hc] at h
      obtain ⟨pre, post, e, hb, hpre⟩ := ih h
      refine ⟨c :: pre, post, by rw [e]; rfl, hb, ?_⟩
      intro d hd
      rcases List.mem_cons.mp hd with rfl | hd
      · simpa using hc
      · exact hpre d hd

theorem selectBackend_none (av : String → Bool) (bs : List String) :
    selectBackend av bs = none ↔ ∀ c ∈ bs, c ≠ "scipy" ∧ av c = false := by
  induction bs with
  | nil => simp [selectBackend]
  | cons c t ih =>
    unfold selectBackend
    by_cases hc : (c == "scipy" || av c) = true
    · rw [if_pos hc]
      constructor
      · intro h; cases h
      · intro h
        have := h c (List.mem_cons_self ..)
        simp [this.1, this.2] at hc
    · rw [if_neg hc, ih]
      constructor
      · intro h d hd
        rcases List.mem_cons.mp hd with rfl | hd
        · simpa using hc
        · exact h d hd
      · intro h d hd
        exact h d (List.mem_cons_of_mem _ hd)

/-! ## 10. `in_volume_pyoc`: ray consensus -/

theorem foldl_pyocRay {α} (rays : List (α → Bool)) (st : List (α × Bool)) :
    rays.foldl (fun st r => pyocRay r st) st = st.map fun x => (x.1, x.2 || !(rays.all fun r => r x.1)) := by
  induction rays generalizing st with
  | nil => simp
  | cons r t ih =>
    rw [List.foldl_cons, ih]
    unfold pyocRay
    rw [List.map_map]
    apply List.map_congr_left
    intro x _
    simp only [Function.comp, List.all_cons]
    cases x.2 <;> cases r x.1 <;> simp

theorem pyocLoop_eq {α} (bb : α → Bool) (rays : List (α → Bool)) (pts : List α) :
    pyocLoop bb rays pts = pts.map fun p => bb p && rays.all fun r => r p := by
  unfold pyocLoop
  rw [foldl_pyocRay, List.map_map, List.map_map]
  apply List.map_congr_left
  intro p _
  simp only [Function.comp]
  cases bb p <;> simp

/-! ## 11. chains of poses (volume histories) -/

theorem Pose.box_ok (π : Pose) (b : Box) : (π.box b).ok := by
  unfold Pose.box Box.ok
  simp only
  omega

theorem Pose.solid_ok (π : Pose) (S : Solid) : ∀ sb ∈ π.solid S, sb.2.ok := by
  intro sb h
  unfold Pose.solid at h
  obtain ⟨x, _, rfl⟩ := List.mem_map.mp h
  exact Pose.box_ok π x.2

/-- the solid after a chain of in-place poses, and the image of a query point under the same chain -/
def poseChainSolid (πs : List Pose) (S : Solid) : Solid := πs.foldl (fun S π => π.solid S) S
def poseChainPt (πs : List Pose) (p : P3) : P3 := πs.foldl (fun p π => π.pt p) p

theorem mem_poseChain (πs : List Pose) (hπ : ∀ π ∈ πs, π.ok) (S : Solid) (hS : ∀ sb ∈ S, sb.2.ok) (p : P3) :
    mem (poseChainSolid πs S) (poseChainPt πs p) = mem S p := by
  induction πs generalizing S p with
  | nil => rfl
  | cons π t ih =>
    unfold poseChainSolid poseChainPt
    simp only [List.foldl_cons]
    have := ih (fun π' h => hπ π' (List.mem_cons_of_mem _ h)) (π.solid S) (Pose.solid_ok π S) (π.pt p)
    unfold poseChainSolid poseChainPt at this
    rw [this]
    exact mem_pose π (hπ π (List.mem_cons_self ..)) S hS p

/-! ## 12. `snap` with non-integer queries -/

theorem castQuery_of_not_truncating (c : QCast) (b : Bool) (q : P3) (h : c ≠ .data ∨ b = false) : castQuery c b q = q := by
  unfold castQuery
  cases c with
  | data =>
    rcases h with h | h
    · exact absurd rfl h
    · simp [h]
  | float64 => rfl
  | other => rfl

theorem snapQ_spec (c : QCast) (b : Bool) (h : c ≠ .data ∨ b = false) (data : List P3) (q10 : P3) (k : Nat) (m : Int)
    (hs : snapQ c b data q10 = some (k, m)) :
    ∃ v, data[k]? = some v ∧ m = d2 q10 (scale10 v) ∧ ∀ r ∈ data, d2 q10 (scale10 v) ≤ d2 q10 (scale10 r) := by
  unfold snapQ at hs
  rw [castQuery_of_not_truncating c b q10 h] at hs
  obtain ⟨q, hq, hd, hmin, _⟩ := snapIdx_spec _ q10 k m hs
  rw [List.getElem?_map] at hq
  cases hv : data[k]? with
  | none => rw [hv] at hq; cases hq
  | some v =>
    rw [hv] at hq
    simp only [Option.map_some, Option.some.injEq] at hq
    subst hq
    exact ⟨v, rfl, hd.symm, fun r hr => hd ▸ hmin _ (List.mem_map_of_mem hr)⟩

end Navis.Volume
