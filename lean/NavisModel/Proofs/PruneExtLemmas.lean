import NavisModel.Model.PruneExt
import NavisModel.Proofs.PruneLemmas
import NavisModel.Proofs.ExactPruneLemmas
/-!
Helper lemmas for the second-pass C12 theorems (`Model/PruneExt.lean`): the parametrised rules
coincide with the hard-wired model, `recursive` handling, Python ranges / slices, connector
relocation, `prune_at_depth` / `longest_neurite` argument forms.
-/
namespace Navis.PruneX
open Navis.Forest

/-! ### `pyIndex`, the twig rule -/

theorem pyIndex_zero {α} (l : List α) : pyIndex l 0 = l.head? := by
  unfold pyIndex
  cases l <;> simp

theorem pyIndex_neg_one {α} (l : List α) : pyIndex l (-1) = l.getLast? := by
  unfold pyIndex
  have h1 : ((-1 : Int) < 0) := by decide
  have h2 : (-(-1 : Int)).toNat = 1 := by decide
  simp only [h1, if_true, h2]
  cases l with
  | nil => simp
  | cons a r =>
    have : 1 ≤ (a :: r).length := by simp
    simp only [this, if_true]
    rw [List.getLast?_eq_getElem?]

theorem take_length_sub_one {α} (l : List α) : l.take (l.length - 1) = l.dropLast := by
  rw [List.dropLast_eq_take]

theorem terminalSegsG_rule0 (t : Table) : terminalSegsG twigRule0 t = terminalSegs t := by
  unfold terminalSegsG terminalSegs twigRule0
  apply List.filter_congr
  intro s _
  simp only [pyIndex_zero, pyIndex_neg_one]
  cases s.head? <;> cases s.getLast? <;> simp [Cmp.evalNat]
  rename_i a b
  have : decide (1 < childCount t b) = decide (2 ≤ childCount t b) := by
    by_cases h : 1 < childCount t b
    · have : 2 ≤ childCount t b := h
      simp [h, this]
    · have : ¬ 2 ≤ childCount t b := h
      simp [h, this]
  rw [this]

theorem twigDeleteG_rule0 (t : Table) (len : Int → Int → Nat) (size : Nat) (mask : Option (List Int)) :
    twigDeleteG twigRule0 t len size mask = twigDelete t len size mask := by
  unfold twigDeleteG twigDelete
  rw [terminalSegsG_rule0]
  have hf : ∀ s : List Int, s.take (s.length - twigRule0.dropTail) = s.dropLast := fun s => take_length_sub_one s
  simp only [hf]
  congr 1
  apply List.filter_congr
  intro s _
  have : twigRule0.maskPos = 0 := rfl
  simp only [this, pyIndex_zero]
  rfl

/-! ### `recursive` -/

/-- `pruneTwigs` with enough rounds does not depend on the number of rounds. -/
theorem pruneTwigs_stable (len : Int → Int → Nat) (size : Nat) (mask : Option (List Int)) :
    ∀ (k k' : Nat) (t : Table), t.length ≤ k + 1 → t.length ≤ k' + 1 →
      pruneTwigs t len size mask k = pruneTwigs t len size mask k' := by
  intro k
  induction k with
  | zero =>
    intro k' t h1 _
    -- `t` has at most one row
    cases hd : twigDelete t len size mask with
    | nil =>
      rw [pruneTwigs_of_nil hd, pruneTwigs_of_nil hd]
    | cons a l =>
      have hne : twigDelete t len size mask ≠ [] := by rw [hd]; simp
      have hlt := length_twigRound_lt (t := t) (len := len) (size := size) (mask := mask) hne
      have h0 : (subset t fun i => !(twigDelete t len size mask).contains i).length = 0 := by omega
      have hnil : (subset t fun i => !(twigDelete t len size mask).contains i) = [] := List.eq_nil_of_length_eq_zero h0
      cases k' with
      | zero => rfl
      | succ k' =>
        rw [pruneTwigs_zero, pruneTwigsOnce_of_ne_nil hne, pruneTwigs_succ_of_ne_nil hne, hnil]
        rw [pruneTwigs_of_nil (twigDelete_nil len size mask)]
  | succ k ih =>
    intro k' t h1 h2
    cases hd : twigDelete t len size mask with
    | nil => rw [pruneTwigs_of_nil hd, pruneTwigs_of_nil hd]
    | cons a l =>
      have hne : twigDelete t len size mask ≠ [] := by rw [hd]; simp
      have hlt := length_twigRound_lt (t := t) (len := len) (size := size) (mask := mask) hne
      cases k' with
      | zero =>
        have h0 : (subset t fun i => !(twigDelete t len size mask).contains i).length = 0 := by omega
        have hnil : (subset t fun i => !(twigDelete t len size mask).contains i) = [] := List.eq_nil_of_length_eq_zero h0
        rw [pruneTwigs_zero, pruneTwigsOnce_of_ne_nil hne, pruneTwigs_succ_of_ne_nil hne, hnil]
        rw [pruneTwigs_of_nil (twigDelete_nil len size mask)]
      | succ k' =>
        rw [pruneTwigs_succ_of_ne_nil hne, pruneTwigs_succ_of_ne_nil hne]
        exact ih k' _ (by omega) (by omega)

/-- An argument that never becomes falsy. -/
def RecArg.unbounded : RecArg → Prop
  | .inf => True
  | .int k => k < 0
  | _ => False

theorem RecArg.step_unbounded {r : RecArg} (h : r.unbounded) : ∃ r', r.step = some r' ∧ r'.unbounded := by
  cases r with
  | bool b => exact absurd h (by simp [RecArg.unbounded])
  | inf => exact ⟨.inf, rfl, trivial⟩
  | int k =>
    have hk : k < 0 := h
    refine ⟨.int (k - 1), ?_, ?_⟩
    · simp [RecArg.step]; omega
    · show k - 1 < 0; omega

theorem roundsAW_unbounded (len : Int → Int → Nat) (size : Nat) (mask : Option (List Int)) :
    ∀ (fuel : Nat) (t : Table) (r : RecArg), r.unbounded → t.length + 1 ≤ fuel →
      pruneTwigsAW len size mask fuel t r = pruneTwigs t len size mask t.length := by
  intro fuel
  induction fuel with
  | zero => intro t r _ h; omega
  | succ f ih =>
    intro t r hr hf
    unfold pruneTwigsAW roundsAW
    cases hd : twigDelete t len size mask with
    | nil =>
      simp only [List.isEmpty_nil, if_true]
      rw [pruneTwigs_of_nil hd]
    | cons a l =>
      have hne : twigDelete t len size mask ≠ [] := by rw [hd]; simp
      have hlt := length_twigRound_lt (t := t) (len := len) (size := size) (mask := mask) hne
      obtain ⟨r', hs, hr'⟩ := RecArg.step_unbounded hr
      simp only [List.isEmpty_cons, Bool.false_eq_true, if_false, hs]
      rw [← hd]
      have := ih (subset t fun i => !(twigDelete t len size mask).contains i) r' hr' (by omega)
      unfold pruneTwigsAW at this
      rw [this]
      have hpos : t.length = (t.length - 1) + 1 := by omega
      rw [hpos, pruneTwigs_succ_of_ne_nil hne]
      exact pruneTwigs_stable len size mask _ _ _ (by omega) (by omega)

theorem roundsAW_int (len : Int → Int → Nat) (size : Nat) (mask : Option (List Int)) :
    ∀ (k : Nat) (fuel : Nat) (t : Table), t.length + 1 ≤ fuel →
      pruneTwigsAW len size mask fuel t (.int k) = pruneTwigs t len size mask k := by
  intro k
  induction k with
  | zero =>
    intro fuel t hf
    cases fuel with
    | zero => omega
    | succ f =>
      unfold pruneTwigsAW roundsAW
      cases hd : twigDelete t len size mask with
      | nil => simp only [List.isEmpty_nil, if_true]; rw [pruneTwigs_of_nil hd]
      | cons a l =>
        have hne : twigDelete t len size mask ≠ [] := by rw [hd]; simp
        simp only [List.isEmpty_cons, Bool.false_eq_true, if_false, RecArg.step]
        rw [← hd, pruneTwigs_zero, pruneTwigsOnce_of_ne_nil hne]
        simp
  | succ k ih =>
    intro fuel t hf
    cases fuel with
    | zero => omega
    | succ f =>
      unfold pruneTwigsAW roundsAW
      cases hd : twigDelete t len size mask with
      | nil => simp only [List.isEmpty_nil, if_true]; rw [pruneTwigs_of_nil hd]
      | cons a l =>
        have hne : twigDelete t len size mask ≠ [] := by rw [hd]; simp
        have hlt := length_twigRound_lt (t := t) (len := len) (size := size) (mask := mask) hne
        have hstep : (RecArg.int ((k : Int) + 1)).step = some (.int k) := by
          simp [RecArg.step]; omega
        simp only [List.isEmpty_cons, Bool.false_eq_true, if_false]
        rw [← hd]
        have hcast : ((k + 1 : Nat) : Int) = (k : Int) + 1 := by omega
        rw [hcast, hstep]
        have := ih f (subset t fun i => !(twigDelete t len size mask).contains i) (by omega)
        unfold pruneTwigsAW at this
        simp only []
        rw [this, pruneTwigs_succ_of_ne_nil hne]

theorem roundsAW_false (len : Int → Int → Nat) (size : Nat) (mask : Option (List Int)) (fuel : Nat) (t : Table) :
    pruneTwigsAW len size mask (fuel + 1) t (.bool false) = pruneTwigsOnce t len size mask := by
  unfold pruneTwigsAW roundsAW
  cases hd : twigDelete t len size mask with
  | nil => simp only [List.isEmpty_nil, if_true]; rw [pruneTwigsOnce_of_nil hd]
  | cons a l =>
    have hne : twigDelete t len size mask ≠ [] := by rw [hd]; simp
    simp only [List.isEmpty_cons, Bool.false_eq_true, if_false, RecArg.step]
    rw [← hd, pruneTwigsOnce_of_ne_nil hne]

/-- **`recursive` as navis consumes it = a number of further rounds.** -/
theorem pruneTwigsRec_eq (t : Table) (len : Int → Int → Nat) (size : Nat) (mask : Option (List Int)) (r : RecArg) :
    pruneTwigsRec t len size mask r = pruneTwigs t len size mask (r.rounds t.length) := by
  unfold pruneTwigsRec
  cases r with
  | bool b =>
    cases b with
    | false => show pruneTwigsAW len size mask (t.length + 1) t (.bool false) = _; rw [roundsAW_false]; rfl
    | true => exact roundsAW_unbounded len size mask _ t .inf trivial (Nat.le_refl _)
  | inf => exact roundsAW_unbounded len size mask _ t .inf trivial (Nat.le_refl _)
  | int k =>
    by_cases hk : k < 0
    · have : (RecArg.int k).rounds t.length = t.length := by simp [RecArg.rounds, hk]
      rw [this]
      exact roundsAW_unbounded len size mask _ t (.int k) hk (Nat.le_refl _)
    · have : (RecArg.int k).rounds t.length = k.toNat := by simp [RecArg.rounds, hk]
      rw [this]
      have hk' : k = (k.toNat : Int) := by omega
      show pruneTwigsAW len size mask (t.length + 1) t (.int k) = _
      have h := roundsAW_int len size mask k.toNat (t.length + 1) t (Nat.le_refl _)
      rw [← hk'] at h
      exact h

end Navis.PruneX

namespace Navis.PruneX
open Navis.Forest

/-! ### Python `range` -/

theorem mem_pyRange_one {a b x : Int} : x ∈ pyRange a b 1 ↔ a ≤ x ∧ x < b := by
  unfold pyRange
  simp only [show (1 : Int) > 0 by decide, if_true, List.mem_map, List.mem_range]
  constructor
  · rintro ⟨k, hk, rfl⟩
    have : (b - a + 1 - 1) / 1 = b - a := by simp
    rw [this] at hk
    omega
  · rintro ⟨h1, h2⟩
    refine ⟨(x - a).toNat, ?_, by omega⟩
    have : (b - a + 1 - 1) / 1 = b - a := by simp
    rw [this]
    omega

theorem pyRange_one_length (a b : Int) : (pyRange a b 1).length = (b - a).toNat := by
  unfold pyRange
  simp

theorem pyRange_one_get (a b : Int) (p : Nat) (h : p < (b - a).toNat) : (pyRange a b 1)[p]? = some (a + p) := by
  unfold pyRange
  simp only [show (1 : Int) > 0 by decide, if_true]
  have : (b - a + 1 - 1) / 1 = b - a := by simp
  rw [this, List.getElem?_map, List.getElem?_range h]
  simp

/-- `range(a, b, s)` for a positive step: `a, a+s, …` below `b`. -/
theorem mem_pyRange_pos {a b s x : Int} (hs : 0 < s) : x ∈ pyRange a b s ↔ ∃ k : Nat, x = a + k * s ∧ x < b := by
  unfold pyRange
  simp only [show s > 0 from hs, if_true, List.mem_map, List.mem_range]
  constructor
  · rintro ⟨k, hk, rfl⟩
    refine ⟨k, rfl, ?_⟩
    have hq : (k : Int) < (b - a + s - 1) / s := by omega
    have h1 : ((k : Int) + 1) ≤ (b - a + s - 1) / s := by omega
    have h2 : ((k : Int) + 1) * s ≤ b - a + s - 1 := by
      have := Int.mul_le_of_le_ediv hs h1
      simpa [Int.mul_comm] using this
    have : ((k : Int) + 1) * s = k * s + s := by rw [Int.add_mul]; simp
    omega
  · rintro ⟨k, rfl, hlt⟩
    refine ⟨k, ?_, rfl⟩
    have h2 : ((k : Int) + 1) * s ≤ b - a + s - 1 := by
      have : ((k : Int) + 1) * s = k * s + s := by rw [Int.add_mul]; simp
      omega
    have h3 : ((k : Int) + 1) ≤ (b - a + s - 1) / s := by
      exact Int.le_ediv_of_mul_le hs h2
    omega

/-- … and for a negative step: `a, a+s, …` above `b`. -/
theorem mem_pyRange_neg {a b s x : Int} (hs : s < 0) : x ∈ pyRange a b s ↔ ∃ k : Nat, x = a + k * s ∧ b < x := by
  unfold pyRange
  have hns : ¬ s > 0 := by omega
  simp only [hns, if_false, hs, if_true, List.mem_map, List.mem_range]
  have hp : 0 < -s := by omega
  constructor
  · rintro ⟨k, hk, rfl⟩
    refine ⟨k, rfl, ?_⟩
    have h1 : ((k : Int) + 1) ≤ (a - b + -s - 1) / -s := by omega
    have h2 : ((k : Int) + 1) * (-s) ≤ a - b + -s - 1 := by
      have := Int.mul_le_of_le_ediv hp h1
      simpa [Int.mul_comm] using this
    have e1 : ((k : Int) + 1) * (-s) = k * (-s) + (-s) := by rw [Int.add_mul]; simp
    have e2 : (k : Int) * (-s) = -(k * s) := by rw [Int.mul_neg]
    omega
  · rintro ⟨k, rfl, hlt⟩
    refine ⟨k, ?_, rfl⟩
    have e1 : ((k : Int) + 1) * (-s) = k * (-s) + (-s) := by rw [Int.add_mul]; simp
    have e2 : (k : Int) * (-s) = -(k * s) := by rw [Int.mul_neg]
    have h2 : ((k : Int) + 1) * (-s) ≤ a - b + -s - 1 := by omega
    have h3 : ((k : Int) + 1) ≤ (a - b + -s - 1) / -s := Int.le_ediv_of_mul_le hp h2
    omega

/-! ### slices -/

theorem clampPos_bounds (n : Nat) (v : Option Int) (d : Int) (hd : 0 ≤ d ∧ d ≤ n) : 0 ≤ clampPos n v d ∧ clampPos n v d ≤ n := by
  unfold clampPos
  cases v with
  | none => exact hd
  | some i =>
    simp only
    split <;> split <;> (try split) <;> omega

/-- Positions selected by a slice with a positive step. -/
theorem mem_sliceIdx_pos {n : Nat} {a b : Option Int} {s : Int} (hs : 0 < s) (i : Nat) :
    i ∈ sliceIdx n a b s ↔ i < n ∧ clampPos n a 0 ≤ (i : Int) ∧ (i : Int) < clampPos n b n ∧
      ((i : Int) - clampPos n a 0) % s = 0 := by
  unfold sliceIdx
  simp only [show s > 0 from hs, if_true, List.mem_filter, List.mem_range, Bool.and_eq_true, decide_eq_true_eq]
  constructor
  · rintro ⟨h, ⟨h1, h2⟩, h3⟩; exact ⟨h, h1, h2, h3⟩
  · rintro ⟨h, h1, h2, h3⟩; exact ⟨h, ⟨h1, h2⟩, h3⟩

/-- … and with a negative step (start `clampNeg n a (n-1)`, stop `clampNeg n b (-1)`, exclusive). -/
theorem mem_sliceIdx_neg {n : Nat} {a b : Option Int} {s : Int} (hs : s < 0) (i : Nat) :
    i ∈ sliceIdx n a b s ↔ i < n ∧ clampNeg n b (-1) < (i : Int) ∧ (i : Int) ≤ clampNeg n a ((n : Int) - 1) ∧
      (clampNeg n a ((n : Int) - 1) - (i : Int)) % (-s) = 0 := by
  unfold sliceIdx
  have hns : ¬ s > 0 := by omega
  simp only [hns, if_false, hs, if_true, List.mem_reverse, List.mem_filter, List.mem_range, Bool.and_eq_true, decide_eq_true_eq]
  constructor
  · rintro ⟨h, ⟨h1, h2⟩, h3⟩; exact ⟨h, h1, h2, h3⟩
  · rintro ⟨h, h1, h2, h3⟩; exact ⟨h, ⟨h1, h2⟩, h3⟩

theorem sliceIdx_zero (n : Nat) (a b : Option Int) : sliceIdx n a b 0 = [] := by
  unfold sliceIdx; simp

theorem mem_sliceIdx_lt {n : Nat} {a b : Option Int} {s : Int} {i : Nat} (h : i ∈ sliceIdx n a b s) : i < n := by
  rcases Int.lt_trichotomy s 0 with hs | hs | hs
  · exact ((mem_sliceIdx_neg hs i).mp h).1
  · subst hs; rw [sliceIdx_zero] at h; simp at h
  · exact ((mem_sliceIdx_pos hs i).mp h).1

theorem mem_pySlice {α} {l : List α} {a b : Option Int} {s : Int} {x : α} :
    x ∈ pySlice l a b s ↔ ∃ i ∈ sliceIdx l.length a b s, l[i]? = some x := by
  unfold pySlice
  simp [List.mem_filterMap]

theorem filterMap_range_get {α} (l : List α) : ∀ m : Nat, (List.range m).filterMap (fun i => l[i]?) = l.take m := by
  intro m
  induction m with
  | zero => simp
  | succ m ih =>
    rw [List.range_succ, List.filterMap_append, ih, List.take_add_one]
    cases h : l[m]? <;> simp [h]

theorem filter_range_lt (L m : Nat) : (List.range L).filter (fun i => decide (i < m)) = List.range (min m L) := by
  induction L with
  | zero => simp
  | succ L ih =>
    rw [List.range_succ, List.filter_append, ih]
    by_cases h : L < m
    · have : min m (L + 1) = L + 1 := by omega
      have h2 : min m L = L := by omega
      rw [this, h2, List.range_succ]
      simp [h]
    · have : min m (L + 1) = min m L := by omega
      rw [this]
      simp [h]

theorem sliceIdx_take (L : Nat) (n : Int) (hn : 0 ≤ n) : sliceIdx L none (some n) 1 = List.range (min n.toNat L) := by
  unfold sliceIdx
  rw [if_pos (by decide)]
  rw [← filter_range_lt]
  apply List.filter_congr
  intro i hi
  have hi' := List.mem_range.mp hi
  have hlo : clampPos L none 0 = 0 := rfl
  have hhi : clampPos L (some n) L = if n > (L : Int) then (L : Int) else n := by
    unfold clampPos
    have hn' : ¬ n < 0 := by omega
    simp only [hn', if_false]
  rw [hlo, hhi]
  have h1 : decide ((0 : Int) ≤ (i : Int)) = true := by simp
  have h3 : decide (((i : Int) - 0) % 1 = 0) = true := by simp
  rw [h1, h3]
  simp only [Bool.true_and, Bool.and_true]
  split <;> simp <;> omega

/-- `l[:n]` for `n ≥ 0` is `take n`. -/
theorem pySlice_take {α} (l : List α) (n : Int) (hn : 0 ≤ n) : pySlice l none (some n) 1 = l.take n.toNat := by
  unfold pySlice
  rw [sliceIdx_take l.length n hn, filterMap_range_get]
  by_cases h : n.toNat ≤ l.length
  · rw [Nat.min_eq_left h]
  · have : min n.toNat l.length = l.length := by omega
    rw [this, List.take_of_length_le (Nat.le_refl _), List.take_of_length_le (by omega)]


/-! ### connector relocation: the parent walk finds the nearest kept ancestor -/

theorem relocWalk_spec {t : Table} (hpos : ∀ n ∈ t, 0 ≤ n.id) {kept : List Int} (hk : ∀ m ∈ kept, m ∈ ids t) :
    ∀ (fuel : Nat) (i : Int), (i ∈ ids t → reachesRoot t fuel i = true) →
      (∀ a, (pathToRoot t fuel i).find? (fun a => kept.contains a) = some a → relocWalk t kept fuel i = a) ∧
      ((pathToRoot t fuel i).find? (fun a => kept.contains a) = none → relocWalk t kept fuel i ∉ kept) := by
  have hneg : ∀ j : Int, j < 0 → j ∉ kept := by
    intro j hj hm
    obtain ⟨n, hn, hid⟩ := mem_ids.mp (hk j hm)
    have := hpos n hn
    omega
  intro fuel
  induction fuel with
  | zero =>
    intro i hr
    refine ⟨by simp [pathToRoot], fun _ => ?_⟩
    show i ∉ kept
    intro hm
    have := hr (hk i hm)
    simp [reachesRoot] at this
  | succ f ih =>
    intro i hr
    by_cases hi : i < 0
    · have hnot : i ∉ ids t := by
        intro hm
        obtain ⟨n, hn, hid⟩ := mem_ids.mp hm
        have := hpos n hn
        omega
      have hf : find? t i = none := by
        cases h : find? t i with
        | none => rfl
        | some n => exact absurd (by have := find?_some h; exact this.2 ▸ mem_ids_of_mem this.1) hnot
      have hp : pathToRoot t (f + 1) i = [] := by simp [pathToRoot, hf]
      have hw : relocWalk t kept (f + 1) i = i := by simp [relocWalk, hi]
      rw [hp, hw]
      exact ⟨by simp, fun _ => hneg i hi⟩
    · cases hf : find? t i with
      | none =>
        have hnot : i ∉ ids t := find?_none hf
        have hp : pathToRoot t (f + 1) i = [] := by simp [pathToRoot, hf]
        have hc : kept.contains i = false := by
          cases h : kept.contains i with
          | false => rfl
          | true => exact absurd (hk i (by simpa using h)) hnot
        have hm : i ∉ kept := fun h => hnot (hk i h)
        have hw : relocWalk t kept (f + 1) i = -1 := by simp [relocWalk, hi, hm, hf]
        rw [hp, hw]
        exact ⟨by simp, fun _ => hneg (-1) (by decide)⟩
      | some n =>
        by_cases hc : kept.contains i = true
        · have hm : i ∈ kept := by simpa using hc
          have hw : relocWalk t kept (f + 1) i = i := by simp [relocWalk, hi, hm]
          have hp : (pathToRoot t (f + 1) i).find? (fun a => kept.contains a) = some i := by
            unfold pathToRoot
            simp only [hf]
            split <;> simp [hm]
          rw [hp, hw]
          exact ⟨fun a h => by simpa using h, fun h => by simp at h⟩
        · have hc' : kept.contains i = false := by simpa using hc
          have hm : i ∉ kept := by simpa using hc
          have hw : relocWalk t kept (f + 1) i = relocWalk t kept f n.parent := by simp [relocWalk, hi, hm, hf]
          by_cases hp : n.parent < 0
          · have hpath : pathToRoot t (f + 1) i = [i] := by simp [pathToRoot, hf, hp]
            have hw2 : relocWalk t kept f n.parent = n.parent := by
              cases f with
              | zero => rfl
              | succ f => simp [relocWalk, hp]
            rw [hpath, hw, hw2]
            refine ⟨fun a h => ?_, fun _ => hneg _ hp⟩
            simp [hm] at h
          · have hpath : pathToRoot t (f + 1) i = i :: pathToRoot t f n.parent := by simp [pathToRoot, hf, hp]
            have hrp : reachesRoot t f n.parent = true := by
              have := hr (by have := find?_some hf; exact this.2 ▸ mem_ids_of_mem this.1)
              simpa [reachesRoot, hf, hp] using this
            have := ih n.parent (fun _ => hrp)
            rw [hpath, hw, List.find?_cons]
            simp only [hc']
            exact this

theorem reachesRoot_of_WF {t : Table} (hw : WF t) {i : Int} (hi : i ∈ ids t) : reachesRoot t (t.length + 1) i = true :=
  (reachesRoot_iff_ends t _ i).mpr (rootPath_ends hw i hi)

/-- **Relocation**: the walk returns the nearest kept ancestor (when there is one), otherwise a value that
is not a kept node (so the connector is dropped by the final filter). -/
theorem relocWalk_relocate {t : Table} (hw : WF t) {kept : List Int} (hk : ∀ m ∈ kept, m ∈ ids t) (node : Int) :
    (∀ a, relocate t kept node = some a → relocWalk t kept (t.length + 1) node = a) ∧
    (relocate t kept node = none → relocWalk t kept (t.length + 1) node ∉ kept) := by
  unfold relocate rootPath
  exact relocWalk_spec hw.2.1 hk (t.length + 1) node (fun hi => reachesRoot_of_WF hw hi)

theorem mem_connAfter_drop {t : Table} {kept : List Int} {cn : List (Int × Int)} {c : Int × Int} :
    c ∈ connAfter t kept false cn ↔ c ∈ cn ∧ c.2 ∈ kept := by
  unfold connAfter
  simp [List.mem_filter]

theorem mem_connAfter_relocate {t : Table} (hw : WF t) {kept : List Int} (hk : ∀ m ∈ kept, m ∈ ids t)
    {cn : List (Int × Int)} {c : Int × Int} :
    c ∈ connAfter t kept true cn ↔
      ∃ n, (c.1, n) ∈ cn ∧ ((n ∈ kept ∧ c.2 = n) ∨ (n ∉ kept ∧ relocate t kept n = some c.2)) := by
  unfold connAfter
  simp only [Bool.not_true, Bool.false_eq_true, if_false, List.mem_filter, List.mem_map]
  constructor
  · rintro ⟨⟨d, hd, he⟩, hkept⟩
    by_cases hc : kept.contains d.2 = true
    · simp only [hc, if_true] at he
      subst he
      exact ⟨d.2, hd, Or.inl ⟨by simpa using hc, rfl⟩⟩
    · have hc' : kept.contains d.2 = false := by simpa using hc
      simp only [hc', Bool.false_eq_true, if_false] at he
      have hkc : c.2 ∈ kept := by simpa using hkept
      have e1 : c.1 = d.1 := by rw [← he]
      have e2 : c.2 = relocWalk t kept (t.length + 1) d.2 := by rw [← he]
      refine ⟨d.2, by rw [e1]; exact hd, Or.inr ⟨by simpa using hc, ?_⟩⟩
      cases hr : relocate t kept d.2 with
      | none => exact absurd (e2 ▸ hkc) ((relocWalk_relocate hw hk d.2).2 hr)
      | some a => rw [e2, (relocWalk_relocate hw hk d.2).1 a hr]
  · rintro ⟨n, hn, h | h⟩
    · obtain ⟨h1, h2⟩ := h
      have hc : kept.contains n = true := by simpa using h1
      refine ⟨⟨(c.1, n), hn, ?_⟩, by rw [h2]; exact hc⟩
      simp only [hc, if_true]
      exact Prod.ext rfl h2.symm
    · obtain ⟨h1, h2⟩ := h
      have hc : kept.contains n = false := by simpa using h1
      have hwk := (relocWalk_relocate hw hk n).1 c.2 h2
      have hkept : c.2 ∈ kept := by
        unfold relocate at h2
        have := List.find?_some h2
        simpa using this
      refine ⟨⟨(c.1, n), hn, ?_⟩, by simpa using hkept⟩
      simp only [hc, Bool.false_eq_true, if_false]
      exact Prod.ext rfl hwk


/-! ### `prune_at_depth` with a rational depth -/

theorem pruneAtDepthQ_nat (t : Table) (len : Int → Int → Nat) (s : Int) (d : Nat) :
    pruneAtDepthQ t len s (d : Rat) = pruneAtDepth t len s d := by
  unfold pruneAtDepthQ pruneAtDepth
  congr 1
  funext i
  cases geo t len false s i with
  | none => rfl
  | some v =>
    simp only
    by_cases h : v ≤ d
    · have : ((v : Nat) : Rat) ≤ (d : Rat) := Rat.natCast_le_natCast.mpr h
      simp [h, this]
    · have : ¬ ((v : Nat) : Rat) ≤ (d : Rat) := fun h' => h (Rat.natCast_le_natCast.mp h')
      simp [h, this]

/-- A non-negative rational depth acts as its floor (distances are integers). -/
theorem pruneAtDepthQ_floor (t : Table) (len : Int → Int → Nat) (s : Int) (q : Rat) (hq : 0 ≤ q) :
    pruneAtDepthQ t len s q = pruneAtDepth t len s q.floor.toNat := by
  unfold pruneAtDepthQ pruneAtDepth
  congr 1
  funext i
  cases geo t len false s i with
  | none => rfl
  | some v =>
    simp only
    have hfl : (0 : Int) ≤ q.floor := Rat.le_floor_iff.mpr (by simpa using hq)
    have key : ((v : Nat) : Rat) ≤ q ↔ v ≤ q.floor.toNat := by
      have h1 : (((v : Nat) : Int) : Rat) ≤ q ↔ ((v : Nat) : Int) ≤ q.floor := Rat.le_floor_iff.symm
      have h2 : (((v : Nat) : Int) : Rat) = ((v : Nat) : Rat) := rfl
      rw [← h2, h1]
      omega
    by_cases h : v ≤ q.floor.toNat
    · simp [h, key.mpr h]
    · have : ¬ ((v : Nat) : Rat) ≤ q := fun h' => h (key.mp h')
      simp [h, this]

theorem ids_pruneAtDepthQ (t : Table) (len : Int → Int → Nat) (s : Int) (q : Rat) :
    ids (pruneAtDepthQ t len s q) = (ids t).filter fun i => match geo t len false s i with
      | some d => decide (((d : Nat) : Rat) ≤ q)
      | none => false := ids_subset t _

/-! ### `prune_by_strahler`: the parametrised index rule and the first-pass model -/

theorem clampPos_eq_sliceBound (n : Nat) (v : Option Int) (d : Nat) (hd : d ≤ n) :
    clampPos n v (d : Int) = (sliceBound n v d : Nat) := by
  unfold clampPos sliceBound
  cases v with
  | none => rfl
  | some i =>
    simp only
    by_cases hi : i < 0
    · simp only [hi, if_true]
      split <;> (try split) <;> omega
    · simp only [hi, if_false]
      split <;> (try split) <;> omega

theorem foldl_max_cast (l : List Nat) (a : Nat) :
    (l.map fun (x : Nat) => (x : Int)).foldl max (a : Int) = ((l.foldl max a : Nat) : Int) := by
  induction l generalizing a with
  | nil => rfl
  | cons x r ih =>
    simp only [List.map_cons, List.foldl_cons]
    have : max (a : Int) (x : Int) = ((max a x : Nat) : Int) := by omega
    rw [this, ih]

/-- Membership in the list handed to `isin` agrees with the first-pass index *set* for every selection
of the first pass (as far as natural numbers — the possible Strahler indices — are concerned). -/
theorem siListX_ofSel (mx : Nat) (sel : SISel) :
    (siSet mx sel = none ↔ siListX mx (.ofSel sel) = none) ∧
    ∀ s l, siSet mx sel = some s → siListX mx (.ofSel sel) = some l → ∀ i : Nat, i ∈ s ↔ (i : Int) ∈ l := by
  cases sel with
  | int k =>
    unfold siSet siListX siListG SISelX.ofSel siRule0
    simp only [Cmp.evalInt]
    by_cases hk : k < 0
    · simp only [hk, decide_true, if_true]
      refine ⟨by simp, ?_⟩
      intro s l hs hl i
      simp only [Option.some.injEq] at hs hl
      subst hs; subst hl
      rw [mem_pyRange_one]
      simp only [List.mem_filter, List.mem_range, decide_eq_true_eq]
      omega
    · simp only [hk, decide_false, Bool.false_eq_true, if_false]
      by_cases h1 : k < 1
      · simp [h1]
      · simp only [h1, decide_false, Bool.false_eq_true, if_false]
        refine ⟨by simp, ?_⟩
        intro s l hs hl i
        simp only [Option.some.injEq] at hs hl
        subst hs; subst hl
        simp only [List.mem_singleton]
        omega
  | list ks =>
    refine ⟨by simp [siSet, siListX, siListG, SISelX.ofSel], ?_⟩
    intro s l hs hl i
    have : l = ks := by simpa [siListX, siListG, SISelX.ofSel] using hl.symm
    rw [this]
    exact mem_siSet_list hs i
  | range a b =>
    refine ⟨by simp [siSet, siListX, siListG, SISelX.ofSel], ?_⟩
    intro s l hs hl i
    have : l = pyRange a b 1 := by simpa [siListX, siListG, SISelX.ofSel] using hl.symm
    rw [this, mem_pyRange_one]
    exact mem_siSet_range hs i
  | slice a b =>
    refine ⟨by simp [siSet, siListX, siListG, SISelX.ofSel], ?_⟩
    intro s l hs hl i
    have hl' : l = pySlice (pyRange 1 ((mx : Int) + 1) 1) a b 1 := by
      simpa [siListX, siListG, SISelX.ofSel, siRule0] using hl.symm
    rw [hl', mem_siSet_slice hs i, mem_pySlice]
    have hlen : (pyRange 1 ((mx : Int) + 1) 1).length = mx := by rw [pyRange_one_length]; omega
    rw [hlen]
    have hlo := clampPos_eq_sliceBound mx a 0 (Nat.zero_le _)
    have hhi := clampPos_eq_sliceBound mx b mx (Nat.le_refl _)
    have hb := sliceBound_le mx b (Nat.le_refl mx)
    constructor
    · rintro ⟨h1, h2⟩
      refine ⟨i - 1, ?_, ?_⟩
      · rw [mem_sliceIdx_pos (by decide)]
        have hlo : clampPos mx a 0 = (sliceBound mx a 0 : Nat) := hlo
        rw [hlo, hhi]
        refine ⟨by omega, by omega, by omega, by simp⟩
      · rw [pyRange_one_get _ _ _ (by omega)]
        congr 1; omega
    · rintro ⟨p, hp, hget⟩
      rw [mem_sliceIdx_pos (by decide)] at hp
      have hlo : clampPos mx a 0 = (sliceBound mx a 0 : Nat) := hlo
      rw [hlo, hhi] at hp
      rw [pyRange_one_get _ _ _ (by omega)] at hget
      simp only [Option.some.injEq] at hget
      omega


/-- With no rerooting, no cached column, no connectors, the option-handling model is the first-pass
model. -/
theorem pruneByStrahlerX_plain (t : Table) (sel : SISel) :
    (pruneByStrahlerX t { rerootSoma := false } (.ofSel sel) []).map (·.1) = pruneByStrahler t sel := by
  unfold pruneByStrahlerX pruneByStrahler
  have ht : siTable t { rerootSoma := false } = t := rfl
  have hsi : siColumn t { rerootSoma := false } = fun i => ((strahler t false [] i : Nat) : Int) := rfl
  simp only [ht, hsi]
  have hmx : ((ids t).map fun i => ((strahler t false [] i : Nat) : Int)).foldl max 0
      = ((((ids t).map (strahler t false [])).foldl max 0 : Nat) : Int) := by
    have := foldl_max_cast ((ids t).map (strahler t false [])) 0
    rw [List.map_map] at this
    exact this
  rw [hmx]
  obtain ⟨hnone, hmem⟩ := siListX_ofSel (((ids t).map (strahler t false [])).foldl max 0) sel
  cases hs : siSet (((ids t).map (strahler t false [])).foldl max 0) sel with
  | none => rw [hnone.mp hs]; rfl
  | some s =>
    cases hl : siListX ((((ids t).map (strahler t false [])).foldl max 0 : Nat) : Int) (.ofSel sel) with
    | none => exact absurd (hnone.mpr hl) (by rw [hs]; simp)
    | some l =>
      simp only [Option.map_some]
      congr 3
      apply List.filter_congr
      intro n _
      have := hmem s l hs hl (strahler t false [] n.id)
      by_cases h : strahler t false [] n.id ∈ s
      · have h2 := this.mp h
        simp [h, h2]
      · have h2 : ¬ ((strahler t false [] n.id : Nat) : Int) ∈ l := fun h' => h (this.mpr h')
        simp [h, h2]

/-- The table `prune_by_strahler` returns is `subset` of the working table. -/
theorem pruneByStrahlerX_eq {t : Table} {o : SIOpts} {sel : SISelX} {cn : List (Int × Int)} {r : Table × List (Int × Int)}
    (h : pruneByStrahlerX t o sel cn = some r) :
    ∃ l, siListX (((ids (siTable t o)).map (siColumn (siTable t o) o)).foldl max 0) sel = some l ∧
      r.1 = subset (siTable t o) (fun i => !l.contains (siColumn (siTable t o) o i)) ∧
      r.2 = connAfter (siTable t o) (ids r.1) o.relocate cn := by
  unfold pruneByStrahlerX at h
  simp only at h
  cases hl : siListX (((ids (siTable t o)).map (siColumn (siTable t o) o)).foldl max 0) sel with
  | none => rw [hl] at h; simp at h
  | some l =>
    rw [hl] at h
    simp only [Option.some.injEq] at h
    subst h
    exact ⟨l, rfl, rfl, rfl⟩

/-! ### `exact=True` with a mask -/

theorem exactPruneM_none (t : Table) (len : Int → Int → Nat) (size : Rat) :
    exactPruneM t len size none = exactPrune t len size := by
  unfold exactPruneM exactPruneG exactPrune allBelowMasked
  simp

/-- Rows of the generalised exact pruning, by cases (as `ExactPrune.exactRow_cases`). -/
theorem mem_exactPruneG {t : Table} {len : Int → Int → Nat} {size : Rat} {adm : Int → Bool} {r : Int × Int × Rat}
    (hr : r ∈ exactPruneG t len size adm) :
    ∃ n ∈ t, r.1 = n.id ∧ r.2.1 = n.parent ∧
      ((¬ (adm n.id = true ∧ ((heightOf t len (t.length + 1) n.id : Nat) : Rat) ≤ size) ∧ r.2.2 = 0) ∨
       (n.parent < 0 ∧ r.2.2 = 0) ∨
       (adm n.id = true ∧ ((heightOf t len (t.length + 1) n.id : Nat) : Rat) ≤ size ∧ ¬ n.parent < 0 ∧
         ¬ (adm n.parent = true ∧ ((heightOf t len (t.length + 1) n.parent : Nat) : Rat) ≤ size) ∧
         ¬ ((len n.id n.parent : Nat) : Rat) < size - (heightOf t len (t.length + 1) n.id : Nat) ∧
         r.2.2 = (if ((len n.id n.parent : Nat) : Rat) = 0 then 0
                  else (size - (heightOf t len (t.length + 1) n.id : Nat)) / ((len n.id n.parent : Nat) : Rat)))) := by
  unfold exactPruneG at hr
  obtain ⟨n, hn, hrow⟩ := List.mem_filterMap.mp hr
  refine ⟨n, hn, ?_⟩
  simp only at hrow
  by_cases h1 : (adm n.id && decide (((heightOf t len (t.length + 1) n.id : Nat) : Rat) ≤ size)) = true
  · simp only [h1, Bool.not_true, Bool.false_eq_true, if_false] at hrow
    have h1' : adm n.id = true ∧ ((heightOf t len (t.length + 1) n.id : Nat) : Rat) ≤ size := by simpa using h1
    by_cases h2 : n.parent < 0
    · simp only [h2, if_true, Option.some.injEq] at hrow
      subst hrow
      exact ⟨rfl, rfl, Or.inr (Or.inl ⟨h2, rfl⟩)⟩
    · simp only [h2, if_false] at hrow
      by_cases h3 : (adm n.parent && decide (((heightOf t len (t.length + 1) n.parent : Nat) : Rat) ≤ size)) = true
      · simp [h3] at hrow
      · simp only [h3, Bool.false_eq_true, if_false] at hrow
        have h3' : ¬ (adm n.parent = true ∧ ((heightOf t len (t.length + 1) n.parent : Nat) : Rat) ≤ size) := by simpa using h3
        by_cases h4 : ((len n.id n.parent : Nat) : Rat) < size - (heightOf t len (t.length + 1) n.id : Nat)
        · simp [h4] at hrow
        · simp only [h4, if_false, Option.some.injEq] at hrow
          subst hrow
          exact ⟨rfl, rfl, Or.inr (Or.inr ⟨h1'.1, h1'.2, h2, h3', h4, rfl⟩)⟩
  · have h1' : ¬ (adm n.id = true ∧ ((heightOf t len (t.length + 1) n.id : Nat) : Rat) ≤ size) := by simpa using h1
    have : (adm n.id && decide (((heightOf t len (t.length + 1) n.id : Nat) : Rat) ≤ size)) = false := by simpa using h1
    simp only [this, Bool.not_false, if_true, Option.some.injEq] at hrow
    subst hrow
    exact ⟨rfl, rfl, Or.inl ⟨h1', rfl⟩⟩

/-- A node that is not admissible (for `exactPruneM`: something distal to it is unmasked) is kept, unmoved. -/
theorem exactPruneG_inadmissible {t : Table} {len : Int → Int → Nat} {size : Rat} {adm : Int → Bool} {n : Node}
    (hn : n ∈ t) (ha : adm n.id = false) : (n.id, n.parent, (0 : Rat)) ∈ exactPruneG t len size adm := by
  unfold exactPruneG
  refine List.mem_filterMap.mpr ⟨n, hn, ?_⟩
  simp [ha]

/-! ### the greedy checker -/

/-- The greedy criterion as a proposition. -/
def GreedyStep (t : Table) (len : Int → Int → Nat) (cover : List Int) (s : List Int) : Prop :=
  ∃ h, s.head? = some h ∧ h ∈ tips t ∧ h ∉ cover ∧ s = tipWalk t cover h ∧
    ∀ m ∈ tips t, m ∉ cover → pathLen len (tipWalk t cover m) ≤ pathLen len s

def Greedy (t : Table) (len : Int → Int → Nat) (segs : List (List Int)) : Prop :=
  ∀ k (hk : k < segs.length), GreedyStep t len (segs.take k).flatten segs[k]

theorem greedyStepB_iff (t : Table) (len : Int → Int → Nat) (cover s : List Int) :
    greedyStepB t len cover s = true ↔ GreedyStep t len cover s := by
  unfold greedyStepB GreedyStep
  cases hh : s.head? with
  | none => simp
  | some h =>
    simp only [Bool.and_eq_true, List.all_eq_true, Bool.or_eq_true, decide_eq_true_eq, Option.some.injEq,
      exists_eq_left', Bool.not_eq_true', beq_iff_eq]
    constructor
    · rintro ⟨⟨⟨h1, h2⟩, h3⟩, h4⟩
      refine ⟨by simpa using h1, by simpa using h2, h3, ?_⟩
      intro m hm hmc
      rcases h4 m hm with h5 | h5
      · exact absurd (by simpa using h5) hmc
      · exact h5
    · rintro ⟨h1, h2, h3, h4⟩
      refine ⟨⟨⟨by simpa using h1, by simpa using h2⟩, h3⟩, ?_⟩
      intro m hm
      by_cases hmc : m ∈ cover
      · exact Or.inl (by simpa using hmc)
      · exact Or.inr (h4 m hm hmc)

theorem greedyOKB_iff (t : Table) (len : Int → Int → Nat) (segs : List (List Int)) :
    greedyOKB t len segs = true ↔ Greedy t len segs := by
  unfold greedyOKB Greedy
  simp only [List.all_eq_true, List.mem_range]
  constructor
  · intro h k hk
    have := h k hk
    rw [List.getElem?_eq_getElem hk] at this
    exact (greedyStepB_iff t len _ _).mp this
  · intro h k hk
    rw [List.getElem?_eq_getElem hk]
    exact (greedyStepB_iff t len _ _).mpr (h k hk)


/-! ### `drop_fluff` checker -/

theorem dropFluffOKB_sound {t : Table} {ks : Nat} {nl : Option Nat} {kept : List Int}
    (h : dropFluffOKB t ks nl kept = true) :
    (∀ r ∈ roots t, (∀ i ∈ component t r, i ∈ kept) ∨ (∀ i ∈ component t r, i ∉ kept)) ∧
    (∀ r ∈ roots t, (∀ i ∈ component t r, i ∈ kept) → ks ≤ (component t r).length) ∧
    (nl = none → ∀ r ∈ roots t, ks ≤ (component t r).length → ∀ i ∈ component t r, i ∈ kept) ∧
    (∀ k, nl = some k → ∀ r ∈ roots t, ks ≤ (component t r).length →
        (∀ i ∈ component t r, i ∈ kept) ∨
        ∀ r' ∈ roots t, (∀ i ∈ component t r', i ∈ kept) → (component t r).length ≤ (component t r').length) := by
  unfold dropFluffOKB at h
  cases nl with
  | none =>
    simp only [Bool.and_eq_true, List.all_eq_true, List.mem_map, List.mem_filter, Bool.or_eq_true,
      decide_eq_true_eq, forall_exists_index, and_imp, forall_apply_eq_imp_iff₂, List.contains_eq_mem,
      Bool.not_eq_true', decide_eq_false_iff_not] at h
    obtain ⟨⟨h1, h2⟩, h3⟩ := h
    exact ⟨h1, h2, fun _ => h3, fun k hk => by simp at hk⟩
  | some k =>
    simp only [Bool.and_eq_true, List.all_eq_true, List.mem_map, List.mem_filter, Bool.or_eq_true,
      decide_eq_true_eq, forall_exists_index, and_imp, forall_apply_eq_imp_iff₂, List.contains_eq_mem,
      Bool.not_eq_true', decide_eq_false_iff_not] at h
    obtain ⟨⟨h1, h2⟩, _, h3⟩ := h
    refine ⟨h1, h2, fun hn => by simp at hn, ?_⟩
    intro k' _ r hr hsz
    exact h3 r hr hsz

end Navis.PruneX
