import NavisModel.Model.TreeCheck
import NavisModel.Proofs.CutFragmentsLemmas
import NavisModel.Proofs.TreeEditLemmas
/-!
C10 second pass (core Lean only): soundness and completeness of the checkers of `Model/TreeCheck.lean`.
-/
namespace Navis.TreeEdit
open Navis.Forest

/-! ### several cuts -/

/-- The fragment checker accepts exactly the permutations of the fragments of `cutMany`. -/
theorem fragsOKB_iff {t : Table} (hw : WF t) {ρ : Int} (hroot : roots t = [ρ]) {cs : List Int} (hne : cs ≠ [])
    (hnd : cs.Nodup) (hcs : ∀ c ∈ cs, c ∈ ids t ∧ c ≠ ρ) (frags : List Table) :
    fragsOKB t ρ cs frags = true ↔ frags.Perm (cutMany t cs) := by
  unfold fragsOKB specFragments
  rw [List.isPerm_iff]
  have h := cutMany_fragments_partial hw hroot cs hnd hcs (Or.inl hne)
  exact ⟨fun hp => hp.trans h.symm, fun hp => hp.trans h⟩

/-! ### reroot -/

theorem mem_offPathRows {t : Table} {r : Int} {n : Node} : n ∈ offPathRows t r ↔ n ∈ t ∧ n.id ∉ rootPath t r := by
  unfold offPathRows
  simp [List.mem_filter]

/-- **Soundness**: what the reroot checker accepts satisfies every clause of the property. -/
theorem rerootOKB_sound {t t' : Table} {r : Int} (h : rerootOKB t t' r = true) :
    ids t' = ids t ∧ coordRows t' = coordRows t ∧ WF t' ∧ labelsOKB t' = true ∧ (uedges t').Perm (uedges t) ∧
    (∃ n ∈ t', n.id = r ∧ n.parent < 0) ∧ (∀ n ∈ t, n.id ∉ rootPath t r → n ∈ t') := by
  unfold rerootOKB at h
  simp only [Bool.and_eq_true, beq_iff_eq, List.all_eq_true, List.contains_eq_mem, decide_eq_true_eq] at h
  obtain ⟨⟨⟨⟨⟨h1, h2⟩, h3⟩, h4⟩, h5⟩, h6⟩ := h
  refine ⟨?_, h1, wfB_sound h2, h3, List.isPerm_iff.mp h4, mem_roots.mp h5, ?_⟩
  · have := congrArg (List.map fun e : Int × Int × Int × Int => e.1) h1
    unfold coordRows at this
    simp only [List.map_map] at this
    exact this
  · intro n hn hoff
    exact h6 n (mem_offPathRows.mpr ⟨hn, hoff⟩)

/-- **Completeness**: the model's reroot is accepted (so a correct implementation is never rejected). -/
theorem rerootOKB_complete {t : Table} (hw : WF t) (hl : labelsOKB t = true) {r : Int} (hr : r ∈ ids t) :
    rerootOKB t (reroot t r) r = true := by
  unfold rerootOKB
  simp only [Bool.and_eq_true, beq_iff_eq, List.all_eq_true, List.contains_eq_mem, decide_eq_true_eq]
  refine ⟨⟨⟨⟨⟨?_, wfB_complete (WF_reroot hw r)⟩, labelsOKB_reroot hw hl r⟩, List.isPerm_iff.mpr (uedges_reroot_perm hw r)⟩,
    mem_roots.mpr (reroot_new_root' t r hr)⟩, ?_⟩
  · unfold coordRows; exact reroot_coords t r
  · intro n hn
    obtain ⟨h1, h2⟩ := mem_offPathRows.mp hn
    exact reroot_off_path t r n h1 h2

/-! ### subset -/

/-- **Soundness**: what the subset checker accepts has exactly the requested ids, the original coordinates, the
original parent wherever it survives and `-1` otherwise, and correct labels. -/
theorem subsetOKB_sound {t t' : Table} {keep : Int → Bool} (h : subsetOKB t t' keep = true) :
    ids t' = (ids t).filter keep ∧ labelsOKB t' = true ∧
    ∀ m ∈ t', ∃ n, find? t m.id = some n ∧ m.x = n.x ∧ m.y = n.y ∧ m.z = n.z ∧
      m.parent = (if n.parent ∈ (ids t).filter keep then n.parent else -1) := by
  unfold subsetOKB at h
  simp only [Bool.and_eq_true, beq_iff_eq, List.all_eq_true] at h
  obtain ⟨⟨h1, h2⟩, h3⟩ := h
  refine ⟨h1, h2, ?_⟩
  intro m hm
  have := h3 m hm
  cases hf : find? t m.id with
  | none => rw [hf] at this; simp at this
  | some n =>
    rw [hf] at this
    simp only [Bool.and_eq_true, beq_iff_eq, List.contains_eq_mem] at this
    obtain ⟨⟨⟨a, b⟩, c⟩, d⟩ := this
    refine ⟨n, rfl, a, b, c, ?_⟩
    rw [d]
    by_cases hin : n.parent ∈ (ids t).filter keep
    · simp [hin]
    · simp [hin]

/-- **Completeness**: the model's subset is accepted. -/
theorem subsetOKB_complete {t : Table} (hw : WF t) (keep : Int → Bool) : subsetOKB t (subset t keep) keep = true := by
  unfold subsetOKB
  simp only [Bool.and_eq_true, beq_iff_eq, List.all_eq_true]
  refine ⟨⟨ids_subset t keep, labelsOKB_subset t keep⟩, ?_⟩
  intro m hm
  obtain ⟨n, hn, hid, _, hx, hy, hz, hp⟩ := subset_parent hw.1 keep hm
  have hf := find?_of_mem hw.1 hn
  rw [hid] at hf
  rw [hf]
  simp only [Bool.and_eq_true, beq_iff_eq, List.contains_eq_mem]
  refine ⟨⟨⟨hx, hy⟩, hz⟩, ?_⟩
  rw [hp]
  by_cases hin : n.parent ∈ (ids t).filter keep
  · simp [hin]
  · simp [hin]

/-! ### the subset checker accepts exactly the model's output -/

/-- Everything of a row but its label. -/
def rowKey (n : Node) : Int × Int × Int × Int × Int := (n.id, n.parent, n.x, n.y, n.z)

/-- The row the specification prescribes for a kept id. -/
def specRow (t : Table) (keep : Int → Bool) (i : Int) : Int × Int × Int × Int × Int :=
  match find? t i with
  | some n => (i, (if n.parent ∈ (ids t).filter keep then n.parent else -1), n.x, n.y, n.z)
  | none => (i, 0, 0, 0, 0)

theorem rowKeys_of_subsetOKB {t u : Table} {keep : Int → Bool} (h : subsetOKB t u keep = true) :
    u.map rowKey = ((ids t).filter keep).map (specRow t keep) := by
  obtain ⟨hids, _, hrows⟩ := subsetOKB_sound h
  rw [← hids]
  unfold ids
  rw [List.map_map]
  apply List.map_congr_left
  intro m hm
  obtain ⟨n, hf, hx, hy, hz, hp⟩ := hrows m hm
  simp only [Function.comp, specRow, hf, rowKey]
  rw [hx, hy, hz, hp]

theorem childCount_of_rowKeys {u v : Table} (h : u.map rowKey = v.map rowKey) (i : Int) : childCount u i = childCount v i := by
  rw [← count_parents_eq_childCount, ← count_parents_eq_childCount]
  have : ∀ w : Table, parents w = (w.map rowKey).map (fun k => k.2.1) := by
    intro w; unfold parents; rw [List.map_map]; rfl
  rw [this u, this v, h]

theorem node_ext {a b : Node} (h1 : rowKey a = rowKey b) (h2 : a.label = b.label) : a = b := by
  cases a; cases b
  simp only [rowKey, Prod.mk.injEq] at h1
  simp only at h2
  obtain ⟨e1, e2, e3, e4, e5⟩ := h1
  subst e1 e2 e3 e4 e5 h2
  rfl

/-- **Exactness of the subset checker**: on a well-formed input it accepts the model's output and nothing else. -/
theorem subsetOKB_iff {t : Table} (hw : WF t) (keep : Int → Bool) (t' : Table) :
    subsetOKB t t' keep = true ↔ t' = subset t keep := by
  constructor
  · intro h
    have hs := subsetOKB_complete hw keep
    have hkeys : t'.map rowKey = (subset t keep).map rowKey := by
      rw [rowKeys_of_subsetOKB h, rowKeys_of_subsetOKB hs]
    have hl1 := (labelsOKB_iff t').mp (subsetOKB_sound h).2.1
    have hl2 := (labelsOKB_iff (subset t keep)).mp (subsetOKB_sound hs).2.1
    -- both tables are the image of their row keys under one and the same function
    let full : Int × Int × Int × Int × Int → (Int × Int × Int × Int × Int) × Label :=
      fun k => (k, labelOf (childCount (subset t keep) k.1) (k.2.1 < 0))
    have hfull : ∀ u : Table, (∀ n ∈ u, n.label = labelOf (childCount (subset t keep) n.id) (n.parent < 0)) →
        u.map (fun n => (rowKey n, n.label)) = (u.map rowKey).map full := by
      intro u hu
      rw [List.map_map]
      apply List.map_congr_left
      intro n hn
      simp only [Function.comp, full, rowKey]
      rw [hu n hn]
    have h1 : t'.map (fun n => (rowKey n, n.label)) = (t'.map rowKey).map full := by
      apply hfull
      intro n hn
      rw [hl1 n hn, childCount_of_rowKeys hkeys]
    have h2 : (subset t keep).map (fun n => (rowKey n, n.label)) = ((subset t keep).map rowKey).map full := hfull _ hl2
    have h3 : t'.map (fun n => (rowKey n, n.label)) = (subset t keep).map (fun n => (rowKey n, n.label)) := by
      rw [h1, h2, hkeys]
    exact (List.map_inj_right (fun a b hab => by
      simp only [Prod.mk.injEq] at hab
      exact node_ext hab.1 hab.2)).mp h3
  · rintro rfl
    exact subsetOKB_complete hw keep

end Navis.TreeEdit
