import NavisModel.Model.SegmentVariants
import NavisModel.Proofs.SegmentLemmas
import NavisModel.Proofs.WfB
/-!
The two pure-Python variants of navis' segment builders (`Model/SegmentVariants.lean`) against the C05
model: `_break_segments` (networkx variant = `smallSegments`, igraph variant = a permutation of them for
any seed order) and `_generate_segments` (igraph variant = networkx variant, and the result passes the
C05 checker).  Core Lean only.
-/
namespace Navis.SegVar
open Navis.Forest

/-! ### generic list / option facts -/

theorem mapM_some_of_forall {α β} (f : α → Option β) (g : α → β) :
    ∀ (l : List α), (∀ a ∈ l, f a = some (g a)) → l.mapM f = some (l.map g)
  | [], _ => rfl
  | a :: l, h => by
    have h1 := h a List.mem_cons_self
    have h2 := mapM_some_of_forall f g l (fun b hb => h b (List.mem_cons_of_mem _ hb))
    simp [List.mapM_cons, h1, h2]

/-- `mapM` in `Option` over a permuted list succeeds with a permuted result. -/
theorem mapM_perm {α β} (f : α → Option β) {l1 l2 : List α} (h : l1.Perm l2) :
    ∀ r2, l2.mapM f = some r2 → ∃ r1, l1.mapM f = some r1 ∧ r1.Perm r2 := by
  induction h with
  | nil => intro r2 h2; exact ⟨r2, h2, List.Perm.refl _⟩
  | @cons x l1 l2 _ ih =>
    intro r2 h2
    cases hx : f x with
    | none => simp [List.mapM_cons, hx] at h2
    | some b =>
      cases hm : l2.mapM f with
      | none => simp [List.mapM_cons, hx, hm] at h2
      | some bs =>
        obtain ⟨r1, e1, p1⟩ := ih bs hm
        simp [List.mapM_cons, hx, hm] at h2
        refine ⟨b :: r1, by simp [List.mapM_cons, hx, e1], ?_⟩
        rw [← h2]; exact p1.cons b
  | swap x y l =>
    intro r2 h2
    cases hx : f x with
    | none => simp [List.mapM_cons, hx] at h2
    | some b =>
      cases hy : f y with
      | none => simp [List.mapM_cons, hx, hy] at h2
      | some c =>
        cases hm : l.mapM f with
        | none => simp [List.mapM_cons, hx, hy, hm] at h2
        | some bs =>
          simp [List.mapM_cons, hx, hy, hm] at h2
          refine ⟨c :: b :: bs, by simp [List.mapM_cons, hx, hy, hm], ?_⟩
          rw [← h2]; exact List.Perm.swap b c bs
  | trans _ _ ih1 ih2 =>
    intro r3 h3
    obtain ⟨r2, e2, p2⟩ := ih2 r3 h3
    obtain ⟨r1, e1, p1⟩ := ih1 r2 e2
    exact ⟨r1, e1, p1.trans p2⟩

theorem labelOf_branch_iff (c : Nat) (r : Bool) : labelOf c r = .branch ↔ r = false ∧ 2 ≤ c := by
  unfold labelOf
  by_cases hr : r = true
  · simp [hr]
  · have hr' : r = false := by simpa using hr
    by_cases h0 : c = 0
    · simp [hr', h0]
    · by_cases h1 : c = 1
      · simp [hr', h1]
      · simp [hr', h0, h1]; omega

theorem labelOf_root_iff (c : Nat) (r : Bool) : labelOf c r = .root ↔ r = true := by
  unfold labelOf
  by_cases hr : r = true
  · simp [hr]
  · have hr' : r = false := by simpa using hr
    by_cases h0 : c = 0
    · simp [hr', h0]
    · by_cases h1 : c = 1
      · simp [hr', h1]
      · simp [hr', h0, h1]

theorem labelOf_end_iff (c : Nat) (r : Bool) : labelOf c r = .end_ ↔ r = false ∧ c = 0 := by
  unfold labelOf
  by_cases hr : r = true
  · simp [hr]
  · have hr' : r = false := by simpa using hr
    by_cases h0 : c = 0
    · simp [hr', h0]
    · by_cases h1 : c = 1
      · simp [hr', h1]
      · simp [hr', h0, h1]

/-! ### the networkx graph: successors -/

theorem filter_id_of_find {t : Table} (hnd : (ids t).Nodup) {i : Int} {n : Node} (hf : find? t i = some n) :
    (t.filter fun m => m.id == i) = [n] := by
  induction t with
  | nil => simp [find?] at hf
  | cons a t ih =>
    rw [ids_cons, List.nodup_cons] at hnd
    unfold find? at hf
    rw [List.find?_cons] at hf
    by_cases ha : a.id = i
    · have hai : (a.id == i) = true := by simpa using ha
      rw [hai] at hf
      simp only [Option.some.injEq] at hf
      rw [List.filter_cons, hai, if_pos rfl, hf]
      congr 1
      rw [List.filter_eq_nil_iff]
      intro m hm hmi
      have : m.id = i := by simpa using hmi
      exact hnd.1 (ha ▸ this ▸ mem_ids_of_mem hm)
    · have hai : (a.id == i) = false := by simpa using ha
      rw [hai] at hf
      rw [List.filter_cons, hai]
      exact ih hnd.2 hf

theorem filter_id_absent {t : Table} {i : Int} (h : i ∉ ids t) : (t.filter fun m => m.id == i) = [] := by
  rw [List.filter_eq_nil_iff]
  intro m hm hmi
  have : m.id = i := by simpa using hmi
  exact h (this ▸ mem_ids_of_mem hm)

theorem succId_eq (t : Table) (i : Int) :
    succId t i = ((t.filter fun m => m.id == i).filter fun m => !isRootNode m).map (·.parent) := by
  unfold succId idEdges edges
  rw [List.filter_map, List.map_map, List.filter_filter, List.filter_filter]
  congr 1
  apply List.filter_congr
  intro m _
  simp [Function.comp, Bool.and_comm]

theorem succId_of_find {t : Table} (hnd : (ids t).Nodup) {i : Int} {n : Node} (hf : find? t i = some n) :
    succId t i = if n.parent < 0 then [] else [n.parent] := by
  rw [succId_eq, filter_id_of_find hnd hf]
  by_cases hp : n.parent < 0 <;> simp [isRootNode, hp]

theorem succId_nonroot {t : Table} (hnd : (ids t).Nodup) {i : Int} {n : Node} (hf : find? t i = some n)
    (hp : ¬ n.parent < 0) : succId t i = [n.parent] := by
  rw [succId_of_find hnd hf, if_neg hp]

theorem succId_root {t : Table} (hnd : (ids t).Nodup) {i : Int} {n : Node} (hf : find? t i = some n)
    (hp : n.parent < 0) : succId t i = [] := by
  rw [succId_of_find hnd hf, if_pos hp]

theorem succId_absent {t : Table} {i : Int} (h : find? t i = none) : succId t i = [] := by
  rw [succId_eq, filter_id_absent (find?_none h)]; rfl

/-! ### B1: the networkx variant of `_break_segments` -/

theorem mem_stopsNx {t : Table} (hnd : (ids t).Nodup) (hl : labelsOKB t = true) {p : Int} {n : Node}
    (hf : find? t p = some n) : (stopsNx t).contains p = isBranchOrRoot t p := by
  rw [isBranchOrRoot_of_find hf]
  have hn := find?_some hf
  have hlab := (labelsOKB_iff t).mp hl n hn.1
  rw [Bool.eq_iff_iff]
  unfold stopsNx
  simp only [List.contains_eq_mem, decide_eq_true_eq, List.mem_map, List.mem_filter, Bool.or_eq_true, beq_iff_eq]
  constructor
  · rintro ⟨m, ⟨hm, hlm⟩, hmp⟩
    have hmn : m = n := by
      have := find?_of_mem hnd hm
      rw [hmp, hf] at this; exact (Option.some.inj this).symm
    subst hmn
    rw [hlab] at hlm
    rcases hlm with h | h
    · rw [labelOf_branch_iff] at h; right; rw [← hn.2]; omega
    · rw [labelOf_root_iff] at h; left; simpa using h
  · rintro (h | h)
    · exact ⟨n, ⟨hn.1, Or.inr (by rw [hlab, labelOf_root_iff]; simpa using h)⟩, hn.2⟩
    · by_cases hr : n.parent < 0
      · exact ⟨n, ⟨hn.1, Or.inr (by rw [hlab, labelOf_root_iff]; simpa using hr)⟩, hn.2⟩
      · exact ⟨n, ⟨hn.1, Or.inl (by rw [hlab, labelOf_branch_iff]; exact ⟨by simpa using hr, by rw [hn.2]; omega⟩)⟩, hn.2⟩

/-- The `while parent not in stops` loop from the parent of a non-root `i` produces the tail of the model's walk. -/
theorem tailId_walk {t : Table} (hw : WF t) (hl : labelsOKB t = true) :
    ∀ (f : Nat) (i : Int) (n : Node), find? t i = some n → ¬ n.parent < 0 → (rootPath t i).length ≤ f + 1 →
      ∃ T, tailId t (stopsNx t) f n.parent = some T ∧ walkToStop t (isBranchOrRoot t) f i = n.parent :: T := by
  intro f
  induction f with
  | zero =>
    intro i n hf hp hlen
    have e := rootPath_of_nonroot hw hf hp
    obtain ⟨rest, hr⟩ := rootPath_cons (WF_parent_mem hw (find?_some hf).1 hp)
    rw [e, hr] at hlen; simp at hlen
  | succ f ih =>
    intro i n hf hp hlen
    have hn := find?_some hf
    have e := rootPath_of_nonroot hw hf hp
    have hpm := WF_parent_mem hw hn.1 hp
    obtain ⟨pn, hpn, hpid⟩ := mem_ids.mp hpm
    have hfp : find? t n.parent = some pn := hpid ▸ find?_of_mem hw.1 hpn
    have hstop := mem_stopsNx hw.1 hl hfp
    unfold walkToStop tailId
    rw [hf]
    simp only [if_neg hp, hstop]
    cases hst : isBranchOrRoot t n.parent with
    | true => simp
    | false =>
      obtain ⟨pn', hfp', hpp, _⟩ := not_stop hst
      rw [hfp] at hfp'
      cases hfp'
      rw [succId_nonroot hw.1 hfp hpp]
      have hlen' : (rootPath t n.parent).length ≤ f + 1 := by rw [e] at hlen; simpa using hlen
      obtain ⟨T, h1, h2⟩ := ih n.parent pn hfp hpp hlen'
      simp [h1, h2]

theorem segId_eq {t : Table} (hw : WF t) (hl : labelsOKB t = true) {n : Node} (hn : n ∈ t) (hp : ¬ n.parent < 0) :
    segId t (stopsNx t) n.id = some (segOf t n.id) := by
  have hf := find?_of_mem hw.1 hn
  have hlen : (rootPath t n.id).length ≤ (t.length + 1) + 1 := by have := rootPath_length_le hw n.id; omega
  obtain ⟨T, h1, h2⟩ := tailId_walk hw hl (t.length + 1) n.id n hf hp hlen
  unfold segId segOf
  rw [succId_nonroot hw.1 hf hp]
  simp only [h1, h2, Option.map_some]

theorem seedsNx_eq {t : Table} (hl : labelsOKB t = true) :
    seedsNx t = (t.filter fun n => !isRootNode n && childCount t n.id != 1).map (·.id) := by
  unfold seedsNx
  congr 1
  apply List.filter_congr
  intro n hn
  have hlab := (labelsOKB_iff t).mp hl n hn
  rw [Bool.eq_iff_iff]
  simp only [Bool.or_eq_true, beq_iff_eq, Bool.and_eq_true, Bool.not_eq_true', bne_iff_ne, ne_eq, isRootNode,
    decide_eq_false_iff_not]
  rw [hlab, labelOf_branch_iff, labelOf_end_iff]
  simp only [decide_eq_false_iff_not]
  omega

/-- B1: the networkx variant of `_break_segments` returns exactly the C05 model's small segments. -/
theorem breakNx_eq (t : Table) (hw : WF t) (hl : labelsOKB t = true) : breakNx t = some (smallSegments t) := by
  unfold breakNx
  rw [seedsNx_eq hl, smallSegments_eq, mapM_some_of_forall _ (segOf t)]
  · rw [List.map_map]; rfl
  · intro i hi
    obtain ⟨n, hn, rfl⟩ := List.mem_map.mp hi
    obtain ⟨h1, h2, _⟩ := mem_seeds.mp hn
    exact segId_eq hw hl h1 h2

/-! ### positions and ids -/

/-- Row position of the node id `i` (`id2ix[i]`). -/
def pos (t : Table) (i : Int) : Nat := (ids t).idxOf i

theorem pos_lt {t : Table} {i : Int} (h : i ∈ ids t) : pos t i < t.length := by
  have := List.idxOf_lt_length_of_mem h
  rwa [ids_length] at this

theorem idAt?_pos {t : Table} {i : Int} (h : i ∈ ids t) : idAt? t (pos t i) = some i := by
  unfold idAt? pos
  have hlt := List.idxOf_lt_length_of_mem h
  rw [List.getElem?_eq_getElem hlt, List.getElem_idxOf hlt]

theorem pos_inj {t : Table} {i j : Int} (hi : i ∈ ids t) (hj : j ∈ ids t) (h : pos t i = pos t j) : i = j := by
  have h1 := idAt?_pos hi
  rw [h, idAt?_pos hj] at h1
  exact (Option.some.inj h1).symm

theorem ixOf?_mem {t : Table} {i : Int} (h : i ∈ ids t) : ixOf? t i = some (pos t i) := by
  unfold ixOf? pos
  rw [if_pos (by simpa using h)]

theorem zipIdx_eq_map_pos {t : Table} (hnd : (ids t).Nodup) : t.zipIdx = t.map fun n => (n, pos t n.id) := by
  apply List.ext_getElem
  · simp
  · intro ix h1 h2
    have hlt : ix < t.length := by simpa using h1
    rw [List.getElem_zipIdx, List.getElem_map]
    have hid : t[ix].id = (ids t)[ix]'(by simpa using hlt) := by simp [ids]
    unfold pos
    rw [hid, hnd.idxOf_getElem]
    simp

theorem idxEdges_eq {t : Table} (hnd : (ids t).Nodup) :
    idxEdges t = (idEdges t).map fun e => (pos t e.1, pos t e.2) := by
  unfold idxEdges idEdges edges
  rw [zipIdx_eq_map_pos hnd, List.filter_map, List.map_map, List.map_map]
  rfl

theorem mem_idEdges {t : Table} {e : Int × Int} :
    e ∈ idEdges t ↔ ∃ n ∈ t, ¬ n.parent < 0 ∧ e = (n.id, n.parent) := by
  unfold idEdges edges
  simp only [List.mem_map, List.mem_filter, isRootNode, Bool.not_eq_true', decide_eq_false_iff_not]
  constructor
  · rintro ⟨n, ⟨h1, h2⟩, h3⟩; exact ⟨n, h1, h2, h3.symm⟩
  · rintro ⟨n, h1, h2, h3⟩; exact ⟨n, ⟨h1, h2⟩, h3.symm⟩

theorem succIdx_pos {t : Table} (hnd : (ids t).Nodup) {i : Int} (hi : i ∈ ids t) :
    succIdx t (pos t i) = (succId t i).map (pos t) := by
  unfold succIdx succId
  rw [idxEdges_eq hnd, List.filter_map, List.map_map, List.map_map]
  have : ((idEdges t).filter ((fun e : Nat × Nat => e.1 == pos t i) ∘ fun e => (pos t e.1, pos t e.2))) =
      (idEdges t).filter fun e => e.1 == i := by
    apply List.filter_congr
    intro e he
    obtain ⟨n, hn, _, rfl⟩ := mem_idEdges.mp he
    rw [Bool.eq_iff_iff]
    simp only [Function.comp, beq_iff_eq]
    exact ⟨fun h => pos_inj (mem_ids_of_mem hn) hi h, fun h => by rw [h]⟩
  rw [this]
  rfl

theorem contains_map_pos {t : Table} {S : List Int} (hS : ∀ x ∈ S, x ∈ ids t) {p : Int} (hp : p ∈ ids t) :
    (S.map (pos t)).contains (pos t p) = S.contains p := by
  rw [Bool.eq_iff_iff]
  simp only [List.contains_eq_mem, decide_eq_true_eq, List.mem_map]
  constructor
  · rintro ⟨x, hx, hxp⟩
    rw [← pos_inj (hS x hx) hp hxp]; exact hx
  · intro h; exact ⟨p, h, rfl⟩

theorem mapM_idAt {t : Table} : ∀ (l : List Int), (∀ x ∈ l, x ∈ ids t) → (l.map (pos t)).mapM (idAt? t) = some l
  | [], _ => rfl
  | a :: l, h => by
    have h1 := idAt?_pos (h a List.mem_cons_self)
    have h2 := mapM_idAt l (fun x hx => h x (List.mem_cons_of_mem _ hx))
    simp [List.mapM_cons, h1, h2]

theorem mapM_mapM_idAt {t : Table} : ∀ (X : List (List Int)), (∀ s ∈ X, ∀ x ∈ s, x ∈ ids t) →
    (X.map (List.map (pos t))).mapM (fun s => s.mapM (idAt? t)) = some X
  | [], _ => rfl
  | a :: l, h => by
    have h1 := mapM_idAt a (h a List.mem_cons_self)
    have h2 := mapM_mapM_idAt l (fun x hx => h x (List.mem_cons_of_mem _ hx))
    simp [List.mapM_cons, h1, h2]

/-! ### B3: the two variants of `_generate_segments` agree -/

theorem succId_sub {t : Table} (hw : WF t) {cur p : Int} {rest : List Int} (h : succId t cur = p :: rest) :
    p ∈ ids t ∧ rest = [] := by
  cases hf : find? t cur with
  | none => rw [succId_absent hf] at h; simp at h
  | some n =>
    rw [succId_of_find hw.1 hf] at h
    by_cases hp : n.parent < 0
    · rw [if_pos hp] at h; simp at h
    · rw [if_neg hp] at h
      simp only [List.cons.injEq] at h
      exact ⟨h.1 ▸ WF_parent_mem hw (find?_some hf).1 hp, h.2.symm⟩

theorem growId_sub {t : Table} (hw : WF t) : ∀ (f : Nat) (cur : Int) (seen : List Int) (r : List Int × List Int),
    (∀ x ∈ seen, x ∈ ids t) → growId t f cur seen = some r → (∀ x ∈ r.1, x ∈ ids t) ∧ (∀ x ∈ r.2, x ∈ ids t) := by
  intro f
  induction f with
  | zero => intro cur seen r _ h; simp [growId] at h
  | succ f ih =>
    intro cur seen r hs h
    unfold growId at h
    cases hsu : succId t cur with
    | nil =>
      rw [hsu] at h
      simp only [Option.some.injEq] at h
      rw [← h]; exact ⟨by simp, hs⟩
    | cons p rest =>
      rw [hsu] at h
      have hp := (succId_sub hw hsu).1
      simp only at h
      by_cases hc : seen.contains p = true
      · rw [if_pos hc] at h
        simp only [Option.some.injEq] at h
        rw [← h]
        exact ⟨by simpa using hp, hs⟩
      · rw [if_neg hc] at h
        cases hg : growId t f p (p :: seen) with
        | none => rw [hg] at h; simp at h
        | some r' =>
          rw [hg] at h
          simp only [Option.map_some, Option.some.injEq] at h
          have hs' : ∀ x ∈ p :: seen, x ∈ ids t := by
            intro x hx
            rcases List.mem_cons.mp hx with e | e
            · rw [e]; exact hp
            · exact hs x e
          obtain ⟨i1, i2⟩ := ih p (p :: seen) r' hs' hg
          rw [← h]
          refine ⟨?_, i2⟩
          intro x hx
          rcases List.mem_cons.mp hx with e | e
          · rw [e]; exact hp
          · exact i1 x e

theorem growIdx_conj {t : Table} (hw : WF t) : ∀ (f : Nat) (cur : Int) (seen : List Int), cur ∈ ids t →
    (∀ x ∈ seen, x ∈ ids t) →
    growIdx t f (pos t cur) (seen.map (pos t)) =
      (growId t f cur seen).map fun r => (r.1.map (pos t), r.2.map (pos t)) := by
  intro f
  induction f with
  | zero => intro cur seen _ _; rfl
  | succ f ih =>
    intro cur seen hc hs
    unfold growIdx growId
    rw [succIdx_pos hw.1 hc]
    cases hsu : succId t cur with
    | nil => rfl
    | cons p rest =>
      have hp := (succId_sub hw hsu).1
      simp only [List.map_cons]
      rw [contains_map_pos hs hp]
      by_cases hcs : seen.contains p = true
      · rw [if_pos hcs, if_pos hcs]; rfl
      · rw [if_neg hcs, if_neg hcs]
        have hs' : ∀ x ∈ p :: seen, x ∈ ids t := by
          intro x hx
          rcases List.mem_cons.mp hx with e | e
          · rw [e]; exact hp
          · exact hs x e
        have := ih p (p :: seen) hp hs'
        rw [List.map_cons] at this
        rw [this, Option.map_map, Option.map_map]
        rfl

/-- One iteration of the `for nodeID in endNodeIDs` loop (igraph). -/
def stepIdx (t : Table) (acc : List (List Nat) × List Nat) (l : Nat) : Option (List (List Nat) × List Nat) :=
  (growIdx t (t.length + 1) l acc.2).map fun r =>
    (if r.1.length + 1 > 1 then acc.1 ++ [l :: r.1] else acc.1, r.2)

/-- One iteration of the `for nodeID in endNodeIDs` loop (networkx). -/
def stepId (t : Table) (acc : List (List Int) × List Int) (l : Int) : Option (List (List Int) × List Int) :=
  (growId t (t.length + 1) l acc.2).map fun r =>
    (if r.1.length + 1 > 1 then acc.1 ++ [l :: r.1] else acc.1, r.2)

theorem seqsIdx_eq (t : Table) (leafs : List Nat) :
    seqsIdx t leafs = (leafs.foldlM (stepIdx t) ([], [])).map (·.1) := rfl

theorem seqsId_eq (t : Table) (leafs : List Int) :
    seqsId t leafs = (leafs.foldlM (stepId t) ([], [])).map (·.1) := rfl

theorem stepIdx_conj {t : Table} (hw : WF t) {A : List (List Int)} {S : List Int} {l : Int} (hl : l ∈ ids t)
    (hS : ∀ x ∈ S, x ∈ ids t) :
    stepIdx t (A.map (List.map (pos t)), S.map (pos t)) (pos t l) =
      (stepId t (A, S) l).map fun r => (r.1.map (List.map (pos t)), r.2.map (pos t)) := by
  unfold stepIdx stepId
  simp only []
  rw [growIdx_conj hw _ l S hl hS, Option.map_map, Option.map_map]
  cases growId t (t.length + 1) l S with
  | none => rfl
  | some r =>
    simp only [Option.map_some, Function.comp, List.length_map]
    by_cases h : r.1.length + 1 > 1
    · rw [if_pos h, if_pos h]; simp
    · rw [if_neg h, if_neg h]

theorem stepId_sub {t : Table} (hw : WF t) {A : List (List Int)} {S : List Int} {l : Int} (hl : l ∈ ids t)
    (hA : ∀ s ∈ A, ∀ x ∈ s, x ∈ ids t) (hS : ∀ x ∈ S, x ∈ ids t) {r : List (List Int) × List Int}
    (h : stepId t (A, S) l = some r) : (∀ s ∈ r.1, ∀ x ∈ s, x ∈ ids t) ∧ (∀ x ∈ r.2, x ∈ ids t) := by
  unfold stepId at h
  simp only [] at h
  cases hg : growId t (t.length + 1) l S with
  | none => rw [hg] at h; simp at h
  | some r' =>
    rw [hg] at h
    simp only [Option.map_some, Option.some.injEq] at h
    obtain ⟨i1, i2⟩ := growId_sub hw _ l S r' hS hg
    rw [← h]
    refine ⟨?_, i2⟩
    by_cases hc : r'.1.length + 1 > 1
    · simp only [if_pos hc]
      intro s hs
      rcases List.mem_append.mp hs with e | e
      · exact hA s e
      · simp only [List.mem_singleton] at e
        rw [e]
        intro x hx
        rcases List.mem_cons.mp hx with e' | e'
        · rw [e']; exact hl
        · exact i1 x e'
    · simp only [if_neg hc]; exact hA

theorem foldlM_conj {t : Table} (hw : WF t) : ∀ (L : List Int) (A : List (List Int)) (S : List Int),
    (∀ l ∈ L, l ∈ ids t) → (∀ s ∈ A, ∀ x ∈ s, x ∈ ids t) → (∀ x ∈ S, x ∈ ids t) →
    (L.map (pos t)).foldlM (stepIdx t) (A.map (List.map (pos t)), S.map (pos t)) =
      ((L.foldlM (stepId t) (A, S)).map fun r => (r.1.map (List.map (pos t)), r.2.map (pos t))) ∧
    ∀ r, L.foldlM (stepId t) (A, S) = some r → ∀ s ∈ r.1, ∀ x ∈ s, x ∈ ids t := by
  intro L
  induction L with
  | nil =>
    intro A S _ hA _
    refine ⟨rfl, ?_⟩
    intro r h
    simp only [List.foldlM_nil, Option.pure_def, Option.some.injEq] at h
    rw [← h]; exact hA
  | cons l L ih =>
    intro A S hL hA hS
    have hl := hL l List.mem_cons_self
    have hL' : ∀ l ∈ L, l ∈ ids t := fun x hx => hL x (List.mem_cons_of_mem _ hx)
    simp only [List.map_cons, List.foldlM_cons]
    rw [stepIdx_conj hw hl hS]
    cases hst : stepId t (A, S) l with
    | none => simp
    | some r =>
      obtain ⟨i1, i2⟩ := stepId_sub hw hl hA hS hst
      simp only [Option.map_some, Option.bind_eq_bind, Option.bind_some]
      exact ih r.1 r.2 hL' i1 i2

theorem seqsIdx_conj {t : Table} (hw : WF t) (L : List Int) (hL : ∀ l ∈ L, l ∈ ids t) :
    seqsIdx t (L.map (pos t)) = (seqsId t L).map (List.map (List.map (pos t))) ∧
    ∀ X, seqsId t L = some X → ∀ s ∈ X, ∀ x ∈ s, x ∈ ids t := by
  have := foldlM_conj hw L [] [] hL (by simp) (by simp)
  rw [seqsIdx_eq, seqsId_eq]
  constructor
  · have h1 := this.1
    simp only [List.map_nil] at h1
    rw [h1, Option.map_map, Option.map_map]
    rfl
  · intro X hX
    cases hf : L.foldlM (stepId t) ([], []) with
    | none => rw [hf] at hX; simp at hX
    | some r =>
      rw [hf] at hX
      simp only [Option.map_some, Option.some.injEq] at hX
      rw [← hX]
      exact this.2 r hf

theorem mem_sortedEnds {t : Table} {len : Int → Int → Nat} {i : Int} (h : i ∈ sortedEnds t len) : i ∈ ids t := by
  unfold sortedEnds at h
  rw [mem_sortBy] at h
  obtain ⟨n, hn, rfl⟩ := List.mem_map.mp h
  exact mem_ids_of_mem (List.mem_filter.mp hn).1

/-- B3: the igraph and the networkx variant of `_generate_segments` return the same list (same order). -/
theorem genIgraph_eq_genNx (t : Table) (hw : WF t) (len : Int → Int → Nat) : genIgraph t len = genNx t len := by
  have hL : ∀ l ∈ sortedEnds t len, l ∈ ids t := fun l hl => mem_sortedEnds hl
  have h1 : (sortedEnds t len).mapM (ixOf? t) = some ((sortedEnds t len).map (pos t)) :=
    mapM_some_of_forall _ _ _ (fun a ha => ixOf?_mem (hL a ha))
  obtain ⟨h2, h3⟩ := seqsIdx_conj hw (sortedEnds t len) hL
  unfold genIgraph genNx
  rw [h1]
  simp only [h2]
  cases hs : seqsId t (sortedEnds t len) with
  | none => rfl
  | some X =>
    simp only [Option.map_some]
    rw [mapM_mapM_idAt X (h3 X hs)]

/-! ### B2: the igraph variant of `_break_segments` -/

theorem indegIdx_pos {t : Table} (hw : WF t) {i : Int} (hi : i ∈ ids t) : indegIdx t (pos t i) = childCount t i := by
  unfold indegIdx
  rw [idxEdges_eq hw.1, List.filter_map, List.length_map]
  have : (idEdges t).filter ((fun e : Nat × Nat => e.2 == pos t i) ∘ fun e => (pos t e.1, pos t e.2)) =
      (idEdges t).filter fun e => e.2 == i := by
    apply List.filter_congr
    intro e he
    obtain ⟨n, hn, hp, rfl⟩ := mem_idEdges.mp he
    rw [Bool.eq_iff_iff]
    simp only [Function.comp, beq_iff_eq]
    exact ⟨fun h => pos_inj (WF_parent_mem hw hn hp) hi h, fun h => by rw [h]⟩
  rw [this]
  unfold idEdges edges childCount
  rw [List.filter_map, List.length_map, List.filter_filter]
  congr 1
  apply List.filter_congr
  intro n hn
  have h0 : 0 ≤ i := by
    obtain ⟨m, hm, rfl⟩ := mem_ids.mp hi
    exact hw.2.1 m hm
  rw [Bool.eq_iff_iff]
  simp only [Function.comp, Bool.and_eq_true, beq_iff_eq, isRootNode, Bool.not_eq_true', decide_eq_false_iff_not]
  constructor
  · intro h; first | exact h.1 | exact h.2
  · intro h; first | exact ⟨h, by omega⟩ | exact ⟨by omega, h⟩

theorem outdegIdx_pos {t : Table} (hnd : (ids t).Nodup) {i : Int} (hi : i ∈ ids t) :
    outdegIdx t (pos t i) = (succId t i).length := by
  have : outdegIdx t (pos t i) = (succIdx t (pos t i)).length := by simp [outdegIdx, succIdx]
  rw [this, succIdx_pos hnd hi, List.length_map]

theorem outdegIdx_of_find {t : Table} (hnd : (ids t).Nodup) {i : Int} {n : Node} (hf : find? t i = some n) :
    outdegIdx t (pos t i) = if n.parent < 0 then 0 else 1 := by
  have hi : i ∈ ids t := mem_ids.mpr ⟨n, (find?_some hf).1, (find?_some hf).2⟩
  rw [outdegIdx_pos hnd hi, succId_of_find hnd hf]
  by_cases hp : n.parent < 0 <;> simp [hp]

theorem stopsIdx_contains {t : Table} (hw : WF t) {p : Int} {n : Node} (hf : find? t p = some n) :
    (stopsIdx t).contains (pos t p) = isBranchOrRoot t p := by
  have hp : p ∈ ids t := mem_ids.mpr ⟨n, (find?_some hf).1, (find?_some hf).2⟩
  have hlt := pos_lt hp
  rw [isBranchOrRoot_of_find hf, Bool.eq_iff_iff]
  unfold stopsIdx branchIdx rootIdx
  simp only [List.contains_eq_mem, decide_eq_true_eq, List.mem_append, List.mem_filter, List.mem_range,
    Bool.and_eq_true, beq_iff_eq, Bool.or_eq_true]
  rw [indegIdx_pos hw hp, outdegIdx_of_find hw.1 hf]
  by_cases hr : n.parent < 0
  · simp [hr, hlt]
  · simp [hr, hlt]

theorem tailIdx_conj {t : Table} (hw : WF t) (hl : labelsOKB t = true) : ∀ (f : Nat) (p : Int), p ∈ ids t →
    tailIdx t (stopsIdx t) f (pos t p) = (tailId t (stopsNx t) f p).map (List.map (pos t)) := by
  intro f
  induction f with
  | zero => intro p _; rfl
  | succ f ih =>
    intro p hp
    obtain ⟨n, hn, hnp⟩ := mem_ids.mp hp
    have hf : find? t p = some n := hnp ▸ find?_of_mem hw.1 hn
    unfold tailIdx tailId
    rw [stopsIdx_contains hw hf, mem_stopsNx hw.1 hl hf, succIdx_pos hw.1 hp]
    cases isBranchOrRoot t p with
    | true => rfl
    | false =>
      simp only [Bool.false_eq_true, if_false]
      cases hsu : succId t p with
      | nil => rfl
      | cons q rest =>
        have hq := (succId_sub hw hsu).1
        simp only [List.map_cons]
        rw [ih q hq, Option.map_map, Option.map_map]
        rfl

theorem segIdx_conj {t : Table} (hw : WF t) (hl : labelsOKB t = true) {s : Int} (hs : s ∈ ids t) :
    segIdx t (stopsIdx t) (pos t s) = (segId t (stopsNx t) s).map (List.map (pos t)) := by
  unfold segIdx segId
  rw [succIdx_pos hw.1 hs]
  cases hsu : succId t s with
  | nil => rfl
  | cons q rest =>
    have hq := (succId_sub hw hsu).1
    simp only [List.map_cons]
    rw [tailIdx_conj hw hl _ q hq, Option.map_map, Option.map_map]
    rfl

theorem exists_pos {t : Table} (hnd : (ids t).Nodup) {ix : Nat} (h : ix < t.length) : ∃ n ∈ t, pos t n.id = ix := by
  refine ⟨t[ix], List.getElem_mem h, ?_⟩
  have hid : t[ix].id = (ids t)[ix]'(by simpa using h) := by simp [ids]
  unfold pos
  rw [hid, hnd.idxOf_getElem]

theorem mem_seedsIdx_pos {t : Table} (hw : WF t) {n : Node} (hn : n ∈ t) :
    pos t n.id ∈ seedsIdx t ↔ ¬ n.parent < 0 ∧ childCount t n.id ≠ 1 := by
  have hi := mem_ids_of_mem hn
  have hf := find?_of_mem hw.1 hn
  have hlt := pos_lt hi
  unfold seedsIdx branchIdx endIdx rootIdx
  simp only [List.mem_filter, List.mem_append, List.mem_range, Bool.and_eq_true, decide_eq_true_eq, beq_iff_eq,
    Bool.not_eq_true', List.contains_eq_mem, decide_eq_false_iff_not, not_and]
  rw [indegIdx_pos hw hi, outdegIdx_of_find hw.1 hf]
  by_cases hr : n.parent < 0
  · simp [hr, hlt]
  · simp [hr, hlt]; omega

theorem seedsIdx_lt {t : Table} {ix : Nat} (h : ix ∈ seedsIdx t) : ix < t.length := by
  unfold seedsIdx branchIdx endIdx at h
  simp only [List.mem_filter, List.mem_append, List.mem_range] at h
  rcases h.1 with h' | h'
  · exact h'.1
  · exact h'.1

theorem seedsIdx_nodup (t : Table) : (seedsIdx t).Nodup := by
  unfold seedsIdx
  refine List.Nodup.sublist List.filter_sublist ?_
  rw [List.nodup_append]
  refine ⟨List.Nodup.sublist List.filter_sublist List.nodup_range,
    List.Nodup.sublist List.filter_sublist List.nodup_range, ?_⟩
  intro a ha b hb hab
  subst hab
  unfold branchIdx at ha
  unfold endIdx at hb
  simp only [List.mem_filter, Bool.and_eq_true, decide_eq_true_eq, beq_iff_eq] at ha hb
  omega

theorem seedsIdx_perm {t : Table} (hw : WF t) (hl : labelsOKB t = true) :
    (seedsIdx t).Perm ((seedsNx t).map (pos t)) := by
  have hnd2 : ((seedsNx t).map (pos t)).Nodup := by
    have hnd1 : (seedsNx t).Nodup := hw.1.sublist (List.filter_sublist.map _)
    show List.Pairwise (· ≠ ·) _
    rw [List.pairwise_map]
    refine List.Pairwise.imp_of_mem ?_ hnd1
    · intro a b ha hb hne hab
      apply hne
      have ha' : a ∈ ids t := by
        unfold seedsNx at ha
        obtain ⟨n, hn, rfl⟩ := List.mem_map.mp ha
        exact mem_ids_of_mem (List.mem_filter.mp hn).1
      have hb' : b ∈ ids t := by
        unfold seedsNx at hb
        obtain ⟨n, hn, rfl⟩ := List.mem_map.mp hb
        exact mem_ids_of_mem (List.mem_filter.mp hn).1
      exact pos_inj ha' hb' hab
  apply (List.perm_ext_iff_of_nodup (seedsIdx_nodup t) hnd2).mpr
  intro ix
  rw [seedsNx_eq hl]
  simp only [List.mem_map]
  constructor
  · intro h
    obtain ⟨n, hn, hpos⟩ := exists_pos hw.1 (seedsIdx_lt h)
    rw [← hpos] at h
    have := (mem_seedsIdx_pos hw hn).mp h
    exact ⟨n.id, ⟨n, mem_seeds.mpr ⟨hn, this.1, this.2⟩, rfl⟩, hpos⟩
  · rintro ⟨i, ⟨n, hn, rfl⟩, rfl⟩
    obtain ⟨h1, h2, h3⟩ := mem_seeds.mp hn
    exact (mem_seedsIdx_pos hw h1).mpr ⟨h2, h3⟩

theorem mapM_map_some {α β γ} (f : β → Option γ) (h : α → β) (g : α → γ) :
    ∀ (l : List α), (∀ a ∈ l, f (h a) = some (g a)) → (l.map h).mapM f = some (l.map g)
  | [], _ => rfl
  | a :: l, hh => by
    have h1 := hh a List.mem_cons_self
    have h2 := mapM_map_some f h g l (fun b hb => hh b (List.mem_cons_of_mem _ hb))
    simp [List.mapM_cons, h1, h2]

theorem segOf_sub {t : Table} (hw : WF t) {n : Node} (hn : n ∈ t) (hp : ¬ n.parent < 0) :
    ∀ x ∈ segOf t n.id, x ∈ ids t := by
  obtain ⟨mid, last, e, hs⟩ := segOf_spec hw hn hp
  intro x hx
  rw [e] at hx
  rcases List.mem_append.mp hx with h | h
  · apply rootPath_sub (i := n.id)
    rw [hs.path]; exact List.mem_append_left _ h
  · simp only [List.mem_singleton] at h
    rw [h]; exact hs.hlast

/-- The igraph variant run on the seeds in table order of the networkx variant. -/
theorem breakIgraphFrom_canonical {t : Table} (hw : WF t) (hl : labelsOKB t = true) :
    ((seedsNx t).map (pos t)).mapM (segIdx t (stopsIdx t)) = some ((smallSegments t).map (List.map (pos t))) ∧
    ((smallSegments t).map (List.map (pos t))).mapM (fun s => s.mapM (idAt? t)) = some (smallSegments t) := by
  constructor
  · rw [mapM_map_some _ _ (fun i => (segOf t i).map (pos t))]
    · rw [seedsNx_eq hl, smallSegments_eq, List.map_map, List.map_map]; rfl
    · intro i hi
      rw [seedsNx_eq hl] at hi
      obtain ⟨n, hn, rfl⟩ := List.mem_map.mp hi
      obtain ⟨h1, h2, _⟩ := mem_seeds.mp hn
      rw [segIdx_conj hw hl (mem_ids_of_mem h1), segId_eq hw hl h1 h2]; rfl
  · apply mapM_mapM_idAt
    intro s hs
    rw [smallSegments_eq] at hs
    obtain ⟨n, hn, rfl⟩ := List.mem_map.mp hs
    obtain ⟨h1, h2, _⟩ := mem_seeds.mp hn
    exact segOf_sub hw h1 h2

/-- B2: the igraph variant, for ANY iteration order of the seed set, returns a permutation of them. -/
theorem breakIgraphFrom_perm (t : Table) (hw : WF t) (hl : labelsOKB t = true) (seeds : List Nat)
    (hs : seeds.Perm (seedsIdx t)) : ∃ segs, breakIgraphFrom t seeds = some segs ∧ segs.Perm (smallSegments t) := by
  obtain ⟨c1, c2⟩ := breakIgraphFrom_canonical hw hl
  obtain ⟨R1, e1, p1⟩ := mapM_perm _ (hs.trans (seedsIdx_perm hw hl)) _ c1
  obtain ⟨Q1, e2, p2⟩ := mapM_perm _ p1 _ c2
  refine ⟨Q1, ?_, p2⟩
  unfold breakIgraphFrom
  rw [e1]
  exact e2

/-! ### B4: the networkx variant of `_generate_segments` is correct -/

/-- With enough fuel the Python `while True` loop is the model's `walkSeen`. -/
theorem growId_eq_walkSeen {t : Table} (hw : WF t) : ∀ (f : Nat) (cur : Int) (seen : List Int),
    (rootPath t cur).length < f → growId t f cur seen = some (walkSeen t f cur seen) := by
  intro f
  induction f with
  | zero => intro cur seen h; exact absurd h (Nat.not_lt_zero _)
  | succ f ih =>
    intro cur seen h
    unfold growId walkSeen
    cases hf : find? t cur with
    | none => rw [succId_absent hf]
    | some n =>
      by_cases hp : n.parent < 0
      · rw [succId_root hw.1 hf hp]; simp [hp]
      · rw [succId_nonroot hw.1 hf hp]
        simp only [if_neg hp]
        have e := rootPath_of_nonroot hw hf hp
        have h' : (rootPath t n.parent).length < f := by rw [e] at h; simpa using h
        by_cases hc : seen.contains n.parent = true
        · simp only [hc, if_true]
        · simp only [hc, Bool.false_eq_true, if_false]
          rw [ih _ _ h']; rfl

theorem stepId_eq_greedyStep {t : Table} (hw : WF t) (A : List (List Int)) (S : List Int) (l : Int) :
    stepId t (A.filter fun s => s.length > 1, S) l =
      some ((greedyStep t (A, S) l).1.filter fun s => s.length > 1, (greedyStep t (A, S) l).2) := by
  have hlen : (rootPath t l).length < t.length + 1 := by have := rootPath_length_le hw l; omega
  unfold stepId greedyStep
  simp only []
  rw [growId_eq_walkSeen hw _ l S hlen]
  simp only [Option.map_some, Option.some.injEq, Prod.mk.injEq, and_true]
  rw [List.filter_append]
  by_cases h : (walkSeen t (t.length + 1) l S).1.length + 1 > 1
  · rw [if_pos h]
    congr 1
    rw [List.filter_cons, if_pos (by simpa using h)]; rfl
  · rw [if_neg h]
    rw [List.filter_cons, if_neg (by simpa using h)]; simp

theorem foldlM_eq_foldl {t : Table} (hw : WF t) : ∀ (ls : List Int) (A : List (List Int)) (S : List Int),
    ls.foldlM (stepId t) (A.filter fun s => s.length > 1, S) =
      some ((ls.foldl (greedyStep t) (A, S)).1.filter fun s => s.length > 1, (ls.foldl (greedyStep t) (A, S)).2) := by
  intro ls
  induction ls with
  | nil => intro A S; rfl
  | cons l ls ih =>
    intro A S
    rw [List.foldlM_cons, stepId_eq_greedyStep hw A S l]
    simp only [Option.bind_eq_bind, Option.bind_some, List.foldl_cons]
    exact ih _ _

theorem seqsId_eq_greedy {t : Table} (hw : WF t) (ls : List Int) :
    seqsId t ls = some ((greedySeqs t ls).filter fun s => s.length > 1) := by
  rw [seqsId_eq]
  have := foldlM_eq_foldl hw ls [] []
  rw [List.filter_nil] at this
  rw [this]; rfl

theorem sortedEnds_perm {t : Table} (hl : labelsOKB t = true) (len : Int → Int → Nat) :
    (sortedEnds t len).Perm (leafIds t) := by
  have : ((t.filter fun n => n.label == .end_).map (·.id)) = leafIds t := by
    unfold leafIds
    congr 1
    apply List.filter_congr
    intro n hn
    have hlab := (labelsOKB_iff t).mp hl n hn
    rw [Bool.eq_iff_iff]
    simp only [beq_iff_eq, Bool.and_eq_true, Bool.not_eq_true', isRootNode, decide_eq_false_iff_not]
    rw [hlab, labelOf_end_iff]
    simp only [decide_eq_false_iff_not]
  unfold sortedEnds
  rw [this]
  exact sortBy_perm _ _

/-- `greedySeqs_spec` for the leafs in ANY order. -/
theorem greedySeqs_spec_perm {t : Table} (hw : WF t) (ls : List Int) (hperm : ls.Perm (leafIds t)) :
    (∀ s ∈ greedySeqs t ls, isParentPath t s = true ∧ s.length > 1) ∧
    ((greedySeqs t ls).flatMap fun s => s.dropLast).Perm ((t.filter fun n => !isRootNode n).map (·.id)) := by
  have hnd : ([] ++ ls).Nodup := by
    rw [List.nil_append]; exact hperm.nodup_iff.mpr (leafIds_nodup hw.1)
  have hleaf : ∀ l ∈ ls, ∃ n ∈ t, n.id = l ∧ ¬ n.parent < 0 ∧ childCount t n.id = 0 :=
    fun l hl => mem_leafIds.mp (hperm.mem_iff.mp hl)
  have hinv := GInv.foldl hw ls [] [] [] (GInv.init t) hleaf hnd
  rw [List.nil_append] at hinv
  refine ⟨hinv.pp, ?_⟩
  apply (List.perm_ext_iff_of_nodup hinv.nodup (nonroot_ids_nodup hw.1)).mpr
  intro x
  show x ∈ ((ls.foldl (greedyStep t) ([], [])).1.flatMap fun s => s.dropLast) ↔ _
  rw [hinv.mem x, mem_nonroot_ids]
  constructor
  · rintro (h | ⟨_, n, hn1, hn2⟩)
    · obtain ⟨n, hn, h1, h2, _⟩ := hleaf x h
      exact ⟨n, hn, h2, h1⟩
    · exact ⟨n, (find?_some hn1).1, hn2, (find?_some hn1).2⟩
  · rintro ⟨nx, hnx, hp, rfl⟩
    by_cases hcc : childCount t nx.id = 0
    · left
      exact hperm.mem_iff.mpr (mem_leafIds.mpr ⟨nx, hnx, rfl, hp, hcc⟩)
    · right
      refine ⟨?_, nx, find?_of_mem hw.1 hnx, hp⟩
      obtain ⟨l, hl, hlp, hlcc, hmem⟩ := exists_leaf_below hw (t.length + 1) nx hnx hp (by omega)
      have hl' : l.id ∈ ls := hperm.mem_iff.mpr (mem_leafIds.mpr ⟨l, hl, rfl, hlp, hlcc⟩)
      apply hinv.anc l.id hl'
      obtain ⟨rest, hr⟩ := rootPath_cons (mem_ids_of_mem hl)
      rw [hr] at hmem ⊢
      rcases List.mem_cons.mp hmem with e | e
      · rw [e] at hcc; exact absurd hlcc hcc
      · exact e

/-- `nx.isolates`: the rows without incident edge are the childless roots. -/
theorem isolated_eq {t : Table} (hw : WF t) :
    (t.filter fun n => ((idEdges t).filter fun e => e.1 == n.id || e.2 == n.id).isEmpty) =
      t.filter fun n => isRootNode n && childCount t n.id == 0 := by
  apply List.filter_congr
  intro n hn
  rw [Bool.eq_iff_iff]
  simp only [List.isEmpty_iff, List.filter_eq_nil_iff, Bool.and_eq_true, beq_iff_eq, isRootNode, decide_eq_true_eq]
  constructor
  · intro h
    have hr : n.parent < 0 := by
      by_cases hr : n.parent < 0
      · exact hr
      · exact absurd (by simp) (h (n.id, n.parent) (mem_idEdges.mpr ⟨n, hn, hr, rfl⟩))
    refine ⟨hr, ?_⟩
    by_cases hc : childCount t n.id = 0
    · exact hc
    · obtain ⟨c, hc1, hc2⟩ := exists_child_of_pos (t := t) (i := n.id) (by omega)
      have hcr : ¬ c.parent < 0 := by rw [hc2]; have := hw.2.1 n hn; omega
      exact absurd (by simp [hc2]) (h (c.id, c.parent) (mem_idEdges.mpr ⟨c, hc1, hcr, rfl⟩))
  · rintro ⟨hr, hc⟩ e he
    obtain ⟨m, hm, hmp, rfl⟩ := mem_idEdges.mp he
    intro hinc
    simp only [Bool.or_eq_true, beq_iff_eq] at hinc
    rcases hinc with h | h
    · have h1 := find?_of_mem hw.1 hm
      have h2 := find?_of_mem hw.1 hn
      rw [h, h2] at h1
      cases h1
      exact hmp hr
    · have := childCount_pos_of_child hm
      rw [h] at this; omega

/-- The Python sort key `d[s[0]] - d[s[-1]]`. -/
def dkey (t : Table) (len : Int → Int → Nat) (s : List Int) : Nat :=
  distToRoot t len (s.head?.getD 0) - distToRoot t len (s.getLast?.getD 0)

def keyLt (t : Table) (len : Int → Int → Nat) (y x : List Int) : Bool :=
  decide (dkey t len x < dkey t len y) || (dkey t len x == dkey t len y && !lexLt y x)

theorem finish_eq (t : Table) (len : Int → Int → Nat) (seqs : List (List Int)) :
    finish t len seqs = sortBy (keyLt t len) seqs ++
      (t.filter fun n => ((idEdges t).filter fun e => e.1 == n.id || e.2 == n.id).isEmpty).map fun n => [n.id] := rfl

theorem dist_telescope {t : Table} (hw : WF t) (len : Int → Int → Nat) : ∀ (s : List Int), isParentPath t s = true →
    distToRoot t len (s.head?.getD 0) = pathLen len s + distToRoot t len (s.getLast?.getD 0)
  | [], h => by simp [isParentPath] at h
  | [a], _ => by simp [pathLen]
  | a :: b :: rest, h => by
    simp only [isParentPath, Bool.and_eq_true] at h
    obtain ⟨n, h1, h2, h3⟩ := (adjacent_iff t a b).mp h.1
    have hn := find?_some h1
    have hd := distToRoot_parent hw len hn.1 (by omega)
    rw [hn.2, h3] at hd
    have ih := dist_telescope hw len (b :: rest) h.2
    simp only [List.head?_cons, Option.getD_some] at ih ⊢
    rw [List.getLast?_cons_cons, pathLen_cons_cons, hd, ih]
    omega

theorem dkey_eq {t : Table} (hw : WF t) (len : Int → Int → Nat) {s : List Int} (h : isParentPath t s = true) :
    dkey t len s = pathLen len s := by
  unfold dkey
  rw [dist_telescope hw len s h]; omega

theorem insertBy_congr {α} {lt1 lt2 : α → α → Bool} (x : α) :
    ∀ (l : List α), (∀ y ∈ l, lt1 y x = lt2 y x) → insertBy lt1 x l = insertBy lt2 x l
  | [], _ => rfl
  | y :: ys, h => by
    have ih := insertBy_congr (lt1 := lt1) (lt2 := lt2) x ys (fun z hz => h z (List.mem_cons_of_mem _ hz))
    show (if lt1 y x then y :: insertBy lt1 x ys else x :: y :: ys) = (if lt2 y x then y :: insertBy lt2 x ys else x :: y :: ys)
    rw [h y List.mem_cons_self, ih]

theorem sortBy_congr {α} {lt1 lt2 : α → α → Bool} :
    ∀ (l : List α), (∀ y ∈ l, ∀ x ∈ l, lt1 y x = lt2 y x) → sortBy lt1 l = sortBy lt2 l
  | [], _ => rfl
  | x :: xs, h => by
    have ih := sortBy_congr (lt1 := lt1) (lt2 := lt2) xs
      (fun y hy z hz => h y (List.mem_cons_of_mem _ hy) z (List.mem_cons_of_mem _ hz))
    show insertBy lt1 x (sortBy lt1 xs) = insertBy lt2 x (sortBy lt2 xs)
    rw [ih]
    apply insertBy_congr
    intro y hy
    rw [mem_sortBy] at hy
    exact h y (List.mem_cons_of_mem _ hy) x List.mem_cons_self

theorem finish_eq_segLt {t : Table} (hw : WF t) (len : Int → Int → Nat) (X : List (List Int))
    (hpp : ∀ s ∈ X, isParentPath t s = true) :
    finish t len X = sortBy (segLt len) X ++ (isolatedIds t).map fun i => [i] := by
  rw [finish_eq, isolated_eq hw]
  congr 1
  · apply sortBy_congr
    intro y hy x hx
    unfold keyLt segLt
    rw [dkey_eq hw len (hpp y hy), dkey_eq hw len (hpp x hx)]
  · unfold isolatedIds
    rw [List.map_map]; rfl

/-- Parent paths that partition the edges, sorted longest first, then the isolated nodes, pass the C05 checker. -/
theorem segs_ok_of {t : Table} (len : Int → Int → Nat) (X : List (List Int))
    (hpp : ∀ s ∈ X, isParentPath t s = true ∧ s.length > 1)
    (hperm : (X.flatMap fun s => s.dropLast).Perm ((t.filter fun n => !isRootNode n).map (·.id))) :
    segmentsOKB t len (sortBy (segLt len) X ++ (isolatedIds t).map fun i => [i]) = true := by
  have hlong : ((sortBy (segLt len) X ++ (isolatedIds t).map fun i => [i]).filter fun s => s.length > 1) =
      sortBy (segLt len) X := by
    rw [List.filter_append]
    have h1 : ((sortBy (segLt len) X).filter fun s => s.length > 1) = sortBy (segLt len) X := by
      rw [List.filter_eq_self]
      intro s hs
      rw [mem_sortBy] at hs
      simpa using (hpp s hs).2
    have h2 : (((isolatedIds t).map fun i => [i]).filter fun s => s.length > 1) = [] := by
      rw [List.filter_eq_nil_iff]
      intro s hs
      obtain ⟨i, _, rfl⟩ := List.mem_map.mp hs
      simp
    rw [h1, h2, List.append_nil]
  have hsingle : ((sortBy (segLt len) X ++ (isolatedIds t).map fun i => [i]).filter fun s => s.length == 1) =
      (isolatedIds t).map fun i => [i] := by
    rw [List.filter_append]
    have h1 : ((sortBy (segLt len) X).filter fun s => s.length == 1) = [] := by
      rw [List.filter_eq_nil_iff]
      intro s hs
      rw [mem_sortBy] at hs
      have := (hpp s hs).2
      simp; omega
    have h2 : (((isolatedIds t).map fun i => [i]).filter fun s => s.length == 1) = (isolatedIds t).map fun i => [i] := by
      rw [List.filter_eq_self]
      intro s hs
      obtain ⟨i, _, rfl⟩ := List.mem_map.mp hs
      simp
    rw [h1, h2, List.nil_append]
  unfold segmentsOKB
  simp only [Bool.and_eq_true, List.all_eq_true, beq_iff_eq]
  refine ⟨⟨⟨?_, ?_⟩, ?_⟩, ?_⟩
  · intro s hs
    rcases List.mem_append.mp hs with h | h
    · rw [mem_sortBy] at h
      exact (hpp s h).1
    · obtain ⟨i, _, rfl⟩ := List.mem_map.mp h
      rfl
  · apply coversEdgesOnce_of_perm
    rw [hlong]
    exact ((sortBy_perm _ _).flatMap_right _).trans hperm
  · apply nonIncreasing_of_pairwise
    rw [List.map_append, List.pairwise_append]
    refine ⟨List.pairwise_map.mpr (sortBy_segLt_pairwise len _), ?_, ?_⟩
    · rw [List.map_map]
      apply List.pairwise_map.mpr
      apply List.pairwise_of_forall
      intro x y
      show pathLen len [y] ≤ _
      rw [pathLen_single]; exact Nat.zero_le _
    · intro a _ b hb
      rw [List.map_map] at hb
      obtain ⟨i, _, rfl⟩ := List.mem_map.mp hb
      show pathLen len [i] ≤ _
      rw [pathLen_single]; exact Nat.zero_le _
  · rw [hsingle, flatten_map_singleton]; rfl

/-- B4: the networkx variant of `_generate_segments` succeeds and its result passes the C05 checker. -/
theorem genNx_ok (t : Table) (hw : WF t) (hl : labelsOKB t = true) (len : Int → Int → Nat) :
    ∃ segs, genNx t len = some segs ∧ segmentsOKB t len segs = true := by
  obtain ⟨hpp, hperm⟩ := greedySeqs_spec_perm hw (sortedEnds t len) (sortedEnds_perm hl len)
  have hfil : ((greedySeqs t (sortedEnds t len)).filter fun s => s.length > 1) = greedySeqs t (sortedEnds t len) := by
    rw [List.filter_eq_self]
    intro s hs; simpa using (hpp s hs).2
  refine ⟨finish t len (greedySeqs t (sortedEnds t len)), ?_, ?_⟩
  · unfold genNx
    rw [seqsId_eq_greedy hw, hfil]; rfl
  · rw [finish_eq_segLt hw len _ (fun s hs => (hpp s hs).1)]
    exact segs_ok_of len _ hpp hperm

end Navis.SegVar
