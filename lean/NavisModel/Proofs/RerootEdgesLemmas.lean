import NavisModel.Proofs.RerootLemmas
import NavisModel.Proofs.WfB
/-!
Edge-level facts about `reroot` and `cut` (C10): the new root, untouched rows, the undirected edge
set, child counts / labels after the incremental relabel, and the edge partition of a cut.
Core Lean only.
-/
namespace Navis.Forest

/-! ### rows and links -/

/-- The `(id, parent)` column pair: everything the topology depends on. -/
def links (t : Table) : List (Int × Int) := t.map fun n => (n.id, n.parent)

/-- What `rerootParents` does to one row. -/
def rrow (r : Int) (path : List Int) (n : Node) : Node :=
  if n.id = r then { n with parent := -1 }
  else match predOnPath path n.id with
    | some p => { n with parent := p }
    | none => n

theorem rerootParents_eq_map (t : Table) (r : Int) (path : List Int) :
    rerootParents t r path = t.map (rrow r path) := rfl

/-- The incremental relabel of `reroot` on one row. -/
def relabelRow (r oldRoot : Int) (c : Nat) (n : Node) : Node :=
  if n.id = r then { n with label := .root }
  else if n.id = oldRoot then { n with label := labelOf c false }
  else n

@[simp] theorem rrow_id (r : Int) (path : List Int) (n : Node) : (rrow r path n).id = n.id := by
  unfold rrow; split
  · rfl
  · split <;> rfl

@[simp] theorem rrow_x (r : Int) (path : List Int) (n : Node) : (rrow r path n).x = n.x := by
  unfold rrow; split
  · rfl
  · split <;> rfl

@[simp] theorem rrow_y (r : Int) (path : List Int) (n : Node) : (rrow r path n).y = n.y := by
  unfold rrow; split
  · rfl
  · split <;> rfl

@[simp] theorem rrow_z (r : Int) (path : List Int) (n : Node) : (rrow r path n).z = n.z := by
  unfold rrow; split
  · rfl
  · split <;> rfl

@[simp] theorem rrow_label (r : Int) (path : List Int) (n : Node) : (rrow r path n).label = n.label := by
  unfold rrow; split
  · rfl
  · split <;> rfl

theorem rrow_parent_self {r : Int} {path : List Int} {n : Node} (h : n.id = r) : (rrow r path n).parent = -1 := by
  unfold rrow; rw [if_pos h]

@[simp] theorem relabelRow_id (r o : Int) (c : Nat) (n : Node) : (relabelRow r o c n).id = n.id := by
  unfold relabelRow; split
  · rfl
  · split <;> rfl

@[simp] theorem relabelRow_parent (r o : Int) (c : Nat) (n : Node) : (relabelRow r o c n).parent = n.parent := by
  unfold relabelRow; split
  · rfl
  · split <;> rfl

@[simp] theorem relabelRow_x (r o : Int) (c : Nat) (n : Node) : (relabelRow r o c n).x = n.x := by
  unfold relabelRow; split
  · rfl
  · split <;> rfl

@[simp] theorem relabelRow_y (r o : Int) (c : Nat) (n : Node) : (relabelRow r o c n).y = n.y := by
  unfold relabelRow; split
  · rfl
  · split <;> rfl

@[simp] theorem relabelRow_z (r o : Int) (c : Nat) (n : Node) : (relabelRow r o c n).z = n.z := by
  unfold relabelRow; split
  · rfl
  · split <;> rfl

/-- `reroot` is either a no-op (absent target / target already a root) or the path reversal followed
by the incremental relabel. -/
theorem reroot_cases (t : Table) (r : Int) :
    reroot t r = t ∨
    ∃ nr, find? t r = some nr ∧ ¬ nr.parent < 0 ∧
      reroot t r = (rerootParents t r (rootPath t r)).map
        (relabelRow r ((rootPath t r).getLast?.getD r)
          (childCount (rerootParents t r (rootPath t r)) ((rootPath t r).getLast?.getD r))) := by
  unfold reroot
  cases hf : find? t r with
  | none => exact Or.inl rfl
  | some nr =>
    simp only
    split
    · exact Or.inl rfl
    · rename_i hp
      exact Or.inr ⟨nr, rfl, hp, rfl⟩

theorem links_map_relabelRow (t : Table) (r o : Int) (c : Nat) : links (t.map (relabelRow r o c)) = links t := by
  unfold links
  rw [List.map_map]
  apply List.map_congr_left
  intro n _
  simp

/-- Link-level form of `reroot_cases`. -/
theorem reroot_links_cases (t : Table) (r : Int) :
    reroot t r = t ∨
    ∃ nr, find? t r = some nr ∧ ¬ nr.parent < 0 ∧
      links (reroot t r) = links (rerootParents t r (rootPath t r)) := by
  rcases reroot_cases t r with h | ⟨nr, h1, h2, h3⟩
  · exact Or.inl h
  · exact Or.inr ⟨nr, h1, h2, by rw [h3, links_map_relabelRow]⟩

theorem edges_eq_links (t : Table) : edges t = (links t).filter (fun e => !decide (e.2 < 0)) := by
  unfold edges links isRootNode
  rw [List.filter_map]
  rfl

theorem edges_congr {t u : Table} (h : links u = links t) : edges u = edges t := by
  rw [edges_eq_links, edges_eq_links, h]

theorem uedges_congr {t u : Table} (h : links u = links t) : uedges u = uedges t := by
  unfold uedges; rw [edges_congr h]

theorem parents_eq_links (t : Table) : parents t = (links t).map (·.2) := by
  unfold parents links; rw [List.map_map]; rfl

theorem childCount_congr {t u : Table} (h : links u = links t) (i : Int) : childCount u i = childCount t i := by
  rw [← count_parents_eq_childCount, ← count_parents_eq_childCount, parents_eq_links, parents_eq_links, h]

theorem mem_edges {t : Table} {e : Int × Int} :
    e ∈ edges t ↔ ∃ n ∈ t, ¬ n.parent < 0 ∧ e = (n.id, n.parent) := by
  unfold edges isRootNode
  simp only [List.mem_map, List.mem_filter, Bool.not_eq_true', decide_eq_false_iff_not]
  constructor
  · rintro ⟨n, ⟨h1, h2⟩, rfl⟩; exact ⟨n, h1, h2, rfl⟩
  · rintro ⟨n, h1, h2, rfl⟩; exact ⟨n, ⟨h1, h2⟩, rfl⟩

theorem mem_uedges {t : Table} {e : Int × Int} :
    e ∈ uedges t ↔ ∃ n ∈ t, ¬ n.parent < 0 ∧ e = uedge n.id n.parent := by
  unfold uedges
  simp only [List.mem_map, mem_edges]
  constructor
  · rintro ⟨_, ⟨n, h1, h2, rfl⟩, rfl⟩; exact ⟨n, h1, h2, rfl⟩
  · rintro ⟨n, h1, h2, rfl⟩; exact ⟨_, ⟨n, h1, h2, rfl⟩, rfl⟩

/-! ### new root, coordinates, untouched rows -/

theorem rootPath_head_mem {t : Table} {r : Int} (hr : r ∈ ids t) : r ∈ rootPath t r := by
  have := pathToRoot_head t t.length r hr
  unfold rootPath
  cases hp : pathToRoot t (t.length + 1) r with
  | nil => rw [hp] at this; simp at this
  | cons a l => rw [hp] at this; simp at this; simp [this]

/-- The requested node is a root of the result. -/
theorem reroot_new_root' (t : Table) (r : Int) (hr : r ∈ ids t) : ∃ n ∈ reroot t r, n.id = r ∧ n.parent < 0 := by
  cases hf : find? t r with
  | none => exact absurd hr (find?_none hf)
  | some nr =>
    have hn := find?_some hf
    rcases reroot_cases t r with h | ⟨nr', h1, _, h3⟩
    · by_cases hp : nr.parent < 0
      · rw [h]; exact ⟨nr, hn.1, hn.2, hp⟩
      · -- not a no-op
        unfold reroot
        rw [hf]; simp only [if_neg hp]
        refine ⟨relabelRow r ((rootPath t r).getLast?.getD r)
          (childCount (rerootParents t r (rootPath t r)) ((rootPath t r).getLast?.getD r)) (rrow r (rootPath t r) nr),
          List.mem_map.mpr ⟨_, List.mem_map.mpr ⟨nr, hn.1, rfl⟩, rfl⟩, by simp [hn.2], ?_⟩
        rw [relabelRow_parent, rrow_parent_self hn.2]; decide
    · rw [h3]
      refine ⟨relabelRow r _ _ (rrow r (rootPath t r) nr),
        List.mem_map.mpr ⟨_, List.mem_map.mpr ⟨nr, hn.1, rfl⟩, rfl⟩, by simp [hn.2], ?_⟩
      rw [relabelRow_parent, rrow_parent_self hn.2]; decide

/-- Ids and coordinates stay in place, row by row. -/
theorem reroot_coords (t : Table) (r : Int) :
    (reroot t r).map (fun n => (n.id, n.x, n.y, n.z)) = t.map (fun n => (n.id, n.x, n.y, n.z)) := by
  rcases reroot_cases t r with h | ⟨nr, _, _, h3⟩
  · rw [h]
  · rw [h3, rerootParents_eq_map, List.map_map, List.map_map]
    apply List.map_congr_left
    intro n _
    simp

theorem predOnPath_mem_tail {path : List Int} {i a : Int} (h : predOnPath path i = some a) : i ∈ path.tail := by
  cases hn : predOnPath path i with
  | none => rw [hn] at h; simp at h
  | some b =>
    induction path with
    | nil => simp [predOnPath] at hn
    | cons x rest ih =>
      cases rest with
      | nil => simp [predOnPath] at hn
      | cons y rest' =>
        unfold predOnPath at hn h
        by_cases hy : y = i
        · simp [hy]
        · rw [if_neg hy] at hn h
          have := ih h hn
          simp only [List.tail_cons] at this ⊢
          exact List.mem_cons_of_mem _ this

theorem predOnPath_of_mem_tail {path : List Int} {i : Int} (h : i ∈ path.tail) : ∃ a, predOnPath path i = some a := by
  cases hn : predOnPath path i with
  | none => exact absurd h (predOnPath_none hn)
  | some a => exact ⟨a, rfl⟩

theorem rrow_off_path {r : Int} {path : List Int} {n : Node} (hr : r ∈ path) (hn : n.id ∉ path) :
    rrow r path n = n := by
  unfold rrow
  have h1 : n.id ≠ r := fun h => hn (h ▸ hr)
  rw [if_neg h1]
  cases hp : predOnPath path n.id with
  | none => rfl
  | some a => exact absurd (List.mem_of_mem_tail (predOnPath_mem_tail hp)) hn

/-- Rows whose node is not on the reversed path are left completely alone (parent, label, …). -/
theorem reroot_off_path (t : Table) (r : Int) (n : Node) (hn : n ∈ t) (hoff : n.id ∉ rootPath t r) :
    n ∈ reroot t r := by
  rcases reroot_cases t r with h | ⟨nr, h1, _, h3⟩
  · rw [h]; exact hn
  · have hr : r ∈ ids t := mem_ids.mpr ⟨nr, find?_some h1⟩
    have hrp := rootPath_head_mem hr
    rw [h3, rerootParents_eq_map]
    refine List.mem_map.mpr ⟨n, List.mem_map.mpr ⟨n, hn, rrow_off_path hrp hoff⟩, ?_⟩
    unfold relabelRow
    have h1 : n.id ≠ r := fun h => hoff (h ▸ hrp)
    rw [if_neg h1]
    have h2 : n.id ≠ (rootPath t r).getLast?.getD r := by
      intro h
      apply hoff
      cases hl : (rootPath t r).getLast? with
      | none => rw [hl] at h; exact absurd h h1
      | some o => rw [hl] at h; simp at h; rw [h]; exact List.mem_of_getLast? hl
    rw [if_neg h2]

end Navis.Forest
