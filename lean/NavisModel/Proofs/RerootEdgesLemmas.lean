import NavisModel.Proofs.RerootLemmas
import NavisModel.Proofs.WfB
/-!
Edge-level facts about `reroot` and `cut` (C10): the new root, untouched rows, the undirected edge
set, child counts / labels after the incremental relabel, and the edge partition of a cut.
Core Lean only.
-/
namespace Navis.Forest

/-! ### rows and links -/

/-- The `(id, parent)` column pair: everything the topology depends on. -/
def links (t : Table) : List (Int × Int) := t.map fun n => (n.id, n.parent)

/-- What `rerootParents` does to one row. -/
def rrow (r : Int) (path : List Int) (n : Node) : Node :=
  if n.id = r then { n with parent := -1 }
  else match predOnPath path n.id with
    | some p => { n with parent := p }
    | none => n

theorem rerootParents_eq_map (t : Table) (r : Int) (path : List Int) :
    rerootParents t r path = t.map (rrow r path) := rfl

/-- The incremental relabel of `reroot` on one row. -/
def relabelRow (r oldRoot : Int) (c : Nat) (n : Node) : Node :=
  if n.id = r then { n with label := .root }
  else if n.id = oldRoot then { n with label := labelOf c false }
  else n

@[simp] theorem rrow_id (r : Int) (path : List Int) (n : Node) : (rrow r path n).id = n.id := by
  unfold rrow; split
  · rfl
  · split <;> rfl

@[simp] theorem rrow_x (r : Int) (path : List Int) (n : Node) : (rrow r path n).x = n.x := by
  unfold rrow; split
  · rfl
  · split <;> rfl

@[simp] theorem rrow_y (r : Int) (path : List Int) (n : Node) : (rrow r path n).y = n.y := by
  unfold rrow; split
  · rfl
  · split <;> rfl

@[simp] theorem rrow_z (r : Int) (path : List Int) (n : Node) : (rrow r path n).z = n.z := by
  unfold rrow; split
  · rfl
  · split <;> rfl

@[simp] theorem rrow_label (r : Int) (path : List Int) (n : Node) : (rrow r path n).label = n.label := by
  unfold rrow; split
  · rfl
  · split <;> rfl

theorem rrow_parent_self {r : Int} {path : List Int} {n : Node} (h : n.id = r) : (rrow r path n).parent = -1 := by
  unfold rrow; rw [if_pos h]

@[simp] theorem relabelRow_id (r o : Int) (c : Nat) (n : Node) : (relabelRow r o c n).id = n.id := by
  unfold relabelRow; split
  · rfl
  · split <;> rfl

@[simp] theorem relabelRow_parent (r o : Int) (c : Nat) (n : Node) : (relabelRow r o c n).parent = n.parent := by
  unfold relabelRow; split
  · rfl
  · split <;> rfl

@[simp] theorem relabelRow_x (r o : Int) (c : Nat) (n : Node) : (relabelRow r o c n).x = n.x := by
  unfold relabelRow; split
  · rfl
  · split <;> rfl

@[simp] theorem relabelRow_y (r o : Int) (c : Nat) (n : Node) : (relabelRow r o c n).y = n.y := by
  unfold relabelRow; split
  · rfl
  · split <;> rfl

@[simp] theorem relabelRow_z (r o : Int) (c : Nat) (n : Node) : (relabelRow r o c n).z = n.z := by
  unfold relabelRow; split
  · rfl
  · split <;> rfl

/-- `reroot` is either a no-op (absent target / target already a root) or the path reversal followed
by the incremental relabel. -/
theorem reroot_cases (t : Table) (r : Int) :
    reroot t r = t ∨
    ∃ nr, find? t r = some nr ∧ ¬ nr.parent < 0 ∧
      reroot t r = (rerootParents t r (rootPath t r)).map
        (relabelRow r ((rootPath t r).getLast?.getD r)
          (childCount (rerootParents t r (rootPath t r)) ((rootPath t r).getLast?.getD r))) := by
  unfold reroot
  cases hf : find? t r with
  | none => exact Or.inl rfl
  | some nr =>
    simp only
    split
    · exact Or.inl rfl
    · rename_i hp
      exact Or.inr ⟨nr, rfl, hp, rfl⟩

theorem links_map_relabelRow (t : Table) (r o : Int) (c : Nat) : links (t.map (relabelRow r o c)) = links t := by
  unfold links
  rw [List.map_map]
  apply List.map_congr_left
  intro n _
  simp

/-- Link-level form of `reroot_cases`. -/
theorem reroot_links_cases (t : Table) (r : Int) :
    reroot t r = t ∨
    ∃ nr, find? t r = some nr ∧ ¬ nr.parent < 0 ∧
      links (reroot t r) = links (rerootParents t r (rootPath t r)) := by
  rcases reroot_cases t r with h | ⟨nr, h1, h2, h3⟩
  · exact Or.inl h
  · exact Or.inr ⟨nr, h1, h2, by rw [h3, links_map_relabelRow]⟩

theorem edges_eq_links (t : Table) : edges t = (links t).filter (fun e => !decide (e.2 < 0)) := by
  unfold edges links isRootNode
  rw [List.filter_map]
  rfl

theorem edges_congr {t u : Table} (h : links u = links t) : edges u = edges t := by
  rw [edges_eq_links, edges_eq_links, h]

theorem uedges_congr {t u : Table} (h : links u = links t) : uedges u = uedges t := by
  unfold uedges; rw [edges_congr h]

theorem parents_eq_links (t : Table) : parents t = (links t).map (·.2) := by
  unfold parents links; rw [List.map_map]; rfl

theorem childCount_congr {t u : Table} (h : links u = links t) (i : Int) : childCount u i = childCount t i := by
  rw [← count_parents_eq_childCount, ← count_parents_eq_childCount, parents_eq_links, parents_eq_links, h]

theorem mem_edges {t : Table} {e : Int × Int} :
    e ∈ edges t ↔ ∃ n ∈ t, ¬ n.parent < 0 ∧ e = (n.id, n.parent) := by
  unfold edges isRootNode
  simp only [List.mem_map, List.mem_filter, Bool.not_eq_true', decide_eq_false_iff_not]
  constructor
  · rintro ⟨n, ⟨h1, h2⟩, rfl⟩; exact ⟨n, h1, h2, rfl⟩
  · rintro ⟨n, h1, h2, rfl⟩; exact ⟨n, ⟨h1, h2⟩, rfl⟩

theorem mem_uedges {t : Table} {e : Int × Int} :
    e ∈ uedges t ↔ ∃ n ∈ t, ¬ n.parent < 0 ∧ e = uedge n.id n.parent := by
  unfold uedges
  simp only [List.mem_map, mem_edges]
  constructor
  · rintro ⟨_, ⟨n, h1, h2, rfl⟩, rfl⟩; exact ⟨n, h1, h2, rfl⟩
  · rintro ⟨n, h1, h2, rfl⟩; exact ⟨_, ⟨n, h1, h2, rfl⟩, rfl⟩

/-! ### new root, coordinates, untouched rows -/

theorem rootPath_head_mem {t : Table} {r : Int} (hr : r ∈ ids t) : r ∈ rootPath t r := by
  have := pathToRoot_head t t.length r hr
  unfold rootPath
  cases hp : pathToRoot t (t.length + 1) r with
  | nil => rw [hp] at this; simp at this
  | cons a l => rw [hp] at this; simp at this; simp [this]

/-- The requested node is a root of the result. -/
theorem reroot_new_root' (t : Table) (r : Int) (hr : r ∈ ids t) : ∃ n ∈ reroot t r, n.id = r ∧ n.parent < 0 := by
  cases hf : find? t r with
  | none => exact absurd hr (find?_none hf)
  | some nr =>
    have hn := find?_some hf
    rcases reroot_cases t r with h | ⟨nr', h1, _, h3⟩
    · by_cases hp : nr.parent < 0
      · rw [h]; exact ⟨nr, hn.1, hn.2, hp⟩
      · -- not a no-op
        unfold reroot
        rw [hf]; simp only [if_neg hp]
        refine ⟨relabelRow r ((rootPath t r).getLast?.getD r)
          (childCount (rerootParents t r (rootPath t r)) ((rootPath t r).getLast?.getD r)) (rrow r (rootPath t r) nr),
          List.mem_map.mpr ⟨_, List.mem_map.mpr ⟨nr, hn.1, rfl⟩, rfl⟩, by simp [hn.2], ?_⟩
        rw [relabelRow_parent, rrow_parent_self hn.2]; decide
    · rw [h3]
      refine ⟨relabelRow r _ _ (rrow r (rootPath t r) nr),
        List.mem_map.mpr ⟨_, List.mem_map.mpr ⟨nr, hn.1, rfl⟩, rfl⟩, by simp [hn.2], ?_⟩
      rw [relabelRow_parent, rrow_parent_self hn.2]; decide

/-- Ids and coordinates stay in place, row by row. -/
theorem reroot_coords (t : Table) (r : Int) :
    (reroot t r).map (fun n => (n.id, n.x, n.y, n.z)) = t.map (fun n => (n.id, n.x, n.y, n.z)) := by
  rcases reroot_cases t r with h | ⟨nr, _, _, h3⟩
  · rw [h]
  · rw [h3, rerootParents_eq_map, List.map_map, List.map_map]
    apply List.map_congr_left
    intro n _
    simp

theorem predOnPath_mem_tail {path : List Int} {i a : Int} (h : predOnPath path i = some a) : i ∈ path.tail := by
  cases hn : predOnPath path i with
  | none => rw [hn] at h; simp at h
  | some b =>
    induction path with
    | nil => simp [predOnPath] at hn
    | cons x rest ih =>
      cases rest with
      | nil => simp [predOnPath] at hn
      | cons y rest' =>
        unfold predOnPath at hn h
        by_cases hy : y = i
        · simp [hy]
        · rw [if_neg hy] at hn h
          have := ih h hn
          simp only [List.tail_cons] at this ⊢
          exact List.mem_cons_of_mem _ this

theorem predOnPath_of_mem_tail {path : List Int} {i : Int} (h : i ∈ path.tail) : ∃ a, predOnPath path i = some a := by
  cases hn : predOnPath path i with
  | none => exact absurd h (predOnPath_none hn)
  | some a => exact ⟨a, rfl⟩

theorem rrow_off_path {r : Int} {path : List Int} {n : Node} (hr : r ∈ path) (hn : n.id ∉ path) :
    rrow r path n = n := by
  unfold rrow
  have h1 : n.id ≠ r := fun h => hn (h ▸ hr)
  rw [if_neg h1]
  cases hp : predOnPath path n.id with
  | none => rfl
  | some a => exact absurd (List.mem_of_mem_tail (predOnPath_mem_tail hp)) hn

/-- Rows whose node is not on the reversed path are left completely alone (parent, label, …). -/
theorem reroot_off_path (t : Table) (r : Int) (n : Node) (hn : n ∈ t) (hoff : n.id ∉ rootPath t r) :
    n ∈ reroot t r := by
  rcases reroot_cases t r with h | ⟨nr, h1, _, h3⟩
  · rw [h]; exact hn
  · have hr : r ∈ ids t := mem_ids.mpr ⟨nr, find?_some h1⟩
    have hrp := rootPath_head_mem hr
    rw [h3, rerootParents_eq_map]
    refine List.mem_map.mpr ⟨n, List.mem_map.mpr ⟨n, hn, rrow_off_path hrp hoff⟩, ?_⟩
    unfold relabelRow
    have h1 : n.id ≠ r := fun h => hoff (h ▸ hrp)
    rw [if_neg h1]
    have h2 : n.id ≠ (rootPath t r).getLast?.getD r := by
      intro h
      apply hoff
      cases hl : (rootPath t r).getLast? with
      | none => rw [hl] at h; exact absurd h h1
      | some o => rw [hl] at h; simp at h; rw [h]; exact List.mem_of_getLast? hl
    rw [if_neg h2]

/-! ### root paths in a well-formed forest: recursion equations, induction, suffixes -/

theorem rootPath_absent {t : Table} {i : Int} (h : find? t i = none) : rootPath t i = [] := by
  unfold rootPath pathToRoot; rw [h]

theorem rootPath_of_root {t : Table} {i : Int} {n : Node} (h : find? t i = some n) (hp : n.parent < 0) :
    rootPath t i = [i] := by
  unfold rootPath pathToRoot; rw [h]; simp [hp]

/-- In a well-formed forest the fuel never runs out: the root path of a non-root is the node followed
by the root path of its parent. -/
theorem rootPath_of_nonroot {t : Table} (hw : WF t) {i : Int} {n : Node} (h : find? t i = some n)
    (hp : ¬ n.parent < 0) : rootPath t i = i :: rootPath t n.parent := by
  have hn := find?_some h
  have hb := wfB_complete hw
  unfold wfB at hb
  simp only [Bool.and_eq_true, List.all_eq_true] at hb
  have h4 := hb.2 n hn.1
  rw [hn.2] at h4
  have hr := reachesRoot_parent h hp h4
  have e2 : rootPath t n.parent = pathToRoot t t.length n.parent := by
    unfold rootPath; exact pathToRoot_fuel_succ t _ _ hr
  rw [e2]
  unfold rootPath
  rw [pathToRoot, h]; simp [hp]

/-- Induction from the roots outward. -/
theorem WF_induct {t : Table} (hw : WF t) (P : Int → Prop)
    (h : ∀ n ∈ t, (n.parent < 0 ∨ P n.parent) → P n.id) : ∀ i ∈ ids t, P i := by
  obtain ⟨_, _, rk, hrk⟩ := hw
  have key : ∀ k i, rk i < k → i ∈ ids t → P i := by
    intro k
    induction k with
    | zero => intro i hi; omega
    | succ k ih =>
      intro i hi him
      obtain ⟨n, hn, rfl⟩ := mem_ids.mp him
      apply h n hn
      rcases hrk n hn with hp | ⟨hp1, hp2⟩
      · exact Or.inl hp
      · exact Or.inr (ih _ (by omega) hp1)
  intro i hi
  exact key (rk i + 1) i (by omega) hi

/-- The root path of a node on a root path is a suffix of it. -/
theorem rootPath_suffix {t : Table} (hw : WF t) (i : Int) (hi : i ∈ ids t) :
    ∀ a ∈ rootPath t i, rootPath t a <:+ rootPath t i := by
  refine WF_induct hw (fun i => ∀ a ∈ rootPath t i, rootPath t a <:+ rootPath t i) ?_ i hi
  intro n hn hcase a ha
  have hf := find?_of_mem hw.1 hn
  by_cases hp : n.parent < 0
  · rw [rootPath_of_root hf hp] at ha
    simp at ha; rw [ha]; exact List.suffix_refl _
  · rw [rootPath_of_nonroot hw hf hp] at ha ⊢
    rcases List.mem_cons.mp ha with h | h
    · rw [h, rootPath_of_nonroot hw hf hp]; exact List.suffix_refl _
    · rcases hcase with hc | hc
      · exact absurd hc hp
      · exact List.IsSuffix.trans (hc a h) (List.suffix_cons _ _)

/-- Every node on a root path belongs to the same tree (has the same root). -/
theorem rootOf_of_mem_rootPath {t : Table} (hw : WF t) {i a : Int} (ha : a ∈ rootPath t i) :
    rootOf t a = rootOf t i := by
  have hi : i ∈ ids t := by
    cases hf : find? t i with
    | none => rw [rootPath_absent hf] at ha; simp at ha
    | some n => exact mem_ids.mpr ⟨n, find?_some hf⟩
  obtain ⟨pre, hpre⟩ := rootPath_suffix hw i hi a ha
  have haid : a ∈ ids t := pathToRoot_subset t _ i a ha
  obtain ⟨ro, _, hl, _, _⟩ := rootPath_ends hw a haid
  unfold rootOf
  rw [← hpre, List.getLast?_append, hl]; rfl

/-- Nodes of other trees are never on the reversed path. -/
theorem not_mem_rootPath_of_rootOf_ne {t : Table} (hw : WF t) {i a : Int} (h : rootOf t a ≠ rootOf t i) :
    a ∉ rootPath t i := fun ha => h (rootOf_of_mem_rootPath hw ha)

/-! ### the reversed path -/

theorem Linked_pred {t : Table} {path : List Int} (hl : Linked t path) {i a : Int} (h : predOnPath path i = some a) :
    ∃ q, find? t a = some q ∧ q.parent = i ∧ 0 ≤ i := by
  induction path with
  | nil => simp [predOnPath] at h
  | cons x rest ih =>
    cases rest with
    | nil => simp [predOnPath] at h
    | cons y rest' =>
      unfold Linked at hl
      obtain ⟨⟨n, hfn, hpn, hy0⟩, hl'⟩ := hl
      unfold predOnPath at h
      by_cases hy : y = i
      · rw [if_pos hy] at h
        simp only [Option.some.injEq] at h
        subst h; subst hy
        exact ⟨n, hfn, hpn, hy0⟩
      · rw [if_neg hy] at h
        exact ih hl' h

theorem Linked_succ {t : Table} {path : List Int} (hl : Linked t path) (hnd : path.Nodup) {i : Int} (hi : i ∈ path) :
    path.getLast? = some i ∨ ∃ n, find? t i = some n ∧ 0 ≤ n.parent ∧ predOnPath path n.parent = some i := by
  induction path with
  | nil => simp at hi
  | cons x rest ih =>
    cases rest with
    | nil => simp at hi; left; simp [hi]
    | cons y rest' =>
      unfold Linked at hl
      obtain ⟨⟨n, hfn, hpn, hy0⟩, hl'⟩ := hl
      rw [List.nodup_cons] at hnd
      rcases List.mem_cons.mp hi with h | h
      · right
        subst h
        refine ⟨n, hfn, by omega, ?_⟩
        unfold predOnPath
        rw [if_pos hpn.symm]
      · rcases ih hl' hnd.2 h with h1 | ⟨n', hf', h0', hp'⟩
        · left; rw [List.getLast?_cons_cons]; exact h1
        · right
          refine ⟨n', hf', h0', ?_⟩
          unfold predOnPath
          have hy : y ≠ n'.parent := by
            intro he
            have := predOnPath_mem_tail hp'
            rw [← he] at this
            simp only [List.tail_cons] at this
            exact (List.nodup_cons.mp hnd.2).1 this
          rw [if_neg hy]; exact hp'

/-- The facts about `rootPath t r` that the reroot proofs use. -/
structure RPath (t : Table) (r : Int) (path : List Int) : Prop where
  nodup : path.Nodup
  sub : ∀ a ∈ path, a ∈ ids t
  head : path.head? = some r
  linked : Linked t path
  last : ∃ ro n, path.getLast? = some ro ∧ find? t ro = some n ∧ n.parent < 0

theorem rootPath_RPath {t : Table} (hw : WF t) {r : Int} (hr : r ∈ ids t) : RPath t r (rootPath t r) :=
  ⟨pathToRoot_nodup hw _ r, pathToRoot_subset t _ r, pathToRoot_head t t.length r hr,
   pathToRoot_linked t _ r, rootPath_ends hw r hr⟩

namespace RPath
variable {t : Table} {r : Int} {path : List Int}

theorem head_mem (h : RPath t r path) : r ∈ path := by
  have := h.head
  cases path with
  | nil => simp at this
  | cons a l => simp at this; simp [this]

theorem r_not_tail (h : RPath t r path) : r ∉ path.tail := by
  have hh := h.head
  have hn := h.nodup
  cases path with
  | nil => simp
  | cons a l =>
    simp at hh; subst hh
    simp only [List.tail_cons]
    exact (List.nodup_cons.mp hn).1

theorem mem_iff (h : RPath t r path) {i : Int} : i ∈ path ↔ i = r ∨ i ∈ path.tail := by
  have hh := h.head
  cases path with
  | nil => simp at hh
  | cons a l => simp at hh; subst hh; simp

/-- A non-root node on the path is the predecessor (new parent) of its own parent. -/
theorem pred_parent (h : RPath t r path) (hw : WF t) {n : Node} (hn : n ∈ t) (hon : n.id ∈ path)
    (hp : ¬ n.parent < 0) : predOnPath path n.parent = some n.id := by
  have hf := find?_of_mem hw.1 hn
  rcases Linked_succ h.linked h.nodup hon with h1 | ⟨n', hf', _, hp'⟩
  · obtain ⟨ro, m, hl, hfm, hm⟩ := h.last
    rw [hl] at h1
    simp only [Option.some.injEq] at h1
    rw [h1, hf] at hfm
    simp only [Option.some.injEq] at hfm
    exact absurd (hfm ▸ hm) hp
  · rw [hf] at hf'
    simp only [Option.some.injEq] at hf'
    rw [← hf'] at hp'; exact hp'

/-- The only root on the path is its last element. -/
theorem last_of_root (h : RPath t r path) (hw : WF t) {n : Node} (hn : n ∈ t) (hon : n.id ∈ path)
    (hp : n.parent < 0) : path.getLast? = some n.id := by
  have hf := find?_of_mem hw.1 hn
  rcases Linked_succ h.linked h.nodup hon with h1 | ⟨n', hf', h0, _⟩
  · exact h1
  · rw [hf] at hf'
    simp only [Option.some.injEq] at hf'
    rw [← hf'] at h0; omega

/-- Row-level description of the reversal in a well-formed forest. -/
theorem rrow_cases (h : RPath t r path) (hw : WF t) {n : Node} (_hn : n ∈ t) :
    (n.id = r ∧ (rrow r path n).parent = -1) ∨
    (n.id ≠ r ∧ n.id ∈ path.tail ∧ ∃ q ∈ t, (rrow r path n).parent = q.id ∧ q.parent = n.id ∧ q.id ∈ path ∧ 0 ≤ q.id) ∨
    (n.id ∉ path ∧ rrow r path n = n) := by
  by_cases hr : n.id = r
  · exact Or.inl ⟨hr, rrow_parent_self hr⟩
  · right
    cases hp : predOnPath path n.id with
    | none =>
      right
      have hnot : n.id ∉ path := by
        rw [h.mem_iff]; rintro (h1 | h1)
        · exact hr h1
        · exact predOnPath_none hp h1
      exact ⟨hnot, rrow_off_path h.head_mem hnot⟩
    | some a =>
      left
      obtain ⟨q, hfq, hqp, _⟩ := Linked_pred h.linked hp
      have hq := find?_some hfq
      have ha := (predOnPath_some hp).1
      refine ⟨hr, predOnPath_mem_tail hp, q, hq.1, ?_, hqp, hq.2 ▸ ha, hw.2.1 q hq.1⟩
      unfold rrow
      rw [if_neg hr, hp, hq.2]

end RPath

/-! ### the undirected edge set -/

theorem uedge_comm (a b : Int) : uedge a b = uedge b a := by
  unfold uedge
  by_cases h1 : a ≤ b <;> by_cases h2 : b ≤ a <;> simp [h1, h2]
  · have : a = b := by omega
    simp [this]
  · omega

theorem uedge_eq_iff {a b c d : Int} : uedge a b = uedge c d ↔ (a = c ∧ b = d) ∨ (a = d ∧ b = c) := by
  unfold uedge
  by_cases h1 : a ≤ b <;> by_cases h2 : c ≤ d <;> simp [h1, h2] <;> omega

/-- In a well-formed forest no undirected edge occurs twice. -/
theorem Nodup_uedges {t : Table} (hw : WF t) : (uedges t).Nodup := by
  obtain ⟨hnd, _, rk, hrk⟩ := hw
  have h1 : t.Pairwise (fun a b => a.id ≠ b.id) := by
    unfold ids at hnd
    exact List.pairwise_map.mp hnd
  have h2 : (t.filter (fun n => !isRootNode n)).Pairwise (fun a b => a.id ≠ b.id) := h1.filter _
  unfold uedges edges
  rw [List.map_map]
  apply List.pairwise_map.mpr
  refine List.Pairwise.imp_of_mem ?_ h2
  intro a b ha hb hab heq
  have ha' := List.mem_filter.mp ha
  have hb' := List.mem_filter.mp hb
  have hpa : ¬ a.parent < 0 := by simpa [isRootNode] using ha'.2
  have hpb : ¬ b.parent < 0 := by simpa [isRootNode] using hb'.2
  simp only [Function.comp] at heq
  rcases uedge_eq_iff.mp heq with ⟨e1, _⟩ | ⟨e1, e2⟩
  · exact hab e1
  · rcases hrk a ha'.1 with h | ⟨_, h⟩
    · exact hpa h
    · rcases hrk b hb'.1 with h' | ⟨_, h'⟩
      · exact hpb h'
      · rw [e1, e2] at h; omega

theorem Nodup_edges {t : Table} (hnd : (ids t).Nodup) : (edges t).Nodup := by
  have h1 : t.Pairwise (fun a b => a.id ≠ b.id) := by
    unfold ids at hnd
    exact List.pairwise_map.mp hnd
  have h2 : (t.filter (fun n => !isRootNode n)).Pairwise (fun a b => a.id ≠ b.id) := h1.filter _
  unfold edges
  apply List.pairwise_map.mpr
  refine h2.imp ?_
  intro a b hab heq
  simp only [Prod.mk.injEq] at heq
  exact hab heq.1

/-- Path reversal keeps the undirected edge set (membership form). -/
theorem mem_uedges_rerootParents {t : Table} (hw : WF t) {r : Int} {path : List Int} (h : RPath t r path)
    (e : Int × Int) : e ∈ uedges (rerootParents t r path) ↔ e ∈ uedges t := by
  rw [mem_uedges, mem_uedges, rerootParents_eq_map]
  constructor
  · rintro ⟨m, hm, hmp, rfl⟩
    obtain ⟨n, hn, rfl⟩ := List.mem_map.mp hm
    rcases h.rrow_cases hw hn with ⟨_, h1⟩ | ⟨_, _, q, hq, h1, h2, _, h3⟩ | ⟨_, h1⟩
    · rw [h1] at hmp; exact absurd (by decide) hmp
    · refine ⟨q, hq, by rw [h2]; have := hw.2.1 n hn; omega, ?_⟩
      rw [h1, rrow_id, h2, uedge_comm]
    · rw [h1] at hmp ⊢; exact ⟨n, hn, hmp, rfl⟩
  · rintro ⟨n, hn, hnp, rfl⟩
    by_cases hon : n.id ∈ path
    · -- the edge n → parent(n) is reversed: it is now the edge parent(n) → n
      have hpred := h.pred_parent hw hn hon hnp
      have hpin : n.parent ∈ ids t := by
        rcases WF_parents hw n hn with hh | hh
        · exact absurd hh hnp
        · exact hh
      obtain ⟨q, hq, hqid⟩ := mem_ids.mp hpin
      have hqr : q.id ≠ r := by
        intro he
        have := predOnPath_mem_tail hpred
        rw [← hqid, he] at this
        exact h.r_not_tail this
      have hqpar : (rrow r path q).parent = n.id := by
        unfold rrow; rw [if_neg hqr, hqid, hpred]
      refine ⟨rrow r path q, List.mem_map.mpr ⟨q, hq, rfl⟩, ?_, ?_⟩
      · rw [hqpar]; have := hw.2.1 n hn; omega
      · rw [hqpar, rrow_id, hqid, uedge_comm]
    · exact ⟨rrow r path n, List.mem_map.mpr ⟨n, hn, rfl⟩, by rw [rrow_off_path h.head_mem hon]; exact hnp,
        by rw [rrow_off_path h.head_mem hon]⟩

/-- **Rerooting permutes the undirected edges** (so: same edge set, same number of edges). -/
theorem uedges_reroot_perm {t : Table} (hw : WF t) (r : Int) : (uedges (reroot t r)).Perm (uedges t) := by
  rcases reroot_links_cases t r with h | ⟨nr, h1, _, h3⟩
  · rw [h]
  · have hr : r ∈ ids t := mem_ids.mpr ⟨nr, find?_some h1⟩
    rw [uedges_congr h3]
    apply (List.perm_ext_iff_of_nodup (Nodup_uedges (WF_rerootParents hw r hr)) (Nodup_uedges hw)).mpr
    intro e
    exact mem_uedges_rerootParents hw (rootPath_RPath hw hr) e

/-! ### cut -/

theorem mem_distalSet {t : Table} {c i : Int} : i ∈ distalSet t c ↔ i ∈ ids t ∧ c ∈ rootPath t i := by
  unfold distalSet isAncestorOrSelf
  simp [List.mem_filter]

theorem mem_ids_cut_distal {t : Table} {c : Int} {d p : Table} (h : cut t c = some (d, p)) (i : Int) :
    i ∈ ids d ↔ i ∈ ids t ∧ c ∈ rootPath t i := by
  obtain ⟨rfl, _, _⟩ := cut_some h
  rw [ids_subset]
  simp only [List.mem_filter, List.contains_eq_mem, decide_eq_true_eq, mem_distalSet]
  constructor
  · rintro ⟨_, h2⟩; exact h2
  · rintro h2; exact ⟨h2.1, h2⟩

theorem mem_ids_cut_proximal {t : Table} {c : Int} {d p : Table} (h : cut t c = some (d, p)) (i : Int) :
    i ∈ ids p ↔ i ∈ ids t ∧ (c ∉ rootPath t i ∨ i = c) := by
  obtain ⟨_, rfl, _⟩ := cut_some h
  rw [ids_subset]
  simp only [List.mem_filter, List.contains_eq_mem, Bool.or_eq_true, Bool.not_eq_true', decide_eq_false_iff_not,
    beq_iff_eq, mem_distalSet]
  constructor
  · rintro ⟨h1, h2 | h2⟩
    · exact ⟨h1, Or.inl fun hc => h2 ⟨h1, hc⟩⟩
    · exact ⟨h1, Or.inr h2⟩
  · rintro ⟨h1, h2 | h2⟩
    · exact ⟨h1, Or.inl fun hc => h2 hc.2⟩
    · exact ⟨h1, Or.inr h2⟩

/-- Every surviving row of a subset, seen from the original table. -/
theorem subset_row_of_mem {t : Table} (hnd : (ids t).Nodup) (keep : Int → Bool) {n : Node} (hn : n ∈ t)
    (hk : keep n.id = true) :
    ∃ m ∈ subset t keep, m.id = n.id ∧ m.parent = (if n.parent ∈ (ids t).filter keep then n.parent else -1) := by
  have hid : n.id ∈ ids (subset t keep) := by
    rw [ids_subset]; exact List.mem_filter.mpr ⟨mem_ids_of_mem hn, hk⟩
  obtain ⟨m, hm, hmid⟩ := mem_ids.mp hid
  obtain ⟨n', hn', h1, _, _, _, _, h2⟩ := subset_parent hnd keep hm
  have hfn := find?_of_mem hnd hn
  have hfn' := find?_of_mem hnd hn'
  rw [h1, hmid, hfn] at hfn'
  simp only [Option.some.injEq] at hfn'
  subst hfn'
  exact ⟨m, hm, hmid, h2⟩

/-- Subsetting never invents an edge. -/
theorem edges_subset_sub {t : Table} (hnd : (ids t).Nodup) (keep : Int → Bool) {e : Int × Int}
    (he : e ∈ edges (subset t keep)) :
    ∃ n ∈ t, ¬ n.parent < 0 ∧ e = (n.id, n.parent) ∧ keep n.id = true ∧ n.parent ∈ (ids t).filter keep := by
  obtain ⟨m, hm, hmp, rfl⟩ := mem_edges.mp he
  obtain ⟨n, hn, h1, hk, _, _, _, h2⟩ := subset_parent hnd keep hm
  by_cases hc : n.parent ∈ (ids t).filter keep
  · rw [if_pos hc] at h2
    exact ⟨n, hn, h2 ▸ hmp, by rw [h1, h2], hk, hc⟩
  · rw [if_neg hc] at h2
    rw [h2] at hmp; exact absurd (by decide) hmp

theorem edges_subset_of {t : Table} (hnd : (ids t).Nodup) (keep : Int → Bool) {n : Node} (hn : n ∈ t)
    (hp : ¬ n.parent < 0) (hk : keep n.id = true) (hkp : n.parent ∈ (ids t).filter keep) :
    (n.id, n.parent) ∈ edges (subset t keep) := by
  obtain ⟨m, hm, h1, h2⟩ := subset_row_of_mem hnd keep hn hk
  rw [if_pos hkp] at h2
  exact mem_edges.mpr ⟨m, hm, h2 ▸ hp, by rw [h1, h2]⟩

/-- The cut node's parent is not distal to it (no cycle). -/
theorem parent_not_distal {t : Table} (hw : WF t) {n : Node} (hn : n ∈ t) (hp : ¬ n.parent < 0) :
    n.id ∉ rootPath t n.parent := by
  obtain ⟨_, _, rk, hrk⟩ := hw
  intro hmem
  have := (pathToRoot_ranks rk hrk (t.length + 1) n.parent).2 n.id hmem
  rcases hrk n hn with h | ⟨_, h⟩
  · exact hp h
  · omega

/-- For a non-root row other than the cut node: it is distal iff its parent is. -/
theorem distal_iff_parent {t : Table} (hw : WF t) {c : Int} {n : Node} (hn : n ∈ t) (hp : ¬ n.parent < 0)
    (hc : n.id ≠ c) : c ∈ rootPath t n.id ↔ c ∈ rootPath t n.parent := by
  rw [rootPath_of_nonroot hw (find?_of_mem hw.1 hn) hp, List.mem_cons]
  constructor
  · rintro (h | h)
    · exact absurd h.symm hc
    · exact h
  · exact Or.inr

/-- **Edge partition of a cut** (membership form). -/
theorem mem_edges_cut {t : Table} (hw : WF t) {c : Int} {d p : Table} (h : cut t c = some (d, p)) (e : Int × Int) :
    e ∈ edges d ++ edges p ↔ e ∈ edges t := by
  obtain ⟨rfl, rfl, nc, hfc, hncp⟩ := cut_some h
  have hnc := find?_some hfc
  rw [List.mem_append]
  constructor
  · rintro (he | he)
    · obtain ⟨n, hn, hp, rfl, _, _⟩ := edges_subset_sub hw.1 _ he
      exact mem_edges.mpr ⟨n, hn, hp, rfl⟩
    · obtain ⟨n, hn, hp, rfl, _, _⟩ := edges_subset_sub hw.1 _ he
      exact mem_edges.mpr ⟨n, hn, hp, rfl⟩
  · intro he
    obtain ⟨n, hn, hp, rfl⟩ := mem_edges.mp he
    have hpin : n.parent ∈ ids t := by
      rcases WF_parents hw n hn with hh | hh
      · exact absurd hh hp
      · exact hh
    have hnid := mem_ids_of_mem hn
    by_cases hc : n.id = c
    · -- the edge from the cut node to its parent stays in the proximal piece
      right
      have hnd : ¬ c ∈ rootPath t n.parent := hc ▸ parent_not_distal hw hn hp
      apply edges_subset_of hw.1 _ hn hp
      · simp [hc]
      · refine List.mem_filter.mpr ⟨hpin, ?_⟩
        simp only [Bool.or_eq_true, Bool.not_eq_true', List.contains_eq_mem, decide_eq_false_iff_not, mem_distalSet]
        exact Or.inl fun hh => hnd hh.2
    · have hiff := distal_iff_parent hw hn hp hc
      by_cases hd : c ∈ rootPath t n.id
      · left
        apply edges_subset_of hw.1 _ hn hp
        · simp only [List.contains_eq_mem, decide_eq_true_eq, mem_distalSet]; exact ⟨hnid, hd⟩
        · refine List.mem_filter.mpr ⟨hpin, ?_⟩
          simp only [List.contains_eq_mem, decide_eq_true_eq, mem_distalSet]; exact ⟨hpin, hiff.mp hd⟩
      · right
        apply edges_subset_of hw.1 _ hn hp
        · simp only [Bool.or_eq_true, Bool.not_eq_true', List.contains_eq_mem, decide_eq_false_iff_not, mem_distalSet]
          exact Or.inl fun hh => hd hh.2
        · refine List.mem_filter.mpr ⟨hpin, ?_⟩
          simp only [Bool.or_eq_true, Bool.not_eq_true', List.contains_eq_mem, decide_eq_false_iff_not, mem_distalSet]
          exact Or.inl fun hh => hd (hiff.mpr hh.2)

/-- The two pieces of a cut have no edge in common. -/
theorem edges_cut_disjoint {t : Table} (hw : WF t) {c : Int} {d p : Table} (h : cut t c = some (d, p))
    (e : Int × Int) (hd : e ∈ edges d) (hp : e ∈ edges p) : False := by
  obtain ⟨rfl, rfl, nc, hfc, hncp⟩ := cut_some h
  obtain ⟨n, hn, hnp, rfl, hk, hkp⟩ := edges_subset_sub hw.1 _ hd
  obtain ⟨n', hn', _, he, hk', _⟩ := edges_subset_sub hw.1 _ hp
  simp only [Prod.mk.injEq] at he
  rw [← he.1] at hk'
  simp only [Bool.or_eq_true, Bool.not_eq_true', beq_iff_eq] at hk'
  rcases hk' with hk' | hk'
  · rw [hk] at hk'; exact absurd hk' (by decide)
  · have hkp' := (List.mem_filter.mp hkp).2
    simp only [List.contains_eq_mem, decide_eq_true_eq, mem_distalSet] at hkp'
    exact parent_not_distal hw hn hnp (hk' ▸ hkp'.2)

/-- **Every original edge lies in exactly one piece of a cut.** -/
theorem edges_cut_perm {t : Table} (hw : WF t) {c : Int} {d p : Table} (h : cut t c = some (d, p)) :
    (edges d ++ edges p).Perm (edges t) := by
  have hwd : WF d := by obtain ⟨rfl, _, _⟩ := cut_some h; exact WF_subset hw _
  have hwp : WF p := by obtain ⟨_, rfl, _⟩ := cut_some h; exact WF_subset hw _
  apply (List.perm_ext_iff_of_nodup ?_ (Nodup_edges hw.1)).mpr (mem_edges_cut hw h)
  rw [List.nodup_append]
  exact ⟨Nodup_edges hwd.1, Nodup_edges hwp.1, fun a ha b hb hab => edges_cut_disjoint hw h a ha (hab ▸ hb)⟩

/-! ### child counts and labels after the incremental relabel

The child count of a node is recovered from its degree in the undirected edge list, which rerooting
only permutes; so every node whose root status is unchanged keeps its child count. -/

def incident (i : Int) (e : Int × Int) : Bool := e.1 == i || e.2 == i

theorem incident_uedge (i a b : Int) : incident i (uedge a b) = (a == i || b == i) := by
  unfold uedge incident
  split
  · rfl
  · exact Bool.or_comm _ _

/-- Degree = number of children + 1 for a non-root. -/
theorem degree_eq {t : Table} (hloop : ∀ n ∈ t, n.parent ≠ n.id) {i : Int} (hi : 0 ≤ i) :
    (uedges t).countP (incident i) =
      childCount t i + t.countP (fun n => n.id == i && !decide (n.parent < 0)) := by
  induction t with
  | nil => rfl
  | cons n t ih =>
    have ih' := ih (fun m hm => hloop m (List.mem_cons_of_mem _ hm))
    have hl := hloop n List.mem_cons_self
    unfold uedges edges childCount isRootNode at *
    simp only [List.filter_cons, List.countP_cons]
    by_cases hp : n.parent < 0
    · have h1 : (n.parent == i) = false := by simp; omega
      simp only [hp, decide_true, Bool.not_true, Bool.false_eq_true, if_false, h1, Bool.and_false]
      omega
    · simp only [hp, decide_false, Bool.not_false, if_true, List.map_cons, List.countP_cons, incident_uedge,
        Bool.and_true]
      by_cases hpi : n.parent = i
      · have h2 : (n.id == i) = false := by simp; omega
        simp only [hpi, beq_self_eq_true, h2, Bool.or_true, if_true, Bool.false_eq_true,
          if_false, List.length_cons]
        omega
      · have h2 : (n.parent == i) = false := by simpa using hpi
        simp only [h2, Bool.or_false, Bool.false_eq_true, if_false]
        omega

theorem WF_no_loop {t : Table} (hw : WF t) : ∀ n ∈ t, n.parent ≠ n.id := by
  obtain ⟨_, hpos, rk, hrk⟩ := hw
  intro n hn he
  rcases hrk n hn with h | ⟨_, h⟩
  · have := hpos n hn; omega
  · rw [he] at h; omega

namespace RPath
variable {t : Table} {r : Int} {path : List Int}

/-- Apart from the new root and the old root, root status is unchanged by the reversal. -/
theorem rrow_root_iff (h : RPath t r path) (hw : WF t) {n : Node} (hn : n ∈ t) (hr : n.id ≠ r)
    (hlast : path.getLast? ≠ some n.id) : (rrow r path n).parent < 0 ↔ n.parent < 0 := by
  rcases h.rrow_cases hw hn with ⟨h1, _⟩ | ⟨_, htail, q, _, h1, _, _, h2⟩ | ⟨_, h1⟩
  · exact absurd h1 hr
  · have hon : n.id ∈ path := List.mem_of_mem_tail htail
    constructor
    · intro hh; rw [h1] at hh; omega
    · intro hh; exact absurd (h.last_of_root hw hn hon hh) hlast
  · rw [h1]

/-- Apart from the new root and the old root every node keeps its number of children. -/
theorem childCount_rerootParents (h : RPath t r path) (hw : WF t) {i : Int} (hi : i ∈ ids t) (hr : i ≠ r)
    (hlast : path.getLast? ≠ some i) : childCount (rerootParents t r path) i = childCount t i := by
  have hw1 : WF (rerootParents t r path) := WF_rerootParents_gen hw r path h.nodup h.sub h.head
  obtain ⟨ni, hni, hnid⟩ := mem_ids.mp hi
  have hi0 : 0 ≤ i := hnid ▸ hw.2.1 ni hni
  have hperm : (uedges (rerootParents t r path)).Perm (uedges t) :=
    (List.perm_ext_iff_of_nodup (Nodup_uedges hw1) (Nodup_uedges hw)).mpr (mem_uedges_rerootParents hw h)
  have hc := hperm.countP_eq (incident i)
  rw [degree_eq (WF_no_loop hw1) hi0, degree_eq (WF_no_loop hw) hi0] at hc
  have hsame : (rerootParents t r path).countP (fun n => n.id == i && !decide (n.parent < 0)) =
      t.countP (fun n => n.id == i && !decide (n.parent < 0)) := by
    rw [rerootParents_eq_map, List.countP_map]
    apply List.countP_congr
    intro n hn
    simp only [Function.comp, rrow_id, Bool.and_eq_true, beq_iff_eq, Bool.not_eq_true', decide_eq_false_iff_not]
    constructor
    · rintro ⟨h1, h2⟩
      exact ⟨h1, fun hh => h2 ((h.rrow_root_iff hw hn (h1 ▸ hr) (h1 ▸ hlast)).mpr hh)⟩
    · rintro ⟨h1, h2⟩
      exact ⟨h1, fun hh => h2 ((h.rrow_root_iff hw hn (h1 ▸ hr) (h1 ▸ hlast)).mp hh)⟩
  omega

end RPath

/-- **The incremental relabel of `reroot` agrees with a fresh classification**: correct labels stay
correct although only the old and the new root are relabelled. -/
theorem labelsOKB_reroot {t : Table} (hw : WF t) (hl : labelsOKB t = true) (r : Int) :
    labelsOKB (reroot t r) = true := by
  rcases reroot_cases t r with h | ⟨nr, h1, hnrp, h3⟩
  · rw [h]; exact hl
  · have hr : r ∈ ids t := mem_ids.mpr ⟨nr, find?_some h1⟩
    have hP := rootPath_RPath hw hr
    obtain ⟨ro, nro, hlast, hfro, hrop⟩ := hP.last
    have hnro := find?_some hfro
    have hlinks : links (reroot t r) = links (rerootParents t r (rootPath t r)) := by
      rw [h3, links_map_relabelRow]
    have hror : ro ≠ r := by
      intro he
      rw [he, h1] at hfro
      simp only [Option.some.injEq] at hfro
      exact hnrp (hfro ▸ hrop)
    have hroon : ro ∈ rootPath t r := List.mem_of_getLast? hlast
    rw [labelsOKB_iff] at hl ⊢
    intro m hm
    rw [childCount_congr hlinks]
    rw [h3, hlast] at hm
    simp only [Option.getD_some] at hm
    obtain ⟨m1, hm1, rfl⟩ := List.mem_map.mp hm
    rw [rerootParents_eq_map] at hm1
    obtain ⟨n, hn, rfl⟩ := List.mem_map.mp hm1
    rw [relabelRow_id, relabelRow_parent, rrow_id]
    by_cases hnr : n.id = r
    · -- the new root
      unfold relabelRow
      rw [if_pos (by rw [rrow_id]; exact hnr), rrow_parent_self hnr]
      rfl
    · by_cases hno : n.id = ro
      · -- the old root: relabelled from its new child count
        unfold relabelRow
        rw [if_neg (by rw [rrow_id]; exact hnr), if_pos (by rw [rrow_id]; exact hno), hno]
        rcases hP.rrow_cases hw hn with ⟨h1, _⟩ | ⟨_, _, q, _, h1, _, _, h2⟩ | ⟨h1, _⟩
        · exact absurd h1 hnr
        · have : decide ((rrow r (rootPath t r) n).parent < 0) = false := by
            rw [h1]; simp; omega
          rw [this]
        · exact absurd (hno ▸ hroon) h1
      · -- everybody else keeps label, child count and root status
        have hlast' : (rootPath t r).getLast? ≠ some n.id := by
          rw [hlast]; intro he; simp only [Option.some.injEq] at he; exact hno he.symm
        unfold relabelRow
        rw [if_neg (by rw [rrow_id]; exact hnr), if_neg (by rw [rrow_id]; exact hno), rrow_label,
          hP.childCount_rerootParents hw (mem_ids_of_mem hn) hnr hlast', hl n hn]
        have := hP.rrow_root_iff hw hn hnr hlast'
        congr 1
        exact (decide_eq_decide.mpr this).symm

end Navis.Forest
