import NavisModel.Model.Sampling
import NavisModel.Proofs.ResampleGeomLemmas
/-! C13 second pass, geometry side: the three re-attachment blocks of `resample_skeleton` (soma, connectors, tags)
all map to a nearest node of the NEW table; the checker evaluated on navis' output is sound and accepts the model;
all numeric columns are interpolated with one and the same bracket/parameter (`locate`); categorical columns take the
value of a nearest knot (scipy `kind='nearest'`, half-way: the lower knot). -/
namespace Navis.Sampling
open Navis.Forest Navis.Resample

/-! ### re-attachment -/

/-- What every attached id is mapped to with today's rule: the nearest node of the new table to the old position. -/
def remap0 (old new : List (Int × Pt)) (i : Int) : Int :=
  match posOf old i with
  | none => i
  | some q => (nearest new q).getD i

theorem remapId_rule0 (old new : List (Int × Pt)) (i : Int) : remapId attachRule0 old new i = remap0 old new i := rfl

/-- With today's rule all three blocks run, independently of each other. -/
theorem reattachG_rule0 (old new : List (Int × Pt)) (a : Attach) :
    reattachG attachRule0 old new a =
      { soma := a.soma.map (·.map (remap0 old new)), conn := a.conn.map (·.map (remap0 old new)),
        tags := a.tags.map (·.map fun e => (e.1, e.2.map (remap0 old new))) } := by
  have hf : remapId attachRule0 old new = remap0 old new := funext (remapId_rule0 old new)
  obtain ⟨so, co, ta⟩ := a
  unfold reattachG
  rw [hf]
  cases so <;> cases co <;> cases ta <;> simp [runs, attachRule0]

theorem remap0_nearest {old new : List (Int × Pt)} {i : Int} {q : Pt} (hq : posOf old i = some q) (hne : new ≠ []) :
    ∃ n ∈ new, n.1 = remap0 old new i ∧ ∀ n' ∈ new, sqd n.2 q ≤ sqd n'.2 q := by
  unfold remap0
  rw [hq]
  dsimp only
  have hs := nearest_isSome q hne
  obtain ⟨j, hj⟩ := Option.isSome_iff_exists.mp hs
  rw [hj]
  exact nearest_spec hj

/-- `j` is a node of `new` at minimal distance from the old position of `i`. -/
def IsNearest (old new : List (Int × Pt)) (i j : Int) : Prop :=
  ∃ q p, posOf old i = some q ∧ posOf new j = some p ∧ ∀ n' ∈ new, sqd p q ≤ sqd n'.2 q

theorem posOf_mem {nodes : List (Int × Pt)} {i : Int} {p : Pt} (h : posOf nodes i = some p) : (i, p) ∈ nodes := by
  unfold posOf at h
  simp only [Option.map_eq_some_iff] at h
  obtain ⟨e, he, rfl⟩ := h
  have h1 := List.mem_of_find?_eq_some he
  have h2 : e.1 = i := by simpa using List.find?_some he
  rw [← h2]; exact h1

theorem nearestOKB_sound {old new : List (Int × Pt)} {i j : Int} (h : nearestOKB old new i j = true) :
    IsNearest old new i j := by
  unfold nearestOKB at h
  cases hq : posOf old i with
  | none => rw [hq] at h; cases h
  | some q =>
    rw [hq] at h
    dsimp only at h
    cases hp : posOf new j with
    | none => rw [hp] at h; simp at h
    | some p =>
      cases hm : minSqd new q with
      | none => rw [hp, hm] at h; simp at h
      | some m =>
        rw [hp, hm] at h
        have he : sqd p q = m := by simpa using h
        exact ⟨q, p, hq, hp, fun n' hn' => he ▸ (minSqd_spec hm).1 n' hn'⟩

/-- Pairwise: same length and every pair `(old id, new id)` is a nearest-node pair. -/
def ListNearest (old new : List (Int × Pt)) (a b : List Int) : Prop :=
  a.length = b.length ∧ ∀ e ∈ a.zip b, IsNearest old new e.1 e.2

theorem listOKB_sound {old new : List (Int × Pt)} {a b : List Int} (h : listOKB old new a b = true) :
    ListNearest old new a b := by
  unfold listOKB at h
  simp only [Bool.and_eq_true, beq_iff_eq, List.all_eq_true] at h
  exact ⟨h.1, fun e he => nearestOKB_sound (h.2 e he)⟩

/-- The clause "re-attaches soma, connectors and tags to the nearest new node" for an input attachment `a` and an
output attachment `b`: each of the three keeps its shape (`None` stays `None`, same number of entries, same tag
names in the same order) and every entry is mapped to a nearest node of the new table. -/
def AttachSpec (old new : List (Int × Pt)) (a b : Attach) : Prop :=
  (match a.soma, b.soma with
    | none, none => True
    | some x, some y => ListNearest old new x y
    | _, _ => False) ∧
  (match a.conn, b.conn with
    | none, none => True
    | some x, some y => ListNearest old new x y
    | _, _ => False) ∧
  (match a.tags, b.tags with
    | none, none => True
    | some x, some y => x.length = y.length ∧ ∀ e ∈ x.zip y, e.1.1 = e.2.1 ∧ ListNearest old new e.1.2 e.2.2
    | _, _ => False)

theorem attachOKB_sound' {old new : List (Int × Pt)} {a b : Attach} (h : attachOKB old new a b = true) :
    AttachSpec old new a b := by
  obtain ⟨so, co, ta⟩ := a
  obtain ⟨so', co', ta'⟩ := b
  unfold attachOKB at h
  simp only [Bool.and_eq_true] at h
  obtain ⟨⟨h1, h2⟩, h3⟩ := h
  refine ⟨?_, ?_, ?_⟩
  · cases so <;> cases so' <;> simp_all
    exact listOKB_sound h1
  · cases co <;> cases co' <;> simp_all
    exact listOKB_sound h2
  · cases ta <;> cases ta' <;> simp_all
    intro k l k' l' he
    have := h3.2 k l k' l' he
    exact ⟨this.1, listOKB_sound this.2⟩

/-! the model passes its own checker -/

theorem posOf_of_nodup {nodes : List (Int × Pt)} (hnd : (nodes.map (·.1)).Nodup) {n : Int × Pt} (hn : n ∈ nodes) :
    posOf nodes n.1 = some n.2 := by
  unfold posOf
  induction nodes with
  | nil => cases hn
  | cons a rest ih =>
    rw [List.map_cons, List.nodup_cons] at hnd
    rw [List.find?_cons]
    by_cases h : a.1 = n.1
    · have : a = n := by
        rcases List.mem_cons.mp hn with rfl | hr
        · rfl
        · exact absurd (h ▸ List.mem_map.mpr ⟨n, hr, rfl⟩) hnd.1
      subst this
      simp
    · have hne : (a.1 == n.1) = false := by simpa using h
      rw [hne]
      rcases List.mem_cons.mp hn with rfl | hr
      · exact absurd rfl h
      · exact ih hnd.2 hr

theorem nearestOKB_remap0 {old new : List (Int × Pt)} (hnd : (new.map (·.1)).Nodup) (hne : new ≠ []) {i : Int}
    (hi : (posOf old i).isSome) : nearestOKB old new i (remap0 old new i) = true := by
  obtain ⟨q, hq⟩ := Option.isSome_iff_exists.mp hi
  unfold nearestOKB remap0
  rw [hq]
  dsimp only
  obtain ⟨m, hm⟩ := minSqd_isSome q hne
  have hs := nearest_isSome q hne
  obtain ⟨j, hj⟩ := Option.isSome_iff_exists.mp hs
  rw [hj, hm]
  simp only [Option.getD_some]
  unfold nearest at hj
  rw [hm] at hj
  simp only [Option.map_eq_some_iff] at hj
  obtain ⟨n, hn, rfl⟩ := hj
  have hmem := List.mem_of_find?_eq_some hn
  have heq : sqd n.2 q = m := by simpa using List.find?_some hn
  rw [posOf_of_nodup hnd hmem]
  simp [heq]

theorem zip_map_all {α β} (f : α → β) (g : α → β → Bool) : ∀ (l : List α), (∀ i ∈ l, g i (f i) = true) →
    ((l.zip (l.map f)).all fun e => g e.1 e.2) = true
  | [], _ => rfl
  | a :: rest, h => by
    simp only [List.map_cons, List.zip_cons_cons, List.all_cons, Bool.and_eq_true]
    exact ⟨h a List.mem_cons_self, zip_map_all f g rest fun i hi => h i (List.mem_cons_of_mem _ hi)⟩

theorem listOKB_remap0 {old new : List (Int × Pt)} (hnd : (new.map (·.1)).Nodup) (hne : new ≠ []) (l : List Int)
    (hl : ∀ i ∈ l, (posOf old i).isSome) : listOKB old new l (l.map (remap0 old new)) = true := by
  unfold listOKB
  simp only [List.length_map, beq_self_eq_true, Bool.true_and]
  exact zip_map_all _ _ l fun i hi => nearestOKB_remap0 hnd hne (hl i hi)

/-- Every id attached to the skeleton has a position in the old table. -/
def Attach.located (old : List (Int × Pt)) (a : Attach) : Prop :=
  (∀ l, a.soma = some l → ∀ i ∈ l, (posOf old i).isSome) ∧
  (∀ l, a.conn = some l → ∀ i ∈ l, (posOf old i).isSome) ∧
  (∀ l, a.tags = some l → ∀ e ∈ l, ∀ i ∈ e.2, (posOf old i).isSome)

/-- **The model passes the checker**: with today's rule the re-attached soma / connectors / tags satisfy `attachOKB`. -/
theorem attachOKB_reattach {old new : List (Int × Pt)} (hnd : (new.map (·.1)).Nodup) (hne : new ≠ []) (a : Attach)
    (hloc : a.located old) : attachOKB old new a (reattachG attachRule0 old new a) = true := by
  rw [reattachG_rule0]
  obtain ⟨so, co, ta⟩ := a
  obtain ⟨h1, h2, h3⟩ := hloc
  unfold attachOKB
  simp only [Bool.and_eq_true]
  refine ⟨⟨?_, ?_⟩, ?_⟩
  · cases so with
    | none => rfl
    | some l => exact listOKB_remap0 hnd hne l (h1 l rfl)
  · cases co with
    | none => rfl
    | some l => exact listOKB_remap0 hnd hne l (h2 l rfl)
  · cases ta with
    | none => rfl
    | some l =>
      simp only [Option.map_some, List.length_map, beq_self_eq_true, Bool.true_and]
      exact zip_map_all (fun e : String × List Int => (e.1, e.2.map (remap0 old new)))
        (fun e e' => e.1 == e'.1 && listOKB old new e.2 e'.2) l
        (fun e he => by simp only [beq_self_eq_true, Bool.true_and]; exact listOKB_remap0 hnd hne e.2 (h3 l rfl e he))

/-! ### columns: one bracket and one parameter for every numeric column -/

theorem locate_range : ∀ (ds : List Rat) (s : Rat), 0 ≤ (locate ds s).2 ∧ (locate ds s).2 ≤ 1
  | [], _ => by simp [locate]
  | [_], _ => by simp [locate]
  | d0 :: d1 :: rest, s => by
    unfold locate
    by_cases h1 : d1 ≤ s
    · rw [if_pos h1]; exact locate_range (d1 :: rest) s
    · rw [if_neg h1]
      by_cases h2 : s ≤ d0
      · rw [if_pos h2]; simp
      · rw [if_neg h2]
        have hpos : 0 < d1 - d0 := by linarith [not_le.mp h1, not_le.mp h2]
        constructor
        · exact div_nonneg (by linarith [not_le.mp h2]) hpos.le
        · rw [div_le_one hpos]; linarith [not_le.mp h1]

theorem locate_lt : ∀ (ds : List Rat) (s : Rat), ds ≠ [] → (locate ds s).1 < ds.length
  | [], _, h => absurd rfl h
  | [_], _, _ => by simp [locate]
  | d0 :: d1 :: rest, s, _ => by
    unfold locate
    by_cases h1 : d1 ≤ s
    · rw [if_pos h1]
      have := locate_lt (d1 :: rest) s (by simp)
      simp only [List.length_cons] at this ⊢
      omega
    · rw [if_neg h1]
      by_cases h2 : s ≤ d0
      · rw [if_pos h2]; simp
      · rw [if_neg h2]; simp

/-- `np.interp` on the knots = linear interpolation between the two knots `locate` brackets `s` with, with
`locate`'s parameter — for the whole point (x, y, z, radius at once). -/
theorem polyAt_eq_locate : ∀ (ks : List (Rat × Pt)) (s : Rat),
    polyAt ks s = lerpPt (ks.getD (locate (ks.map (·.1)) s).1 (0, default)).2
      (ks.getD ((locate (ks.map (·.1)) s).1 + 1) (0, default)).2 (locate (ks.map (·.1)) s).2
  | [], s => by simp [polyAt, locate, lerpPt_zero]
  | [k], s => by simp [polyAt, locate, lerpPt_zero]
  | k0 :: k1 :: rest, s => by
    rw [polyAt_cons_cons]
    simp only [List.map_cons]
    unfold locate
    by_cases h1 : k1.1 ≤ s
    · rw [if_pos h1, if_pos h1]
      have ih := polyAt_eq_locate (k1 :: rest) s
      simp only [List.map_cons] at ih
      rw [ih]
      simp only [List.getD_cons_succ]
    · rw [if_neg h1, if_neg h1]
      by_cases h2 : s ≤ k0.1
      · rw [if_pos h2, if_pos h2]
        simp [lerpPt_zero]
      · rw [if_neg h2, if_neg h2]
        simp

theorem getD_map_default {α β} (f : α → β) (l : List α) (j : Nat) (d : α) : (l.map f).getD j (f d) = f (l.getD j d) := by
  simp only [List.getD_eq_getElem?_getD, List.getElem?_map]
  cases l[j]? <;> rfl

/-- **Every numeric column is interpolated along the cable with the same bracket and the same parameter**: for a
column `col` of the point record (x, y, z, radius — and any further numeric column carried the same way),
`interpCol` over that column's knot values equals that column of the interpolated point. -/
theorem interpCol_of_polyAt (ks : List (Rat × Pt)) (s : Rat) (col : Pt → Rat)
    (hcol : ∀ a b τ, col (lerpPt a b τ) = col a + τ * (col b - col a)) (h0 : col default = 0) :
    interpCol (ks.map (·.1)) (ks.map fun k => col k.2) s = col (polyAt ks s) := by
  rw [polyAt_eq_locate, hcol]
  unfold interpCol
  have e : ∀ j, (ks.map fun k => col k.2).getD j 0 = col (ks.getD j (0, default)).2 := by
    intro j
    have := getD_map_default (fun k : Rat × Pt => col k.2) ks j (0, default)
    simp only [h0] at this
    exact this
  simp only [e]

theorem interpCol_x (ks : List (Rat × Pt)) (s : Rat) :
    interpCol (ks.map (·.1)) (ks.map (·.2.x)) s = (polyAt ks s).x := interpCol_of_polyAt ks s (·.x) (fun _ _ _ => rfl) rfl
theorem interpCol_y (ks : List (Rat × Pt)) (s : Rat) :
    interpCol (ks.map (·.1)) (ks.map (·.2.y)) s = (polyAt ks s).y := interpCol_of_polyAt ks s (·.y) (fun _ _ _ => rfl) rfl
theorem interpCol_z (ks : List (Rat × Pt)) (s : Rat) :
    interpCol (ks.map (·.1)) (ks.map (·.2.z)) s = (polyAt ks s).z := interpCol_of_polyAt ks s (·.z) (fun _ _ _ => rfl) rfl
theorem interpCol_r (ks : List (Rat × Pt)) (s : Rat) :
    interpCol (ks.map (·.1)) (ks.map (·.2.r)) s = (polyAt ks s).r := interpCol_of_polyAt ks s (·.r) (fun _ _ _ => rfl) rfl

/-- An interpolated value lies between the two bracketing knot values. -/
theorem interpCol_between (ds vs : List Rat) (s : Rat) :
    let j := (locate ds s).1
    (vs.getD j 0 ≤ interpCol ds vs s ∧ interpCol ds vs s ≤ vs.getD (j + 1) 0) ∨
    (vs.getD (j + 1) 0 ≤ interpCol ds vs s ∧ interpCol ds vs s ≤ vs.getD j 0) := by
  intro j
  obtain ⟨h0, h1⟩ := locate_range ds s
  unfold interpCol
  by_cases h : vs.getD j 0 ≤ vs.getD (j + 1) 0
  · left
    constructor
    · nlinarith
    · nlinarith
  · right
    have h' := (not_le.mp h).le
    constructor
    · nlinarith
    · nlinarith

/-! ### categorical columns: `kind='nearest'` -/

theorem nearestIdx_lt : ∀ (ds : List Rat) (s : Rat), ds ≠ [] → nearestIdx ds s < ds.length
  | [], _, h => absurd rfl h
  | [_], _, _ => by simp [nearestIdx]
  | d0 :: d1 :: rest, s, _ => by
    unfold nearestIdx
    by_cases h : (d0 + d1) / 2 < s
    · rw [if_pos h]
      have := nearestIdx_lt (d1 :: rest) s (by simp)
      simp only [List.length_cons] at this ⊢
      omega
    · rw [if_neg h]; simp

/-- **The picked knot is a nearest one** (for non-decreasing arc lengths): no knot is closer to `s`. -/
theorem nearestIdx_spec : ∀ (ds : List Rat) (s : Rat), ds.Pairwise (· ≤ ·) →
    ∀ d ∈ ds, (ds.getD (nearestIdx ds s) 0 - s) * (ds.getD (nearestIdx ds s) 0 - s) ≤ (d - s) * (d - s)
  | [], _, _ => by simp
  | [a], s, _ => by
    intro d hd
    rw [List.mem_singleton.mp hd]
    simp [nearestIdx]
  | d0 :: d1 :: rest, s, hs => by
    intro d hd
    rw [List.pairwise_cons] at hs
    obtain ⟨h0, hs'⟩ := hs
    have h01 : d0 ≤ d1 := h0 d1 List.mem_cons_self
    unfold nearestIdx
    by_cases h : (d0 + d1) / 2 < s
    · rw [if_pos h]
      simp only [List.getD_cons_succ]
      have ih := nearestIdx_spec (d1 :: rest) s hs'
      rcases List.mem_cons.mp hd with rfl | hd'
      · have h1 := ih d1 List.mem_cons_self
        have : (d1 - s) * (d1 - s) ≤ (d - s) * (d - s) := by nlinarith
        linarith
      · exact ih d hd'
    · rw [if_neg h]
      simp only [List.getD_cons_zero]
      have hm : s ≤ (d0 + d1) / 2 := not_lt.mp h
      rcases List.mem_cons.mp hd with rfl | hd'
      · exact le_refl _
      · have hd0 : d0 ≤ d := h0 d hd'
        have hd1 : d1 ≤ d := by
          rcases List.mem_cons.mp hd' with rfl | h''
          · exact le_refl _
          · exact (List.pairwise_cons.mp hs').1 d h''
        nlinarith

/-- Exactly half-way between two knots the lower knot is taken (`side='left'`). -/
theorem nearestIdx_half (d0 d1 : Rat) (rest : List Rat) : nearestIdx (d0 :: d1 :: rest) ((d0 + d1) / 2) = 0 := by
  unfold nearestIdx; simp

theorem mem_uniqueCodes {α} [BEq α] [LawfulBEq α] : ∀ (l : List α) (v : α), v ∈ uniqueCodes l ↔ v ∈ l
  | [], v => by simp [uniqueCodes]
  | a :: rest, v => by
    unfold uniqueCodes
    rw [List.mem_cons, List.mem_cons, List.mem_filter, mem_uniqueCodes rest v]
    constructor
    · rintro (h | ⟨h, _⟩)
      · exact Or.inl h
      · exact Or.inr h
    · rintro (h | h)
      · exact Or.inl h
      · by_cases hva : v = a
        · exact Or.inl hva
        · exact Or.inr ⟨h, by simpa using hva⟩

/-- **A categorical column takes the value of the nearest knot**: translating to codes and back is the identity, so
the result is the original value at `nearestIdx` — never an invented one. -/
theorem catCol_eq {α} [BEq α] [LawfulBEq α] [Inhabited α] (ds : List Rat) (vs : List α) (s : Rat)
    (h : nearestIdx ds s < vs.length) : catCol ds vs s = vs[nearestIdx ds s] := by
  unfold catCol
  simp only
  have hn : (vs.map fun v => (uniqueCodes vs).idxOf v).getD (nearestIdx ds s) 0 = (uniqueCodes vs).idxOf vs[nearestIdx ds s] := by
    simp [List.getD_eq_getElem?_getD, List.getElem?_map, List.getElem?_eq_getElem h]
  rw [hn]
  have hm : vs[nearestIdx ds s] ∈ uniqueCodes vs := (mem_uniqueCodes vs _).mpr (List.getElem_mem h)
  have hlt := List.idxOf_lt_length_of_mem hm
  rw [List.getD_eq_getElem?_getD, List.getElem?_eq_getElem hlt, Option.getD_some]
  exact List.getElem_idxOf hlt

end Navis.Sampling
