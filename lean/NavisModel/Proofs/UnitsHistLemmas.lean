import NavisModel.Model.UnitsHist
import NavisModel.Proofs.UnitsLemmas
/-! Helper lemmas for C15, histories: cached distance views, coordinate arithmetic, path sums. -/
set_option linter.unusedSimpArgs false
set_option linter.unusedVariables false

namespace Navis.Units

/-! ### edge vectors under coordinate maps -/

theorem v3_zero_mul (F : V3) : (⟨0, 0, 0⟩ : V3).mul F = ⟨0, 0, 0⟩ := by simp [V3.mul]
theorem v3_zero_div (F : V3) : (⟨0, 0, 0⟩ : V3).div F = ⟨0, 0, 0⟩ := by simp [V3.div]
theorem v3_sub_mul (a b F : V3) : (a.sub b).mul F = (a.mul F).sub (b.mul F) := by
  apply V3.ext' <;> simp [V3.mul, V3.sub] <;> ring
theorem v3_sub_div (a b F : V3) : (a.sub b).div F = (a.div F).sub (b.div F) := by
  apply V3.ext' <;> simp [V3.div, V3.sub] <;> ring
theorem v3_add_sub_add (a b o : V3) : (a.add o).sub (b.add o) = a.sub b := by
  apply V3.ext' <;> simp [V3.add, V3.sub]
theorem v3_sub_sub_sub (a b o : V3) : (a.sub o).sub (b.sub o) = a.sub b := by
  apply V3.ext' <;> simp [V3.sub]

/-- a map that commutes with differences and fixes 0 commutes with `edgeVecs` -/
theorem edgeVecs_map {g : V3 → V3} (hz : g ⟨0, 0, 0⟩ = ⟨0, 0, 0⟩) (hs : ∀ a b, g (a.sub b) = (g a).sub (g b))
    (pts : List V3) (par : List Int) : edgeVecs (pts.map g) par = (edgeVecs pts par).map g := by
  unfold edgeVecs
  rw [List.zip_map_left, List.map_map, List.map_map]
  apply List.map_congr_left
  intro cp _
  simp only [Function.comp, Prod.map, id]
  by_cases h : 0 ≤ cp.2
  · simp only [h, if_true, List.getElem?_map]
    cases pts[cp.2.toNat]? with
    | none => simp [hz]
    | some q => simp [hs]
  · simp [h, hz]

/-- a map that preserves differences leaves `edgeVecs` unchanged -/
theorem edgeVecs_shift {g : V3 → V3} (hs : ∀ a b, (g a).sub (g b) = a.sub b)
    (pts : List V3) (par : List Int) : edgeVecs (pts.map g) par = edgeVecs pts par := by
  unfold edgeVecs
  rw [List.zip_map_left, List.map_map]
  apply List.map_congr_left
  intro cp _
  simp only [Function.comp, Prod.map, id]
  by_cases h : 0 ≤ cp.2
  · simp only [h, if_true, List.getElem?_map]
    cases pts[cp.2.toNat]? with
    | none => simp
    | some q => simp [hs]
  · simp [h]

theorem edgeVecs_length (pts : List V3) (par : List Int) : (edgeVecs pts par).length = min pts.length par.length := by
  simp [edgeVecs]

/-! ### one arithmetic step keeps the physical edge vectors -/

/-- physical edge vectors of a point list with given units -/
def physEdgesOf (pts : List V3) (par : List Int) (u : Units) : List V3 := (edgeVecs pts par).map (fun d => d.mul u.phys)

theorem physEdges_eq (s : Skel) : physEdges s = physEdgesOf s.nrn.pts s.par s.nrn.units := rfl

theorem mul_physEdges {n m : Neuron} {f : Factor} {p : Int} (hk : n.kind ≠ .voxel) (h : mul n f p = some m)
    (par : List Int) : physEdgesOf m.pts par m.units = physEdgesOf n.pts par n.units := by
  obtain ⟨hnz, rfl⟩ := mul_nonvoxel hk h
  have hf := xyz_nz hnz
  simp only [physEdgesOf]
  rw [edgeVecs_map (g := fun c => c.mul f.xyz) (v3_zero_mul _) (fun a b => v3_sub_mul a b _), List.map_map]
  apply List.map_congr_left; intro d _
  exact phys_div_mul n.units f.xyz p hf d

theorem div_physEdges {n m : Neuron} {f : Factor} {p : Int} (hk : n.kind ≠ .voxel) (h : div n f p = some m)
    (par : List Int) : physEdgesOf m.pts par m.units = physEdgesOf n.pts par n.units := by
  obtain ⟨hnz, rfl⟩ := div_nonvoxel hk h
  have hf := xyz_nz hnz
  simp only [physEdgesOf]
  rw [edgeVecs_map (g := fun c => c.div f.xyz) (v3_zero_div _) (fun a b => v3_sub_div a b _), List.map_map]
  apply List.map_congr_left; intro d _
  exact phys_mul_div n.units f.xyz p hf d

theorem add_nonvoxel {n m : Neuron} {o : Factor} (hk : n.kind ≠ .voxel) (h : add n o = some m) :
    m = { n with pts := n.pts.map (fun c => c.add o.xyz), conns := n.conns.map (fun c => c.add o.xyz) } := by
  obtain ⟨_, rfl⟩ := add_spec h
  rw [if_neg hk]

theorem sub_nonvoxel {n m : Neuron} {o : Factor} (hk : n.kind ≠ .voxel) (h : sub n o = some m) :
    m = { n with pts := n.pts.map (fun c => c.sub o.xyz), conns := n.conns.map (fun c => c.sub o.xyz) } := by
  obtain ⟨_, rfl⟩ := sub_spec h
  rw [if_neg hk]

theorem add_edgeVecs {n m : Neuron} {o : Factor} (hk : n.kind ≠ .voxel) (h : add n o = some m) (par : List Int) :
    edgeVecs m.pts par = edgeVecs n.pts par ∧ m.units = n.units := by
  rw [add_nonvoxel hk h]
  exact ⟨edgeVecs_shift (g := fun c => c.add o.xyz) (fun a b => v3_add_sub_add a b _) _ _, rfl⟩

theorem sub_edgeVecs {n m : Neuron} {o : Factor} (hk : n.kind ≠ .voxel) (h : sub n o = some m) (par : List Int) :
    edgeVecs m.pts par = edgeVecs n.pts par ∧ m.units = n.units := by
  rw [sub_nonvoxel hk h]
  exact ⟨edgeVecs_shift (g := fun c => c.sub o.xyz) (fun a b => v3_sub_sub_sub a b _) _ _, rfl⟩

theorem convert_physEdges {n m : Neuron} {tgt p : Int} (hk : n.kind ≠ .voxel) (h : convertUnits n tgt p = some m)
    (par : List Int) : physEdgesOf m.pts par m.units = physEdgesOf n.pts par n.units := by
  unfold convertUnits at h
  cases hc : convFactor n.units tgt with
  | none => simp [hc] at h
  | some c => simp only [hc] at h; exact mul_physEdges hk h par

/-- kind / name / id are untouched by every arithmetic operation -/
theorem mul_meta {n m : Neuron} {f : Factor} {p : Int} (hk : n.kind ≠ .voxel) (h : mul n f p = some m) :
    m.kind = n.kind ∧ m.name = n.name ∧ m.id = n.id := by
  obtain ⟨_, rfl⟩ := mul_nonvoxel hk h; exact ⟨rfl, rfl, rfl⟩

theorem div_meta {n m : Neuron} {f : Factor} {p : Int} (hk : n.kind ≠ .voxel) (h : div n f p = some m) :
    m.kind = n.kind ∧ m.name = n.name ∧ m.id = n.id := by
  obtain ⟨_, rfl⟩ := div_nonvoxel hk h; exact ⟨rfl, rfl, rfl⟩

theorem convert_meta {n m : Neuron} {tgt p : Int} (hk : n.kind ≠ .voxel) (h : convertUnits n tgt p = some m) :
    m.kind = n.kind ∧ m.name = n.name ∧ m.id = n.id := by
  unfold convertUnits at h
  cases hc : convFactor n.units tgt with
  | none => simp [hc] at h
  | some c => simp only [hc] at h; exact mul_meta hk h

/-! ### cache clearing -/

/-- Bool form of: the operator's final clear is applied to the returned object and deletes every attribute in
`views` (each is in `TEMP_ATTR` and not in the literal `exclude`) -/
def clearsAllB (op : String) (views : List String) : Bool :=
  match treeExclude op with
  | some ex => views.all fun a => Gen.Units.treeTempAttr.contains a && !ex.contains a
  | none => false

theorem mem_clearCache {temp ex : List String} {c : List (String × List V3)} {e : String × List V3}
    (h : e ∈ clearCache temp ex c) : e ∈ c ∧ (e.1 ∉ temp ∨ e.1 ∈ ex) := by
  simp only [clearCache, List.mem_filter, Bool.or_eq_true, Bool.not_eq_true', List.contains_eq_mem,
    decide_eq_false_iff_not, decide_eq_true_eq] at h
  exact h

theorem afterOp_subset {op : String} {c : List (String × List V3)} {e : String × List V3} (h : e ∈ afterOp op c) :
    e ∈ c := by
  unfold afterOp at h
  cases hx : treeExclude op with
  | none => simpa [hx] using h
  | some ex => simp only [hx] at h; exact (mem_clearCache h).1

theorem afterOp_clears {op : String} {views : List String} (hv : clearsAllB op views = true)
    {c : List (String × List V3)} {e : String × List V3} (h : e ∈ afterOp op c) : e.1 ∉ views := by
  unfold clearsAllB at hv
  unfold afterOp at h
  cases hx : treeExclude op with
  | none => simp [hx] at hv
  | some ex =>
    simp only [hx, List.all_eq_true, Bool.and_eq_true, Bool.not_eq_true', List.contains_eq_mem,
      decide_eq_true_eq, decide_eq_false_iff_not] at hv h
    intro hmem
    obtain ⟨h1, h2⟩ := hv _ hmem
    rcases (mem_clearCache h).2 with h3 | h3
    · exact h3 h1
    · exact h2 h3

theorem afterConvert_sub {c : List (String × List V3)} {e : String × List V3} (h : e ∈ afterConvert c) :
    e ∈ afterOp "mul" c := by
  unfold afterConvert at h
  simp only at h
  split at h
  · exact (mem_clearCache h).1
  · exact h

/-! ### coherence is preserved -/

theorem lookup_mem {l : List (String × List V3)} {a : String} {b : List V3} (h : l.lookup a = some b) : (a, b) ∈ l := by
  induction l with
  | nil => simp at h
  | cons x xs ih =>
    obtain ⟨k, v⟩ := x
    simp only [List.lookup_cons] at h
    by_cases hk : a == k
    · simp only [hk] at h
      have : a = k := by simpa using hk
      subst this
      simp only [Option.some.injEq] at h; subst h
      exact List.mem_cons_self
    · simp only [hk] at h
      exact List.mem_cons_of_mem _ (ih h)

theorem warmOne_nrn (s : Skel) (a : String) : (warmOne s a).nrn = s.nrn ∧ (warmOne s a).par = s.par := by
  unfold warmOne; split <;> exact ⟨rfl, rfl⟩

theorem warmOne_coherent {s : Skel} (hc : Coherent s) (a : String) : Coherent (warmOne s a) := by
  unfold warmOne
  split
  · exact hc
  · intro e he
    simp only [List.mem_cons] at he
    rcases he with rfl | he
    · exact ⟨fun _ => rfl, fun _ => rfl⟩
    · exact hc e he

theorem warm_fold (s : Skel) (attrs : List String) :
    (attrs.foldl warmOne s).nrn = s.nrn ∧ (attrs.foldl warmOne s).par = s.par ∧
      (Coherent s → Coherent (attrs.foldl warmOne s)) := by
  induction attrs generalizing s with
  | nil => exact ⟨rfl, rfl, id⟩
  | cons a as ih =>
    obtain ⟨h1, h2, h3⟩ := ih (warmOne s a)
    obtain ⟨w1, w2⟩ := warmOne_nrn s a
    simp only [List.foldl_cons]
    exact ⟨h1.trans w1, h2.trans w2, fun hc => h3 (warmOne_coherent hc a)⟩

/-- the facts about the *generated* operator table that the invariant needs -/
structure GenFacts : Prop where
  mulClears : clearsAllB "mul" (weightViews ++ coordViews) = true
  divClears : clearsAllB "div" (weightViews ++ coordViews) = true
  addClears : clearsAllB "add" coordViews = true
  subClears : clearsAllB "sub" coordViews = true

/-- what one step preserves -/
structure StepInv (s s' : Skel) : Prop where
  par : s'.par = s.par
  kind : s'.nrn.kind = s.nrn.kind
  name : s'.nrn.name = s.nrn.name
  id : s'.nrn.id = s.nrn.id
  phys : physEdges s' = physEdges s

theorem StepInv.refl (s : Skel) : StepInv s s := ⟨rfl, rfl, rfl, rfl, rfl⟩

theorem StepInv.trans {a b c : Skel} (h1 : StepInv a b) (h2 : StepInv b c) : StepInv a c :=
  ⟨h2.par.trans h1.par, h2.kind.trans h1.kind, h2.name.trans h1.name, h2.id.trans h1.id, h2.phys.trans h1.phys⟩

theorem coherent_of_cleared {s' : Skel} (h : ∀ e ∈ s'.cache, e.1 ∉ weightViews ++ coordViews) : Coherent s' := by
  intro e he
  have := h e he
  simp only [List.mem_append, not_or] at this
  exact ⟨fun hw => absurd hw this.1, fun hw => absurd hw this.2⟩

theorem step_inv {s s' : Skel} {st : Step} (gf : GenFacts) (hk : s.nrn.kind ≠ .voxel) (h : step s st = some s') :
    StepInv s s' ∧ (Coherent s → Coherent s') := by
  cases st with
  | warm attrs =>
    simp only [step, Option.some.injEq] at h; subst h
    obtain ⟨h1, h2, h3⟩ := warm_fold s attrs
    refine ⟨⟨h2, by rw [h1], by rw [h1], by rw [h1], ?_⟩, h3⟩
    simp only [physEdges, h1, h2]
  | scale isDiv f p =>
    cases isDiv with
    | false =>
      simp only [step, Option.map_eq_some_iff] at h
      obtain ⟨m, hm, rfl⟩ := h
      obtain ⟨k1, k2, k3⟩ := mul_meta hk hm
      refine ⟨⟨rfl, k1, k2, k3, ?_⟩, fun _ => coherent_of_cleared fun e he => afterOp_clears gf.mulClears he⟩
      simp only [physEdges_eq]; exact mul_physEdges hk hm _
    | true =>
      simp only [step, Option.map_eq_some_iff] at h
      obtain ⟨m, hm, rfl⟩ := h
      obtain ⟨k1, k2, k3⟩ := div_meta hk hm
      refine ⟨⟨rfl, k1, k2, k3, ?_⟩, fun _ => coherent_of_cleared fun e he => afterOp_clears gf.divClears he⟩
      simp only [physEdges_eq]; exact div_physEdges hk hm _
  | shift isSub o =>
    cases isSub with
    | false =>
      simp only [step, Option.map_eq_some_iff] at h
      obtain ⟨m, hm, rfl⟩ := h
      obtain ⟨e1, e2⟩ := add_edgeVecs hk hm s.par
      have hmm := add_nonvoxel hk hm
      refine ⟨⟨rfl, by rw [hmm], by rw [hmm], by rw [hmm], ?_⟩, ?_⟩
      · simp only [physEdges, e1, e2]
      · intro hc e he
        have he' : e ∈ afterOp "add" s.cache := he
        have hin := afterOp_subset he'
        have hno := afterOp_clears gf.addClears he'
        obtain ⟨c1, _⟩ := hc e hin
        exact ⟨fun hw => (c1 hw).trans e1.symm, fun hw => absurd hw hno⟩
    | true =>
      simp only [step, Option.map_eq_some_iff] at h
      obtain ⟨m, hm, rfl⟩ := h
      obtain ⟨e1, e2⟩ := sub_edgeVecs hk hm s.par
      have hmm := sub_nonvoxel hk hm
      refine ⟨⟨rfl, by rw [hmm], by rw [hmm], by rw [hmm], ?_⟩, ?_⟩
      · simp only [physEdges, e1, e2]
      · intro hc e he
        have he' : e ∈ afterOp "sub" s.cache := he
        have hin := afterOp_subset he'
        have hno := afterOp_clears gf.subClears he'
        obtain ⟨c1, _⟩ := hc e hin
        exact ⟨fun hw => (c1 hw).trans e1.symm, fun hw => absurd hw hno⟩
  | convert tgt p =>
    simp only [step, Option.map_eq_some_iff] at h
    obtain ⟨m, hm, rfl⟩ := h
    obtain ⟨k1, k2, k3⟩ := convert_meta hk hm
    refine ⟨⟨rfl, k1, k2, k3, ?_⟩,
      fun _ => coherent_of_cleared fun e he => afterOp_clears gf.mulClears (afterConvert_sub he)⟩
    simp only [physEdges_eq]; exact convert_physEdges hk hm _

theorem runHist_inv {s s' : Skel} {l : List Step} (gf : GenFacts) (hk : s.nrn.kind ≠ .voxel)
    (h : runHist s l = some s') : StepInv s s' ∧ (Coherent s → Coherent s') := by
  induction l generalizing s with
  | nil => simp only [runHist, Option.some.injEq] at h; subst h; exact ⟨StepInv.refl _, id⟩
  | cons st rest ih =>
    simp only [runHist] at h
    cases hs : step s st with
    | none => simp [hs] at h
    | some s1 =>
      simp only [hs] at h
      obtain ⟨i1, c1⟩ := step_inv gf hk hs
      obtain ⟨i2, c2⟩ := ih (by rw [i1.kind]; exact hk) h
      exact ⟨i1.trans i2, fun hc => c2 (c1 hc)⟩

/-! ### views of a coherent skeleton are computed from the table -/

theorem view_edges_of_coherent {s : Skel} (hc : Coherent s) {a : String} (ha : a ∈ weightViews) :
    edgeVecs (viewPts s a) s.par = edgeVecs s.nrn.pts s.par := by
  unfold viewPts
  cases hl : s.cache.lookup a with
  | none => rfl
  | some snap => exact (hc _ (lookup_mem hl)).1 ha

theorem view_pts_of_coherent {s : Skel} (hc : Coherent s) {a : String} (ha : a ∈ coordViews) :
    viewPts s a = s.nrn.pts := by
  unfold viewPts
  cases hl : s.cache.lookup a with
  | none => rfl
  | some snap => exact (hc _ (lookup_mem hl)).2 ha

theorem viewW_of_coherent {α : Type} (len : V3 → α) {s : Skel} (hc : Coherent s) {a : String} (ha : a ∈ weightViews) :
    viewW len s a = weights len s := by
  unfold viewW weights; rw [view_edges_of_coherent hc ha]

/-! ### weights × unit = length of the physical edge vectors -/

theorem phys_iso {u : Units} (h : u.iso = true) : u.phys = V3.rep u.phys.x := by
  obtain ⟨h1, h2⟩ := (iso_iff _).mp h
  apply V3.ext' <;> simp [Units.phys, V3.mul, V3.rep, ← h2, ← h1]

theorem weights_phys {α : Type} [Mul α] (cast : Rat → α) (len : V3 → α) (s : Skel)
    (hlen : ∀ d ∈ edgeVecs s.nrn.pts s.par, len (d.mul (V3.rep s.nrn.units.phys.x)) = cast s.nrn.units.phys.x * len d)
    (hiso : s.nrn.units.iso = true) :
    (physEdges s).map len = (weights len s).map (fun w => cast s.nrn.units.phys.x * w) := by
  unfold physEdges weights
  rw [List.map_map, List.map_map]
  apply List.map_congr_left; intro d hd
  simp only [Function.comp]
  rw [phys_iso hiso]
  exact hlen d hd

/-! ### linear observables: path sums -/

section Lin
variable {α : Type} [Semiring α]

/-- `g` commutes with rescaling all weights -/
def LinearObs (g : List α → α) : Prop := ∀ (c : α) (w : List α), g (w.map (fun x => c * x)) = c * g w

theorem cable_linear : LinearObs (cable (α := α)) := by
  intro c w
  induction w with
  | nil => simp [cable]
  | cons x xs ih =>
    simp only [cable, List.map_cons, List.foldr_cons] at ih ⊢
    rw [ih, mul_add]

theorem getD_map_mul (c : α) (w : List α) (i : Nat) : (w.map (fun x => c * x)).getD i 0 = c * w.getD i 0 := by
  simp only [List.getD_eq_getElem?_getD, List.getElem?_map]
  cases w[i]? <;> simp

theorem pathToRoot_linear (par : List Int) (fuel i : Nat) :
    LinearObs (fun w : List α => pathToRoot w par fuel i) := by
  intro c w
  induction fuel generalizing i with
  | zero => simp [pathToRoot]
  | succ n ih =>
    simp only [pathToRoot]
    cases par[i]? with
    | none => simp
    | some p =>
      simp only
      split
      · have h := ih p.toNat
        simp only at h
        rw [getD_map_mul, h, mul_add]
      · simp

theorem LinearObs.add {g h : List α → α} (hg : LinearObs g) (hh : LinearObs h) : LinearObs (fun w => g w + h w) := by
  intro c w; simp only [hg c w, hh c w, mul_add]

end Lin

theorem LinearObs.sub {α : Type} [Ring α] {g h : List α → α} (hg : LinearObs g) (hh : LinearObs h) :
    LinearObs (fun w => g w - h w) := by
  intro c w; simp only [hg c w, hh c w, mul_sub]

/-! ### the relative comparison at tolerance 0 is equality -/

theorem relClose_zero (a b : Rat) : relClose 0 a b = true ↔ a = b := by
  unfold relClose
  simp only [zero_mul, decide_eq_true_eq]
  constructor
  · intro h; have := rabs_eq_zero h; linarith
  · intro h; subst h; simp [rabs]

theorem allClose_zero (a b : List Rat) : allClose 0 a b = true ↔ a = b := by
  induction a generalizing b with
  | nil => cases b <;> simp [allClose]
  | cons x xs ih => cases b <;> simp [allClose, relClose_zero, ih]

/-! ### add_units -/

theorem addUnitsPhys_of_scaled {u u' : Units} {k : Rat} (hx : k * u'.phys.x = u.phys.x) (hy : k * u'.phys.y = u.phys.y)
    (hz : k * u'.phys.z = u.phys.z) (d : Nat) (raw : Rat) :
    addUnitsPhys d u' (raw * k ^ d) = addUnitsPhys d u raw := by
  unfold addUnitsPhys
  rw [← hx, ← hy, ← hz, mul_pow, mul_pow, mul_pow]
  apply V3.ext' <;> simp only [] <;> ring

theorem addUnitsPhys_of_unscaled {u u' : Units} {k : Rat} (hk : k ≠ 0) (hx : u'.phys.x = k * u.phys.x)
    (hy : u'.phys.y = k * u.phys.y) (hz : u'.phys.z = k * u.phys.z) (d : Nat) (raw : Rat) :
    addUnitsPhys d u' (raw / k ^ d) = addUnitsPhys d u raw := by
  have hkd : k ^ d ≠ 0 := pow_ne_zero d hk
  unfold addUnitsPhys
  rw [hx, hy, hz, mul_pow, mul_pow, mul_pow]
  apply V3.ext' <;> simp only [] <;> field_simp

theorem addUnitsPhys_mul {n m : Neuron} {k : Rat} {p : Int} (hk : n.kind ≠ .voxel) (h : mul n (.s k) p = some m)
    (d : Nat) (raw : Rat) : addUnitsPhys d m.units (raw * k ^ d) = addUnitsPhys d n.units raw := by
  obtain ⟨hnz, rfl⟩ := mul_nonvoxel hk h
  have hf := xyz_nz hnz
  have e := phys_div_mul n.units (Factor.s k).xyz p hf (V3.rep 1)
  have ex := congrArg V3.x e; have ey := congrArg V3.y e; have ez := congrArg V3.z e
  simp only [V3.mul, V3.rep, Factor.xyz, one_mul] at ex ey ez
  exact addUnitsPhys_of_scaled ex ey ez d raw

theorem addUnitsPhys_div {n m : Neuron} {k : Rat} {p : Int} (hk : n.kind ≠ .voxel) (h : div n (.s k) p = some m)
    (d : Nat) (raw : Rat) : addUnitsPhys d m.units (raw / k ^ d) = addUnitsPhys d n.units raw := by
  obtain ⟨hnz, rfl⟩ := div_nonvoxel hk h
  have hk0 : k ≠ 0 := by simpa [Factor.nz] using hnz
  apply addUnitsPhys_of_unscaled hk0 <;> rw [compact_phys] <;>
    simp only [Units.phys, V3.mul, V3.rep, Factor.xyz] <;> ring

theorem addUnitsB_zero (d : Nat) (u : Units) (raw : Rat) (q : V3) :
    addUnitsB 0 d u raw q = true ↔ q = addUnitsPhys d u raw := by
  unfold addUnitsB
  simp only [Bool.and_eq_true, relClose_zero]
  constructor
  · rintro ⟨⟨h1, h2⟩, h3⟩; exact V3.ext' h1 h2 h3
  · rintro rfl; exact ⟨⟨rfl, rfl⟩, rfl⟩

/-! ### exact rational square roots -/

theorem sqrtQ_mul_self {r : Rat} (hr : 0 ≤ r) : sqrtQ (r * r) = r := by
  unfold sqrtQ
  have hn : 0 ≤ r.num := Rat.num_nonneg.mpr hr
  obtain ⟨n, hnn⟩ := Int.eq_ofNat_of_zero_le hn
  rw [Rat.mul_self_num, Rat.mul_self_den, hnn]
  have h1 : ((n : Int) * (n : Int)).toNat = n * n := by
    rw [← Int.natCast_mul]; exact Int.toNat_natCast _
  rw [h1]
  have h2 : n * n * (r.den * r.den) = (n * r.den) * (n * r.den) := by ring
  rw [h2, Nat.sqrt_eq]
  have hd : (r.den : Rat) ≠ 0 := by exact_mod_cast r.den_nz
  have hr' : r = (n : Rat) / (r.den : Rat) := by
    have := (Rat.num_div_den r).symm
    rw [hnn] at this
    simpa using this
  push_cast
  rw [mul_div_mul_right _ _ hd]
  exact hr'.symm

theorem normSq_mul_rep (v : V3) (k : Rat) : normSq (v.mul (V3.rep k)) = k * k * normSq v := by
  simp only [normSq, V3.mul, V3.rep]; ring

/-- `elen` is absolutely homogeneous on vectors of rational length -/
theorem elen_homog {v : V3} {r k : Rat} (hr : 0 ≤ r) (hv : normSq v = r * r) (hk : 0 < k) :
    elen (v.mul (V3.rep k)) = k * elen v := by
  unfold elen
  rw [normSq_mul_rep, hv, sqrtQ_mul_self hr]
  have : k * k * (r * r) = (k * r) * (k * r) := by ring
  rw [this, sqrtQ_mul_self (mul_nonneg (le_of_lt hk) hr)]

theorem isSquareQ_spec {q : Rat} (h : isSquareQ q = true) : ∃ r, 0 ≤ r ∧ q = r * r := by
  unfold isSquareQ at h
  simp only [Bool.and_eq_true, decide_eq_true_eq, beq_iff_eq] at h
  refine ⟨sqrtQ q, ?_, h.2.symm⟩
  unfold sqrtQ
  exact div_nonneg (by exact_mod_cast Nat.zero_le _) (by exact_mod_cast Nat.zero_le _)

theorem elen_homog_on_exact {s : Skel} (hx : exactEdges s = true) {k : Rat} (hk : 0 < k) :
    ∀ d ∈ edgeVecs s.nrn.pts s.par, elen (d.mul (V3.rep k)) = k * elen d := by
  intro d hd
  unfold exactEdges at hx
  rw [List.all_eq_true] at hx
  obtain ⟨r, hr, hq⟩ := isSquareQ_spec (hx d hd)
  exact elen_homog hr hq hk

end Navis.Units
