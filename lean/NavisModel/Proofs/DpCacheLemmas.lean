import NavisModel.Model.DpCache
import NavisModel.Proofs.NblastLemmas
/-! Helper lemmas for the kd-tree cache state machine of `Dotprops` (C06). -/
namespace Navis.DpCache
open Navis.Nblast

variable {G : Type}

theorem mem_upd {α} (f : α → α) (l : List α) (i : Nat) (x : α) (h : x ∈ upd f l i) :
    x ∈ l ∨ ∃ a ∈ l, x = f a := by
  induction l generalizing i with
  | nil => simp [upd] at h
  | cons a r ih =>
    cases i with
    | zero =>
      simp only [upd, List.mem_cons] at h
      rcases h with rfl | h
      · exact Or.inr ⟨a, by simp, rfl⟩
      · exact Or.inl (by simp [h])
    | succ n =>
      simp only [upd, List.mem_cons] at h
      rcases h with rfl | h
      · exact Or.inl (by simp)
      · rcases ih n h with h | ⟨b, hb, rfl⟩
        · exact Or.inl (by simp [h])
        · exact Or.inr ⟨b, by simp [hb], rfl⟩

theorem Obj.used_of_fresh (o : Obj G) (h : o.Fresh) : o.used = o.geo := by
  unfold Obj.used
  rcases h with h | h <;> simp [h]

theorem Obj.ensure_fresh (o : Obj G) (h : o.Fresh) : o.ensure.Fresh := by
  unfold Obj.ensure
  cases ht : o.tree with
  | none => right; rfl
  | some g =>
    simp only
    exact h

theorem Obj.ensure_geo (o : Obj G) : o.ensure.geo = o.geo := by
  unfold Obj.ensure; cases o.tree <;> rfl

theorem Obj.resolve_fresh (o : Obj G) (h : o.Fresh) : o.resolve.Fresh := by
  have := Obj.ensure_fresh o h
  unfold Obj.resolve Obj.Fresh at *
  simpa using this

theorem Obj.mutate_fresh (inv : Method → Bool) (m : Method) (g : G) (o : Obj G) (hm : inv m = true) :
    (o.mutate inv m g).Fresh := by
  unfold Obj.mutate Obj.Fresh
  left
  simp [hm]

/-- A non-invalidating change keeps the invariant only when there is no tree to go stale. -/
theorem Obj.mutate_fresh_of_no_tree (inv : Method → Bool) (m : Method) (g : G) (o : Obj G)
    (ht : o.tree = none) (hl : (m.needsTangents && o.lazy) = false) : (o.mutate inv m g).Fresh := by
  unfold Obj.mutate Obj.Fresh
  left
  simp only [hl]
  cases inv m <;> simp [ht]

theorem getElem?_mem' {α} (l : List α) (i : Nat) (a : α) (h : l[i]? = some a) : a ∈ l :=
  List.mem_of_getElem? h

/-- One safe step preserves the invariant and only queries trees of the current geometry. -/
theorem step_fresh (inv : Method → Bool) (s : List (Obj G)) (e : Ev G)
    (hs : ∀ o ∈ s, o.Fresh) (he : ∀ m i g, e = .mutate m i g → inv m = true) :
    (∀ o ∈ (step inv s e).1, o.Fresh) ∧ ∀ p ∈ (step inv s e).2, p.1 = p.2 := by
  cases e with
  | use i =>
    simp only [step]
    refine ⟨?_, ?_⟩
    · intro o ho
      rcases mem_upd _ _ _ _ ho with h | ⟨a, ha, rfl⟩
      · exact hs o h
      · exact Obj.ensure_fresh a (hs a ha)
    · intro p hp
      cases hi : s[i]? with
      | none => rw [hi] at hp; simp at hp
      | some o =>
        rw [hi] at hp
        simp only [List.mem_singleton] at hp
        subst hp
        exact Obj.used_of_fresh o (hs o (getElem?_mem' s i o hi))
  | vect i =>
    simp only [step]
    cases hi : s[i]? with
    | none => exact ⟨hs, by simp⟩
    | some o =>
      simp only
      by_cases hl : o.lazy = true
      · simp only [hl, if_true]
        refine ⟨?_, ?_⟩
        · intro o' ho'
          rcases mem_upd _ _ _ _ ho' with h | ⟨a, ha, rfl⟩
          · exact hs o' h
          · exact Obj.resolve_fresh a (hs a ha)
        · intro p hp
          simp only [List.mem_singleton] at hp
          subst hp
          exact Obj.used_of_fresh o (hs o (getElem?_mem' s i o hi))
      · simp only [hl]
        exact ⟨hs, by simp⟩
  | setVect i =>
    simp only [step]
    refine ⟨?_, by simp⟩
    intro o ho
    rcases mem_upd _ _ _ _ ho with h | ⟨a, ha, rfl⟩
    · exact hs o h
    · have := hs a ha
      unfold Obj.Fresh at *
      simpa using this
  | mutate m i g =>
    simp only [step]
    have hm := he m i g rfl
    refine ⟨?_, ?_⟩
    · intro o ho
      rcases mem_upd _ _ _ _ ho with h | ⟨a, _, rfl⟩
      · exact hs o h
      · exact Obj.mutate_fresh inv m g a hm
    · intro p hp
      cases hi : s[i]? with
      | none => rw [hi] at hp; simp at hp
      | some o =>
        rw [hi] at hp
        simp only at hp
        split at hp
        · simp only [List.mem_singleton] at hp
          subst hp
          exact Obj.used_of_fresh o (hs o (getElem?_mem' s i o hi))
        · simp at hp
  | copy i =>
    simp only [step]
    cases hi : s[i]? with
    | none => exact ⟨hs, by simp⟩
    | some o =>
      refine ⟨?_, by simp⟩
      intro o' ho'
      simp only [List.mem_append, List.mem_singleton] at ho'
      rcases ho' with h | rfl
      · exact hs o' h
      · left; rfl
  | pickle keeps i =>
    simp only [step]
    cases hi : s[i]? with
    | none => exact ⟨hs, by simp⟩
    | some o =>
      refine ⟨?_, by simp⟩
      intro o' ho'
      simp only [List.mem_append, List.mem_singleton] at ho'
      rcases ho' with h | rfl
      · exact hs o' h
      · have := hs o (getElem?_mem' s i o hi)
        unfold Obj.Fresh at *
        cases keeps <;> simp_all

theorem safe_cons (inv : Method → Bool) (e : Ev G) (es : List (Ev G)) (h : safe inv (e :: es) = true) :
    (∀ m i g, e = .mutate m i g → inv m = true) ∧ safe inv es = true := by
  unfold safe at h ⊢
  simp only [List.all_cons, Bool.and_eq_true] at h
  refine ⟨?_, h.2⟩
  intro m i g hm
  subst hm
  exact h.1

/-- Every safe history preserves the invariant and only ever queries trees of the current geometry. -/
theorem run_fresh (inv : Method → Bool) (evs : List (Ev G)) (s : List (Obj G))
    (hs : ∀ o ∈ s, o.Fresh) (hsafe : safe inv evs = true) :
    (∀ o ∈ (run inv s evs).1, o.Fresh) ∧ ∀ p ∈ (run inv s evs).2, p.1 = p.2 := by
  induction evs generalizing s with
  | nil => exact ⟨hs, by simp [run]⟩
  | cons e es ih =>
    obtain ⟨he, hes⟩ := safe_cons inv e es hsafe
    obtain ⟨h1, h2⟩ := step_fresh inv s e hs he
    obtain ⟨h3, h4⟩ := ih (step inv s e).1 h1 hes
    simp only [run]
    refine ⟨h3, ?_⟩
    intro p hp
    simp only [List.mem_append] at hp
    rcases hp with hp | hp
    · exact h2 p hp
    · exact h4 p hp

/-! ## A fresh tree answers like the definition -/

theorem nearestAux_congr (p : V3) (l l' : List Pt) (h : l.map (·.p) = l'.map (·.p)) (i : Nat) (best : Nat × Rat) :
    nearestAux p l i best = nearestAux p l' i best := by
  induction l generalizing l' i best with
  | nil =>
    cases l' with
    | nil => rfl
    | cons a r => simp at h
  | cons a r ih =>
    cases l' with
    | nil => simp at h
    | cons a' r' =>
      simp only [List.map_cons, List.cons.injEq] at h
      simp only [nearestAux, h.1]
      exact ih r' h.2 _ _

theorem nearest_congr (t t' : Cloud) (h : t.map (·.p) = t'.map (·.p)) (p : V3) : nearest t p = nearest t' p := by
  cases t with
  | nil =>
    cases t' with
    | nil => rfl
    | cons a r => simp at h
  | cons a r =>
    cases t' with
    | nil => simp at h
    | cons a' r' =>
      simp only [List.map_cons, List.cons.injEq] at h
      simp only [nearest, h.1]
      rw [nearestAux_congr p r r' h.2]

theorem nearestP_fresh (cur : Cloud) (p : V3) : nearestP (cur.map (·.p)) p = nearest cur p := by
  unfold nearestP
  apply nearest_congr
  simp [List.map_map, Function.comp_def]

/-- `dist_dots` through a tree built from the target's current coordinates is the definition's match. -/
theorem matchPointVia_fresh (cur : Cloud) (bound : Option Rat) (qp : Pt) :
    matchPointVia (cur.map (·.p)) cur bound qp = matchPoint cur bound qp := by
  unfold matchPointVia matchPoint
  rw [nearestP_fresh]
  cases hn : nearest cur qp.p with
  | none => rfl
  | some jd =>
    obtain ⟨j, d⟩ := jd
    obtain ⟨hj, _, _⟩ := nearest_spec cur qp.p j d hn
    have hget : cur[j]? = some cur[j] := List.getElem?_eq_getElem hj
    have hgd : cur.getD j default = cur[j] := by
      rw [List.getD_eq_getElem?_getD, hget]; rfl
    have hc0 : cur[0]? = some (cur[0]'(by omega)) := List.getElem?_eq_getElem (by omega)
    simp only [hgd]
    cases hb : effBound bound with
    | none => simp only [hget, if_true]
    | some b =>
      simp only
      by_cases hd : d < b * b
      · simp only [hd, decide_true, if_true, hget]
      · simp [hd, hc0]

theorem pairRawVia_fresh (fn : ScoreFn) (cfg : Cfg) (q cur : Cloud) :
    pairRawVia fn cfg q (cur.map (·.p)) cur = pairRaw fn cfg q cur := by
  unfold pairRawVia pairRaw distDots
  have : q.map (matchPointVia (cur.map (·.p)) cur cfg.bound) = q.map (matchPoint cur cfg.bound) :=
    List.map_congr_left fun qp _ => matchPointVia_fresh cur cfg.bound qp
  rw [this]
  rfl

/-! ## Self score with coincident points -/

/-- Points that share a position carry the same tangent (up to sign) and the same alpha. -/
def ConsistentDup (c : Cloud) : Prop :=
  ∀ a ∈ c, ∀ b ∈ c, a.p = b.p → absR (a.v.dot b.v) = 1 ∧ b.a = a.a

theorem matchPoint_self_dup (c : Cloud) (hc : ConsistentDup c) (bound : Option Rat) (p : Pt) (hp : p ∈ c) :
    ∃ j, matchPoint c bound p = some ⟨0, 1, p.a * p.a, true, j⟩ := by
  obtain ⟨j, d, hjd⟩ := nearest_isSome c p.p (by intro h; rw [h] at hp; simp at hp)
  obtain ⟨hj, hd, hmin⟩ := nearest_spec c p.p j d hjd
  have h0 : d ≤ 0 := by have := hmin p hp; rwa [V3.d2_self] at this
  have h1 : 0 ≤ d := by rw [hd]; exact V3.d2_nonneg _ _
  have hz : d = 0 := le_antisymm h0 h1
  have hpos : p.p = c[j].p := V3.eq_of_d2_zero _ _ (by rw [← hd]; exact hz)
  obtain ⟨hdot, ha⟩ := hc p hp c[j] (List.getElem_mem hj) hpos
  refine ⟨j, ?_⟩
  unfold matchPoint
  rw [hjd, hz]
  have hget : c.getD j default = c[j] := by
    rw [List.getD_eq_getElem?_getD, List.getElem?_eq_getElem hj]; simp
  simp only [hget, hdot, ha]
  cases hb : effBound bound with
  | none => rfl
  | some b =>
    simp only
    have hb0 : b ≠ 0 := by
      unfold effBound at hb
      cases bound with
      | none => simp at hb
      | some b' =>
        simp only at hb
        split at hb
        · cases hb
        · cases hb; assumption
    have : (0 : Rat) < b * b := by
      rcases lt_or_gt_of_ne hb0 with h | h <;> nlinarith
    simp [this]

theorem pairRaw_self_dup (fn : ScoreFn) (cfg : Cfg) (c : Cloud) (hc : ConsistentDup c) :
    pairRaw fn cfg c c = sumOpt (c.map fun p => fn (.sqrt 0) (if cfg.useAlpha then .sqrt (p.a * p.a) else .x (.fin 1))) := by
  rw [pairRaw_eq]
  apply sumOpt_congr
  intro p hp
  obtain ⟨j, hj⟩ := matchPoint_self_dup c hc cfg.bound p hp
  rw [hj]
  simp only [Option.bind_some, pointScore, matchArgs]
  cases cfg.useAlpha <;> simp

theorem pairRaw_self_dup_eq_selfHit (fn : ScoreFn) (cfg : Cfg) (c : Cloud) (hc : ConsistentDup c)
    (sh : Rat) (hsh : selfHit fn cfg.useAlpha c = some sh) : pairRaw fn cfg c c = some sh := by
  rw [pairRaw_self_dup fn cfg c hc]
  unfold selfHit at hsh
  cases hua : cfg.useAlpha with
  | true => rw [hua] at hsh; simpa using hsh
  | false =>
    rw [hua] at hsh
    simp only [Bool.false_eq_true, if_false, Option.map_eq_some_iff] at hsh ⊢
    obtain ⟨c0, hc0, rfl⟩ := hsh
    rw [hc0]
    exact sumOpt_const c c0

/-- Distinct positions and unit tangents are a special case of `ConsistentDup`. -/
theorem consistentDup_of_nodup (c : Cloud) (hnd : (c.map (·.p)).Nodup) (hunit : ∀ p ∈ c, p.v.dot p.v = 1) :
    ConsistentDup c := by
  intro a ha b hb hab
  have : a = b := nodup_map_inj (·.p) c hnd a b ha hb hab
  subst this
  exact ⟨by rw [hunit a ha, absR_one], rfl⟩

/-! ## `downsampleSimple` -/

theorem downsampleSimple_small (f : Nat) (c : Cloud) (h : c.length ≤ f) : downsampleSimple f c = c := by
  unfold downsampleSimple; simp [h]

theorem filterMap_getElem?_range {α} (c : List α) (d : α) (f m : Nat) (h : ∀ i < m, i * f < c.length) :
    (List.range m).filterMap (fun i => c[i * f]?) = (List.range m).map (fun i => c.getD (i * f) d) := by
  induction m with
  | zero => rfl
  | succ k ih =>
    have hk : ∀ i < k, i * f < c.length := fun i hi => h i (by omega)
    rw [List.range_succ, List.filterMap_append, List.map_append, ih hk]
    have hlt := h k (by omega)
    simp [List.getElem?_eq_getElem hlt, List.getD_eq_getElem?_getD]

/-- Length of the down-sampled cloud: `ceil(n / f)` points (`np.arange(0, n, f)`). -/
theorem downsampleSimple_length (f : Nat) (c : Cloud) (hf : 0 < f) (h : f < c.length) :
    (downsampleSimple f c).length = (c.length + f - 1) / f := by
  unfold downsampleSimple
  have h1 : ¬ (c.length ≤ f ∨ f = 0) := by omega
  simp only [h1, if_false]
  have hall : ∀ i < (c.length + f - 1) / f, i * f < c.length := by
    intro i hi
    have : (i + 1) * f ≤ c.length + f - 1 := by
      have := Nat.div_mul_le_self (c.length + f - 1) f
      calc (i + 1) * f ≤ ((c.length + f - 1) / f) * f := Nat.mul_le_mul_right f (by omega)
        _ ≤ c.length + f - 1 := this
    have e : (i + 1) * f = i * f + f := by rw [Nat.add_mul, Nat.one_mul]
    omega
  rw [filterMap_getElem?_range c default f _ hall]
  simp

/-- … and its `i`-th point is the original's point `i·f`. -/
theorem downsampleSimple_get (f : Nat) (c : Cloud) (hf : 0 < f) (h : f < c.length) (i : Nat)
    (hi : i < (c.length + f - 1) / f) : (downsampleSimple f c)[i]? = c[i * f]? := by
  unfold downsampleSimple
  have h1 : ¬ (c.length ≤ f ∨ f = 0) := by omega
  simp only [h1, if_false]
  have hall : ∀ i < (c.length + f - 1) / f, i * f < c.length := by
    intro i hi
    have : (i + 1) * f ≤ c.length + f - 1 := by
      have := Nat.div_mul_le_self (c.length + f - 1) f
      calc (i + 1) * f ≤ ((c.length + f - 1) / f) * f := Nat.mul_le_mul_right f (by omega)
        _ ≤ c.length + f - 1 := this
    have e : (i + 1) * f = i * f + f := by rw [Nat.add_mul, Nat.one_mul]
    omega
  rw [filterMap_getElem?_range c default f _ hall]
  have hlt := hall i hi
  simp [hi, List.getD_eq_getElem?_getD, List.getElem?_eq_getElem hlt]

end Navis.DpCache
