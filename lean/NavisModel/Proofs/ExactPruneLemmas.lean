import NavisModel.Model.Prune
import NavisModel.Proofs.SegmentLemmas
/-!
Helper lemmas for `heightOf` / `exactPrune` (C12, `prune_twigs(exact=True)`): the height recurrence
and its fuel independence, monotonicity of the height along parent links, and the row-by-row
description of `exactPrune`.  Core Lean only.
-/
namespace Navis.ExactPrune
open Navis.Forest

/-! ### `foldl max` -/

theorem foldl_max_ge_init (l : List Nat) (a : Nat) : a ≤ l.foldl max a := by
  induction l generalizing a with
  | nil => exact Nat.le_refl _
  | cons x l ih => exact Nat.le_trans (Nat.le_max_left a x) (ih (max a x))

theorem le_foldl_max_of_mem {l : List Nat} {x : Nat} (a : Nat) (h : x ∈ l) : x ≤ l.foldl max a := by
  induction l generalizing a with
  | nil => simp at h
  | cons y l ih =>
    rcases List.mem_cons.mp h with h | h
    · subst h; exact Nat.le_trans (Nat.le_max_right a x) (foldl_max_ge_init l _)
    · exact ih _ h

theorem foldl_max_le {l : List Nat} {a b : Nat} (ha : a ≤ b) (h : ∀ x ∈ l, x ≤ b) : l.foldl max a ≤ b := by
  induction l generalizing a with
  | nil => exact ha
  | cons y l ih =>
    exact ih (Nat.max_le.mpr ⟨ha, h y (by simp)⟩) (fun x hx => h x (by simp [hx]))

/-- The fold is attained: it is the start value or one of the elements. -/
theorem foldl_max_mem (l : List Nat) (a : Nat) : l.foldl max a = a ∨ l.foldl max a ∈ l := by
  induction l generalizing a with
  | nil => exact Or.inl rfl
  | cons y l ih =>
    rcases ih (max a y) with h | h
    · rw [List.foldl_cons, h]
      rcases Nat.le_total a y with hay | hay
      · rw [Nat.max_eq_right hay]; exact Or.inr (by simp)
      · rw [Nat.max_eq_left hay]; exact Or.inl rfl
    · exact Or.inr (by simp [h])

/-! ### children and depth -/

theorem mem_children {t : Table} {i c : Int} : c ∈ children t i ↔ ∃ n ∈ t, n.parent = i ∧ n.id = c := by
  unfold children
  simp only [List.mem_map, List.mem_filter, beq_iff_eq]
  constructor
  · rintro ⟨n, ⟨h1, h2⟩, h3⟩; exact ⟨n, h1, h2, h3⟩
  · rintro ⟨n, h1, h2, h3⟩; exact ⟨n, ⟨h1, h2⟩, h3⟩

/-- Depth of a node: length of its root path. -/
def dep (t : Table) (i : Int) : Nat := (rootPath t i).length

theorem dep_le {t : Table} (hw : WF t) (i : Int) : dep t i ≤ t.length := rootPath_length_le hw i

theorem dep_pos {t : Table} {i : Int} (hi : i ∈ ids t) : 1 ≤ dep t i := by
  obtain ⟨rest, hr⟩ := rootPath_cons hi
  unfold dep; rw [hr]; simp

theorem child_facts {t : Table} (hw : WF t) {i c : Int} (hi : i ∈ ids t) (hc : c ∈ children t i) :
    c ∈ ids t ∧ dep t c = dep t i + 1 := by
  obtain ⟨n, hn, hp, rfl⟩ := mem_children.mp hc
  obtain ⟨m, hm, rfl⟩ := mem_ids.mp hi
  have h0 : 0 ≤ m.id := hw.2.1 m hm
  have hnp : ¬ n.parent < 0 := by omega
  refine ⟨mem_ids_of_mem hn, ?_⟩
  unfold dep
  rw [rootPath_of_nonroot hw (find?_of_mem hw.1 hn) hnp, hp]; simp

/-! ### `heightOf`: one unfolding step, fuel independence, recurrence -/

theorem heightOf_succ (t : Table) (len : Int → Int → Nat) (f : Nat) (i : Int) :
    heightOf t len (f + 1) i = ((children t i).map fun c => len c i + heightOf t len f c).foldl max 0 := rfl

theorem heightOf_leaf (t : Table) (len : Int → Int → Nat) (f : Nat) (i : Int) (h : children t i = []) :
    heightOf t len f i = 0 := by
  cases f with
  | zero => rfl
  | succ f => rw [heightOf_succ, h]; rfl

/-- With enough fuel for the height below `i`, more fuel changes nothing. -/
theorem heightOf_stable {t : Table} (hw : WF t) (len : Int → Int → Nat) :
    ∀ k i, i ∈ ids t → t.length - dep t i ≤ k → ∀ f, k + 1 ≤ f →
      heightOf t len f i = heightOf t len (k + 1) i := by
  intro k
  induction k with
  | zero =>
    intro i hi hk f hf
    obtain ⟨f', rfl⟩ : ∃ f', f = f' + 1 := ⟨f - 1, by omega⟩
    by_cases hc : children t i = []
    · rw [heightOf_leaf _ _ _ _ hc, heightOf_leaf _ _ _ _ hc]
    · exfalso
      obtain ⟨c, hcm⟩ := List.exists_mem_of_ne_nil _ hc
      obtain ⟨_, hd⟩ := child_facts hw hi hcm
      have := dep_le hw c
      have := dep_le hw i
      omega
  | succ k ih =>
    intro i hi hk f hf
    obtain ⟨f', rfl⟩ : ∃ f', f = f' + 1 := ⟨f - 1, by omega⟩
    rw [heightOf_succ, heightOf_succ]
    congr 1
    apply List.map_congr_left
    intro c hcm
    obtain ⟨hci, hd⟩ := child_facts hw hi hcm
    have := dep_le hw c
    rw [ih c hci (by omega) f' (by omega)]

/-- **Fuel independence**: `|t|` steps suffice at every node of a well-formed forest. -/
theorem heightOf_fuel {t : Table} (hw : WF t) (len : Int → Int → Nat) {i : Int} (hi : i ∈ ids t)
    (f : Nat) (hf : t.length ≤ f) : heightOf t len f i = heightOf t len (t.length + 1) i := by
  have h1 := dep_pos hi
  have h2 := dep_le hw i
  have a := heightOf_stable hw len (t.length - 1) i hi (by omega) f (by omega)
  have b := heightOf_stable hw len (t.length - 1) i hi (by omega) (t.length + 1) (by omega)
  rw [a, b]

/-- The recurrence at the *same* fuel on both sides. -/
theorem heightOf_rec {t : Table} (hw : WF t) (len : Int → Int → Nat) {i : Int} (hi : i ∈ ids t) :
    heightOf t len (t.length + 1) i =
      ((children t i).map fun c => len c i + heightOf t len (t.length + 1) c).foldl max 0 := by
  rw [heightOf_succ]
  congr 1
  apply List.map_congr_left
  intro c hcm
  rw [heightOf_fuel hw len (child_facts hw hi hcm).1 _ (Nat.le_refl _)]

/-- A child's height plus the edge to it is at most the parent's height. -/
theorem height_child_le {t : Table} (hw : WF t) (len : Int → Int → Nat) {n : Node} (hn : n ∈ t)
    (hp : ¬ n.parent < 0) :
    heightOf t len (t.length + 1) n.id + len n.id n.parent ≤ heightOf t len (t.length + 1) n.parent := by
  rw [heightOf_rec hw len (WF_parent_mem hw hn hp)]
  apply le_foldl_max_of_mem
  apply List.mem_map.mpr
  exact ⟨n.id, mem_children.mpr ⟨n, hn, rfl, rfl⟩, by omega⟩

/-! ### `exactPrune`, row by row -/

/-- Height as a rational, at the fuel `exactPrune` uses. -/
def H (t : Table) (len : Int → Int → Nat) (j : Int) : Rat := (heightOf t len (t.length + 1) j : Nat)

/-- What `exactPrune` emits for one row. -/
def exactRow (t : Table) (len : Int → Int → Nat) (size : Rat) (n : Node) : Option (Int × Int × Rat) :=
  if !decide (H t len n.id ≤ size) then some (n.id, n.parent, 0)
  else if n.parent < 0 then some (n.id, n.parent, 0)
  else if decide (H t len n.parent ≤ size) then none
  else if ((len n.id n.parent : Nat) : Rat) < size - H t len n.id then none
  else some (n.id, n.parent,
    if ((len n.id n.parent : Nat) : Rat) = 0 then 0 else (size - H t len n.id) / ((len n.id n.parent : Nat) : Rat))

theorem exactPrune_eq (t : Table) (len : Int → Int → Nat) (size : Rat) :
    exactPrune t len size = t.filterMap (exactRow t len size) := rfl

theorem mem_exactPrune {t : Table} {len : Int → Int → Nat} {size : Rat} {r : Int × Int × Rat} :
    r ∈ exactPrune t len size ↔ ∃ n ∈ t, exactRow t len size n = some r := by
  rw [exactPrune_eq, List.mem_filterMap]

/-- Case analysis of one row. -/
theorem exactRow_cases (t : Table) (len : Int → Int → Nat) (size : Rat) (n : Node) :
    (size < H t len n.id ∧ exactRow t len size n = some (n.id, n.parent, 0)) ∨
    (H t len n.id ≤ size ∧ n.parent < 0 ∧ exactRow t len size n = some (n.id, n.parent, 0)) ∨
    (H t len n.id ≤ size ∧ ¬ n.parent < 0 ∧ H t len n.parent ≤ size ∧ exactRow t len size n = none) ∨
    (H t len n.id ≤ size ∧ ¬ n.parent < 0 ∧ size < H t len n.parent ∧
      ((len n.id n.parent : Nat) : Rat) < size - H t len n.id ∧ exactRow t len size n = none) ∨
    (H t len n.id ≤ size ∧ ¬ n.parent < 0 ∧ size < H t len n.parent ∧
      ¬ ((len n.id n.parent : Nat) : Rat) < size - H t len n.id ∧
      exactRow t len size n = some (n.id, n.parent,
        if ((len n.id n.parent : Nat) : Rat) = 0 then 0
        else (size - H t len n.id) / ((len n.id n.parent : Nat) : Rat))) := by
  unfold exactRow
  by_cases h1 : H t len n.id ≤ size
  · by_cases h2 : n.parent < 0
    · exact Or.inr (Or.inl ⟨h1, h2, by simp [h1, h2]⟩)
    · by_cases h3 : H t len n.parent ≤ size
      · exact Or.inr (Or.inr (Or.inl ⟨h1, h2, h3, by simp [h1, h2, h3]⟩))
      · have h3' : size < H t len n.parent := Rat.not_le.mp h3
        by_cases h4 : ((len n.id n.parent : Nat) : Rat) < size - H t len n.id
        · exact Or.inr (Or.inr (Or.inr (Or.inl ⟨h1, h2, h3', h4, by simp [h1, h2, h3, h4]⟩)))
        · exact Or.inr (Or.inr (Or.inr (Or.inr ⟨h1, h2, h3', h4, by simp [h1, h2, h3, h4]⟩)))
  · exact Or.inl ⟨Rat.not_le.mp h1, by simp [h1]⟩

/-- The fraction `τ` of a surviving tip: in `[0, 1]`, and exactly `size` of cable is left below it. -/
theorem tau_facts {h size L : Rat} (h1 : h ≤ size) (h0 : 0 ≤ L) (h4 : ¬ L < size - h) :
    0 ≤ (if L = 0 then 0 else (size - h) / L) ∧ (if L = 0 then 0 else (size - h) / L) ≤ 1 ∧
    (L ≠ 0 → h + (if L = 0 then 0 else (size - h) / L) * L = size) := by
  by_cases hL : L = 0
  · simp only [hL, if_true]
    exact ⟨Rat.le_refl, by decide, fun h => absurd rfl h⟩
  · simp only [hL, if_false]
    have hpos : 0 < L := by grind
    have hc : (size - h) / L * L = size - h := Rat.div_mul_cancel hL
    refine ⟨?_, ?_, fun _ => by rw [hc]; grind⟩
    · apply Rat.le_of_mul_le_mul_right (c := L) _ hpos
      rw [hc]; grind
    · apply Rat.le_of_mul_le_mul_right (c := L) _ hpos
      rw [hc]; grind

theorem H_parent_ge {t : Table} (hw : WF t) (len : Int → Int → Nat) {n : Node} (hn : n ∈ t) (hp : ¬ n.parent < 0) :
    H t len n.id + ((len n.id n.parent : Nat) : Rat) ≤ H t len n.parent := by
  have := height_child_le hw len hn hp
  unfold H
  exact_mod_cast this

theorem H_parent_ge' {t : Table} (hw : WF t) (len : Int → Int → Nat) {n : Node} (hn : n ∈ t) (hp : ¬ n.parent < 0) :
    H t len n.id ≤ H t len n.parent := by
  have h1 := H_parent_ge hw len hn hp
  have h2 : (0 : Rat) ≤ ((len n.id n.parent : Nat) : Rat) := by exact_mod_cast Nat.zero_le _
  grind

theorem exactRow_fst {t : Table} {len : Int → Int → Nat} {size : Rat} {n : Node} {r : Int × Int × Rat}
    (h : exactRow t len size n = some r) : r.1 = n.id ∧ r.2.1 = n.parent := by
  rcases exactRow_cases t len size n with ⟨_, e⟩ | ⟨_, _, e⟩ | ⟨_, _, _, e⟩ | ⟨_, _, _, _, e⟩ | ⟨_, _, _, _, e⟩ <;>
    rw [e] at h <;> first | (cases h; exact ⟨rfl, rfl⟩) | (exact absurd h (by simp))

theorem filterMap_fst_sublist {α : Type} (f : Node → Option (Int × α)) (hf : ∀ n r, f n = some r → r.1 = n.id)
    (l : Table) : ((l.filterMap f).map (·.1)).Sublist (ids l) := by
  induction l with
  | nil => simp
  | cons a l ih =>
    rw [List.filterMap_cons]
    cases h : f a with
    | none => exact ih.trans (List.sublist_cons_self _ _)
    | some r =>
      simp only [List.map_cons, ids_cons]
      rw [hf a r h]
      exact ih.cons_cons _

/-- The ids of the result, in order, are a sublist of the ids of the table. -/
theorem exactPrune_ids_sublist (t : Table) (len : Int → Int → Nat) (size : Rat) :
    ((exactPrune t len size).map (·.1)).Sublist (ids t) := by
  rw [exactPrune_eq]
  exact filterMap_fst_sublist _ (fun n r h => (exactRow_fst h).1) t

end Navis.ExactPrune
