import NavisModel.Model.Conn
/-!
Helper lemmas for property C20 (connectivity from connector tables).  Core Lean only.
-/
namespace Navis.Conn

/-! ## association-list dicts -/
section Dict
variable {κ β : Type} [DecidableEq κ]

theorem dget_dset (d : List (κ × β)) (k k' : κ) (v : β) :
    dget (dset d k v) k' = if k = k' then some v else dget d k' := by
  induction d with
  | nil => simp [dset, dget]
  | cons p t ih =>
    obtain ⟨a, b⟩ := p
    simp only [dset]
    by_cases h : a = k
    · subst h
      simp only [if_true, dget]
      by_cases h2 : a = k' <;> simp [h2]
    · simp only [if_neg h, dget, ih]
      by_cases h2 : a = k' <;> by_cases h3 : k = k' <;> simp_all

theorem dget_isSome_iff (d : List (κ × β)) (k : κ) : (dget d k).isSome ↔ k ∈ dkeys d := by
  induction d with
  | nil => simp [dget, dkeys]
  | cons p t ih =>
    obtain ⟨a, b⟩ := p
    simp only [dget, dkeys, List.map_cons, List.mem_cons]
    by_cases h : a = k
    · simp [h]
    · simp only [if_neg h]
      rw [ih]
      constructor
      · intro h1; exact Or.inr h1
      · rintro (h1 | h1)
        · exact absurd h1.symm h
        · exact h1

end Dict

section GFold
variable {α κ β : Type} [DecidableEq κ]

theorem dget_gfold (key : α → κ) (upd : Option β → α → β) (l : List α) (d0 : List (κ × β)) (k : κ) :
    dget (gfold key upd l d0) k
      = (l.filter fun x => decide (key x = k)).foldl (fun o x => some (upd o x)) (dget d0 k) := by
  induction l generalizing d0 with
  | nil => simp [gfold]
  | cons x t ih =>
    have hstep : gfold key upd (x :: t) d0 = gfold key upd t (dset d0 (key x) (upd (dget d0 (key x)) x)) := by
      simp [gfold]
    rw [hstep, ih, dget_dset]
    by_cases h : key x = k
    · subst h; simp
    · simp [h]

theorem foldl_some_isSome (upd : Option β → α → β) (l : List α) (o : Option β) :
    (l.foldl (fun o x => some (upd o x)) o).isSome = (o.isSome || !l.isEmpty) := by
  induction l generalizing o with
  | nil => simp
  | cons x t ih => simp [ih]

theorem mem_dkeys_gfold (key : α → κ) (upd : Option β → α → β) (l : List α) (k : κ) :
    k ∈ dkeys (gfold key upd l []) ↔ ∃ x ∈ l, key x = k := by
  rw [← dget_isSome_iff, dget_gfold, foldl_some_isSome]
  simp [dget, List.filter_eq_nil_iff]

theorem foldl_append_some {γ : Type} (f : α → γ) (l : List α) (o : Option (List γ)) :
    l.foldl (fun o x => some (o.getD [] ++ [f x])) o
      = if l = [] then o else some (o.getD [] ++ l.map f) := by
  induction l generalizing o with
  | nil => simp
  | cons x t ih =>
    simp only [List.foldl_cons, ih]
    by_cases h : t = []
    · subst h; simp
    · simp [h]

theorem foldl_count_some (l : List α) (o : Option Nat) :
    l.foldl (fun o _ => some (o.getD 0 + 1)) o
      = if l = [] then o else some (o.getD 0 + l.length) := by
  induction l generalizing o with
  | nil => simp
  | cons x t ih =>
    simp only [List.foldl_cons, ih]
    by_cases h : t = []
    · subst h; simp
    · simp [h]; omega

end GFold

/-! ## dedup -/
section Dedup
variable {α : Type} [DecidableEq α]

theorem mem_dedup (l : List α) (a : α) : a ∈ dedup l ↔ a ∈ l := by
  induction l with
  | nil => simp [dedup]
  | cons x t ih =>
    simp only [dedup, List.mem_cons, List.mem_filter, ih]
    by_cases h : a = x
    · simp [h]
    · simp [h]

theorem nodup_dedup (l : List α) : (dedup l).Nodup := by
  induction l with
  | nil => simp [dedup]
  | cons x t ih =>
    simp only [dedup, List.nodup_cons]
    refine ⟨?_, ih.filter _⟩
    simp [List.mem_filter]

end Dedup

/-! ## permutations of `flatMap` -/
section Perm
variable {α β : Type}

theorem flatMap_perm_congr (l : List α) (f g : α → List β) (h : ∀ a ∈ l, (f a).Perm (g a)) :
    (l.flatMap f).Perm (l.flatMap g) := by
  induction l with
  | nil => simp
  | cons x t ih =>
    simp only [List.flatMap_cons]
    exact (h x (by simp)).append (ih fun a ha => h a (by simp [ha]))

theorem flatMap_eq_nil_of (l : List α) (f : α → List β) (h : ∀ a ∈ l, f a = []) : l.flatMap f = [] := by
  induction l with
  | nil => rfl
  | cons x t ih =>
    simp only [List.flatMap_cons, h x (by simp), List.nil_append]
    exact ih fun a ha => h a (by simp [ha])

/-- split a `flatMap` over a predicate -/
theorem flatMap_filter_split (p : α → Bool) (l : List α) (f : α → List β) :
    (l.flatMap f).Perm ((l.filter p).flatMap f ++ (l.filter fun x => !p x).flatMap f) := by
  rw [← List.flatMap_append]
  exact ((List.filter_append_perm p l).flatMap_right f).symm

/-- Regroup a `flatMap` over a list by the fibres of a key: `K` is duplicate-free and contains the key of
every element that contributes anything. -/
theorem flatMap_fibres {κ : Type} [DecidableEq κ] (key : α → κ) (f : α → List β) (K : List κ) (l : List α)
    (hK : K.Nodup) (hcov : ∀ x ∈ l, key x ∈ K ∨ f x = []) :
    (l.flatMap f).Perm (K.flatMap fun c => (l.filter fun x => decide (key x = c)).flatMap f) := by
  induction K generalizing l with
  | nil =>
    have : l.flatMap f = [] := flatMap_eq_nil_of l f fun a ha => by
      rcases hcov a ha with h | h
      · simp at h
      · exact h
    simp [this]
  | cons k K ih =>
    obtain ⟨hk, hK'⟩ := List.nodup_cons.mp hK
    simp only [List.flatMap_cons]
    refine (flatMap_filter_split (fun x => decide (key x = k)) l f).trans (List.Perm.append_left _ ?_)
    have hcov' : ∀ x ∈ l.filter (fun x => !decide (key x = k)), key x ∈ K ∨ f x = [] := by
      intro x hx
      obtain ⟨hx1, hx2⟩ := List.mem_filter.mp hx
      rcases hcov x hx1 with h | h
      · rcases List.mem_cons.mp h with h | h
        · simp [h] at hx2
        · exact Or.inl h
      · exact Or.inr h
    refine (ih _ hK' hcov').trans (flatMap_perm_congr _ _ _ fun c hc => List.Perm.of_eq ?_)
    have hck : c ≠ k := fun h => hk (h ▸ hc)
    congr 1
    rw [List.filter_filter]
    apply List.filter_congr
    intro x _
    by_cases hx : key x = c
    · simp [hx, hck]
    · simp [hx]

/-- if exactly one element satisfies `p` and everything else contributes nothing -/
theorem flatMap_single (p : α → Bool) (l : List α) (f : α → List β) (a : α)
    (hp : l.filter p = [a]) (hf : ∀ x ∈ l, p x = false → f x = []) : l.flatMap f = f a := by
  induction l with
  | nil => simp at hp
  | cons x t ih =>
    simp only [List.flatMap_cons]
    by_cases hx : p x = true
    · rw [List.filter_cons_of_pos hx] at hp
      obtain ⟨rfl, ht⟩ := List.cons.inj hp
      have : t.flatMap f = [] := flatMap_eq_nil_of t f fun b hb => by
        apply hf b (by simp [hb])
        have := List.filter_eq_nil_iff.mp ht b hb
        simpa using this
      simp [this]
    · have hx' : p x = false := by simpa using hx
      rw [List.filter_cons_of_neg hx] at hp
      rw [hf x (by simp) hx', List.nil_append]
      exact ih hp fun b hb => hf b (by simp [hb])

theorem flatMap_ite_singleton (p : α → Bool) (l : List α) (g : α → β) :
    l.flatMap (fun x => if p x then [g x] else []) = (l.filter p).map g := by
  induction l with
  | nil => rfl
  | cons x t ih =>
    simp only [List.flatMap_cons, ih]
    by_cases hx : p x = true
    · simp [hx]
    · simp [hx]

end Perm

/-! ## the two dicts built by `add_neuron` -/


def inUpd : Option (String × Int) → CRow → String × Int := fun _ r => (r.name, r.node)
def outUpd : Option (List (String × Int)) → CRow → List (String × Int) := fun o r => o.getD [] ++ [(r.name, r.node)]

theorem foldl_addRow (rows : List CRow) (m0 : Maps) :
    rows.foldl addRow m0
      = ⟨gfold CRow.cid inUpd (rows.filter isPre) m0.inputs, gfold CRow.cid outUpd (rows.filter isPost) m0.outputs⟩ := by
  induction rows generalizing m0 with
  | nil => simp [gfold]
  | cons r t ih =>
    rw [List.foldl_cons, ih]
    unfold addRow
    by_cases h1 : r.type = 1
    · have hpre : isPre r = false := by simp [isPre, h1]
      have hpost : isPost r = true := by simp [isPost, h1]
      simp [h1, hpre, hpost, gfold, outUpd]
    · by_cases h0 : r.type = 0
      · have hpre : isPre r = true := by simp [isPre, h0]
        have hpost : isPost r = false := by simp [isPost, h0]
        simp [h0, hpre, hpost, gfold, inUpd]
      · have hpre : isPre r = false := by simp [isPre, h0]
        have hpost : isPost r = false := by simp [isPost, h1]
        simp [h0, h1, hpre, hpost]

theorem build_inputs (rows : List CRow) : (build rows).inputs = gfold CRow.cid inUpd (rows.filter isPre) [] := by
  simp [build, foldl_addRow]

theorem build_outputs (rows : List CRow) : (build rows).outputs = gfold CRow.cid outUpd (rows.filter isPost) [] := by
  simp [build, foldl_addRow]

theorem filter_pre_cid (rows : List CRow) (c : Int) :
    (rows.filter isPre).filter (fun x => decide (x.cid = c)) = preRows rows c := by
  rw [List.filter_filter]
  apply List.filter_congr
  intro x _
  by_cases h : x.cid = c <;> simp [h]

theorem filter_post_cid (rows : List CRow) (c : Int) :
    (rows.filter isPost).filter (fun x => decide (x.cid = c)) = postRows rows c := by
  rw [List.filter_filter]
  apply List.filter_congr
  intro x _
  by_cases h : x.cid = c <;> simp [h]

theorem foldl_last {α γ : Type} (f : α → γ) (l : List α) (o : Option γ) :
    l.foldl (fun _ x => some (f x)) o = match l.getLast? with | none => o | some x => some (f x) := by
  induction l generalizing o with
  | nil => simp
  | cons x t ih =>
    rw [List.foldl_cons, ih, List.getLast?_cons]
    cases t.getLast? <;> simp

/-- **last writer wins**: `conn_inputs[c]` is the last presynaptic row of connector `c` in visiting order -/
theorem inputs_last_writer (rows : List CRow) (c : Int) :
    dget (build rows).inputs c = (preRows rows c).getLast?.map fun p => (p.name, p.node) := by
  rw [build_inputs, dget_gfold, filter_pre_cid]
  have := foldl_last (fun p : CRow => (p.name, p.node)) (preRows rows c) none
  simp only [inUpd, dget]
  rw [this]
  cases (preRows rows c).getLast? <;> rfl

/-- `conn_outputs[c]` lists every postsynaptic row of connector `c`, in visiting order, with repetitions -/
theorem outputs_all (rows : List CRow) (c : Int) :
    dget (build rows).outputs c
      = if postRows rows c = [] then none else some ((postRows rows c).map fun p => (p.name, p.node)) := by
  rw [build_outputs, dget_gfold, filter_post_cid]
  have := foldl_append_some (fun p : CRow => (p.name, p.node)) (postRows rows c) none
  simp only [outUpd, dget]
  rw [this]
  simp

theorem mem_unionKeys (rows : List CRow) (c : Int) :
    c ∈ unionKeys (build rows) ↔ preRows rows c ≠ [] ∨ postRows rows c ≠ [] := by
  unfold unionKeys
  rw [mem_dedup, List.mem_append, build_inputs, build_outputs, mem_dkeys_gfold, mem_dkeys_gfold]
  simp only [preRows, postRows, ne_eq, List.filter_eq_nil_iff, List.mem_filter]
  constructor
  · rintro (⟨x, ⟨hx, hp⟩, hc⟩ | ⟨x, ⟨hx, hp⟩, hc⟩)
    · left; intro h; exact h x hx (by simp [hp, hc])
    · right; intro h; exact h x hx (by simp [hp, hc])
  · rintro (h | h)
    · left
      refine Classical.byContradiction fun hne => h fun x hx hp => hne ?_
      simp only [Bool.and_eq_true, beq_iff_eq] at hp
      exact ⟨x, ⟨hx, hp.1⟩, hp.2⟩
    · right
      refine Classical.byContradiction fun hne => h fun x hx hp => hne ?_
      simp only [Bool.and_eq_true, beq_iff_eq] at hp
      exact ⟨x, ⟨hx, hp.1⟩, hp.2⟩

theorem nodup_unionKeys (m : Maps) : (unionKeys m).Nodup := nodup_dedup _

theorem hasPre_eq (rows : List CRow) (c : Int) : hasPre rows c = !(preRows rows c).isEmpty := by
  unfold hasPre preRows
  induction rows with
  | nil => rfl
  | cons x t ih =>
    simp only [List.any_cons, ih, List.filter_cons]
    cases (isPre x && x.cid == c) <;> simp

theorem hasPost_eq (rows : List CRow) (c : Int) : hasPost rows c = !(postRows rows c).isEmpty := by
  unfold hasPost postRows
  induction rows with
  | nil => rfl
  | cons x t ih =>
    simp only [List.any_cons, ih, List.filter_cons]
    cases (isPost x && x.cid == c) <;> simp

theorem flatMap_congr' {α β : Type} (l : List α) (f g : α → List β) (h : ∀ a ∈ l, f a = g a) :
    l.flatMap f = l.flatMap g := by
  induction l with
  | nil => rfl
  | cons x t ih =>
    simp only [List.flatMap_cons, h x (by simp)]
    rw [ih fun a ha => h a (by simp [ha])]

theorem isPre_isPost (r : CRow) : isPre r = true → isPost r = false := by
  unfold isPre isPost
  intro h
  have : r.type = 0 := by simpa using h
  simp [this]

/-! ## per-connector agreement of the code's join with the relational join -/

def fibre (rows : List CRow) (c : Int) : List CRow := rows.filter fun x => decide (x.cid = c)

theorem fibre_filter_pre (rows : List CRow) (c : Int) : (fibre rows c).filter isPre = preRows rows c := by
  unfold fibre preRows
  rw [List.filter_filter]
  apply List.filter_congr
  intro x _
  by_cases h : x.cid = c <;> simp [h]

theorem fibre_filter_post (rows : List CRow) (c : Int) : (fibre rows c).filter isPost = postRows rows c := by
  unfold fibre postRows
  rw [List.filter_filter]
  apply List.filter_congr
  intro x _
  by_cases h : x.cid = c <;> simp [h]

theorem mem_fibre {rows : List CRow} {c : Int} {x : CRow} : x ∈ fibre rows c ↔ x ∈ rows ∧ x.cid = c := by
  simp [fibre]

theorem filter_true' {α : Type} (l : List α) : l.filter (fun _ => true) = l :=
  List.filter_eq_self.mpr (by simp)

theorem edgesOf_no_pre (io : Bool) (rows : List CRow) (c : Int)
    (hpre : preRows rows c = []) (hpost : postRows rows c ≠ []) :
    edgesOf (build rows) io c = (fibre rows c).flatMap (joinRow io rows) := by
  have hsrc : srcOf (build rows) c = (OTHER, none) := by
    simp [srcOf, inputs_last_writer, hpre]
  have htgt : tgtsOf (build rows) c = (postRows rows c).map fun p => (p.name, some p.node) := by
    simp [tgtsOf, outputs_all, hpost]
  have hnp : ∀ x ∈ fibre rows c, isPre x = false := by
    intro x hx
    have : x ∉ (fibre rows c).filter isPre := by rw [fibre_filter_pre, hpre]; simp
    simpa [List.mem_filter, hx] using this
  cases io with
  | false =>
    have hR : (fibre rows c).flatMap (joinRow false rows) = [] :=
      flatMap_eq_nil_of _ _ fun x hx => by simp [joinRow, hnp x hx]
    simp [edgesOf, hsrc, hR]
  | true =>
    have hR : (fibre rows c).flatMap (joinRow true rows)
        = (fibre rows c).flatMap fun x => if isPost x then [(⟨c, OTHER, x.name, none, some x.node⟩ : Edge)] else [] := by
      apply flatMap_congr'
      intro x hx
      have hc : x.cid = c := (mem_fibre.mp hx).2
      simp [joinRow, hnp x hx, hc, hasPre_eq, hpre]
    rw [hR, flatMap_ite_singleton, fibre_filter_post]
    simp [edgesOf, hsrc, htgt, List.filter_map, Function.comp_def, filter_true']

theorem edgesOf_one_pre (io : Bool) (rows : List CRow) (c : Int) (p : CRow) (hpre : preRows rows c = [p]) :
    edgesOf (build rows) io c = (fibre rows c).flatMap (joinRow io rows) := by
  have hp : p ∈ preRows rows c := by simp [hpre]
  have hpc : p.cid = c := by
    have := (List.mem_filter.mp hp).2
    simp only [Bool.and_eq_true, beq_iff_eq] at this
    exact this.2
  have hpp : isPre p = true := by
    have := (List.mem_filter.mp hp).2
    simp only [Bool.and_eq_true] at this
    exact this.1
  have hsrc : srcOf (build rows) c = (p.name, some p.node) := by
    simp [srcOf, inputs_last_writer, hpre]
  have hR : (fibre rows c).flatMap (joinRow io rows) = joinRow io rows p := by
    apply flatMap_single isPre
    · rw [fibre_filter_pre, hpre]
    · intro x hx hnp
      have hc : x.cid = c := (mem_fibre.mp hx).2
      simp [joinRow, hnp, hc, hasPre_eq, hpre]
  rw [hR]
  by_cases hpost : postRows rows c = []
  · have htgt : tgtsOf (build rows) c = [(OTHER, none)] := by simp [tgtsOf, outputs_all, hpost]
    cases io <;> simp [edgesOf, hsrc, htgt, joinRow, hpp, hpc, hasPost_eq, hpost]
  · have htgt : tgtsOf (build rows) c = (postRows rows c).map fun q => (q.name, some q.node) := by
      simp [tgtsOf, outputs_all, hpost]
    have hne : (postRows rows c).isEmpty = false := by
      cases h : postRows rows c with
      | nil => exact absurd h hpost
      | cons _ _ => rfl
    simp [edgesOf, hsrc, htgt, joinRow, hpp, hpc, hasPost_eq, hne, List.filter_map, Function.comp_def, filter_true']
    rfl


theorem edges_perm_spec (io : Bool) (rows : List CRow) (hu : PreUnique rows) :
    (edges (build rows) io).Perm (specEdges io rows) := by
  unfold edges specEdges
  have h1 := flatMap_fibres CRow.cid (joinRow io rows) (unionKeys (build rows)) rows (nodup_unionKeys _) (by
    intro x hx
    by_cases hpre : isPre x = true
    · left
      rw [mem_unionKeys]; left
      intro h
      have : x ∈ preRows rows x.cid := by simp [preRows, hx, hpre]
      rw [h] at this; simp at this
    · by_cases hpost : isPost x = true
      · left
        rw [mem_unionKeys]; right
        intro h
        have : x ∈ postRows rows x.cid := by simp [postRows, hx, hpost]
        rw [h] at this; simp at this
      · right
        simp [joinRow, hpre, hpost])
  refine List.Perm.trans ?_ h1.symm
  apply flatMap_perm_congr
  intro c hc
  apply List.Perm.of_eq
  have hlen := hu c
  rcases hpre : preRows rows c with _ | ⟨p, _ | ⟨q, t⟩⟩
  · rcases (mem_unionKeys rows c).mp hc with h | h
    · exact absurd hpre h
    · exact edgesOf_no_pre io rows c hpre h
  · exact edgesOf_one_pre io rows c p hpre
  · rw [hpre] at hlen; simp at hlen

theorem preUniqueB_iff (rows : List CRow) : preUniqueB rows = true ↔ PreUnique rows := by
  unfold preUniqueB PreUnique preRows
  rw [List.all_eq_true]
  constructor
  · intro h c
    by_cases hc : (rows.filter fun q => isPre q && q.cid == c) = []
    · simp [hc]
    · obtain ⟨x, hx⟩ := List.exists_mem_of_ne_nil _ hc
      obtain ⟨hx1, hx2⟩ := List.mem_filter.mp hx
      simp only [Bool.and_eq_true, beq_iff_eq] at hx2
      have := h x hx1
      rw [hx2.2] at this
      simpa using this
  · intro h x _
    simpa using h x.cid

/-! ## the three views are folds over the same edge stream -/


theorem adjCell_eq (es : List Edge) (s t : String) : adjCell es s t = (between es s t).length := by
  unfold adjCell adjCounts
  rw [dget_gfold, foldl_count_some]
  unfold between
  by_cases h : es.filter (fun e => decide (e.key = (s, t))) = []
  · simp [h, dget]
  · simp [h, dget]

theorem digraphConns_eq (es : List Edge) (s t : String) :
    digraphConns es s t = if between es s t = [] then none else some ((between es s t).map Edge.syn) := by
  unfold digraphConns digraphEdges
  rw [dget_gfold, foldl_append_some]
  unfold between
  by_cases h : es.filter (fun e => decide (e.key = (s, t))) = []
  · simp [h, dget]
  · simp [h, dget]

theorem digraphWeight_eq (es : List Edge) (s t : String) : digraphWeight es s t = (between es s t).length := by
  unfold digraphWeight
  rw [digraphConns_eq]
  split <;> simp_all

theorem multiBetween_eq (es : List Edge) (s t : String) : multiBetween es s t = (between es s t).map Edge.syn := by
  unfold multiBetween multiEdges between
  rw [List.filter_map, List.map_map]
  rfl

/-! ## sums over `Rat` -/

theorem rsum_cons (a : Rat) (l : List Rat) : rsum (a :: l) = a + rsum l := rfl

theorem rsum_append (l₁ l₂ : List Rat) : rsum (l₁ ++ l₂) = rsum l₁ + rsum l₂ := by
  induction l₁ with
  | nil => simp [rsum, Rat.zero_add]
  | cons a t ih => simp only [List.cons_append, rsum_cons, ih, Rat.add_assoc]

theorem rsum_perm {l₁ l₂ : List Rat} (h : l₁.Perm l₂) : rsum l₁ = rsum l₂ := by
  induction h with
  | nil => rfl
  | cons a _ ih => simp only [rsum_cons, ih]
  | swap a b l =>
    simp only [rsum_cons]
    rw [← Rat.add_assoc, ← Rat.add_assoc, Rat.add_comm b a]
  | trans _ _ ih₁ ih₂ => exact ih₁.trans ih₂

theorem rsum_flatMap {α : Type} (l : List α) (f : α → List Rat) :
    rsum (l.flatMap f) = rsum (l.map fun x => rsum (f x)) := by
  induction l with
  | nil => rfl
  | cons x t ih => simp only [List.flatMap_cons, List.map_cons, rsum_append, rsum_cons, ih]

theorem rsum_map_add {α : Type} (l : List α) (f g : α → Rat) :
    rsum (l.map fun x => f x + g x) = rsum (l.map f) + rsum (l.map g) := by
  induction l with
  | nil => simp [rsum, Rat.add_zero]
  | cons x t ih =>
    simp only [List.map_cons, rsum_cons, ih]
    rw [Rat.add_assoc, Rat.add_assoc, ← Rat.add_assoc (g x), Rat.add_comm (g x), Rat.add_assoc]

theorem rsum_map_zero {α : Type} (l : List α) : rsum (l.map fun _ => (0 : Rat)) = 0 := by
  induction l with
  | nil => rfl
  | cons x t ih => simp only [List.map_cons, rsum_cons, ih, Rat.add_zero]

/-- Fubini for finite double sums -/
theorem rsum_swap {α β : Type} (l₁ : List α) (l₂ : List β) (f : α → β → Rat) :
    rsum (l₁.map fun a => rsum (l₂.map fun b => f a b)) = rsum (l₂.map fun b => rsum (l₁.map fun a => f a b)) := by
  induction l₁ with
  | nil => exact (rsum_map_zero l₂).symm
  | cons x t ih =>
    simp only [List.map_cons, rsum_cons, ih]
    rw [← rsum_map_add]

theorem flatMap_singleton_map {α β : Type} (l : List α) (f : α → β) : l.flatMap (fun x => [f x]) = l.map f := by
  induction l with
  | nil => rfl
  | cons x t ih => simp [ih]

/-- summing group by group is summing everything, for any duplicate-free list of groups that covers the keys -/
theorem rsum_fibres {α κ : Type} [DecidableEq κ] (key : α → κ) (f : α → Rat) (K : List κ) (l : List α)
    (hK : K.Nodup) (hcov : ∀ x ∈ l, key x ∈ K) :
    rsum (K.map fun g => rsum ((l.filter fun x => decide (key x = g)).map f)) = rsum (l.map f) := by
  have h := flatMap_fibres key (fun x => [f x]) K l hK (fun x hx => Or.inl (hcov x hx))
  simp only [flatMap_singleton_map] at h
  rw [rsum_perm h, rsum_flatMap]

/-! ## `group_matrix` -/

theorem total_transpose (M : LMat) : total (transpose M) = total M := by
  unfold total transpose
  exact rsum_swap _ _ _

/-- row grouping by SUM conserves the total of the rows that are kept -/
theorem total_groupRows_sum (g : List (String × String)) (drop : Bool) (M : LMat) :
    total (groupRows .sum g drop M) = total { M with rows := keptRows g drop M.rows } := by
  unfold total groupRows
  simp only [agg]
  have h1 : ∀ gl : String,
      rsum (M.cols.map fun c => rsum (((keptRows g drop M.rows).filter fun r => decide (glabel g r = gl)).map fun r => M.val r c))
        = rsum (((keptRows g drop M.rows).filter fun r => decide (glabel g r = gl)).map fun r => rsum (M.cols.map fun c => M.val r c)) :=
    fun gl => rsum_swap _ _ _
  simp only [h1]
  exact rsum_fibres (glabel g) (fun r => rsum (M.cols.map fun c => M.val r c)) _ _ (nodup_dedup _)
    (fun x hx => (mem_dedup _ _).mpr (List.mem_map_of_mem hx))


theorem total_groupCore_sum (rg cg : List (String × String)) (drop : Bool) (M : LMat) :
    total (groupCore .sum rg cg drop M) = total (restrict rg cg drop M) := by
  unfold groupCore restrict
  by_cases hr : rg.isEmpty = true <;> by_cases hc : cg.isEmpty = true
  · simp [hr, hc]
  · simp only [hr, hc, if_true, if_false, Bool.false_eq_true]
    rw [total_transpose, total_groupRows_sum]
    exact total_transpose { M with cols := keptRows cg drop M.cols }
  · simp only [hr, hc, if_true, if_false, Bool.false_eq_true]
    exact total_groupRows_sum rg drop M
  · simp only [hr, hc, if_false, Bool.false_eq_true]
    rw [total_transpose, total_groupRows_sum]
    have h1 := total_transpose { groupRows .sum rg drop M with cols := keptRows cg drop M.cols }
    have h2 := total_groupRows_sum rg drop { M with cols := keptRows cg drop M.cols }
    exact h1.trans h2

theorem restrict_nodrop (rg cg : List (String × String)) (M : LMat) : restrict rg cg false M = M := by
  unfold restrict keptRows
  cases M
  simp

/-! ## `include_other` only filters -/


theorem joinRow_false (rows : List CRow) (p : CRow) :
    joinRow false rows p = (joinRow true rows p).filter knownBoth := by
  unfold joinRow
  by_cases hp : isPre p = true
  · by_cases hq : hasPost rows p.cid = true
    · simp only [hp, hq, if_true]
      rw [List.filter_map]
      symm
      congr 1
      exact List.filter_eq_self.mpr (by intro a _; rfl)
    · simp [hp, hq, knownBoth]
  · by_cases hq : isPost p = true <;> by_cases hh : hasPre rows p.cid = true <;> simp [hp, hq, hh, knownBoth]

theorem specEdges_false (rows : List CRow) : specEdges false rows = (specEdges true rows).filter knownBoth := by
  unfold specEdges
  rw [List.filter_flatMap]
  exact flatMap_congr' _ _ _ fun p _ => joinRow_false rows p

theorem mem_edges_false {m : Maps} {e : Edge} (h : e ∈ edges m false) : knownBoth e = true := by
  unfold edges at h
  obtain ⟨c, _, hc⟩ := List.mem_flatMap.mp h
  unfold edgesOf at hc
  by_cases hs : (srcOf m c).2.isNone = true
  · simp [hs] at hc
  · simp only [hs, Bool.not_false, Bool.and_true, Bool.false_eq_true, if_false, List.mem_map, List.mem_filter] at hc
    obtain ⟨t, ⟨_, ht⟩, rfl⟩ := hc
    cases h1 : (srcOf m c).2 <;> cases h2 : t.2 <;> simp_all [knownBoth]

/-! ## multiplicities -/

theorem sum_ite_eq {α : Type} [DecidableEq α] (l : List α) (a : α) (k : Nat) :
    (l.map fun p => if p = a then k else 0).sum = l.count a * k := by
  induction l with
  | nil => simp
  | cons x t ih =>
    simp only [List.map_cons, List.sum_cons, ih, List.count_cons]
    by_cases h : x = a
    · simp [h, Nat.add_mul, Nat.add_comm]
    · simp [h]

theorem count_joinRow_other (io : Bool) (rows : List CRow) (c a b : Int) (A B : String) (p : CRow)
    (hp : p ≠ ⟨A, c, a, 0⟩) :
    (joinRow io rows p).count ⟨c, A, B, some a, some b⟩ = 0 := by
  rw [List.count_eq_zero]
  unfold joinRow
  by_cases hpre : isPre p = true
  · have ht : p.type = 0 := by simpa [isPre] using hpre
    simp only [hpre, if_true]
    intro hmem
    apply hp
    split at hmem
    · obtain ⟨q, _, hq⟩ := List.mem_map.mp hmem
      injection hq with h1 h2 h3 h4 h5
      cases p
      simp_all
    · split at hmem <;> simp at hmem
  · simp only [hpre, Bool.false_eq_true, if_false]
    split <;> simp

theorem count_joinRow_self (io : Bool) (rows : List CRow) (c a b : Int) (A B : String) :
    (joinRow io rows ⟨A, c, a, 0⟩).count ⟨c, A, B, some a, some b⟩ = rows.count ⟨B, c, b, 1⟩ := by
  unfold joinRow
  have hpre : isPre ⟨A, c, a, 0⟩ = true := rfl
  simp only [hpre, if_true]
  by_cases hpost : hasPost rows c = true
  · simp only [hpost, if_true]
    rw [List.count_eq_countP, List.countP_map, List.countP_filter, List.count_eq_countP]
    apply List.countP_congr
    intro q _
    cases q with
    | mk qn qc qnode qt =>
      simp only [Function.comp, isPost, beq_iff_eq, Bool.and_eq_true, Edge.mk.injEq, CRow.mk.injEq]
      constructor
      · rintro ⟨⟨_, h2, h3, h4, h5⟩, h6, h7⟩
        simp_all
      · rintro ⟨h1, h2, h3, h4⟩
        simp_all
  · have hz : rows.count ⟨B, c, b, 1⟩ = 0 := by
      rw [List.count_eq_zero]
      intro hmem
      apply hpost
      unfold hasPost
      rw [List.any_eq_true]
      exact ⟨_, hmem, by simp [isPost]⟩
    rw [hz, List.count_eq_zero]
    simp only [hpost, Bool.false_eq_true, if_false]
    split <;> simp

/-- **multiplicity**: the edge `A → B` through connector `c` between nodes `a`, `b` occurs exactly
(#rows `(A, c, a, pre)`) × (#rows `(B, c, b, post)`) times in the relational join. -/
theorem count_specEdges_known (io : Bool) (rows : List CRow) (c a b : Int) (A B : String) :
    (specEdges io rows).count ⟨c, A, B, some a, some b⟩ = rows.count ⟨A, c, a, 0⟩ * rows.count ⟨B, c, b, 1⟩ := by
  unfold specEdges
  rw [List.count_flatMap, ← sum_ite_eq]
  congr 1
  apply List.map_congr_left
  intro p _
  simp only [Function.comp]
  by_cases hp : p = ⟨A, c, a, 0⟩
  · subst hp
    simp [count_joinRow_self]
  · simp [hp, count_joinRow_other io rows c a b A B p hp]

end Navis.Conn
