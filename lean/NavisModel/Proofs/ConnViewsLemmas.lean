import NavisModel.Proofs.ConnLemmas
import NavisModel.Model.ConnViews
/-!
Helper lemmas for the second layer of the C20 model (`Model/ConnViews.lean`).  Core Lean only.
-/
namespace Navis.Conn

/-! ## type values -/

theorem typeCode_eq_one (v : TVal) : typeCode v = 1 ↔ v.eqInt 1 = true := by
  unfold typeCode
  by_cases h1 : v.eqInt 1 = true
  · simp [h1]
  · by_cases h0 : v.eqInt 0 = true <;> simp [h1, h0]

theorem typeCode_eq_zero (v : TVal) : typeCode v = 0 ↔ (v.eqInt 1 = false ∧ v.eqInt 0 = true) := by
  unfold typeCode
  by_cases h1 : v.eqInt 1 = true
  · simp [h1]
  · by_cases h0 : v.eqInt 0 = true <;> simp [h1, h0]

theorem addRowT_eq (m : Maps) (r : TRow) : addRowT m r = addRow m r.toCRow := by
  unfold addRowT addRow TRow.toCRow
  by_cases h1 : r.type.eqInt 1 = true
  · have : typeCode r.type = 1 := (typeCode_eq_one _).mpr h1
    simp [h1, this]
  · have hn1 : typeCode r.type ≠ 1 := fun h => h1 ((typeCode_eq_one _).mp h)
    by_cases h0 : r.type.eqInt 0 = true
    · have : typeCode r.type = 0 := (typeCode_eq_zero _).mpr ⟨by simpa using h1, h0⟩
      simp [h1, h0, this]
    · have hn0 : typeCode r.type ≠ 0 := fun h => h0 ((typeCode_eq_zero _).mp h).2
      simp [h1, h0, hn1, hn0]

theorem foldl_addRowT (rows : List TRow) (m : Maps) :
    rows.foldl addRowT m = (rows.map TRow.toCRow).foldl addRow m := by
  induction rows generalizing m with
  | nil => rfl
  | cons r t ih => simp only [List.foldl_cons, List.map_cons, addRowT_eq, ih]

theorem addRowGen_model (m : Maps) (r : CRow) :
    addRowGen [(1, "conn_outputs", "append"), (0, "conn_inputs", "assign")] m r = some (addRow m r) := by
  unfold addRowGen addRow
  by_cases h1 : r.type = 1
  · simp [h1, applyBranch]
  · simp only [h1, if_false]
    unfold addRowGen
    by_cases h0 : r.type = 0
    · simp [h0, applyBranch]
    · simp [h0, addRowGen]

/-! ## incremental construction -/

theorem foldl_addRow_append (a b : List CRow) (m : Maps) : (a ++ b).foldl addRow m = b.foldl addRow (a.foldl addRow m) :=
  List.foldl_append

theorem buildN_maps (ns : List Neuron) (s : State) :
    (buildN ns s).maps = (flatRows ns).foldl addRow s.maps := by
  induction ns generalizing s with
  | nil => rfl
  | cons n t ih =>
    have : buildN (n :: t) s = buildN t (addNeuron s n) := rfl
    rw [this, ih]
    simp only [flatRows, List.flatMap_cons, List.foldl_append]
    rfl

theorem contains_eq_decide_mem (l : List String) (a : String) : l.contains a = decide (a ∈ l) := by
  induction l with
  | nil => simp
  | cons x t ih => simp

/-- appending unseen names one at a time is `dedup` -/
theorem dedup_append_singleton (l : List String) (a : String) :
    dedup (l ++ [a]) = if a ∈ l then dedup l else dedup l ++ [a] := by
  induction l with
  | nil => simp [dedup]
  | cons x t ih =>
    simp only [List.cons_append, dedup, ih, List.mem_cons]
    by_cases hax : a = x
    · subst hax
      by_cases hat : a ∈ t
      · simp [hat]
      · simp [hat, List.filter_append]
    · by_cases hat : a ∈ t
      · simp [hax, hat]
      · simp [hax, hat, List.filter_append]

theorem buildN_names_aux (ns : List Neuron) (pre : List Neuron) (s : State)
    (hs : s.names = dedup (pre.map (·.name))) :
    (buildN ns s).names = dedup ((pre ++ ns).map (·.name)) := by
  induction ns generalizing pre s with
  | nil => simpa [buildN] using hs
  | cons n t ih =>
    have : buildN (n :: t) s = buildN t (addNeuron s n) := rfl
    rw [this]
    have := ih (pre ++ [n]) (addNeuron s n) (by
      simp only [addNeuron, List.map_append, List.map_cons, List.map_nil, dedup_append_singleton, hs,
        contains_eq_decide_mem, mem_dedup, decide_eq_true_eq])
    simpa using this

theorem buildN_names (ns : List Neuron) : (buildN ns).names = neuronNames ns := by
  have := buildN_names_aux ns [] {} rfl
  simpa [neuronNames] using this

theorem buildN_build (ns : List Neuron) : (buildN ns).maps = build (flatRows ns) := by
  rw [buildN_maps]; rfl

/-! ## dense adjacency -/

theorem zip_map_self {α β : Type} (l : List α) (g : α → β) : l.zip (l.map g) = l.map fun x => (x, g x) := by
  induction l with
  | nil => rfl
  | cons x t ih => simp [ih]

theorem locInc_cellsOf (idx : List String) (f : String → String → Nat) (s t : String) :
    locInc idx (cellsOf idx f) s t = cellsOf idx fun a b => if a = s ∧ b = t then f a b + 1 else f a b := by
  unfold locInc cellsOf
  rw [zip_map_self, List.map_map]
  apply List.map_congr_left
  intro a _
  simp only [Function.comp]
  rw [zip_map_self, List.map_map]
  rfl

theorem between_cons (e : Edge) (t : List Edge) (a b : String) :
    between (e :: t) a b = if e.src = a ∧ e.tgt = b then e :: between t a b else between t a b := by
  unfold between Edge.key
  simp [List.filter_cons, Prod.mk.injEq]

theorem between_cons_length (e : Edge) (t : List Edge) (a b : String) :
    (between (e :: t) a b).length = (if e.src = a ∧ e.tgt = b then 1 else 0) + (between t a b).length := by
  rw [between_cons]
  split <;> simp <;> omega

theorem foldl_locInc (idx : List String) (es : List Edge) (f : String → String → Nat) :
    es.foldl (fun M e => locInc idx M e.src e.tgt) (cellsOf idx f)
      = cellsOf idx fun a b => f a b + (between es a b).length := by
  induction es generalizing f with
  | nil => simp [between]
  | cons e t ih =>
    simp only [List.foldl_cons, locInc_cellsOf, ih]
    unfold cellsOf
    apply List.map_congr_left; intro a _
    apply List.map_congr_left; intro b _
    show (if a = e.src ∧ b = e.tgt then f a b + 1 else f a b) + (between t a b).length
        = f a b + (between (e :: t) a b).length
    rw [between_cons_length]
    by_cases h : e.src = a ∧ e.tgt = b
    · have h' : a = e.src ∧ b = e.tgt := ⟨h.1.symm, h.2.symm⟩
      rw [if_pos h, if_pos h']; omega
    · have h' : ¬ (a = e.src ∧ b = e.tgt) := fun ⟨x, y⟩ => h ⟨x.symm, y.symm⟩
      rw [if_neg h, if_neg h']; omega

theorem adjDense_eq_between (idx : List String) (es : List Edge) :
    adjDense idx es = cellsOf idx fun s t => (between es s t).length := by
  unfold adjDense
  have : zeros idx = cellsOf idx fun _ _ => 0 := rfl
  rw [this, foldl_locInc]
  simp

theorem adjDense_eq (idx : List String) (es : List Edge) :
    adjDense idx es = cellsOf idx fun s t => adjCell es s t := by
  rw [adjDense_eq_between]
  unfold cellsOf
  simp only [adjCell_eq]

/-! ### totals and marginals -/

theorem sum_map_ite_eq (l : List String) (a : String) (k : Nat) :
    (l.map fun x => if x = a then k else 0).sum = l.count a * k := by
  induction l with
  | nil => simp
  | cons x t ih =>
    simp only [List.map_cons, List.sum_cons, ih, List.count_cons]
    by_cases h : x = a
    · simp [h, Nat.add_mul, Nat.add_comm]
    · simp [h]

theorem sum_map_add {α : Type} (l : List α) (f g : α → Nat) :
    (l.map fun x => f x + g x).sum = (l.map f).sum + (l.map g).sum := by
  induction l with
  | nil => rfl
  | cons x t ih => simp only [List.map_cons, List.sum_cons, ih]; omega

theorem denseTotal_cellsOf (idx : List String) (f : String → String → Nat) :
    denseTotal (cellsOf idx f) = (idx.map fun s => (idx.map fun t => f s t).sum).sum := by
  unfold denseTotal cellsOf
  rw [List.map_map]; rfl

theorem sum_map_zero {α : Type} (l : List α) : (l.map fun _ => (0 : Nat)).sum = 0 := by
  induction l with
  | nil => rfl
  | cons x t ih => simp only [List.map_cons, List.sum_cons, ih]

/-- the total of the count matrix: every edge contributes (#rows labelled src) × (#columns labelled tgt) -/
theorem denseTotal_between (idx : List String) (es : List Edge) :
    denseTotal (cellsOf idx fun s t => (between es s t).length)
      = (es.map fun e => idx.count e.src * idx.count e.tgt).sum := by
  rw [denseTotal_cellsOf]
  induction es with
  | nil => simp [between, sum_map_zero]
  | cons e t ih =>
    simp only [List.map_cons, List.sum_cons, ← ih]
    have hcell : ∀ a b, (between (e :: t) a b).length
        = (if a = e.src then (if b = e.tgt then 1 else 0) else 0) + (between t a b).length := by
      intro a b
      rw [between_cons_length]
      by_cases h1 : a = e.src
      · by_cases h2 : b = e.tgt
        · simp [h1, h2]
        · simp [h1, h2]
          intro hh; exact absurd hh.symm h2
      · have : ¬ (e.src = a ∧ e.tgt = b) := fun hh => h1 hh.1.symm
        simp [h1, this]
    simp only [hcell, sum_map_add]
    congr 1
    have inner : ∀ a, ((idx.map fun b => if a = e.src then (if b = e.tgt then 1 else 0) else 0).sum)
        = if a = e.src then idx.count e.tgt else 0 := by
      intro a
      by_cases h : a = e.src
      · simp only [h, if_true]
        have := sum_map_ite_eq idx e.tgt 1
        simpa using this
      · simp only [h, if_false, sum_map_zero]
    simp only [inner]
    have := sum_map_ite_eq idx e.src (idx.count e.tgt)
    simpa using this

theorem count_eq_one_of_nodup {l : List String} (h : l.Nodup) {a : String} (ha : a ∈ l) : l.count a = 1 :=
  by
  induction l with
  | nil => simp at ha
  | cons x t ih =>
    rw [List.nodup_cons] at h
    rw [List.count_cons]
    by_cases hx : x = a
    · subst hx
      have : List.count x t = 0 := List.count_eq_zero.mpr h.1
      simp [this]
    · have : a ∈ t := by
        rcases List.mem_cons.mp ha with h1 | h1
        · exact absurd h1.symm hx
        · exact h1
      simp [hx, ih h.2 this]

theorem denseTotal_adjDense (idx : List String) (es : List Edge) (hn : idx.Nodup)
    (hm : ∀ e ∈ es, e.src ∈ idx ∧ e.tgt ∈ idx) : denseTotal (adjDense idx es) = es.length := by
  rw [adjDense_eq_between, denseTotal_between]
  have : (es.map fun e => idx.count e.src * idx.count e.tgt) = es.map fun _ => 1 := by
    apply List.map_congr_left
    intro e he
    rw [count_eq_one_of_nodup hn (hm e he).1, count_eq_one_of_nodup hn (hm e he).2]
  rw [this]
  clear this hm
  induction es with
  | nil => rfl
  | cons x t ih => simp only [List.map_cons, List.sum_cons, List.length_cons, ih]; omega

/-! ### every endpoint of an edge is a node -/

theorem mem_flatRows {ns : List Neuron} {r : CRow} (h : r ∈ flatRows ns) : r.name ∈ ns.map (·.name) := by
  unfold flatRows at h
  simp only [List.mem_flatMap, List.mem_map] at h
  obtain ⟨n, hn, _, _, rfl⟩ := h
  exact List.mem_map.mpr ⟨n, hn, rfl⟩

theorem getLast?_mem' {α : Type} {l : List α} {a : α} (h : l.getLast? = some a) : a ∈ l :=
  List.mem_of_getLast? h

theorem srcOf_name (rows : List CRow) (c : Int) :
    ((srcOf (build rows) c).2 = none ∧ (srcOf (build rows) c).1 = OTHER)
    ∨ ((srcOf (build rows) c).2.isSome ∧ ∃ r ∈ rows, r.name = (srcOf (build rows) c).1) := by
  unfold srcOf
  rw [inputs_last_writer]
  cases hl : (preRows rows c).getLast? with
  | none => left; simp
  | some p =>
    right
    have hp : p ∈ preRows rows c := getLast?_mem' hl
    have : p ∈ rows := (List.mem_filter.mp hp).1
    simp only [Option.map_some, Option.isSome_some, true_and]
    exact ⟨p, this, rfl⟩

theorem tgtsOf_name (rows : List CRow) (c : Int) (t : String × Option Int) (ht : t ∈ tgtsOf (build rows) c) :
    (t.2 = none ∧ t.1 = OTHER) ∨ (t.2.isSome ∧ ∃ r ∈ rows, r.name = t.1) := by
  unfold tgtsOf at ht
  rw [outputs_all] at ht
  by_cases h : postRows rows c = []
  · simp only [h, if_true, List.mem_singleton] at ht
    left; subst ht; simp
  · simp only [h, if_false, List.map_map, List.mem_map, Function.comp] at ht
    obtain ⟨p, hp, rfl⟩ := ht
    right
    exact ⟨rfl, p, (List.mem_filter.mp hp).1, rfl⟩

theorem mem_edges_endpoints (rows : List CRow) (io : Bool) (e : Edge) (h : e ∈ edges (build rows) io) :
    ((e.srcNode = none ∧ e.src = OTHER ∧ io = true) ∨ (e.srcNode.isSome ∧ ∃ r ∈ rows, r.name = e.src))
    ∧ ((e.tgtNode = none ∧ e.tgt = OTHER ∧ io = true) ∨ (e.tgtNode.isSome ∧ ∃ r ∈ rows, r.name = e.tgt)) := by
  unfold edges at h
  obtain ⟨c, _, hc⟩ := List.mem_flatMap.mp h
  unfold edgesOf at hc
  split at hc
  · simp at hc
  · rename_i hskip
    obtain ⟨t, ht, rfl⟩ := List.mem_map.mp hc
    obtain ⟨ht1, ht2⟩ := List.mem_filter.mp ht
    refine ⟨?_, ?_⟩
    · rcases srcOf_name rows c with ⟨h1, h2⟩ | ⟨h1, h2⟩
      · left
        refine ⟨h1, h2, ?_⟩
        cases io
        · simp [h1] at hskip
        · rfl
      · right; exact ⟨h1, h2⟩
    · rcases tgtsOf_name rows c t ht1 with ⟨h1, h2⟩ | ⟨h1, h2⟩
      · left
        refine ⟨h1, h2, ?_⟩
        cases io
        · simp [h1] at ht2
        · rfl
      · right; exact ⟨h1, h2⟩

theorem connEdges_endpoints (ns : List Neuron) (io : Bool) (e : Edge) (h : e ∈ connEdges ns io) :
    e.src ∈ index (neuronNames ns) io ∧ e.tgt ∈ index (neuronNames ns) io := by
  have := mem_edges_endpoints (flatRows ns) io e h
  unfold index neuronNames
  refine ⟨?_, ?_⟩
  · rcases this.1 with ⟨_, h2, h3⟩ | ⟨_, r, hr, h2⟩
    · simp [h2, h3]
    · rw [← h2]
      exact List.mem_append_left _ ((mem_dedup _ _).mpr (mem_flatRows hr))
  · rcases this.2 with ⟨_, h2, h3⟩ | ⟨_, r, hr, h2⟩
    · simp [h2, h3]
    · rw [← h2]
      exact List.mem_append_left _ ((mem_dedup _ _).mpr (mem_flatRows hr))

theorem index_nodup (names : List String) (io : Bool) (hn : names.Nodup) (ho : OTHER ∉ names) :
    (index names io).Nodup := by
  unfold index
  cases io
  · simpa using hn
  · simp only [if_true]
    rw [List.nodup_append]
    refine ⟨hn, by simp, ?_⟩
    intro a ha b hb
    simp only [List.mem_singleton] at hb
    subst hb
    intro hab; subst hab; exact ho ha

/-! ## multiplicity of the `__OTHER__` edges in the join -/

theorem count_joinRow_otherTgt (io : Bool) (rows : List CRow) (c a : Int) (A : String) (p : CRow) :
    (joinRow io rows p).count ⟨c, A, OTHER, some a, none⟩
      = if p = ⟨A, c, a, 0⟩ then (if io && !hasPost rows c then 1 else 0) else 0 := by
  by_cases hp : p = ⟨A, c, a, 0⟩
  · subst hp
    simp only [if_true]
    unfold joinRow
    have hpre : isPre ⟨A, c, a, 0⟩ = true := rfl
    simp only [hpre, if_true]
    by_cases hpost : hasPost rows c = true
    · simp only [hpost, if_true, Bool.not_true, Bool.and_false, Bool.false_eq_true, if_false]
      rw [List.count_eq_zero]
      intro hmem
      obtain ⟨q, _, hq⟩ := List.mem_map.mp hmem
      injection hq with _ _ _ _ h5
      exact absurd h5 (by simp)
    · simp only [hpost, Bool.false_eq_true, if_false, Bool.not_false, Bool.and_true]
      cases io <;> simp
  · simp only [hp, if_false]
    rw [List.count_eq_zero]
    unfold joinRow
    intro hmem
    by_cases hpre : isPre p = true
    · have ht : p.type = 0 := by simpa [isPre] using hpre
      simp only [hpre, if_true] at hmem
      split at hmem
      · obtain ⟨q, _, hq⟩ := List.mem_map.mp hmem
        injection hq with _ _ _ _ h5
        exact absurd h5 (by simp)
      · split at hmem
        · simp only [List.mem_singleton] at hmem
          injection hmem with h1 h2 h3 h4 h5
          apply hp
          cases p
          simp_all
        · simp at hmem
    · simp only [hpre, Bool.false_eq_true, if_false] at hmem
      split at hmem
      · simp only [List.mem_singleton] at hmem
        injection hmem with h1 h2 h3 h4 h5
        exact absurd h4 (by simp)
      · simp at hmem

theorem count_joinRow_otherSrc (io : Bool) (rows : List CRow) (c b : Int) (B : String) (p : CRow) :
    (joinRow io rows p).count ⟨c, OTHER, B, none, some b⟩
      = if p = ⟨B, c, b, 1⟩ then (if io && !hasPre rows c then 1 else 0) else 0 := by
  by_cases hp : p = ⟨B, c, b, 1⟩
  · subst hp
    simp only [if_true]
    unfold joinRow
    have hpre : isPre ⟨B, c, b, 1⟩ = false := rfl
    have hpost : isPost ⟨B, c, b, 1⟩ = true := rfl
    simp only [hpre, Bool.false_eq_true, if_false, hpost, Bool.true_and]
    by_cases h : (io && !hasPre rows c) = true
    · simp [h]
    · simp [h]
  · simp only [hp, if_false]
    rw [List.count_eq_zero]
    unfold joinRow
    intro hmem
    by_cases hpre : isPre p = true
    · simp only [hpre, if_true] at hmem
      split at hmem
      · obtain ⟨q, _, hq⟩ := List.mem_map.mp hmem
        injection hq with _ _ _ h4 _
        exact absurd h4 (by simp)
      · split at hmem
        · simp only [List.mem_singleton] at hmem
          injection hmem with _ _ _ h4 _
          exact absurd h4 (by simp)
        · simp at hmem
    · simp only [hpre, Bool.false_eq_true, if_false] at hmem
      split at hmem
      · rename_i hcond
        have ht : p.type = 1 := by
          have : isPost p = true := by
            simp only [Bool.and_eq_true] at hcond
            exact hcond.1
          simpa [isPost] using this
        simp only [List.mem_singleton] at hmem
        injection hmem with h1 h2 h3 h4 h5
        apply hp
        cases p
        simp_all
      · simp at hmem

theorem count_specEdges_otherTgt (io : Bool) (rows : List CRow) (c a : Int) (A : String) :
    (specEdges io rows).count ⟨c, A, OTHER, some a, none⟩
      = if io && !hasPost rows c then rows.count ⟨A, c, a, 0⟩ else 0 := by
  unfold specEdges
  rw [List.count_flatMap]
  simp only [Function.comp_def, count_joinRow_otherTgt]
  rw [sum_ite_eq]
  split <;> simp

theorem count_specEdges_otherSrc (io : Bool) (rows : List CRow) (c b : Int) (B : String) :
    (specEdges io rows).count ⟨c, OTHER, B, none, some b⟩
      = if io && !hasPre rows c then rows.count ⟨B, c, b, 1⟩ else 0 := by
  unfold specEdges
  rw [List.count_flatMap]
  simp only [Function.comp_def, count_joinRow_otherSrc]
  rw [sum_ite_eq]
  split <;> simp

/-! ## association lists with distinct keys -/
section DictNodup
variable {κ β : Type} [DecidableEq κ]

theorem dkeys_dset (d : List (κ × β)) (k : κ) (v : β) :
    dkeys (dset d k v) = if k ∈ dkeys d then dkeys d else dkeys d ++ [k] := by
  induction d with
  | nil => simp [dset, dkeys]
  | cons p t ih =>
    obtain ⟨a, b⟩ := p
    unfold dkeys at ih ⊢
    simp only [dset]
    by_cases h : a = k
    · subst h; simp
    · have h' : ¬ k = a := fun hh => h hh.symm
      simp only [if_neg h, List.map_cons, ih, List.mem_cons, h', false_or]
      split <;> simp

theorem nodup_dkeys_dset (d : List (κ × β)) (k : κ) (v : β) (h : (dkeys d).Nodup) : (dkeys (dset d k v)).Nodup := by
  rw [dkeys_dset]
  split
  · exact h
  · rename_i hk
    rw [List.nodup_append]
    refine ⟨h, by simp, ?_⟩
    intro a ha b hb
    simp only [List.mem_singleton] at hb
    subst hb
    intro hab; subst hab; exact hk ha

theorem nodup_dkeys_gfold {α : Type} (key : α → κ) (upd : Option β → α → β) (l : List α) (d0 : List (κ × β))
    (h : (dkeys d0).Nodup) : (dkeys (gfold key upd l d0)).Nodup := by
  induction l generalizing d0 with
  | nil => simpa [gfold] using h
  | cons x t ih =>
    have hstep : gfold key upd (x :: t) d0 = gfold key upd t (dset d0 (key x) (upd (dget d0 (key x)) x)) := by
      simp [gfold]
    rw [hstep]
    exact ih _ (nodup_dkeys_dset _ _ _ h)

theorem dget_of_mem_nodup (d : List (κ × β)) (k : κ) (v : β) (h : (dkeys d).Nodup) (hm : (k, v) ∈ d) :
    dget d k = some v := by
  induction d with
  | nil => simp at hm
  | cons p t ih =>
    obtain ⟨a, b⟩ := p
    unfold dkeys at h ih
    simp only [List.map_cons, List.nodup_cons] at h
    simp only [dget]
    rcases List.mem_cons.mp hm with h1 | h1
    · injection h1 with h2 h3
      subst h2; subst h3; simp
    · have hk : k ∈ t.map (·.1) := List.mem_map.mpr ⟨(k, v), h1, rfl⟩
      have : a ≠ k := fun hh => h.1 (hh ▸ hk)
      simp only [if_neg this]
      exact ih h.2 h1

theorem mem_of_dget (d : List (κ × β)) (k : κ) (v : β) (h : dget d k = some v) : (k, v) ∈ d := by
  induction d with
  | nil => simp [dget] at h
  | cons p t ih =>
    obtain ⟨a, b⟩ := p
    simp only [dget] at h
    by_cases hk : a = k
    · simp only [if_pos hk] at h
      injection h with h; subst h; subst hk; simp
    · simp only [if_neg hk] at h
      exact List.mem_cons_of_mem _ (ih h)

end DictNodup

/-! ## the checker for navis' own views -/

/-- what `viewsOKB` decides -/
structure ViewsSpec (names : List String) (io : Bool) (es : List Edge) (v : Views) : Prop where
  index : v.index.Perm (Conn.index names io)
  dgNodes : v.dgNodes.Perm (Conn.index names io)
  mgNodes : v.mgNodes.Perm (Conn.index names io)
  adj : v.adj = cellsOf v.index fun s t => (between es s t).length
  dgKeys : (dkeys v.dg).Nodup
  dgEntry : ∀ p ∈ v.dg, p.2.2 ≠ [] ∧ p.2.1 = p.2.2.length ∧ p.2.2.Perm ((between es p.1.1 p.1.2).map Edge.syn)
  dgCover : ∀ e ∈ es, e.key ∈ dkeys v.dg
  mg : v.mg.Perm (multiEdges es)

theorem viewsOKB_iff (names : List String) (io : Bool) (es : List Edge) (v : Views) :
    viewsOKB names io es v = true ↔ ViewsSpec names io es v := by
  unfold viewsOKB
  simp only [Bool.and_eq_true, List.isPerm_iff, decide_eq_true_eq, List.all_eq_true, Bool.not_eq_true',
    List.isEmpty_eq_false_iff, List.contains_iff_mem]
  constructor
  · rintro ⟨⟨⟨⟨⟨⟨⟨h1, h2⟩, h3⟩, h4⟩, h5⟩, h6⟩, h7⟩, h8⟩
    exact ⟨h1, h2, h3, h4, h5, fun p hp => ⟨(h6 p hp).1.1, (h6 p hp).1.2, (h6 p hp).2⟩, h7, h8⟩
  · rintro ⟨h1, h2, h3, h4, h5, h6, h7, h8⟩
    exact ⟨⟨⟨⟨⟨⟨⟨h1, h2⟩, h3⟩, h4⟩, h5⟩, fun p hp => ⟨⟨(h6 p hp).1, (h6 p hp).2.1⟩, (h6 p hp).2.2⟩⟩, h7⟩, h8⟩

theorem modelViews_spec (names : List String) (io : Bool) (es : List Edge) :
    ViewsSpec names io es (modelViews names io es) := by
  have hnd : (dkeys (digraphEdges es)).Nodup := nodup_dkeys_gfold _ _ _ _ (by simp [dkeys])
  have hk : dkeys ((digraphEdges es).map fun p => (p.1, p.2.length, p.2)) = dkeys (digraphEdges es) := by
    unfold dkeys; rw [List.map_map]; rfl
  refine ⟨List.Perm.refl _, List.Perm.refl _, List.Perm.refl _, adjDense_eq_between _ _, ?_, ?_, ?_, List.Perm.refl _⟩
  · show (dkeys ((digraphEdges es).map fun p => (p.1, p.2.length, p.2))).Nodup
    rw [hk]; exact hnd
  · intro p hp
    obtain ⟨q, hq, rfl⟩ := List.mem_map.mp hp
    obtain ⟨k, l⟩ := q
    have hget : digraphConns es k.1 k.2 = some l := dget_of_mem_nodup _ _ _ hnd hq
    rw [digraphConns_eq] at hget
    by_cases hb : between es k.1 k.2 = []
    · simp [hb] at hget
    · simp only [hb, if_false, Option.some.injEq] at hget
      subst hget
      refine ⟨?_, rfl, List.Perm.refl _⟩
      simpa using hb
  · intro e he
    show e.key ∈ dkeys ((digraphEdges es).map fun p => (p.1, p.2.length, p.2))
    rw [hk]
    exact (mem_dkeys_gfold _ _ _ _).mpr ⟨e, he, rfl⟩

/-- weight of the digraph edge `s → t` in navis' own digraph (`0` = no such edge) -/
def Views.dgWeight (v : Views) (s t : String) : Nat := ((dget v.dg (s, t)).map (·.1)).getD 0

/-- connectors table of the digraph edge `s → t` in navis' own digraph -/
def Views.dgConns (v : Views) (s t : String) : List Syn := ((dget v.dg (s, t)).map (·.2)).getD []

/-- parallel multigraph edges `s → t` in navis' own multigraph -/
def Views.mgBetween (v : Views) (s t : String) : List Syn :=
  (v.mg.filter fun p => decide (p.1 = (s, t))).map (·.2)

/-- cell of navis' own adjacency matrix, by labels (first match) -/
def Views.adjAt (v : Views) (s t : String) : Nat := ((v.adj.getD (v.index.idxOf s) []).getD (v.index.idxOf t) 0)

theorem spec_dg (names : List String) (io : Bool) (es : List Edge) (v : Views) (h : ViewsSpec names io es v)
    (s t : String) :
    v.dgWeight s t = (between es s t).length ∧ (v.dgConns s t).Perm ((between es s t).map Edge.syn) := by
  unfold Views.dgWeight Views.dgConns
  cases hg : dget v.dg (s, t) with
  | none =>
    have hnk : (s, t) ∉ dkeys v.dg := by
      intro hk
      have := (dget_isSome_iff v.dg (s, t)).mpr hk
      simp [hg] at this
    have hb : between es s t = [] := by
      rw [List.eq_nil_iff_forall_not_mem]
      intro e he
      have := List.mem_filter.mp he
      have hkey : e.key = (s, t) := by simpa using this.2
      exact hnk (hkey ▸ h.dgCover e this.1)
    simp [hb]
  | some wl =>
    have hm := mem_of_dget _ _ _ hg
    obtain ⟨_, h2, h3⟩ := h.dgEntry _ hm
    simp only [Option.map_some, Option.getD_some]
    exact ⟨by rw [h2, h3.length_eq, List.length_map], h3⟩

theorem spec_mg (names : List String) (io : Bool) (es : List Edge) (v : Views) (h : ViewsSpec names io es v)
    (s t : String) : (v.mgBetween s t).Perm ((between es s t).map Edge.syn) := by
  unfold Views.mgBetween
  have := (h.mg.filter fun p => decide (p.1 = (s, t))).map (·.2)
  refine this.trans ?_
  have := multiBetween_eq es s t
  unfold multiBetween at this
  rw [this]

theorem getD_map_idxOf {β : Type} (l : List String) (g : String → β) (d : β) (s : String) (hs : s ∈ l) :
    (l.map g).getD (l.idxOf s) d = g s := by
  induction l with
  | nil => simp at hs
  | cons x t ih =>
    by_cases hx : x = s
    · subst hx; simp
    · have : s ∈ t := by
        rcases List.mem_cons.mp hs with h1 | h1
        · exact absurd h1.symm hx
        · exact h1
      have hne : (x == s) = false := by simpa using hx
      simp only [List.map_cons, List.idxOf_cons, hne, cond_false, List.getD_cons_succ]
      exact ih this

theorem spec_adj (names : List String) (io : Bool) (es : List Edge) (v : Views) (h : ViewsSpec names io es v)
    (s t : String) (hs : s ∈ Conn.index names io) (ht : t ∈ Conn.index names io) :
    v.adjAt s t = (between es s t).length := by
  unfold Views.adjAt
  rw [h.adj]
  unfold cellsOf
  have hs' : s ∈ v.index := h.index.mem_iff.mpr hs
  have ht' : t ∈ v.index := h.index.mem_iff.mpr ht
  rw [getD_map_idxOf v.index _ [] s hs', getD_map_idxOf v.index _ 0 t ht']

/-! ## `network2nx` on the adjacency matrix -/

/-- the melted cells of the frame holding `f` -/
def meltCells (idx : List String) (f : String → String → Nat) : List (String × String × Nat) :=
  idx.flatMap fun t => idx.map fun s => (s, t, f s t)

theorem melt_cellsOf (idx : List String) (f : String → String → Nat) : melt idx (cellsOf idx f) = meltCells idx f := by
  unfold melt meltCells cellsOf
  conv => rhs; rw [← List.zipIdx_map_fst 0 idx, List.flatMap_map]
  apply flatMap_congr'
  intro c hc
  have hget : idx[c.2]? = some c.1 := List.mem_zipIdx_iff_getElem?.mp hc
  rw [zip_map_self, List.map_map]
  have hz : (idx.zipIdx.map Prod.fst) = idx := List.zipIdx_map_fst 0 idx
  rw [hz]
  apply List.map_congr_left
  intro s _
  simp only [Function.comp]
  have : (idx.map fun t => f s t).getD c.2 0 = f s c.1 := by
    rw [List.getD_eq_getElem?_getD, List.getElem?_map, hget]; rfl
  rw [this]

theorem filter_eq_self_nodup (l : List String) (hn : l.Nodup) (a : String) :
    l.filter (fun x => decide (x = a)) = if a ∈ l then [a] else [] := by
  induction l with
  | nil => simp
  | cons x t ih =>
    rw [List.nodup_cons] at hn
    by_cases hx : x = a
    · subst hx
      have : x ∉ t := hn.1
      simp [ih hn.2, this]
    · have hx' : ¬ a = x := fun h => hx h.symm
      simp [hx, hx', ih hn.2]

theorem flatMap_ite_eq_nodup {β : Type} (l : List String) (hn : l.Nodup) (a : String) (X : List β) :
    l.flatMap (fun x => if x = a then X else []) = if a ∈ l then X else [] := by
  induction l with
  | nil => simp
  | cons x t ih =>
    rw [List.nodup_cons] at hn
    simp only [List.flatMap_cons, ih hn.2]
    by_cases hx : x = a
    · subst hx
      have : x ∉ t := hn.1
      simp [this]
    · have hx' : ¬ a = x := fun h => hx h.symm
      simp [hx, hx']

theorem meltCells_filter (idx : List String) (hn : idx.Nodup) (f : String → String → Nat) (s t : String) :
    (meltCells idx f).filter (fun e => decide ((e.1, e.2.1) = (s, t)))
      = if s ∈ idx ∧ t ∈ idx then [(s, t, f s t)] else [] := by
  unfold meltCells
  rw [List.filter_flatMap]
  have inner : ∀ t', ((idx.map fun s' => (s', t', f s' t')).filter fun e => decide ((e.1, e.2.1) = (s, t)))
      = if t' = t then (if s ∈ idx then [(s, t, f s t)] else []) else [] := by
    intro t'
    rw [List.filter_map]
    by_cases h : t' = t
    · subst h
      have : ((fun e : String × String × Nat => decide ((e.1, e.2.1) = (s, t'))) ∘ fun s' => (s', t', f s' t'))
          = fun x => decide (x = s) := by
        funext x; simp
      rw [this, filter_eq_self_nodup idx hn s]
      by_cases hs : s ∈ idx <;> simp [hs]
    · simp only [h, if_false, List.map_eq_nil_iff, List.filter_eq_nil_iff]
      intro x _
      simp [h]
  simp only [inner]
  rw [flatMap_ite_eq_nodup idx hn t]
  by_cases hs : s ∈ idx <;> by_cases ht : t ∈ idx <;> simp [hs, ht]

theorem n2nxWeight_cellsOf (th : Option Nat) (idx : List String) (hn : idx.Nodup) (f : String → String → Nat)
    (s t : String) :
    n2nxWeight th idx (cellsOf idx f) s t
      = if s ∈ idx ∧ t ∈ idx ∧ passTh th (f s t) = true then some (f s t) else none := by
  unfold n2nxWeight n2nx thresholdEdges
  rw [dget_gfold, melt_cellsOf, List.filter_filter]
  have : (meltCells idx f).filter (fun a => (decide ((a.1, a.2.1) = (s, t)) && passTh th a.2.2))
      = ((meltCells idx f).filter fun e => decide ((e.1, e.2.1) = (s, t))).filter fun e => passTh th e.2.2 := by
    rw [List.filter_filter]
    apply List.filter_congr
    intro x _
    exact Bool.and_comm _ _
  rw [this, meltCells_filter idx hn]
  by_cases h : s ∈ idx ∧ t ∈ idx
  · by_cases hp : passTh th (f s t) = true
    · simp [h, hp, dget]
    · simp [h, hp, dget]
  · have h' : ¬ (s ∈ idx ∧ t ∈ idx ∧ passTh th (f s t) = true) := fun hh => h ⟨hh.1, hh.2.1⟩
    simp [h, h', dget]

/-! ## aggregation functions of `group_matrix` -/

theorem foldl_min_le (x : Rat) (t : List Rat) : t.foldl min x ≤ x ∧ ∀ y ∈ t, t.foldl min x ≤ y := by
  induction t generalizing x with
  | nil => exact ⟨Rat.le_refl, by simp⟩
  | cons a t ih =>
    simp only [List.foldl_cons]
    obtain ⟨h1, h2⟩ := ih (min x a)
    have hxa : min x a ≤ x ∧ min x a ≤ a := by
      rw [Rat.min_def]
      by_cases h : x ≤ a
      · rw [if_pos h]; exact ⟨Rat.le_refl, h⟩
      · rw [if_neg h]
        rcases @Rat.le_total x a with h' | h'
        · exact absurd h' h
        · exact ⟨h', Rat.le_refl⟩
    refine ⟨Rat.le_trans h1 hxa.1, ?_⟩
    intro y hy
    rcases List.mem_cons.mp hy with rfl | hy
    · exact Rat.le_trans h1 hxa.2
    · exact h2 y hy

theorem foldl_min_mem (x : Rat) (t : List Rat) : t.foldl min x ∈ x :: t := by
  induction t generalizing x with
  | nil => simp
  | cons a t ih =>
    simp only [List.foldl_cons]
    have := ih (min x a)
    rcases List.mem_cons.mp this with h | h
    · rw [h, Rat.min_def]
      by_cases hxa : x ≤ a <;> simp [hxa]
    · exact List.mem_cons_of_mem _ (List.mem_cons_of_mem _ h)

theorem foldl_max_ge (x : Rat) (t : List Rat) : x ≤ t.foldl max x ∧ ∀ y ∈ t, y ≤ t.foldl max x := by
  induction t generalizing x with
  | nil => exact ⟨Rat.le_refl, by simp⟩
  | cons a t ih =>
    simp only [List.foldl_cons]
    obtain ⟨h1, h2⟩ := ih (max x a)
    have hxa : x ≤ max x a ∧ a ≤ max x a := by
      rw [Rat.max_def]
      by_cases h : x ≤ a
      · rw [if_pos h]; exact ⟨h, Rat.le_refl⟩
      · rw [if_neg h]
        rcases @Rat.le_total x a with h' | h'
        · exact absurd h' h
        · exact ⟨Rat.le_refl, h'⟩
    refine ⟨Rat.le_trans hxa.1 h1, ?_⟩
    intro y hy
    rcases List.mem_cons.mp hy with rfl | hy
    · exact Rat.le_trans hxa.2 h1
    · exact h2 y hy

theorem foldl_max_mem (x : Rat) (t : List Rat) : t.foldl max x ∈ x :: t := by
  induction t generalizing x with
  | nil => simp
  | cons a t ih =>
    simp only [List.foldl_cons]
    have := ih (max x a)
    rcases List.mem_cons.mp this with h | h
    · rw [h, Rat.max_def]
      by_cases hxa : x ≤ a <;> simp [hxa]
    · exact List.mem_cons_of_mem _ (List.mem_cons_of_mem _ h)

/-- a row grouping by SUM conserves every column total (of the kept rows) -/
theorem colsum_groupRows_sum (g : List (String × String)) (drop : Bool) (M : LMat) (c : String) :
    rsum ((groupRows .sum g drop M).rows.map fun r => (groupRows .sum g drop M).val r c)
      = rsum ((keptRows g drop M.rows).map fun r => M.val r c) := by
  unfold groupRows
  simp only [agg]
  exact rsum_fibres (glabel g) (fun r => M.val r c) _ _ (nodup_dedup _)
    (fun x hx => (mem_dedup _ _).mpr (List.mem_map_of_mem hx))

/-! ## all inputs: the code's stream is the join of the table that keeps the last presynaptic row per connector -/

theorem preRows_cons (r : CRow) (t : List CRow) (c : Int) :
    preRows (r :: t) c = if isPre r && r.cid == c then r :: preRows t c else preRows t c := by
  unfold preRows; rw [List.filter_cons]

theorem postRows_cons (r : CRow) (t : List CRow) (c : Int) :
    postRows (r :: t) c = if isPost r && r.cid == c then r :: postRows t c else postRows t c := by
  unfold postRows; rw [List.filter_cons]

theorem hasPre_false_iff (rows : List CRow) (c : Int) : hasPre rows c = false ↔ preRows rows c = [] := by
  rw [hasPre_eq]; simp

theorem preRows_lastPreOnly (rows : List CRow) (c : Int) :
    preRows (lastPreOnly rows) c = (preRows rows c).getLast?.toList := by
  induction rows with
  | nil => rfl
  | cons r t ih =>
    unfold lastPreOnly
    by_cases hd : (isPre r && hasPre t r.cid) = true
    · simp only [hd, if_true, ih, preRows_cons]
      by_cases hc : (isPre r && r.cid == c) = true
      · simp only [hc, if_true]
        have hrc : r.cid = c := by
          have := (Bool.and_eq_true _ _ ▸ hc).2
          simpa using this
        have hne : preRows t c ≠ [] := by
          intro h0
          have := (hasPre_false_iff t c).mpr h0
          rw [← hrc] at this
          simp [this] at hd
        rw [List.getLast?_cons]
        cases hl : (preRows t c).getLast? with
        | none => exact absurd (List.getLast?_eq_none_iff.mp hl) hne
        | some x => simp
      · simp [hc]
    · simp only [hd, Bool.false_eq_true, if_false, preRows_cons]
      by_cases hc : (isPre r && r.cid == c) = true
      · simp only [hc, if_true, ih]
        have hpre : isPre r = true := (Bool.and_eq_true _ _ ▸ hc).1
        have hrc : r.cid = c := by
          have := (Bool.and_eq_true _ _ ▸ hc).2
          simpa using this
        have hno : hasPre t c = false := by
          rw [← hrc]
          cases h : hasPre t r.cid
          · rfl
          · simp [hpre, h] at hd
        have : preRows t c = [] := (hasPre_false_iff t c).mp hno
        simp [this]
      · simp only [hc, Bool.false_eq_true, if_false, ih]

theorem postRows_lastPreOnly (rows : List CRow) (c : Int) : postRows (lastPreOnly rows) c = postRows rows c := by
  induction rows with
  | nil => rfl
  | cons r t ih =>
    unfold lastPreOnly
    by_cases hd : (isPre r && hasPre t r.cid) = true
    · simp only [hd, if_true, ih, postRows_cons]
      have hpre : isPre r = true := (Bool.and_eq_true _ _ ▸ hd).1
      simp [isPre_isPost r hpre]
    · simp only [hd, Bool.false_eq_true, if_false, postRows_cons, ih]

theorem preUnique_lastPreOnly (rows : List CRow) : PreUnique (lastPreOnly rows) := by
  intro c
  rw [preRows_lastPreOnly]
  cases (preRows rows c).getLast? <;> simp

theorem lastPreOnly_of_preUnique (rows : List CRow) (h : PreUnique rows) : lastPreOnly rows = rows := by
  induction rows with
  | nil => rfl
  | cons r t ih =>
    have ht : PreUnique t := by
      intro c
      have := h c
      rw [preRows_cons] at this
      split at this
      · simp only [List.length_cons] at this; omega
      · exact this
    unfold lastPreOnly
    by_cases hd : (isPre r && hasPre t r.cid) = true
    · exfalso
      have hpre : isPre r = true := (Bool.and_eq_true _ _ ▸ hd).1
      have hhas : hasPre t r.cid = true := (Bool.and_eq_true _ _ ▸ hd).2
      have := h r.cid
      rw [preRows_cons] at this
      simp only [hpre, beq_self_eq_true, Bool.and_self, if_true, List.length_cons] at this
      have hne : preRows t r.cid ≠ [] := fun h0 => by
        have := (hasPre_false_iff t r.cid).mpr h0
        simp [this] at hhas
      have : (preRows t r.cid).length ≠ 0 := fun h0 => hne (List.eq_nil_of_length_eq_zero h0)
      omega
    · simp only [hd, Bool.false_eq_true, if_false, ih ht]

theorem inputs_lastPreOnly (rows : List CRow) (c : Int) :
    dget (build (lastPreOnly rows)).inputs c = dget (build rows).inputs c := by
  rw [inputs_last_writer, inputs_last_writer, preRows_lastPreOnly]
  cases (preRows rows c).getLast? <;> simp

theorem outputs_lastPreOnly (rows : List CRow) (c : Int) :
    dget (build (lastPreOnly rows)).outputs c = dget (build rows).outputs c := by
  rw [outputs_all, outputs_all, postRows_lastPreOnly]

theorem mem_unionKeys_lastPreOnly (rows : List CRow) (c : Int) :
    c ∈ unionKeys (build (lastPreOnly rows)) ↔ c ∈ unionKeys (build rows) := by
  rw [mem_unionKeys, mem_unionKeys, preRows_lastPreOnly, postRows_lastPreOnly]
  cases hl : (preRows rows c).getLast? with
  | none => simp [List.getLast?_eq_none_iff.mp hl]
  | some x =>
    have : preRows rows c ≠ [] := by
      intro h0; simp [h0] at hl
    simp [this]

theorem edgesOf_congr (m m' : Maps) (io : Bool) (c : Int) (hi : dget m.inputs c = dget m'.inputs c)
    (ho : dget m.outputs c = dget m'.outputs c) : edgesOf m io c = edgesOf m' io c := by
  unfold edgesOf srcOf tgtsOf
  rw [hi, ho]

theorem edges_lastPreOnly_perm (io : Bool) (rows : List CRow) :
    (edges (build rows) io).Perm (edges (build (lastPreOnly rows)) io) := by
  unfold edges
  have hk : (unionKeys (build rows)).Perm (unionKeys (build (lastPreOnly rows))) :=
    (List.perm_ext_iff_of_nodup (nodup_unionKeys _) (nodup_unionKeys _)).mpr
      fun c => (mem_unionKeys_lastPreOnly rows c).symm
  refine (hk.flatMap_right _).trans (List.Perm.of_eq ?_)
  apply flatMap_congr'
  intro c _
  exact edgesOf_congr _ _ io c (inputs_lastPreOnly rows c).symm (outputs_lastPreOnly rows c).symm

theorem edges_perm_spec_all (io : Bool) (rows : List CRow) :
    (edges (build rows) io).Perm (specEdges io (lastPreOnly rows)) :=
  (edges_lastPreOnly_perm io rows).trans (edges_perm_spec io _ (preUnique_lastPreOnly rows))

end Navis.Conn
