import NavisModel.Proofs.ResampleLemmas
/-! C13 second pass, "resampling preserves the branching structure between the anchors" at full strength: every root,
leaf and branch point has exactly as many children in the resampled table as before (one per small segment ending in it),
and every fresh node has exactly one child.  Core Lean only.

Both sides are counted through the small segments: the parent column of the non-root rows of `t` is a permutation of the
concatenated tails of the small segments (`smallSegments_cover`), the parent column of the result is the concatenation of
`fresh ++ [last]` over the plan. -/
namespace Navis.Resample
open Navis.Forest

/-- Parent id with the default `-1`. -/
def par (t : Table) (i : Int) : Int := (parentOf t i).getD (-1)

theorem isParentPath_map_par {t : Table} : ∀ s : List Int, isParentPath t s = true → s.dropLast.map (par t) = s.tail
  | [], h => by simp [isParentPath] at h
  | [_], _ => rfl
  | a :: b :: rest, h => by
    simp only [isParentPath, Bool.and_eq_true] at h
    obtain ⟨hadj, hrest⟩ := h
    have ih := isParentPath_map_par (b :: rest) hrest
    have hpa : par t a = b := by
      unfold adjacent at hadj
      unfold par parentOf
      cases hf : find? t a with
      | none => rw [hf] at hadj; simp at hadj
      | some n =>
        rw [hf] at hadj
        simp only [Bool.and_eq_true, decide_eq_true_eq, beq_iff_eq] at hadj
        simp [hadj.2]
    rw [List.dropLast_cons_cons, List.map_cons, hpa, ih]
    rfl

theorem flatMap_congr' {α β} {l : List α} {f g : α → List β} (h : ∀ x ∈ l, f x = g x) : l.flatMap f = l.flatMap g := by
  induction l with
  | nil => rfl
  | cons a rest ih =>
    simp only [List.flatMap_cons]
    rw [h a List.mem_cons_self, ih fun x hx => h x (List.mem_cons_of_mem _ hx)]

theorem smallSegments_isParentPath {t : Table} (hw : WF t) : ∀ s ∈ smallSegments t, isParentPath t s = true := by
  intro s hs
  have := smallSegments_shape hw s hs
  simp only [Bool.and_eq_true] at this
  exact this.1.1.1.1

theorem smallSegments_length {t : Table} (hw : WF t) : ∀ s ∈ smallSegments t, s.length > 1 := by
  intro s hs
  have := smallSegments_shape hw s hs
  simp only [Bool.and_eq_true, decide_eq_true_eq] at this
  exact this.1.1.1.2

/-- The parent column of the non-root rows is a permutation of the concatenated tails of the small segments. -/
theorem parents_perm_tails {t : Table} (hw : WF t) :
    ((smallSegments t).flatMap List.tail).Perm ((t.filter fun n => !isRootNode n).map (·.parent)) := by
  have hcover := smallSegments_cover hw
  have hfil : ((smallSegments t).filter fun s => s.length > 1) = smallSegments t := by
    rw [List.filter_eq_self]
    intro s hs
    simpa using smallSegments_length hw s hs
  rw [hfil] at hcover
  have hmap := hcover.map (par t)
  rw [List.map_flatMap] at hmap
  have e1 : ((smallSegments t).flatMap fun s => s.dropLast.map (par t)) = (smallSegments t).flatMap List.tail :=
    flatMap_congr' fun s hs => isParentPath_map_par s (smallSegments_isParentPath hw s hs)
  have e2 : ((t.filter fun n => !isRootNode n).map (·.id)).map (par t) = (t.filter fun n => !isRootNode n).map (·.parent) := by
    rw [List.map_map]
    apply List.map_congr_left
    intro n hn
    have hnt := (List.mem_filter.mp hn).1
    simp only [Function.comp, par, parentOf, find?_of_mem hw.1 hnt, Option.map_some, Option.getD_some]
  rw [e1, e2] at hmap
  exact hmap

theorem count_parents_nonroot (t : Table) {a : Int} (ha : 0 ≤ a) :
    ((t.filter fun n => !isRootNode n).map (·.parent)).count a = childCount t a := by
  rw [← count_parents_eq_childCount]
  unfold parents
  induction t with
  | nil => rfl
  | cons n rest ih =>
    rw [List.filter_cons]
    by_cases hr : isRootNode n = true
    · have hne : n.parent ≠ a := by
        unfold isRootNode at hr
        have : n.parent < 0 := by simpa using hr
        omega
      simp only [hr, Bool.not_true, Bool.false_eq_true, if_false, List.map_cons]
      rw [List.count_cons_of_ne (by simpa using hne), ih]
    · simp only [hr, Bool.not_false, if_true, List.map_cons, List.count_cons, ih]

/-- Children of any node of `t`, counted through the small segments. -/
theorem childCount_eq_count_tails {t : Table} (hw : WF t) {a : Int} (ha : 0 ≤ a) :
    childCount t a = ((smallSegments t).flatMap List.tail).count a := by
  rw [← count_parents_nonroot t ha]
  exact ((parents_perm_tails hw).count_eq a).symm

/-- Generic: if every piece contains `a` exactly when its key is `a`, once, the count over all pieces is the number of
keys equal to `a`. -/
theorem count_flatMap_key {α} (l : List α) (g : α → List Int) (key : α → Int) (a : Int)
    (h : ∀ x ∈ l, (g x).count a = if key x = a then 1 else 0) : (l.flatMap g).count a = (l.map key).count a := by
  induction l with
  | nil => rfl
  | cons x rest ih =>
    simp only [List.flatMap_cons, List.count_append, List.map_cons, List.count_cons]
    rw [h x List.mem_cons_self, ih fun y hy => h y (List.mem_cons_of_mem _ hy)]
    by_cases hk : key x = a
    · simp [hk]; omega
    · simp [hk]

theorem segLast_stop {t : Table} (hw : WF t) : ∀ s ∈ smallSegments t, isBranchOrRoot t (segLast s) = true := by
  intro s hs
  rw [smallSegments_eq] at hs
  obtain ⟨n, hn, rfl⟩ := List.mem_map.mp hs
  obtain ⟨hnt, hp, _⟩ := mem_seeds.mp hn
  obtain ⟨mid, last, e, hseg⟩ := segOf_spec hw hnt hp
  rw [e, segLast_concat]
  exact hseg.stop

/-- A branch point or root occurs in the tail of a small segment only as its last node. -/
theorem count_tail_anchor {t : Table} (hw : WF t) {a : Int} (ha : isBranchOrRoot t a = true) :
    ∀ s ∈ smallSegments t, s.tail.count a = if segLast s = a then 1 else 0 := by
  intro s hs
  rw [smallSegments_eq] at hs
  obtain ⟨n, hn, rfl⟩ := List.mem_map.mp hs
  obtain ⟨hnt, hp, _⟩ := mem_seeds.mp hn
  obtain ⟨mid, last, e, hseg⟩ := segOf_spec hw hnt hp
  rw [e, segLast_concat]
  simp only [List.cons_append, List.tail_cons, List.count_append]
  have hmid : mid.count a = 0 := by
    rw [List.count_eq_zero]
    intro hm
    have := hseg.nostop a hm
    rw [ha] at this
    cases this
  rw [hmid, List.count_singleton]
  simp

/-- **Children of a branch point or root of `t` = small segments ending in it.** -/
theorem childCount_eq_count_last {t : Table} (hw : WF t) {a : Int} (ha0 : 0 ≤ a) (ha : isBranchOrRoot t a = true) :
    childCount t a = ((smallSegments t).map segLast).count a := by
  rw [childCount_eq_count_tails hw ha0]
  exact count_flatMap_key _ _ _ a (count_tail_anchor hw ha)

/-! ### the result side -/

theorem linkPairs_map_snd (first last base : Int) (k : Nat) :
    (linkPairs (newIds first last base k)).map Prod.snd = fresh base k ++ [last] := by
  induction k generalizing first base with
  | zero => rw [linkPairs_chain]; simp [fresh]
  | succ k ih =>
    rw [linkPairs_chain]
    simp only [List.map_cons]
    rw [ih, fresh_succ]
    rfl

theorem plan_map_last (cnt : List Int → Option Nat) (segs : List (List Int)) (base : Int) :
    (plan cnt segs base).map (·.last) = segs.map segLast := by
  induction segs generalizing base with
  | nil => rfl
  | cons s rest ih => rw [plan_cons]; simp [ih]

/-- The parent column of the table built from a plan. -/
theorem parents_planTable (t : Table) (P : List SegOut) :
    parents (planTable t P) = (P.flatMap fun o => fresh o.base o.k ++ [o.last]) ++ parents (t.filter isRootNode) := by
  unfold planTable parents
  rw [List.map_append]
  congr 1
  rw [List.map_map]
  have : ((fun n : Node => n.parent) ∘ mkNode t) = Prod.snd := by
    funext e; exact mkNode_parent t e
  rw [this]
  induction P with
  | nil => rfl
  | cons o rest ih =>
    simp only [List.flatMap_cons, List.map_append, ih]
    congr 1
    exact linkPairs_map_snd _ _ _ _

theorem count_root_parents (t : Table) {a : Int} (ha : 0 ≤ a) : (parents (t.filter isRootNode)).count a = 0 := by
  rw [List.count_eq_zero]
  intro hm
  unfold parents at hm
  obtain ⟨n, hn, rfl⟩ := List.mem_map.mp hm
  have := (List.mem_filter.mp hn).2
  unfold isRootNode at this
  have : n.parent < 0 := by simpa using this
  omega

/-- Children of a node in the resampled table, counted through the plan. -/
theorem childCount_resampleStruct {t : Table} (hw : WF t) (cnt : List Int → Option Nat) {a : Int} (ha : 0 ≤ a) :
    childCount (resampleStruct t cnt) a = ((planOf t cnt).flatMap fun o => fresh o.base o.k ++ [o.last]).count a := by
  rw [resampleStruct_eq' hw, childCount_classify, ← count_parents_eq_childCount, parents_planTable, List.count_append,
    count_root_parents t ha, Nat.add_zero]

/-- **Anchors keep their number of children**: for every root / branch point `a` of `t` (and every leaf: both sides 0). -/
theorem childCount_resample_anchor {t : Table} (hw : WF t) (cnt : List Int → Option Nat) {n : Node} (hn : n ∈ t)
    (ha : n.parent < 0 ∨ childCount t n.id ≠ 1) :
    childCount (resampleStruct t cnt) n.id = childCount t n.id := by
  obtain ⟨rk, hrk, _⟩ := WF_rank_le hw
  have hok := planOf_ok hw hrk cnt
  have h0 : 0 ≤ n.id := hw.2.1 n hn
  have hf := find?_of_mem hw.1 hn
  rw [childCount_resampleStruct hw cnt h0]
  -- a node of `t` is never a fresh id
  have hnofresh : ∀ o ∈ planOf t cnt, (fresh o.base o.k).count n.id = 0 := by
    intro o ho
    rw [List.count_eq_zero]
    intro hm
    have h1 := (mem_fresh.mp hm).1
    have h2 := hok.base_gt o ho
    have h3 := le_maxId (mem_ids_of_mem hn)
    omega
  have hpiece : ∀ o ∈ planOf t cnt, (fresh o.base o.k ++ [o.last]).count n.id = if o.last = n.id then 1 else 0 := by
    intro o ho
    rw [List.count_append, hnofresh o ho, List.count_singleton]
    simp
  rw [count_flatMap_key _ _ (·.last) n.id hpiece]
  unfold planOf
  rw [plan_map_last]
  by_cases hbr : isBranchOrRoot t n.id = true
  · exact (childCount_eq_count_last hw h0 hbr).symm
  · -- a non-root leaf: no segment ends in it and it has no children
    have hbr' : isBranchOrRoot t n.id = false := by simpa using hbr
    unfold isBranchOrRoot at hbr'
    rw [hf] at hbr'
    simp only [Bool.or_eq_false_iff, decide_eq_false_iff_not] at hbr'
    have hc0 : childCount t n.id = 0 := by
      rcases ha with h | h
      · exact absurd h hbr'.1
      · have := hbr'.2; omega
    rw [hc0, List.count_eq_zero]
    intro hm
    obtain ⟨s, hs, hse⟩ := List.mem_map.mp hm
    have := segLast_stop hw s hs
    rw [hse] at this
    exact hbr this

/-- **Every fresh node has exactly one child.** -/
theorem childCount_resample_fresh {t : Table} (hw : WF t) (cnt : List Int → Option Nat) {o : SegOut}
    (ho : o ∈ planOf t cnt) {i : Int} (hi : i ∈ fresh o.base o.k) : childCount (resampleStruct t cnt) i = 1 := by
  obtain ⟨rk, hrk, _⟩ := WF_rank_le hw
  have hok := planOf_ok hw hrk cnt
  have hgt : maxId t < i := by
    have := (mem_fresh.mp hi).1
    have := hok.base_gt o ho
    omega
  have h0 : 0 ≤ i := by
    obtain ⟨n, hn, _, _⟩ := hok.first_mem o ho
    have h1 := hw.2.1 n hn
    have h2 := le_maxId (mem_ids_of_mem hn)
    omega
  rw [childCount_resampleStruct hw cnt h0]
  -- compare with the id list `planIds`, which is duplicate-free and contains `i`
  have hnd := planIds_nodup hok
  have hmem : i ∈ planIds (planOf t cnt) := mem_planIds.mpr ⟨o, ho, Or.inr (mem_fresh.mp hi)⟩
  have hone : (planIds (planOf t cnt)).count i = 1 := by
    rw [hnd.count, if_pos hmem]
  rw [← hone]
  unfold planIds
  rw [List.count_flatMap, List.count_flatMap]
  congr 1
  apply List.map_congr_left
  intro o' ho'
  simp only [Function.comp]
  have hlast : o'.last ≠ i := by
    intro h
    have := le_maxId (hok.last_mem o' ho')
    omega
  have hfirst : o'.first ≠ i := by
    intro h
    obtain ⟨n, hn, hid, _⟩ := hok.first_mem o' ho'
    have := le_maxId (mem_ids_of_mem hn)
    omega
  rw [List.count_append, List.count_singleton, List.count_cons]
  simp [hlast, hfirst]

end Navis.Resample
