import NavisModel.Model.Resample
import Mathlib.Tactic.Linarith
import Mathlib.Tactic.Ring
import Mathlib.Tactic.FieldSimp
import Mathlib.Tactic.Positivity
/-! Helper lemmas for C13, geometry part: half-to-even rounding, arc-length interpolation on a polyline
(every sampled point lies on the cable; chords are not longer than arcs), nearest-node remap. -/
namespace Navis.Resample

/-! ## rounding -/

theorem floor_le' (q : Rat) : (q.floor : Rat) ≤ q := Rat.floor_le q

theorem lt_floor_add_one' (q : Rat) : q < (q.floor : Rat) + 1 := by
  have := Rat.lt_floor_add_one q
  push_cast at this
  exact this

theorem round_cases (q : Rat) :
    (roundHalfEven q = q.floor ∧ q - (q.floor : Rat) ≤ 1 / 2) ∨
    (roundHalfEven q = q.floor + 1 ∧ 1 / 2 ≤ q - (q.floor : Rat)) := by
  unfold roundHalfEven
  split
  · left; exact ⟨rfl, by linarith⟩
  · split
    · right; exact ⟨rfl, by linarith⟩
    · rename_i h1 h2
      have h : q - (q.floor : Rat) = 1 / 2 := le_antisymm (not_lt.mp h2) (not_lt.mp h1)
      split
      · left; exact ⟨rfl, by linarith⟩
      · right; exact ⟨rfl, by linarith⟩

theorem round_tie (q : Rat) (h : q - (q.floor : Rat) = 1 / 2) :
    roundHalfEven q = if q.floor % 2 = 0 then q.floor else q.floor + 1 := by
  unfold roundHalfEven
  rw [if_neg (by linarith), if_neg (by linarith)]

theorem round_upper (q : Rat) : (roundHalfEven q : Rat) - q ≤ 1 / 2 := by
  rcases round_cases q with ⟨h, _⟩ | ⟨h, h2⟩
  · rw [h]; have := floor_le' q; linarith
  · rw [h]; push_cast; linarith

theorem round_lower (q : Rat) : q - (roundHalfEven q : Rat) ≤ 1 / 2 := by
  rcases round_cases q with ⟨h, h2⟩ | ⟨h, _⟩
  · rw [h]; linarith
  · rw [h]; push_cast; have := lt_floor_add_one' q; linarith

/-- On an exact tie the even neighbour is taken. -/
theorem round_tie_even (q : Rat) (h : q - (roundHalfEven q : Rat) = 1 / 2 ∨ (roundHalfEven q : Rat) - q = 1 / 2) :
    roundHalfEven q % 2 = 0 := by
  have hfl := floor_le' q
  have hfu := lt_floor_add_one' q
  have htie : q - (q.floor : Rat) = 1 / 2 := by
    rcases round_cases q with ⟨h1, h2⟩ | ⟨h1, h2⟩
    · rw [h1] at h
      rcases h with h | h
      · exact h
      · linarith
    · rw [h1] at h
      push_cast at h
      rcases h with h | h
      · linarith
      · linarith
  rw [round_tie q htie]
  split <;> omega

/-- `roundHalfEven q` is the integer nearest to `q` whenever that is unique. -/
theorem round_nearest (q : Rat) (n : Int) (h1 : (n : Rat) - q < 1 / 2) (h2 : q - (n : Rat) < 1 / 2) :
    roundHalfEven q = n := by
  have hu := round_upper q
  have hl := round_lower q
  have h3 : ((roundHalfEven q : Int) : Rat) - (n : Rat) < 1 := by linarith
  have h4 : (n : Rat) - ((roundHalfEven q : Int) : Rat) < 1 := by linarith
  have h5 : roundHalfEven q - n < 1 := by exact_mod_cast h3
  have h6 : n - roundHalfEven q < 1 := by exact_mod_cast h4
  omega

theorem round_intCast (n : Int) : roundHalfEven (n : Rat) = n :=
  round_nearest _ n (by norm_num) (by norm_num)

/-- A segment at least as long as the target gets at least one sample position. -/
theorem round_pos_of_ge_one (q : Rat) (h : 1 ≤ q) : 1 ≤ roundHalfEven q := by
  have hl := round_lower q
  have : (0 : Rat) < (roundHalfEven q : Rat) := by linarith
  have : (0 : Int) < roundHalfEven q := by exact_mod_cast this
  omega

/-! ## points on the cable -/

theorem lerpPt_zero (a b : Pt) : lerpPt a b 0 = a := by
  cases a; simp [lerpPt]

theorem lerpPt_one (a b : Pt) : lerpPt a b 1 = b := by
  cases a; cases b; simp [lerpPt]

/-- `p` lies on the closed straight piece between two *consecutive* knots of `ks`. -/
def OnCable (ks : List (Rat × Pt)) (p : Pt) : Prop :=
  ∃ (pre post : List (Rat × Pt)) (k0 k1 : Rat × Pt) (τ : Rat),
    ks = pre ++ k0 :: k1 :: post ∧ 0 ≤ τ ∧ τ ≤ 1 ∧ p = lerpPt k0.2 k1.2 τ

theorem OnCable.cons {ks : List (Rat × Pt)} {p : Pt} (k : Rat × Pt) (h : OnCable ks p) : OnCable (k :: ks) p := by
  obtain ⟨pre, post, k0, k1, τ, he, h0, h1, hp⟩ := h
  exact ⟨k :: pre, post, k0, k1, τ, by rw [he]; rfl, h0, h1, hp⟩

/-- Every value of `polyAt` on a polyline with at least two knots lies on the cable. -/
theorem polyAt_onCable (k0 k1 : Rat × Pt) (rest : List (Rat × Pt)) (s : Rat) :
    OnCable (k0 :: k1 :: rest) (polyAt (k0 :: k1 :: rest) s) := by
  induction rest generalizing k0 k1 with
  | nil =>
    unfold polyAt
    split
    · exact ⟨[], [], k0, k1, 1, rfl, by norm_num, by norm_num, by simp [polyAt, lerpPt_one]⟩
    · rename_i h1
      split
      · exact ⟨[], [], k0, k1, 0, rfl, by norm_num, by norm_num, by simp [lerpPt_zero]⟩
      · rename_i h0
        have h1' : s < k1.1 := not_le.mp h1
        have h0' : k0.1 < s := not_le.mp h0
        have hd : 0 < k1.1 - k0.1 := by linarith
        refine ⟨[], [], k0, k1, (s - k0.1) / (k1.1 - k0.1), rfl, ?_, ?_, rfl⟩
        · exact div_nonneg (by linarith) hd.le
        · rw [div_le_one hd]; linarith
  | cons k2 rest ih =>
    unfold polyAt
    split
    · exact (ih k1 k2).cons k0
    · rename_i h1
      split
      · exact ⟨[], k2 :: rest, k0, k1, 0, rfl, by norm_num, by norm_num, by simp [lerpPt_zero]⟩
      · rename_i h0
        have h1' : s < k1.1 := not_le.mp h1
        have h0' : k0.1 < s := not_le.mp h0
        have hd : 0 < k1.1 - k0.1 := by linarith
        refine ⟨[], k2 :: rest, k0, k1, (s - k0.1) / (k1.1 - k0.1), rfl, ?_, ?_, rfl⟩
        · exact div_nonneg (by linarith) hd.le
        · rw [div_le_one hd]; linarith

/-- At (or before) the first knot the polyline is at its first point — anchors are kept. -/
theorem polyAt_first (k0 : Rat × Pt) (rest : List (Rat × Pt)) (s : Rat) (hs : s ≤ k0.1)
    (hlt : ∀ k ∈ rest, s < k.1) : polyAt (k0 :: rest) s = k0.2 := by
  cases rest with
  | nil => rfl
  | cons k1 rest =>
    unfold polyAt
    have := hlt k1 (by simp)
    rw [if_neg (by linarith), if_pos hs]

/-! ## chord ≤ arc (squared form, over `Rat`) -/

/-- Squared triangle inequality in `ℚ³`: `|u| ≤ a`, `|v| ≤ b` ⇒ `|u + v| ≤ a + b`. -/
theorem sq_triangle (u1 u2 u3 v1 v2 v3 a b : Rat) (ha : 0 ≤ a) (hb : 0 ≤ b)
    (hu : u1 * u1 + u2 * u2 + u3 * u3 ≤ a * a) (hv : v1 * v1 + v2 * v2 + v3 * v3 ≤ b * b) :
    (u1 + v1) * (u1 + v1) + (u2 + v2) * (u2 + v2) + (u3 + v3) * (u3 + v3) ≤ (a + b) * (a + b) := by
  have hab : 0 ≤ a * b := mul_nonneg ha hb
  -- Cauchy–Schwarz via Lagrange's identity
  have hcs : (u1 * v1 + u2 * v2 + u3 * v3) * (u1 * v1 + u2 * v2 + u3 * v3) ≤ (a * b) * (a * b) := by
    have hl : (u1 * v1 + u2 * v2 + u3 * v3) * (u1 * v1 + u2 * v2 + u3 * v3) ≤
        (u1 * u1 + u2 * u2 + u3 * u3) * (v1 * v1 + v2 * v2 + v3 * v3) := by
      nlinarith [sq_nonneg (u1 * v2 - u2 * v1), sq_nonneg (u1 * v3 - u3 * v1), sq_nonneg (u2 * v3 - u3 * v2)]
    have hu0 : 0 ≤ u1 * u1 + u2 * u2 + u3 * u3 := by nlinarith [sq_nonneg u1, sq_nonneg u2, sq_nonneg u3]
    have hv0 : 0 ≤ v1 * v1 + v2 * v2 + v3 * v3 := by nlinarith [sq_nonneg v1, sq_nonneg v2, sq_nonneg v3]
    have : (u1 * u1 + u2 * u2 + u3 * u3) * (v1 * v1 + v2 * v2 + v3 * v3) ≤ (a * a) * (b * b) :=
      mul_le_mul hu hv hv0 (by nlinarith)
    nlinarith
  have hdot : u1 * v1 + u2 * v2 + u3 * v3 ≤ a * b := by
    by_contra hc
    have hc' : a * b < u1 * v1 + u2 * v2 + u3 * v3 := not_le.mp hc
    nlinarith
  nlinarith

theorem sqd_self (a : Pt) : sqd a a = 0 := by simp [sqd]

theorem sqd_nonneg (a b : Pt) : 0 ≤ sqd a b := by
  unfold sqd
  nlinarith [sq_nonneg (a.x - b.x), sq_nonneg (a.y - b.y), sq_nonneg (a.z - b.z)]

theorem sqd_eq_zero {a b : Pt} (h : sqd a b = 0) : a.x = b.x ∧ a.y = b.y ∧ a.z = b.z := by
  unfold sqd at h
  have hx := mul_self_nonneg (a.x - b.x)
  have hy := mul_self_nonneg (a.y - b.y)
  have hz := mul_self_nonneg (a.z - b.z)
  have h1 : (a.x - b.x) * (a.x - b.x) = 0 := by linarith
  have h2 : (a.y - b.y) * (a.y - b.y) = 0 := by linarith
  have h3 : (a.z - b.z) * (a.z - b.z) = 0 := by linarith
  exact ⟨by have := mul_self_eq_zero.mp h1; linarith, by have := mul_self_eq_zero.mp h2; linarith,
    by have := mul_self_eq_zero.mp h3; linarith⟩

theorem sqd_comm (a b : Pt) : sqd a b = sqd b a := by unfold sqd; ring

/-- Triangle inequality for `sqd` with explicit non-negative bounds. -/
theorem sqd_triangle (p q r : Pt) (a b : Rat) (ha : 0 ≤ a) (hb : 0 ≤ b)
    (h1 : sqd p q ≤ a * a) (h2 : sqd q r ≤ b * b) : sqd p r ≤ (a + b) * (a + b) := by
  have := sq_triangle (p.x - q.x) (p.y - q.y) (p.z - q.z) (q.x - r.x) (q.y - r.y) (q.z - r.z) a b ha hb
    (by simpa [sqd] using h1) (by simpa [sqd] using h2)
  have e : sqd p r = (p.x - q.x + (q.x - r.x)) * (p.x - q.x + (q.x - r.x)) +
      (p.y - q.y + (q.y - r.y)) * (p.y - q.y + (q.y - r.y)) + (p.z - q.z + (q.z - r.z)) * (p.z - q.z + (q.z - r.z)) := by
    unfold sqd; ring
  rw [e]; exact this

theorem sqd_lerp_lerp (a b : Pt) (τ σ : Rat) : sqd (lerpPt a b τ) (lerpPt a b σ) = (τ - σ) * (τ - σ) * sqd a b := by
  unfold sqd lerpPt; ring

theorem sqd_left_lerp (a b : Pt) (τ : Rat) : sqd a (lerpPt a b τ) = τ * τ * sqd a b := by
  unfold sqd lerpPt; ring

theorem sqd_lerp_right (a b : Pt) (τ : Rat) : sqd (lerpPt a b τ) b = (1 - τ) * (1 - τ) * sqd a b := by
  unfold sqd lerpPt; ring

/-- Knot arc lengths are non-decreasing and no edge is longer than the arc-length step assigned to it
(with exact Euclidean edge lengths: equality). -/
def ArcOK : List (Rat × Pt) → Prop
  | k0 :: k1 :: rest => k0.1 ≤ k1.1 ∧ sqd k0.2 k1.2 ≤ (k1.1 - k0.1) * (k1.1 - k0.1) ∧ ArcOK (k1 :: rest)
  | _ => True

theorem polyAt_cons_cons (k0 k1 : Rat × Pt) (rest : List (Rat × Pt)) (s : Rat) :
    polyAt (k0 :: k1 :: rest) s =
      if k1.1 ≤ s then polyAt (k1 :: rest) s
      else if s ≤ k0.1 then k0.2 else lerpPt k0.2 k1.2 ((s - k0.1) / (k1.1 - k0.1)) := by
  rw [polyAt]

/-- From the first knot: the point at arc length `s ≥ d₀` is at most `s − d₀` away. -/
theorem sqd_first_polyAt (k0 : Rat × Pt) (rest : List (Rat × Pt)) (h : ArcOK (k0 :: rest)) (s : Rat) (hs : k0.1 ≤ s) :
    sqd k0.2 (polyAt (k0 :: rest) s) ≤ (s - k0.1) * (s - k0.1) := by
  induction rest generalizing k0 with
  | nil => simp only [polyAt, sqd_self]; nlinarith [sq_nonneg (s - k0.1)]
  | cons k1 rest ih =>
    obtain ⟨hm, he, hr⟩ := h
    rw [polyAt_cons_cons]
    split
    · rename_i h1
      have := ih k1 hr h1
      have := sqd_triangle k0.2 k1.2 (polyAt (k1 :: rest) s) (k1.1 - k0.1) (s - k1.1) (by linarith) (by linarith) he this
      calc sqd k0.2 (polyAt (k1 :: rest) s) ≤ (k1.1 - k0.1 + (s - k1.1)) * (k1.1 - k0.1 + (s - k1.1)) := this
        _ = (s - k0.1) * (s - k0.1) := by ring
    · rename_i h1
      split
      · rw [sqd_self]; nlinarith [sq_nonneg (s - k0.1)]
      · rename_i h0
        have h1' : s < k1.1 := not_le.mp h1
        have hd : 0 < k1.1 - k0.1 := by linarith
        rw [sqd_left_lerp]
        have hτ : (s - k0.1) / (k1.1 - k0.1) * (k1.1 - k0.1) = s - k0.1 := by field_simp
        have h0τ : 0 ≤ (s - k0.1) / (k1.1 - k0.1) := div_nonneg (by linarith) hd.le
        calc (s - k0.1) / (k1.1 - k0.1) * ((s - k0.1) / (k1.1 - k0.1)) * sqd k0.2 k1.2
            ≤ (s - k0.1) / (k1.1 - k0.1) * ((s - k0.1) / (k1.1 - k0.1)) * ((k1.1 - k0.1) * (k1.1 - k0.1)) :=
              mul_le_mul_of_nonneg_left he (mul_nonneg h0τ h0τ)
          _ = ((s - k0.1) / (k1.1 - k0.1) * (k1.1 - k0.1)) * ((s - k0.1) / (k1.1 - k0.1) * (k1.1 - k0.1)) := by ring
          _ = (s - k0.1) * (s - k0.1) := by rw [hτ]

/-- **Arc-length parametrisation is 1-Lipschitz** (squared form): two points of the polyline at arc
lengths `s ≤ s'` are at most `s' − s` apart. -/
theorem sqd_polyAt_le (ks : List (Rat × Pt)) (h : ArcOK ks) (s s' : Rat) (hss : s ≤ s') :
    sqd (polyAt ks s) (polyAt ks s') ≤ (s' - s) * (s' - s) := by
  induction ks with
  | nil => simp only [polyAt, sqd_self]; nlinarith [sq_nonneg (s' - s)]
  | cons k0 rest ih =>
    cases rest with
    | nil => simp only [polyAt, sqd_self]; nlinarith [sq_nonneg (s' - s)]
    | cons k1 rest =>
      obtain ⟨hm, he, hr⟩ := h
      rw [polyAt_cons_cons k0 k1 rest s]
      by_cases h1 : k1.1 ≤ s
      · have h1' : k1.1 ≤ s' := by linarith
        rw [if_pos h1, polyAt_cons_cons k0 k1 rest s', if_pos h1']
        exact ih hr
      · rw [if_neg h1]
        have h1s : s < k1.1 := not_le.mp h1
        by_cases h0 : s ≤ k0.1
        · rw [if_pos h0]
          -- left point is the first knot
          by_cases hk : k0.1 ≤ s'
          · have := sqd_first_polyAt k0 (k1 :: rest) ⟨hm, he, hr⟩ s' hk
            have hmono : (s' - k0.1) * (s' - k0.1) ≤ (s' - s) * (s' - s) := by nlinarith
            linarith
          · have hk' : s' < k0.1 := not_le.mp hk
            rw [polyAt_cons_cons, if_neg (by linarith), if_pos (by linarith), sqd_self]
            nlinarith [sq_nonneg (s' - s)]
        · rw [if_neg h0, polyAt_cons_cons k0 k1 rest s']
          have h0s : k0.1 < s := not_le.mp h0
          have hd : 0 < k1.1 - k0.1 := by linarith
          by_cases h1' : k1.1 ≤ s'
          · rw [if_pos h1']
            -- lerp point → knot 1 → point further up
            have hA : sqd (lerpPt k0.2 k1.2 ((s - k0.1) / (k1.1 - k0.1))) k1.2 ≤ (k1.1 - s) * (k1.1 - s) := by
              rw [sqd_lerp_right]
              have e : 1 - (s - k0.1) / (k1.1 - k0.1) = (k1.1 - s) / (k1.1 - k0.1) := by field_simp; ring
              rw [e]
              have hτ : (k1.1 - s) / (k1.1 - k0.1) * (k1.1 - k0.1) = k1.1 - s := by field_simp
              have h0τ : 0 ≤ (k1.1 - s) / (k1.1 - k0.1) := div_nonneg (by linarith) hd.le
              calc (k1.1 - s) / (k1.1 - k0.1) * ((k1.1 - s) / (k1.1 - k0.1)) * sqd k0.2 k1.2
                  ≤ (k1.1 - s) / (k1.1 - k0.1) * ((k1.1 - s) / (k1.1 - k0.1)) * ((k1.1 - k0.1) * (k1.1 - k0.1)) :=
                    mul_le_mul_of_nonneg_left he (mul_nonneg h0τ h0τ)
                _ = ((k1.1 - s) / (k1.1 - k0.1) * (k1.1 - k0.1)) * ((k1.1 - s) / (k1.1 - k0.1) * (k1.1 - k0.1)) := by ring
                _ = (k1.1 - s) * (k1.1 - s) := by rw [hτ]
            have hB := sqd_first_polyAt k1 rest hr s' h1'
            have := sqd_triangle _ _ _ (k1.1 - s) (s' - k1.1) (by linarith) (by linarith) hA hB
            calc _ ≤ (k1.1 - s + (s' - k1.1)) * (k1.1 - s + (s' - k1.1)) := this
              _ = (s' - s) * (s' - s) := by ring
          · rw [if_neg h1', if_neg (by linarith)]
            rw [sqd_lerp_lerp]
            have e : (s - k0.1) / (k1.1 - k0.1) - (s' - k0.1) / (k1.1 - k0.1) = (s - s') / (k1.1 - k0.1) := by
              field_simp; ring
            rw [e]
            have hτ : (s - s') / (k1.1 - k0.1) * (k1.1 - k0.1) = s - s' := by field_simp
            calc (s - s') / (k1.1 - k0.1) * ((s - s') / (k1.1 - k0.1)) * sqd k0.2 k1.2
                ≤ (s - s') / (k1.1 - k0.1) * ((s - s') / (k1.1 - k0.1)) * ((k1.1 - k0.1) * (k1.1 - k0.1)) :=
                  mul_le_mul_of_nonneg_left he (mul_self_nonneg _)
              _ = ((s - s') / (k1.1 - k0.1) * (k1.1 - k0.1)) * ((s - s') / (k1.1 - k0.1) * (k1.1 - k0.1)) := by ring
              _ = (s' - s) * (s' - s) := by rw [hτ]; ring

/-! ## the knots built from edge lengths -/

theorem samplePos_step (total : Rat) (k j : Nat) :
    samplePos total k (j + 1) - samplePos total k j = total / ((k : Rat) + 1) := by
  unfold samplePos
  have : ((k : Rat) + 1) ≠ 0 := by positivity
  field_simp
  push_cast
  ring

theorem samplePos_zero (total : Rat) (k : Nat) : samplePos total k 0 = 0 := by simp [samplePos]

theorem samplePos_last (total : Rat) (k : Nat) : samplePos total k (k + 1) = total := by
  unfold samplePos
  have : ((k : Rat) + 1) ≠ 0 := by positivity
  field_simp
  push_cast
  ring

/-- Edge lengths handed to `knots` are non-negative and not shorter than the Euclidean distance of the
two end points (exact lengths: equality). -/
def LensOK : List Pt → List Rat → Prop
  | p :: q :: ps, l :: ls => 0 ≤ l ∧ sqd p q ≤ l * l ∧ LensOK (q :: ps) ls
  | _, _ => True

theorem knots_cons_cons (acc : Rat) (p q : Pt) (ps : List Pt) (l : Rat) (ls : List Rat) :
    knots acc (p :: q :: ps) (l :: ls) = (acc, p) :: knots (acc + l) (q :: ps) ls := by
  rw [knots]

theorem knots_head (acc : Rat) (p : Pt) (ps : List Pt) (ls : List Rat) :
    ∃ tl, knots acc (p :: ps) ls = (acc, p) :: tl := by
  cases ls with
  | nil => exact ⟨[], by rw [knots]⟩
  | cons l ls => exact ⟨knots (acc + l) ps ls, by rw [knots]⟩

theorem knots_arcOK (acc : Rat) (pts : List Pt) (lens : List Rat) (h : LensOK pts lens) :
    ArcOK (knots acc pts lens) := by
  induction pts generalizing acc lens with
  | nil => simp [knots, ArcOK]
  | cons p ps ih =>
    cases lens with
    | nil => simp [knots, ArcOK]
    | cons l ls =>
      cases ps with
      | nil => simp [knots, ArcOK]
      | cons q ps =>
        obtain ⟨h0, h1, h2⟩ := h
        rw [knots_cons_cons]
        obtain ⟨tl, htl⟩ := knots_head (acc + l) q ps ls
        have := ih (acc + l) ls h2
        rw [htl] at this ⊢
        refine ⟨by simp only; linarith, ?_, this⟩
        simp only
        have e : acc + l - acc = l := by ring
        rw [e]; exact h1

/-- **Every new edge is no longer than the piece of cable it replaces**: consecutive samples `j`, `j+1`
of a segment are at most `total / (k + 1)` apart (squared form). -/
theorem chord_le_arc (ks : List (Rat × Pt)) (h : ArcOK ks) (total : Rat) (ht : 0 ≤ total) (k j : Nat) :
    sqd (polyAt ks (samplePos total k j)) (polyAt ks (samplePos total k (j + 1))) ≤
      (total / ((k : Rat) + 1)) * (total / ((k : Rat) + 1)) := by
  have hstep := samplePos_step total k j
  have hpos : (0 : Rat) < (k : Rat) + 1 := by positivity
  have hle : samplePos total k j ≤ samplePos total k (j + 1) := by
    have : 0 ≤ total / ((k : Rat) + 1) := div_nonneg ht hpos.le
    linarith
  have := sqd_polyAt_le ks h _ _ hle
  rw [hstep] at this
  exact this

/-! ## nearest -/

theorem minSqd_cons_none {n : Int × Pt} {rest : List (Int × Pt)} {q : Pt} (h : minSqd rest q = none) :
    minSqd (n :: rest) q = some (sqd n.2 q) := by rw [minSqd, h]

theorem minSqd_cons_some {n : Int × Pt} {rest : List (Int × Pt)} {q : Pt} {v : Rat} (h : minSqd rest q = some v) :
    minSqd (n :: rest) q = if sqd n.2 q < v then some (sqd n.2 q) else some v := by rw [minSqd, h]

theorem minSqd_isSome {nodes : List (Int × Pt)} (q : Pt) (h : nodes ≠ []) : ∃ m, minSqd nodes q = some m := by
  cases nodes with
  | nil => exact absurd rfl h
  | cons n rest =>
    cases hr : minSqd rest q with
    | none => exact ⟨_, minSqd_cons_none hr⟩
    | some v =>
      rw [minSqd_cons_some hr]
      by_cases hlt : sqd n.2 q < v
      · exact ⟨_, if_pos hlt⟩
      · exact ⟨_, if_neg hlt⟩

/-- `minSqd` is the minimum of the squared distances and is attained. -/
theorem minSqd_spec {nodes : List (Int × Pt)} {q : Pt} {m : Rat} (h : minSqd nodes q = some m) :
    (∀ n ∈ nodes, m ≤ sqd n.2 q) ∧ ∃ n ∈ nodes, sqd n.2 q = m := by
  induction nodes generalizing m with
  | nil => simp [minSqd] at h
  | cons n rest ih =>
    cases hr : minSqd rest q with
    | none =>
      rw [minSqd_cons_none hr] at h
      simp only [Option.some.injEq] at h
      have hnil : rest = [] := by
        by_contra hne
        obtain ⟨v, hv⟩ := minSqd_isSome q hne
        rw [hr] at hv; cases hv
      subst hnil
      refine ⟨?_, n, by simp, h⟩
      intro x hx
      rw [List.mem_singleton.mp hx, h]
    | some v =>
      rw [minSqd_cons_some hr] at h
      obtain ⟨h1, x, hx, hxe⟩ := ih hr
      by_cases hlt : sqd n.2 q < v
      · rw [if_pos hlt] at h
        simp only [Option.some.injEq] at h
        refine ⟨?_, n, by simp, h⟩
        intro y hy
        rcases List.mem_cons.mp hy with rfl | hy
        · rw [h]
        · have := h1 y hy; rw [← h]; linarith
      · rw [if_neg hlt] at h
        simp only [Option.some.injEq] at h
        subst h
        refine ⟨?_, x, List.mem_cons_of_mem _ hx, hxe⟩
        intro y hy
        rcases List.mem_cons.mp hy with rfl | hy
        · exact not_lt.mp hlt
        · exact h1 y hy

/-- **Nearest-node remap**: the returned id belongs to a node of the new table whose squared distance
to the query is minimal. -/
theorem nearest_spec {nodes : List (Int × Pt)} {q : Pt} {i : Int} (h : nearest nodes q = some i) :
    ∃ n ∈ nodes, n.1 = i ∧ ∀ n' ∈ nodes, sqd n.2 q ≤ sqd n'.2 q := by
  unfold nearest at h
  cases hm : minSqd nodes q with
  | none => rw [hm] at h; cases h
  | some m =>
    rw [hm] at h
    simp only [Option.map_eq_some_iff] at h
    obtain ⟨n, hn, rfl⟩ := h
    have hmem := List.mem_of_find?_eq_some hn
    have heq : sqd n.2 q = m := by simpa using List.find?_some hn
    exact ⟨n, hmem, rfl, fun n' hn' => heq ▸ (minSqd_spec hm).1 n' hn'⟩

theorem nearest_isSome {nodes : List (Int × Pt)} (q : Pt) (h : nodes ≠ []) : (nearest nodes q).isSome := by
  unfold nearest
  obtain ⟨m, hm⟩ := minSqd_isSome q h
  rw [hm]
  obtain ⟨n, hn, hne⟩ := (minSqd_spec hm).2
  simp only [Option.isSome_map]
  rw [List.find?_isSome]
  exact ⟨n, hn, by simp [hne]⟩

end Navis.Resample
