import NavisModel.Proofs.DistX3Lemmas
/-! Helper lemmas for the second pass of C05, part 4 (core Lean only): the ancestor relation behind `distal_to` /
`directed=True`, and the limit. -/
namespace Navis.DistX
open Navis.Forest

theorem mem_rootPath_self {t : Table} {a : Int} (ha : a ∈ ids t) : a ∈ rootPath t a := by
  obtain ⟨rest, hr⟩ := rootPath_cons ha
  rw [hr]; exact List.mem_cons_self

/-- A proper ancestor has a strictly smaller rank. -/
theorem rank_lt_of_mem_rootPath {t : Table} (rk : Int → Nat)
    (hrk : ∀ n ∈ t, n.parent < 0 ∨ (n.parent ∈ ids t ∧ rk n.parent < rk n.id)) {a b : Int}
    (h : b ∈ rootPath t a) (hne : b ≠ a) : rk b < rk a := by
  have ha : a ∈ ids t := by
    by_cases ha : a ∈ ids t
    · exact ha
    · rw [rootPath_of_not_mem ha] at h; simp at h
  obtain ⟨rest, hr⟩ := rootPath_cons ha
  have hp := (pathToRoot_ranks rk hrk (t.length + 1) a).1
  unfold rootPath at hr
  rw [hr] at hp
  unfold rootPath at h
  rw [hr] at h
  rcases List.mem_cons.mp h with e | e
  · exact absurd e hne
  · exact (List.pairwise_cons.mp hp).1 b e

/-- The ancestor-or-self relation is antisymmetric. -/
theorem ancestor_antisymm {t : Table} (hw : WF t) {a b : Int} (h1 : b ∈ rootPath t a) (h2 : a ∈ rootPath t b) : a = b := by
  obtain ⟨_, _, rk, hrk⟩ := hw
  by_cases he : a = b
  · exact he
  · have l1 := rank_lt_of_mem_rootPath rk hrk h1 (fun e => he e.symm)
    have l2 := rank_lt_of_mem_rootPath rk hrk h2 he
    omega

/-- An ancestor lies in the same tree. -/
theorem rootOf_eq_of_mem_rootPath {t : Table} (hw : WF t) {a b : Int} (h : b ∈ rootPath t a) : rootOf t a = rootOf t b := by
  have hb : b ∈ ids t := rootPath_sub h
  rcases meet_or_disjoint hw a b with hd | ⟨l, pa, pb, m⟩
  · exact absurd (mem_rootPath_self hb) (hd b h)
  · exact m.rootOf_eq

/-- **`directed` honoured**: on ancestor pairs the directed and the undirected distance coincide (elsewhere the
directed one is infinite, `geoDir_finite_iff_ancestor`). -/
theorem geo_directed_eq_undirected {t : Table} (hw : WF t) (len : Int → Int → Nat) {a b : Int} (h : b ∈ rootPath t a) :
    geo t len false a b = geo t len true a b := by
  have hb : b ∈ ids t := rootPath_sub h
  rcases meet_or_disjoint hw a b with hd | ⟨l, pa, pb, m⟩
  · exact absurd (mem_rootPath_self hb) (hd b h)
  · -- the meeting point is `b` itself
    have hbl : b ∈ rootPath t l := by
      have : b ∈ pa ++ rootPath t l := m.ha ▸ h
      rcases List.mem_append.mp this with h' | h'
      · exact absurd (mem_rootPath_self hb) (m.da b h')
      · exact h'
    have hlb : l = b := ancestor_antisymm hw hbl m.l_mem_b
    subst hlb
    have hpb : pb = [] := by
      have := m.hb
      exact List.append_left_eq_self.mp this.symm
    rw [m.geo_eq, hpb]
    show _ = distUp t len a l
    rw [m.distUp_eq]
    simp [pathLen]

theorem applyLimit_none (d : Option Nat) : applyLimit none d = d := by
  cases d <;> rfl

theorem applyLimit_some_iff (l : Nat) (d : Option Nat) (v : Nat) : applyLimit (some l) d = some v ↔ d = some v ∧ v ≤ l := by
  cases d with
  | none => simp [applyLimit]
  | some w =>
    unfold applyLimit
    by_cases h : w > l
    · simp only [h, if_true]
      constructor
      · intro h'; exact absurd h' (by simp)
      · rintro ⟨h1, h2⟩; have : w = v := Option.some.inj h1; omega
    · simp only [h, if_false, Option.some.injEq]
      constructor
      · intro h'; exact ⟨h', by omega⟩
      · intro h'; exact h'.1

theorem applyLimit_eq_none_iff (l : Nat) (d : Option Nat) : applyLimit (some l) d = none ↔ d = none ∨ ∃ v, d = some v ∧ l < v := by
  cases d with
  | none => simp [applyLimit]
  | some w =>
    unfold applyLimit
    by_cases h : w > l
    · simp [h]
    · simp only [h, if_false]
      constructor
      · intro h'; exact absurd h' (by simp)
      · rintro (h' | ⟨v, h1, h2⟩)
        · exact absurd h' (by simp)
        · have : w = v := Option.some.inj h1; omega

end Navis.DistX
