import NavisModel.Proofs.HealCheckerLemmas
/-!
C11 helper lemmas, final pass (core Lean only): histories of healing steps, `break_fragments` size clause,
completeness of the heal checker on the model's own output.
-/
namespace Navis.Heal
open Navis.Forest

/-- A history of healing calls with arbitrary options (`heal_skeleton` applied again and again). -/
def healSeq (t : Table) (os : List Opts) : Table := os.foldl heal t

theorem healSeq_spec {t : Table} (hw : WF t) (os : List Opts) :
    WF (healSeq t os) ∧
    (healSeq t os).map (fun n => (n.id, n.x, n.y, n.z)) = t.map (fun n => (n.id, n.x, n.y, n.z)) ∧
    (∀ e ∈ uedges t, e ∈ uedges (healSeq t os)) ∧
    (roots (healSeq t os)).length ≤ (roots t).length ∧
    (uedges (healSeq t os)).length + (roots (healSeq t os)).length = (uedges t).length + (roots t).length := by
  induction os generalizing t with
  | nil => exact ⟨hw, rfl, fun e he => he, Nat.le_refl _, rfl⟩
  | cons o rest ih =>
    have hs := heal_spec hw o
    obtain ⟨h1, h2, h3, h4, h5⟩ := ih (t := heal t o) hs.1
    have hc := coords_heal t o
    have hr := heal_roots_count hw o
    have hl := hs.2.length_eq
    simp only [List.length_append, addedU, List.length_map] at hl
    refine ⟨h1, by rw [show healSeq t (o :: rest) = healSeq (heal t o) rest from rfl, h2, hc], ?_, ?_, ?_⟩
    · intro e he
      exact h3 e (hs.2.mem_iff.mpr (List.mem_append_left _ he))
    · show (roots (healSeq (heal t o) rest)).length ≤ _
      omega
    · show (uedges (healSeq (heal t o) rest)).length + (roots (healSeq (heal t o) rest)).length = _
      omega

theorem heal_of_single {t : Table} (h : (roots t).length ≤ 1) (o : Opts) : heal t o = t := by
  unfold heal; rw [if_pos h]

theorem healSeq_of_single {t : Table} (h : (roots t).length ≤ 1) (os : List Opts) : healSeq t os = t := by
  induction os with
  | nil => rfl
  | cons o rest ih => show healSeq (heal t o) rest = t; rw [heal_of_single h o]; exact ih

/-- `break_fragments(min_size=k)` keeps exactly the components with at least `k` nodes — a component of exactly
`k` nodes is kept — and the number of pieces is the number of such components. -/
theorem breakFragments_count (t : Table) (k : Nat) :
    (breakFragments t k).length = ((roots t).filter fun r => decide (k ≤ (fragment t r).length)).length := by
  unfold breakFragments
  rw [List.length_map]
  have hp : ((sortBySize (fragments t)).filter fun f => decide (k ≤ f.length)).Perm
      ((fragments t).filter fun f => decide (k ≤ f.length)) := (sortBySize_perm _).filter _
  rw [hp.length_eq]
  unfold fragments
  rw [List.filter_map, List.length_map]
  rfl

/-! ### completeness of `healOKB` on the model's own output -/

theorem newEdges_heal {t : Table} (hw : WF t) (o : Opts) :
    (newEdges t (heal t o)).Perm (addedU (healAdded t o)) := by
  have hs := heal_spec hw o
  have hnd : (uedges t ++ addedU (healAdded t o)).Nodup := hs.2.nodup_iff.mp (Nodup_uedges hs.1)
  unfold newEdges
  refine (hs.2.filter _).trans ?_
  rw [List.filter_append]
  have h1 : (uedges t).filter (fun e => !(uedges t).contains e) = [] := by
    apply List.filter_eq_nil_iff.mpr
    intro e he
    simp [he]
  have h2 : (addedU (healAdded t o)).filter (fun e => !(uedges t).contains e) = addedU (healAdded t o) := by
    apply List.filter_eq_self.mpr
    intro e he
    have : e ∉ uedges t := fun h' => (List.nodup_append.mp hnd).2.2 e h' e he rfl
    simp [this]
  rw [h1, h2, List.nil_append]

theorem edgeD2_uedge {t : Table} (hnd : (ids t).Nodup) {na nb : Node} (ha : na ∈ t) (hb : nb ∈ t) :
    edgeD2 t (uedge na.id nb.id) = some (sqDist na nb) := by
  have fa := find?_of_mem hnd ha
  have fb := find?_of_mem hnd hb
  unfold edgeD2 uedge
  by_cases h : na.id ≤ nb.id
  · rw [if_pos h]
    show (match find? t na.id, find? t nb.id with | some a, some b => some (sqDist a b) | _, _ => none) = _
    rw [fa, fb]
  · rw [if_neg h]
    show (match find? t nb.id, find? t na.id with | some a, some b => some (sqDist a b) | _, _ => none) = _
    rw [fa, fb]
    show some (sqDist nb na) = _
    rw [sqDist_comm nb na]

/-- **Completeness on the model**: the healed table the model computes is accepted by the checker `healOKB`
(with the code's own limit), for every well-formed forest and all options — the checker is not vacuous and
never rejects the modelled algorithm. -/
theorem healOKB_complete {t : Table} (hw : WF t) (o : Opts) : healOKB t (heal t o) o.maxD2 = true := by
  have hs := heal_spec hw o
  have hne := newEdges_heal hw o
  unfold healOKB
  simp only [Bool.and_eq_true, List.all_eq_true, decide_eq_true_eq, List.contains_eq_mem]
  refine ⟨⟨⟨⟨?_, (wfB_iff _).mpr hs.1⟩, ?_⟩, ?_⟩, ?_⟩
  · unfold sameCoords
    rw [coords_heal t o]
    simp
  · intro e he
    exact hs.2.mem_iff.mpr (List.mem_append_left _ he)
  · have hl := hne.length_eq
    simp only [addedU, List.length_map] at hl
    have := heal_roots_count hw o
    omega
  · intro e he
    have he' := hne.mem_iff.mp he
    unfold addedU at he'
    obtain ⟨ce, hce, rfl⟩ := List.mem_map.mp he'
    have hq := healAdded_quot hce
    obtain ⟨na, ha, nb, hb, _, _, _, _, heq⟩ := hq.ex
    have hd : edgeD2 t (uedge ce.a ce.b) = some ce.d2 := by
      rw [heq]; exact edgeD2_uedge hw.1 ha hb
    rw [hd]
    cases hm : o.maxD2 with
    | none => rfl
    | some m =>
      have := hq.within
      unfold withinMax at this
      rw [hm] at this
      have : ce.d2 < m := by simpa using this
      simp only [decide_eq_true_eq]
      omega

/-! ### completeness of `healMinOKB` on the model's own output -/

theorem pairs_ne : ∀ {l : List Int}, l.Nodup → ∀ p ∈ pairs l, p.1 ≠ p.2
  | [], _, p, h => by simp [pairs] at h
  | x :: xs, hnd, p, h => by
    rw [List.nodup_cons] at hnd
    unfold pairs at h
    rcases List.mem_append.mp h with h | h
    · obtain ⟨y, hy, rfl⟩ := List.mem_map.mp h
      intro heq
      have hxy : x = y := heq
      exact hnd.1 (hxy ▸ hy)
    · exact pairs_ne hnd.2 p h

theorem bridge_checks {t : Table} (hw : WF t) {o : Opts} {ce : CEdge} (hce : ce ∈ healAdded t o) :
    allowedB t o (uedge ce.a ce.b) = true ∧ ∃ c, ceOf t (uedge ce.a ce.b) = some c ∧ c.d2 = ce.d2 := by
  have hq := healAdded_quot hce
  obtain ⟨na, ha, nb, hb, ca, cb, hfa, hfb, heq⟩ := hq.ex
  have fa := find?_of_mem hw.1 ha
  have fb := find?_of_mem hw.1 hb
  have hne : fragOf t na.id ≠ fragOf t nb.id := by
    rw [hfa, hfb]; exact pairs_ne (roots_nodup hw.1) _ hq.frags
  have hw1 : ∀ a b fa' fb', withinMax o ⟨sqDist na nb, a, b, fa', fb'⟩ = true := fun a b fa' fb' =>
    withinMax_of_d2 (f := ce) (by rw [heq]) hq.within
  have hab : ce.a = na.id ∧ ce.b = nb.id ∧ ce.d2 = sqDist na nb := by rw [heq]; exact ⟨rfl, rfl, rfl⟩
  rw [hab.1, hab.2.1, hab.2.2]
  unfold allowedB ceOf uedge
  by_cases h : na.id ≤ nb.id
  · rw [if_pos h]
    simp only [fa, fb, ca, cb, hw1, Bool.and_true, Bool.true_and, bne_iff_ne, ne_eq]
    exact ⟨hne, _, rfl, rfl⟩
  · rw [if_neg h]
    simp only [fa, fb, ca, cb, sqDist_comm nb na, hw1, Bool.and_true, Bool.true_and, bne_iff_ne, ne_eq]
    exact ⟨fun h' => hne h'.symm, _, rfl, rfl⟩

theorem filterMap_bridges {t : Table} : ∀ (A : List CEdge),
    (∀ ce ∈ A, ∃ c, ceOf t (uedge ce.a ce.b) = some c ∧ c.d2 = ce.d2) →
    ((addedU A).filterMap (ceOf t)).map (·.d2) = A.map (·.d2)
  | [], _ => rfl
  | ce :: rest, h => by
    obtain ⟨c, hc, hd⟩ := h ce List.mem_cons_self
    have ih := filterMap_bridges rest (fun x hx => h x (List.mem_cons_of_mem _ hx))
    unfold addedU at ih ⊢
    rw [List.map_cons, List.filterMap_cons_some hc, List.map_cons, List.map_cons, ih, hd]

/-- The minimality checker accepts the model's own result (completeness on the model). -/
theorem healMinOKB_complete {t : Table} (hw : WF t) (o : Opts) : healMinOKB t (heal t o) o = true := by
  have hne := newEdges_heal hw o
  unfold healMinOKB
  simp only [Bool.and_eq_true, List.all_eq_true]
  constructor
  · intro e he
    have he' := hne.mem_iff.mp he
    unfold addedU at he'
    obtain ⟨ce, hce, rfl⟩ := List.mem_map.mp he'
    exact (bridge_checks hw hce).1
  · apply List.isPerm_iff.mpr
    unfold newCE
    refine ((hne.filterMap (ceOf t)).map _).trans ?_
    rw [filterMap_bridges _ (fun ce hce => (bridge_checks hw hce).2)]

end Navis.Heal
