import NavisModel.Proofs.SwcLemmas
/-!
`_node_depths` as written (memoised walk towards the root, `Model/Swc.lean`: `walkUp`, `assignDepths`, `depthsStep`,
`nodeDepthsW`) computes `depth - 1` for every row of a well-formed forest.  Core Lean only.
-/
namespace Navis.Swc
open Navis.Forest

/-- Every memo entry is the depth (steps to the root) of a row of the table. -/
def MemoOK (t : List SNode) (m : List (Int × Int)) : Prop :=
  ∀ kv ∈ m, kv.1 ∈ nodeIds t ∧ kv.2 = ((depth t kv.1 : Nat) : Int) - 1

theorem memoGet_some {m : List (Int × Int)} {i d : Int} (h : memoGet m i = some d) : (i, d) ∈ m := by
  unfold memoGet at h
  obtain ⟨kv, hf, rfl⟩ := Option.map_eq_some_iff.mp h
  have hm := List.mem_of_find?_eq_some hf
  have hk := List.find?_some hf
  have : kv.1 = i := by simpa using hk
  rw [← this]; exact hm

theorem memoGet_isSome_of_key {m : List (Int × Int)} {i : Int} (h : i ∈ m.map (·.1)) : (memoGet m i).isSome = true := by
  obtain ⟨kv, hkv, rfl⟩ := List.mem_map.mp h
  unfold memoGet
  rw [Option.isSome_map, List.find?_isSome]
  exact ⟨kv, hkv, by simp⟩

theorem memoGet_ok {t : List SNode} {m : List (Int × Int)} (hm : MemoOK t m) {i d : Int} (h : memoGet m i = some d) :
    i ∈ nodeIds t ∧ d = ((depth t i : Nat) : Int) - 1 := hm _ (memoGet_some h)

theorem parentOf?_some {t : List SNode} {i p : Int} (h : parentOf? t i = some p) : ∃ n ∈ t, n.id = i ∧ n.parent = p := by
  unfold parentOf? at h
  obtain ⟨n, hf, rfl⟩ := Option.map_eq_some_iff.mp h
  exact ⟨n, List.mem_of_find?_eq_some hf, by simpa using List.find?_some hf, rfl⟩

theorem parentOf?_none {t : List SNode} {i : Int} (h : parentOf? t i = none) : i ∉ nodeIds t := by
  unfold parentOf? at h
  rw [Option.map_eq_none_iff, List.find?_eq_none] at h
  intro hi
  obtain ⟨n, hn, rfl⟩ := mem_nodeIds.mp hi
  exact absurd (h n hn) (by simp)

theorem depth_absent {t : List SNode} {i : Int} (h : i ∉ nodeIds t) : depth t i = 0 := by
  unfold depth
  have : find? (forest t) i = none := by
    cases hf : find? (forest t) i with
    | none => rfl
    | some n =>
      have := find?_some hf
      exfalso; apply h
      obtain ⟨q, hq, hqe⟩ := List.mem_map.mp this.1
      exact mem_nodeIds.mpr ⟨q, hq, by rw [← this.2, ← hqe]⟩
  rw [rootPath_absent this]; rfl

/-- In a well-formed forest every row sits one step below its parent (a root's parent is not a row: depth 0). -/
theorem depth_step {t : List SNode} (hw : WF (forest t)) {n : SNode} (hn : n ∈ t) : depth t n.id = depth t n.parent + 1 := by
  by_cases hp : n.parent < 0
  · have hf : find? (forest t) n.id = some ({ id := n.id, parent := n.parent } : Node) := find?_of_mem hw.1 (mem_forest hn)
    have h1 : depth t n.id = 1 := by
      unfold depth; rw [rootPath_of_root hf hp]; rfl
    have h0 : depth t n.parent = 0 := by
      apply depth_absent
      intro hm
      obtain ⟨q, hq, hqe⟩ := mem_nodeIds.mp hm
      have := WF_id_nonneg hw hq
      omega
    omega
  · exact depth_child hw hn hp

theorem depth_le {t : List SNode} (hw : WF (forest t)) (i : Int) : depth t i ≤ t.length := by
  have := pathToRoot_length_le hw ((forest t).length + 1) i
  simpa [depth, rootPath, forest] using this

/-- `rp` is a piece of a root path listed from the top: the first element hangs on `s`, every further element on its predecessor. -/
inductive Chain (t : List SNode) : Int → List Int → Prop
  | nil (s : Int) : Chain t s []
  | cons {s y : Int} {rest : List Int} : parentOf? t y = some s → Chain t y rest → Chain t s (y :: rest)

theorem assign_ok {t : List SNode} (hw : WF (forest t)) {s : Int} {rp : List Int} (hc : Chain t s rp) :
    ∀ (m : List (Int × Int)), MemoOK t m →
      MemoOK t (assignDepths m (((depth t s : Nat) : Int) - 1) rp) ∧
      ∀ k, (k ∈ m.map (·.1) ∨ k ∈ rp) → k ∈ (assignDepths m (((depth t s : Nat) : Int) - 1) rp).map (·.1) := by
  induction hc with
  | nil s => intro m hm; exact ⟨hm, fun k hk => hk.elim id (fun h => by simp at h)⟩
  | @cons s y rest hp _ ih =>
    intro m hm
    obtain ⟨n, hn, hid, hpar⟩ := parentOf?_some hp
    have hd : depth t y = depth t s + 1 := by rw [← hid, ← hpar]; exact depth_step hw hn
    have e : ((depth t s : Nat) : Int) - 1 + 1 = ((depth t y : Nat) : Int) - 1 := by rw [hd]; omega
    have hm' : MemoOK t ((y, ((depth t s : Nat) : Int) - 1 + 1) :: m) := by
      intro kv hkv
      rcases List.mem_cons.mp hkv with rfl | h
      · exact ⟨by rw [← hid]; exact mem_nodeIds_of_mem hn, e⟩
      · exact hm kv h
    simp only [assignDepths]
    rw [e] at hm' ⊢
    obtain ⟨h1, h2⟩ := ih _ hm'
    refine ⟨h1, fun k hk => h2 k ?_⟩
    rcases hk with hk | hk
    · exact Or.inl (by simp [hk])
    · rcases List.mem_cons.mp hk with rfl | hk
      · exact Or.inl (by simp)
      · exact Or.inr hk

theorem walk_ok {t : List SNode} (hw : WF (forest t)) {m : List (Int × Int)} (hm : MemoOK t m) :
    ∀ (f : Nat) (node : Int) (path : List Int), depth t node < f → Chain t node path →
      (∀ x ∈ path, depth t node < depth t x) →
      Chain t (walkUp t m f node path).2 (walkUp t m f node path).1 ∧
      (memoGet m (walkUp t m f node path).2).getD (-1) = ((depth t (walkUp t m f node path).2 : Nat) : Int) - 1 ∧
      (∀ x ∈ path, x ∈ (walkUp t m f node path).1) ∧
      (node ∈ nodeIds t → memoGet m node = none → node ∈ (walkUp t m f node path).1) := by
  intro f
  induction f with
  | zero => intro node path h; omega
  | succ f ih =>
    intro node path hf hc hlt
    unfold walkUp
    cases hp : parentOf? t node with
    | none =>
      have hni := parentOf?_none hp
      have hg : memoGet m node = none := by
        cases hgg : memoGet m node with
        | none => rfl
        | some d => exact absurd (memoGet_ok hm hgg).1 hni
      refine ⟨hc, ?_, fun x hx => hx, fun h => absurd h hni⟩
      simp only [hg, depth_absent hni]; rfl
    | some p =>
      obtain ⟨n, hn, hid, hpar⟩ := parentOf?_some hp
      simp only
      cases hg : memoGet m node with
      | some d =>
        simp only [Option.isSome_some, Bool.true_or, if_true]
        refine ⟨hc, ?_, fun x hx => hx, fun _ h => by simp at h⟩
        simp only [hg, Option.getD_some]
        exact (memoGet_ok hm hg).2
      | none =>
        have hnc : path.contains node = false := by
          cases hcn : path.contains node with
          | false => rfl
          | true =>
            have : node ∈ path := by simpa using hcn
            exact absurd (hlt node this) (Nat.lt_irrefl _)
        simp only [Option.isSome_none, Bool.false_or, hnc, Bool.false_eq_true, if_false]
        have hd : depth t node = depth t p + 1 := by rw [← hid, ← hpar]; exact depth_step hw hn
        obtain ⟨h1, h2, h3, _⟩ := ih p (node :: path) (by omega) (Chain.cons hp hc)
          (fun x hx => by
            rcases List.mem_cons.mp hx with rfl | hx
            · omega
            · have := hlt x hx; omega)
        exact ⟨h1, h2, fun x hx => h3 x (List.mem_cons_of_mem _ hx), fun _ _ => h3 node List.mem_cons_self⟩

theorem step_ok {t : List SNode} (hw : WF (forest t)) {m : List (Int × Int)} (hm : MemoOK t m) {node : Int}
    (hn : node ∈ nodeIds t) :
    MemoOK t (depthsStep t m node) ∧ (∀ k ∈ m.map (·.1), k ∈ (depthsStep t m node).map (·.1)) ∧
      node ∈ (depthsStep t m node).map (·.1) := by
  obtain ⟨h1, h2, _, h4⟩ := walk_ok hw hm (t.length + 1) node [] (by have := depth_le hw node; omega) (Chain.nil node)
    (fun x hx => by simp at hx)
  unfold depthsStep
  rw [h2]
  obtain ⟨a1, a2⟩ := assign_ok hw h1 m hm
  refine ⟨a1, fun k hk => a2 k (Or.inl hk), ?_⟩
  cases hg : memoGet m node with
  | none => exact a2 node (Or.inr (h4 hn hg))
  | some d =>
    have := memoGet_some hg
    exact a2 node (Or.inl (List.mem_map.mpr ⟨_, this, rfl⟩))

theorem fold_ok {t : List SNode} (hw : WF (forest t)) (l : List Int) (hl : ∀ i ∈ l, i ∈ nodeIds t) :
    ∀ m, MemoOK t m → MemoOK t (l.foldl (depthsStep t) m) ∧
      ∀ k, (k ∈ m.map (·.1) ∨ k ∈ l) → k ∈ (l.foldl (depthsStep t) m).map (·.1) := by
  induction l with
  | nil => intro m hm; exact ⟨hm, fun k hk => hk.elim id (fun h => by simp at h)⟩
  | cons a l ih =>
    intro m hm
    obtain ⟨s1, s2, s3⟩ := step_ok hw hm (hl a List.mem_cons_self)
    obtain ⟨f1, f2⟩ := ih (fun i hi => hl i (List.mem_cons_of_mem _ hi)) _ s1
    refine ⟨f1, fun k hk => f2 k ?_⟩
    rcases hk with hk | hk
    · exact Or.inl (s2 k hk)
    · rcases List.mem_cons.mp hk with rfl | hk
      · exact Or.inl s3
      · exact Or.inr hk

/-- **`_node_depths` as written = steps to the root**, for every well-formed forest in any row order. -/
theorem nodeDepthsW_eq {t : List SNode} (hw : WF (forest t)) :
    nodeDepthsW t = t.map fun n => ((depth t n.id : Nat) : Int) - 1 := by
  obtain ⟨hok, hkeys⟩ := fold_ok hw (nodeIds t) (fun i hi => hi) [] (fun kv h => by simp at h)
  unfold nodeDepthsW depthsMemo nodeIds
  rw [List.map_map]
  apply List.map_congr_left
  intro n hn
  have hk := hkeys n.id (Or.inr (mem_nodeIds_of_mem hn))
  have hs := memoGet_isSome_of_key hk
  obtain ⟨d, hd⟩ := Option.isSome_iff_exists.mp hs
  simp only [Function.comp, nodeIds] at hd ⊢
  rw [hd]
  exact (memoGet_ok hok hd).2

/-! ### the sort on the as-written key -/

theorem insertBy_map {α β : Type} (key : β → Int) (g : α → β) (a : α) (l : List α) :
    insertBy key (g a) (l.map g) = (insertBy (key ∘ g) a l).map g := by
  induction l with
  | nil => rfl
  | cons b l ih =>
    simp only [List.map_cons, insertBy, Function.comp]
    split
    · rfl
    · rw [ih]; rfl

theorem isortBy_map {α β : Type} (key : β → Int) (g : α → β) (l : List α) :
    isortBy key (l.map g) = (isortBy (key ∘ g) l).map g := by
  induction l with
  | nil => rfl
  | cons a l ih =>
    simp only [isortBy, List.map_cons, List.foldr_cons] at ih ⊢
    rw [ih, insertBy_map]

theorem insertBy_congr {α : Type} (key key' : α → Int) (h : ∀ x y, key x ≤ key y ↔ key' x ≤ key' y) (a : α) (l : List α) :
    insertBy key a l = insertBy key' a l := by
  induction l with
  | nil => rfl
  | cons b l ih =>
    simp only [insertBy]
    by_cases hc : key a ≤ key b
    · rw [if_pos hc, if_pos ((h a b).mp hc)]
    · rw [if_neg hc, if_neg (fun h' => hc ((h a b).mpr h')), ih]

theorem isortBy_congr {α : Type} (key key' : α → Int) (h : ∀ x y, key x ≤ key y ↔ key' x ≤ key' y) (l : List α) :
    isortBy key l = isortBy key' l := by
  induction l with
  | nil => rfl
  | cons a l ih =>
    simp only [isortBy, List.foldr_cons] at ih ⊢
    rw [ih, insertBy_congr key key' h]

theorem zip_map_self {α β : Type} (f : α → β) (l : List α) : (l.map f).zip l = l.map fun x => (f x, x) := by
  induction l with
  | nil => rfl
  | cons a l ih => simp [ih]

theorem sortByDepth_eq_key (t : List SNode) :
    sortByDepth t = isortBy (fun n => ((depth t n.id : Nat) : Int)) t := by
  unfold sortByDepth
  rw [isortBy_map, List.map_map]
  exact List.map_id' _

/-- The ordering as written is the ordering of the model. -/
theorem sortByDepthW_eq {t : List SNode} (hw : WF (forest t)) : sortByDepthW t = sortByDepth t := by
  unfold sortByDepthW
  rw [nodeDepthsW_eq hw, zip_map_self, isortBy_map, List.map_map, sortByDepth_eq_key]
  have e : ∀ l : List SNode, List.map ((fun p : Int × SNode => p.2) ∘ fun x => (((depth t x.id : Nat) : Int) - 1, x)) l = l :=
    fun l => List.map_id' l
  rw [e]
  apply isortBy_congr
  intro x y
  simp only [Function.comp]
  omega

theorem labelOfW_eq (op : Opts) (sk : Skel) : labelOfW op sk = labelOf op sk := by
  funext n
  unfold labelOfW labelOf
  cases op.labels <;> simp [labelsAsWritten_gen]

end Navis.Swc
