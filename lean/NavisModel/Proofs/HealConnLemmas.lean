import NavisModel.Model.Heal
import NavisModel.Proofs.RerootEdgesLemmas
import NavisModel.Proofs.OpsWF
/-!
C11 helper lemmas, part 1 (core Lean only): connectivity in an undirected edge list, acyclic edge lists,
and the link between the parent-pointer forest (`rootOf`) and connectivity in `uedges`.
-/
namespace Navis.Heal
open Navis.Forest

abbrev EL := List (Int × Int)

/-- `a` and `b` are joined by an edge of `E` (in either orientation). -/
def Adj (E : EL) (a b : Int) : Prop := (a, b) ∈ E ∨ (b, a) ∈ E

theorem Adj.symm {E : EL} {a b : Int} (h : Adj E a b) : Adj E b a := Or.symm h

/-- Connected by a path of edges of `E`. -/
inductive Conn (E : EL) : Int → Int → Prop
  | refl (a : Int) : Conn E a a
  | step {a b c : Int} : Conn E a b → Adj E b c → Conn E a c

namespace Conn

theorem single {E : EL} {a b : Int} (h : Adj E a b) : Conn E a b := .step (.refl a) h

theorem trans {E : EL} {a b c : Int} (h1 : Conn E a b) (h2 : Conn E b c) : Conn E a c := by
  induction h2 with
  | refl => exact h1
  | step _ hadj ih => exact .step ih hadj

theorem symm {E : EL} {a b : Int} (h : Conn E a b) : Conn E b a := by
  induction h with
  | refl => exact .refl _
  | step _ hadj ih => exact (single hadj.symm).trans ih

theorem mono {E E' : EL} (hsub : ∀ a b, Adj E a b → Adj E' a b) {a b : Int} (h : Conn E a b) : Conn E' a b := by
  induction h with
  | refl => exact .refl _
  | step _ hadj ih => exact .step ih (hsub _ _ hadj)

theorem of_subset {E E' : EL} (hsub : ∀ e ∈ E, e ∈ E') {a b : Int} (h : Conn E a b) : Conn E' a b :=
  h.mono fun _ _ hadj => hadj.elim (fun h => Or.inl (hsub _ h)) (fun h => Or.inr (hsub _ h))

/-- A path through `e :: E` either avoids `e` or decomposes around one use of it. -/
theorem cons_split {E : EL} {e : Int × Int} {u v : Int} (h : Conn (e :: E) u v) :
    Conn E u v ∨ (Conn E u e.1 ∧ Conn E e.2 v) ∨ (Conn E u e.2 ∧ Conn E e.1 v) := by
  induction h with
  | refl => exact Or.inl (.refl _)
  | @step b c _ hadj ih =>
    -- classify the last edge
    have hlast : Adj E b c ∨ (b = e.1 ∧ c = e.2) ∨ (b = e.2 ∧ c = e.1) := by
      rcases hadj with h | h
      · rcases List.mem_cons.mp h with h | h
        · right; left
          rw [← h]; exact ⟨rfl, rfl⟩
        · exact Or.inl (Or.inl h)
      · rcases List.mem_cons.mp h with h | h
        · right; right
          rw [← h]; exact ⟨rfl, rfl⟩
        · exact Or.inl (Or.inr h)
    rcases ih with h0 | ⟨h1, h2⟩ | ⟨h1, h2⟩
    · rcases hlast with ha | ⟨hb, hc⟩ | ⟨hb, hc⟩
      · exact Or.inl (.step h0 ha)
      · right; left; exact ⟨hb ▸ h0, hc ▸ .refl _⟩
      · right; right; exact ⟨hb ▸ h0, hc ▸ .refl _⟩
    · rcases hlast with ha | ⟨hb, hc⟩ | ⟨hb, hc⟩
      · right; left; exact ⟨h1, .step h2 ha⟩
      · right; left; exact ⟨h1, hc ▸ .refl _⟩
      · left; exact hc ▸ h1
    · rcases hlast with ha | ⟨hb, hc⟩ | ⟨hb, hc⟩
      · right; right; exact ⟨h1, .step h2 ha⟩
      · left; exact hc ▸ h1
      · right; right; exact ⟨h1, hc ▸ .refl _⟩

end Conn

/-! ### acyclic edge lists -/

/-- No edge's ends are connected without it (and no edge is listed twice). -/
def Acyc (E : EL) : Prop := E.Nodup ∧ ∀ e ∈ E, ¬ Conn (E.erase e) e.1 e.2

theorem Acyc.nil : Acyc [] := ⟨List.nodup_nil, by simp⟩

theorem mem_erase_of_nodup {E : EL} (hnd : E.Nodup) {x e : Int × Int} : x ∈ E.erase e ↔ x ≠ e ∧ x ∈ E :=
  hnd.mem_erase_iff

theorem Conn.of_erase {E : EL} {e : Int × Int} {a b : Int} (h : Conn (E.erase e) a b) : Conn E a b :=
  h.of_subset fun _ hx => List.mem_of_mem_erase hx

/-- Kruskal's step: an edge between two unconnected nodes keeps the list acyclic. -/
theorem Acyc.cons {E : EL} (h : Acyc E) {a b : Int} (hn : ¬ Conn E a b) : Acyc ((a, b) :: E) := by
  obtain ⟨hnd, hac⟩ := h
  have hnot : (a, b) ∉ E := fun hm => hn (Conn.single (Or.inl hm))
  refine ⟨List.nodup_cons.mpr ⟨hnot, hnd⟩, ?_⟩
  intro e he
  rcases List.mem_cons.mp he with rfl | he
  · rw [List.erase_cons_head]; exact hn
  · have hne : (a, b) ≠ e := fun h => hnot (h ▸ he)
    have : ((a, b) :: E).erase e = (a, b) :: E.erase e := by
      rw [List.erase_cons_tail]
      simpa using hne
    rw [this]
    intro hc
    have hadj : Conn E e.1 e.2 := Conn.single (Or.inl he)
    rcases hc.cons_split with h0 | ⟨h1, h2⟩ | ⟨h1, h2⟩
    · exact hac e he h0
    · exact hn ((h1.of_erase.symm.trans hadj).trans h2.of_erase.symm)
    · exact hn ((h2.of_erase.trans hadj.symm).trans h1.of_erase)

theorem Acyc.perm {E E' : EL} (h : Acyc E) (hp : E.Perm E') : Acyc E' := by
  obtain ⟨hnd, hac⟩ := h
  refine ⟨hp.nodup_iff.mp hnd, ?_⟩
  intro e he hc
  exact hac e (hp.mem_iff.mpr he) (hc.of_subset fun x hx => (hp.erase e).mem_iff.mpr hx)

/-! ### forests: `rootOf` versus connectivity in `uedges` -/

theorem rootOf_parent {t : Table} (hw : WF t) {n : Node} (hn : n ∈ t) (hp : ¬ n.parent < 0) :
    rootOf t n.id = rootOf t n.parent := by
  have hpar : n.parent ∈ ids t := by
    rcases WF_parents hw n hn with h | h
    · exact absurd h hp
    · exact h
  have h1 : rootPath t n.id = n.id :: rootPath t n.parent := rootPath_of_nonroot hw (find?_of_mem hw.1 hn) hp
  have h2 : n.parent ∈ rootPath t n.id := by rw [h1]; exact List.mem_cons_of_mem _ (rootPath_head_mem hpar)
  exact (rootOf_of_mem_rootPath hw h2).symm

theorem uedge_cases {a b x y : Int} (h : (a, b) = uedge x y) : (a = x ∧ b = y) ∨ (a = y ∧ b = x) := by
  unfold uedge at h
  split at h
  · left; exact ⟨congrArg Prod.fst h, congrArg Prod.snd h⟩
  · right; exact ⟨congrArg Prod.fst h, congrArg Prod.snd h⟩

/-- An undirected edge of the table joins a non-root node and its parent. -/
theorem adj_uedges {t : Table} {a b : Int} (h : Adj (uedges t) a b) :
    ∃ n ∈ t, ¬ n.parent < 0 ∧ ((a = n.id ∧ b = n.parent) ∨ (a = n.parent ∧ b = n.id)) := by
  rcases h with h | h
  · obtain ⟨n, hn, hp, he⟩ := mem_uedges.mp h
    exact ⟨n, hn, hp, uedge_cases he⟩
  · obtain ⟨n, hn, hp, he⟩ := mem_uedges.mp h
    refine ⟨n, hn, hp, ?_⟩
    rcases uedge_cases he with ⟨h1, h2⟩ | ⟨h1, h2⟩
    · exact Or.inr ⟨h2, h1⟩
    · exact Or.inl ⟨h2, h1⟩

theorem adj_uedges_of_node {t : Table} {n : Node} (hn : n ∈ t) (hp : ¬ n.parent < 0) :
    Adj (uedges t) n.id n.parent := by
  have hm : uedge n.id n.parent ∈ uedges t := mem_uedges.mpr ⟨n, hn, hp, rfl⟩
  unfold uedge at hm
  split at hm
  · exact Or.inl hm
  · exact Or.inr hm

/-- Connected nodes have the same root. -/
theorem rootOf_eq_of_Conn {t : Table} (hw : WF t) {a b : Int} (h : Conn (uedges t) a b) :
    rootOf t a = rootOf t b := by
  induction h with
  | refl => rfl
  | step _ hadj ih =>
    obtain ⟨n, hn, hp, hc⟩ := adj_uedges hadj
    have := rootOf_parent hw hn hp
    rcases hc with ⟨h1, h2⟩ | ⟨h1, h2⟩
    · rw [ih, h1, h2]; exact this
    · rw [ih, h1, h2]; exact this.symm

theorem mem_roots {t : Table} {r : Int} : r ∈ roots t ↔ ∃ n ∈ t, n.parent < 0 ∧ n.id = r := by
  unfold roots isRootNode
  simp only [List.mem_map, List.mem_filter, decide_eq_true_eq]
  constructor
  · rintro ⟨n, ⟨h1, h2⟩, h3⟩; exact ⟨n, h1, h2, h3⟩
  · rintro ⟨n, h1, h2, h3⟩; exact ⟨n, ⟨h1, h2⟩, h3⟩

/-- Every node is connected to the root of its tree. -/
theorem Conn_rootOf {t : Table} (hw : WF t) {i : Int} (hi : i ∈ ids t) :
    ∃ r, rootOf t i = some r ∧ r ∈ roots t ∧ Conn (uedges t) i r := by
  refine WF_induct hw (fun i => ∃ r, rootOf t i = some r ∧ r ∈ roots t ∧ Conn (uedges t) i r) ?_ i hi
  intro n hn hcase
  rcases hcase with hroot | ⟨r, h1, h2, h3⟩
  · refine ⟨n.id, ?_, mem_roots.mpr ⟨n, hn, hroot, rfl⟩, .refl _⟩
    unfold rootOf
    rw [rootPath_of_root (find?_of_mem hw.1 hn) hroot]; rfl
  · by_cases hp : n.parent < 0
    · refine ⟨n.id, ?_, mem_roots.mpr ⟨n, hn, hp, rfl⟩, .refl _⟩
      unfold rootOf
      rw [rootPath_of_root (find?_of_mem hw.1 hn) hp]; rfl
    · refine ⟨r, ?_, h2, (Conn.single (adj_uedges_of_node hn hp)).trans h3⟩
      rw [rootOf_parent hw hn hp]; exact h1

/-- In a well-formed forest two nodes are connected iff they have the same root. -/
theorem Conn_iff_rootOf {t : Table} (hw : WF t) {a b : Int} (ha : a ∈ ids t) (hb : b ∈ ids t) :
    Conn (uedges t) a b ↔ rootOf t a = rootOf t b := by
  constructor
  · exact rootOf_eq_of_Conn hw
  · intro h
    obtain ⟨ra, h1, _, h3⟩ := Conn_rootOf hw ha
    obtain ⟨rb, h4, _, h6⟩ := Conn_rootOf hw hb
    have : ra = rb := by rw [h1, h4] at h; exact Option.some.inj h
    subst this
    exact h3.trans h6.symm

/-- The root of a tree is its own root. -/
theorem rootOf_root {t : Table} (hw : WF t) {r : Int} (hr : r ∈ roots t) : rootOf t r = some r := by
  obtain ⟨n, hn, hp, rfl⟩ := mem_roots.mp hr
  unfold rootOf
  rw [rootPath_of_root (find?_of_mem hw.1 hn) hp]; rfl

theorem roots_subset_ids {t : Table} {r : Int} (hr : r ∈ roots t) : r ∈ ids t := by
  obtain ⟨n, hn, _, rfl⟩ := mem_roots.mp hr
  exact mem_ids_of_mem hn

theorem roots_nodup {t : Table} (hnd : (ids t).Nodup) : (roots t).Nodup := by
  unfold roots
  have : ((t.filter isRootNode).map (·.id)).Sublist (ids t) := by
    unfold ids
    exact (List.filter_sublist (l := t) (p := isRootNode)).map _
  exact this.nodup hnd

/-- The undirected edge list of a well-formed forest is acyclic. -/
theorem Acyc_uedges {t : Table} (hw : WF t) : Acyc (uedges t) := by
  have hnd := Nodup_uedges hw
  refine ⟨hnd, ?_⟩
  intro e he hc
  obtain ⟨n, hn, hp, rfl⟩ := mem_uedges.mp he
  -- label: "lies distal to n"
  have key : ∀ {x y : Int}, Conn ((uedges t).erase (uedge n.id n.parent)) x y →
      (n.id ∈ rootPath t x ↔ n.id ∈ rootPath t y) := by
    intro x y h
    induction h with
    | refl => exact Iff.rfl
    | @step b c _ hadj ih =>
      have hx : ∃ x, x ∈ (uedges t).erase (uedge n.id n.parent) ∧ (x = (b, c) ∨ x = (c, b)) :=
        hadj.elim (fun h => ⟨_, h, Or.inl rfl⟩) (fun h => ⟨_, h, Or.inr rfl⟩)
      obtain ⟨x, hxm, hxe⟩ := hx
      obtain ⟨hxne, hxmem⟩ := (mem_erase_of_nodup hnd).mp hxm
      obtain ⟨m, hm, hmp, hxu⟩ := mem_uedges.mp hxmem
      have hmne : m.id ≠ n.id := by
        intro hid
        have hmn : m = n := by
          have h1 := find?_of_mem hw.1 hm
          have h2 := find?_of_mem hw.1 hn
          rw [hid, h2] at h1
          exact (Option.some.inj h1).symm
        exact hxne (hmn ▸ hxu)
      have hd := distal_iff_parent hw hm hmp hmne
      rcases hxe with hxe | hxe
      · rcases uedge_cases (hxe ▸ hxu) with ⟨h1, h2⟩ | ⟨h1, h2⟩
        · rw [ih, h1, h2]; exact hd
        · rw [ih, h1, h2]; exact hd.symm
      · rcases uedge_cases (hxe ▸ hxu) with ⟨h1, h2⟩ | ⟨h1, h2⟩
        · rw [ih, h1, h2]; exact hd.symm
        · rw [ih, h1, h2]; exact hd
  have hpar : n.parent ∈ ids t := by
    rcases WF_parents hw n hn with h | h
    · exact absurd h hp
    · exact h
  have h1 : n.id ∈ rootPath t n.id := rootPath_head_mem (mem_ids_of_mem hn)
  have h2 : n.id ∉ rootPath t n.parent := parent_not_distal hw hn hp
  have hk := key hc
  rcases uedge_cases (rfl : ((uedge n.id n.parent).1, (uedge n.id n.parent).2) = uedge n.id n.parent) with ⟨e1, e2⟩ | ⟨e1, e2⟩
  · rw [e1, e2] at hk; exact h2 (hk.mp h1)
  · rw [e1, e2] at hk; exact h2 (hk.mpr h1)

end Navis.Heal
