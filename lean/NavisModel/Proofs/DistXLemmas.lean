import NavisModel.Model.DistX
import NavisModel.Proofs.BackendLemmas
/-! Helper lemmas for the second pass of C05 (core Lean only): the as-written option handling of
`geodesic_matrix` / `skeleton_adjacency_matrix` / `distal_to` … equals the definitions of `Model/Dist.lean`. -/
namespace Navis.DistX
open Navis.Forest

/-! ### limit -/

theorem evalGuard_num (g : List GuardAtom) (hg : g.all (fun a => a != .truthy) = true) (n : Nat) :
    evalGuard g (.num n) = true := by
  unfold evalGuard
  rw [List.all_eq_true] at hg ⊢
  intro a ha
  have := hg a ha
  cases a <;> simp_all [GuardAtom.eval]

/-- A guard without a truthiness test and the comparison `>` implement "distances strictly above the limit
become infinite; `None` / infinite limits change nothing; `0` is a limit". -/
theorem applyLimitW_sound (g : List GuardAtom) (c : Cmp) (hg : g.all (fun a => a != .truthy) = true) (hc : c = .gt)
    (lim : LimitV) (d : Option Nat) : applyLimitW g c lim d = applyLimit lim.toOpt d := by
  subst hc
  cases lim with
  | pyNone =>
    cases d <;> simp [applyLimitW, cmpVsLimit, LimitV.toOpt, applyLimit]
  | npInf =>
    cases d <;> simp [applyLimitW, cmpVsLimit, Cmp.finiteVsInf, LimitV.toOpt, applyLimit]
  | otherInf =>
    cases d <;> simp [applyLimitW, cmpVsLimit, Cmp.finiteVsInf, LimitV.toOpt, applyLimit]
  | num l =>
    have hG := evalGuard_num g hg l
    cases d with
    | none => simp [applyLimitW, hG, LimitV.toOpt, applyLimit]
    | some v =>
      simp only [applyLimitW, hG, if_true, cmpVsLimit, Cmp.evalNat, LimitV.toOpt, applyLimit, decide_eq_true_eq, gt_iff_lt]

/-- A truthiness guard loses the limit `0`. -/
theorem applyLimitW_truthy_zero (c : Cmp) (v : Nat) : applyLimitW [.truthy] c (.num 0) (some v) = some v := by
  simp [applyLimitW, evalGuard, GuardAtom.eval]

theorem decodeFc_neg (raw : Int) (h : raw < 0) : decodeFc .lt 0 raw = none := by
  simp [decodeFc, Cmp.evalInt, h]

theorem decodeFc_nat (n : Nat) : decodeFc .lt 0 (n : Int) = some n := by
  have : ¬ ((n : Int) < 0) := by omega
  simp [decodeFc, Cmp.evalInt, this]

/-! ### labelled matrices -/

theorem getElem?_map_idxOf {β : Type} (l : List Int) (g : Int → β) {a : Int} (ha : a ∈ l) :
    (l.map g)[l.idxOf a]? = some (g a) := by
  have hlt : l.idxOf a < l.length := List.idxOf_lt_length_of_mem ha
  rw [List.getElem?_map, List.getElem?_eq_getElem hlt, List.getElem_idxOf hlt]
  rfl

/-- The entry of a matrix built row by row from a function is that function at the labels. -/
theorem get?_build {α : Type} (rows cols : List Int) (f : Int → Int → α) {a b : Int} (ha : a ∈ rows) (hb : b ∈ cols) :
    (⟨rows, cols, rows.map fun x => cols.map (f x)⟩ : LMat α).get? a b = some (f a b) := by
  unfold LMat.get?
  have h1 : rows.contains a = true := List.contains_iff_mem.mpr ha
  have h2 : cols.contains b = true := List.contains_iff_mem.mpr hb
  simp only [h1, h2, Bool.and_self, if_true]
  rw [getElem?_map_idxOf rows (fun x => cols.map (f x)) ha]
  exact getElem?_map_idxOf cols (f a) hb

theorem get?_none_of_row {α : Type} (m : LMat α) {a : Int} (b : Int) (ha : a ∉ m.rows) : m.get? a b = none := by
  unfold LMat.get?
  have : m.rows.contains a = false := by
    cases h : m.rows.contains a with
    | false => rfl
    | true => exact absurd (List.contains_iff_mem.mp h) ha
  simp only [this, Bool.false_and, Bool.false_eq_true, if_false]

/-- Re-indexing rows and columns by a list of labels keeps every entry under its labels. -/
theorem get?_reindex {α : Type} (dflt : α) (m : LMat α) (p : List Int) {a b : Int} (ha : a ∈ p) (hb : b ∈ p) :
    (m.reindex dflt p).get? a b = some ((m.get? a b).getD dflt) := by
  unfold LMat.reindex
  exact get?_build p p (fun x y => (m.get? x y).getD dflt) ha hb

/-! ### `geodesic_matrix` -/

/-- The decidable part of "this branch honours `from_`, `directed`, `weight`, labels rows and columns by id". -/
def GeoCfg.okB (c : GeoCfg) : Bool :=
  c.fromGiven == .isNotNone && c.uniq && c.raisesOnMissing &&
  ((c.sel == .sourcesArg && c.lab == .fromArg) || (c.sel == .whereIsin && c.lab == .nodeListAtWhereIsin)) &&
  c.rowsAllAreNodeList && c.colsAreNodeList && c.passDirected && c.passWeight &&
  (match c.limit with
   | .maskAssign g cm => g.all (fun a => a != .truthy) && cm == .gt
   | .forwarded => true
   | .ignored => false)

theorem limit_apply_of_ok {l : LimitImpl}
    (h : (match l with
      | .maskAssign g cm => g.all (fun a => a != .truthy) && cm == .gt
      | .forwarded => true
      | .ignored => false) = true) (lim : LimitV) (d : Option Nat) :
    l.apply lim d = applyLimit lim.toOpt d := by
  cases l with
  | maskAssign g cm =>
    simp only [Bool.and_eq_true, beq_iff_eq] at h
    exact applyLimitW_sound g cm h.1 h.2 lim d
  | forwarded => rfl
  | ignored => simp at h

theorem computed_eq_labels {c : GeoCfg}
    (h : ((c.sel == .sourcesArg && c.lab == .fromArg) || (c.sel == .whereIsin && c.lab == .nodeListAtWhereIsin)) = true)
    (nodeList fu : List Int) : computedRows c.sel nodeList fu = rowLabels c.lab nodeList fu := by
  simp only [Bool.or_eq_true, Bool.and_eq_true, beq_iff_eq] at h
  rcases h with ⟨h1, h2⟩ | ⟨h1, h2⟩ <;> rw [h1, h2] <;> rfl

theorem mem_rowLabels {l : RowLab} {nodeList fu : List Int} (hsub : ∀ i ∈ fu, i ∈ nodeList) (a : Int) :
    a ∈ rowLabels l nodeList fu ↔ a ∈ fu := by
  cases l with
  | fromArg => rfl
  | nodeListAtWhereIsin =>
    simp only [rowLabels, List.mem_filter, List.contains_iff_mem]
    exact ⟨fun h => h.2, fun h => ⟨hsub a h, h⟩⟩

theorem rowLabels_nodup {l : RowLab} {nodeList fu : List Int} (h1 : nodeList.Nodup) (h2 : fu.Nodup) :
    (rowLabels l nodeList fu).Nodup := by
  cases l with
  | fromArg => exact h2
  | nodeListAtWhereIsin => exact h1.filter _

theorem any_missing_false {nodeList fu : List Int} (hsub : ∀ i ∈ fu, i ∈ nodeList) :
    fu.any (fun i => !nodeList.contains i) = false := by
  rw [List.any_eq_false]
  intro i hi
  simp [hsub i hi]

theorem any_missing_true {nodeList fu : List Int} {i : Int} (hi : i ∈ fu) (hn : i ∉ nodeList) :
    fu.any (fun i => !nodeList.contains i) = true := by
  rw [List.any_eq_true]
  exact ⟨i, hi, by simp [hn]⟩

/-- Effective edge length of a call. -/
def effLen (len : Int → Int → Nat) (weighted : Bool) : Int → Int → Nat := if weighted then len else fun _ _ => 1

/-- **`from_` given** (a scalar or any list: duplicates, any order), all ids present: the frame's columns are the
node ids in table order, its row labels are duplicate-free and are exactly the requested ids, and the entry under
labels `(a, b)` is the defined distance with the limit applied. -/
theorem geoMatW_from {c : GeoCfg} (hc : c.okB = true) (t : Table) (len : Int → Int → Nat) (weighted directed : Bool)
    (lim : LimitV) (from_ : FromV) (hgiven : from_.toList ≠ [] ∨ ∃ l, from_ = .list l)
    (hnd : (ids t).Nodup) (hsub : ∀ i ∈ from_.toList, i ∈ ids t) :
    ∃ M, geoMatW c t len weighted directed lim from_ = some M ∧ M.cols = ids t ∧ M.rows.Nodup ∧
      (∀ a, a ∈ M.rows ↔ a ∈ from_.toList) ∧
      ∀ a ∈ from_.toList, ∀ b ∈ ids t,
        M.get? a b = some (applyLimit lim.toOpt (geo t (effLen len weighted) directed a b)) := by
  unfold GeoCfg.okB at hc
  simp only [Bool.and_eq_true, beq_iff_eq] at hc
  obtain ⟨⟨⟨⟨⟨⟨⟨⟨h1, h2⟩, h3⟩, h4⟩, h5⟩, h6⟩, h7⟩, h8⟩, h9⟩ := hc
  have hg : c.fromGiven.eval from_ = true := by
    rw [h1]
    cases from_ with
    | none => rcases hgiven with h | ⟨l, h⟩ <;> simp [FromV.toList] at h
    | scalar i => rfl
    | list l => rfl
  have hsubU : ∀ i ∈ npUnique from_.toList, i ∈ ids t := fun i hi => hsub i ((mem_npUnique _ i).mp hi)
  have hlen : (if (weighted && c.passWeight) = true then len else fun _ _ => 1) = effLen len weighted := by
    rw [h8]; cases weighted <;> rfl
  have hdir : (directed && c.passDirected) = directed := by rw [h7]; simp
  refine ⟨⟨rowLabels c.lab (ids t) (npUnique from_.toList), ids t,
    (rowLabels c.lab (ids t) (npUnique from_.toList)).map fun a => (ids t).map fun b =>
      c.limit.apply lim (geo t (effLen len weighted) directed a b)⟩, ?_, rfl, ?_, ?_, ?_⟩
  · unfold geoMatW
    simp only [hg, if_true, h2, h3, h6, Bool.true_and, any_missing_false hsubU, hlen, hdir]
    rw [computed_eq_labels h4]
    rfl
  · exact rowLabels_nodup hnd (npUnique_nodup _)
  · intro a
    rw [mem_rowLabels hsubU, mem_npUnique]
  · intro a ha b hb
    have ha' : a ∈ rowLabels c.lab (ids t) (npUnique from_.toList) := by
      rw [mem_rowLabels hsubU, mem_npUnique]; exact ha
    rw [get?_build _ _ (fun a b => c.limit.apply lim (geo t (effLen len weighted) directed a b)) ha' hb]
    rw [limit_apply_of_ok h9]

/-- **`from_` names an id that is not in the table**: `ValueError`. -/
theorem geoMatW_missing {c : GeoCfg} (hc : c.okB = true) (t : Table) (len : Int → Int → Nat) (weighted directed : Bool)
    (lim : LimitV) (from_ : FromV) {i : Int} (hi : i ∈ from_.toList) (hn : i ∉ ids t) :
    geoMatW c t len weighted directed lim from_ = none := by
  unfold GeoCfg.okB at hc
  simp only [Bool.and_eq_true, beq_iff_eq] at hc
  obtain ⟨⟨⟨⟨⟨⟨⟨⟨h1, h2⟩, h3⟩, _⟩, _⟩, _⟩, _⟩, _⟩, _⟩ := hc
  have hg : c.fromGiven.eval from_ = true := by
    rw [h1]
    cases from_ with
    | none => simp [FromV.toList] at hi
    | scalar i => rfl
    | list l => rfl
  unfold geoMatW
  simp only [hg, if_true, h2, h3, Bool.true_and, any_missing_true ((mem_npUnique _ i).mpr hi) hn]

/-- **`from_` not given**: all rows, labelled like the columns by the node ids in table order. -/
theorem geoMatW_all {c : GeoCfg} (hc : c.okB = true) (t : Table) (len : Int → Int → Nat) (weighted directed : Bool)
    (lim : LimitV) :
    ∃ M, geoMatW c t len weighted directed lim .none = some M ∧ M.rows = ids t ∧ M.cols = ids t ∧
      ∀ a ∈ ids t, ∀ b ∈ ids t,
        M.get? a b = some (applyLimit lim.toOpt (geo t (effLen len weighted) directed a b)) := by
  unfold GeoCfg.okB at hc
  simp only [Bool.and_eq_true, beq_iff_eq] at hc
  obtain ⟨⟨⟨⟨⟨⟨⟨⟨h1, h2⟩, h3⟩, h4⟩, h5⟩, h6⟩, h7⟩, h8⟩, h9⟩ := hc
  have hlen : (if (weighted && c.passWeight) = true then len else fun _ _ => 1) = effLen len weighted := by
    rw [h8]; cases weighted <;> rfl
  have hdir : (directed && c.passDirected) = directed := by rw [h7]; simp
  refine ⟨⟨ids t, ids t, (ids t).map fun a => (ids t).map fun b =>
      c.limit.apply lim (geo t (effLen len weighted) directed a b)⟩, ?_, rfl, rfl, ?_⟩
  · unfold geoMatW
    have hg : c.fromGiven.eval .none = false := by cases c.fromGiven <;> rfl
    simp only [hg, h5, h6, hlen, hdir, if_true]
    rfl
  · intro a ha b hb
    rw [get?_build _ _ (fun a b => c.limit.apply lim (geo t (effLen len weighted) directed a b)) ha hb]
    rw [limit_apply_of_ok h9]

end Navis.DistX
