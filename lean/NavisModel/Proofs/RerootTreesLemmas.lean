import NavisModel.Proofs.TreeEditLemmas
/-!
C10 second pass (core Lean only): which tree a node belongs to across a reroot, and "other fragments are
untouched" for a whole sequence of reroot targets.
-/
namespace Navis.TreeEdit
open Navis.Forest

theorem rootOf_parent {t : Table} (hw : WF t) {n : Node} (hn : n ∈ t) (hp : ¬ n.parent < 0) :
    rootOf t n.parent = rootOf t n.id := by
  apply rootOf_of_mem_rootPath hw
  rw [rootPath_of_nonroot hw (find?_of_mem hw.1 hn) hp]
  exact List.mem_cons_of_mem _ (anc_refl (WF_parent_mem hw hn hp))

theorem rootOf_of_root {t : Table} (hw : WF t) {n : Node} (hn : n ∈ t) (hp : n.parent < 0) : rootOf t n.id = some n.id := by
  unfold rootOf
  rw [rootPath_of_root (find?_of_mem hw.1 hn) hp]
  rfl

/-- The root path of a node of another tree is unchanged by a reroot. -/
theorem rootPath_reroot_other {t : Table} (hw : WF t) (r : Int) :
    ∀ i ∈ ids t, rootOf t i ≠ rootOf t r → rootPath (reroot t r) i = rootPath t i := by
  have hw1 := WF_reroot hw r
  refine WF_induct hw (fun i => rootOf t i ≠ rootOf t r → rootPath (reroot t r) i = rootPath t i) ?_
  intro n hn hcase hne
  have hoff : n.id ∉ rootPath t r := not_mem_rootPath_of_rootOf_ne hw hne
  have hn1 : n ∈ reroot t r := reroot_off_path t r n hn hoff
  have hf := find?_of_mem hw.1 hn
  have hf1 := find?_of_mem hw1.1 hn1
  by_cases hp : n.parent < 0
  · rw [rootPath_of_root hf hp, rootPath_of_root hf1 hp]
  · rw [rootPath_of_nonroot hw hf hp, rootPath_of_nonroot hw1 hf1 hp]
    rcases hcase with hc | hc
    · exact absurd hc hp
    · rw [hc (by rw [rootOf_parent hw hn hp]; exact hne)]

theorem rootOf_reroot_other {t : Table} (hw : WF t) (r : Int) {i : Int} (hi : i ∈ ids t) (hne : rootOf t i ≠ rootOf t r) :
    rootOf (reroot t r) i = rootOf t i := by
  unfold rootOf
  rw [rootPath_reroot_other hw r i hi hne]

/-- Every parent link of the rerooted table joins two nodes of the same original tree. -/
theorem reroot_link_same_tree {t : Table} (hw : WF t) (r : Int) {m : Node} (hm : m ∈ reroot t r) (hp : ¬ m.parent < 0) :
    rootOf t m.parent = rootOf t m.id := by
  have he : uedge m.id m.parent ∈ uedges (reroot t r) := mem_uedges.mpr ⟨m, hm, hp, rfl⟩
  rw [(uedges_reroot_perm hw r).mem_iff] at he
  obtain ⟨n, hn, hnp, heq⟩ := mem_uedges.mp he
  rcases uedge_eq_iff.mp heq with ⟨e1, e2⟩ | ⟨e1, e2⟩
  · rw [e1, e2]; exact rootOf_parent hw hn hnp
  · rw [e1, e2]; exact (rootOf_parent hw hn hnp).symm

/-- The root a node has after the reroot lies in the node's original tree. -/
theorem rootOf_reroot_same_tree {t : Table} (hw : WF t) (r : Int) :
    ∀ i ∈ ids (reroot t r), ∀ ρ', rootOf (reroot t r) i = some ρ' → rootOf t ρ' = rootOf t i := by
  have hw1 := WF_reroot hw r
  refine WF_induct hw1 (fun i => ∀ ρ', rootOf (reroot t r) i = some ρ' → rootOf t ρ' = rootOf t i) ?_
  intro m hm hcase ρ' hρ
  have hf1 := find?_of_mem hw1.1 hm
  by_cases hp : m.parent < 0
  · rw [rootOf_of_root hw1 hm hp] at hρ
    simp only [Option.some.injEq] at hρ
    rw [← hρ]
  · have hpar : rootOf (reroot t r) m.id = rootOf (reroot t r) m.parent := (rootOf_parent hw1 hm hp).symm
    rw [hpar] at hρ
    rcases hcase with hc | hc
    · exact absurd hc hp
    · rw [hc ρ' hρ]
      exact reroot_link_same_tree hw r hm hp

/-- After rerooting to the non-root node `r`, every node of `r`'s tree has root `r`. -/
theorem rootOf_reroot_same {t : Table} (hw : WF t) {r : Int} {nr : Node} (hf : find? t r = some nr) (hp : ¬ nr.parent < 0)
    {i : Int} (hi : i ∈ ids t) (hsame : rootOf t i = rootOf t r) : rootOf (reroot t r) i = some r := by
  have hw1 := WF_reroot hw r
  have hr : r ∈ ids t := mem_ids.mpr ⟨nr, find?_some hf⟩
  have hi1 : i ∈ ids (reroot t r) := by rw [ids_reroot]; exact hi
  obtain ⟨ρ', hρ, hρroot, _⟩ := rootOf_spec hw1 hi1
  rw [hρ]
  congr 1
  have hρt : rootOf t ρ' = rootOf t r := (rootOf_reroot_same_tree hw r i hi1 ρ' hρ).trans hsame
  -- the row of ρ' in the rerooted table is a root row
  obtain ⟨m, hm, hmid, hmp⟩ := mem_roots.mp hρroot
  have hpath := rootPath_RPath hw hr
  rcases reroot_cases t r with e | ⟨nr', h1, h2, h3⟩
  · -- impossible: the target has a parent, so `reroot` changed its row
    exfalso
    obtain ⟨n, hn, hid, hneg⟩ := reroot_new_root' t r hr
    rw [e] at hn
    have e2 := find?_of_mem hw.1 hn
    rw [hid, hf] at e2
    simp only [Option.some.injEq] at e2
    exact hp (e2 ▸ hneg)
  · rw [h3] at hm
    obtain ⟨m0, hm0, rfl⟩ := List.mem_map.mp hm
    rw [rerootParents_eq_map] at hm0
    obtain ⟨n, hn, rfl⟩ := List.mem_map.mp hm0
    simp only [relabelRow_id, rrow_id, relabelRow_parent] at hmid hmp
    rcases hpath.rrow_cases hw hn with ⟨hnr, _⟩ | ⟨_, _, q, hq, hqp, _, _, hq0⟩ | ⟨hoff, hrow⟩
    · rw [← hmid]; exact hnr
    · rw [hqp] at hmp; omega
    · exfalso
      rw [hrow] at hmp
      -- `n` is an original root off the path, yet in `r`'s tree: it would be the old root, which is on the path
      have h1' : rootOf t n.id = some n.id := rootOf_of_root hw hn hmp
      obtain ⟨ρ, hρ0, _, hρpath⟩ := rootOf_spec hw hr
      rw [hmid] at h1'
      rw [h1', hρ0] at hρt
      simp only [Option.some.injEq] at hρt
      apply hoff
      rw [hmid, hρt]
      exact hρpath

/-- **Other fragments are untouched by a whole sequence of reroots**: a row whose tree contains none of the targets
is still there, unchanged, at the end. -/
theorem rerootMany_other_trees {rs : List Int} : ∀ {t : Table}, WF t → ∀ n ∈ t,
    (∀ r ∈ rs, rootOf t n.id ≠ rootOf t r) → n ∈ rerootMany t rs := by
  induction rs with
  | nil => intro t _ n hn _; exact hn
  | cons r rs ih =>
    intro t hw n hn hall
    have hne := hall r List.mem_cons_self
    have hoff : n.id ∉ rootPath t r := not_mem_rootPath_of_rootOf_ne hw hne
    have hn1 : n ∈ reroot t r := reroot_off_path t r n hn hoff
    have hnid := mem_ids_of_mem hn
    show n ∈ rerootMany (reroot t r) rs
    apply ih (WF_reroot hw r) n hn1
    intro r' hr'
    have hne' := hall r' (List.mem_cons_of_mem _ hr')
    rw [rootOf_reroot_other hw r hnid hne]
    cases hf : find? t r with
    | none =>
      have : reroot t r = t := by unfold reroot; rw [hf]
      rw [this]; exact hne'
    | some nr =>
      by_cases hp : nr.parent < 0
      · have : reroot t r = t := by unfold reroot; rw [hf]; simp [hp]
        rw [this]; exact hne'
      · by_cases hr'in : r' ∈ ids t
        · by_cases hsame : rootOf t r' = rootOf t r
          · rw [rootOf_reroot_same hw hf hp hr'in hsame]
            intro heq
            obtain ⟨ρn, hρn, hρroot, _⟩ := rootOf_spec hw hnid
            rw [hρn] at heq
            simp only [Option.some.injEq] at heq
            obtain ⟨q, hq, hqid, hqp⟩ := mem_roots.mp hρroot
            have e2 := find?_of_mem hw.1 hq
            rw [hqid, heq, hf] at e2
            simp only [Option.some.injEq] at e2
            exact hp (e2 ▸ hqp)
          · rw [rootOf_reroot_other hw r hr'in hsame]; exact hne'
        · have hnot : r' ∉ ids (reroot t r) := by rw [ids_reroot]; exact hr'in
          have : rootOf (reroot t r) r' = none := by
            unfold rootOf; rw [rootPath_of_not_mem hnot]; rfl
          rw [this]
          obtain ⟨ρn, hρn, _, _⟩ := rootOf_spec hw hnid
          rw [hρn]; simp

end Navis.TreeEdit
