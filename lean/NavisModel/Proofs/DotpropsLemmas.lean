import NavisModel.Model.Dotprops
import NavisModel.Proofs.VoxelLemmas
import Mathlib.Algebra.Order.Ring.Abs
/-! Helper lemmas for C19 (second pass): nearest-neighbour selection, the scatter matrix and its characteristic polynomial,
Sylvester's criterion, soundness of the principal-axis / alpha checkers. -/
namespace Navis.Voxel

/-! ## insertion sort -/

theorem insertBy_perm (key : P3 → Rat) (a : P3) (l : List P3) : (insertBy key a l).Perm (a :: l) := by
  induction l with
  | nil => exact List.Perm.refl _
  | cons b l ih =>
    unfold insertBy
    split
    · exact List.Perm.refl _
    · exact ((List.Perm.cons b ih).trans (List.Perm.swap a b l))

theorem sortBy_perm (key : P3 → Rat) (l : List P3) : (sortBy key l).Perm l := by
  induction l with
  | nil => exact List.Perm.refl _
  | cons a l ih =>
    unfold sortBy
    exact (insertBy_perm key a _).trans (List.Perm.cons a ih)

theorem insertBy_sorted (key : P3 → Rat) (a : P3) (l : List P3)
    (h : l.Pairwise fun x y => key x ≤ key y) : (insertBy key a l).Pairwise fun x y => key x ≤ key y := by
  induction l with
  | nil => simp [insertBy]
  | cons b l ih =>
    unfold insertBy
    obtain ⟨hb, hl⟩ := List.pairwise_cons.mp h
    split
    · rename_i hab
      refine List.pairwise_cons.mpr ⟨?_, h⟩
      intro y hy
      rcases List.mem_cons.mp hy with rfl | hy
      · exact hab
      · exact le_trans hab (hb y hy)
    · rename_i hab
      refine List.pairwise_cons.mpr ⟨?_, ih hl⟩
      intro y hy
      rcases List.mem_cons.mp ((insertBy_perm key a l).mem_iff.mp hy) with rfl | hy
      · exact le_of_lt (not_le.mp hab)
      · exact hb y hy

theorem sortBy_sorted (key : P3 → Rat) (l : List P3) : (sortBy key l).Pairwise fun x y => key x ≤ key y := by
  induction l with
  | nil => simp [sortBy]
  | cons a l ih => unfold sortBy; exact insertBy_sorted key a _ ih

theorem knn_length (pts : List P3) (p : P3) (k : Nat) : (knn pts p k).length = min k pts.length := by
  unfold knn
  rw [List.length_take, (sortBy_perm _ pts).length_eq]

theorem knn_mem (pts : List P3) (p : P3) (k : Nat) (q : P3) (h : q ∈ knn pts p k) : q ∈ pts :=
  (sortBy_perm _ pts).mem_iff.mp (List.mem_of_mem_take h)

/-- Everything selected is at most as far away as everything left out. -/
theorem knn_nearest (pts : List P3) (p : P3) (k : Nat) (a b : P3) (ha : a ∈ knn pts p k)
    (hb : b ∈ (sortBy (dist2 p) pts).drop k) : dist2 p a ≤ dist2 p b := by
  have hs := sortBy_sorted (dist2 p) pts
  rw [← List.take_append_drop k (sortBy (dist2 p) pts)] at hs
  exact (List.pairwise_append.mp hs).2.2 a ha b hb

/-- Selected and left-out points together are exactly the cloud. -/
theorem knn_partition (pts : List P3) (p : P3) (k : Nat) :
    (knn pts p k ++ (sortBy (dist2 p) pts).drop k).Perm pts := by
  unfold knn
  rw [List.take_append_drop]
  exact sortBy_perm _ pts

theorem dist2_nonneg (p q : P3) : 0 ≤ dist2 p q := norm2_nonneg _

theorem dist2_eq_zero_iff (p q : P3) : dist2 p q = 0 ↔ q = p := by
  unfold dist2
  rw [norm2_eq_zero_iff, sub_eq_zero_iff]

/-- The query includes the self-hit: for `k ≥ 1` the point itself (its location) is among its neighbours. -/
theorem knn_self (pts : List P3) (p : P3) (k : Nat) (hp : p ∈ pts) (hk : 1 ≤ k) : p ∈ knn pts p k := by
  unfold knn
  have hperm := sortBy_perm (dist2 p) pts
  have hs := sortBy_sorted (dist2 p) pts
  have hmem : p ∈ sortBy (dist2 p) pts := hperm.mem_iff.mpr hp
  match hsort : sortBy (dist2 p) pts with
  | [] => rw [hsort] at hmem; exact absurd hmem (List.not_mem_nil)
  | a :: l =>
    rw [hsort] at hmem hs
    have ha : dist2 p a ≤ dist2 p p := by
      rcases List.mem_cons.mp hmem with rfl | h
      · exact le_refl _
      · exact (List.pairwise_cons.mp hs).1 p h
    have h0 : dist2 p p = 0 := (dist2_eq_zero_iff p p).mpr rfl
    have : dist2 p a = 0 := le_antisymm (h0 ▸ ha) (dist2_nonneg p a)
    have hap : a = p := (dist2_eq_zero_iff p a).mp this
    obtain ⟨k', rfl⟩ : ∃ k', k = k' + 1 := ⟨k - 1, by omega⟩
    rw [List.take_succ_cons, hap]
    exact List.mem_cons_self

/-! ## the scatter matrix -/

theorem mulVec_add (A B : Sym3) (v : P3) : (A.add B).mulVec v = add (A.mulVec v) (B.mulVec v) := by
  unfold Sym3.add Sym3.mulVec add
  congr 1 <;> ring

theorem mulVec_outer (c v : P3) : (Sym3.outer c).mulVec v = scale (dot c v) c := by
  unfold Sym3.outer Sym3.mulVec scale dot
  congr 1 <;> ring

theorem mulVec_zero (v : P3) : Sym3.zero.mulVec v = ⟨0, 0, 0⟩ := by
  unfold Sym3.zero Sym3.mulVec
  congr 1 <;> ring

/-- The matrix form and the operator form (`inertiaApply`, first pass) of the scatter matrix agree. -/
theorem mulVec_inertiaMat (cs : List P3) (w : P3) : (inertiaMat cs).mulVec w = inertiaApply cs w := by
  induction cs with
  | nil => exact mulVec_zero w
  | cons c cs ih =>
    unfold inertiaMat inertiaApply at *
    rw [List.foldr_cons, List.foldr_cons, mulVec_add, mulVec_outer, ih]

theorem trace_inertiaMat (cs : List P3) : (inertiaMat cs).trace = (cs.map norm2).sum := by
  induction cs with
  | nil => simp [inertiaMat, Sym3.zero, Sym3.trace]
  | cons c cs ih =>
    unfold inertiaMat at *
    rw [List.foldr_cons, List.map_cons, List.sum_cons, ← ih]
    unfold Sym3.add Sym3.outer Sym3.trace norm2 dot
    ring

theorem quad_inertiaMat (cs : List P3) (w : P3) :
    (inertiaMat cs).quad w = (cs.map fun c => dot c w * dot c w).sum := by
  induction cs with
  | nil => simp [inertiaMat, Sym3.zero, Sym3.quad, Sym3.mulVec, dot]
  | cons c cs ih =>
    unfold inertiaMat at *
    rw [List.foldr_cons, List.map_cons, List.sum_cons, ← ih]
    unfold Sym3.quad
    rw [mulVec_add, mulVec_outer]
    unfold add scale dot
    ring

theorem sum_nonneg_of_forall {l : List Rat} (h : ∀ x ∈ l, 0 ≤ x) : 0 ≤ l.sum := by
  induction l with
  | nil => simp
  | cons a l ih =>
    rw [List.sum_cons]
    exact add_nonneg (h a List.mem_cons_self) (ih fun x hx => h x (List.mem_cons_of_mem _ hx))

theorem sum_eq_zero_of_nonneg {l : List Rat} (h : ∀ x ∈ l, 0 ≤ x) (hs : l.sum = 0) : ∀ x ∈ l, x = 0 := by
  induction l with
  | nil => intro x hx; exact absurd hx List.not_mem_nil
  | cons a l ih =>
    rw [List.sum_cons] at hs
    have ha := h a List.mem_cons_self
    have hl := sum_nonneg_of_forall fun x hx => h x (List.mem_cons_of_mem _ hx)
    intro x hx
    rcases List.mem_cons.mp hx with rfl | hx
    · linarith
    · exact ih (fun y hy => h y (List.mem_cons_of_mem _ hy)) (by linarith) x hx

/-- The scatter matrix is positive semi-definite. -/
theorem quad_inertiaMat_nonneg (cs : List P3) (w : P3) : 0 ≤ (inertiaMat cs).quad w := by
  rw [quad_inertiaMat]
  apply sum_nonneg_of_forall
  intro x hx
  obtain ⟨c, _, rfl⟩ := List.mem_map.mp hx
  exact mul_self_nonneg _

theorem trace_inertiaMat_nonneg (cs : List P3) : 0 ≤ (inertiaMat cs).trace := by
  rw [trace_inertiaMat]
  apply sum_nonneg_of_forall
  intro x hx
  obtain ⟨c, _, rfl⟩ := List.mem_map.mp hx
  exact norm2_nonneg c

/-- The trace vanishes exactly when every centred point is the origin. -/
theorem trace_inertiaMat_eq_zero_iff (cs : List P3) : (inertiaMat cs).trace = 0 ↔ ∀ c ∈ cs, c = ⟨0, 0, 0⟩ := by
  rw [trace_inertiaMat]
  constructor
  · intro h c hc
    have := sum_eq_zero_of_nonneg (l := cs.map norm2)
      (fun x hx => by obtain ⟨c, _, rfl⟩ := List.mem_map.mp hx; exact norm2_nonneg c) h (norm2 c)
      (List.mem_map.mpr ⟨c, hc, rfl⟩)
    exact (norm2_eq_zero_iff c).mp this
  · intro h
    have : cs.map norm2 = cs.map fun _ => (0 : Rat) := by
      apply List.map_congr_left
      intro c hc
      rw [h c hc]; unfold norm2 dot; norm_num
    rw [this]
    clear this h
    induction cs with
    | nil => rfl
    | cons c cs ih => simp

/-- A neighbourhood whose points all coincide has a vanishing scatter matrix trace. -/
theorem trace_nbInertia_eq_zero_iff (nb : List P3) :
    (nbInertia nb).trace = 0 ↔ ∀ q ∈ nb, q = centre nb := by
  unfold nbInertia centred
  rw [trace_inertiaMat_eq_zero_iff]
  constructor
  · intro h q hq
    exact (sub_eq_zero_iff q (centre nb)).mp (h _ (List.mem_map.mpr ⟨q, hq, rfl⟩))
  · intro h c hc
    obtain ⟨q, hq, rfl⟩ := List.mem_map.mp hc
    exact (sub_eq_zero_iff q (centre nb)).mpr (h q hq)

/-! ## characteristic polynomial, adjugate, Sylvester -/

theorem charpoly_expand (A : Sym3) (t : Rat) :
    A.charpoly t = t * t * t - A.trace * (t * t) + A.minors2 * t - A.det := by
  unfold Sym3.charpoly Sym3.shift Sym3.det Sym3.trace Sym3.minors2
  ring

theorem cubic_expand (x1 x2 x3 t : Rat) :
    (t - x1) * (t - x2) * (t - x3) =
      t * t * t - (x1 + x2 + x3) * (t * t) + (x1 * x2 + x1 * x3 + x2 * x3) * t - x1 * x2 * x3 := by ring

theorem adj_mulVec (A : Sym3) (v : P3) : A.adj.mulVec (A.mulVec v) = scale A.det v := by
  unfold Sym3.adj Sym3.mulVec Sym3.det scale
  congr 1 <;> ring

theorem mulVec_shift (μ : Rat) (A : Sym3) (v : P3) : (Sym3.shift μ A).mulVec v = sub (scale μ v) (A.mulVec v) := by
  unfold Sym3.shift Sym3.mulVec sub scale
  congr 1 <;> ring

theorem quad_shift (μ : Rat) (A : Sym3) (w : P3) : (Sym3.shift μ A).quad w = μ * norm2 w - A.quad w := by
  unfold Sym3.quad
  rw [mulVec_shift]
  unfold sub scale norm2 dot
  ring

/-- An eigenvalue is a root of the characteristic polynomial. -/
theorem eigen_root (A : Sym3) (v : P3) (lam : Rat) (hv : v ≠ ⟨0, 0, 0⟩) (h : A.mulVec v = scale lam v) :
    A.charpoly lam = 0 := by
  unfold Sym3.charpoly
  have h0 : (Sym3.shift lam A).mulVec v = ⟨0, 0, 0⟩ := by
    rw [mulVec_shift, h]; unfold sub; simp
  have h1 := adj_mulVec (Sym3.shift lam A) v
  rw [h0] at h1
  have hz : (Sym3.shift lam A).adj.mulVec ⟨0, 0, 0⟩ = ⟨0, 0, 0⟩ := by
    unfold Sym3.mulVec; congr 1 <;> ring
  rw [hz] at h1
  unfold scale at h1
  by_contra hne
  apply hv
  have hx : (Sym3.shift lam A).det * v.x = 0 := (congrArg V3.x h1).symm
  have hy : (Sym3.shift lam A).det * v.y = 0 := (congrArg V3.y h1).symm
  have hz' : (Sym3.shift lam A).det * v.z = 0 := (congrArg V3.z h1).symm
  cases v
  simp only [V3.mk.injEq]
  exact ⟨(mul_eq_zero.mp hx).resolve_left hne, (mul_eq_zero.mp hy).resolve_left hne, (mul_eq_zero.mp hz').resolve_left hne⟩

/-- Completing the squares: `a · m₂ · (wᵀ A w) = m₂ (a x + b y + c z)² + (m₂ y + (a e − b c) z)² + a · det · z²`. -/
theorem sylvester_identity (A : Sym3) (w : P3) :
    A.a * (A.a * A.d - A.b * A.b) * A.quad w =
      (A.a * A.d - A.b * A.b) * ((A.a * w.x + A.b * w.y + A.c * w.z) * (A.a * w.x + A.b * w.y + A.c * w.z)) +
      ((A.a * A.d - A.b * A.b) * w.y + (A.a * A.e - A.b * A.c) * w.z) *
        ((A.a * A.d - A.b * A.b) * w.y + (A.a * A.e - A.b * A.c) * w.z) +
      A.a * A.det * (w.z * w.z) := by
  unfold Sym3.quad Sym3.mulVec Sym3.det dot
  ring

/-- Sylvester's criterion (the direction used): positive leading minors make the quadratic form non-negative. -/
theorem posDefB_quad_nonneg (A : Sym3) (h : A.posDefB = true) (w : P3) : 0 ≤ A.quad w := by
  unfold Sym3.posDefB at h
  simp only [Bool.and_eq_true, decide_eq_true_eq] at h
  obtain ⟨⟨ha, hm⟩, hd⟩ := h
  have hid := sylvester_identity A w
  have hpos : 0 < A.a * (A.a * A.d - A.b * A.b) := mul_pos ha hm
  have hr : 0 ≤ A.a * (A.a * A.d - A.b * A.b) * A.quad w := by
    rw [hid]
    have t1 := mul_nonneg (le_of_lt hm) (mul_self_nonneg (A.a * w.x + A.b * w.y + A.c * w.z))
    have t2 := mul_self_nonneg ((A.a * A.d - A.b * A.b) * w.y + (A.a * A.e - A.b * A.c) * w.z)
    have t3 := mul_nonneg (le_of_lt (mul_pos ha hd)) (mul_self_nonneg w.z)
    linarith
  by_contra hneg
  have hlt : A.quad w < 0 := not_le.mp hneg
  have := mul_neg_of_pos_of_neg hpos hlt
  linarith

/-- … and positive off the origin. -/
theorem posDefB_quad_pos (A : Sym3) (h : A.posDefB = true) (w : P3) (hw : w ≠ ⟨0, 0, 0⟩) : 0 < A.quad w := by
  have h' := h
  unfold Sym3.posDefB at h
  simp only [Bool.and_eq_true, decide_eq_true_eq] at h
  obtain ⟨⟨ha, hm⟩, hd⟩ := h
  have hnn := posDefB_quad_nonneg A h' w
  rcases lt_or_eq_of_le hnn with hlt | heq
  · exact hlt
  · exfalso
    apply hw
    have hid := sylvester_identity A w
    rw [← heq, mul_zero] at hid
    have t1 := mul_nonneg (le_of_lt hm) (mul_self_nonneg (A.a * w.x + A.b * w.y + A.c * w.z))
    have t2 := mul_self_nonneg ((A.a * A.d - A.b * A.b) * w.y + (A.a * A.e - A.b * A.c) * w.z)
    have t3 := mul_nonneg (le_of_lt (mul_pos ha hd)) (mul_self_nonneg w.z)
    have e3 : A.a * A.det * (w.z * w.z) = 0 := by linarith
    have e2 : ((A.a * A.d - A.b * A.b) * w.y + (A.a * A.e - A.b * A.c) * w.z) *
        ((A.a * A.d - A.b * A.b) * w.y + (A.a * A.e - A.b * A.c) * w.z) = 0 := by linarith
    have e1 : (A.a * A.d - A.b * A.b) * ((A.a * w.x + A.b * w.y + A.c * w.z) * (A.a * w.x + A.b * w.y + A.c * w.z)) = 0 := by
      linarith
    have hz : w.z = 0 := by
      have := (mul_eq_zero.mp e3).resolve_left (ne_of_gt (mul_pos ha hd))
      exact mul_self_eq_zero.mp this
    have hy : w.y = 0 := by
      have := mul_self_eq_zero.mp e2
      rw [hz, mul_zero, add_zero] at this
      exact (mul_eq_zero.mp this).resolve_left (ne_of_gt hm)
    have hx : w.x = 0 := by
      have := mul_self_eq_zero.mp ((mul_eq_zero.mp e1).resolve_left (ne_of_gt hm))
      rw [hz, hy, mul_zero, mul_zero, add_zero, add_zero] at this
      exact (mul_eq_zero.mp this).resolve_left (ne_of_gt ha)
    cases w
    simp only [V3.mk.injEq]
    exact ⟨hx, hy, hz⟩

/-! ## soundness of the checkers -/

theorem quad_eq_rayleigh (A : Sym3) (v : P3) (hv : norm2 v ≠ 0) : A.quad v = rayleigh A v * norm2 v := by
  unfold rayleigh
  field_simp

/-- What `axisOKB` certifies. -/
theorem axisOKB_sound (A : Sym3) (v : P3) (ε : Rat) (h : axisOKB A v ε = true) :
    norm2 (sub (A.mulVec v) (scale (rayleigh A v) v)) ≤ (ε * A.trace) * (ε * A.trace) * norm2 v ∧
    ∀ w, A.quad w ≤ (rayleigh A v + ε * A.trace) * norm2 w := by
  unfold axisOKB at h
  simp only [Bool.and_eq_true, decide_eq_true_eq] at h
  refine ⟨h.1, fun w => ?_⟩
  have := posDefB_quad_nonneg _ h.2 w
  rw [quad_shift] at this
  linarith

/-- An exact top eigenvector passes `axisOKB` for every positive tolerance (no false alarm on exact data). -/
theorem axisOKB_complete (A : Sym3) (v : P3) (lam ε : Rat) (hv : norm2 v ≠ 0) (heig : A.mulVec v = scale lam v)
    (htop : ∀ w, A.quad w ≤ lam * norm2 w) (hε : 0 < ε * A.trace) : axisOKB A v ε = true := by
  have hray : rayleigh A v = lam := by
    unfold rayleigh Sym3.quad
    rw [heig]
    have : dot v (scale lam v) = lam * norm2 v := by unfold dot scale norm2 dot; ring
    rw [this]; field_simp
  unfold axisOKB
  simp only [Bool.and_eq_true, decide_eq_true_eq]
  constructor
  · rw [hray, heig]
    have : sub (scale lam v) (scale lam v) = ⟨0, 0, 0⟩ := by unfold sub; simp
    rw [this]
    have h0 : norm2 (⟨0, 0, 0⟩ : P3) = 0 := by unfold norm2 dot; norm_num
    rw [h0]
    exact mul_nonneg (mul_self_nonneg _) (norm2_nonneg v)
  · rw [hray]
    -- positive definiteness of (lam + δ) I − A via the three test vectors of Sylvester's criterion
    set δ := ε * A.trace with hδ
    have hq : ∀ w : P3, w ≠ ⟨0, 0, 0⟩ → 0 < (Sym3.shift (lam + δ) A).quad w := by
      intro w hw
      rw [quad_shift]
      have h1 := htop w
      have h2 : 0 < norm2 w := lt_of_le_of_ne (norm2_nonneg w) (fun e => hw ((norm2_eq_zero_iff w).mp e.symm))
      nlinarith
    set B := Sym3.shift (lam + δ) A with hB
    have ha : 0 < B.a := by
      have := hq ⟨1, 0, 0⟩ (by intro e; have := congrArg V3.x e; norm_num at this)
      unfold Sym3.quad Sym3.mulVec dot at this
      simpa using this
    have hm : 0 < B.a * B.d - B.b * B.b := by
      by_cases hzero : (⟨-B.b, B.a, 0⟩ : P3) = ⟨0, 0, 0⟩
      · have := congrArg V3.y hzero; simp at this; linarith
      · have := hq ⟨-B.b, B.a, 0⟩ hzero
        unfold Sym3.quad Sym3.mulVec dot at this
        have e : -B.b * (B.a * -B.b + B.b * B.a + B.c * 0) + B.a * (B.b * -B.b + B.d * B.a + B.e * 0) +
            0 * (B.c * -B.b + B.e * B.a + B.f * 0) = B.a * (B.a * B.d - B.b * B.b) := by ring
        rw [e] at this
        exact pos_of_mul_pos_right this (le_of_lt ha)
    have hd : 0 < B.det := by
      by_cases hzero : (⟨B.adj.c, B.adj.e, B.adj.f⟩ : P3) = ⟨0, 0, 0⟩
      · have := congrArg V3.z hzero
        unfold Sym3.adj at this; simp at this; linarith
      · have := hq ⟨B.adj.c, B.adj.e, B.adj.f⟩ hzero
        have e : B.quad ⟨B.adj.c, B.adj.e, B.adj.f⟩ = B.det * (B.a * B.d - B.b * B.b) := by
          unfold Sym3.quad Sym3.mulVec Sym3.adj Sym3.det dot
          ring
        rw [e] at this
        exact pos_of_mul_pos_left this (le_of_lt hm)
    unfold Sym3.posDefB
    simp only [Bool.and_eq_true, decide_eq_true_eq]
    exact ⟨⟨ha, hm⟩, hd⟩

theorem implied_sum (A : Sym3) (lam a : Rat) : lam + impliedL2 A lam a + impliedL3 A lam a = A.trace := by
  unfold impliedL3 impliedL2; ring

theorem implied_alpha (A : Sym3) (lam a : Rat) (htr : A.trace ≠ 0) :
    a = (lam - impliedL2 A lam a) / (lam + impliedL2 A lam a + impliedL3 A lam a) := by
  rw [implied_sum]
  unfold impliedL2
  field_simp
  ring

/-- What `alphaOKB` certifies. -/
theorem alphaOKB_sound (A : Sym3) (lam a ε : Rat) (h : alphaOKB A lam a ε = true) :
    (∀ t, |A.charpoly t - (t - lam) * (t - impliedL2 A lam a) * (t - impliedL3 A lam a)| ≤
        ε * A.trace * A.trace * |t| + ε * A.trace * A.trace * A.trace) ∧
    impliedL2 A lam a ≤ lam + ε * A.trace ∧ impliedL3 A lam a ≤ impliedL2 A lam a + ε * A.trace ∧
    -(ε * A.trace) ≤ impliedL3 A lam a := by
  unfold alphaOKB at h
  simp only [Bool.and_eq_true, decide_eq_true_eq, absLe_iff] at h
  obtain ⟨⟨⟨⟨h2, h3⟩, o1⟩, o2⟩, o3⟩ := h
  refine ⟨fun t => ?_, o1, o2, o3⟩
  rw [charpoly_expand, cubic_expand, implied_sum]
  set l2 := impliedL2 A lam a
  set l3 := impliedL3 A lam a
  have e : t * t * t - A.trace * (t * t) + A.minors2 * t - A.det -
      (t * t * t - A.trace * (t * t) + (lam * l2 + lam * l3 + l2 * l3) * t - lam * l2 * l3)
      = -(lam * l2 + lam * l3 + l2 * l3 - A.minors2) * t + (lam * l2 * l3 - A.det) := by ring
  rw [e]
  have a2 : |lam * l2 + lam * l3 + l2 * l3 - A.minors2| ≤ ε * A.trace * A.trace := abs_le.mpr ⟨by linarith [h2.2], h2.1⟩
  have a3 : |lam * l2 * l3 - A.det| ≤ ε * A.trace * A.trace * A.trace := abs_le.mpr ⟨by linarith [h3.2], h3.1⟩
  calc |-(lam * l2 + lam * l3 + l2 * l3 - A.minors2) * t + (lam * l2 * l3 - A.det)|
      ≤ |-(lam * l2 + lam * l3 + l2 * l3 - A.minors2) * t| + |lam * l2 * l3 - A.det| := abs_add_le _ _
    _ = |lam * l2 + lam * l3 + l2 * l3 - A.minors2| * |t| + |lam * l2 * l3 - A.det| := by rw [abs_mul, abs_neg]
    _ ≤ ε * A.trace * A.trace * |t| + ε * A.trace * A.trace * A.trace :=
        add_le_add (mul_le_mul_of_nonneg_right a2 (abs_nonneg t)) a3

/-! ## tangents of a skeleton -/

/-- Lagrange's identity `|v × w|² + (v·w)² = |v|²|w|²`. -/
theorem lagrange (v w : P3) : norm2 (cross v w) + dot v w * dot v w = norm2 v * norm2 w := by
  unfold norm2 cross dot
  ring

theorem lookup_eq_some_iff (t : List Row) (hn : (t.map (·.id)).Nodup) (i : Int) (p : P3) :
    lookup t i = some p ↔ ∃ r ∈ t, r.id = i ∧ r.p = p := by
  induction t with
  | nil => simp [lookup]
  | cons r t ih =>
    rw [List.map_cons, List.nodup_cons] at hn
    unfold lookup at *
    rw [List.find?_cons]
    by_cases hr : r.id = i
    · simp only [hr, decide_true, Option.map_some, Option.some.injEq]
      constructor
      · intro h; exact ⟨r, List.mem_cons_self, hr, h⟩
      · rintro ⟨r', hr', hid, hp⟩
        rcases List.mem_cons.mp hr' with rfl | hmem
        · exact hp
        · exfalso
          apply hn.1
          rw [hr, ← hid]
          exact List.mem_map.mpr ⟨r', hmem, rfl⟩
    · simp only [hr, decide_false]
      rw [ih hn.2]
      constructor
      · rintro ⟨r', hr', h⟩; exact ⟨r', List.mem_cons_of_mem _ hr', h⟩
      · rintro ⟨r', hr', hid, hp⟩
        rcases List.mem_cons.mp hr' with rfl | hmem
        · exact absurd hid hr
        · exact ⟨r', hmem, hid, hp⟩

/-- The parent lookup goes by id, not by position: any reordering of the rows gives the same answer. -/
theorem lookup_perm (t t' : List Row) (hp : t.Perm t') (hn : (t.map (·.id)).Nodup) (i : Int) :
    lookup t i = lookup t' i := by
  have hn' : (t'.map (·.id)).Nodup := (hp.map _).nodup_iff.mp hn
  cases h : lookup t i with
  | some p =>
    obtain ⟨r, hr, hid, hpp⟩ := (lookup_eq_some_iff t hn i p).mp h
    exact ((lookup_eq_some_iff t' hn' i p).mpr ⟨r, hp.mem_iff.mp hr, hid, hpp⟩).symm
  | none =>
    cases h' : lookup t' i with
    | none => rfl
    | some p =>
      obtain ⟨r, hr, hid, hpp⟩ := (lookup_eq_some_iff t' hn' i p).mp h'
      have := (lookup_eq_some_iff t hn i p).mpr ⟨r, hp.mem_iff.mpr hr, hid, hpp⟩
      rw [h] at this
      exact absurd this (by simp)

theorem mapM_option_mem {α β : Type} (f : α → Option β) (l : List α) (out : List β) (h : l.mapM f = some out) (b : β) :
    b ∈ out ↔ ∃ a ∈ l, f a = some b := by
  induction l generalizing out with
  | nil =>
    simp only [List.mapM_nil] at h
    cases h
    simp
  | cons a l ih =>
    rw [List.mapM_cons] at h
    cases hfa : f a with
    | none => rw [hfa] at h; simp at h
    | some b' =>
      rw [hfa] at h
      cases hl : l.mapM f with
      | none => rw [hl] at h; simp at h
      | some out' =>
        rw [hl] at h
        simp only [Option.pure_def, Option.bind_eq_bind, Option.bind_some, Option.some.injEq] at h
        subst h
        rw [List.mem_cons, ih out' hl]
        constructor
        · rintro (rfl | ⟨a', ha', hfa'⟩)
          · exact ⟨a, List.mem_cons_self, hfa⟩
          · exact ⟨a', List.mem_cons_of_mem _ ha', hfa'⟩
        · rintro ⟨a', ha', hfa'⟩
          rcases List.mem_cons.mp ha' with rfl | hm
          · left; rw [hfa] at hfa'; exact (Option.some.inj hfa').symm
          · right; exact ⟨a', hm, hfa'⟩

theorem mapM_option_length {α β : Type} (f : α → Option β) (l : List α) (out : List β) (h : l.mapM f = some out) :
    out.length = l.length := by
  induction l generalizing out with
  | nil => simp only [List.mapM_nil] at h; cases h; rfl
  | cons a l ih =>
    rw [List.mapM_cons] at h
    cases hfa : f a with
    | none => rw [hfa] at h; simp at h
    | some b' =>
      rw [hfa] at h
      cases hl : l.mapM f with
      | none => rw [hl] at h; simp at h
      | some out' =>
        rw [hl] at h
        simp only [Option.pure_def, Option.bind_eq_bind, Option.bind_some, Option.some.injEq] at h
        subst h
        rw [List.length_cons, List.length_cons, ih out' hl]

/-- Which child/parent pairs `edgePairs` produces: one per non-root row, with the parent found by id. -/
theorem edgePairs_mem (t : List Row) (es : List (P3 × P3)) (h : edgePairs t = some es) (e : P3 × P3) :
    e ∈ es ↔ ∃ r ∈ t, 0 ≤ r.parent ∧ lookup t r.parent = some e.2 ∧ r.p = e.1 := by
  unfold edgePairs at h
  rw [mapM_option_mem _ _ _ h]
  constructor
  · rintro ⟨r, hr, hf⟩
    obtain ⟨hr1, hr2⟩ := List.mem_filter.mp hr
    cases hl : lookup t r.parent with
    | none => rw [hl] at hf; simp at hf
    | some q =>
      rw [hl] at hf
      simp only [Option.map_some, Option.some.injEq] at hf
      subst hf
      exact ⟨r, hr1, by simpa using hr2, hl, rfl⟩
  · rintro ⟨r, hr, hpar, hl, hp⟩
    refine ⟨r, List.mem_filter.mpr ⟨hr, by simpa using hpar⟩, ?_⟩
    rw [hl]
    simp only [Option.map_some, Option.some.injEq]
    cases e
    simp_all

theorem edgePairs_length (t : List Row) (es : List (P3 × P3)) (h : edgePairs t = some es) :
    es.length = (t.filter fun r => 0 ≤ r.parent).length := by
  unfold edgePairs at h
  exact mapM_option_length _ _ _ h

/-! ## voxels: reported coordinates, same-voxel distance, default bounds, shape -/

theorem nearAtB_model (g : Grid) (p : P3) (v : I3) : nearAtB (gridOffset g) (gridUnits g) g.u p v = nearB g p v := by
  unfold nearAtB nearB coord coord1 gridOffset gridUnits
  rfl

theorem shape1_pos (pitch lo hi : Rat) (hp : 0 < pitch) (h : lo ≤ hi) : 1 ≤ shape1 pitch lo hi := by
  unfold shape1
  have h1 : lo / pitch ≤ hi / pitch := div_le_div_of_nonneg_right h (le_of_lt hp)
  have h2 : (lo / pitch).floor ≤ (hi / pitch).ceil := by
    have a : ((lo / pitch).floor : Rat) ≤ lo / pitch := floor_le' _
    have b : hi / pitch ≤ (((hi / pitch).ceil : Int) : Rat) := Rat.le_ceil
    have : ((lo / pitch).floor : Rat) ≤ (((hi / pitch).ceil : Int) : Rat) := by linarith
    exact_mod_cast this
  omega

/-- Two points that share a voxel index along an axis are at most one pitch apart along it. -/
theorem same_ix_close (pitch p q : Rat) (hp : 0 < pitch) (h : ix1 pitch p = ix1 pitch q) :
    p - q ≤ pitch ∧ q - p ≤ pitch := by
  unfold ix1 at h
  have a1 := round_upper (p / pitch)
  have a2 := round_lower (p / pitch)
  have b1 := round_upper (q / pitch)
  have b2 := round_lower (q / pitch)
  rw [h] at a1 a2
  have hpe : p = p / pitch * pitch := by field_simp
  have hqe : q = q / pitch * pitch := by field_simp
  generalize roundHalfEven (q / pitch) = r at *
  generalize p / pitch = P at *
  generalize q / pitch = Q at *
  subst hpe hqe
  constructor
  · have : (P - Q) * pitch ≤ 1 * pitch := mul_le_mul_of_nonneg_right (by linarith) (le_of_lt hp)
    linarith
  · have : (Q - P) * pitch ≤ 1 * pitch := mul_le_mul_of_nonneg_right (by linarith) (le_of_lt hp)
    linarith

theorem mapUnits_size (q factor umag : Rat) (hu : umag ≠ 0) : units1 (mapUnits q factor umag) umag = q * factor := by
  unfold units1 mapUnits
  field_simp

/-! ## the variational characterisation: a maximiser of the Rayleigh quotient is an eigenvector -/

theorem quad_add_scale (B : Sym3) (v u : P3) (t : Rat) :
    B.quad (add v (scale t u)) = B.quad v + 2 * t * dot u (B.mulVec v) + t * t * B.quad u := by
  unfold Sym3.quad Sym3.mulVec add scale dot
  ring

/-- A positive semi-definite form that vanishes on `v` annihilates `v`. -/
theorem psd_kernel (B : Sym3) (v : P3) (hpsd : ∀ w, 0 ≤ B.quad w) (hv : B.quad v = 0) : B.mulVec v = ⟨0, 0, 0⟩ := by
  set u := B.mulVec v with hu
  have hN : 0 ≤ norm2 u := norm2_nonneg u
  have hq : 0 ≤ B.quad u := hpsd u
  have hq1 : 0 < B.quad u + 1 := by linarith
  set t := norm2 u / (B.quad u + 1) with ht
  have htN : t * (B.quad u + 1) = norm2 u := by rw [ht]; field_simp
  have key := hpsd (add v (scale (-t) u))
  rw [quad_add_scale, hv] at key
  have hdu : dot u (B.mulVec v) = norm2 u := rfl
  rw [hdu, ← htN] at key
  have h2 : 0 ≤ t * t * (-(B.quad u) - 2) := by
    have e : 0 + 2 * -t * (t * (B.quad u + 1)) + -t * -t * B.quad u = t * t * (-(B.quad u) - 2) := by ring
    rw [e] at key; exact key
  have ht0 : t * t ≤ 0 := by
    by_contra hpos
    have hp : 0 < t * t := not_le.mp hpos
    have : t * t * (-(B.quad u) - 2) < 0 := mul_neg_of_pos_of_neg hp (by linarith)
    linarith
  have htz : t = 0 := mul_self_eq_zero.mp (le_antisymm ht0 (mul_self_nonneg t))
  have : norm2 u = 0 := by rw [← htN, htz, zero_mul]
  exact (norm2_eq_zero_iff u).mp this

theorem rayleigh_max_eigen (A : Sym3) (v : P3) (lam : Rat) (hq : A.quad v = lam * norm2 v)
    (htop : ∀ w, A.quad w ≤ lam * norm2 w) : A.mulVec v = scale lam v := by
  have h := psd_kernel (Sym3.shift lam A) v (fun w => by rw [quad_shift]; linarith [htop w]) (by rw [quad_shift, hq]; ring)
  rw [mulVec_shift] at h
  have hx := congrArg V3.x h
  have hy := congrArg V3.y h
  have hz := congrArg V3.z h
  unfold sub at hx hy hz
  simp only at hx hy hz
  have e : A.mulVec v = ⟨(A.mulVec v).x, (A.mulVec v).y, (A.mulVec v).z⟩ := rfl
  rw [e]
  unfold scale at *
  simp only [V3.mk.injEq]
  simp only at hx hy hz
  exact ⟨by linarith, by linarith, by linarith⟩

/-! ## bounding boxes -/

theorem minOf_le_init (l : List Rat) (d : Rat) : minOf l d ≤ d := by
  induction l generalizing d with
  | nil => exact le_refl d
  | cons a l ih => unfold minOf at *; rw [List.foldl_cons]; exact le_trans (ih (min d a)) (min_le_left d a)

theorem minOf_le_mem (l : List Rat) (d : Rat) : ∀ x ∈ l, minOf l d ≤ x := by
  induction l generalizing d with
  | nil => intro x hx; exact absurd hx List.not_mem_nil
  | cons a l ih =>
    intro x hx
    unfold minOf at *
    rw [List.foldl_cons]
    rcases List.mem_cons.mp hx with rfl | hx
    · exact le_trans (minOf_le_init l (min d x)) (min_le_right d x)
    · exact ih (min d a) x hx

theorem minOf_mem (l : List Rat) (d : Rat) : minOf l d = d ∨ minOf l d ∈ l := by
  induction l generalizing d with
  | nil => left; rfl
  | cons a l ih =>
    unfold minOf at *
    rw [List.foldl_cons]
    rcases ih (min d a) with h | h
    · rcases min_choice d a with h' | h'
      · left; rw [h, h']
      · right; rw [h, h']; exact List.mem_cons_self
    · right; exact List.mem_cons_of_mem _ h

theorem le_maxOf_init (l : List Rat) (d : Rat) : d ≤ maxOf l d := by
  induction l generalizing d with
  | nil => exact le_refl d
  | cons a l ih => unfold maxOf at *; rw [List.foldl_cons]; exact le_trans (le_max_left d a) (ih (max d a))

theorem le_maxOf_mem (l : List Rat) (d : Rat) : ∀ x ∈ l, x ≤ maxOf l d := by
  induction l generalizing d with
  | nil => intro x hx; exact absurd hx List.not_mem_nil
  | cons a l ih =>
    intro x hx
    unfold maxOf at *
    rw [List.foldl_cons]
    rcases List.mem_cons.mp hx with rfl | hx
    · exact le_trans (le_max_right d x) (le_maxOf_init l (max d x))
    · exact ih (max d a) x hx

theorem maxOf_mem (l : List Rat) (d : Rat) : maxOf l d = d ∨ maxOf l d ∈ l := by
  induction l generalizing d with
  | nil => left; rfl
  | cons a l ih =>
    unfold maxOf at *
    rw [List.foldl_cons]
    rcases ih (max d a) with h | h
    · rcases max_choice d a with h' | h'
      · left; rw [h, h']
      · right; rw [h, h']; exact List.mem_cons_self
    · right; exact List.mem_cons_of_mem _ h

/-- The box returned by `bboxOf` is the tight axis-aligned box of the points: it contains every point and each face is
attained by some point. -/
theorem bboxOf_spec (V : List P3) (lo hi : P3) (h : bboxOf V = some (lo, hi)) :
    (∀ q ∈ V, (lo.x ≤ q.x ∧ q.x ≤ hi.x) ∧ (lo.y ≤ q.y ∧ q.y ≤ hi.y) ∧ (lo.z ≤ q.z ∧ q.z ≤ hi.z)) ∧
    (∃ q ∈ V, q.x = lo.x) ∧ (∃ q ∈ V, q.x = hi.x) ∧ (∃ q ∈ V, q.y = lo.y) ∧ (∃ q ∈ V, q.y = hi.y) ∧
    (∃ q ∈ V, q.z = lo.z) ∧ (∃ q ∈ V, q.z = hi.z) := by
  cases V with
  | nil => simp [bboxOf] at h
  | cons p l =>
    simp only [bboxOf, Option.some.injEq, Prod.mk.injEq] at h
    obtain ⟨rfl, rfl⟩ := h
    have mem_of : ∀ (f : P3 → Rat) (m : Rat), (m = f p ∨ m ∈ l.map f) → ∃ q ∈ p :: l, f q = m := by
      intro f m hm
      rcases hm with rfl | hm
      · exact ⟨p, List.mem_cons_self, rfl⟩
      · obtain ⟨q, hq, rfl⟩ := List.mem_map.mp hm
        exact ⟨q, List.mem_cons_of_mem _ hq, rfl⟩
    refine ⟨?_, mem_of (·.x) _ (minOf_mem _ _), mem_of (·.x) _ (maxOf_mem _ _), mem_of (·.y) _ (minOf_mem _ _),
      mem_of (·.y) _ (maxOf_mem _ _), mem_of (·.z) _ (minOf_mem _ _), mem_of (·.z) _ (maxOf_mem _ _)⟩
    intro q hq
    rcases List.mem_cons.mp hq with rfl | hq
    · exact ⟨⟨minOf_le_init _ _, le_maxOf_init _ _⟩, ⟨minOf_le_init _ _, le_maxOf_init _ _⟩, ⟨minOf_le_init _ _, le_maxOf_init _ _⟩⟩
    · exact ⟨⟨minOf_le_mem _ _ _ (List.mem_map.mpr ⟨q, hq, rfl⟩), le_maxOf_mem _ _ _ (List.mem_map.mpr ⟨q, hq, rfl⟩)⟩,
             ⟨minOf_le_mem _ _ _ (List.mem_map.mpr ⟨q, hq, rfl⟩), le_maxOf_mem _ _ _ (List.mem_map.mpr ⟨q, hq, rfl⟩)⟩,
             ⟨minOf_le_mem _ _ _ (List.mem_map.mpr ⟨q, hq, rfl⟩), le_maxOf_mem _ _ _ (List.mem_map.mpr ⟨q, hq, rfl⟩)⟩⟩

theorem inBoxB_iff (lo hi : P3) (tol : Rat) (p : P3) : inBoxB lo hi tol p = true ↔
    (lo.x - tol ≤ p.x ∧ p.x ≤ hi.x + tol) ∧ (lo.y - tol ≤ p.y ∧ p.y ≤ hi.y + tol) ∧ (lo.z - tol ≤ p.z ∧ p.z ≤ hi.z + tol) := by
  unfold inBoxB
  simp only [Bool.and_eq_true, decide_eq_true_eq]
  constructor
  · rintro ⟨⟨⟨⟨⟨a, b⟩, c⟩, d⟩, e⟩, f⟩; exact ⟨⟨a, b⟩, ⟨c, d⟩, ⟨e, f⟩⟩
  · rintro ⟨⟨a, b⟩, ⟨c, d⟩, ⟨e, f⟩⟩; exact ⟨⟨⟨⟨⟨a, b⟩, c⟩, d⟩, e⟩, f⟩

/-- One axis of "a vertex that hugs an in-grid voxel lies within the grid's extent". -/
theorem hug_extent1 (off un tol q : Rat) (v sh : Int) (hun : 0 < un) (h0 : 0 ≤ v) (h1 : v < sh)
    (h : absLe (q - (off + (v : Rat) * un)) ((1 / 2 + tol) * un) = true) :
    off - (1 / 2 + tol) * un ≤ q ∧ q ≤ off + ((sh : Rat) - 1) * un + (1 / 2 + tol) * un := by
  obtain ⟨ha, hb⟩ := (absLe_iff _ _).mp h
  have v0 : (0 : Rat) ≤ (v : Rat) := by exact_mod_cast h0
  have v1 : (v : Rat) ≤ (sh : Rat) - 1 := by
    have : v ≤ sh - 1 := by omega
    exact_mod_cast this
  have m0 : 0 ≤ (v : Rat) * un := mul_nonneg v0 (le_of_lt hun)
  have m1 : (v : Rat) * un ≤ ((sh : Rat) - 1) * un := mul_le_mul_of_nonneg_right v1 (le_of_lt hun)
  constructor <;> linarith

/-! ## invariances of the scatter matrix: neighbour order, translation -/

theorem perm_sum {l l' : List Rat} (h : l.Perm l') : l.sum = l'.sum := by
  induction h with
  | nil => rfl
  | cons a _ ih => simp only [List.sum_cons, ih]
  | swap a b l => simp only [List.sum_cons]; ring
  | trans _ _ ih1 ih2 => exact ih1.trans ih2

theorem centre_perm {nb nb' : List P3} (h : nb.Perm nb') : centre nb = centre nb' := by
  unfold centre
  simp only [h.length_eq, perm_sum (h.map (·.x)), perm_sum (h.map (·.y)), perm_sum (h.map (·.z))]

theorem sym3_add_comm (A B : Sym3) : A.add B = B.add A := by
  unfold Sym3.add; congr 1 <;> ring

theorem sym3_add_assoc (A B C : Sym3) : (A.add B).add C = A.add (B.add C) := by
  unfold Sym3.add; congr 1 <;> ring

theorem inertiaMat_perm {cs cs' : List P3} (h : cs.Perm cs') : inertiaMat cs = inertiaMat cs' := by
  unfold inertiaMat
  induction h with
  | nil => rfl
  | cons a _ ih => simp only [List.foldr_cons, ih]
  | swap a b l =>
    simp only [List.foldr_cons]
    rw [← sym3_add_assoc, ← sym3_add_assoc, sym3_add_comm (Sym3.outer b) (Sym3.outer a)]
  | trans _ _ ih1 ih2 => exact ih1.trans ih2

/-- The scatter matrix does not depend on the order in which the KD-tree returns the neighbours. -/
theorem nbInertia_perm {nb nb' : List P3} (h : nb.Perm nb') : nbInertia nb = nbInertia nb' := by
  unfold nbInertia centred
  rw [centre_perm h]
  exact inertiaMat_perm (h.map _)

theorem sum_map_add_const (l : List P3) (f : P3 → Rat) (c : Rat) :
    (l.map fun q => c + f q).sum = (l.length : Rat) * c + (l.map f).sum := by
  induction l with
  | nil => simp
  | cons a l ih =>
    simp only [List.map_cons, List.sum_cons, List.length_cons, ih]
    push_cast
    ring

theorem centre_translate (t : P3) (nb : List P3) (hne : nb ≠ []) : centre (nb.map (add t)) = add t (centre nb) := by
  have hn : (nb.length : Rat) ≠ 0 := by
    have : 0 < nb.length := List.length_pos_iff.mpr hne
    exact_mod_cast (Nat.pos_iff_ne_zero.mp this)
  unfold centre add
  simp only [List.length_map, List.map_map]
  have hx := sum_map_add_const nb (·.x) t.x
  have hy := sum_map_add_const nb (·.y) t.y
  have hz := sum_map_add_const nb (·.z) t.z
  have ex : ((fun a : P3 => a.x) ∘ fun b : P3 => (⟨t.x + b.x, t.y + b.y, t.z + b.z⟩ : P3)) = fun q => t.x + q.x := rfl
  have ey : ((fun a : P3 => a.y) ∘ fun b : P3 => (⟨t.x + b.x, t.y + b.y, t.z + b.z⟩ : P3)) = fun q => t.y + q.y := rfl
  have ez : ((fun a : P3 => a.z) ∘ fun b : P3 => (⟨t.x + b.x, t.y + b.y, t.z + b.z⟩ : P3)) = fun q => t.z + q.z := rfl
  rw [ex, ey, ez, hx, hy, hz]
  congr 1 <;> field_simp

/-- The scatter matrix — hence tangent and alpha — does not depend on where the cloud sits (offsets drop out). -/
theorem nbInertia_translate (t : P3) (nb : List P3) : nbInertia (nb.map (add t)) = nbInertia nb := by
  by_cases hne : nb = []
  · subst hne; rfl
  · unfold nbInertia centred
    rw [centre_translate t nb hne, List.map_map]
    congr 1
    apply List.map_congr_left
    intro q _
    show sub (add t q) (add t (centre nb)) = sub q (centre nb)
    unfold sub add
    congr 1 <;> ring

/-! ## completeness of the alpha checker on exact data -/

theorem alphaOKB_complete (A : Sym3) (l1 l2 l3 : Rat) (h12 : l2 ≤ l1) (h23 : l3 ≤ l2) (h3 : 0 ≤ l3)
    (hcp : ∀ t, A.charpoly t = (t - l1) * (t - l2) * (t - l3)) (htr : A.trace ≠ 0) :
    alphaOKB A l1 ((l1 - l2) / A.trace) 0 = true := by
  have c0 := hcp 0
  have c1 := hcp 1
  have cm := hcp (-1)
  rw [charpoly_expand, cubic_expand] at c0 c1 cm
  have hdet : A.det = l1 * l2 * l3 := by linarith
  have htrace : A.trace = l1 + l2 + l3 := by linarith
  have hm2 : A.minors2 = l1 * l2 + l1 * l3 + l2 * l3 := by linarith
  have e2 : impliedL2 A l1 ((l1 - l2) / A.trace) = l2 := by
    unfold impliedL2; field_simp; ring
  have e3 : impliedL3 A l1 ((l1 - l2) / A.trace) = l3 := by
    unfold impliedL3; rw [e2, htrace]; ring
  unfold alphaOKB
  simp only [Bool.and_eq_true, decide_eq_true_eq, absLe_iff, e2, e3, hm2, hdet, zero_mul, add_zero, neg_zero]
  refine ⟨⟨⟨⟨⟨?_, ?_⟩, ⟨?_, ?_⟩⟩, h12⟩, h23⟩, h3⟩ <;> linarith

end Navis.Voxel
