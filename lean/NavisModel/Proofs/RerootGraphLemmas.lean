import NavisModel.Proofs.TreeEditLemmas
/-!
C10 second pass (core Lean only): the weighted graph that `reroot_skeleton` edits in place (igraph branch:
read the weights along the path, append the inverted edges with those weights, delete the path edges) is —
up to the order of the edge list — the graph of the rerooted node table.  navis keeps this graph
(`_clear_temp_attr(exclude=['igraph', …])`), so this is what makes the cached view agree with the table.
-/
namespace Navis.TreeEdit
open Navis.Forest

/-! ### path edges -/

theorem mem_pathEdges_iff : ∀ {l : List Int}, l.Nodup → ∀ {a b : Int}, (a, b) ∈ pathEdges l ↔ predOnPath l b = some a
  | [], _, a, b => by simp [pathEdges, predOnPath]
  | [x], _, a, b => by simp [pathEdges, predOnPath]
  | x :: y :: rest, hnd, a, b => by
    have hnd' : (y :: rest).Nodup := (List.nodup_cons.mp hnd).2
    have ih := mem_pathEdges_iff hnd' (a := a) (b := b)
    unfold pathEdges at ih ⊢
    simp only [List.tail_cons, List.zip_cons_cons, List.mem_cons, Prod.mk.injEq] at ih ⊢
    unfold predOnPath
    by_cases hy : y = b
    · rw [if_pos hy]
      simp only [Option.some.injEq]
      constructor
      · rintro (⟨h1, _⟩ | h)
        · exact h1.symm
        · -- `b = y` cannot be the second component of a later edge: it would be in `rest`
          exfalso
          have hb : b ∈ rest := by
            have := (List.of_mem_zip h).2
            exact this
          exact (List.nodup_cons.mp hnd').1 (hy ▸ hb)
      · intro h; exact Or.inl ⟨h.symm, hy.symm⟩
    · rw [if_neg hy]
      constructor
      · rintro (⟨_, h2⟩ | h)
        · exact absurd h2.symm hy
        · exact ih.mp h
      · intro h; exact Or.inr (ih.mpr h)

theorem pathEdges_fst_mem {l : List Int} {a b : Int} (h : (a, b) ∈ pathEdges l) : a ∈ l := (List.of_mem_zip h).1

theorem map_fst_zip_sublist : ∀ (l l' : List Int), ((l.zip l').map Prod.fst).Sublist l
  | [], _ => by simp
  | a :: l, [] => by simp
  | a :: l, b :: l' => by
    simp only [List.zip_cons_cons, List.map_cons]
    exact (map_fst_zip_sublist l l').cons_cons a

theorem pathEdges_nodup {l : List Int} (hnd : l.Nodup) : (pathEdges l).Nodup := by
  unfold pathEdges
  have hk : ((l.zip l.tail).map Prod.fst).Sublist l := map_fst_zip_sublist l l.tail
  have h2 : ((l.zip l.tail).map Prod.fst).Nodup := hnd.sublist hk
  exact List.Pairwise.of_map Prod.fst (fun a b hab heq => hab (by rw [heq])) h2

/-! ### weights -/

theorem weightOf_graphOf_aux (len : Int → Int → Nat) (a b : Int) : ∀ (es : List (Int × Int)), (a, b) ∈ es →
    weightOf (es.map fun e => (e.1, e.2, len e.1 e.2)) a b = len a b
  | [], h => by simp at h
  | e :: es, h => by
    unfold weightOf
    simp only [List.map_cons, List.find?_cons]
    by_cases he : (e.1 == a && e.2 == b) = true
    · simp only [he]
      simp only [Bool.and_eq_true, beq_iff_eq] at he
      rw [he.1, he.2]
    · simp only [he]
      have hne : (a, b) ≠ e := by
        intro heq
        apply he
        rw [← heq]; simp
      have hmem : (a, b) ∈ es := by
        rcases List.mem_cons.mp h with h1 | h1
        · exact absurd h1 hne
        · exact h1
      have := weightOf_graphOf_aux len a b es hmem
      unfold weightOf at this
      exact this

theorem weightOf_graphOf {t : Table} (len : Int → Int → Nat) {a b : Int} (h : (a, b) ∈ edges t) :
    weightOf (graphOf t len) a b = len a b := weightOf_graphOf_aux len a b (edges t) h

/-! ### membership in the two graphs -/

theorem mem_graphOf {t : Table} {len : Int → Int → Nat} {x : WEdge} :
    x ∈ graphOf t len ↔ ∃ n ∈ t, ¬ n.parent < 0 ∧ x = (n.id, n.parent, len n.id n.parent) := by
  unfold graphOf
  simp only [List.mem_map]
  constructor
  · rintro ⟨e, he, rfl⟩
    obtain ⟨n, hn, hp, rfl⟩ := mem_edges.mp he
    exact ⟨n, hn, hp, rfl⟩
  · rintro ⟨n, hn, hp, rfl⟩
    exact ⟨(n.id, n.parent), mem_edges.mpr ⟨n, hn, hp, rfl⟩, rfl⟩

theorem graphOf_nodup {t : Table} (hnd : (ids t).Nodup) (len : Int → Int → Nat) : (graphOf t len).Nodup := by
  unfold graphOf
  apply List.pairwise_map.mpr
  refine (Nodup_edges hnd).imp ?_
  intro a b hab heq
  apply hab
  simp only [Prod.mk.injEq] at heq
  exact Prod.ext heq.1 heq.2.1

theorem mem_rerootGraphIg {g : WGraph} {path : List Int} {x : WEdge} :
    x ∈ rerootGraphIg g path ↔
      (x ∈ g ∨ ∃ e ∈ pathEdges path, x = (e.2, e.1, weightOf g e.1 e.2)) ∧ (x.1, x.2.1) ∉ pathEdges path := by
  unfold rerootGraphIg
  simp only [List.mem_filter, List.mem_append, List.mem_map, Bool.not_eq_true', List.contains_eq_mem,
    decide_eq_false_iff_not]
  constructor
  · rintro ⟨h | ⟨e, he, rfl⟩, h2⟩
    · exact ⟨Or.inl h, h2⟩
    · exact ⟨Or.inr ⟨e, he, rfl⟩, h2⟩
  · rintro ⟨h | ⟨e, he, rfl⟩, h2⟩
    · exact ⟨Or.inl h, h2⟩
    · exact ⟨Or.inr ⟨e, he, rfl⟩, h2⟩

/-- A path edge is a child → parent link of the table. -/
theorem pathEdge_link {t : Table} {r : Int} {path : List Int} (h : RPath t r path) {a b : Int} (he : (a, b) ∈ pathEdges path) :
    ∃ q, find? t a = some q ∧ q.parent = b ∧ 0 ≤ b :=
  Linked_pred h.linked ((mem_pathEdges_iff h.nodup).mp he)

/-- No two-cycles: `a → b` and `b → a` cannot both be links. -/
theorem no_two_cycle {t : Table} (hw : WF t) {n q : Node} (hn : n ∈ t) (hq : q ∈ t) (h1 : n.parent = q.id) (h2 : q.parent = n.id) : False := by
  have hqp : ¬ q.parent < 0 := by rw [h2]; have := hw.2.1 n hn; omega
  have hnp : ¬ n.parent < 0 := by rw [h1]; have := hw.2.1 q hq; omega
  have hnot := parent_not_distal hw hn hnp
  apply hnot
  rw [h1, rootPath_of_nonroot hw (find?_of_mem hw.1 hq) hqp, h2]
  exact List.mem_cons_of_mem _ (anc_refl (mem_ids_of_mem hn))

theorem mem_graph_reroot_iff {t : Table} (hw : WF t) (len : Int → Int → Nat) (hsym : ∀ a b, len a b = len b a)
    {r : Int} {path : List Int} (h : RPath t r path) (x : WEdge) :
    x ∈ rerootGraphIg (graphOf t len) path ↔ x ∈ graphOf (rerootParents t r path) len := by
  rw [mem_rerootGraphIg, rerootParents_eq_map]
  constructor
  · intro hlhs
    apply mem_graphOf.mpr
    revert hlhs
    rintro ⟨hx | ⟨e, he, rfl⟩, hnot⟩
    · -- an original edge that is not on the path: its row is untouched
      obtain ⟨n, hn, hp, rfl⟩ := mem_graphOf.mp hx
      simp only at hnot
      have hoff : n.id ∉ path := by
        intro hon
        apply hnot
        exact (mem_pathEdges_iff h.nodup).mpr (h.pred_parent hw hn hon hp)
      refine ⟨rrow r path n, List.mem_map.mpr ⟨n, hn, rfl⟩, ?_, ?_⟩
      · rw [rrow_off_path h.head_mem hoff]; exact hp
      · rw [rrow_off_path h.head_mem hoff]
    · -- an inverted path edge `(a, b)`: the row of `b` now has parent `a`
      obtain ⟨a, b⟩ := e
      simp only at hnot ⊢
      obtain ⟨q, hfq, hqp, hb0⟩ := pathEdge_link h he
      have hq := find?_some hfq
      have hpred := (mem_pathEdges_iff h.nodup).mp he
      have hbt : b ∈ path.tail := predOnPath_mem_tail hpred
      have hbr : b ≠ r := fun hh => h.r_not_tail (hh ▸ hbt)
      have hbin : b ∈ ids t := h.sub b (List.mem_of_mem_tail hbt)
      obtain ⟨nb, hnb, hnbid⟩ := mem_ids.mp hbin
      have hrow : (rrow r path nb).parent = a := by
        unfold rrow
        rw [if_neg (by rw [hnbid]; exact hbr), hnbid, hpred]
      refine ⟨rrow r path nb, List.mem_map.mpr ⟨nb, hnb, rfl⟩, ?_, ?_⟩
      · rw [hrow, ← hq.2]; have := hw.2.1 q hq.1; omega
      · rw [hrow, rrow_id, hnbid]
        have hedge : (a, b) ∈ edges t := mem_edges.mpr ⟨q, hq.1, by rw [hqp]; omega, by rw [hq.2, hqp]⟩
        rw [weightOf_graphOf len hedge, hsym]
  · intro hrhs
    obtain ⟨m, hm, hmp, rfl⟩ := mem_graphOf.mp hrhs
    obtain ⟨n, hn, rfl⟩ := List.mem_map.mp hm
    simp only
    rcases h.rrow_cases hw hn with ⟨_, h1⟩ | ⟨_, htail, q, hq, h1, h2, hqon, _⟩ | ⟨hoff, h1⟩
    · rw [h1] at hmp; exact absurd (by decide) hmp
    · -- the row of a path node: its new parent `q` was its child on the path
      have hqp : ¬ q.parent < 0 := by rw [h2]; have := hw.2.1 n hn; omega
      have hedge : (q.id, n.id) ∈ pathEdges path := by
        have := h.pred_parent hw hq hqon hqp
        rw [h2] at this
        exact (mem_pathEdges_iff h.nodup).mpr this
      refine ⟨Or.inr ⟨(q.id, n.id), hedge, ?_⟩, ?_⟩
      · rw [h1, rrow_id]
        have hedge' : (q.id, n.id) ∈ edges t := mem_edges.mpr ⟨q, hq, hqp, by rw [h2]⟩
        simp only
        rw [weightOf_graphOf len hedge', hsym]
      · rw [h1, rrow_id]
        intro hback
        obtain ⟨n', hfn', hn'p, _⟩ := pathEdge_link h hback
        have e := find?_of_mem hw.1 hn
        rw [hfn'] at e
        simp only [Option.some.injEq] at e
        subst e
        exact no_two_cycle hw hn hq hn'p h2
    · rw [h1] at hmp ⊢
      refine ⟨Or.inl (mem_graphOf.mpr ⟨n, hn, hmp, rfl⟩), ?_⟩
      intro hon
      exact hoff (pathEdges_fst_mem hon)

theorem rerootGraphIg_nodup {t : Table} (hw : WF t) (len : Int → Int → Nat) {r : Int} {path : List Int} (h : RPath t r path) :
    (rerootGraphIg (graphOf t len) path).Nodup := by
  unfold rerootGraphIg
  apply List.Pairwise.filter
  apply List.nodup_append.mpr
  refine ⟨graphOf_nodup hw.1 len, ?_, ?_⟩
  · apply List.pairwise_map.mpr
    refine (pathEdges_nodup h.nodup).imp ?_
    intro a b hab heq
    apply hab
    simp only [Prod.mk.injEq] at heq
    exact Prod.ext heq.2.1 heq.1
  · intro x hx y hy hxy
    subst hxy
    obtain ⟨n, hn, hp, rfl⟩ := mem_graphOf.mp hx
    obtain ⟨e, he, heq⟩ := List.mem_map.mp hy
    obtain ⟨a, b⟩ := e
    simp only [Prod.mk.injEq] at heq
    obtain ⟨q, hfq, hqp, _⟩ := pathEdge_link h he
    have hq := find?_some hfq
    -- `n.id = b`, `n.parent = a = q.id`, `q.parent = b = n.id`
    exact no_two_cycle hw hn hq.1 (by rw [← heq.2.1, hq.2]) (by rw [hqp, heq.1])

/-- **The graph edited in place by the igraph branch of `reroot_skeleton` is the graph of the rerooted node table**
(as a multiset of weighted directed edges), for every forest, every non-root target and every symmetric edge length. -/
theorem rerootGraphIg_perm {t : Table} (hw : WF t) (len : Int → Int → Nat) (hsym : ∀ a b, len a b = len b a)
    {r : Int} {nr : Node} (hf : find? t r = some nr) (hp : ¬ nr.parent < 0) :
    (rerootGraphIg (graphOf t len) (rootPath t r)).Perm (graphOf (reroot t r) len) := by
  have hr : r ∈ ids t := mem_ids.mpr ⟨nr, find?_some hf⟩
  have h := rootPath_RPath hw hr
  have hlinks : graphOf (reroot t r) len = graphOf (rerootParents t r (rootPath t r)) len := by
    rcases reroot_links_cases t r with e | ⟨nr', h1, _, h3⟩
    · exfalso
      -- `reroot` is not the identity here: the target has a parent
      unfold reroot at e
      rw [hf] at e
      simp only [hp, if_false] at e
      have hnew := reroot_new_root' t r hr
      unfold reroot at hnew
      rw [hf] at hnew
      simp only [hp, if_false] at hnew
      rw [e] at hnew
      obtain ⟨n, hn, hid, hneg⟩ := hnew
      have e2 := find?_of_mem hw.1 hn
      rw [hid, hf] at e2
      simp only [Option.some.injEq] at e2
      exact hp (e2 ▸ hneg)
    · unfold graphOf
      rw [edges_congr h3]
  rw [hlinks]
  apply (List.perm_ext_iff_of_nodup (rerootGraphIg_nodup hw len h) (graphOf_nodup (WF_rerootParents hw r hr).1 len)).mpr
  intro x
  exact mem_graph_reroot_iff hw len hsym h x

end Navis.TreeEdit
