import NavisModel.Model.Codec
import NavisModel.Model.IoMeta
import NavisModel.Model.IoBatch
/-!
Helper lemmas for the metadata / batch-selection part of C14 (core Lean only): Python-dict style association
lists, the NRRD header interpreter, `info` ↔ codec bridge, attribute columns, JSON key filter, file selection.
-/
namespace Navis.IoMeta

/-! ### dictionaries -/

theorem get_set_same (h : Header) (k : String) (v : Val) : get (set h k v) k = some v := by
  induction h with
  | nil => simp [set, get]
  | cons p r ih =>
    obtain ⟨k', v'⟩ := p
    by_cases hk : k' = k
    · simp [set, get, hk]
    · simp [set, get, hk, ih]

theorem get_set_ne (h : Header) (k k' : String) (v : Val) (hne : k' ≠ k) :
    get (set h k v) k' = get h k' := by
  induction h with
  | nil => simp [set, get, Ne.symm hne]
  | cons p r ih =>
    obtain ⟨k1, v1⟩ := p
    by_cases hk : k1 = k
    · subst hk
      simp [set, get, Ne.symm hne]
    · by_cases hk' : k1 = k'
      · subst hk'
        simp [set, get, hk]
      · simp [set, get, hk, hk', ih]

theorem get_update_free (h a : Header) (k : String) (hf : get a k = none) :
    get (update h a) k = get h k := by
  induction a generalizing h with
  | nil => rfl
  | cons p r ih =>
    obtain ⟨k1, v1⟩ := p
    by_cases hk : k1 = k
    · simp [get, hk] at hf
    · simp only [get, hk, if_false] at hf
      rw [update, ih _ hf, get_set_ne _ _ _ _ (Ne.symm hk)]

/-! ### `info` ↔ codec -/

/-- The attribute layout an independent decoder derives from the `info` file (`none` when a dtype is unknown). -/
def specsOfInfo (i : Info) : Option (List Codec.AttrSpec) :=
  (i.vertexAttrs.getD []).mapM fun a => (Codec.Layout.dtypeSize a.dtype).map fun s => ⟨a.id, s, a.comps⟩

theorem transformOf_eq (u : V3R) :
    transformOf u = [u.1, 0, 0, 0, 0, u.2.1, 0, 0, 0, 0, u.2.2, 0] := by
  simp [transformOf, transpose43, mat43, List.range, List.range.loop]

theorem scaleOf_writeInfo (nm : Option V3R) (a : Option (List VAttr)) :
    scaleOf (writeInfo false nm a) = some (nm.getD (1, 1, 1)) ∧ offDiagonalZero (writeInfo false nm a) = true := by
  simp [writeInfo, scaleOf, offDiagonalZero, transformOf_eq]

/-! ### attribute columns -/

theorem column_length (comps i : Nat) (vals : List Nat) : (column comps i vals).length = vals.length / comps := by
  simp [column]

theorem column_getElem? (comps i r : Nat) (vals : List Nat) (hr : r < vals.length / comps) :
    (column comps i vals)[r]? = some (vals.getD (r * comps + i) 0) := by
  simp [column, hr]

/-- Nothing is lost or mixed up: word `p` of the block is row `p / comps` of column `p % comps`. -/
theorem column_lossless (comps p : Nat) (vals : List Nat) (hc : 0 < comps) (hp : p < vals.length)
    (hshape : vals.length % comps = 0) :
    (column comps (p % comps) vals)[p / comps]? = vals[p]? := by
  have hlen : vals.length = vals.length / comps * comps := by
    have := Nat.div_add_mod vals.length comps
    rw [hshape, Nat.add_zero, Nat.mul_comm] at this
    exact this.symm
  have hr : p / comps < vals.length / comps := by
    apply (Nat.div_lt_iff_lt_mul hc).2
    rw [← hlen]; exact hp
  rw [column_getElem? _ _ _ _ hr]
  have : p / comps * comps + p % comps = p := by
    rw [Nat.mul_comm]; exact Nat.div_add_mod p comps
  rw [this]
  simp [List.getD, hp]

/-! ### JSON key filter -/

theorem dget_filter_key {α} (f : String → Bool) (d : List (String × α)) (k : String) :
    dget (d.filter fun p => f p.1) k = if f k then dget d k else none := by
  induction d with
  | nil => simp [dget]
  | cons p r ih =>
    obtain ⟨k1, v1⟩ := p
    by_cases hf : f k1 = true
    · by_cases hk : k1 = k
      · subst hk; simp [List.filter, hf, dget]
      · simp [List.filter, hf, dget, hk, ih]
    · have hf' : f k1 = false := by simpa using hf
      by_cases hk : k1 = k
      · subst hk; simp [List.filter, hf', ih]
      · simp [List.filter, hf', dget, hk, ih]

end Navis.IoMeta

namespace Navis.IoBatch

/-! ### file selection -/

theorem scanAW_sublist (hidden valid : String → Bool) (limit : Option Nat) (c : Nat) (l : List String) :
    (scanAW hidden valid limit c l).Sublist l := by
  induction l generalizing c with
  | nil => simp [scanAW]
  | cons f fs ih =>
    unfold scanAW
    by_cases hfull : full limit c = true
    · simp only [hfull, if_true]; exact List.nil_sublist _
    · simp only [hfull]
      by_cases hh : hidden f = true
      · simp only [hh, if_true]; exact (ih c).cons f
      · simp only [hh]
        by_cases hv : valid f = true
        · simp only [hv, if_true]; exact (ih (c + 1)).cons_cons f
        · simp only [hv]; exact (ih c).cons f

theorem scanAW_none (hidden valid : String → Bool) (c : Nat) (l : List String) :
    scanAW hidden valid none c l = l.filter fun f => !hidden f && valid f := by
  induction l generalizing c with
  | nil => simp [scanAW]
  | cons f fs ih =>
    unfold scanAW
    by_cases hh : hidden f = true
    · simp [full, hh, ih]
    · have hh' : hidden f = false := by simpa using hh
      by_cases hv : valid f = true
      · simp [full, hh', hv, ih]
      · have hv' : valid f = false := by simpa using hv
        simp [full, hh', hv', ih]

theorem mem_scanAW_valid (hidden valid : String → Bool) (limit : Option Nat) (c : Nat) (l : List String) (f : String)
    (hf : f ∈ scanAW hidden valid limit c l) : valid f = true ∧ hidden f = false := by
  induction l generalizing c with
  | nil => simp [scanAW] at hf
  | cons g gs ih =>
    unfold scanAW at hf
    by_cases hfull : full limit c = true
    · simp [hfull] at hf
    · simp only [hfull] at hf
      by_cases hh : hidden g = true
      · simp only [hh, if_true] at hf
        exact ih _ hf
      · have hh' : hidden g = false := by simpa using hh
        simp only [hh] at hf
        by_cases hv : valid g = true
        · simp only [hv, if_true] at hf
          rcases List.mem_cons.1 hf with h | h
          · subst h; exact ⟨hv, hh'⟩
          · exact ih _ h
        · simp only [hv] at hf
          exact ih _ hf

/-- The archive scan with an integer `limit = n`, exactly: the first `n - c` collectable entries (`c` already
collected) – entries that are hidden or not valid neither count nor stop the scan. -/
theorem scanAW_int (hidden valid : String → Bool) (n c : Nat) (l : List String) :
    scanAW hidden valid (some n) c l = (l.filter fun f => !hidden f && valid f).take (n - c) := by
  induction l generalizing c with
  | nil => simp [scanAW]
  | cons f fs ih =>
    unfold scanAW
    by_cases hge : c ≥ n
    · have h0 : n - c = 0 := by omega
      simp [full, hge, h0]
    · have hfull : full (some n) c = false := by simp [full, hge]
      simp only [hfull, Bool.false_eq_true, if_false]
      by_cases hh : hidden f = true
      · simp [hh, ih]
      · have hh' : hidden f = false := by simpa using hh
        by_cases hv : valid f = true
        · have hs : n - c = (n - (c + 1)) + 1 := by omega
          simp [hh', hv, ih, hs, List.take_succ_cons]
        · have hv' : valid f = false := by simpa using hv
          simp [hh', hv', ih]

end Navis.IoBatch

namespace Navis.IoMeta

/-! ### VoxelNeuron grid cache -/

theorem voxInv_validate (f : VoxFacts) (s : VoxSt) (hgt : f.gridIsTemp = true) (h : VoxInv f s) :
    VoxInv f (voxValidate f s) := by
  unfold voxValidate
  split
  · intro g hg
    simp [hgt] at hg
  · exact h

/-- after validation every hashed field's stamp is current -/
theorem voxValidate_stamps (f : VoxFacts) (s : VoxSt) :
    (f.hashedD = true → (voxValidate f s).sd = (voxValidate f s).d) ∧
    (f.hashedV = true → (voxValidate f s).sv = (voxValidate f s).v) ∧
    (voxValidate f s).d = s.d ∧ (voxValidate f s).v = s.v := by
  unfold voxValidate
  split
  · simp
  · rename_i hns
    simp only [Bool.or_eq_true, Bool.and_eq_true, bne_iff_ne, ne_eq, not_or, not_and, Decidable.not_not] at hns
    exact ⟨hns.1, hns.2, rfl, rfl⟩

end Navis.IoMeta

namespace Navis.IoMeta

theorem applyMask_zip {α β} (m : List Bool) (xs : List α) (ys : List β) :
    (applyMask m xs).zip (applyMask m ys) = applyMask m (xs.zip ys) := by
  induction m generalizing xs ys with
  | nil => cases xs <;> cases ys <;> simp [applyMask]
  | cons b m ih =>
    cases xs with
    | nil => cases b <;> simp [applyMask]
    | cons x xs =>
      cases ys with
      | nil => cases b <;> simp [applyMask]
      | cons y ys => cases b <;> simp [applyMask, ih]

theorem applyMask_length_eq {α β} (m : List Bool) (xs : List α) (ys : List β) (hl : xs.length = ys.length) :
    (applyMask m xs).length = (applyMask m ys).length := by
  induction m generalizing xs ys with
  | nil => cases xs <;> cases ys <;> simp [applyMask]
  | cons b m ih =>
    cases xs with
    | nil => cases ys with
      | nil => cases b <;> simp [applyMask]
      | cons y ys => simp at hl
    | cons x xs =>
      cases ys with
      | nil => simp at hl
      | cons y ys =>
        have hl' : xs.length = ys.length := by simpa using hl
        cases b <;> simp [applyMask, ih xs ys hl']

theorem applyMask_map_filter {α} (p : α → Bool) (xs : List α) : applyMask (xs.map p) xs = xs.filter p := by
  induction xs with
  | nil => simp [applyMask]
  | cons x xs ih => cases h : p x <;> simp [applyMask, h, ih]

theorem applyMask_map_snd {α} (t : Nat) (vox : List α) (vals : List Nat) (hl : vox.length = vals.length) :
    applyMask (vals.map fun v => decide (t ≤ v)) (vox.zip vals) = (vox.zip vals).filter fun p => decide (t ≤ p.2) := by
  induction vox generalizing vals with
  | nil => cases vals <;> simp [applyMask]
  | cons x xs ih =>
    cases vals with
    | nil => simp at hl
    | cons v vs =>
      have hl' : xs.length = vs.length := by simpa using hl
      by_cases h : t ≤ v <;> simp [applyMask, h, ih vs hl']

end Navis.IoMeta
