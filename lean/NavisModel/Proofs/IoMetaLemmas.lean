import NavisModel.Model.Codec
import NavisModel.Model.IoMeta
import NavisModel.Model.IoBatch
/-!
Helper lemmas for the metadata / batch-selection part of C14 (core Lean only): Python-dict style association
lists, the NRRD header interpreter, `info` ↔ codec bridge, attribute columns, JSON key filter, file selection.
-/
namespace Navis.IoMeta

/-! ### dictionaries -/

theorem get_set_same (h : Header) (k : String) (v : Val) : get (set h k v) k = some v := by
  induction h with
  | nil => simp [set, get]
  | cons p r ih =>
    obtain ⟨k', v'⟩ := p
    by_cases hk : k' = k
    · simp [set, get, hk]
    · simp [set, get, hk, ih]

theorem get_set_ne (h : Header) (k k' : String) (v : Val) (hne : k' ≠ k) :
    get (set h k v) k' = get h k' := by
  induction h with
  | nil => simp [set, get, Ne.symm hne]
  | cons p r ih =>
    obtain ⟨k1, v1⟩ := p
    by_cases hk : k1 = k
    · subst hk
      simp [set, get, Ne.symm hne]
    · by_cases hk' : k1 = k'
      · subst hk'
        simp [set, get, hk]
      · simp [set, get, hk, hk', ih]

theorem get_update_free (h a : Header) (k : String) (hf : get a k = none) :
    get (update h a) k = get h k := by
  induction a generalizing h with
  | nil => rfl
  | cons p r ih =>
    obtain ⟨k1, v1⟩ := p
    by_cases hk : k1 = k
    · simp [get, hk] at hf
    · simp only [get, hk, if_false] at hf
      rw [update, ih _ hf, get_set_ne _ _ _ _ (Ne.symm hk)]

/-! ### `info` ↔ codec -/

/-- The attribute layout an independent decoder derives from the `info` file (`none` when a dtype is unknown). -/
def specsOfInfo (i : Info) : Option (List Codec.AttrSpec) :=
  (i.vertexAttrs.getD []).mapM fun a => (Codec.Layout.dtypeSize a.dtype).map fun s => ⟨a.id, s, a.comps⟩

theorem transformOf_eq (u : V3R) :
    transformOf u = [u.1, 0, 0, 0, 0, u.2.1, 0, 0, 0, 0, u.2.2, 0] := by
  simp [transformOf, transpose43, mat43, List.range, List.range.loop]

theorem scaleOf_writeInfo (nm : Option V3R) (a : Option (List VAttr)) :
    scaleOf (writeInfo false nm a) = some (nm.getD (1, 1, 1)) ∧ offDiagonalZero (writeInfo false nm a) = true := by
  simp [writeInfo, scaleOf, offDiagonalZero, transformOf_eq]

/-! ### attribute columns -/

theorem column_length (comps i : Nat) (vals : List Nat) : (column comps i vals).length = vals.length / comps := by
  simp [column]

theorem column_getElem? (comps i r : Nat) (vals : List Nat) (hr : r < vals.length / comps) :
    (column comps i vals)[r]? = some (vals.getD (r * comps + i) 0) := by
  simp [column, hr]

/-- Nothing is lost or mixed up: word `p` of the block is row `p / comps` of column `p % comps`. -/
theorem column_lossless (comps p : Nat) (vals : List Nat) (hc : 0 < comps) (hp : p < vals.length)
    (hshape : vals.length % comps = 0) :
    (column comps (p % comps) vals)[p / comps]? = vals[p]? := by
  have hlen : vals.length = vals.length / comps * comps := by
    have := Nat.div_add_mod vals.length comps
    rw [hshape, Nat.add_zero, Nat.mul_comm] at this
    exact this.symm
  have hr : p / comps < vals.length / comps := by
    apply (Nat.div_lt_iff_lt_mul hc).2
    rw [← hlen]; exact hp
  rw [column_getElem? _ _ _ _ hr]
  have : p / comps * comps + p % comps = p := by
    rw [Nat.mul_comm]; exact Nat.div_add_mod p comps
  rw [this]
  simp [List.getD, hp]

/-! ### JSON key filter -/

theorem dget_filter_key {α} (f : String → Bool) (d : List (String × α)) (k : String) :
    dget (d.filter fun p => f p.1) k = if f k then dget d k else none := by
  induction d with
  | nil => simp [dget]
  | cons p r ih =>
    obtain ⟨k1, v1⟩ := p
    by_cases hf : f k1 = true
    · by_cases hk : k1 = k
      · subst hk; simp [List.filter, hf, dget]
      · simp [List.filter, hf, dget, hk, ih]
    · have hf' : f k1 = false := by simpa using hf
      by_cases hk : k1 = k
      · subst hk; simp [List.filter, hf', ih]
      · simp [List.filter, hf', dget, hk, ih]

end Navis.IoMeta

namespace Navis.IoBatch

/-! ### file selection -/

theorem scanAW_sublist (hidden valid : String → Bool) (limit : Option Nat) (i : Nat) (l : List String) :
    (scanAW hidden valid limit i l).Sublist l := by
  induction l generalizing i with
  | nil => simp [scanAW]
  | cons f fs ih =>
    unfold scanAW
    by_cases hh : hidden f = true
    · simp only [hh, if_true]
      exact (ih (i + 1)).cons f
    · simp only [hh]
      have hhere : ∀ (t : List String), t.Sublist fs → ((if valid f = true then [f] else []) ++ t).Sublist (f :: fs) := by
        intro t ht
        by_cases hv : valid f = true
        · simp only [hv, if_true, List.singleton_append]; exact ht.cons_cons f
        · simp only [hv]; exact ht.cons f
      cases limit with
      | none => exact hhere _ (ih (i + 1))
      | some n =>
        by_cases hi : i ≥ n
        · simp only [hi, if_true]
          have := hhere [] (List.nil_sublist fs)
          simpa using this
        · simp only [hi]
          exact hhere _ (ih (i + 1))

theorem scanAW_none (hidden valid : String → Bool) (i : Nat) (l : List String) :
    scanAW hidden valid none i l = l.filter fun f => !hidden f && valid f := by
  induction l generalizing i with
  | nil => simp [scanAW]
  | cons f fs ih =>
    unfold scanAW
    by_cases hh : hidden f = true
    · simp [hh, ih]
    · have hh' : hidden f = false := by simpa using hh
      by_cases hv : valid f = true
      · simp [hh', hv, ih]
      · have hv' : valid f = false := by simpa using hv
        simp [hh', hv', ih]

theorem mem_scanAW_valid (hidden valid : String → Bool) (limit : Option Nat) (i : Nat) (l : List String) (f : String)
    (hf : f ∈ scanAW hidden valid limit i l) : valid f = true ∧ hidden f = false := by
  induction l generalizing i with
  | nil => simp [scanAW] at hf
  | cons g gs ih =>
    unfold scanAW at hf
    by_cases hh : hidden g = true
    · simp only [hh, if_true] at hf
      exact ih _ hf
    · have hh' : hidden g = false := by simpa using hh
      simp only [hh] at hf
      have key : ∀ t, f ∈ (if valid g = true then [g] else []) ++ t → (f ∈ t → valid f = true ∧ hidden f = false) →
          valid f = true ∧ hidden f = false := by
        intro t hm ht
        rw [List.mem_append] at hm
        rcases hm with hm | hm
        · by_cases hv : valid g = true
          · simp only [hv, if_true, List.mem_singleton] at hm
            subst hm; exact ⟨hv, hh'⟩
          · simp [hv] at hm
        · exact ht hm
      cases limit with
      | none => exact key _ hf (ih _)
      | some n =>
        by_cases hi : i ≥ n
        · simp only [hi, if_true] at hf
          exact key [] (by simpa using hf) (by simp)
        · simp only [hi] at hf
          exact key _ hf (ih _)

/-- The off-by-one of the archive scan, exactly: with nothing hidden and every entry valid, an integer `limit = n`
keeps the first `n + 1` entries. -/
theorem scanAW_int_all_valid (hidden valid : String → Bool) (n i : Nat) (l : List String) (hi : i ≤ n)
    (hall : ∀ f ∈ l, hidden f = false ∧ valid f = true) :
    scanAW hidden valid (some n) i l = l.take (n + 1 - i) := by
  induction l generalizing i with
  | nil => simp [scanAW]
  | cons f fs ih =>
    have hf := hall f (by simp)
    unfold scanAW
    simp only [hf.1, hf.2, if_true, Bool.false_eq_true, if_false]
    by_cases hge : i ≥ n
    · have : i = n := Nat.le_antisymm hi hge
      subst this
      simp
    · simp only [hge, if_false]
      have hlt : i < n := Nat.lt_of_not_ge hge
      rw [ih (i + 1) hlt (fun g hg => hall g (by simp [hg]))]
      have : n + 1 - i = (n + 1 - (i + 1)) + 1 := by omega
      rw [this, List.take_succ_cons]
      simp

end Navis.IoBatch
