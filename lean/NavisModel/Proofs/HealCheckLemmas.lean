import NavisModel.Model.HealCheck
import NavisModel.Proofs.HealLemmas
import NavisModel.Proofs.HealMinLemmas
/-!
C11 helper lemmas, second pass, part 1 (core Lean only):
* the kd-tree candidate generation as written (`kdPair`: nearest neighbour per query node, then argmin)
  equals the specification (`best` over ALL node pairs of the two fragments, then the `max_dist` test);
* master selection (`masterIxS`);
* `heal_skeleton(drop_disc=True)` and `drop_fluff`.
-/
namespace Navis.Heal
open Navis.Forest

/-! ### order facts -/

theorem CEdge.le_antisymm {a b : CEdge} (h1 : a.le b) (h2 : b.le a) (hfa : a.fa = b.fa) (hfb : a.fb = b.fb) :
    a = b := by
  unfold CEdge.le CEdge.lt at h1 h2
  simp only [Bool.or_eq_false_iff, decide_eq_false_iff_not, Bool.and_eq_false_iff, beq_eq_false_iff_ne, ne_eq] at h1 h2
  have hd : a.d2 = b.d2 := by omega
  have ha : a.a = b.a := by omega
  have hb : a.b = b.b := by omega
  cases a; cases b; simp_all

/-- `best` is THE minimum when all edges join the same two fragments. -/
theorem best_eq_of_min {l : List CEdge} {m : CEdge} {fa fb : Int} (hf : ∀ e ∈ l, e.fa = fa ∧ e.fb = fb)
    (hm : m ∈ l) (hle : ∀ e ∈ l, m.le e) : best l = some m := by
  cases h : best l with
  | none => rw [best_none h] at hm; simp at hm
  | some m' =>
    have h1 := best_mem h
    have h2 := best_le h
    have := CEdge.le_antisymm (h2 m hm) (hle m' h1) (by rw [(hf _ h1).1, (hf _ hm).1]) (by rw [(hf _ h1).2, (hf _ hm).2])
    rw [this]

/-! ### kd-tree query per node + argmin = minimum over all pairs -/

theorem mem_nnList {ca : Table} {fa fb : Int} {o : Opts} {nb : Node} {e : CEdge} :
    e ∈ (ca.map fun na => (⟨sqDist na nb, na.id, nb.id, fa, fb⟩ : CEdge)).filter (withinMax o) ↔
      (∃ na ∈ ca, e = ⟨sqDist na nb, na.id, nb.id, fa, fb⟩) ∧ withinMax o e = true := by
  simp only [List.mem_filter, List.mem_map]
  constructor
  · rintro ⟨⟨na, ha, rfl⟩, hw⟩; exact ⟨⟨na, ha, rfl⟩, hw⟩
  · rintro ⟨⟨na, ha, rfl⟩, hw⟩; exact ⟨⟨na, ha, rfl⟩, hw⟩

/-- What `kdPair` returns: an admissible pair that is minimal among ALL admissible pairs … -/
theorem kdPair_some {ca cb : Table} {fa fb : Int} {o : Opts} {r : CEdge} (h : kdPair ca cb fa fb o = some r) :
    r ∈ pairEdges ca cb fa fb ∧ withinMax o r = true ∧
      ∀ e ∈ pairEdges ca cb fa fb, withinMax o e = true → r.le e := by
  unfold kdPair at h
  have hr := best_mem h
  have hle := best_le h
  obtain ⟨nb, hnb, hq⟩ := List.mem_filterMap.mp hr
  unfold nnQuery at hq
  obtain ⟨⟨na, hna, rfl⟩, hw⟩ := mem_nnList.mp (best_mem hq)
  refine ⟨mem_pairEdges.mpr ⟨na, hna, nb, hnb, rfl⟩, hw, ?_⟩
  intro e he hwe
  obtain ⟨na', hna', nb', hnb', rfl⟩ := mem_pairEdges.mp he
  have hmem : (⟨sqDist na' nb', na'.id, nb'.id, fa, fb⟩ : CEdge) ∈
      (ca.map fun na => (⟨sqDist na nb', na.id, nb'.id, fa, fb⟩ : CEdge)).filter (withinMax o) :=
    mem_nnList.mpr ⟨⟨na', hna', rfl⟩, hwe⟩
  cases hq' : nnQuery ca fa fb o nb' with
  | none =>
    unfold nnQuery at hq'
    rw [best_none hq'] at hmem
    simp at hmem
  | some r' =>
    have h1 : r' ∈ cb.filterMap (nnQuery ca fa fb o) := List.mem_filterMap.mpr ⟨nb', hnb', hq'⟩
    unfold nnQuery at hq'
    exact CEdge.le_trans (hle r' h1) (best_le hq' _ hmem)

/-- … and `none` exactly when no pair is admissible. -/
theorem kdPair_none {ca cb : Table} {fa fb : Int} {o : Opts} (h : kdPair ca cb fa fb o = none) :
    ∀ e ∈ pairEdges ca cb fa fb, withinMax o e = false := by
  intro e he
  obtain ⟨na', hna', nb', hnb', rfl⟩ := mem_pairEdges.mp he
  cases hwe : withinMax o ⟨sqDist na' nb', na'.id, nb'.id, fa, fb⟩ with
  | false => rfl
  | true =>
    exfalso
    unfold kdPair at h
    have hnil := best_none h
    have hmem : (⟨sqDist na' nb', na'.id, nb'.id, fa, fb⟩ : CEdge) ∈
        (ca.map fun na => (⟨sqDist na nb', na.id, nb'.id, fa, fb⟩ : CEdge)).filter (withinMax o) :=
      mem_nnList.mpr ⟨⟨na', hna', rfl⟩, hwe⟩
    cases hq' : nnQuery ca fa fb o nb' with
    | none =>
      unfold nnQuery at hq'
      rw [best_none hq'] at hmem
      simp at hmem
    | some r' =>
      have h1 : r' ∈ cb.filterMap (nnQuery ca fa fb o) := List.mem_filterMap.mpr ⟨nb', hnb', hq'⟩
      rw [hnil] at h1
      simp at h1

theorem pairEdges_frags {ca cb : Table} {fa fb : Int} : ∀ e ∈ pairEdges ca cb fa fb, e.fa = fa ∧ e.fb = fb := by
  intro e he
  obtain ⟨_, _, _, _, rfl⟩ := mem_pairEdges.mp he
  exact ⟨rfl, rfl⟩

/-- **Refinement.** One nearest-neighbour query per node of `b` followed by `argmin` gives the same pair as the
minimum over all node pairs followed by the `max_dist` test. -/
theorem kdPair_eq (ca cb : Table) (fa fb : Int) (o : Opts) :
    kdPair ca cb fa fb o =
      (match best (pairEdges ca cb fa fb) with
        | none => none
        | some e => if withinMax o e then some e else none) := by
  cases hb : best (pairEdges ca cb fa fb) with
  | none =>
    have hnil := best_none hb
    cases hk : kdPair ca cb fa fb o with
    | none => rfl
    | some r =>
      have := (kdPair_some hk).1
      rw [hnil] at this
      simp at this
  | some m =>
    have hm := best_mem hb
    have hle := best_le hb
    cases hk : kdPair ca cb fa fb o with
    | none =>
      have := kdPair_none hk m hm
      simp [this]
    | some r =>
      obtain ⟨h1, h2, h3⟩ := kdPair_some hk
      have hwm : withinMax o m = true := withinMax_mono (CEdge.le_d2 (hle r h1)) h2
      have hrm : r = m :=
        CEdge.le_antisymm (h3 m hm hwm) (hle r h1)
          (by rw [(pairEdges_frags r h1).1, (pairEdges_frags m hm).1])
          (by rw [(pairEdges_frags r h1).2, (pairEdges_frags m hm).2])
      simp [hwm, hrm]

/-- The quotient graph built the way `_stitch_mst` does it is the specification-style quotient graph. -/
theorem quotientEdgesKD_eq (t : Table) (o : Opts) : quotientEdgesKD t o = quotientEdges t o := by
  unfold quotientEdgesKD quotientEdges
  simp only [kdPair_eq]
  rfl

/-! ### master selection -/

theorem largestIx_spec : ∀ (l : List Skel), l ≠ [] →
    ∃ s, l[largestIx l]? = some s ∧ (∀ x ∈ l, x.nodes.length ≤ s.nodes.length) ∧
      ∀ k x, k < largestIx l → l[k]? = some x → x.nodes.length < s.nodes.length
  | [], h => absurd rfl h
  | s :: rest, _ => by
    by_cases hr : rest = []
    · subst hr
      refine ⟨s, by simp [largestIx], by simp, ?_⟩
      intro k x hk
      simp [largestIx] at hk
    · obtain ⟨r, h1, h2, h3⟩ := largestIx_spec rest hr
      unfold largestIx
      simp only [h1]
      split
      · rename_i hlt
        refine ⟨r, by simpa using h1, ?_, ?_⟩
        · intro x hx
          rcases List.mem_cons.mp hx with rfl | hx
          · omega
          · exact h2 x hx
        · intro k x hk hx
          cases k with
          | zero => simp at hx; subst hx; exact hlt
          | succ k => exact h3 k x (by omega) (by simpa using hx)
      · rename_i hge
        refine ⟨s, by simp, ?_, ?_⟩
        · intro x hx
          rcases List.mem_cons.mp hx with rfl | hx
          · exact Nat.le_refl _
          · have := h2 x hx; omega
        · intro k x hk; omega

theorem firstTrue_some : ∀ {bs : List Bool} {i : Nat}, firstTrue bs = some i →
    bs[i]? = some true ∧ ∀ k, k < i → bs[k]? = some false
  | [], _, h => by simp [firstTrue] at h
  | b :: rest, i, h => by
    unfold firstTrue at h
    cases b with
    | true =>
      simp at h; subst h
      exact ⟨by simp, by intro k hk; omega⟩
    | false =>
      simp only [Bool.false_eq_true, if_false, Option.map_eq_some_iff] at h
      obtain ⟨j, hj, rfl⟩ := h
      obtain ⟨h1, h2⟩ := firstTrue_some hj
      refine ⟨by simpa using h1, ?_⟩
      intro k hk
      cases k with
      | zero => simp
      | succ k => simpa using h2 k (by omega)

theorem firstTrue_none : ∀ {bs : List Bool}, firstTrue bs = none → ∀ b ∈ bs, b = false
  | [], _ => by simp
  | b :: rest, h => by
    unfold firstTrue at h
    cases b with
    | true => simp at h
    | false =>
      simp only [Bool.false_eq_true, if_false, Option.map_eq_none_iff] at h
      intro x hx
      rcases List.mem_cons.mp hx with rfl | hx
      · rfl
      · exact firstTrue_none h x hx

/-! ### `heal_skeleton(drop_disc=True)` -/

theorem sortBySize_sorted (l : List (List Int)) : (sortBySize l).Pairwise fun a b => b.length ≤ a.length := by
  unfold sortBySize
  apply sortBy_pairwise'
  · intro a b c h1 h2; omega
  · intro y x h; simpa using h
  · intro y x h
    have : ¬ x.length ≤ y.length := by simpa using h
    omega

theorem sortBySize_perm (l : List (List Int)) : (sortBySize l).Perm l := sortBy_perm' _ l

/-- The head of the size-sorted component list is a largest component. -/
theorem sortBySize_head {l : List (List Int)} {f : List Int} {rest : List (List Int)}
    (h : sortBySize l = f :: rest) : f ∈ l ∧ ∀ g ∈ l, g.length ≤ f.length := by
  have hp := sortBySize_perm l
  have hs := sortBySize_sorted l
  rw [h] at hp hs
  refine ⟨hp.mem_iff.mp List.mem_cons_self, ?_⟩
  intro g hg
  rcases List.mem_cons.mp (hp.mem_iff.mpr hg) with rfl | hg'
  · exact Nat.le_refl _
  · exact (List.pairwise_cons.mp hs).1 g hg'

theorem healDrop_spec {t : Table} (hw : WF t) (o : Opts) :
    WF (healDrop t o) ∧ (roots (healDrop t o)).length ≤ 1 ∧
    ((roots (heal t o)).length ≤ 1 → healDrop t o = heal t o) ∧
    (1 < (roots (heal t o)).length → ∃ r ∈ roots (heal t o),
      healDrop t o = subsetIds (heal t o) (fragment (heal t o) r) ∧
      ∀ r' ∈ roots (heal t o), (fragment (heal t o) r').length ≤ (fragment (heal t o) r).length) := by
  have hwh : WF (heal t o) := (heal_spec hw o).1
  unfold healDrop
  simp only
  split
  · rename_i hle
    exact ⟨hwh, hle, fun _ => rfl, fun h => by omega⟩
  · rename_i hgt
    split
    · rename_i hnil
      exfalso
      have hp := sortBySize_perm (fragments (heal t o))
      rw [hnil] at hp
      have := hp.length_eq
      unfold fragments at this
      simp at this
      omega
    · rename_i f rest hcons
      obtain ⟨hf, hmax⟩ := sortBySize_head hcons
      obtain ⟨r, hr, rfl⟩ := mem_fragments.mp hf
      have hroots := roots_piece hwh hr
      have hwp : WF (subsetIds (heal t o) (fragment (heal t o) r)) := WF_subset hwh _
      refine ⟨hwp, ?_, fun h => by omega, fun _ => ⟨r, hr, rfl, ?_⟩⟩
      · have hne : roots (subsetIds (heal t o) (fragment (heal t o) r)) ≠ [] := by
          intro h
          have := (hroots r).mpr rfl
          rw [h] at this
          simp at this
        have := length_eq_one_of_all_eq (roots_nodup hwp.1) hne
          (fun a ha b hb => by rw [(hroots a).mp ha, (hroots b).mp hb])
        omega
      · intro r' hr'
        exact hmax _ (mem_fragments.mpr ⟨r', hr', rfl⟩)

/-! ### `drop_fluff` -/

theorem filter_const_true {α} (l : List α) : l.filter (fun _ => true) = l := by
  induction l with
  | nil => rfl
  | cons x xs ih => simp [List.filter, ih]

/-- The components `drop_fluff` keeps. -/
def fluffSel (t : Table) (keep : Option (Nat × Nat)) (nLargest : Option Nat) : List (List Int) :=
  let cc := sortBySize (fragments t)
  match keep, nLargest with
  | some k, none => cc.filter fun c => decide (k.1 ≤ c.length * k.2)
  | some k, some n => (cc.filter fun c => decide (k.1 ≤ c.length * k.2)).take n
  | none, some n => cc.take n
  | none, none => cc.take 1

theorem dropFluff_eq (t : Table) (keep : Option (Nat × Nat)) (nl : Option Nat) :
    dropFluff t keep nl = subsetIds t (fluffSel t keep nl).flatten := by
  unfold dropFluff fluffSel
  cases keep <;> cases nl <;> rfl

/-- What is kept is a list of WHOLE components, each meeting `keep_size`, a prefix of the eligible components
ordered by decreasing size (so no dropped eligible component is larger than a kept one), at most `n_largest`
of them (exactly one by default). -/
theorem fluffSel_spec (t : Table) (keep : Option (Nat × Nat)) (nl : Option Nat) :
    (∀ f ∈ fluffSel t keep nl, f ∈ fragments t) ∧
    (∀ k, keep = some k → ∀ f ∈ fluffSel t keep nl, k.1 ≤ f.length * k.2) ∧
    (∃ n, fluffSel t keep nl =
      ((sortBySize (fragments t)).filter fun c => match keep with
        | some k => decide (k.1 ≤ c.length * k.2) | none => true).take n ∧
      (nl = none → keep = none → n = 1) ∧ (∀ m, nl = some m → n = m)) ∧
    (sortBySize (fragments t)).Pairwise (fun a b => b.length ≤ a.length) := by
  refine ⟨?_, ?_, ?_, sortBySize_sorted _⟩
  · intro f hf
    unfold fluffSel at hf
    cases keep <;> cases nl <;> simp only at hf
    · exact mem_sortBySize.mp (List.mem_of_mem_take hf)
    · exact mem_sortBySize.mp (List.mem_of_mem_take hf)
    · exact mem_sortBySize.mp (List.mem_filter.mp hf).1
    · exact mem_sortBySize.mp (List.mem_filter.mp (List.mem_of_mem_take hf)).1
  · intro k hk f hf
    subst hk
    unfold fluffSel at hf
    cases nl <;> simp only at hf
    · simpa using (List.mem_filter.mp hf).2
    · simpa using (List.mem_filter.mp (List.mem_of_mem_take hf)).2
  · unfold fluffSel
    cases keep <;> cases nl <;> simp only
    · exact ⟨1, by rw [filter_const_true], fun _ _ => rfl, by simp⟩
    · rename_i m; exact ⟨m, by rw [filter_const_true], by simp, by simp⟩
    · rename_i k
      refine ⟨((sortBySize (fragments t)).filter fun c => decide (k.1 ≤ c.length * k.2)).length, by simp, by simp, by simp⟩
    · rename_i k m; exact ⟨m, rfl, by simp, by simp⟩

/-! ### `combine_neurons` on meshes -/

theorem mem_concatFaces : ∀ (meshes : List (Nat × List (Nat × Nat × Nat))) (off k : Nat) (m : Nat × List (Nat × Nat × Nat)),
    meshes[k]? = some m → ∀ f ∈ m.2,
      (f.1 + (off + ((meshes.take k).map (·.1)).sum), f.2.1 + (off + ((meshes.take k).map (·.1)).sum),
        f.2.2 + (off + ((meshes.take k).map (·.1)).sum)) ∈ concatFaces off meshes
  | [], _, _, _, h => by simp at h
  | m0 :: rest, off, 0, m, h => by
    simp at h; subst h
    intro f hf
    unfold concatFaces
    simp only [List.take_zero, List.map_nil, List.sum_nil, Nat.add_zero]
    exact List.mem_append_left _ (List.mem_map.mpr ⟨f, hf, rfl⟩)
  | m0 :: rest, off, k + 1, m, h => by
    intro f hf
    unfold concatFaces
    have := mem_concatFaces rest (off + m0.1) k m (by simpa using h) f hf
    simp only [List.take_succ_cons, List.map_cons, List.sum_cons]
    have e : off + (m0.1 + ((rest.take k).map (·.1)).sum) = off + m0.1 + ((rest.take k).map (·.1)).sum := by omega
    rw [e]
    exact List.mem_append_right _ this

theorem length_concatFaces : ∀ (meshes : List (Nat × List (Nat × Nat × Nat))) (off : Nat),
    (concatFaces off meshes).length = (meshes.map (·.2.length)).sum
  | [], _ => by simp [concatFaces]
  | m :: rest, off => by
    unfold concatFaces
    simp [length_concatFaces rest]

end Navis.Heal
