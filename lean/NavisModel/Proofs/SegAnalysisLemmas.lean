import NavisModel.Model.SegAnalysis
import NavisModel.Proofs.FlowLemmas
/-! Helper lemmas for the `segment_analysis` model: its rows correspond one-to-one to the small segments, the
lengths add up to the cable length, the Strahler index is constant on the non-last nodes of a segment,
`dist_to_root(first) = length + root_dist`, the volumes add up to the total over all non-root nodes. -/
namespace Navis.Flow
open Navis.Forest

theorem segRow_some {t : Table} (rad : Int → Option Int) {s : List Int} (hs : s ≠ []) :
    ∃ r, segRow t rad s = some r ∧ r.length = arcLen t s ∧ r.chordSq = chordSq t s ∧ r.nodes = s.length ∧
      some r.first = s.head? ∧ some r.last = s.getLast? ∧
      r.volume3 = nanSum (s.dropLast.map (frustum3 t rad)) := by
  cases s with
  | nil => exact absurd rfl hs
  | cons a rest =>
    have hl : ∃ b, (a :: rest).getLast? = some b := ⟨(a :: rest).getLast (by simp), List.getLast?_eq_some_getLast (by simp)⟩
    obtain ⟨b, hb⟩ := hl
    unfold segRow
    simp only [List.head?_cons, hb]
    exact ⟨_, rfl, rfl, rfl, rfl, rfl, rfl, rfl⟩

theorem smallSegment_ne_nil {t : Table} {s : List Int} (h : s ∈ smallSegments t) : s ≠ [] := by
  rw [smallSegments_eq] at h
  obtain ⟨n, _, rfl⟩ := List.mem_map.mp h
  unfold segOf; simp

/-- One row per small segment, in the same order. -/
theorem segAnalysis_map {t : Table} (rad : Int → Option Int) (f : SegRow → Nat) (g : List Int → Nat)
    (h : ∀ s r, segRow t rad s = some r → f r = g s) :
    ∀ segs : List (List Int), (∀ s ∈ segs, s ≠ []) →
      (segs.filterMap (segRow t rad)).map f = segs.map g := by
  intro segs
  induction segs with
  | nil => intro _; rfl
  | cons s segs ih =>
    intro hne
    obtain ⟨r, hr, _⟩ := segRow_some (t := t) rad (hne s List.mem_cons_self)
    rw [List.filterMap_cons, hr]
    simp only [List.map_cons]
    rw [h s r hr, ih (fun s' hs' => hne s' (List.mem_cons_of_mem _ hs'))]

theorem segAnalysis_lengths {t : Table} (rad : Int → Option Int) :
    (segAnalysis t rad).map (·.length) = (smallSegments t).map (pathLen (coordLen t)) := by
  unfold segAnalysis
  apply segAnalysis_map rad (·.length) (pathLen (coordLen t))
  · intro s r hr
    have hs : s ≠ [] := by
      intro e; rw [e] at hr; simp [segRow] at hr
    obtain ⟨r', hr', hl, _⟩ := segRow_some (t := t) rad hs
    rw [hr] at hr'; obtain rfl := Option.some.inj hr'
    exact hl
  · exact fun s hs => smallSegment_ne_nil hs

/-- **Per-segment lengths sum to the cable length.** -/
theorem segAnalysis_lengths_sum {t : Table} (hw : WF t) (rad : Int → Option Int) :
    ((segAnalysis t rad).map (·.length)).sum = cable t (coordLen t) := by
  rw [segAnalysis_lengths]
  apply sum_pathLen_eq_cable hw.1 _ _ _ (smallSegments_cover hw)
  intro s hs
  have := smallSegments_shape hw s hs
  simp only [Bool.and_eq_true] at this
  exact this.1.1.1.1

/-! ### Strahler index along a segment -/

theorem children_eq_singleton {t : Table} {a b : Int} (hc : childCount t b = 1) (ha : a ∈ children t b) :
    children t b = [a] := by
  have hl := children_length t b
  rw [hc] at hl
  match h : children t b, hl with
  | [c], _ =>
    rw [h] at ha
    rw [List.mem_singleton.mp ha]

theorem strahler_chain {t : Table} (hw : WF t) (g : Bool) : ∀ (mid : List Int) (a : Int), Linked t (a :: mid) →
    (∀ x ∈ mid, childCount t x = 1) → ∀ x ∈ mid, strahler t g [] x = strahler t g [] a := by
  intro mid
  induction mid with
  | nil => intro a _ _ x hx; simp at hx
  | cons b rest ih =>
    intro a hl hc x hx
    obtain ⟨⟨na, hfa, hpa, hb0⟩, hl'⟩ := hl
    have hna := find?_some hfa
    have hab : a ∈ children t b := mem_children.mpr ⟨na, hna.1, hpa, hna.2⟩
    have hch := children_eq_singleton (hc b List.mem_cons_self) hab
    have hbi : b ∈ ids t := by
      have hnp : ¬ na.parent < 0 := by omega
      have := WF_parent_mem hw hna.1 hnp
      rwa [hpa] at this
    have eb : strahler t g [] b = strahler t g [] a := by
      rw [strahler_nil, strahler_nil, strahlerRaw_rec_nil hw g hbi, hch]
      rfl
    rcases List.mem_cons.mp hx with e | e
    · rw [e]; exact eb
    · rw [ih b hl' (fun y hy => hc y (List.mem_cons_of_mem _ hy)) x e, eb]

/-- **The Strahler index is constant on the non-last nodes of a small segment** (so "the Strahler index of
the segment" — the code reads it off the first node — is well defined; the last node is a branch point or
root and may carry a higher index). -/
theorem strahler_const_on_segment {t : Table} (hw : WF t) (g : Bool) {s : List Int} (hs : s ∈ smallSegments t) :
    ∀ a, s.head? = some a → ∀ x ∈ s.dropLast, strahler t g [] x = strahler t g [] a := by
  rw [smallSegments_eq] at hs
  obtain ⟨n, hn, rfl⟩ := List.mem_map.mp hs
  obtain ⟨h1, h2, _⟩ := mem_seeds.mp hn
  obtain ⟨mid, last, e, hseg⟩ := segOf_spec hw h1 h2
  intro a ha x hx
  rw [e] at ha hx
  simp only [List.cons_append, List.head?_cons, Option.some.injEq] at ha
  subst ha
  rw [SmallSeg.dropLast_eq] at hx
  rcases List.mem_cons.mp hx with rfl | hx
  · rfl
  · have hl : Linked t (n.id :: mid) := by
      have := hseg.linked
      have e' : n.id :: mid ++ [last] = (n.id :: mid) ++ [last] := rfl
      rw [e'] at this
      exact Linked_prefix _ _ this
    exact strahler_chain hw g mid n.id hl (fun y hy => (hseg.mid_slab y hy).1) x hx

/-! ### root distances -/

/-- `dist_to_root` of the first node = segment length + `root_dist` (of the last node). -/
theorem rootDist_first {t : Table} (hw : WF t) (len : Int → Int → Nat) {s : List Int} (hs : s ∈ smallSegments t) :
    ∀ a b, s.head? = some a → s.getLast? = some b →
      distToRoot t len a = pathLen len s + distToRoot t len b := by
  rw [smallSegments_eq] at hs
  obtain ⟨n, hn, rfl⟩ := List.mem_map.mp hs
  obtain ⟨h1, h2, _⟩ := mem_seeds.mp hn
  obtain ⟨mid, last, e, hseg⟩ := segOf_spec hw h1 h2
  intro a b ha hb
  rw [e] at ha hb ⊢
  simp only [List.cons_append, List.head?_cons, Option.some.injEq] at ha
  subst ha
  have hb' : (n.id :: mid ++ [last]).getLast? = some last := List.getLast?_concat
  rw [hb'] at hb
  obtain rfl := Option.some.inj hb
  obtain ⟨rest, hr⟩ := rootPath_cons hseg.hlast
  unfold distToRoot
  rw [hseg.path, hr, pathLen_append]

/-! ### volumes -/

theorem nanSum_append (a b : List (Option Int)) : nanSum (a ++ b) = nanSum a + nanSum b := by
  unfold nanSum
  rw [List.filterMap_append, List.sum_append]

theorem nanSum_flatMap (segs : List (List Int)) (f : Int → Option Int) :
    nanSum ((segs.flatMap fun s => s.dropLast).map f) = (segs.map fun s => nanSum (s.dropLast.map f)).sum := by
  induction segs with
  | nil => rfl
  | cons s segs ih =>
    rw [List.flatMap_cons, List.map_append, nanSum_append, ih]
    simp

theorem sum_perm_int {a b : List Int} (h : a.Perm b) : a.sum = b.sum := by
  induction h with
  | nil => rfl
  | cons x _ ih => simp [ih]
  | swap x y l => simp only [List.sum_cons]; omega
  | trans _ _ ih1 ih2 => rw [ih1, ih2]

theorem nanSum_perm {a b : List (Option Int)} (h : a.Perm b) : nanSum a = nanSum b :=
  sum_perm_int (h.filterMap id)

/-- **Per-segment volumes sum to the total over all node→parent cylinders.** -/
theorem segAnalysis_volumes_sum {t : Table} (hw : WF t) (rad : Int → Option Int) :
    ((segAnalysis t rad).map (·.volume3)).sum = totalVolume3 t rad := by
  have e : (segAnalysis t rad).map (·.volume3) =
      (smallSegments t).map fun s => nanSum (s.dropLast.map (frustum3 t rad)) := by
    unfold segAnalysis
    have key : ∀ segs : List (List Int), (∀ s ∈ segs, s ≠ []) →
        (segs.filterMap (segRow t rad)).map (·.volume3) = segs.map fun s => nanSum (s.dropLast.map (frustum3 t rad)) := by
      intro segs
      induction segs with
      | nil => intro _; rfl
      | cons s segs ih =>
        intro hne
        obtain ⟨r, hr, _, _, _, _, _, hv⟩ := segRow_some (t := t) rad (hne s List.mem_cons_self)
        rw [List.filterMap_cons, hr]
        simp only [List.map_cons]
        rw [hv, ih (fun s' hs' => hne s' (List.mem_cons_of_mem _ hs'))]
    exact key _ (fun s hs => smallSegment_ne_nil hs)
  rw [e, ← nanSum_flatMap]
  unfold totalVolume3
  apply nanSum_perm
  apply List.Perm.map
  have hfil : ((smallSegments t).filter fun s => s.length > 1) = smallSegments t := by
    rw [List.filter_eq_self]
    intro s hs
    have := smallSegments_shape hw s hs
    simp only [Bool.and_eq_true] at this
    exact this.1.1.1.2
  have := smallSegments_cover hw
  rwa [hfil] at this

end Navis.Flow
