import NavisModel.Model.Heal
import NavisModel.Proofs.OpsWF
/-!
C11 helper lemmas, part 5 (core Lean only): the id-clash remap of `stitch_skeletons`.
-/
namespace Navis.Heal
open Navis.Forest

/-! ### `dict(zip(clash, arange + base))` -/

theorem lookup_zipIdx (l : List Int) (n : Nat) (base i d : Int) :
    lookupD ((l.zipIdx n).map fun ck => (ck.1, base + (ck.2 : Int))) i d =
      if i ∈ l then base + ((l.idxOf i + n : Nat) : Int) else d := by
  induction l generalizing n with
  | nil => simp [lookupD]
  | cons x xs ih =>
    rw [List.zipIdx_cons, List.map_cons]
    unfold lookupD
    rw [List.find?_cons]
    by_cases hx : x = i
    · subst hx
      simp
    · have hb : (x == i) = false := by simpa using hx
      simp only [hb]
      have := ih (n + 1)
      unfold lookupD at this
      rw [this]
      have hne : ¬ i = x := fun h => hx h.symm
      simp only [List.mem_cons, hne, false_or]
      split
      · rw [List.idxOf_cons, hb]; simp only [cond_false]
        congr 1; omega
      · rfl

/-- The clashing ids of one skeleton. -/
def clashOf (seen this : List Int) : List Int := this.filter fun i => seen.contains i

def baseOf (seen this : List Int) : Int := maxOf (seen ++ this) + 1

/-- Closed form of the id map. -/
theorem remapId_clashMap (seen this : List Int) (i : Int) :
    remapId (clashMap seen this) i =
      if i ∈ clashOf seen this then baseOf seen this + ((clashOf seen this).idxOf i : Nat) else i := by
  unfold remapId clashMap
  have := lookup_zipIdx (clashOf seen this) 0 (baseOf seen this) i i
  simp only [Nat.add_zero] at this
  exact this

theorem mem_clashOf {seen this : List Int} {i : Int} : i ∈ clashOf seen this ↔ i ∈ this ∧ i ∈ seen := by
  unfold clashOf; simp [List.mem_filter]

theorem le_maxOf {l : List Int} {i : Int} (h : i ∈ l) : i ≤ maxOf l := (foldl_max_spec l 0).2 i h

theorem maxOf_nonneg (l : List Int) : 0 ≤ maxOf l := (foldl_max_spec l 0).1

theorem lt_baseOf_left {seen this : List Int} {i : Int} (h : i ∈ seen) : i < baseOf seen this := by
  unfold baseOf
  have := le_maxOf (List.mem_append_left this h)
  omega

theorem lt_baseOf_right {seen this : List Int} {i : Int} (h : i ∈ this) : i < baseOf seen this := by
  unfold baseOf
  have := le_maxOf (List.mem_append_right seen h)
  omega

theorem baseOf_pos (seen this : List Int) : 0 < baseOf seen this := by
  unfold baseOf
  have := maxOf_nonneg (seen ++ this)
  omega

/-- Values of the map, as a list. -/
theorem clashMap_vals (seen this : List Int) :
    (clashMap seen this).map (·.2) =
      (List.range (clashOf seen this).length).map fun (k : Nat) => baseOf seen this + (k : Int) := by
  unfold clashMap
  show ((clashOf seen this).zipIdx.map fun ck => (ck.1, baseOf seen this + (ck.2 : Int))).map (·.2) = _
  rw [List.map_map]
  have : ((fun (x : Int × Int) => x.2) ∘ fun (ck : Int × Nat) => (ck.1, baseOf seen this + (ck.2 : Int))) =
      (fun k : Nat => baseOf seen this + (k : Int)) ∘ Prod.snd := rfl
  rw [this, ← List.map_map, List.zipIdx_map_snd, List.range_eq_range']

/-! ### one step of the loop -/

structure StepOK (seen this : List Int) (f : Int → Int) (seen1 : List Int) : Prop where
  inj : ∀ a ∈ this, ∀ b ∈ this, f a = f b → a = b
  fresh : ∀ a ∈ this, f a ∉ seen
  claimed : ∀ a ∈ this, f a ∈ seen1
  mono : ∀ a ∈ seen, a ∈ seen1
  neg : ∀ a, a < 0 → f a = a
  nonneg : ∀ a, 0 ≤ a → 0 ≤ f a
  keep : ∀ a ∈ this, a ∉ seen → f a = a

theorem stepOK (seen this : List Int) (hnd : this.Nodup) (hpos : ∀ a ∈ this, 0 ≤ a) :
    StepOK seen this (remapId (clashMap seen this))
      (seen ++ this ++ (clashMap seen this).map (·.2)) := by
  have hcnd : (clashOf seen this).Nodup := hnd.filter _
  refine ⟨?_, ?_, ?_, ?_, ?_, ?_, ?_⟩
  · intro a ha b hb hab
    rw [remapId_clashMap, remapId_clashMap] at hab
    by_cases h1 : a ∈ clashOf seen this <;> by_cases h2 : b ∈ clashOf seen this
    · rw [if_pos h1, if_pos h2] at hab
      have : (clashOf seen this).idxOf a = (clashOf seen this).idxOf b := by omega
      have e1 := List.getElem_idxOf (List.idxOf_lt_length_of_mem h1)
      have e2 := List.getElem_idxOf (List.idxOf_lt_length_of_mem h2)
      rw [← e1, ← e2]
      simp only [this]
    · rw [if_pos h1, if_neg h2] at hab
      have := lt_baseOf_right (seen := seen) hb
      omega
    · rw [if_neg h1, if_pos h2] at hab
      have := lt_baseOf_right (seen := seen) ha
      omega
    · rw [if_neg h1, if_neg h2] at hab; exact hab
  · intro a ha hs
    rw [remapId_clashMap] at hs
    by_cases h1 : a ∈ clashOf seen this
    · rw [if_pos h1] at hs
      have := lt_baseOf_left (this := this) hs
      omega
    · rw [if_neg h1] at hs
      exact h1 (mem_clashOf.mpr ⟨ha, hs⟩)
  · intro a ha
    rw [remapId_clashMap]
    by_cases h1 : a ∈ clashOf seen this
    · rw [if_pos h1]
      apply List.mem_append_right
      rw [clashMap_vals]
      exact List.mem_map.mpr ⟨_, List.mem_range.mpr (List.idxOf_lt_length_of_mem h1), rfl⟩
    · rw [if_neg h1]
      exact List.mem_append_left _ (List.mem_append_right _ ha)
  · intro a ha
    exact List.mem_append_left _ (List.mem_append_left _ ha)
  · intro a ha
    rw [remapId_clashMap, if_neg]
    intro h
    have := hpos a (mem_clashOf.mp h).1
    omega
  · intro a ha
    rw [remapId_clashMap]
    split
    · have := baseOf_pos seen this
      omega
    · exact ha
  · intro a ha hs
    rw [remapId_clashMap, if_neg]
    intro h
    exact hs (mem_clashOf.mp h).2

/-! ### remapped skeletons -/

@[simp] theorem remapId_nil (i : Int) : remapId [] i = i := by simp [remapId, lookupD]

theorem remapNode_nil (n : Node) : remapNode [] n = n := by
  cases n; simp [remapNode]

theorem remapSkel_nil (s : Skel) : remapSkel [] s = s := by
  cases s with
  | mk nodes conns tags =>
    have h1 : nodes.map (remapNode []) = nodes := by
      rw [List.map_congr_left (fun n _ => remapNode_nil n)]; simp
    have h2 : conns.map (fun c => (c.1, remapId [] c.2)) = conns := by
      rw [List.map_congr_left (g := id) (fun c _ => by simp)]; simp
    have h3 : tags.map (fun tg => (tg.1, tg.2.map (remapId []))) = tags := by
      rw [List.map_congr_left (g := id) (fun tg _ => by
        have : tg.2.map (remapId []) = tg.2 := by
          rw [List.map_congr_left (g := id) (fun i _ => by simp)]; simp
        rw [this]; rfl)]
      simp
    show (⟨nodes.map (remapNode []), conns.map (fun c => (c.1, remapId [] c.2)),
      tags.map (fun tg => (tg.1, tg.2.map (remapId [])))⟩ : Skel) = ⟨nodes, conns, tags⟩
    rw [h1, h2, h3]

theorem ids_remapSkel (m : List (Int × Int)) (s : Skel) :
    ids (remapSkel m s).nodes = (ids s.nodes).map (remapId m) := by
  simp [remapSkel, remapNode, ids, List.map_map, Function.comp_def]

theorem coords_remapSkel (m : List (Int × Int)) (s : Skel) :
    (remapSkel m s).nodes.map (fun n => (n.x, n.y, n.z)) = s.nodes.map (fun n => (n.x, n.y, n.z)) := by
  simp [remapSkel, remapNode, List.map_map, Function.comp_def]

/-- Skeletons whose ids are unique and non-negative. -/
def SkelOK (s : Skel) : Prop := (ids s.nodes).Nodup ∧ ∀ a ∈ ids s.nodes, 0 ≤ a

theorem nodup_map_of_inj {l : List Int} (hnd : l.Nodup) {f : Int → Int}
    (hinj : ∀ a ∈ l, ∀ b ∈ l, f a = f b → a = b) : (l.map f).Nodup := by
  induction l with
  | nil => simp
  | cons x xs ih =>
    rw [List.nodup_cons] at hnd
    rw [List.map_cons, List.nodup_cons]
    refine ⟨?_, ih hnd.2 fun a ha b hb => hinj a (List.mem_cons_of_mem _ ha) b (List.mem_cons_of_mem _ hb)⟩
    intro hm
    obtain ⟨y, hy, hxy⟩ := List.mem_map.mp hm
    have := hinj y (List.mem_cons_of_mem _ hy) x List.mem_cons_self hxy
    exact hnd.1 (this ▸ hy)

/-- The master skeleton still ahead in the list (if any). -/
def ahead (mIx i : Nat) (rest : List Skel) : Option Skel := if i ≤ mIx then rest[mIx - i]? else none

def Disj (a b : List Int) : Prop := ∀ x ∈ a, x ∉ b

/-- Main invariant of the remap loop. -/
theorem stitchGo_inv (mIx : Nat) (rest : List Skel) : ∀ (i : Nat) (seen : List Int),
    (∀ s ∈ rest, SkelOK s) → (∀ m, ahead mIx i rest = some m → ∀ a ∈ ids m.nodes, a ∈ seen) →
    (stitchGo mIx i seen rest).Pairwise (fun a b => Disj (ids a.nodes) (ids b.nodes)) ∧
    (∀ x ∈ stitchGo mIx i seen rest, (ids x.nodes).Nodup) ∧
    ∀ S : List Int, (∀ a ∈ S, a ∈ seen) → (∀ m, ahead mIx i rest = some m → Disj S (ids m.nodes)) →
      ∀ x ∈ stitchGo mIx i seen rest, Disj S (ids x.nodes) := by
  induction rest with
  | nil => intro i seen _ _; simp [stitchGo]
  | cons s rest ih =>
    intro i seen hok hM
    have hs := hok s List.mem_cons_self
    have hrest : ∀ x ∈ rest, SkelOK x := fun x hx => hok x (List.mem_cons_of_mem _ hx)
    unfold stitchGo
    by_cases hi : i = mIx
    · -- the master: untouched, its ids are already claimed
      rw [if_pos hi]
      have hahead : ahead mIx i (s :: rest) = some s := by simp [ahead, hi]
      have hnone : ahead mIx (i + 1) rest = none := by unfold ahead; rw [if_neg (by omega)]
      obtain ⟨p1, p2, p3⟩ := ih (i + 1) seen hrest (by intro m hm; rw [hnone] at hm; simp at hm)
      refine ⟨List.pairwise_cons.mpr ⟨?_, p1⟩, ?_, ?_⟩
      · intro x hx
        exact p3 (ids s.nodes) (hM s hahead) (by intro m hm; rw [hnone] at hm; simp at hm) x hx
      · intro x hx
        rcases List.mem_cons.mp hx with rfl | hx
        · exact hs.1
        · exact p2 x hx
      · intro S hS hSM x hx
        rcases List.mem_cons.mp hx with rfl | hx
        · exact hSM _ hahead
        · exact p3 S hS (by intro m hm; rw [hnone] at hm; simp at hm) x hx
    · rw [if_neg hi]
      have hst := stepOK seen (ids s.nodes) hs.1 hs.2
      have hahead : ∀ m, ahead mIx (i + 1) rest = some m → ahead mIx i (s :: rest) = some m := by
        intro m hm
        unfold ahead at hm ⊢
        split at hm
        · rename_i hle
          rw [if_pos (by omega)]
          have : mIx - i = (mIx - (i + 1)) + 1 := by omega
          rw [this, List.getElem?_cons_succ]; exact hm
        · simp at hm
      have hN : ids (stitchOne seen s).2.nodes = (ids s.nodes).map (remapId (clashMap seen (ids s.nodes))) := by
        unfold stitchOne; exact ids_remapSkel _ _
      have hM' : ∀ m, ahead mIx (i + 1) rest = some m → ∀ a ∈ ids m.nodes, a ∈ (stitchOne seen s).1 := by
        intro m hm a ha
        exact hst.mono a (hM m (hahead m hm) a ha)
      obtain ⟨p1, p2, p3⟩ := ih (i + 1) (stitchOne seen s).1 hrest hM'
      refine ⟨List.pairwise_cons.mpr ⟨?_, p1⟩, ?_, ?_⟩
      · intro x hx
        apply p3 _ _ _ x hx
        · intro a ha
          rw [hN] at ha
          obtain ⟨b, hb, rfl⟩ := List.mem_map.mp ha
          exact hst.claimed b hb
        · intro m hm a ha hma
          rw [hN] at ha
          obtain ⟨b, hb, rfl⟩ := List.mem_map.mp ha
          exact hst.fresh b hb (hM m (hahead m hm) _ hma)
      · intro x hx
        rcases List.mem_cons.mp hx with rfl | hx
        · rw [hN]; exact nodup_map_of_inj hs.1 hst.inj
        · exact p2 x hx
      · intro S hS hSM x hx
        rcases List.mem_cons.mp hx with rfl | hx
        · intro a ha hax
          rw [hN] at hax
          obtain ⟨b, hb, rfl⟩ := List.mem_map.mp hax
          exact hst.fresh b hb (hS _ ha)
        · exact p3 S (fun a ha => hst.mono a (hS a ha)) (fun m hm => hSM m (hahead m hm)) x hx

theorem nodup_flatMap_ids {l : List Skel} (h1 : l.Pairwise (fun a b => Disj (ids a.nodes) (ids b.nodes)))
    (h2 : ∀ x ∈ l, (ids x.nodes).Nodup) : (ids (l.flatMap (·.nodes))).Nodup := by
  induction l with
  | nil => simp [ids]
  | cons x xs ih =>
    rw [List.pairwise_cons] at h1
    rw [List.flatMap_cons]
    have : ids (x.nodes ++ xs.flatMap (·.nodes)) = ids x.nodes ++ ids (xs.flatMap (·.nodes)) := by simp [ids]
    rw [this]
    refine List.nodup_append.mpr ⟨h2 x List.mem_cons_self, ih h1.2 fun y hy => h2 y (List.mem_cons_of_mem _ hy), ?_⟩
    intro a ha b hb hab
    subst hab
    unfold ids at hb
    rw [List.map_flatMap, List.mem_flatMap] at hb
    obtain ⟨y, hy, hay⟩ := hb
    exact h1.1 y hy a ha hay

/-- After the remap all node ids are distinct. -/
theorem stitchRemap_nodup (mIx : Nat) (l : List Skel) (hok : ∀ s ∈ l, SkelOK s) :
    (ids ((stitchRemap mIx l).flatMap (·.nodes))).Nodup := by
  unfold stitchRemap
  have hM : ∀ m, ahead mIx 0 l = some m →
      ∀ a ∈ ids m.nodes, a ∈ (match l[mIx]? with | some m => ids m.nodes | none => []) := by
    intro m hm a ha
    simp only [ahead, Nat.zero_le, if_true, Nat.sub_zero] at hm
    rw [hm]; exact ha
  obtain ⟨p1, p2, _⟩ := stitchGo_inv mIx l 0 _ hok hM
  exact nodup_flatMap_ids p1 p2

/-- What happened to one input: the same skeleton under an injective id map that fixes negative
(root) parents, keeps non-negative ids non-negative and leaves non-clashing ids alone. -/
structure RemapOf (s out : Skel) (m : List (Int × Int)) : Prop where
  eq : out = remapSkel m s
  inj : ∀ a ∈ ids s.nodes, ∀ b ∈ ids s.nodes, remapId m a = remapId m b → a = b
  neg : ∀ a, a < 0 → remapId m a = a
  nonneg : ∀ a, 0 ≤ a → 0 ≤ remapId m a

theorem stitchGo_get (mIx : Nat) (rest : List Skel) : ∀ (i : Nat) (seen : List Int) (k : Nat) (s : Skel),
    (∀ s ∈ rest, SkelOK s) → rest[k]? = some s →
    ∃ out m, (stitchGo mIx i seen rest)[k]? = some out ∧ RemapOf s out m ∧ (i + k = mIx → m = []) := by
  induction rest with
  | nil => intro i seen k s _ h; simp at h
  | cons x rest ih =>
    intro i seen k s hok hk
    have hx := hok x List.mem_cons_self
    have hrest : ∀ y ∈ rest, SkelOK y := fun y hy => hok y (List.mem_cons_of_mem _ hy)
    unfold stitchGo
    cases k with
    | zero =>
      simp only [List.getElem?_cons_zero, Option.some.injEq] at hk
      subst hk
      by_cases hi : i = mIx
      · rw [if_pos hi]
        exact ⟨x, [], by simp, ⟨(remapSkel_nil x).symm, by intro a _ b _ h; simpa using h, by simp, by simp⟩, fun _ => rfl⟩
      · rw [if_neg hi]
        have hst := stepOK seen (ids x.nodes) hx.1 hx.2
        exact ⟨(stitchOne seen x).2, clashMap seen (ids x.nodes), by simp, ⟨rfl, hst.inj, hst.neg, hst.nonneg⟩, fun h => absurd h hi⟩
    | succ k =>
      rw [List.getElem?_cons_succ] at hk
      by_cases hi : i = mIx
      · rw [if_pos hi]
        obtain ⟨out, m, h1, h2, h3⟩ := ih (i + 1) seen k s hrest hk
        exact ⟨out, m, by rw [List.getElem?_cons_succ]; exact h1, h2, fun h => h3 (by omega)⟩
      · rw [if_neg hi]
        obtain ⟨out, m, h1, h2, h3⟩ := ih (i + 1) (stitchOne seen x).1 k s hrest hk
        exact ⟨out, m, by rw [List.getElem?_cons_succ]; exact h1, h2, fun h => h3 (by omega)⟩

/-- Every input reappears, in its position, remapped by ONE injective id map (the empty map for the master). -/
theorem stitchRemap_get (mIx : Nat) (l : List Skel) (hok : ∀ s ∈ l, SkelOK s) {k : Nat} {s : Skel}
    (hk : l[k]? = some s) :
    ∃ out m, (stitchRemap mIx l)[k]? = some out ∧ RemapOf s out m ∧ (k = mIx → m = []) := by
  unfold stitchRemap
  obtain ⟨out, m, h1, h2, h3⟩ := stitchGo_get mIx l 0 _ k s hok hk
  exact ⟨out, m, h1, h2, fun h => h3 (by omega)⟩

theorem stitchGo_length (mIx : Nat) (rest : List Skel) : ∀ (i : Nat) (seen : List Int),
    (stitchGo mIx i seen rest).length = rest.length := by
  induction rest with
  | nil => intro i seen; simp [stitchGo]
  | cons x rest ih =>
    intro i seen
    unfold stitchGo
    split <;> simp [ih]

/-! ### topology under an injective remap -/

theorem isRootNode_remapNode {m : List (Int × Int)} (hneg : ∀ a, a < 0 → remapId m a = a)
    (hnn : ∀ a, 0 ≤ a → 0 ≤ remapId m a) (n : Node) : isRootNode (remapNode m n) = isRootNode n := by
  have : (remapId m n.parent < 0) ↔ (n.parent < 0) := by
    constructor
    · intro h
      apply Classical.byContradiction
      intro hp
      have := hnn n.parent (by omega)
      omega
    · intro h; rw [hneg _ h]; exact h
  show decide (remapId m n.parent < 0) = decide (n.parent < 0)
  exact decide_eq_decide.mpr this

theorem edges_remap {s : Skel} {m : List (Int × Int)} (hneg : ∀ a, a < 0 → remapId m a = a)
    (hnn : ∀ a, 0 ≤ a → 0 ≤ remapId m a) :
    edges (remapSkel m s).nodes = (edges s.nodes).map fun e => (remapId m e.1, remapId m e.2) := by
  unfold edges remapSkel
  simp only [List.filter_map, List.map_map]
  congr 1
  apply List.filter_congr
  intro n _
  show (!isRootNode (remapNode m n)) = !isRootNode n
  rw [isRootNode_remapNode hneg hnn]

end Navis.Heal
