import NavisModel.Model.Flow
import Mathlib.Analysis.SpecialFunctions.BinaryEntropy
/-! Segregation index over an arbitrary linearly ordered field (`segIdxG`), and its instance at the reals
with the logarithmic binary entropy navis evaluates: bounds (Jensen, from the concavity of the binary entropy
proved in Mathlib), the exact cases 0 and 1, and the converse of the 1-case. -/
set_option linter.unusedSectionVars false
namespace Navis.Flow
open Navis.Forest

section Generic
variable {K : Type} [Field K] [LinearOrder K] [IsStrictOrderedRing K]

/-- The entropy term as the code guards it: `H` inside (0,1), 0 elsewhere. -/
def guardG (H : K → K) (p : K) : K := if 0 < p ∧ p < 1 then H p else 0

/-- Non-negative and concave on [0,1]. -/
structure ConcaveNonnegG (G : K → K) : Prop where
  nonneg : ∀ p, 0 ≤ G p
  conc : ∀ x y lam : K, 0 ≤ x → x ≤ 1 → 0 ≤ y → y ≤ 1 → 0 ≤ lam → lam ≤ 1 →
    lam * G x + (1 - lam) * G y ≤ G (lam * x + (1 - lam) * y)

theorem fragEntropyG_guard (H : K → K) (f : Frag) :
    fragEntropyG H f = if f.tot = 0 then 0 else guardG H ((f.post : K) / (f.tot : K)) := rfl

def wsumG (H : K → K) (fs : List Frag) : K := (fs.map fun f => fragEntropyG H f * (f.tot : K)).sum

theorem wsumG_cons (H : K → K) (f : Frag) (fs : List Frag) :
    wsumG H (f :: fs) = fragEntropyG H f * (f.tot : K) + wsumG H fs := by simp [wsumG]

theorem totG_cons (f : Frag) (fs : List Frag) :
    ((totPre (f :: fs) + totPost (f :: fs) : Nat) : K) = (f.tot : K) + ((totPre fs + totPost fs : Nat) : K) := by
  simp only [totPre, totPost, List.map_cons, List.sum_cons, Frag.tot]
  push_cast; ring

theorem postG_cons (f : Frag) (fs : List Frag) :
    ((totPost (f :: fs) : Nat) : K) = (f.post : K) + ((totPost fs : Nat) : K) := by
  simp only [totPost, List.map_cons, List.sum_cons]
  push_cast; ring

theorem tot_split (f : Frag) (fs : List Frag) :
    totPre (f :: fs) + totPost (f :: fs) = f.tot + (totPre fs + totPost fs) := by
  simp only [totPre, totPost, List.map_cons, List.sum_cons, Frag.tot]; omega

theorem postG_le_tot (fs : List Frag) : ((totPost fs : Nat) : K) ≤ ((totPre fs + totPost fs : Nat) : K) := by
  exact_mod_cast Nat.le_add_left _ _

theorem jensenG (H : K → K) (hG : ConcaveNonnegG (guardG H)) : ∀ fs : List Frag,
    (totPre fs + totPost fs = 0 → wsumG H fs = 0) ∧
    (totPre fs + totPost fs ≠ 0 → wsumG H fs ≤ ((totPre fs + totPost fs : Nat) : K) *
        guardG H (((totPost fs : Nat) : K) / ((totPre fs + totPost fs : Nat) : K))) := by
  intro fs
  induction fs with
  | nil => simp [wsumG, totPre, totPost]
  | cons f fs ih =>
    obtain ⟨ih0, ih1⟩ := ih
    have hw := wsumG_cons H f fs
    have hT := totG_cons (K := K) f fs
    have hQ := postG_cons (K := K) f fs
    have hsplit := tot_split f fs
    constructor
    · intro h0
      have ht : f.tot = 0 := by omega
      have hr : totPre fs + totPost fs = 0 := by omega
      rw [hw, ih0 hr, fragEntropyG_guard]; simp [ht]
    · intro hne
      rw [hw, hT, hQ]
      by_cases ht : f.tot = 0
      · have hr : totPre fs + totPost fs ≠ 0 := by omega
        have hq : f.post = 0 := by unfold Frag.tot at ht; omega
        rw [fragEntropyG_guard]; simp only [ht, hq, if_true]
        simpa using ih1 hr
      · by_cases hr : totPre fs + totPost fs = 0
        · have hq' : totPost fs = 0 := by omega
          have hT0 : ((totPre fs + totPost fs : Nat) : K) = 0 := by rw [hr]; simp
          have hQ0 : ((totPost fs : Nat) : K) = 0 := by rw [hq']; simp
          rw [ih0 hr, fragEntropyG_guard, hT0, hQ0]; simp only [ht, if_false]
          simp [mul_comm]
        · have ih1 := ih1 hr
          rw [fragEntropyG_guard]; simp only [ht, if_false]
          have tpos : (0 : K) < (f.tot : K) := by exact_mod_cast Nat.pos_of_ne_zero ht
          have Tpos : (0 : K) < ((totPre fs + totPost fs : Nat) : K) := by exact_mod_cast Nat.pos_of_ne_zero hr
          have qle : (f.post : K) ≤ (f.tot : K) := by
            unfold Frag.tot; push_cast; linarith [Nat.cast_nonneg (α := K) f.pre]
          have Qle := postG_le_tot (K := K) fs
          have q0 : (0 : K) ≤ (f.post : K) := Nat.cast_nonneg _
          have Q0 : (0 : K) ≤ ((totPost fs : Nat) : K) := Nat.cast_nonneg _
          generalize (f.tot : K) = a at *
          generalize ((totPre fs + totPost fs : Nat) : K) = T at *
          generalize (f.post : K) = q at *
          generalize ((totPost fs : Nat) : K) = Q at *
          have hsum : (0 : K) < a + T := by linarith
          have hx0 : 0 ≤ q / a := div_nonneg q0 (le_of_lt tpos)
          have hx1 : q / a ≤ 1 := (div_le_iff₀ tpos).mpr (by linarith)
          have hy0 : 0 ≤ Q / T := div_nonneg Q0 (le_of_lt Tpos)
          have hy1 : Q / T ≤ 1 := (div_le_iff₀ Tpos).mpr (by linarith)
          have hl0 : 0 ≤ a / (a + T) := div_nonneg (le_of_lt tpos) (le_of_lt hsum)
          have hl1 : a / (a + T) ≤ 1 := (div_le_iff₀ hsum).mpr (by linarith)
          have c := hG.conc (q / a) (Q / T) (a / (a + T)) hx0 hx1 hy0 hy1 hl0 hl1
          have e : a / (a + T) * (q / a) + (1 - a / (a + T)) * (Q / T) = (q + Q) / (a + T) := by
            field_simp; ring
          rw [e] at c
          have c2 := mul_le_mul_of_nonneg_left c (le_of_lt hsum)
          have e2 : (a + T) * (a / (a + T) * guardG H (q / a) + (1 - a / (a + T)) * guardG H (Q / T)) =
              a * guardG H (q / a) + T * guardG H (Q / T) := by
            field_simp; ring
          rw [e2] at c2
          linarith

theorem fragEntropyG_nonneg (H : K → K) (hG : ConcaveNonnegG (guardG H)) (f : Frag) : 0 ≤ fragEntropyG H f := by
  rw [fragEntropyG_guard]
  split
  · exact le_refl _
  · exact hG.nonneg _

theorem wsumG_nonneg (H : K → K) (hG : ConcaveNonnegG (guardG H)) (fs : List Frag) : 0 ≤ wsumG H fs := by
  induction fs with
  | nil => simp [wsumG]
  | cons f fs ih =>
    rw [wsumG_cons]
    have := mul_nonneg (fragEntropyG_nonneg H hG f) (Nat.cast_nonneg (α := K) f.tot)
    linarith

theorem meanEntropyG_eq (H : K → K) (fs : List Frag) :
    meanEntropyG H fs = wsumG H fs / ((totPre fs + totPost fs : Nat) : K) := by
  unfold meanEntropyG wsumG; ring

/-- **The segregation index lies in [0, 1]** over every linearly ordered field, for every entropy function whose
guarded form is non-negative and concave on [0, 1] (Jensen's inequality). -/
theorem segIdxG_bounds (H : K → K) (hG : ConcaveNonnegG (guardG H)) (fs : List Frag) (v : K)
    (h : segIdxG H fs = some v) : 0 ≤ v ∧ v ≤ 1 := by
  unfold segIdxG at h
  simp only at h
  by_cases h0 : totPre fs + totPost fs = 0
  · simp [h0] at h
  · simp only [h0, if_false] at h
    by_cases hp : 0 < ((totPost fs : Nat) : K) / ((totPre fs + totPost fs : Nat) : K) ∧
        ((totPost fs : Nat) : K) / ((totPre fs + totPost fs : Nat) : K) < 1
    · rw [if_pos hp] at h
      simp only [Option.some.injEq] at h
      subst h
      have hj := (jensenG H hG fs).2 h0
      have hs := wsumG_nonneg H hG fs
      have hgd : guardG H (((totPost fs : Nat) : K) / ((totPre fs + totPost fs : Nat) : K)) =
          H (((totPost fs : Nat) : K) / ((totPre fs + totPost fs : Nat) : K)) := by
        unfold guardG; rw [if_pos hp]
      have hg0 := hG.nonneg (((totPost fs : Nat) : K) / ((totPre fs + totPost fs : Nat) : K))
      rw [hgd] at hj hg0
      have Tpos : (0 : K) < ((totPre fs + totPost fs : Nat) : K) := by exact_mod_cast Nat.pos_of_ne_zero h0
      rw [meanEntropyG_eq]
      generalize H (((totPost fs : Nat) : K) / ((totPre fs + totPost fs : Nat) : K)) = G at *
      generalize ((totPre fs + totPost fs : Nat) : K) = T at *
      generalize wsumG H fs = W at *
      have hS0 : 0 ≤ W / T := div_nonneg hs (le_of_lt Tpos)
      have hS1 : W / T ≤ G := (div_le_iff₀ Tpos).mpr (by linarith)
      rcases eq_or_lt_of_le hg0 with hz | hpos
      · rw [← hz]; simp
      · have a : 0 ≤ W / T / G := div_nonneg hS0 (le_of_lt hpos)
        have b : W / T / G ≤ 1 := (div_le_iff₀ hpos).mpr (by linarith)
        constructor <;> linarith
    · rw [if_neg hp] at h
      simp only [Option.some.injEq] at h
      subst h; simp

/-! ### exact cases -/

theorem pnG_bounds {tp tq : Nat} (hp : tp ≠ 0) (hq : tq ≠ 0) :
    0 < (tq : K) / ((tp + tq : Nat) : K) ∧ (tq : K) / ((tp + tq : Nat) : K) < 1 := by
  have h1 : (0 : K) < (tq : K) := by exact_mod_cast Nat.pos_of_ne_zero hq
  have h2 : (0 : K) < (tp : K) := by exact_mod_cast Nat.pos_of_ne_zero hp
  have h3 : (0 : K) < ((tp + tq : Nat) : K) := by push_cast; linarith
  refine ⟨div_pos h1 h3, ?_⟩
  rw [div_lt_one h3]
  push_cast; linarith

/-- A fragment's entropy term vanishes iff it is empty or pure (for `H` positive on (0,1)). -/
theorem fragEntropyG_eq_zero_iff (H : K → K) (hH : ∀ p : K, 0 < p → p < 1 → 0 < H p) (f : Frag) :
    fragEntropyG H f = 0 ↔ f.pre = 0 ∨ f.post = 0 := by
  unfold fragEntropyG
  by_cases ht : f.tot = 0
  · simp only [ht, if_true, true_iff]
    unfold Frag.tot at ht; omega
  · simp only [ht, if_false]
    have tpos : (0 : K) < (f.tot : K) := by exact_mod_cast Nat.pos_of_ne_zero ht
    constructor
    · intro h
      by_contra hne
      have hp : f.pre ≠ 0 := fun e => hne (Or.inl e)
      have hq : f.post ≠ 0 := fun e => hne (Or.inr e)
      have b := pnG_bounds (K := K) hp hq
      have e : ((f.pre + f.post : Nat) : K) = (f.tot : K) := rfl
      rw [e] at b
      rw [if_pos b] at h
      exact absurd h (ne_of_gt (hH _ b.1 b.2))
    · rintro (h | h)
      · have : ((f.post : K) / (f.tot : K)) = 1 := by
          have e : f.tot = f.post := by simp [Frag.tot, h]
          rw [e]
          have : (f.post : K) ≠ 0 := by rw [e] at ht; exact_mod_cast ht
          exact div_self this
        rw [this]; simp
      · have : ((f.post : K) / (f.tot : K)) = 0 := by rw [h]; simp
        rw [this]; simp

theorem wsumG_eq_zero_iff (H : K → K) (hH : ∀ p : K, 0 < p → p < 1 → 0 < H p) (hn : ∀ f, 0 ≤ fragEntropyG H f) (fs : List Frag) :
    wsumG H fs = 0 ↔ ∀ f ∈ fs, f.pre = 0 ∨ f.post = 0 := by
  induction fs with
  | nil => simp [wsumG]
  | cons f fs ih =>
    rw [wsumG_cons]
    have h1 : 0 ≤ fragEntropyG H f * (f.tot : K) := mul_nonneg (hn f) (Nat.cast_nonneg _)
    have h2 : 0 ≤ wsumG H fs := by
      clear ih
      induction fs with
      | nil => simp [wsumG]
      | cons g gs ihg =>
        rw [wsumG_cons]
        have := mul_nonneg (hn g) (Nat.cast_nonneg (α := K) g.tot)
        linarith
    constructor
    · intro h
      have e1 : fragEntropyG H f * (f.tot : K) = 0 := by linarith
      have e2 : wsumG H fs = 0 := by linarith
      intro g hg
      rcases List.mem_cons.mp hg with rfl | hg
      · rcases mul_eq_zero.mp e1 with e | e
        · exact (fragEntropyG_eq_zero_iff H hH g).mp e
        · have : g.tot = 0 := by exact_mod_cast e
          unfold Frag.tot at this; omega
      · exact ih.mp e2 g hg
    · intro h
      have e1 := (fragEntropyG_eq_zero_iff H hH f).mpr (h f List.mem_cons_self)
      have e2 := ih.mpr (fun g hg => h g (List.mem_cons_of_mem _ hg))
      rw [e1, e2]; simp

/-- Only one kind of synapse in the whole neuron: the index is 0 by the code's guard. -/
theorem segIdxG_one_kind (H : K → K) (fs : List Frag) (htot : totPre fs + totPost fs ≠ 0)
    (h : totPre fs = 0 ∨ totPost fs = 0) : segIdxG H fs = some 0 := by
  unfold segIdxG
  simp only [htot, if_false]
  rcases h with h | h
  · have : ((totPost fs : Nat) : K) / ((totPre fs + totPost fs : Nat) : K) = 1 := by
      rw [h, Nat.zero_add]
      have : ((totPost fs : Nat) : K) ≠ 0 := by
        rw [h, Nat.zero_add] at htot; exact_mod_cast htot
      exact div_self this
    rw [this]; simp
  · have : ((totPost fs : Nat) : K) / ((totPre fs + totPost fs : Nat) : K) = 0 := by rw [h]; simp
    rw [this]; simp

/-- Both kinds present and `H` positive on (0,1): the index is exactly 1 **iff** no fragment mixes pre- and
postsynapses. -/
theorem segIdxG_eq_one_iff (H : K → K) (hH : ∀ p : K, 0 < p → p < 1 → 0 < H p) (fs : List Frag)
    (hp : totPre fs ≠ 0) (hq : totPost fs ≠ 0) :
    segIdxG H fs = some 1 ↔ ∀ f ∈ fs, f.pre = 0 ∨ f.post = 0 := by
  have hn : ∀ f, 0 ≤ fragEntropyG H f := by
    intro f
    unfold fragEntropyG
    split
    · exact le_refl _
    · simp only
      split
      · rename_i hb; exact le_of_lt (hH _ hb.1 hb.2)
      · exact le_refl _
  unfold segIdxG
  have htot : totPre fs + totPost fs ≠ 0 := by omega
  simp only [htot, if_false]
  obtain ⟨b1, b2⟩ := pnG_bounds (K := K) hp hq
  simp only [b1, b2, and_self, if_true, Option.some.injEq]
  have hG := hH _ b1 b2
  have Tpos : (0 : K) < ((totPre fs + totPost fs : Nat) : K) := by exact_mod_cast Nat.pos_of_ne_zero htot
  rw [meanEntropyG_eq, ← wsumG_eq_zero_iff H hH hn fs]
  constructor
  · intro h
    have : wsumG H fs / ((totPre fs + totPost fs : Nat) : K) / H (((totPost fs : Nat) : K) / ((totPre fs + totPost fs : Nat) : K)) = 0 := by
      linarith
    rcases div_eq_zero_iff.mp this with h' | h'
    · rcases div_eq_zero_iff.mp h' with h'' | h''
      · exact h''
      · exact absurd h'' (ne_of_gt Tpos)
    · exact absurd h' (ne_of_gt hG)
  · intro h
    rw [h]; simp

/-- Identical mixtures (and both kinds present): the index is exactly 0. -/
theorem segIdxG_identical (H : K → K) (fs : List Frag) (hp : totPre fs ≠ 0) (hq : totPost fs ≠ 0)
    (hH : H ((totPost fs : K) / ((totPre fs + totPost fs : Nat) : K)) ≠ 0)
    (h : ∀ f ∈ fs, f.tot ≠ 0 → (f.post : K) / (f.tot : K) = (totPost fs : K) / ((totPre fs + totPost fs : Nat) : K)) :
    segIdxG H fs = some 0 := by
  unfold segIdxG
  have htot : totPre fs + totPost fs ≠ 0 := by omega
  simp only [htot, if_false]
  obtain ⟨b1, b2⟩ := pnG_bounds (K := K) hp hq
  simp only [b1, b2, and_self, if_true, Option.some.injEq]
  set P : K := (totPost fs : K) / ((totPre fs + totPost fs : Nat) : K) with hP
  have hne : ((totPre fs + totPost fs : Nat) : K) ≠ 0 := by exact_mod_cast htot
  have key : ∀ l : List Frag, (∀ f ∈ l, f.tot ≠ 0 → (f.post : K) / (f.tot : K) = P) →
      wsumG H l = H P * ((totPre l + totPost l : Nat) : K) := by
    intro l
    induction l with
    | nil => intro _; simp [wsumG, totPre, totPost]
    | cons f l ih =>
      intro hl
      rw [wsumG_cons, totG_cons, ih (fun g hg => hl g (List.mem_cons_of_mem _ hg))]
      unfold fragEntropyG
      by_cases ht : f.tot = 0
      · simp [ht]
      · simp only [ht, if_false]
        rw [hl f List.mem_cons_self ht]
        simp only [b1, b2, and_self, if_true]
        ring
  rw [meanEntropyG_eq, key fs h]
  field_simp
  simp

end Generic

/-! ### the real instance: the logarithmic binary entropy -/

/-- The entropy navis evaluates: `-(p * math.log(p) + (1 - p) * math.log(1 - p))`. -/
noncomputable def navisEntropy (p : ℝ) : ℝ := -(p * Real.log p + (1 - p) * Real.log (1 - p))

theorem navisEntropy_eq_binEntropy : navisEntropy = Real.binEntropy := by
  funext p
  unfold navisEntropy Real.binEntropy
  rw [Real.log_inv, Real.log_inv]; ring

theorem navisEntropy_pos (p : ℝ) (h0 : 0 < p) (h1 : p < 1) : 0 < navisEntropy p := by
  rw [navisEntropy_eq_binEntropy]; exact Real.binEntropy_pos h0 h1

theorem guardG_binEntropy {w : ℝ} (h0 : 0 ≤ w) (h1 : w ≤ 1) : guardG Real.binEntropy w = Real.binEntropy w := by
  unfold guardG
  by_cases h : 0 < w ∧ w < 1
  · rw [if_pos h]
  · rw [if_neg h]
    rcases eq_or_lt_of_le h0 with e | e
    · rw [← e]; simp
    · have : w = 1 := by
        by_contra hne
        exact h ⟨e, lt_of_le_of_ne h1 hne⟩
      rw [this]; simp

/-- **The guarded logarithmic binary entropy is non-negative and concave on [0,1]** (Mathlib:
`Real.strictConcave_binEntropy`, `Real.binEntropy_nonneg`). -/
theorem concave_navisEntropy : ConcaveNonnegG (guardG navisEntropy) := by
  rw [navisEntropy_eq_binEntropy]
  constructor
  · intro p
    unfold guardG
    by_cases h : 0 < p ∧ p < 1
    · rw [if_pos h]; exact le_of_lt (Real.binEntropy_pos h.1 h.2)
    · rw [if_neg h]
  · intro x y lam hx0 hx1 hy0 hy1 hl0 hl1
    have hz0 : 0 ≤ lam * x + (1 - lam) * y := by
      have := mul_nonneg hl0 hx0
      have := mul_nonneg (by linarith : (0 : ℝ) ≤ 1 - lam) hy0
      linarith
    have hz1 : lam * x + (1 - lam) * y ≤ 1 := by
      have := mul_le_mul_of_nonneg_left hx1 hl0
      have := mul_le_mul_of_nonneg_left hy1 (by linarith : (0 : ℝ) ≤ 1 - lam)
      linarith
    rw [guardG_binEntropy hx0 hx1, guardG_binEntropy hy0 hy1, guardG_binEntropy hz0 hz1]
    have c := Real.strictConcave_binEntropy.concaveOn.2 (Set.mem_Icc.mpr ⟨hx0, hx1⟩) (Set.mem_Icc.mpr ⟨hy0, hy1⟩)
      hl0 (by linarith : (0 : ℝ) ≤ 1 - lam) (by ring)
    simpa [smul_eq_mul] using c

end Navis.Flow
