import NavisModel.Model.ConnSub
import NavisModel.Proofs.SegmentLemmas
/-!
Helper lemmas for `connected_subgraph` / `subset_neuron(prevent_fragments=True)` (C10, core Lean only).

`a ∈ rootPath t d` reads "`a` is an ancestor-or-self of `d`".  The main result, `connSub_spec`, describes the
node set computed by `connectedSubgraph` tree by tree: it is the union of the tree paths from the in-subset
leafs up to one *apex* node per tree (the new root), every node on these paths is either requested or lies
below-or-at the lowest common ancestor of the leafs, and every requested node is on one of them.
-/
namespace Navis.Forest

/-! ### the ancestor order -/

theorem anc_ids {t : Table} {a d : Int} (h : a ∈ rootPath t d) : a ∈ ids t ∧ d ∈ ids t := by
  refine ⟨rootPath_sub h, ?_⟩
  cases hf : find? t d with
  | none => rw [rootPath_absent hf] at h; simp at h
  | some n => exact mem_ids.mpr ⟨n, find?_some hf⟩

theorem anc_refl {t : Table} {a : Int} (h : a ∈ ids t) : a ∈ rootPath t a := rootPath_head_mem h

theorem anc_suffix {t : Table} (hw : WF t) {a d : Int} (h : a ∈ rootPath t d) : rootPath t a <:+ rootPath t d :=
  rootPath_suffix hw d (anc_ids h).2 a h

theorem anc_trans {t : Table} (hw : WF t) {a b c : Int} (h1 : a ∈ rootPath t b) (h2 : b ∈ rootPath t c) :
    a ∈ rootPath t c := (anc_suffix hw h2).subset h1

theorem anc_antisymm {t : Table} (hw : WF t) {a b : Int} (h1 : a ∈ rootPath t b) (h2 : b ∈ rootPath t a) : a = b := by
  have s1 := anc_suffix hw h1
  have s2 := anc_suffix hw h2
  have e := s1.eq_of_length_le s2.length_le
  obtain ⟨ra, ha⟩ := rootPath_cons (anc_ids h1).1
  obtain ⟨rb, hb⟩ := rootPath_cons (anc_ids h2).1
  rw [ha, hb] at e
  exact (List.cons.inj e).1

/-- Two ancestors of the same node are comparable. -/
theorem anc_comparable {t : Table} (hw : WF t) {a b l : Int} (ha : a ∈ rootPath t l) (hb : b ∈ rootPath t l) :
    a ∈ rootPath t b ∨ b ∈ rootPath t a := by
  rcases List.suffix_or_suffix_of_suffix (anc_suffix hw ha) (anc_suffix hw hb) with h | h
  · exact Or.inl (h.subset (anc_refl (anc_ids ha).1))
  · exact Or.inr (h.subset (anc_refl (anc_ids hb).1))

theorem anc_rootOf {t : Table} (hw : WF t) {a d : Int} (h : a ∈ rootPath t d) : rootOf t a = rootOf t d :=
  rootOf_of_mem_rootPath hw h

/-- A proper ancestor of a node is an ancestor-or-self of its parent. -/
theorem anc_parent {t : Table} (hw : WF t) {a x : Int} (h : a ∈ rootPath t x) (hne : x ≠ a) :
    ∃ n, find? t x = some n ∧ ¬ n.parent < 0 ∧ a ∈ rootPath t n.parent ∧ n.parent ∈ rootPath t x := by
  obtain ⟨n, hn, rfl⟩ := mem_ids.mp (anc_ids h).2
  have hf := find?_of_mem hw.1 hn
  by_cases hp : n.parent < 0
  · rw [rootPath_of_root hf hp] at h
    simp at h; exact absurd h.symm hne
  · have e := rootPath_of_nonroot hw hf hp
    rw [e] at h
    rcases List.mem_cons.mp h with h | h
    · exact absurd h.symm hne
    · refine ⟨n, hf, hp, h, ?_⟩
      rw [e]
      exact List.mem_cons_of_mem _ (anc_refl (WF_parent_mem hw hn hp))

theorem parent_not_anc {t : Table} (hw : WF t) {n : Node} (hn : n ∈ t) (hp : ¬ n.parent < 0) :
    n.id ∉ rootPath t n.parent := by
  have e := rootPath_of_nonroot hw (find?_of_mem hw.1 hn) hp
  have hnd := rootPath_nodup hw n.id
  rw [e] at hnd
  exact (List.nodup_cons.mp hnd).1

/-- Every node has a root, which is an ancestor of it and occurs in `roots t`. -/
theorem rootOf_spec {t : Table} (hw : WF t) {i : Int} (hi : i ∈ ids t) :
    ∃ r, rootOf t i = some r ∧ r ∈ roots t ∧ r ∈ rootPath t i := by
  obtain ⟨r, n, h1, h2, h3⟩ := rootPath_ends hw i hi
  have hn := find?_some h2
  refine ⟨r, h1, ?_, List.mem_of_getLast? h1⟩
  unfold roots
  exact List.mem_map.mpr ⟨n, List.mem_filter.mpr ⟨hn.1, by simpa [isRootNode] using h3⟩, hn.2⟩

theorem root_mem_of_rootOf {t : Table} {i r : Int} (h : rootOf t i = some r) : r ∈ rootPath t i :=
  List.mem_of_getLast? h

theorem roots_nodup {t : Table} (hnd : (ids t).Nodup) : (roots t).Nodup :=
  hnd.sublist (List.filter_sublist.map _)

theorem roots_sub {t : Table} {r : Int} (h : r ∈ roots t) : r ∈ ids t := by
  unfold roots at h
  obtain ⟨n, hn, rfl⟩ := List.mem_map.mp h
  exact mem_ids_of_mem (List.mem_filter.mp hn).1

/-! ### searching along a root path -/

/-- The first node on a root path with a property is below every other node on it with the property. -/
theorem find?_rootPath {t : Table} (hw : WF t) (p : Int → Bool) (fc : Int) :
    ∀ i ∈ ids t, (rootPath t i).find? p = some fc →
      fc ∈ rootPath t i ∧ p fc = true ∧ ∀ x ∈ rootPath t i, p x = true → x ∈ rootPath t fc := by
  refine WF_induct hw _ ?_
  intro n hn hcase hfind
  have hf := find?_of_mem hw.1 hn
  have hself := anc_refl (mem_ids_of_mem hn)
  by_cases hpi : p n.id = true
  · have e : (rootPath t n.id).find? p = some n.id := by
      obtain ⟨rest, hr⟩ := rootPath_cons (mem_ids_of_mem hn)
      rw [hr, List.find?_cons, hpi]
    rw [e] at hfind
    obtain rfl := Option.some.inj hfind
    exact ⟨hself, hpi, fun x hx _ => hx⟩
  · by_cases hp : n.parent < 0
    · rw [rootPath_of_root hf hp] at hfind
      simp [hpi] at hfind
    · have e := rootPath_of_nonroot hw hf hp
      rw [e, List.find?_cons] at hfind
      simp only [hpi] at hfind
      rcases hcase with hc | hc
      · exact absurd hc hp
      · obtain ⟨h1, h2, h3⟩ := hc hfind
        refine ⟨by rw [e]; exact List.mem_cons_of_mem _ h1, h2, ?_⟩
        intro x hx hpx
        rw [e] at hx
        rcases List.mem_cons.mp hx with h | h
        · rw [h] at hpx; exact absurd hpx hpi
        · exact h3 x h hpx

/-- The last node on a root path with a property is above every other node on it with the property. -/
theorem getLast?_filter_rootPath {t : Table} (hw : WF t) (p : Int → Bool) (a : Int) :
    ∀ i ∈ ids t, ((rootPath t i).filter p).getLast? = some a →
      a ∈ rootPath t i ∧ p a = true ∧ ∀ x ∈ rootPath t i, p x = true → a ∈ rootPath t x := by
  refine WF_induct hw _ ?_
  intro n hn hcase hlast
  have hf := find?_of_mem hw.1 hn
  have hself := anc_refl (mem_ids_of_mem hn)
  by_cases hp : n.parent < 0
  · rw [rootPath_of_root hf hp] at hlast ⊢
    by_cases hpi : p n.id = true
    · simp [hpi] at hlast
      subst hlast
      refine ⟨by simp, hpi, fun x hx _ => ?_⟩
      simp at hx; rw [hx, rootPath_of_root hf hp]; simp
    · simp [hpi] at hlast
  · have e := rootPath_of_nonroot hw hf hp
    rcases hcase with hc | hc
    · exact absurd hc hp
    · rw [e] at hlast
      cases hrest : ((rootPath t n.parent).filter p).getLast? with
      | none =>
        have hnil : (rootPath t n.parent).filter p = [] := List.getLast?_eq_none_iff.mp hrest
        by_cases hpi : p n.id = true
        · rw [List.filter_cons, if_pos hpi, hnil] at hlast
          simp at hlast
          subst hlast
          refine ⟨hself, hpi, ?_⟩
          intro x hx hpx
          rw [e] at hx
          rcases List.mem_cons.mp hx with h | h
          · rw [h]; exact hself
          · exact absurd hpx (List.filter_eq_nil_iff.mp hnil x h)
        · rw [List.filter_cons, if_neg hpi, hnil] at hlast
          simp at hlast
      | some a' =>
        have hl' : ((rootPath t n.parent).filter p).getLast? = some a := by
          by_cases hpi : p n.id = true
          · rw [List.filter_cons, if_pos hpi, List.getLast?_cons, hrest] at hlast
            simp at hlast
            rw [hrest, hlast]
          · rw [List.filter_cons, if_neg hpi] at hlast
            exact hlast
        obtain ⟨h1, h2, h3⟩ := hc hl'
        have h1' : a ∈ rootPath t n.id := by rw [e]; exact List.mem_cons_of_mem _ h1
        refine ⟨h1', h2, ?_⟩
        intro x hx hpx
        rw [e] at hx
        rcases List.mem_cons.mp hx with h | h
        · rw [h]; exact h1'
        · exact h3 x h hpx

/-! ### in-subset leafs -/

theorem mem_ssLeafs {t : Table} {ss : List Int} {l : Int} :
    l ∈ ssLeafs t ss ↔ l ∈ ids t ∧ l ∈ ss ∧ ∀ c ∈ t, c.parent = l → c.id ∉ ss := by
  unfold ssLeafs children
  simp only [List.mem_filter, Bool.and_eq_true, List.contains_eq_mem, decide_eq_true_eq, Bool.not_eq_true',
    List.any_eq_false, List.mem_map, beq_iff_eq]
  constructor
  · rintro ⟨h1, h2, h3⟩
    exact ⟨h1, h2, fun c hc hcp hcs => h3 c.id ⟨c, ⟨hc, hcp⟩, rfl⟩ hcs⟩
  · rintro ⟨h1, h2, h3⟩
    refine ⟨h1, h2, ?_⟩
    rintro x ⟨c, ⟨hc, hcp⟩, rfl⟩
    exact h3 c hc hcp

/-- Below every requested node there is an in-subset leaf, reached through requested nodes only. -/
theorem exists_ssLeaf_below {t : Table} (hw : WF t) (ss : List Int) :
    ∀ (k : Nat) (s : Int), s ∈ ids t → s ∈ ss → t.length < (rootPath t s).length + k →
      ∃ l ∈ ssLeafs t ss, s ∈ rootPath t l ∧ ∀ x ∈ rootPath t l, s ∈ rootPath t x → x ∈ ss := by
  intro k
  induction k with
  | zero =>
    intro s _ _ hk
    have := rootPath_length_le hw s
    omega
  | succ k ih =>
    intro s hs hss hk
    by_cases hleaf : ∀ c ∈ t, c.parent = s → c.id ∉ ss
    · refine ⟨s, mem_ssLeafs.mpr ⟨hs, hss, hleaf⟩, anc_refl hs, ?_⟩
      intro x hx hsx
      rw [anc_antisymm hw hx hsx]; exact hss
    · have hex : ∃ c ∈ t, c.parent = s ∧ c.id ∈ ss := by
        apply Classical.byContradiction
        intro hne
        exact hleaf fun c hc hcp hcs => hne ⟨c, hc, hcp, hcs⟩
      obtain ⟨c, hc, hcp, hcs⟩ := hex
      have hcnr : ¬ c.parent < 0 := by
        rw [hcp]
        obtain ⟨n, hn, rfl⟩ := mem_ids.mp hs
        have := hw.2.1 n hn
        omega
      have e := rootPath_of_nonroot hw (find?_of_mem hw.1 hc) hcnr
      have hk' : t.length < (rootPath t c.id).length + k := by
        rw [e, hcp]; simp only [List.length_cons]; omega
      obtain ⟨l, hl, hcl, hchain⟩ := ih c.id (mem_ids_of_mem hc) hcs hk'
      have hsc : s ∈ rootPath t c.id := by
        rw [e, hcp]; exact List.mem_cons_of_mem _ (anc_refl hs)
      refine ⟨l, hl, anc_trans hw hsc hcl, ?_⟩
      intro x hx hsx
      rcases anc_comparable hw hx hcl with h | h
      · rw [e, hcp] at h
        rcases List.mem_cons.mp h with h | h
        · rw [h]; exact hcs
        · rw [anc_antisymm hw h hsx]; exact hss
      · exact hchain x hx h

/-! ### longest path, first common node -/

theorem foldl_longest_mem (ps : List (List Int)) (b : List Int) :
    ps.foldl (fun best p => if best.length ≤ p.length then p else best) b ∈ b :: ps := by
  induction ps generalizing b with
  | nil => simp
  | cons p ps ih =>
    rw [List.foldl_cons]
    have h := ih (if b.length ≤ p.length then p else b)
    rcases List.mem_cons.mp h with h | h
    · rw [h]
      split
      · exact List.mem_cons_of_mem _ List.mem_cons_self
      · exact List.mem_cons_self
    · exact List.mem_cons_of_mem _ (List.mem_cons_of_mem _ h)

theorem longestPath_mem {ps : List (List Int)} (h : ps ≠ []) : longestPath ps ∈ ps := by
  cases ps with
  | nil => exact absurd rfl h
  | cons p ps =>
    unfold longestPath
    rw [List.foldl_cons]
    simp only [List.length_nil, Nat.zero_le, if_true]
    exact foldl_longest_mem ps p

theorem inAll_map {t : Table} (L : List Int) (x : Int) :
    inAll (L.map (rootPath t)) x = true ↔ ∀ l ∈ L, x ∈ rootPath t l := by
  simp [inAll, List.all_eq_true]

/-- The first common node of the leaf paths of one tree is their lowest common ancestor: it is on every
path, and every node that is on every path is an ancestor-or-self of it. -/
theorem firstCommon_spec {t : Table} (hw : WF t) {r : Int} (L : List Int) (hL : L ≠ [])
    (hLi : ∀ l ∈ L, l ∈ ids t) (hLr : ∀ l ∈ L, rootOf t l = some r) :
    ∃ fc l0, l0 ∈ L ∧ longestPath (L.map (rootPath t)) = rootPath t l0 ∧
      firstCommon (L.map (rootPath t)) = some fc ∧ (∀ l ∈ L, fc ∈ rootPath t l) ∧
      ∀ x, (∀ l ∈ L, x ∈ rootPath t l) → x ∈ rootPath t fc := by
  have hne : L.map (rootPath t) ≠ [] := by simpa using hL
  obtain ⟨l0, hl0, e0⟩ := List.mem_map.mp (longestPath_mem hne)
  cases hfind : (rootPath t l0).find? (inAll (L.map (rootPath t))) with
  | none =>
    exfalso
    rw [List.find?_eq_none] at hfind
    apply hfind r (root_mem_of_rootOf (hLr l0 hl0))
    rw [inAll_map]
    intro l hl
    exact root_mem_of_rootOf (hLr l hl)
  | some fc =>
    obtain ⟨_, h2, h3⟩ := find?_rootPath hw _ fc l0 (hLi l0 hl0) hfind
    refine ⟨fc, l0, hl0, e0.symm, ?_, (inAll_map L fc).mp h2, ?_⟩
    · unfold firstCommon
      rw [List.head?_filter, ← e0, hfind]
    · intro x hx
      exact h3 x (hx l0 hl0) ((inAll_map L x).mpr hx)

/-! ### collecting the paths up to the first common node -/

/-- `inc` is closed under "parent" strictly below `fc`, except possibly for the pending node `cur`. -/
def ClosedUp (t : Table) (fc : Int) (inc : List Int) (cur : Option Int) : Prop :=
  ∀ y ∈ inc, y ≠ fc → fc ∈ rootPath t y → ∀ n, find? t y = some n → n.parent ∈ inc ∨ some n.parent = cur

theorem closedUp_mem {t : Table} (hw : WF t) {fc : Int} {inc : List Int} (hc : ClosedUp t fc inc none) :
    ∀ cur ∈ ids t, cur ∈ inc → ∀ x ∈ rootPath t cur, fc ∈ rootPath t x → x ∈ inc := by
  refine WF_induct hw _ ?_
  intro n hn hcase hcur x hx hfx
  have hf := find?_of_mem hw.1 hn
  by_cases hp : n.parent < 0
  · rw [rootPath_of_root hf hp] at hx
    simp at hx; rw [hx]; exact hcur
  · have e := rootPath_of_nonroot hw hf hp
    rw [e] at hx
    rcases List.mem_cons.mp hx with h | h
    · rw [h]; exact hcur
    · rcases hcase with hc' | hc'
      · exact absurd hc' hp
      · have hfp : fc ∈ rootPath t n.parent := anc_trans hw hfx h
        have hne : n.id ≠ fc := fun he => parent_not_anc hw hn hp (by rw [he]; exact hfp)
        have hfn : fc ∈ rootPath t n.id := by rw [e]; exact List.mem_cons_of_mem _ hfp
        rcases hc n.id hcur hne hfn n hf with h' | h'
        · exact hc' h' x h hfx
        · simp at h'

/-- Walking one leaf path (`collectPath`) adds exactly the nodes from the leaf up to the first common node. -/
theorem collectPath_spec {t : Table} (hw : WF t) (fc : Int) :
    ∀ cur ∈ ids t, fc ∈ rootPath t cur → ∀ inc, ClosedUp t fc inc (some cur) →
      ClosedUp t fc (collectPath fc inc (rootPath t cur)) none ∧
      ∀ x, x ∈ collectPath fc inc (rootPath t cur) ↔ x ∈ inc ∨ (x ∈ rootPath t cur ∧ fc ∈ rootPath t x) := by
  refine WF_induct hw _ ?_
  intro n hn hcase hfc inc hcl
  have hf := find?_of_mem hw.1 hn
  have hself := anc_refl (mem_ids_of_mem hn)
  obtain ⟨rest, hr⟩ := rootPath_cons (mem_ids_of_mem hn)
  by_cases hin : inc.contains n.id = true
  · have e : collectPath fc inc (rootPath t n.id) = inc := by rw [hr, collectPath, if_pos hin]
    rw [e]
    have hin' : n.id ∈ inc := by simpa using hin
    have hfull : ClosedUp t fc inc none := by
      intro y hy hne hfy m hm
      rcases hcl y hy hne hfy m hm with h | h
      · exact Or.inl h
      · left; simp at h; rw [h]; exact hin'
    refine ⟨hfull, fun x => ⟨Or.inl, ?_⟩⟩
    rintro (h | ⟨h1, h2⟩)
    · exact h
    · exact closedUp_mem hw hfull n.id (mem_ids_of_mem hn) hin' x h1 h2
  · by_cases hnf : n.id = fc
    · have e : collectPath fc inc (rootPath t n.id) = n.id :: inc := by
        rw [hr, collectPath, if_neg hin, if_pos hnf]
      rw [e]
      constructor
      · intro y hy hne hfy m hm
        rcases List.mem_cons.mp hy with h | h
        · exact absurd (h.trans hnf) hne
        · rcases hcl y h hne hfy m hm with h' | h'
          · exact Or.inl (List.mem_cons_of_mem _ h')
          · left; simp at h'; rw [h']; exact List.mem_cons_self
      · intro x
        rw [List.mem_cons]
        constructor
        · rintro (h | h)
          · right; rw [h]; exact ⟨hself, hfc⟩
          · exact Or.inl h
        · rintro (h | ⟨h1, h2⟩)
          · exact Or.inr h
          · left
            rw [hnf] at h1 ⊢
            exact anc_antisymm hw h1 h2
    · have hp : ¬ n.parent < 0 := by
        intro hp
        rw [rootPath_of_root hf hp] at hfc
        simp at hfc
        exact hnf hfc.symm
      have e := rootPath_of_nonroot hw hf hp
      have e2 : collectPath fc inc (rootPath t n.id) = collectPath fc (n.id :: inc) (rootPath t n.parent) := by
        rw [e, collectPath, if_neg hin, if_neg hnf]
      rw [e2]
      have hfp : fc ∈ rootPath t n.parent := by
        have h := hfc
        rw [e] at h
        rcases List.mem_cons.mp h with h | h
        · exact absurd h.symm hnf
        · exact h
      rcases hcase with hc | hc
      · exact absurd hc hp
      · have hcl' : ClosedUp t fc (n.id :: inc) (some n.parent) := by
          intro y hy hne hfy m hm
          rcases List.mem_cons.mp hy with h | h
          · right
            rw [h, hf] at hm
            rw [Option.some.inj hm]
          · rcases hcl y h hne hfy m hm with h' | h'
            · exact Or.inl (List.mem_cons_of_mem _ h')
            · left; simp at h'; rw [h']; exact List.mem_cons_self
        obtain ⟨h1, h2⟩ := hc hfp (n.id :: inc) hcl'
        refine ⟨h1, fun x => ?_⟩
        rw [h2 x, List.mem_cons, e, List.mem_cons]
        constructor
        · rintro ((h | h) | ⟨h, h'⟩)
          · exact Or.inr ⟨Or.inl h, by rw [h]; exact hfc⟩
          · exact Or.inl h
          · exact Or.inr ⟨Or.inr h, h'⟩
        · rintro (h | ⟨h | h, h'⟩)
          · exact Or.inl (Or.inr h)
          · exact Or.inl (Or.inl h)
          · exact Or.inr ⟨h, h'⟩

theorem collectAll_spec {t : Table} (hw : WF t) (fc : Int) :
    ∀ (L : List Int), (∀ l ∈ L, l ∈ ids t ∧ fc ∈ rootPath t l) → ∀ inc, ClosedUp t fc inc none →
      ClosedUp t fc (collectAll fc inc (L.map (rootPath t))) none ∧
      ∀ x, x ∈ collectAll fc inc (L.map (rootPath t)) ↔
        x ∈ inc ∨ ∃ l ∈ L, x ∈ rootPath t l ∧ fc ∈ rootPath t x := by
  intro L
  induction L with
  | nil =>
    intro _ inc hc
    exact ⟨hc, fun x => by simp [collectAll]⟩
  | cons l L ih =>
    intro hL inc hc
    have hl := hL l List.mem_cons_self
    have hweak : ClosedUp t fc inc (some l) := fun y hy hne hfy m hm =>
      (hc y hy hne hfy m hm).imp id (fun h => by simp at h)
    obtain ⟨h1, h2⟩ := collectPath_spec hw fc l hl.1 hl.2 inc hweak
    obtain ⟨h3, h4⟩ := ih (fun l' hl' => hL l' (List.mem_cons_of_mem _ hl')) _ h1
    have e : collectAll fc inc ((l :: L).map (rootPath t)) =
        collectAll fc (collectPath fc inc (rootPath t l)) (L.map (rootPath t)) := by
      simp [collectAll]
    rw [e]
    refine ⟨h3, fun x => ?_⟩
    rw [h4 x, h2 x]
    constructor
    · rintro ((h | h) | ⟨l', hl', h⟩)
      · exact Or.inl h
      · exact Or.inr ⟨l, List.mem_cons_self, h⟩
      · exact Or.inr ⟨l', List.mem_cons_of_mem _ hl', h⟩
    · rintro (h | ⟨l', hl', h⟩)
      · exact Or.inl (Or.inl h)
      · rcases List.mem_cons.mp hl' with he | he
        · rw [he] at h; exact Or.inl (Or.inr h)
        · exact Or.inr ⟨l', he, h⟩

/-! ### one connected component -/

/-- The in-subset leafs of the tree rooted at `r`. -/
def treeLeafs (t : Table) (ss : List Int) (r : Int) : List Int := (ssLeafs t ss).filter (inTree t r)

theorem leafPaths_eq (t : Table) (ss : List Int) (r : Int) :
    leafPaths t (ssLeafs t ss) r = (treeLeafs t ss r).map (rootPath t) := rfl

theorem mem_treeLeafs {t : Table} {ss : List Int} {r l : Int} :
    l ∈ treeLeafs t ss r ↔ l ∈ ssLeafs t ss ∧ rootOf t l = some r := by
  simp [treeLeafs, inTree]

theorem mem_restOf {t : Table} {ss : List Int} {r : Int} {inc : List Int} {x : Int} :
    x ∈ restOf t ss r inc ↔ x ∈ ids t ∧ x ∈ ss ∧ inTree t r x = true ∧ x ∉ inc := by
  simp [restOf, and_assoc]

/-- What one component contributes, in terms of its *apex* `a` (the new root): `a` is a common ancestor of
all in-subset leafs of the tree; every requested node of the tree is on a path leaf → `a`; and a node on
such a path is either requested itself or has no proper descendant that is common to all leaf paths
(i.e. it lies below-or-at the lowest common ancestor of the leafs). -/
structure TreeSpec (t : Table) (ss : List Int) (r a : Int) : Prop where
  common : ∀ l ∈ treeLeafs t ss r, a ∈ rootPath t l
  covers : ∀ s ∈ ss, s ∈ ids t → inTree t r s = true →
    ∃ l ∈ treeLeafs t ss r, s ∈ rootPath t l ∧ a ∈ rootPath t s
  minimal : ∀ x, (∃ l ∈ treeLeafs t ss r, x ∈ rootPath t l ∧ a ∈ rootPath t x) →
    x ∈ ss ∨ ∀ d, x ∈ rootPath t d → d ≠ x → ∃ l' ∈ treeLeafs t ss r, d ∉ rootPath t l'

theorem ccStep_nil {t : Table} {ss : List Int} {r : Int} (st : List Int × List Int) (h : treeLeafs t ss r = []) :
    ccStep t ss (ssLeafs t ss) st r = st := by
  unfold ccStep
  rw [leafPaths_eq, h]
  rfl

theorem ccStep_spec {t : Table} (hw : WF t) {ss : List Int} (r : Int) (st : List Int × List Int)
    (hst : ∀ y ∈ st.1, inTree t r y = false) (hL : treeLeafs t ss r ≠ []) :
    ∃ a, TreeSpec t ss r a ∧ (ccStep t ss (ssLeafs t ss) st r).2 = st.2 ++ [a] ∧
      ∀ x, x ∈ (ccStep t ss (ssLeafs t ss) st r).1 ↔
        x ∈ st.1 ∨ ∃ l ∈ treeLeafs t ss r, x ∈ rootPath t l ∧ a ∈ rootPath t x := by
  have hLi : ∀ l ∈ treeLeafs t ss r, l ∈ ids t := fun l hl => (mem_ssLeafs.mp (mem_treeLeafs.mp hl).1).1
  have hLr : ∀ l ∈ treeLeafs t ss r, rootOf t l = some r := fun l hl => (mem_treeLeafs.mp hl).2
  obtain ⟨fc, l0, hl0, elong, efc, hF1, hF2⟩ := firstCommon_spec hw _ hL hLi hLr
  have hfcr : rootOf t fc = some r := by rw [anc_rootOf hw (hF1 l0 hl0)]; exact hLr l0 hl0
  have hinT : ∀ x l, l ∈ treeLeafs t ss r → x ∈ rootPath t l → inTree t r x = true := by
    intro x l hl hx
    simp [inTree, anc_rootOf hw hx, hLr l hl]
  have hcl : ClosedUp t fc st.1 none := by
    intro y hy _ hfy
    have h1 : rootOf t y = some r := by rw [← anc_rootOf hw hfy]; exact hfcr
    have h2 := hst y hy
    simp [inTree, h1] at h2
  obtain ⟨_, hinc⟩ := collectAll_spec hw fc _ (fun l hl => ⟨hLi l hl, hF1 l hl⟩) st.1 hcl
  have estep : ccStep t ss (ssLeafs t ss) st r =
      ccFinish t ss r (rootPath t l0) fc (collectAll fc st.1 ((treeLeafs t ss r).map (rootPath t))) st.2 := by
    have hne : ((treeLeafs t ss r).map (rootPath t)).isEmpty = false := by
      cases h : treeLeafs t ss r with
      | nil => exact absurd h hL
      | cons a l => rfl
    unfold ccStep
    rw [leafPaths_eq, hne, efc, elong]
    rfl
  rw [estep]
  generalize collectAll fc st.1 ((treeLeafs t ss r).map (rootPath t)) = inc at hinc ⊢
  have hF3 : ∀ x ∈ restOf t ss r inc, x ≠ fc ∧ x ∈ rootPath t fc ∧
      (∀ z ∈ rootPath t fc, x ∈ rootPath t z → z ∈ ss) ∧ ∃ l ∈ treeLeafs t ss r, x ∈ rootPath t l := by
    intro x hx
    obtain ⟨hxi, hxs, hxt, hxn⟩ := mem_restOf.mp hx
    obtain ⟨l, hl, hxl, hchain⟩ := exists_ssLeaf_below hw ss (t.length + 1) x hxi hxs (by omega)
    have hlL : l ∈ treeLeafs t ss r :=
      mem_treeLeafs.mpr ⟨hl, by rw [← anc_rootOf hw hxl]; simpa [inTree] using hxt⟩
    rcases anc_comparable hw (hF1 l hlL) hxl with h | h
    · exact absurd ((hinc x).mpr (Or.inr ⟨l, hlL, hxl, h⟩)) hxn
    · refine ⟨?_, h, ?_, l, hlL, hxl⟩
      · intro he
        apply hxn
        rw [hinc]
        exact Or.inr ⟨l, hlL, hxl, by rw [he]; exact anc_refl (anc_ids h).2⟩
      · intro z hz hxz
        exact hchain z (anc_trans hw hz (hF1 l hlL)) hxz
  have hmin : ∀ x, fc ∈ rootPath t x → ∀ d, x ∈ rootPath t d → d ≠ x →
      ∃ l' ∈ treeLeafs t ss r, d ∉ rootPath t l' := by
    intro x hfx d hxd hne
    apply Classical.byContradiction
    intro hno
    have hcom : ∀ l' ∈ treeLeafs t ss r, d ∈ rootPath t l' := by
      intro l' hl'
      apply Classical.byContradiction
      intro h
      exact hno ⟨l', hl', h⟩
    have h1 := hF2 d hcom
    have h2 := anc_trans hw hfx hxd
    have e1 : d = fc := anc_antisymm hw h1 h2
    rw [e1] at hxd hne
    exact hne (anc_antisymm hw hfx hxd)
  unfold ccFinish
  by_cases hre : (restOf t ss r inc).isEmpty = true
  · rw [if_pos hre]
    have hnil : restOf t ss r inc = [] := List.isEmpty_iff.mp hre
    refine ⟨fc, ⟨hF1, ?_, ?_⟩, rfl, hinc⟩
    · intro s hs hsi hst'
      have hsin : s ∈ inc := by
        apply Classical.byContradiction
        intro hn
        have : s ∈ restOf t ss r inc := mem_restOf.mpr ⟨hsi, hs, hst', hn⟩
        rw [hnil] at this
        simp at this
      rcases (hinc s).mp hsin with h | ⟨l, hl, h1, h2⟩
      · have := hst s h
        rw [hst'] at this
        simp at this
      · exact ⟨l, hl, h1, h2⟩
    · rintro x ⟨l, hl, hx, hfx⟩
      exact Or.inr (hmin x hfx)
  · rw [if_neg hre]
    obtain ⟨x0, hx0⟩ : ∃ x0, x0 ∈ restOf t ss r inc := by
      cases h : restOf t ss r inc with
      | nil => rw [h] at hre; simp at hre
      | cons a l => exact ⟨a, List.mem_cons_self⟩
    have hfl0 := hF1 l0 hl0
    cases hlast : ((rootPath t l0).filter fun x => (restOf t ss r inc).contains x).getLast? with
    | none =>
      exfalso
      have hnil := List.getLast?_eq_none_iff.mp hlast
      have := List.filter_eq_nil_iff.mp hnil x0 (anc_trans hw (hF3 x0 hx0).2.1 hfl0)
      simp at this
      exact this hx0
    | some a =>
      obtain ⟨ha0, hap, hatop⟩ := getLast?_filter_rootPath hw _ a l0 (hLi l0 hl0) hlast
      have har : a ∈ restOf t ss r inc := by simpa using hap
      obtain ⟨hane, hafc, hachain, _⟩ := hF3 a har
      have hnr : newRootOf (rootPath t l0) (restOf t ss r inc) fc = a := by
        unfold newRootOf
        rw [hlast]
        rfl
      rw [hnr]
      have htop : ∀ x ∈ restOf t ss r inc, a ∈ rootPath t x := by
        intro x hx
        exact hatop x (anc_trans hw (hF3 x hx).2.1 hfl0) (by simpa using hx)
      refine ⟨a, ⟨?_, ?_, ?_⟩, rfl, ?_⟩
      · intro l hl
        exact anc_trans hw hafc (hF1 l hl)
      · intro s hs hsi hst'
        by_cases hsin : s ∈ inc
        · rcases (hinc s).mp hsin with h | ⟨l, hl, h1, h2⟩
          · have := hst s h
            rw [hst'] at this
            simp at this
          · exact ⟨l, hl, h1, anc_trans hw hafc h2⟩
        · have hsr := mem_restOf.mpr ⟨hsi, hs, hst', hsin⟩
          obtain ⟨_, _, _, l, hl, hsl⟩ := hF3 s hsr
          exact ⟨l, hl, hsl, htop s hsr⟩
      · rintro x ⟨l, hl, hx, hax⟩
        rcases anc_comparable hw (hF1 l hl) hx with h | h
        · exact Or.inr (hmin x h)
        · exact Or.inl (hachain x h hax)
      · intro x
        show x ∈ restOf t ss r inc ++ inc ↔ _
        rw [List.mem_append, hinc x]
        constructor
        · rintro (h | h | ⟨l, hl, h1, h2⟩)
          · obtain ⟨_, _, _, l, hl, hxl⟩ := hF3 x h
            exact Or.inr ⟨l, hl, hxl, htop x h⟩
          · exact Or.inl h
          · exact Or.inr ⟨l, hl, h1, anc_trans hw hafc h2⟩
        · rintro (h | ⟨l, hl, h1, h2⟩)
          · exact Or.inr (Or.inl h)
          · rcases anc_comparable hw (hF1 l hl) h1 with h | h
            · exact Or.inr (Or.inr ⟨l, hl, h1, h⟩)
            · by_cases hxin : x ∈ inc
              · exact Or.inr ((hinc x).mp hxin)
              · exact Or.inl (mem_restOf.mpr ⟨(anc_ids h1).1, hachain x h h2, hinT x l hl h1, hxin⟩)

/-! ### all components -/

theorem fold_spec {t : Table} (hw : WF t) {ss : List Int} :
    ∀ (rs : List Int), rs.Nodup → ∀ st : List Int × List Int, (∀ y ∈ st.1, ∀ r ∈ rs, inTree t r y = false) →
      ∃ ap : Int → Int,
        (∀ r ∈ rs, treeLeafs t ss r ≠ [] → TreeSpec t ss r (ap r)) ∧
        (rs.foldl (ccStep t ss (ssLeafs t ss)) st).2 =
          st.2 ++ (rs.filter fun r => !(treeLeafs t ss r).isEmpty).map ap ∧
        ∀ x, x ∈ (rs.foldl (ccStep t ss (ssLeafs t ss)) st).1 ↔
          x ∈ st.1 ∨ ∃ r ∈ rs, ∃ l ∈ treeLeafs t ss r, x ∈ rootPath t l ∧ ap r ∈ rootPath t x := by
  intro rs
  induction rs with
  | nil =>
    intro _ st _
    exact ⟨fun _ => 0, by simp, by simp, by simp⟩
  | cons r rs ih =>
    intro hnd st hst
    have hnd' := List.nodup_cons.mp hnd
    rw [List.foldl_cons]
    by_cases hL : treeLeafs t ss r = []
    · rw [ccStep_nil st hL]
      obtain ⟨ap, h1, h2, h3⟩ := ih hnd'.2 st (fun y hy r' hr' => hst y hy r' (List.mem_cons_of_mem _ hr'))
      refine ⟨ap, ?_, ?_, ?_⟩
      · intro r' hr' hne
        rcases List.mem_cons.mp hr' with h | h
        · rw [h] at hne; exact absurd hL hne
        · exact h1 r' h hne
      · rw [h2, List.filter_cons]
        simp [hL]
      · intro x
        rw [h3 x]
        constructor
        · rintro (h | ⟨r', hr', h⟩)
          · exact Or.inl h
          · exact Or.inr ⟨r', List.mem_cons_of_mem _ hr', h⟩
        · rintro (h | ⟨r', hr', l, hl, h⟩)
          · exact Or.inl h
          · rcases List.mem_cons.mp hr' with he | he
            · rw [he, hL] at hl; simp at hl
            · exact Or.inr ⟨r', he, l, hl, h⟩
    · obtain ⟨a, hspec, hnr, hmem⟩ := ccStep_spec hw r st (fun y hy => hst y hy r List.mem_cons_self) hL
      have hst' : ∀ y ∈ (ccStep t ss (ssLeafs t ss) st r).1, ∀ r' ∈ rs, inTree t r' y = false := by
        intro y hy r' hr'
        rcases (hmem y).mp hy with h | ⟨l, hl, h1, _⟩
        · exact hst y h r' (List.mem_cons_of_mem _ hr')
        · have hy' : rootOf t y = some r := by rw [anc_rootOf hw h1]; exact (mem_treeLeafs.mp hl).2
          have hne : r ≠ r' := fun he => hnd'.1 (he ▸ hr')
          simp [inTree, hy', hne]
      obtain ⟨ap, h1, h2, h3⟩ := ih hnd'.2 _ hst'
      have hap : ∀ q ∈ rs, (if q = r then a else ap q) = ap q := by
        intro q hq
        have : q ≠ r := fun he => hnd'.1 (he ▸ hq)
        rw [if_neg this]
      refine ⟨fun q => if q = r then a else ap q, ?_, ?_, ?_⟩
      · intro r' hr' hne
        rcases List.mem_cons.mp hr' with h | h
        · simp only [h, if_true]; exact hspec
        · simp only [hap r' h]; exact h1 r' h hne
      · rw [h2, hnr, List.filter_cons]
        have hb : (!(treeLeafs t ss r).isEmpty) = true := by
          cases h : treeLeafs t ss r with
          | nil => exact absurd h hL
          | cons a l => rfl
        rw [if_pos hb, List.map_cons, List.append_assoc]
        simp only [if_true, List.singleton_append]
        congr 2
        apply List.map_congr_left
        intro q hq
        exact (hap q (List.mem_filter.mp hq).1).symm
      · intro x
        rw [h3 x, hmem x]
        constructor
        · rintro ((h | ⟨l, hl, h⟩) | ⟨r', hr', l, hl, h⟩)
          · exact Or.inl h
          · exact Or.inr ⟨r, List.mem_cons_self, l, hl, by simpa using h⟩
          · exact Or.inr ⟨r', List.mem_cons_of_mem _ hr', l, hl, by simpa [hap r' hr'] using h⟩
        · rintro (h | ⟨r', hr', l, hl, h⟩)
          · exact Or.inl (Or.inl h)
          · rcases List.mem_cons.mp hr' with he | he
            · subst he
              exact Or.inl (Or.inr ⟨l, hl, by simpa using h⟩)
            · exact Or.inr ⟨r', he, l, hl, by simpa [hap r' he] using h⟩

/-- **Characterisation of `connectedSubgraph`.**  There is one apex `ap r` per tree with requested nodes; the
included nodes are exactly the nodes on the tree paths from the in-subset leafs up to the apex of their
tree, and the new roots are the apexes. -/
theorem connSub_spec {t : Table} (hw : WF t) (ss : List Int) :
    ∃ ap : Int → Int,
      (∀ r ∈ roots t, treeLeafs t ss r ≠ [] → TreeSpec t ss r (ap r)) ∧
      (connectedSubgraph t ss).2 = ((roots t).filter fun r => !(treeLeafs t ss r).isEmpty).map ap ∧
      ∀ x, x ∈ (connectedSubgraph t ss).1 ↔
        ∃ r ∈ roots t, ∃ l ∈ treeLeafs t ss r, x ∈ rootPath t l ∧ ap r ∈ rootPath t x := by
  obtain ⟨ap, h1, h2, h3⟩ := fold_spec hw (ss := ss) (roots t) (roots_nodup hw.1) ([], []) (by simp)
  exact ⟨ap, h1, by simpa [connectedSubgraph] using h2, fun x => by simpa [connectedSubgraph] using h3 x⟩

/-! ### connectedness, minimality, new roots -/

/-- `x` is a *top* of `K`: it is kept and its parent is not (it is a root of the forest, or its parent is
dropped).  These are exactly the nodes that `subset` turns into roots. -/
def IsTopOf (t : Table) (K : List Int) (x : Int) : Prop :=
  x ∈ K ∧ ∀ n, find? t x = some n → n.parent < 0 ∨ n.parent ∉ K

/-- `K` is connected within every tree of the forest: a tree has at most one top, i.e. every kept node other
than the tree's kept top has its parent kept. -/
def TreeConnected (t : Table) (K : List Int) : Prop :=
  ∀ x y, IsTopOf t K x → IsTopOf t K y → rootOf t x = rootOf t y → x = y

theorem rootOf_treeLeaf {t : Table} (hw : WF t) {ss : List Int} {r l x : Int} (hl : l ∈ treeLeafs t ss r)
    (hx : x ∈ rootPath t l) : rootOf t x = some r := by
  rw [anc_rootOf hw hx]; exact (mem_treeLeafs.mp hl).2

/-- The included set has at most one top per tree. -/
theorem connSub_treeConnected {t : Table} (hw : WF t) (ss : List Int) :
    TreeConnected t (connectedSubgraph t ss).1 := by
  obtain ⟨ap, _, _, h3⟩ := connSub_spec hw ss
  have key : ∀ x, IsTopOf t (connectedSubgraph t ss).1 x → ∀ r ∈ roots t, ∀ l ∈ treeLeafs t ss r,
      x ∈ rootPath t l → ap r ∈ rootPath t x → x = ap r := by
    intro x hx r hr l hl hxl hax
    apply Classical.byContradiction
    intro hne
    obtain ⟨n, hf, hp, hap, hpx⟩ := anc_parent hw hax hne
    have hin : n.parent ∈ (connectedSubgraph t ss).1 :=
      (h3 n.parent).mpr ⟨r, hr, l, hl, anc_trans hw hpx hxl, hap⟩
    rcases hx.2 n hf with h | h
    · exact hp h
    · exact h hin
  intro x y hx hy hxy
  obtain ⟨r, hr, l, hl, hxl, hax⟩ := (h3 x).mp hx.1
  obtain ⟨r', hr', l', hl', hyl, hay⟩ := (h3 y).mp hy.1
  have e : r = r' := by
    have h1 := rootOf_treeLeaf hw hl hxl
    have h2 := rootOf_treeLeaf hw hl' hyl
    rw [h1, h2] at hxy
    exact Option.some.inj hxy
  subst e
  rw [key x hx r hr l hl hxl hax, key y hy r hr l' hl' hyl hay]

/-- The new roots are tops of the included set, and every tree with a requested node gets one. -/
theorem connSub_newRoots {t : Table} (hw : WF t) (ss : List Int) :
    (∀ a ∈ (connectedSubgraph t ss).2, IsTopOf t (connectedSubgraph t ss).1 a) ∧
    (∀ s ∈ ss, s ∈ ids t → s ∈ (connectedSubgraph t ss).1 ∧
      ∃ a ∈ (connectedSubgraph t ss).2, rootOf t a = rootOf t s) := by
  obtain ⟨ap, h1, h2, h3⟩ := connSub_spec hw ss
  constructor
  · intro a ha
    rw [h2] at ha
    obtain ⟨r, hr, rfl⟩ := List.mem_map.mp ha
    obtain ⟨hr, hne⟩ := List.mem_filter.mp hr
    have hL : treeLeafs t ss r ≠ [] := by
      intro h; rw [h] at hne; simp at hne
    have hs := h1 r hr hL
    obtain ⟨l, hl⟩ := List.exists_mem_of_ne_nil _ hL
    have hal := hs.common l hl
    refine ⟨(h3 _).mpr ⟨r, hr, l, hl, hal, anc_refl (anc_ids hal).1⟩, ?_⟩
    intro n hf
    by_cases hp : n.parent < 0
    · exact Or.inl hp
    · right
      intro hin
      obtain ⟨r', hr', l', hl', hpl, hap⟩ := (h3 _).mp hin
      have hn := find?_some hf
      have hpa : n.parent ∈ rootPath t (ap r) := by
        rw [← hn.2, rootPath_of_nonroot hw (by rw [hn.2]; exact hf) hp]
        exact List.mem_cons_of_mem _ (anc_refl (WF_parent_mem hw hn.1 hp))
      have e : r' = r := by
        have h1' := rootOf_treeLeaf hw hl' hpl
        have h2' := rootOf_treeLeaf hw hl (anc_trans hw hpa hal)
        rw [h1'] at h2'
        exact Option.some.inj h2'
      rw [e, ← hn.2] at hap
      exact parent_not_anc hw hn.1 hp hap
  · intro s hs hsi
    obtain ⟨r, hsr, hr, _⟩ := rootOf_spec hw hsi
    obtain ⟨l, hl, hsl, _⟩ := exists_ssLeaf_below hw ss (t.length + 1) s hsi hs (by omega)
    have hlL : l ∈ treeLeafs t ss r := mem_treeLeafs.mpr ⟨hl, by rw [← anc_rootOf hw hsl]; exact hsr⟩
    have hL : treeLeafs t ss r ≠ [] := List.ne_nil_of_mem hlL
    have hspec := h1 r hr hL
    obtain ⟨l', hl', hsl', has⟩ := hspec.covers s hs hsi (by simp [inTree, hsr])
    refine ⟨(h3 s).mpr ⟨r, hr, l', hl', hsl', has⟩, ap r, ?_, ?_⟩
    · rw [h2]
      refine List.mem_map.mpr ⟨r, List.mem_filter.mpr ⟨hr, ?_⟩, rfl⟩
      cases h : treeLeafs t ss r with
      | nil => exact absurd h hL
      | cons a l => rfl
    · rw [anc_rootOf hw has]

theorem connSub_sub_ids {t : Table} (hw : WF t) (ss : List Int) :
    ∀ x ∈ (connectedSubgraph t ss).1, x ∈ ids t := by
  obtain ⟨ap, _, _, h3⟩ := connSub_spec hw ss
  intro x hx
  obtain ⟨_, _, _, _, hxl, _⟩ := (h3 x).mp hx
  exact (anc_ids hxl).1

/-- Walking up from a kept node inside `K` ends in a top of `K`; everything passed on the way is kept. -/
theorem exists_top_above {t : Table} (hw : WF t) (K : List Int) :
    ∀ y ∈ ids t, y ∈ K → ∃ top, IsTopOf t K top ∧ top ∈ rootPath t y ∧
      ∀ z ∈ rootPath t y, top ∈ rootPath t z → z ∈ K := by
  refine WF_induct hw _ ?_
  intro n hn hcase hy
  have hf := find?_of_mem hw.1 hn
  have hself := anc_refl (mem_ids_of_mem hn)
  have hme : IsTopOf t K n.id → ∃ top, IsTopOf t K top ∧ top ∈ rootPath t n.id ∧
      ∀ z ∈ rootPath t n.id, top ∈ rootPath t z → z ∈ K := by
    intro htop
    refine ⟨n.id, htop, hself, ?_⟩
    intro z hz hnz
    rw [anc_antisymm hw hz hnz]; exact hy
  by_cases hp : n.parent < 0
  · apply hme
    refine ⟨hy, fun m hm => ?_⟩
    rw [hf] at hm
    rw [← Option.some.inj hm]; exact Or.inl hp
  · by_cases hpk : n.parent ∈ K
    · rcases hcase with hc | hc
      · exact absurd hc hp
      · obtain ⟨top, h1, h2, h3⟩ := hc hpk
        have e := rootPath_of_nonroot hw hf hp
        refine ⟨top, h1, by rw [e]; exact List.mem_cons_of_mem _ h2, ?_⟩
        intro z hz htz
        rw [e] at hz
        rcases List.mem_cons.mp hz with h | h
        · rw [h]; exact hy
        · exact h3 z h htz
    · apply hme
      refine ⟨hy, fun m hm => ?_⟩
      rw [hf] at hm
      rw [← Option.some.inj hm]; exact Or.inr hpk

/-- **Minimality**: every tree-connected superset of the request contains the included set. -/
theorem connSub_min {t : Table} (hw : WF t) (ss : List Int) (K : List Int) (hsup : ∀ s ∈ ss, s ∈ K)
    (hconn : TreeConnected t K) : ∀ x ∈ (connectedSubgraph t ss).1, x ∈ K := by
  obtain ⟨ap, h1, _, h3⟩ := connSub_spec hw ss
  intro x hx
  obtain ⟨r, hr, l, hl, hxl, hax⟩ := (h3 x).mp hx
  have hspec := h1 r hr (List.ne_nil_of_mem hl)
  have hleafK : ∀ l' ∈ treeLeafs t ss r, l' ∈ ids t ∧ l' ∈ K := by
    intro l' hl'
    have := mem_ssLeafs.mp (mem_treeLeafs.mp hl').1
    exact ⟨this.1, hsup l' this.2.1⟩
  rcases hspec.minimal x ⟨l, hl, hxl, hax⟩ with h | h
  · exact hsup x h
  · apply Classical.byContradiction
    intro hxK
    obtain ⟨top1, ht1, ht1l, hall1⟩ := exists_top_above hw K l (hleafK l hl).1 (hleafK l hl).2
    rcases anc_comparable hw hxl ht1l with hc | hc
    · -- x is above the top reached from l
      have hne : top1 ≠ x := fun he => hxK (he ▸ ht1.1)
      obtain ⟨l', hl', hnot⟩ := h top1 hc hne
      obtain ⟨top2, ht2, ht2l, _⟩ := exists_top_above hw K l' (hleafK l' hl').1 (hleafK l' hl').2
      have e : top1 = top2 := by
        apply hconn top1 top2 ht1 ht2
        rw [rootOf_treeLeaf hw hl ht1l, rootOf_treeLeaf hw hl' ht2l]
      exact hnot (e ▸ ht2l)
    · exact hxK (hall1 x hxl hc)

/-! ### what `subset` and the final reroot do with the included set -/

theorem subset_root_top {t : Table} (hw : WF t) (K : List Int) {m : Node}
    (hm : m ∈ subset t fun i => K.contains i) (hp : m.parent < 0) : IsTopOf t K m.id := by
  obtain ⟨n, hn, hid, hk, _, _, _, hpar⟩ := subset_parent hw.1 _ hm
  have hf := find?_of_mem hw.1 hn
  rw [hid] at hf hk
  refine ⟨by simpa using hk, fun n' hf' => ?_⟩
  rw [hf] at hf'
  rw [← Option.some.inj hf']
  by_cases hnp : n.parent < 0
  · exact Or.inl hnp
  · right
    intro hin
    have : n.parent ∈ (ids t).filter fun i => K.contains i :=
      List.mem_filter.mpr ⟨WF_parent_mem hw hn hnp, by simpa using hin⟩
    rw [if_pos this] at hpar
    rw [hpar] at hp
    exact hnp hp

theorem subset_top_root {t : Table} (hw : WF t) (K : List Int) {a : Int} (ha : a ∈ ids t) (htop : IsTopOf t K a) :
    ∃ m, find? (subset t fun i => K.contains i) a = some m ∧ m.parent < 0 := by
  have hmem : a ∈ ids (subset t fun i => K.contains i) := by
    rw [ids_subset]
    exact List.mem_filter.mpr ⟨ha, by simpa using htop.1⟩
  obtain ⟨m, hm, rfl⟩ := mem_ids.mp hmem
  refine ⟨m, find?_of_mem (WF_subset hw _).1 hm, ?_⟩
  obtain ⟨n, hn, hid, _, _, _, _, hpar⟩ := subset_parent hw.1 _ hm
  have hf := find?_of_mem hw.1 hn
  rw [hid] at hf
  rw [hpar]
  split
  · rename_i hin
    obtain ⟨hin1, hin2⟩ := List.mem_filter.mp hin
    rcases htop.2 n hf with h | h
    · obtain ⟨q, hq, hq'⟩ := mem_ids.mp hin1
      have := hw.2.1 q hq
      omega
    · exact absurd (by simpa using hin2) h
  · decide

theorem rerootMany_of_roots (T : Table) (rs : List Int)
    (h : ∀ a ∈ rs, ∃ m, find? T a = some m ∧ m.parent < 0) : rerootMany T rs = T := by
  unfold rerootMany
  induction rs with
  | nil => rfl
  | cons a rs ih =>
    rw [List.foldl_cons]
    obtain ⟨m, hf, hp⟩ := h a List.mem_cons_self
    have e : reroot T a = T := by
      unfold reroot
      rw [hf]
      simp [hp]
    rw [e]
    exact ih fun a' ha' => h a' (List.mem_cons_of_mem _ ha')

/-- The included set already has the new roots as its tops, so the reroot after subsetting changes nothing:
`subset_neuron(prevent_fragments=True)` is `subset` on the connected subgraph. -/
theorem subsetPF_eq {t : Table} (hw : WF t) (ss : List Int) :
    subsetPF t ss = subset t fun i => (connectedSubgraph t ss).1.contains i := by
  unfold subsetPF
  apply rerootMany_of_roots
  intro a ha
  have htop := (connSub_newRoots hw ss).1 a ha
  exact subset_top_root hw _ (connSub_sub_ids hw ss a htop.1) htop

end Navis.Forest
