import NavisModel.Proofs.BranchingLemmas
/-! C13 second pass, "branching structure unchanged" at full strength for downsampling: in a contraction `u` of `t`
(`Contracts t u`: kept rows, each linked to the first kept node above it, only single-child nodes dropped) the root path
of every kept node is its old root path restricted to the kept nodes — the ancestor relation among kept nodes is
inherited unchanged.  Core Lean only. -/
namespace Navis.Forest

theorem rootPath_cons_tail {t : Table} (hw : WF t) {i : Int} (hi : i ∈ ids t) :
    rootPath t i = i :: (rootPath t i).tail := by
  obtain ⟨n, hn, rfl⟩ := mem_ids.mp hi
  have hf := find?_of_mem hw.1 hn
  by_cases hp : n.parent < 0
  · rw [rootPath_of_root hf hp]; rfl
  · rw [rootPath_of_nonroot hw hf hp]; rfl

theorem filter_eq_nil_of_find?_none {α} {p : α → Bool} {l : List α} (h : l.find? p = none) : l.filter p = [] := by
  rw [List.filter_eq_nil_iff]
  intro a ha
  have := List.find?_eq_none.mp h a ha
  simpa using this

/-- **Root paths are inherited**: for every kept node, `rootPath u i = (rootPath t i).filter kept`. -/
theorem rootPath_contract {t u : Table} (hw : WF t) (hwu : WF u) (h : Contracts t u) :
    ∀ (n : Nat) (i : Int), i ∈ ids u → (rootPath t i).length ≤ n →
      rootPath u i = (rootPath t i).filter (fun a => (ids u).contains a) := by
  intro n
  induction n with
  | zero =>
    intro i hi hlen
    obtain ⟨m, hm, hmid⟩ := mem_ids.mp hi
    have hit : i ∈ ids t := hmid ▸ h.sub m hm
    rw [rootPath_cons_tail hw hit] at hlen
    simp at hlen
  | succ n ih =>
    intro i hi hlen
    obtain ⟨m, hm, hmid⟩ := mem_ids.mp hi
    have hit : i ∈ ids t := hmid ▸ h.sub m hm
    have hfu : find? u i = some m := hmid ▸ find?_of_mem hwu.1 hm
    have hsplit := rootPath_cons_tail hw hit
    have hkept : (ids u).contains i = true := by simpa using hi
    rcases h.link m hm with ⟨hnone, hneg⟩ | ⟨a, hfd, hpa⟩
    · rw [hmid] at hnone
      rw [rootPath_of_root hfu hneg, hsplit, List.filter_cons, if_pos hkept, filter_eq_nil_of_find?_none hnone]
    · rw [hmid] at hfd
      rw [List.find?_eq_some_iff_append] at hfd
      obtain ⟨hka, as, bs, hl, has⟩ := hfd
      have hau : a ∈ ids u := by simpa using hka
      have ha0 : 0 ≤ a := ids_nonneg hwu.2.1 hau
      have hnr : ¬ m.parent < 0 := by omega
      rw [rootPath_of_nonroot hwu hfu hnr, hpa]
      -- the old root path of `a` is `a :: bs`
      have hpath : rootPath t i = (i :: as) ++ a :: bs := by rw [hsplit, hl]; rfl
      have hain : a ∈ rootPath t i := by rw [hpath]; simp
      have hat : a ∈ ids t := rootPath_sub hain
      obtain ⟨P, hP⟩ := rootPath_suffix hw i hit a hain
      have hasplit := rootPath_cons_tail hw hat
      have hnd := rootPath_nodup hw i
      have h1 : a ∉ i :: as := by
        have := hnd; rw [hpath] at this
        exact not_mem_prefix_of_nodup this
      have h2 : a ∉ P := by
        have := hnd; rw [← hP, hasplit] at this
        exact not_mem_prefix_of_nodup this
      have heq : (i :: as) ++ a :: bs = P ++ a :: (rootPath t a).tail := by
        rw [← hpath, ← hP, ← hasplit]
      obtain ⟨_, hbs⟩ := split_unique heq h1 h2
      have hra : rootPath t a = a :: bs := by rw [hasplit, ← hbs]
      have hlen_a : (rootPath t a).length ≤ n := by
        rw [hpath] at hlen
        rw [hra]
        simp only [List.length_append, List.length_cons] at hlen ⊢
        omega
      have hasn : as.filter (fun a => (ids u).contains a) = [] := by
        rw [List.filter_eq_nil_iff]
        intro x hx
        have := has x hx
        simpa using this
      have hR : (rootPath t i).filter (fun a => (ids u).contains a) = i :: a :: bs.filter (fun a => (ids u).contains a) := by
        rw [hpath, List.filter_append, List.filter_cons, if_pos hkept, hasn]
        simp only [List.cons_append, List.nil_append]
        rw [List.filter_cons, if_pos hka]
      have hL : (rootPath t a).filter (fun a => (ids u).contains a) = a :: bs.filter (fun a => (ids u).contains a) := by
        rw [hra, List.filter_cons, if_pos hka]
      rw [ih a hau hlen_a, hL, hR]

end Navis.Forest
