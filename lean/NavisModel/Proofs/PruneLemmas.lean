import NavisModel.Model.Prune
import NavisModel.Proofs.DistLemmas
/-!
Helper lemmas for C12 (pruning): recursive `prune_twigs` reaches a fixpoint within `|t|` rounds and
removes only twig nodes; the pruning functions preserve well-formedness; the Strahler index sets of
`prune_by_strahler` (`range`, `slice`, `list`); `prune_at_depth` keeps its source and is monotone in
the depth.  Core Lean only.
-/
namespace Navis.Forest

/-! ### the nodes of a small segment are rows -/

/-- Every node emitted by `walkToStop`, except possibly the last one, was looked up successfully
at the following step; and a non-empty walk started at a row.  (No `WF` needed.) -/
theorem walkToStop_mem (t : Table) (stop : Int → Bool) : ∀ (fuel : Nat) (i : Int),
    (walkToStop t stop fuel i ≠ [] → i ∈ ids t) ∧
    ∀ x ∈ (walkToStop t stop fuel i).dropLast, x ∈ ids t := by
  intro fuel
  induction fuel with
  | zero => intro i; simp [walkToStop]
  | succ fuel ih =>
    intro i
    unfold walkToStop
    cases hf : find? t i with
    | none => simp
    | some n =>
      have hi : i ∈ ids t := mem_ids.mpr ⟨n, find?_some hf⟩
      refine ⟨fun _ => hi, ?_⟩
      simp only
      split
      · simp
      · split
        · simp
        · intro x hx
          obtain ⟨ih1, ih2⟩ := ih n.parent
          cases hw : walkToStop t stop fuel n.parent with
          | nil => rw [hw] at hx; simp at hx
          | cons b rest =>
            rw [hw] at hx ih1 ih2
            rw [List.dropLast_cons_cons] at hx
            rcases List.mem_cons.mp hx with h | h
            · rw [h]; exact ih1 (by simp)
            · exact ih2 x h

/-- All nodes but the last of a small segment are rows of the table. -/
theorem smallSegments_dropLast_mem {t : Table} {s : List Int} (hs : s ∈ smallSegments t) :
    ∀ x ∈ s.dropLast, x ∈ ids t := by
  unfold smallSegments at hs
  obtain ⟨n, hn, rfl⟩ := List.mem_map.mp hs
  have hn' := (List.mem_filter.mp hn).1
  obtain ⟨_, h2⟩ := walkToStop_mem t (isBranchOrRoot t) (t.length + 1) n.id
  intro x hx
  cases hw : walkToStop t (isBranchOrRoot t) (t.length + 1) n.id with
  | nil => rw [hw] at hx; simp at hx
  | cons b rest =>
    rw [hw] at hx h2
    rw [List.dropLast_cons_cons] at hx
    rcases List.mem_cons.mp hx with h | h
    · rw [h]; exact mem_ids_of_mem hn'
    · exact h2 x h

/-- One round of `prune_twigs` only ever removes rows of the table. -/
theorem twigDelete_sub_ids {t : Table} {len : Int → Int → Nat} {size : Nat} {mask : Option (List Int)} {x : Int}
    (hx : x ∈ twigDelete t len size mask) : x ∈ ids t := by
  unfold twigDelete at hx
  obtain ⟨s, hs, hxs⟩ := List.mem_flatMap.mp hx
  have hs1 := (List.mem_filter.mp hs).1
  unfold terminalSegs at hs1
  exact smallSegments_dropLast_mem (List.mem_filter.mp hs1).1 x hxs

theorem twigDelete_nil (len : Int → Int → Nat) (size : Nat) (mask : Option (List Int)) :
    twigDelete [] len size mask = [] := rfl

/-! ### size of a subset -/

theorem length_subset (t : Table) (keep : Int → Bool) :
    (subset t keep).length = ((ids t).filter keep).length := by
  rw [← ids_subset, ids_length]

theorem length_subset_le (t : Table) (keep : Int → Bool) : (subset t keep).length ≤ t.length := by
  rw [length_subset, ← ids_length t]; exact List.length_filter_le _ _

/-- Dropping at least one existing row makes the table strictly shorter. -/
theorem length_subset_lt {t : Table} {keep : Int → Bool} {x : Int} (hx : x ∈ ids t) (hk : keep x = false) :
    (subset t keep).length < t.length := by
  rw [length_subset, ← ids_length t]
  exact List.length_filter_lt_length_iff_exists.mpr ⟨x, hx, by simp [hk]⟩

/-- A productive round removes at least one row. -/
theorem length_twigRound_lt {t : Table} {len : Int → Int → Nat} {size : Nat} {mask : Option (List Int)}
    (h : twigDelete t len size mask ≠ []) :
    (subset t fun i => !(twigDelete t len size mask).contains i).length < t.length := by
  obtain ⟨x, hx⟩ := List.exists_mem_of_ne_nil _ h
  exact length_subset_lt (twigDelete_sub_ids hx) (by simpa using hx)

/-! ### unfolding `pruneTwigs` -/

theorem pruneTwigsOnce_eq (t : Table) (len : Int → Int → Nat) (size : Nat) (mask : Option (List Int)) :
    pruneTwigsOnce t len size mask =
      if (twigDelete t len size mask).isEmpty then t
      else subset t fun i => !(twigDelete t len size mask).contains i := rfl

theorem pruneTwigs_zero (t : Table) (len : Int → Int → Nat) (size : Nat) (mask : Option (List Int)) :
    pruneTwigs t len size mask 0 = pruneTwigsOnce t len size mask := rfl

theorem pruneTwigs_succ (t : Table) (len : Int → Int → Nat) (size : Nat) (mask : Option (List Int)) (k : Nat) :
    pruneTwigs t len size mask (k + 1) =
      if (twigDelete t len size mask).isEmpty then t
      else pruneTwigs (subset t fun i => !(twigDelete t len size mask).contains i) len size mask k := rfl

theorem pruneTwigsOnce_of_nil {t : Table} {len : Int → Int → Nat} {size : Nat} {mask : Option (List Int)}
    (h : twigDelete t len size mask = []) : pruneTwigsOnce t len size mask = t := by
  rw [pruneTwigsOnce_eq, h]; rfl

theorem pruneTwigs_of_nil {t : Table} {len : Int → Int → Nat} {size : Nat} {mask : Option (List Int)}
    (h : twigDelete t len size mask = []) (k : Nat) : pruneTwigs t len size mask k = t := by
  cases k with
  | zero => exact pruneTwigsOnce_of_nil h
  | succ k => rw [pruneTwigs_succ, h]; rfl

theorem pruneTwigsOnce_of_ne_nil {t : Table} {len : Int → Int → Nat} {size : Nat} {mask : Option (List Int)}
    (h : twigDelete t len size mask ≠ []) :
    pruneTwigsOnce t len size mask = subset t fun i => !(twigDelete t len size mask).contains i := by
  rw [pruneTwigsOnce_eq, if_neg (by simpa using h)]

theorem pruneTwigs_succ_of_ne_nil {t : Table} {len : Int → Int → Nat} {size : Nat} {mask : Option (List Int)}
    (h : twigDelete t len size mask ≠ []) (k : Nat) :
    pruneTwigs t len size mask (k + 1) =
      pruneTwigs (subset t fun i => !(twigDelete t len size mask).contains i) len size mask k := by
  rw [pruneTwigs_succ, if_neg (by simpa using h)]

/-! ### fixpoint: `|t|` rounds suffice -/

/-- **Fuel sufficiency** (sharp form): after the first round plus `k` further rounds with
`|t| ≤ k + 1`, nothing more can be pruned. -/
theorem pruneTwigs_fixpoint_succ (len : Int → Int → Nat) (size : Nat) (mask : Option (List Int)) :
    ∀ (k : Nat) (t : Table), t.length ≤ k + 1 →
      twigDelete (pruneTwigs t len size mask k) len size mask = [] := by
  intro k
  induction k with
  | zero =>
    intro t hk
    rw [pruneTwigs_zero]
    by_cases h : twigDelete t len size mask = []
    · rw [pruneTwigsOnce_of_nil h]; exact h
    · rw [pruneTwigsOnce_of_ne_nil h]
      have hlt := length_twigRound_lt h
      have : (subset t fun i => !(twigDelete t len size mask).contains i) = [] :=
        List.eq_nil_of_length_eq_zero (by omega)
      rw [this]; rfl
  | succ k ih =>
    intro t hk
    by_cases h : twigDelete t len size mask = []
    · rw [pruneTwigs_of_nil h]; exact h
    · rw [pruneTwigs_succ_of_ne_nil h]
      have hlt := length_twigRound_lt h
      exact ih _ (by omega)

/-! ### the rounds of recursive pruning as a relation -/

/-- `TwigRounds len size mask t t'`: `t'` is obtained from `t` by zero or more *productive* rounds,
each removing exactly `twigDelete` of the then-current table. -/
inductive TwigRounds (len : Int → Int → Nat) (size : Nat) (mask : Option (List Int)) : Table → Table → Prop
  | done (t : Table) : TwigRounds len size mask t t
  | step {t t' : Table} : twigDelete t len size mask ≠ [] →
      TwigRounds len size mask (subset t fun i => !(twigDelete t len size mask).contains i) t' →
      TwigRounds len size mask t t'

namespace TwigRounds
variable {len : Int → Int → Nat} {size : Nat} {mask : Option (List Int)}

theorem trans {t u v : Table} (h1 : TwigRounds len size mask t u) (h2 : TwigRounds len size mask u v) :
    TwigRounds len size mask t v := by
  induction h1 with
  | done _ => exact h2
  | step hne _ ih => exact .step hne (ih h2)

theorem single {t : Table} (h : twigDelete t len size mask ≠ []) :
    TwigRounds len size mask t (subset t fun i => !(twigDelete t len size mask).contains i) :=
  .step h (.done _)

/-- Rows are only ever removed, and the row order is kept. -/
theorem ids_sublist {t t' : Table} (h : TwigRounds len size mask t t') : (ids t').Sublist (ids t) := by
  induction h with
  | done _ => exact List.Sublist.refl _
  | step _ _ ih => exact ih.trans (by rw [ids_subset]; exact List.filter_sublist)

theorem ids_sub {t t' : Table} (h : TwigRounds len size mask t t') {i : Int} (hi : i ∈ ids t') : i ∈ ids t :=
  h.ids_sublist.subset hi

theorem length_le {t t' : Table} (h : TwigRounds len size mask t t') : t'.length ≤ t.length := by
  have := h.ids_sublist.length_le
  simpa using this

theorem wf {t t' : Table} (h : TwigRounds len size mask t t') (hw : WF t) : WF t' := by
  induction h with
  | done _ => exact hw
  | step _ _ ih => exact ih (WF_subset hw _)

/-- Labels: a productive round re-classifies; with no productive round the input is returned as is. -/
theorem labels {t t' : Table} (h : TwigRounds len size mask t t') (hl : labelsOKB t = true) :
    labelsOKB t' = true := by
  induction h with
  | done _ => exact hl
  | step _ _ ih => exact ih (labelsOKB_subset _ _)

/-- **Only twigs are removed**: a row of `t` missing from `t'` was, in some intermediate table `u`
of the run, a member of that round's `twigDelete u`. -/
theorem removed {t t' : Table} (h : TwigRounds len size mask t t') {i : Int} (hi : i ∈ ids t) (hni : i ∉ ids t') :
    ∃ u, TwigRounds len size mask t u ∧ i ∈ ids u ∧ i ∈ twigDelete u len size mask ∧
      TwigRounds len size mask (subset u fun j => !(twigDelete u len size mask).contains j) t' := by
  induction h with
  | done _ => exact absurd hi hni
  | @step t t' hne hr ih =>
    by_cases hk : i ∈ ids (subset t fun j => !(twigDelete t len size mask).contains j)
    · obtain ⟨u, h1, h2, h3, h4⟩ := ih hk hni
      exact ⟨u, .step hne h1, h2, h3, h4⟩
    · refine ⟨t, .done _, hi, ?_, hr⟩
      rw [ids_subset, List.mem_filter] at hk
      have : ¬ (!(twigDelete t len size mask).contains i) = true := fun hc => hk ⟨hi, hc⟩
      simpa using this

/-- A surviving row was never in a round's delete set. -/
theorem kept {t t' : Table} (h : TwigRounds len size mask t t') {i : Int} (hi : i ∈ ids t') :
    i ∉ twigDelete t len size mask ∨ t' = t := by
  cases h with
  | done _ => exact Or.inr rfl
  | step hne hr =>
    left
    have := hr.ids_sub hi
    rw [ids_subset, List.mem_filter] at this
    simpa using this.2

end TwigRounds

/-- `pruneTwigs` performs productive rounds only. -/
theorem pruneTwigs_rounds (len : Int → Int → Nat) (size : Nat) (mask : Option (List Int)) :
    ∀ (k : Nat) (t : Table), TwigRounds len size mask t (pruneTwigs t len size mask k) := by
  intro k
  induction k with
  | zero =>
    intro t
    rw [pruneTwigs_zero]
    by_cases h : twigDelete t len size mask = []
    · rw [pruneTwigsOnce_of_nil h]; exact .done _
    · rw [pruneTwigsOnce_of_ne_nil h]; exact .single h
  | succ k ih =>
    intro t
    by_cases h : twigDelete t len size mask = []
    · rw [pruneTwigs_of_nil h]; exact .done _
    · rw [pruneTwigs_succ_of_ne_nil h]; exact .step h (ih _)

/-! ### well-formedness of the pruning functions -/

theorem WF_pruneTwigsOnce {t : Table} (hw : WF t) (len : Int → Int → Nat) (size : Nat) (mask : Option (List Int)) :
    WF (pruneTwigsOnce t len size mask) := by
  rw [← pruneTwigs_zero]; exact (pruneTwigs_rounds len size mask 0 t).wf hw

theorem WF_pruneTwigs {t : Table} (hw : WF t) (len : Int → Int → Nat) (size : Nat) (mask : Option (List Int)) (k : Nat) :
    WF (pruneTwigs t len size mask k) :=
  (pruneTwigs_rounds len size mask k t).wf hw

theorem WF_pruneAtDepth {t : Table} (hw : WF t) (len : Int → Int → Nat) (src : Int) (depth : Nat) :
    WF (pruneAtDepth t len src depth) := WF_subset hw _

theorem WF_longestNeurite {t : Table} (hw : WF t) (len : Int → Int → Nat) (lo hi : Nat) (inv : Bool) :
    WF (longestNeurite t len lo hi inv) := by
  simp only [longestNeurite]
  split
  · exact WF_subset hw _
  · exact WF_subset hw _

theorem pruneByStrahler_eq_subset {t : Table} {sel : SISel} {t' : Table} (h : pruneByStrahler t sel = some t') :
    ∃ s, siSet (((ids t).map (strahler t false [])).foldl max 0) sel = some s ∧
      t' = subset t fun i => !s.contains (strahler t false [] i) := by
  have e : pruneByStrahler t sel =
      (siSet (((ids t).map (strahler t false [])).foldl max 0) sel).map fun s =>
        subset t fun i => !s.contains (strahler t false [] i) := by
    simp only [pruneByStrahler]
    cases siSet (((ids t).map (strahler t false [])).foldl max 0) sel <;> rfl
  rw [e] at h
  cases hs : siSet (((ids t).map (strahler t false [])).foldl max 0) sel with
  | none => rw [hs] at h; simp at h
  | some s => rw [hs] at h; exact ⟨s, rfl, (Option.some.inj h).symm⟩

theorem WF_pruneByStrahler {t : Table} (hw : WF t) {sel : SISel} {t' : Table} (h : pruneByStrahler t sel = some t') :
    WF t' := by
  obtain ⟨s, _, rfl⟩ := pruneByStrahler_eq_subset h
  exact WF_subset hw _

/-! ### Strahler index sets -/

theorem filter_ge_one_range (n : Nat) : (List.range (n + 1)).filter (· ≥ 1) = List.range' 1 n := by
  rw [List.range_succ_eq_map, List.filter_cons]
  simp [List.filter_map, List.range'_eq_map_range, Function.comp_def, Nat.add_comm]
  rw [List.filter_eq_self.mpr (fun _ _ => rfl)]

theorem sliceBound_none (n d : Nat) : sliceBound n none d = d := rfl

/-- Non-negative bound: clipped to the length. -/
theorem sliceBound_nonneg (n d : Nat) {i : Int} (h : 0 ≤ i) : sliceBound n (some i) d = min n i.toNat := by
  unfold sliceBound; simp only [if_neg (show ¬ i < 0 by omega)]

/-- Negative bound: counted from the end, clipped to 0. -/
theorem sliceBound_neg (n d : Nat) {i : Int} (h : i < 0) : sliceBound n (some i) d = n - (-i).toNat := by
  unfold sliceBound; simp only [if_pos h]; omega

theorem sliceBound_le (n : Nat) (v : Option Int) {d : Nat} (h : d ≤ n) : sliceBound n v d ≤ n := by
  unfold sliceBound
  cases v with
  | none => exact h
  | some i => simp only; split <;> omega

theorem siSet_slice_eq (mx : Nat) (a b : Option Int) :
    siSet mx (.slice a b) =
      some (List.range' (sliceBound mx a 0 + 1) (sliceBound mx b mx - sliceBound mx a 0)) := by
  have hb := sliceBound_le mx b (Nat.le_refl mx)
  simp only [siSet, filter_ge_one_range, List.length_range']
  rw [List.take_range'_of_length_ge hb, List.drop_range']
  congr 2; omega

theorem mem_siSet_slice {mx : Nat} {a b : Option Int} {s : List Nat} (h : siSet mx (.slice a b) = some s) (i : Nat) :
    i ∈ s ↔ sliceBound mx a 0 < i ∧ i ≤ sliceBound mx b mx := by
  rw [siSet_slice_eq] at h
  rw [← Option.some.inj h, List.mem_range'_1]
  omega

theorem siSet_range_eq (mx : Nat) (a b : Int) :
    siSet mx (.range a b) = some ((List.range b.toNat).filter fun (i : Nat) => decide (a ≤ (i : Int))) := rfl

theorem mem_siSet_range {mx : Nat} {a b : Int} {s : List Nat} (h : siSet mx (.range a b) = some s) (i : Nat) :
    i ∈ s ↔ a ≤ (i : Int) ∧ (i : Int) < b := by
  rw [siSet_range_eq] at h
  rw [← Option.some.inj h, List.mem_filter, List.mem_range, decide_eq_true_eq]
  omega

theorem siSet_list_eq (mx : Nat) (ks : List Int) :
    siSet mx (.list ks) = some ((ks.filter (· ≥ 0)).map Int.toNat) := rfl

theorem mem_siSet_list {mx : Nat} {ks : List Int} {s : List Nat} (h : siSet mx (.list ks) = some s) (i : Nat) :
    i ∈ s ↔ (i : Int) ∈ ks := by
  rw [siSet_list_eq] at h
  rw [← Option.some.inj h, List.mem_map]
  constructor
  · rintro ⟨k, hk, rfl⟩
    rw [List.mem_filter, decide_eq_true_eq] at hk
    rw [Int.toNat_of_nonneg hk.2]; exact hk.1
  · intro hi
    exact ⟨(i : Int), List.mem_filter.mpr ⟨hi, by simp⟩, by simp⟩

/-! ### prune_at_depth -/

theorem mem_pruneAtDepth {t : Table} {len : Int → Int → Nat} {src : Int} {depth : Nat} {i : Int} :
    i ∈ ids (pruneAtDepth t len src depth) ↔
      i ∈ ids t ∧ ∃ d, geo t len false src i = some d ∧ d ≤ depth := by
  unfold pruneAtDepth
  rw [ids_subset, List.mem_filter]
  cases geo t len false src i <;> simp

end Navis.Forest
