import NavisModel.Model.Cache
/-!
Helper lemmas for C02 (cache protocol).  Core Lean only.
-/
namespace Navis.Cache

/-! ### The source-level obligations, unpacked -/

def Sound (sp : Spec) : Prop := soundB sp = true

structure SoundFacts (sp : Spec) : Prop where
  restamps : sp.clearRestamps = true
  deletes : sp.clearDeletes = true
  recomputes : sp.isStaleRecomputes = true
  wrapper : sp.wrapperChecks = true
  registered : ∀ v ∈ sp.views, v.attr ∈ sp.tempAttr
  exclFree : ∀ c ∈ sp.clearSites, ∀ v ∈ sp.views, exclMatches sp c.excl v.attr = false

theorem sound_facts {sp : Spec} (h : Sound sp) : SoundFacts sp := by
  unfold Sound soundB at h
  simp only [Bool.and_eq_true, List.all_eq_true, List.contains_iff_mem,
    Bool.not_eq_eq_eq_not, Bool.not_true] at h
  obtain ⟨⟨⟨⟨⟨h1, h2⟩, h3⟩, h4⟩, h5⟩, h6⟩ := h
  exact ⟨h1, h2, h3, h4, h5, h6⟩

theorem mem_cachedAttrs {sp : Spec} {a : Attr} : a ∈ cachedAttrs sp ↔ ∃ v ∈ sp.views, v.attr = a := by
  simp [cachedAttrs]

/-- Under the source-level obligations an effective clear with an `exclude` literal of the source
keeps no cache entry. -/
theorem retained_nil {sp : Spec} (h : SoundFacts sp) {excl : List String} (hk : knownExcl sp excl = true)
    {c : List (Attr × Nat)} (hc : ∀ p ∈ c, p.1 ∈ cachedAttrs sp) : retained sp excl c = [] := by
  unfold retained
  rw [List.filter_eq_nil_iff]
  intro p hp
  obtain ⟨v, hv, hva⟩ := mem_cachedAttrs.mp (hc p hp)
  have hreg : p.1 ∈ sp.tempAttr := hva ▸ h.registered v hv
  have hex : exclMatches sp excl p.1 = false := by
    unfold knownExcl at hk
    simp only [Bool.or_eq_true, beq_iff_eq, List.any_eq_true] at hk
    rcases hk with hk | ⟨cs, hcs, hce⟩
    · subst hk; simp [exclMatches]
    · have := h.exclFree cs hcs v hv
      rw [hce, hva] at this; exact this
  simp [hreg, hex]

/-! ### The inductive invariant -/

/-- "If the stamp equals the current content, every entry was computed from the current content",
plus bookkeeping (content ids seen so far are below `hi`; only registered attributes are cached). -/
structure J (sp : Spec) (s : St) : Prop where
  md5_lt : s.md5 < s.hi
  ver_lt : s.ver < s.hi
  attrs : ∀ p ∈ s.cache, p.1 ∈ cachedAttrs sp
  fresh : s.md5 = s.ver → ∀ p ∈ s.cache, p.2 = s.ver

/-- The invariant of DESIGN §5 C02. -/
def Inv (s : St) : Prop :=
  (s.lock = 0 ∧ s.stale = false ∧ s.md5 = s.ver) → ∀ p ∈ s.cache, p.2 = s.ver

theorem J.inv {sp : Spec} {s : St} (h : J sp s) : Inv s := fun hp => h.fresh hp.2.2

theorem J_init (sp : Spec) : J sp init := by
  refine ⟨by decide, by decide, ?_, ?_⟩ <;> simp [init]

theorem isStaleS_fields (sp : Spec) (s : St) :
    (isStaleS sp s).ver = s.ver ∧ (isStaleS sp s).hi = s.hi ∧ (isStaleS sp s).md5 = s.md5 ∧
    (isStaleS sp s).lock = s.lock ∧ (isStaleS sp s).cache = s.cache ∧
    (isStaleS sp s).tver = s.tver ∧ (isStaleS sp s).typeVer = s.typeVer := by
  unfold isStaleS; split
  · simp
  · split <;> simp

theorem J_isStale {sp : Spec} {s : St} (h : J sp s) : J sp (isStaleS sp s) := by
  obtain ⟨h1, h2, h3, h4, h5, _, _⟩ := isStaleS_fields sp s
  exact ⟨by rw [h3, h2]; exact h.md5_lt, by rw [h1, h2]; exact h.ver_lt,
    by rw [h5]; exact h.attrs, by rw [h3, h1, h5]; exact h.fresh⟩

theorem classifyS_J {sp : Spec} {s : St} (h : J sp s) : J sp (classifyS s) :=
  ⟨h.md5_lt, h.ver_lt, h.attrs, h.fresh⟩

theorem J_clearBase {sp : Spec} (hs : SoundFacts sp) {s : St} (h : J sp s) {excl : List String}
    (hk : knownExcl sp excl = true) : J sp (clearBase sp excl s) := by
  unfold clearBase
  split
  · exact h
  · simp only [hs.restamps, hs.deletes, if_true, retained_nil hs hk h.attrs]
    exact ⟨h.ver_lt, h.ver_lt, by simp, by simp⟩

theorem J_clear {sp : Spec} (hs : SoundFacts sp) {s : St} (h : J sp s) {excl : List String}
    (hk : knownExcl sp excl = true) : J sp (clearS sp excl s) := by
  unfold clearS
  split
  · exact J_clearBase hs h hk
  · exact classifyS_J (J_clearBase hs h hk)

theorem J_put {sp : Spec} {s : St} (h : J sp s) {a : Attr} (ha : a ∈ cachedAttrs sp) : J sp (put s a) := by
  refine ⟨h.md5_lt, h.ver_lt, ?_, ?_⟩
  · intro p hp
    simp only [put, List.mem_cons, List.mem_filter] at hp
    rcases hp with rfl | ⟨hp, _⟩
    · exact ha
    · exact h.attrs p hp
  · intro hm p hp
    simp only [put, List.mem_cons, List.mem_filter] at hp
    rcases hp with rfl | ⟨hp, _⟩
    · rfl
    · exact h.fresh hm p hp

theorem J_unlocked {sp : Spec} {s : St} (h : J sp s) : J sp (unlocked sp s) :=
  ⟨h.md5_lt, h.ver_lt, h.attrs, h.fresh⟩

theorem knownExcl_nil (sp : Spec) : knownExcl sp [] = true := by simp [knownExcl]

theorem J_copy {sp : Spec} (hs : SoundFacts sp) {s : St} (h : J sp s) : J sp (copyS sp s) := by
  unfold copyS
  split
  · split
    · exact J_clear hs (J_unlocked h) (knownExcl_nil sp)
    · exact J_unlocked h
  · exact J_unlocked h

theorem J_pickle {sp : Spec} {s : St} (h : J sp s) : J sp (pickleS sp s) := by
  refine ⟨h.md5_lt, h.ver_lt, ?_, ?_⟩
  · intro p hp
    simp only [pickleS, List.mem_filter] at hp
    exact h.attrs p hp.1
  · intro hm p hp
    simp only [pickleS, List.mem_filter] at hp
    exact h.fresh hm p hp.1

/-- One admissible primitive event preserves the invariant. -/
theorem J_step {sp : Spec} (hs : SoundFacts sp) {s : St} (h : J sp s) (e : Ev) (ha : admB sp s e = true) :
    J sp (step sp s e) := by
  cases e with
  | isStale => exact J_isStale h
  | copyOut => exact J_isStale h
  | clear excl => exact J_clear hs h ha
  | write a =>
    simp only [admB, List.contains_iff_mem] at ha
    exact J_put h ha
  | change v t =>
    simp only [admB, decide_eq_true_eq] at ha
    have hm := h.md5_lt
    refine ⟨?_, ?_, h.attrs, ?_⟩
    · show s.md5 < max s.hi (v + 1); omega
    · show v < max s.hi (v + 1); omega
    · intro hmd; exfalso
      have : s.md5 = v := hmd
      omega
  | classify => exact classifyS_J h
  | retype t0 =>
    simp only [step]
    split
    · exact classifyS_J h
    · exact h
  | lock => exact ⟨h.md5_lt, h.ver_lt, h.attrs, h.fresh⟩
  | unlock => exact ⟨h.md5_lt, h.ver_lt, h.attrs, h.fresh⟩
  | copy => exact J_copy hs h
  | pickle => exact J_pickle h
  | enter _ => exact h
  | exit _ => exact h

theorem J_run {sp : Spec} (hs : SoundFacts sp) : ∀ (es : List Ev) (s : St), J sp s → admAll sp s es = true →
    J sp (run sp s es) := by
  intro es
  induction es with
  | nil => intro s h _; exact h
  | cons e es ih =>
    intro s h ha
    simp only [admAll, Bool.and_eq_true] at ha
    exact ih _ (J_step hs h e ha.1) ha.2

theorem run_append (sp : Spec) (s : St) (es fs : List Ev) : run sp s (es ++ fs) = run sp (run sp s es) fs := by
  simp [run, List.foldl_append]

theorem admAll_append (sp : Spec) (s : St) (es fs : List Ev) :
    admAll sp s (es ++ fs) = (admAll sp s es && admAll sp (run sp s es) fs) := by
  induction es generalizing s with
  | nil => simp [admAll, run]
  | cons e es ih => simp [admAll, run, ih, Bool.and_assoc]

/-! ### Reads -/

theorem tagOf_put (s : St) (a : Attr) : tagOf (put s a) a = some s.ver := by
  simp [tagOf, put]

theorem tagOf_of_has {s : St} {a : Attr} (h : has s a = true) : ∃ p ∈ s.cache, tagOf s a = some p.2 := by
  unfold has at h; unfold tagOf
  rw [List.any_eq_true] at h
  obtain ⟨p, hp, hpa⟩ := h
  cases hf : s.cache.find? (fun p => p.1 == a) with
  | none => rw [List.find?_eq_none] at hf; exact absurd hpa (hf p hp)
  | some q => exact ⟨q, List.mem_of_find?_eq_some hf, rfl⟩

theorem has_put (s : St) (a : Attr) : has (put s a) a = true := by simp [has, put]

theorem has_isStaleS (sp : Spec) (s : St) (a : Attr) : has (isStaleS sp s) a = has s a := by
  unfold has; rw [(isStaleS_fields sp s).2.2.2.2.1]

theorem tagOf_isStaleS (sp : Spec) (s : St) (a : Attr) : tagOf (isStaleS sp s) a = tagOf s a := by
  unfold tagOf; rw [(isStaleS_fields sp s).2.2.2.2.1]

/-- compute-if-absent in a state whose entries are all current returns a current value -/
theorem fill_current (sp : Spec) (s : St) (v : View) (hf : ∀ p ∈ s.cache, p.2 = s.ver) :
    tagOf (run sp s (fillPrims s v)) v.attr = some s.ver ∧ (run sp s (fillPrims s v)).ver = s.ver ∧
    (∀ p ∈ (run sp s (fillPrims s v)).cache, p.2 = s.ver) := by
  unfold fillPrims
  by_cases hh : has s v.attr = true
  · rw [if_pos hh]
    obtain ⟨p, hp, ht⟩ := tagOf_of_has hh
    exact ⟨by simpa [run, hf p hp] using ht, rfl, hf⟩
  · rw [if_neg hh]
    have hput : ∀ s' : St, s'.ver = s.ver → (∀ p ∈ s'.cache, p.2 = s.ver) →
        tagOf (put s' v.attr) v.attr = some s.ver ∧ (put s' v.attr).ver = s.ver ∧
        ∀ p ∈ (put s' v.attr).cache, p.2 = s.ver := by
      intro s' hv hc
      refine ⟨by rw [tagOf_put, hv], hv, ?_⟩
      intro p hp
      simp only [put, List.mem_cons, List.mem_filter] at hp
      rcases hp with rfl | ⟨hp, _⟩
      · exact hv
      · exact hc p hp
    by_cases hsc : v.selfCopy = true
    · simp only [hsc, if_true, run, List.cons_append, List.nil_append, List.foldl_cons, List.foldl_nil, step]
      obtain ⟨h1, _, _, _, h5, _, _⟩ := isStaleS_fields sp s
      exact hput _ h1 (by rw [h5]; exact hf)
    · simp only [hsc, run]
      exact hput s rfl hf

/-- what the wrapper establishes on an unlocked neuron: stamp = content and every entry current -/
theorem wrapper_establishes {sp : Spec} (hs : SoundFacts sp) {s : St} (h : J sp s) (hl : s.lock = 0) :
    let s1 := run sp s (wrapperPrims sp s)
    s1.ver = s.ver ∧ s1.md5 = s1.ver ∧ s1.stale = false ∧ s1.lock = 0 ∧ (∀ p ∈ s1.cache, p.2 = s1.ver) ∧ J sp s1 := by
  intro s1
  have hw : wrapperPrims sp s = if (isStaleS sp s).stale then [.isStale, .clear []] else [.isStale] := by
    unfold wrapperPrims; simp [hs.wrapper, hl]
  obtain ⟨f1, f2, f3, f4, f5, _, _⟩ := isStaleS_fields sp s
  by_cases hst : (isStaleS sp s).stale = true
  · have e1 : s1 = clearS sp [] (isStaleS sp s) := by
      show run sp s (wrapperPrims sp s) = _
      rw [hw, if_pos hst]; rfl
    have hJ : J sp s1 := e1 ▸ J_clear hs (J_isStale h) (knownExcl_nil sp)
    have hb : clearBase sp [] (isStaleS sp s) =
        { isStaleS sp s with md5 := (isStaleS sp s).ver, stale := false,
                              cache := retained sp [] (isStaleS sp s).cache } := by
      unfold clearBase
      simp [f4, hl, hs.restamps, hs.deletes]
    have hr : retained sp [] (isStaleS sp s).cache = [] :=
      retained_nil hs (knownExcl_nil sp) (by rw [f5]; exact h.attrs)
    have e2 : s1 = classifyS (clearBase sp [] (isStaleS sp s)) := by
      rw [e1]; unfold clearS; simp
    rw [hb, hr] at e2
    refine ⟨?_, ?_, ?_, ?_, ?_, hJ⟩ <;> rw [e2] <;> simp [classifyS, f1, f4, hl]
  · have e1 : s1 = isStaleS sp s := by
      show run sp s (wrapperPrims sp s) = _
      rw [hw, if_neg hst]; rfl
    have hst' : (isStaleS sp s).stale = false := by simpa using hst
    -- the flag was recomputed (or was already false with equal stamps)
    have hmd : s.md5 = s.ver := by
      unfold isStaleS at hst'
      by_cases hc : (sp.isStaleSticky && s.stale) = true
      · rw [if_pos hc] at hst'
        simp only [Bool.and_eq_true] at hc
        rw [hc.2] at hst'; exact absurd hst' (by decide)
      · rw [if_neg hc, if_pos hs.recomputes] at hst'
        simpa using hst'
    have hJ : J sp s1 := e1 ▸ J_isStale h
    refine ⟨by rw [e1, f1], by rw [e1, f3, f1]; exact hmd, by rw [e1]; exact hst', by rw [e1, f4]; exact hl, ?_, hJ⟩
    intro p hp
    exact hJ.fresh (by rw [e1, f3, f1]; exact hmd) p hp

theorem run_cons (sp : Spec) (s : St) (e : Ev) (es : List Ev) : run sp s (e :: es) = run sp (step sp s e) es := rfl

theorem readS_eq (sp : Spec) (s : St) (v : View) :
    readS sp s v = run sp (run sp s (viewPrefix sp s v)) (fillPrims (run sp s (viewPrefix sp s v)) v) := by
  unfold readS readPrims
  rw [run_append, run_append, run_append]
  rfl

/-- **Wrapped read on an unlocked neuron returns a value computed from the current content.** -/
theorem read_current {sp : Spec} (hs : SoundFacts sp) {s : St} (h : J sp s) (hl : s.lock = 0)
    {v : View} (hw : v.wrapped = true) :
    readTag sp s v = some s.ver ∧ (readS sp s v).ver = s.ver := by
  unfold readTag
  rw [readS_eq]
  have hp : viewPrefix sp s v = wrapperPrims sp s := by simp [viewPrefix, hw]
  rw [hp]
  obtain ⟨e1, _, _, _, e5, _⟩ := wrapper_establishes hs h hl
  obtain ⟨t1, t2, _⟩ := fill_current sp _ v e5
  exact ⟨by rw [t1, e1], by rw [t2, e1]⟩

/-! ### A cached view without the wrapper returns the old value after a change -/

theorem unwrapped_stale (sp : Spec) (s : St) (v : View) (hw : v.wrapped = false)
    (habs : has s v.attr = false) (v' t : Nat) :
    readTag sp (step sp (readS sp s v) (.change v' t)) v = some s.ver ∧
    (step sp (readS sp s v) (.change v' t)).ver = v' := by
  have hp : ∀ s', viewPrefix sp s' v = [] := by intro s'; simp [viewPrefix, hw]
  -- first read: absent, so it is computed from `s.ver`
  have h1 : has (readS sp s v) v.attr = true ∧ tagOf (readS sp s v) v.attr = some s.ver := by
    rw [readS_eq, hp]
    simp only [run, List.foldl_nil]
    unfold fillPrims
    rw [if_neg (by simp [habs])]
    by_cases hsc : v.selfCopy = true
    · simp only [hsc, if_true, List.cons_append, List.nil_append, List.foldl_cons, List.foldl_nil, step]
      refine ⟨has_put _ _, ?_⟩
      rw [tagOf_put, (isStaleS_fields sp s).1]
    · simp only [hsc]
      exact ⟨has_put _ _, tagOf_put _ _⟩
  refine ⟨?_, rfl⟩
  unfold readTag
  rw [readS_eq, hp]
  simp only [run, List.foldl_nil]
  have hh : has (step sp (readS sp s v) (.change v' t)) v.attr = true := by
    simpa [has, step] using h1.1
  unfold fillPrims
  rw [if_pos hh]
  simpa [tagOf, step] using h1.2

/-! ### The `type` column -/

theorem clearBase_type (sp : Spec) (excl : List String) (s : St) :
    (clearBase sp excl s).tver = s.tver ∧ (clearBase sp excl s).typeVer = s.typeVer := by
  unfold clearBase; split <;> simp

/-- every event except a change of the topology columns keeps a fresh `type` column fresh -/
theorem type_kept (sp : Spec) (s : St) (e : Ev) (h : s.typeVer = s.tver)
    (he : ∀ v t, e = .change v t → t = s.tver) : (step sp s e).typeVer = (step sp s e).tver := by
  obtain ⟨_, _, _, _, _, f6, f7⟩ := isStaleS_fields sp s
  cases e with
  | isStale => simp only [step]; rw [f6, f7]; exact h
  | copyOut => simp only [step]; rw [f6, f7]; exact h
  | clear excl =>
    simp only [step, clearS]
    split
    · rw [(clearBase_type sp excl s).1, (clearBase_type sp excl s).2]; exact h
    · rfl
  | write a => exact h
  | change v t => simp only [step]; rw [he v t rfl]; exact h
  | classify => rfl
  | retype t0 =>
    simp only [step]
    split
    · rfl
    · exact h
  | lock => exact h
  | unlock => exact h
  | copy =>
    simp only [step, copyS]
    split
    · split
      · simp only [clearS]
        split
        · rw [(clearBase_type sp [] _).1, (clearBase_type sp [] _).2]; exact h
        · rfl
      · exact h
    · exact h
  | pickle => exact h
  | enter _ => exact h
  | exit _ => exact h

theorem fill_type (sp : Spec) (s : St) (v : View) :
    (run sp s (fillPrims s v)).tver = s.tver ∧ (run sp s (fillPrims s v)).typeVer = s.typeVer ∧
    (run sp s (fillPrims s v)).md5 = s.md5 ∧ (run sp s (fillPrims s v)).ver = s.ver := by
  obtain ⟨f1, _, f3, _, _, f6, f7⟩ := isStaleS_fields sp s
  unfold fillPrims
  split
  · simp [run]
  · by_cases hsc : v.selfCopy = true
    · simp only [hsc, if_true, run, List.cons_append, List.nil_append, List.foldl_cons, List.foldl_nil, step, put]
      exact ⟨f6, f7, f3, f1⟩
    · simp [hsc, run, step, put]

/-- the next wrapped read after a change of the hashed content re-classifies -/
theorem read_reclassifies {sp : Spec} (hs : SoundFacts sp) {s : St} (hl : s.lock = 0) (hne : s.md5 ≠ s.ver)
    {v : View} (hw : v.wrapped = true) : (readS sp s v).typeVer = (readS sp s v).tver := by
  rw [readS_eq]
  obtain ⟨t1, t2, _, _⟩ := fill_type sp (run sp s (viewPrefix sp s v)) v
  rw [t1, t2]
  have hstale : (isStaleS sp s).stale = true := by
    unfold isStaleS
    split
    · rename_i hc; simp only [Bool.and_eq_true] at hc; exact hc.2
    · rw [if_pos hs.recomputes]; simpa using hne
  have hp : viewPrefix sp s v = [.isStale, .clear []] := by
    simp [viewPrefix, hw, wrapperPrims, hs.wrapper, hl, hstale]
  rw [hp]
  simp [run, step, clearS, classifyS]

/-- … but while the stamp says "current" no read ever re-classifies -/
theorem read_keeps_type (sp : Spec) {s : St} (hst : s.stale = false) (hm : s.md5 = s.ver) (v : View) :
    (readS sp s v).typeVer = s.typeVer ∧ (readS sp s v).tver = s.tver ∧
    (readS sp s v).md5 = (readS sp s v).ver := by
  rw [readS_eq]
  obtain ⟨t1, t2, t3, t4⟩ := fill_type sp (run sp s (viewPrefix sp s v)) v
  rw [t1, t2, t3, t4]
  have hns : (isStaleS sp s).stale = false := by
    unfold isStaleS
    split
    · exact hst
    · split
      · simpa using hm
      · exact hst
  obtain ⟨f1, _, f3, _, _, f6, f7⟩ := isStaleS_fields sp s
  have hcases : viewPrefix sp s v = [] ∨ viewPrefix sp s v = [.isStale] := by
    unfold viewPrefix wrapperPrims
    split
    · split
      · left; rfl
      · right; simp [hns]
    · left; rfl
  rcases hcases with hp | hp <;> rw [hp]
  · exact ⟨rfl, rfl, hm⟩
  · simp only [run, List.foldl_cons, List.foldl_nil, step]
    exact ⟨f7, f6, by rw [f3, f1]; exact hm⟩

/-! ### Edit / undo without locks: content may return to an earlier value -/

/-- User-level events on an unlocked neuron (no navis operation that holds the lock). -/
inductive UEv where
  | read (v : View)                                  -- read of a wrapped view
  | edit (v t : Nat)                                 -- in-place edit of `x.nodes` to *any* content
  | setNodes (v t : Nat)                             -- `x.nodes = df`
  | arith (v t : Nat) (excl : List String)           -- unlocked operation: change, then effective clear
  | isStale | copy | copyOut | pickle

def uprims (sp : Spec) (s : St) : UEv → List Ev
  | .read v => readPrims sp s v
  | .edit v t => [.change v t]
  -- the setter validates the table and calls `classify_nodes`, a `@lock_neuron` function
  | .setNodes v t => [.change v t] ++ lockedCall sp (step sp s (.change v t)) [.classify] false
  -- in-place arithmetic: validation of the caches (if the source has it), the coordinates change, the trailing
  -- clear; an operation that excludes the re-classification does not touch `node_id,parent_id`
  | .arith v t excl =>
    validatePrims sp s ++
      [.change v (if excl.contains "classify_nodes" then (run sp s (validatePrims sp s)).tver else t), .clear excl]
  | .isStale => [.isStale]
  | .copy => [.copy]
  | .copyOut => [.copyOut]
  | .pickle => [.pickle]

def ustep (sp : Spec) (s : St) (u : UEv) : St := run sp s (uprims sp s u)
def urun (sp : Spec) (s : St) (us : List UEv) : St := us.foldl (ustep sp) s

def UAdm (sp : Spec) : UEv → Prop
  | .read v => v ∈ sp.views ∧ v.wrapped = true
  | .arith _ _ excl => knownExcl sp excl = true
  | _ => True

/-- invariant of lock-free histories: every entry was computed from the stamped content -/
structure K (sp : Spec) (s : St) : Prop where
  unlocked : s.lock = 0
  attrs : ∀ p ∈ s.cache, p.1 ∈ cachedAttrs sp
  tags : ∀ p ∈ s.cache, p.2 = s.md5

theorem K.inv {sp : Spec} {s : St} (h : K sp s) : Inv s := by
  intro hp p hq; rw [h.tags p hq]; exact hp.2.2

theorem K_init (sp : Spec) : K sp init := ⟨rfl, by simp [init], by simp [init]⟩

theorem K_isStale {sp : Spec} {s : St} (h : K sp s) : K sp (isStaleS sp s) := by
  obtain ⟨_, _, f3, f4, f5, _, _⟩ := isStaleS_fields sp s
  exact ⟨by rw [f4]; exact h.unlocked, by rw [f5]; exact h.attrs, by rw [f5, f3]; exact h.tags⟩

theorem K_clear {sp : Spec} (hs : SoundFacts sp) {s : St} (h : K sp s) {excl : List String}
    (hk : knownExcl sp excl = true) :
    K sp (clearS sp excl s) ∧ (clearS sp excl s).md5 = s.ver ∧ (clearS sp excl s).ver = s.ver ∧
      (clearS sp excl s).cache = [] := by
  have hb : clearBase sp excl s = { s with md5 := s.ver, stale := false, cache := [] } := by
    unfold clearBase
    simp [h.unlocked, hs.restamps, hs.deletes, retained_nil hs hk h.attrs]
  unfold clearS
  split <;> rw [hb] <;> exact ⟨⟨h.unlocked, by simp [classifyS], by simp [classifyS]⟩, rfl, rfl, rfl⟩

theorem K_put_of_stamp {sp : Spec} {s : St} (h : K sp s) (hm : s.md5 = s.ver) {a : Attr}
    (ha : a ∈ cachedAttrs sp) : K sp (put s a) := by
  refine ⟨h.unlocked, ?_, ?_⟩
  · intro p hp
    simp only [put, List.mem_cons, List.mem_filter] at hp
    rcases hp with rfl | ⟨hp, _⟩
    · exact ha
    · exact h.attrs p hp
  · intro p hp
    simp only [put, List.mem_cons, List.mem_filter] at hp
    rcases hp with rfl | ⟨hp, _⟩
    · exact hm.symm
    · exact h.tags p hp

theorem K_fill {sp : Spec} {s : St} (h : K sp s) (hm : s.md5 = s.ver) {v : View} (hv : v ∈ sp.views) :
    K sp (run sp s (fillPrims s v)) := by
  have ha : v.attr ∈ cachedAttrs sp := mem_cachedAttrs.mpr ⟨v, hv, rfl⟩
  unfold fillPrims
  split
  · exact h
  · by_cases hsc : v.selfCopy = true
    · simp only [hsc, if_true, run, List.cons_append, List.nil_append, List.foldl_cons, List.foldl_nil, step]
      obtain ⟨f1, _, f3, _, _, _, _⟩ := isStaleS_fields sp s
      exact K_put_of_stamp (K_isStale h) (by rw [f3, f1]; exact hm) ha
    · simp only [hsc, run]
      exact K_put_of_stamp h hm ha

theorem K_read {sp : Spec} (hs : SoundFacts sp) {s : St} (h : K sp s) {v : View} (hv : v ∈ sp.views)
    (hw : v.wrapped = true) : K sp (readS sp s v) := by
  rw [readS_eq]
  have hp : viewPrefix sp s v = if (isStaleS sp s).stale then [.isStale, .clear []] else [.isStale] := by
    simp [viewPrefix, hw, wrapperPrims, hs.wrapper, h.unlocked]
  obtain ⟨f1, _, f3, _, _, _, _⟩ := isStaleS_fields sp s
  by_cases hst : (isStaleS sp s).stale = true
  · rw [hp, if_pos hst]
    obtain ⟨k, m1, m2, _⟩ := K_clear hs (K_isStale (sp := sp) h) (knownExcl_nil sp)
    exact K_fill k (by rw [m1, m2]) hv
  · rw [hp, if_neg hst]
    have hst' : (isStaleS sp s).stale = false := by simpa using hst
    have hmd : s.md5 = s.ver := by
      unfold isStaleS at hst'
      by_cases hc : (sp.isStaleSticky && s.stale) = true
      · rw [if_pos hc] at hst'
        simp only [Bool.and_eq_true] at hc
        rw [hc.2] at hst'; exact absurd hst' (by decide)
      · rw [if_neg hc, if_pos hs.recomputes] at hst'
        simpa using hst'
    exact K_fill (K_isStale h) (by show (isStaleS sp s).md5 = (isStaleS sp s).ver; rw [f3, f1]; exact hmd) hv

/-- a call of the `@lock_neuron` function `classify_nodes` on an unlocked neuron: entry check, lock, classify, unlock -/
theorem K_lockedClassify {sp : Spec} (hs : SoundFacts sp) {s : St} (h : K sp s) :
    K sp (run sp s (lockedCall sp s [.classify] false)) := by
  have k0 : K sp (run sp s (lockEntryPrims sp s)) := by
    unfold lockEntryPrims
    split
    · exact h
    · split
      · exact (K_clear hs (K_isStale (sp := sp) h) (knownExcl_nil sp)).1
      · exact K_isStale h
  unfold lockedCall
  simp only [Bool.false_and, Bool.false_eq_true, if_false]
  rw [List.append_assoc, List.append_assoc, run_append]
  generalize run sp s (lockEntryPrims sp s) = s0 at k0
  refine ⟨?_, k0.attrs, k0.tags⟩
  show s0.lock + 1 - 1 = 0
  rw [k0.unlocked]

theorem K_ustep {sp : Spec} (hs : SoundFacts sp) {s : St} (h : K sp s) (u : UEv) (hu : UAdm sp u) :
    K sp (ustep sp s u) := by
  cases u with
  | read v => exact K_read hs h hu.1 hu.2
  | edit v t => exact ⟨h.unlocked, h.attrs, h.tags⟩
  | setNodes v t =>
    have k0 : K sp (step sp s (.change v t)) := ⟨h.unlocked, h.attrs, h.tags⟩
    show K sp (run sp s ([.change v t] ++ lockedCall sp (step sp s (.change v t)) [.classify] false))
    rw [run_append]
    exact K_lockedClassify hs k0
  | arith v t excl =>
    have kv : K sp (run sp s (validatePrims sp s)) := by
      unfold validatePrims
      split
      · exact h
      · split
        · exact (K_clear hs (K_isStale (sp := sp) h) (knownExcl_nil sp)).1
        · exact K_isStale h
    show K sp (run sp s (validatePrims sp s ++ _))
    rw [run_append]
    generalize run sp s (validatePrims sp s) = s1 at kv
    have k0 : ∀ t', K sp (step sp s1 (.change v t')) := fun _ => ⟨kv.unlocked, kv.attrs, kv.tags⟩
    exact (K_clear hs (k0 _) hu).1
  | isStale => exact K_isStale h
  | copyOut => exact K_isStale h
  | copy =>
    have ku : K sp (unlocked sp s) := ⟨by simp [unlocked, h.unlocked], h.attrs, h.tags⟩
    show K sp (copyS sp s)
    unfold copyS
    split
    · split
      · exact (K_clear hs ku (knownExcl_nil sp)).1
      · exact ku
    · exact ku
  | pickle =>
    refine ⟨h.unlocked, ?_, ?_⟩
    · intro p hp
      have : p ∈ s.cache := by
        have hp' : p ∈ (pickleS sp s).cache := hp
        simp only [pickleS, List.mem_filter] at hp'; exact hp'.1
      exact h.attrs p this
    · intro p hp
      have : p ∈ s.cache := by
        have hp' : p ∈ (pickleS sp s).cache := hp
        simp only [pickleS, List.mem_filter] at hp'; exact hp'.1
      exact h.tags p this

theorem K_urun {sp : Spec} (hs : SoundFacts sp) : ∀ (us : List UEv) (s : St), K sp s → (∀ u ∈ us, UAdm sp u) →
    K sp (urun sp s us) := by
  intro us
  induction us with
  | nil => intro s h _; exact h
  | cons u us ih =>
    intro s h hu
    exact ih _ (K_ustep hs h u (hu u (by simp))) (fun u' hu' => hu u' (by simp [hu']))

/-! ### Failed calls of `@lock_neuron` functions -/

theorem clearS_lock (sp : Spec) (excl : List String) (s : St) : (clearS sp excl s).lock = s.lock := by
  unfold clearS clearBase classifyS
  split <;> split <;> rfl

/-- events that happen inside a locked call and do not touch the lock counter -/
def lockNeutral : Ev → Bool
  | .lock => false
  | .unlock => false
  | .copy => false
  | _ => true

theorem step_lock_neutral (sp : Spec) (s : St) (e : Ev) (h : lockNeutral e = true) : (step sp s e).lock = s.lock := by
  cases e with
  | isStale => exact (isStaleS_fields sp s).2.2.2.1
  | copyOut => exact (isStaleS_fields sp s).2.2.2.1
  | clear excl => exact clearS_lock sp excl s
  | write a => rfl
  | change v t => rfl
  | classify => rfl
  | retype t0 => simp only [step]; split <;> rfl
  | lock => simp [lockNeutral] at h
  | unlock => simp [lockNeutral] at h
  | copy => simp [lockNeutral] at h
  | pickle => rfl
  | enter _ => rfl
  | exit _ => rfl

theorem run_lock_neutral (sp : Spec) : ∀ (es : List Ev) (s : St), (∀ e ∈ es, lockNeutral e = true) →
    (run sp s es).lock = s.lock := by
  intro es
  induction es with
  | nil => intro s _; rfl
  | cons e es ih =>
    intro s h
    rw [run_cons, ih _ (fun e' he' => h e' (by simp [he']))]
    exact step_lock_neutral sp s e (h e (by simp))

theorem lockEntryPrims_neutral (sp : Spec) (s : St) : ∀ e ∈ lockEntryPrims sp s, lockNeutral e = true := by
  intro e he
  unfold lockEntryPrims at he
  split at he
  · simp at he
  · split at he <;> simp at he <;> rcases he with rfl | rfl <;> rfl

/-- With the `finally:` in `lock_neuron`, a locked call leaves the lock counter where it was — whether the
body returns or raises (the entry check of the wrapper does not touch the counter). -/
theorem lockedCall_lock {sp : Spec} (hf : sp.lockFinally = true) (s : St) (body : List Ev)
    (hb : ∀ e ∈ body, lockNeutral e = true) (raises : Bool) :
    (run sp s (lockedCall sp s body raises)).lock = s.lock := by
  unfold lockedCall
  simp only [hf, Bool.not_true, Bool.and_false, Bool.false_eq_true, if_false]
  rw [run_append, run_append, run_append]
  have h0 := run_lock_neutral sp (lockEntryPrims sp s) s (lockEntryPrims_neutral sp s)
  generalize run sp s (lockEntryPrims sp s) = s0 at h0
  show (run sp (run sp (step sp s0 .lock) body) [Ev.unlock]).lock = s.lock
  have h1 := run_lock_neutral sp body (step sp s0 .lock) hb
  show (run sp (step sp s0 .lock) body).lock - 1 = s.lock
  rw [h1]
  show s0.lock + 1 - 1 = s.lock
  omega

/-! ### The entry check of `lock_neuron` (fix 4ae1633) and reads under the lock -/

theorem lockEntryPrims_eq_wrapperPrims {sp : Spec} (hw : sp.wrapperChecks = true) (hf : sp.lockChecksStale = true)
    (s : St) : lockEntryPrims sp s = wrapperPrims sp s := by
  unfold lockEntryPrims wrapperPrims; simp [hw, hf]

/-- the entry check consists of admissible events only, so it preserves the invariant -/
theorem J_lockEntry {sp : Spec} (hs : SoundFacts sp) {s : St} (h : J sp s) : J sp (run sp s (lockEntryPrims sp s)) := by
  unfold lockEntryPrims
  split
  · exact h
  · split
    · exact J_clear hs (J_isStale h) (knownExcl_nil sp)
    · exact J_isStale h

/-- **What the fixed `lock_neuron` establishes**: when a `@lock_neuron` function is entered on an unlocked
neuron, at the moment the lock is taken the content is unchanged and every cache entry was computed from it. -/
theorem lockEntry_establishes {sp : Spec} (hs : SoundFacts sp) (hf : sp.lockChecksStale = true) {s : St}
    (h : J sp s) (hl : s.lock = 0) :
    let s1 := run sp s (lockEntryPrims sp s ++ [Ev.lock])
    s1.ver = s.ver ∧ s1.lock = 1 ∧ (∀ p ∈ s1.cache, p.2 = s.ver) ∧ J sp s1 := by
  intro s1
  have e : s1 = step sp (run sp s (wrapperPrims sp s)) .lock := by
    show run sp s (lockEntryPrims sp s ++ [Ev.lock]) = _
    rw [run_append, lockEntryPrims_eq_wrapperPrims hs.wrapper hf]; rfl
  obtain ⟨e1, _, _, e4, e5, hJ⟩ := wrapper_establishes hs h hl
  rw [e]
  refine ⟨e1, by show (run sp s (wrapperPrims sp s)).lock + 1 = 1; rw [e4], ?_, ⟨hJ.md5_lt, hJ.ver_lt, hJ.attrs, hJ.fresh⟩⟩
  intro p hp
  rw [← e1]; exact e5 p hp

/-- all entries current and the lock held: the situation inside a locked function before its first change -/
structure AllCur (s : St) (v0 : Nat) : Prop where
  ver : s.ver = v0
  locked : 0 < s.lock
  cur : ∀ p ∈ s.cache, p.2 = v0

theorem fill_lock (sp : Spec) (s : St) (v : View) : (run sp s (fillPrims s v)).lock = s.lock := by
  apply run_lock_neutral
  intro e he
  unfold fillPrims at he
  split at he
  · simp at he
  · split at he <;> simp at he
    · rcases he with rfl | rfl <;> rfl
    · subst he; rfl

/-- a read of any cached view (wrapped or not) while the lock is held and all entries are current returns a
value computed from the current content and keeps that situation -/
theorem locked_read {sp : Spec} {s : St} {v0 : Nat} (h : AllCur s v0) (v : View) :
    readTag sp s v = some v0 ∧ AllCur (readS sp s v) v0 := by
  have hp : viewPrefix sp s v = [] := by
    unfold viewPrefix wrapperPrims
    have := h.locked
    split <;> simp [this]
  unfold readTag
  rw [readS_eq, hp]
  simp only [run, List.foldl_nil]
  obtain ⟨t1, t2, t3⟩ := fill_current sp s v (by rw [h.ver]; exact h.cur)
  have hl := fill_lock sp s v
  simp only [run] at t1 t2 t3 hl
  exact ⟨by rw [t1, h.ver], ⟨by rw [t2, h.ver], by rw [hl]; exact h.locked, by rw [← h.ver]; exact t3⟩⟩

def readsS (sp : Spec) (s : St) (vs : List View) : St := vs.foldl (readS sp) s

theorem locked_reads {sp : Spec} : ∀ (vs : List View) {s : St} {v0 : Nat}, AllCur s v0 →
    AllCur (readsS sp s vs) v0 := by
  intro vs
  induction vs with
  | nil => intro s v0 h; exact h
  | cons v vs ih => intro s v0 h; exact ih (locked_read (sp := sp) h v).2

/-- **Reads inside a locked operation entered on an unlocked neuron** (after any number of earlier reads under
the same lock) return a value computed from the content at entry. -/
theorem locked_read_entry {sp : Spec} (hs : SoundFacts sp) (hf : sp.lockChecksStale = true) {s : St}
    (h : J sp s) (hl : s.lock = 0) (vs : List View) (v : View) :
    readTag sp (readsS sp (run sp s (lockEntryPrims sp s ++ [Ev.lock])) vs) v = some s.ver := by
  obtain ⟨a, b, c, _⟩ := lockEntry_establishes hs hf h hl
  have h0 : AllCur (run sp s (lockEntryPrims sp s ++ [Ev.lock])) s.ver := ⟨a, by rw [b]; decide, c⟩
  exact (locked_read (locked_reads vs h0) v).1

/-- Without the entry check the lock is taken over whatever is cached: a read under the lock returns the
entry as it is — also when it was computed from other content. -/
theorem unchecked_lock_reads_cache {sp : Spec} (hf : sp.lockChecksStale = false) (s : St) (v : View) (old : Nat)
    (ht : tagOf s v.attr = some old) :
    readTag sp (run sp s (lockEntryPrims sp s ++ [Ev.lock])) v = some old := by
  have e : run sp s (lockEntryPrims sp s ++ [Ev.lock]) = { s with lock := s.lock + 1 } := by
    unfold lockEntryPrims; simp [hf, run, step]
  rw [e]
  have hh : has { s with lock := s.lock + 1 } v.attr = true := by
    unfold tagOf at ht
    unfold has
    cases hfnd : s.cache.find? (fun p => p.1 == v.attr) with
    | none => rw [hfnd] at ht; simp at ht
    | some q =>
      rw [List.any_eq_true]
      exact ⟨q, List.mem_of_find?_eq_some hfnd, List.find?_some (p := fun (p : Attr × Nat) => p.1 == v.attr) hfnd⟩
  have hp : viewPrefix sp { s with lock := s.lock + 1 } v = [] := by
    unfold viewPrefix wrapperPrims
    split <;> simp
  unfold readTag
  rw [readS_eq, hp]
  simp only [run, List.foldl_nil]
  unfold fillPrims
  rw [if_pos hh]
  simpa [tagOf] using ht

/-! ### What reaches the hash function -/

/-- The value an integer cell `n` has after conversion to a binary floating type with `p` significand bits
(round to nearest, ties to even): integers up to `2^p` in absolute value are exact, larger ones lose their low
bits.  A cell is a node id or the 53-bit significand of a float64 coordinate. -/
def roundBits (p : Nat) (n : Int) : Int :=
  let m := n.natAbs
  if m ≤ 2 ^ p then n
  else
    let e := Nat.log2 m + 1 - p
    let q := m / 2 ^ e
    let r := m % 2 ^ e
    let half := 2 ^ (e - 1)
    let q' := if r > half || (r == half && q % 2 == 1) then q + 1 else q
    (if n < 0 then -1 else 1) * ((q' * 2 ^ e : Nat) : Int)

/-- what reaches the hash function for a row of cells: the cells themselves when every column is hashed in its
own dtype, otherwise their images in the common floating type of the table -/
def hashInput (sp : Spec) (row : List Int) : List Int :=
  if sp.hashNative then row else row.map (roundBits sp.hashBits)

/-- per-column hashing in the columns' own dtypes: what reaches the hash function determines the row, whatever
the size of the ids -/
theorem hashInput_injective_native {sp : Spec} (h : sp.hashNative = true) (a b : List Int)
    (he : hashInput sp a = hashInput sp b) : a = b := by
  simpa [hashInput, h] using he

theorem roundBits_exact {p : Nat} {n : Int} (h : n.natAbs ≤ 2 ^ p) : roundBits p n = n := by
  unfold roundBits; simp [h]

/-- rows whose cells are exactly representable are determined by what reaches the hash function -/
theorem hashInput_injective {sp : Spec} (hn : sp.hashNative = false) : ∀ (a b : List Int), (∀ n ∈ a, n.natAbs ≤ 2 ^ sp.hashBits) →
    (∀ n ∈ b, n.natAbs ≤ 2 ^ sp.hashBits) → hashInput sp a = hashInput sp b → a = b := by
  intro a
  induction a with
  | nil => intro b _ _ h; cases b with
    | nil => rfl
    | cons y ys => simp [hashInput, hn] at h
  | cons x xs ih =>
    intro b ha hb h
    cases b with
    | nil => simp [hashInput, hn] at h
    | cons y ys =>
      simp only [hashInput, hn, Bool.false_eq_true, if_false, List.map_cons, List.cons.injEq] at h
      rw [roundBits_exact (ha x (by simp)), roundBits_exact (hb y (by simp))] at h
      have ih' := ih ys (fun n hn' => ha n (by simp [hn'])) (fun n hn' => hb n (by simp [hn']))
        (by simp only [hashInput, hn, Bool.false_eq_true, if_false]; exact h.2)
      rw [h.1, ih']

end Navis.Cache
