import NavisModel.Model.Swc
import NavisModel.Proofs.RerootEdgesLemmas
/-! Helper lemmas for C07 (core Lean only). -/
namespace Navis.Swc
open Navis.Forest

/-! ### stable insertion sort -/

theorem insertBy_perm {α : Type} (key : α → Int) (a : α) (l : List α) : (insertBy key a l).Perm (a :: l) := by
  induction l with
  | nil => exact List.Perm.refl _
  | cons b l ih =>
    unfold insertBy
    split
    · exact List.Perm.refl _
    · exact (List.Perm.cons b ih).trans (List.Perm.swap a b l)

theorem isortBy_perm {α : Type} (key : α → Int) (l : List α) : (isortBy key l).Perm l := by
  induction l with
  | nil => exact List.Perm.refl _
  | cons a l ih =>
    show (insertBy key a (isortBy key l)).Perm (a :: l)
    exact (insertBy_perm key a _).trans (List.Perm.cons a ih)

theorem insertBy_pairwise {α : Type} (key : α → Int) (a : α) (l : List α)
    (h : l.Pairwise (fun x y => key x ≤ key y)) : (insertBy key a l).Pairwise (fun x y => key x ≤ key y) := by
  induction l with
  | nil => simp [insertBy]
  | cons b l ih =>
    unfold insertBy
    rw [List.pairwise_cons] at h
    split
    · rename_i hab
      refine List.pairwise_cons.mpr ⟨?_, List.pairwise_cons.mpr h⟩
      intro c hc
      rcases List.mem_cons.mp hc with rfl | hc
      · exact hab
      · exact Int.le_trans hab (h.1 c hc)
    · rename_i hab
      refine List.pairwise_cons.mpr ⟨?_, ih h.2⟩
      intro c hc
      have : c ∈ a :: l := (insertBy_perm key a l).mem_iff.mp hc
      rcases List.mem_cons.mp this with rfl | hc
      · omega
      · exact h.1 c hc

theorem isortBy_pairwise {α : Type} (key : α → Int) (l : List α) :
    (isortBy key l).Pairwise (fun x y => key x ≤ key y) := by
  induction l with
  | nil => simp [isortBy]
  | cons a l ih => exact insertBy_pairwise key a _ ih

/-! ### the validity checker -/

/-- Generalised specification for `validFrom`. -/
def ValidFromSpec (seen : List Int) (k0 : Int) (s : List SwcRow) : Prop :=
  (∀ k (h : k < s.length), s[k].id = k0 + (k : Int)) ∧
  (∀ k (h : k < s.length), s[k].parent = -1 ∨
    (s[k].parent < s[k].id ∧ (s[k].parent ∈ seen ∨ s[k].parent ∈ (s.take k).map (·.id))))

theorem validFrom_iff (s : List SwcRow) : ∀ (seen : List Int) (k0 : Int),
    validFrom seen k0 s = true ↔ ValidFromSpec seen k0 s := by
  induction s with
  | nil => intro seen k0; simp [validFrom, ValidFromSpec]
  | cons r rs ih =>
    intro seen k0
    simp only [validFrom, Bool.and_eq_true, Bool.or_eq_true, beq_iff_eq, decide_eq_true_eq, List.contains_eq_mem,
      ih (r.id :: seen) (k0 + 1)]
    constructor
    · rintro ⟨⟨hid, hpar⟩, hrest⟩
      refine ⟨?_, ?_⟩
      · intro k hk
        cases k with
        | zero => simp [hid]
        | succ k =>
          have := hrest.1 k (by simpa using hk)
          simp only [List.getElem_cons_succ, this]; omega
      · intro k hk
        cases k with
        | zero =>
          rcases hpar with h | ⟨h1, h2⟩
          · exact Or.inl h
          · exact Or.inr ⟨h1, Or.inl h2⟩
        | succ k =>
          have := hrest.2 k (by simpa using hk)
          simp only [List.getElem_cons_succ, List.take_succ_cons, List.map_cons, List.mem_cons]
          rcases this with h | ⟨h1, h2⟩
          · exact Or.inl h
          · refine Or.inr ⟨h1, ?_⟩
            rcases h2 with h2 | h2
            · rcases List.mem_cons.mp h2 with h2 | h2
              · exact Or.inr (Or.inl h2)
              · exact Or.inl h2
            · exact Or.inr (Or.inr h2)
    · rintro ⟨hids, hpars⟩
      have h0 := hids 0 (by simp)
      have p0 := hpars 0 (by simp)
      simp only [List.getElem_cons_zero, List.take_zero, List.map_nil, List.not_mem_nil, or_false] at h0 p0
      refine ⟨⟨by simpa using h0, ?_⟩, ?_, ?_⟩
      · rcases p0 with h | ⟨h1, h2⟩
        · exact Or.inl h
        · exact Or.inr ⟨h1, h2⟩
      · intro k hk
        have := hids (k + 1) (by simpa using hk)
        simp only [List.getElem_cons_succ] at this
        rw [this]; omega
      · intro k hk
        have := hpars (k + 1) (by simpa using hk)
        simp only [List.getElem_cons_succ, List.take_succ_cons, List.map_cons, List.mem_cons] at this
        rcases this with h | ⟨h1, h2⟩
        · exact Or.inl h
        · refine Or.inr ⟨h1, ?_⟩
          rcases h2 with h2 | h2 | h2
          · exact Or.inl (List.mem_cons_of_mem _ h2)
          · exact Or.inl (h2 ▸ List.mem_cons_self)
          · exact Or.inr h2

theorem swcValidB_iff (s : List SwcRow) : swcValidB s = true ↔ SwcValid s := by
  unfold swcValidB
  rw [validFrom_iff]
  unfold ValidFromSpec SwcValid
  constructor
  · rintro ⟨h1, h2⟩
    refine ⟨fun k hk => by rw [h1 k hk]; omega, fun k hk => ?_⟩
    rcases h2 k hk with h | ⟨ha, hb⟩
    · exact Or.inl h
    · exact Or.inr ⟨ha, by simpa using hb⟩
  · rintro ⟨h1, h2⟩
    refine ⟨fun k hk => by rw [h1 k hk]; omega, fun k hk => ?_⟩
    rcases h2 k hk with h | ⟨ha, hb⟩
    · exact Or.inl h
    · exact Or.inr ⟨ha, Or.inr hb⟩

/-! ### re-indexing -/

@[simp] theorem nodeIds_length (o : List SNode) : (nodeIds o).length = o.length := by simp [nodeIds]

theorem nodeIds_getElem (o : List SNode) (k : Nat) (h : k < o.length) :
    (nodeIds o)[k]'(by simpa using h) = o[k].id := by simp [nodeIds]

theorem mem_nodeIds {o : List SNode} {i : Int} : i ∈ nodeIds o ↔ ∃ n ∈ o, n.id = i := by simp [nodeIds]

theorem mem_nodeIds_of_mem {o : List SNode} {n : SNode} (h : n ∈ o) : n.id ∈ nodeIds o := mem_nodeIds.mpr ⟨n, h, rfl⟩

theorem newId_of_mem {o : List SNode} {i : Int} (h : i ∈ nodeIds o) :
    newId o i = ((nodeIds o).idxOf i : Int) + 1 := by simp [newId, h, firstId, Gen.Swc.firstId]

theorem newId_of_not_mem {o : List SNode} {i : Int} (h : i ∉ nodeIds o) : newId o i = -1 := by
  simp [newId, h, missingParent, Gen.Swc.missingParent]

theorem idxOf_id_getElem {o : List SNode} (hnd : (nodeIds o).Nodup) (k : Nat) (h : k < o.length) :
    (nodeIds o).idxOf o[k].id = k := by
  have := hnd.idxOf_getElem k (by simpa using h)
  rwa [nodeIds_getElem o k h] at this

/-- Position of a member, with the row found there. -/
theorem exists_pos {o : List SNode} (hnd : (nodeIds o).Nodup) {n : SNode} (hn : n ∈ o) :
    ∃ k, ∃ h : k < o.length, o[k] = n ∧ (nodeIds o).idxOf n.id = k := by
  obtain ⟨k, hk, rfl⟩ := List.getElem_of_mem hn
  exact ⟨k, hk, rfl, idxOf_id_getElem hnd k hk⟩

theorem newId_getElem {o : List SNode} (hnd : (nodeIds o).Nodup) (k : Nat) (h : k < o.length) :
    newId o o[k].id = (k : Int) + 1 := by
  rw [newId_of_mem (mem_nodeIds_of_mem (List.getElem_mem h)), idxOf_id_getElem hnd k h]

@[simp] theorem finish_length (lab : SNode → Option Int) (o : List SNode) : (finish lab o).length = o.length := by
  simp [finish]

theorem finish_getElem (lab : SNode → Option Int) (o : List SNode) (k : Nat) (h : k < o.length) :
    (finish lab o)[k]'(by simpa using h) = rowOf lab o o[k] := by simp [finish]

theorem take_finish_ids (lab : SNode → Option Int) {o : List SNode} (hnd : (nodeIds o).Nodup) (k : Nat) (hk : k ≤ o.length) :
    ((finish lab o).take k).map (·.id) = (List.range k).map (fun (j : Nat) => ((j : Nat) : Int) + 1) := by
  apply List.ext_getElem
  · simp [Nat.min_eq_left hk]
  · intro j h1 h2
    have hj : j < k := by simpa using h2
    have hjo : j < o.length := Nat.lt_of_lt_of_le hj hk
    simp only [List.getElem_map, List.getElem_take, List.getElem_range]
    rw [finish_getElem lab o j hjo]
    exact newId_getElem hnd j hjo

/-- **Key lemma**: after re-indexing, the table is valid iff every parent that is present sits at an
earlier position than its child. -/
theorem finish_valid_iff (lab : SNode → Option Int) {o : List SNode} (hnd : (nodeIds o).Nodup) :
    SwcValid (finish lab o) ↔
      ∀ n ∈ o, n.parent ∈ nodeIds o → (nodeIds o).idxOf n.parent < (nodeIds o).idxOf n.id := by
  constructor
  · rintro ⟨_, hp⟩ n hn hpar
    obtain ⟨k, hk, rfl, hidx⟩ := exists_pos hnd hn
    have := hp k (by simpa using hk)
    rw [finish_getElem lab o k hk] at this
    simp only [rowOf] at this
    rw [newId_of_mem hpar, newId_getElem hnd k hk] at this
    rcases this with h | ⟨h, _⟩
    · omega
    · rw [hidx]; omega
  · intro h
    refine ⟨?_, ?_⟩
    · intro k hk
      have hk' : k < o.length := by simpa using hk
      rw [finish_getElem lab o k hk']
      exact newId_getElem hnd k hk'
    · intro k hk
      have hk' : k < o.length := by simpa using hk
      rw [finish_getElem lab o k hk']
      simp only [rowOf]
      by_cases hpar : o[k].parent ∈ nodeIds o
      · right
        have hlt := h o[k] (List.getElem_mem hk') hpar
        rw [idxOf_id_getElem hnd k hk'] at hlt
        rw [newId_of_mem hpar, newId_getElem hnd k hk']
        refine ⟨by omega, ?_⟩
        rw [take_finish_ids lab hnd k (Nat.le_of_lt hk')]
        exact List.mem_map.mpr ⟨(nodeIds o).idxOf o[k].parent, List.mem_range.mpr hlt, rfl⟩
      · left
        exact newId_of_not_mem hpar

/-- In a list sorted by `key`, a strictly smaller key means a strictly earlier position. -/
theorem pos_lt_of_key_lt {o : List SNode} (hnd : (nodeIds o).Nodup) (key : SNode → Int)
    (hs : o.Pairwise (fun a b => key a ≤ key b)) {a b : SNode} (ha : a ∈ o) (hb : b ∈ o) (h : key a < key b) :
    (nodeIds o).idxOf a.id < (nodeIds o).idxOf b.id := by
  obtain ⟨i, hi, rfl, hia⟩ := exists_pos hnd ha
  obtain ⟨j, hj, rfl, hjb⟩ := exists_pos hnd hb
  rw [hia, hjb]
  rcases Nat.lt_trichotomy i j with hlt | heq | hgt
  · exact hlt
  · subst heq; omega
  · have := (List.pairwise_iff_getElem.mp hs) j i hj hi hgt
    omega

/-! ### well-formed skeleton tables -/

@[simp] theorem ids_forest (t : List SNode) : ids (forest t) = nodeIds t := by
  simp [ids, forest, nodeIds, Function.comp_def]

theorem mem_forest {t : List SNode} {n : SNode} (h : n ∈ t) : ({ id := n.id, parent := n.parent } : Node) ∈ forest t :=
  List.mem_map.mpr ⟨n, h, rfl⟩

theorem WF_nodup {t : List SNode} (hw : WF (forest t)) : (nodeIds t).Nodup := by
  have := hw.1; rwa [ids_forest] at this

theorem WF_id_nonneg {t : List SNode} (hw : WF (forest t)) {n : SNode} (h : n ∈ t) : 0 ≤ n.id :=
  hw.2.1 _ (mem_forest h)

theorem WF_parent {t : List SNode} (hw : WF (forest t)) {n : SNode} (h : n ∈ t) :
    n.parent < 0 ∨ n.parent ∈ nodeIds t := by
  have := WF_parents hw _ (mem_forest h)
  rwa [ids_forest] at this

theorem WF_parent_mem_iff {t : List SNode} (hw : WF (forest t)) {n : SNode} (h : n ∈ t) :
    n.parent ∈ nodeIds t ↔ ¬ n.parent < 0 := by
  constructor
  · intro hm hneg
    obtain ⟨p, hp, he⟩ := mem_nodeIds.mp hm
    have := WF_id_nonneg hw hp
    omega
  · intro hn
    rcases WF_parent hw h with h1 | h1
    · exact absurd h1 hn
    · exact h1

theorem WF_no_self {t : List SNode} (hw : WF (forest t)) {n : SNode} (h : n ∈ t) : n.parent ≠ n.id :=
  WF_no_loop hw _ (mem_forest h)

theorem depth_child {t : List SNode} (hw : WF (forest t)) {n : SNode} (h : n ∈ t) (hp : ¬ n.parent < 0) :
    depth t n.id = depth t n.parent + 1 := by
  have hf : find? (forest t) n.id = some ({ id := n.id, parent := n.parent } : Node) :=
    find?_of_mem hw.1 (mem_forest h)
  unfold depth
  rw [rootPath_of_nonroot hw hf hp]
  simp

/-- A permutation of a table with unique ids has unique ids and the same members. -/
theorem nodup_of_perm {t o : List SNode} (hp : o.Perm t) (hnd : (nodeIds t).Nodup) : (nodeIds o).Nodup := by
  unfold nodeIds at *
  exact ((hp.map (fun n : SNode => n.id)).nodup_iff).mpr hnd

theorem mem_nodeIds_perm {t o : List SNode} (hp : o.Perm t) (i : Int) : i ∈ nodeIds o ↔ i ∈ nodeIds t := by
  unfold nodeIds
  exact (hp.map (fun n : SNode => n.id)).mem_iff

/-! ### the two orderings -/

theorem sortByParent_isParentSort (t : List SNode) : IsParentSort t (sortByParent t) :=
  ⟨isortBy_perm _ t, isortBy_pairwise _ t⟩

/-- HISTORICAL ordering: any admissible `sort_values("parent_id")` order of a well-formed table gives a valid SWC table
exactly when every node that has a child has `parent_id < node_id`. -/
theorem parentSort_valid_iff (lab : SNode → Option Int) {t o : List SNode} (hw : WF (forest t))
    (ho : IsParentSort t o) :
    SwcValid (finish lab o) ↔ ∀ p ∈ t, (∃ c ∈ t, c.parent = p.id) → p.parent < p.id := by
  obtain ⟨hperm, hsort⟩ := ho
  have hnd : (nodeIds o).Nodup := nodup_of_perm hperm (WF_nodup hw)
  rw [finish_valid_iff lab hnd]
  constructor
  · intro h p hp ⟨c, hc, hcp⟩
    have hpo : p ∈ o := hperm.mem_iff.mpr hp
    have hco : c ∈ o := hperm.mem_iff.mpr hc
    have hlt := h c hco (by rw [hcp]; exact mem_nodeIds_of_mem hpo)
    rw [hcp] at hlt
    have hne := WF_no_self hw hp
    rcases Int.lt_trichotomy p.parent p.id with h1 | h1 | h1
    · exact h1
    · exact absurd h1 hne
    · have := pos_lt_of_key_lt hnd (·.parent) hsort hco hpo (by show c.parent < p.parent; omega)
      omega
  · intro h n hn hpar
    obtain ⟨p, hpo, hpid⟩ := mem_nodeIds.mp hpar
    have hpt : p ∈ t := hperm.mem_iff.mp hpo
    have hnt : n ∈ t := hperm.mem_iff.mp hn
    have hlt := h p hpt ⟨n, hnt, hpid.symm⟩
    have := pos_lt_of_key_lt hnd (·.parent) hsort hpo hn (by show p.parent < n.parent; omega)
    rwa [hpid] at this

theorem sortByDepth_perm (t : List SNode) : (sortByDepth t).Perm t := by
  unfold sortByDepth
  have h := (isortBy_perm (fun p : Int × SNode => p.1) (t.map fun n => (((depth t n.id : Nat) : Int), n))).map (·.2)
  simpa [List.map_map, Function.comp_def] using h

theorem sortByDepth_sorted (t : List SNode) :
    (sortByDepth t).Pairwise (fun a b => ((depth t a.id : Nat) : Int) ≤ ((depth t b.id : Nat) : Int)) := by
  unfold sortByDepth
  rw [List.pairwise_map]
  refine List.Pairwise.imp_of_mem ?_ (isortBy_pairwise (fun p : Int × SNode => p.1) _)
  intro a b ha hb hab
  have key : ∀ q : Int × SNode, q ∈ isortBy (fun p : Int × SNode => p.1) (t.map fun n => (((depth t n.id : Nat) : Int), n)) →
      q.1 = ((depth t q.2.id : Nat) : Int) := by
    intro q hq
    have := (isortBy_perm (fun p : Int × SNode => p.1) _).mem_iff.mp hq
    obtain ⟨n, _, rfl⟩ := List.mem_map.mp this
    rfl
  rw [← key a ha, ← key b hb]
  exact hab

/-- Any order of a well-formed table that is sorted by depth gives a valid SWC table. -/
theorem depthSort_valid (lab : SNode → Option Int) {t o : List SNode} (hw : WF (forest t)) (hperm : o.Perm t)
    (hsort : o.Pairwise (fun a b => ((depth t a.id : Nat) : Int) ≤ ((depth t b.id : Nat) : Int))) :
    SwcValid (finish lab o) := by
  have hnd : (nodeIds o).Nodup := nodup_of_perm hperm (WF_nodup hw)
  rw [finish_valid_iff lab hnd]
  intro n hn hpar
  obtain ⟨p, hpo, hpid⟩ := mem_nodeIds.mp hpar
  have hnt : n ∈ t := hperm.mem_iff.mp hn
  have hnr : ¬ n.parent < 0 := (WF_parent_mem_iff hw hnt).mp ((mem_nodeIds_perm hperm _).mp hpar)
  have hd := depth_child hw hnt hnr
  have := pos_lt_of_key_lt hnd (fun a => ((depth t a.id : Nat) : Int)) hsort hpo hn (by
    show ((depth t p.id : Nat) : Int) < ((depth t n.id : Nat) : Int)
    rw [hpid, hd]; omega)
  rwa [hpid] at this

/-! ### the node map -/

theorem nodeMapOf_fst (o : List SNode) : (nodeMapOf o).map (·.1) = nodeIds o := by
  simp [nodeMapOf, nodeIds, Function.comp_def]

theorem nodeMapOf_snd {o : List SNode} (hnd : (nodeIds o).Nodup) :
    (nodeMapOf o).map (·.2) = (List.range o.length).map (fun (j : Nat) => ((j : Nat) : Int) + 1) := by
  apply List.ext_getElem
  · simp [nodeMapOf]
  · intro j h1 h2
    have hj : j < o.length := by simpa [nodeMapOf] using h1
    simp only [nodeMapOf, List.getElem_map, List.getElem_range]
    exact newId_getElem hnd j hj

theorem newId_inj {o : List SNode} (hnd : (nodeIds o).Nodup) {a b : SNode} (ha : a ∈ o) (hb : b ∈ o)
    (h : newId o a.id = newId o b.id) : a = b := by
  obtain ⟨i, hi, rfl, _⟩ := exists_pos hnd ha
  obtain ⟨j, hj, rfl, _⟩ := exists_pos hnd hb
  rw [newId_getElem hnd i hi, newId_getElem hnd j hj] at h
  have : i = j := by omega
  subst this; rfl

theorem newId_range {o : List SNode} (hnd : (nodeIds o).Nodup) {a : SNode} (ha : a ∈ o) :
    1 ≤ newId o a.id ∧ newId o a.id ≤ o.length := by
  obtain ⟨i, hi, rfl, _⟩ := exists_pos hnd ha
  rw [newId_getElem hnd i hi]; omega

theorem newId_parent {t o : List SNode} (hw : WF (forest t)) (hperm : o.Perm t) {n : SNode} (hn : n ∈ o) :
    (n.parent < 0 → newId o n.parent = -1) ∧
    (¬ n.parent < 0 → ∃ p ∈ o, p.id = n.parent ∧ newId o n.parent = newId o p.id) := by
  have hnt : n ∈ t := hperm.mem_iff.mp hn
  constructor
  · intro h
    apply newId_of_not_mem
    intro hm
    exact absurd h ((WF_parent_mem_iff hw hnt).mp ((mem_nodeIds_perm hperm _).mp hm))
  · intro h
    have hm : n.parent ∈ nodeIds o := (mem_nodeIds_perm hperm _).mpr ((WF_parent_mem_iff hw hnt).mpr h)
    obtain ⟨p, hp, hpid⟩ := mem_nodeIds.mp hm
    exact ⟨p, hp, hpid, by rw [hpid]⟩

/-! ### write → parse -/

theorem tokInt?_optIntTok (l : Option Int) : tokInt? (optIntTok l) = l := by cases l <;> rfl

theorem tokNum?_optNumTok (r : Option Rat) : tokNum? (optNumTok r) = r := by cases r <;> rfl

/-- The seven tokens `renderRow` writes. -/
def rowToks (r : SwcRow) : List Tok :=
  [.int r.id, optIntTok r.label, numTok r.x, numTok r.y, numTok r.z, optNumTok r.radius, .int r.parent]

theorem renderRow_eq (r : SwcRow) : renderRow r = .row (rowToks r) := rfl

theorem parseRow_rowToks (r : SwcRow) : parseRow (rowToks r) = some r := by
  obtain ⟨i, l, x, y, z, rad, p⟩ := r
  cases l <;> cases rad <;> simp [parseRow, rowToks, tokInt?, tokNum?, numTok, optIntTok, optNumTok]

theorem sanitiseRows_map_some (l : List SwcRow) : sanitiseRows (l.map some) = l := by
  have h : keptRows (l.map some) = l := by
    unfold keptRows
    induction l with
    | nil => rfl
    | cons a l ih => simp [List.filterMap_cons, ih]
  unfold sanitiseRows
  simp [h]

theorem reRoot_id (kept : List SwcRow) (r : SwcRow) : (reRoot kept r).id = r.id := by
  unfold reRoot; split <;> rfl

/-- Ids of the complete rows survive `sanitise_nodes`, in order. -/
theorem sanitiseRows_ids (rs : List (Option SwcRow)) :
    (sanitiseRows rs).map (·.id) = (keptRows rs).map (·.id) := by
  unfold sanitiseRows
  split
  · rfl
  · rw [List.map_map]
    exact List.map_congr_left (fun r _ => reRoot_id _ r)

/-- If a row was dropped, no remaining row has a dangling parent: it is `-1` or the id of a remaining row. -/
theorem sanitiseRows_no_dangling (rs : List (Option SwcRow)) (hdrop : (keptRows rs).length ≠ rs.length) :
    ∀ r ∈ sanitiseRows rs, r.parent = -1 ∨ r.parent ∈ (sanitiseRows rs).map (·.id) := by
  intro r hr
  rw [sanitiseRows_ids]
  unfold sanitiseRows at hr
  rw [if_neg hdrop] at hr
  obtain ⟨q, hq, rfl⟩ := List.mem_map.mp hr
  unfold reRoot
  split
  · rename_i hany
    right
    obtain ⟨p, hp, he⟩ := List.any_eq_true.mp hany
    exact List.mem_map.mpr ⟨p, hp, by simpa using he⟩
  · left; rfl

theorem filterMap_rowLine_render (rs : List SwcRow) : (rs.map renderRow).filterMap rowLine? = rs.map rowToks := by
  induction rs with
  | nil => rfl
  | cons r rs ih => simp only [List.map_cons, List.filterMap_cons, renderRow_eq, rowLine?, ih]

theorem dataRows_append_rows (hdr : List Line) (rs : List SwcRow) (hh : ∀ l ∈ hdr, isHeader l = true) :
    dataRows (hdr ++ rs.map renderRow) = rs.map rowToks := by
  unfold dataRows
  rw [List.dropWhile_append_of_pos hh]
  have : (rs.map renderRow).dropWhile isHeader = rs.map renderRow := by
    cases rs with
    | nil => rfl
    | cons r rs => simp [renderRow_eq, isHeader]
  rw [this, filterMap_rowLine_render]

theorem headerOf_append_rows (hdr : List Line) (rs : List SwcRow) (hh : ∀ l ∈ hdr, isHeader l = true) :
    headerOf (hdr ++ rs.map renderRow) = hdr := by
  unfold headerOf
  rw [List.takeWhile_append_of_pos hh]
  cases rs with
  | nil => simp
  | cons r rs => simp [renderRow_eq, isHeader]

theorem columnsOK_rowToks (rs : List SwcRow) : columnsOK (rs.map rowToks) = true := by
  cases rs with
  | nil => rfl
  | cons r rs => simp [columnsOK, rowToks]

theorem parseSwc_written (hdr : List Line) (rs : List SwcRow) (hh : ∀ l ∈ hdr, isHeader l = true) :
    parseSwc (hdr ++ rs.map renderRow) = some { props := hdr.findSome? metaLine?, rows := rs } := by
  unfold parseSwc metaOf
  rw [dataRows_append_rows hdr rs hh, headerOf_append_rows hdr rs hh, columnsOK_rowToks]
  have e : (rs.map rowToks).map parseRow = rs.map some := by
    rw [List.map_map]
    exact List.map_congr_left (fun r _ => parseRow_rowToks r)
  rw [e, sanitiseRows_map_some]
  simp

theorem headerLines_isHeader (wm : WriteMeta) (op : Opts) (sk : Skel) : ∀ l ∈ headerLines wm op sk, isHeader l = true := by
  intro l hl
  unfold headerLines at hl
  simp only [List.mem_append, List.mem_cons, List.not_mem_nil, or_false] at hl
  rcases hl with ((h | h) | h) | h
  · rcases h with rfl | rfl | rfl <;> rfl
  · cases hm : metaProps wm sk <;> simp [hm] at h
    subst h; rfl
  · rcases h with rfl | rfl | rfl <;> rfl
  · split at h
    · simp at h; subst h; rfl
    · simp at h

theorem headerLines_meta (wm : WriteMeta) (op : Opts) (sk : Skel) :
    (headerLines wm op sk).findSome? metaLine? = metaProps wm sk := by
  unfold headerLines
  cases hm : metaProps wm sk <;> cases he : op.exportConn <;> simp [metaLine?, List.findSome?]

/-- Writing any order `o` of the node table and parsing the lines gives back exactly the table and the header properties. -/
theorem parseSwc_writeWith (wm : WriteMeta) (op : Opts) (sk : Skel) (o : List SNode) :
    parseSwc (writeWith wm op sk o) = some { props := metaProps wm sk, rows := finish (labelOf op sk) o } := by
  unfold writeWith
  rw [parseSwc_written _ _ (headerLines_isHeader wm op sk), headerLines_meta]

theorem readBack_writeWith (cfg : ReadCfg) (wm : WriteMeta) (op : Opts) (sk : Skel) (o : List SNode) :
    readBack cfg (writeWith wm op sk o) =
      some (ofFile cfg { props := metaProps wm sk, rows := finish (labelOf op sk) o }) := by
  unfold readBack; rw [parseSwc_writeWith]; rfl

/-! ### soma and connector labels through the round trip -/

theorem somaOf_finish (lab : SNode → Option Int) (o : List SNode) (sl : Int) (cfg : ReadCfg) (hc : cfg.somaLabel = some sl) :
    somaOf cfg (finish lab o) = (o.find? (fun n => lab n == some sl)).map (fun n => newId o n.id) := by
  unfold somaOf finish
  rw [hc]
  simp only [List.find?_map, Option.map_map]
  rfl

theorem mem_connsOf_finish (lab : SNode → Option Int) (o : List SNode) (cfg : ReadCfg) (nm : String) (j : Int) :
    (nm, j) ∈ connsOf cfg (finish lab o) ↔
      ∃ v, (nm, v) ∈ cfg.connLabels ∧ ∃ n ∈ o, lab n = some v ∧ j = newId o n.id := by
  unfold connsOf finish
  simp only [List.mem_flatMap, List.mem_map, List.mem_filter, beq_iff_eq]
  constructor
  · rintro ⟨⟨nm', v⟩, hm, r, ⟨⟨n, hn, rfl⟩, hl⟩, he⟩
    simp only [Prod.mk.injEq] at he
    obtain ⟨rfl, rfl⟩ := he
    exact ⟨v, hm, n, hn, hl, rfl⟩
  · rintro ⟨v, hm, n, hn, hl, rfl⟩
    exact ⟨(nm, v), hm, rowOf lab o n, ⟨⟨n, hn, rfl⟩, hl⟩, rfl⟩

/-- `labels=True`: which nodes get the soma label. -/
theorem autoLabel_eq_soma (sk : Skel) (ex : Bool) (n : SNode) :
    autoLabel sk ex n = lblSoma ↔ n.id ∈ sk.soma ∧ (ex = true → n.id ∉ sk.post ∧ n.id ∉ sk.pre) := by
  unfold autoLabel lblSoma lblBranch lblEnd lblUndefined lblPost lblPre Gen.Swc.lblSoma Gen.Swc.lblBranch Gen.Swc.lblEnd
    Gen.Swc.lblUndefined Gen.Swc.lblPost Gen.Swc.lblPre
  cases ex <;> simp <;> split <;> (try split) <;> (try split) <;> (try split) <;> simp_all <;> omega

theorem autoLabel_eq_post (sk : Skel) (n : SNode) :
    autoLabel sk true n = lblPost ↔ n.id ∈ sk.post := by
  unfold autoLabel lblSoma lblBranch lblEnd lblUndefined lblPost lblPre Gen.Swc.lblSoma Gen.Swc.lblBranch Gen.Swc.lblEnd
    Gen.Swc.lblUndefined Gen.Swc.lblPost Gen.Swc.lblPre
  simp; split <;> (try split) <;> (try split) <;> (try split) <;> (try split) <;> simp_all <;> omega

theorem autoLabel_eq_pre (sk : Skel) (n : SNode) :
    autoLabel sk true n = lblPre ↔ n.id ∈ sk.pre ∧ n.id ∉ sk.post := by
  unfold autoLabel lblSoma lblBranch lblEnd lblUndefined lblPost lblPre Gen.Swc.lblSoma Gen.Swc.lblBranch Gen.Swc.lblEnd
    Gen.Swc.lblUndefined Gen.Swc.lblPost Gen.Swc.lblPre
  simp; split <;> (try split) <;> (try split) <;> (try split) <;> (try split) <;> simp_all <;> omega

/-- The sequential label assignments of the source, in the order and with the gating the translator found, compute `autoLabel`. -/
theorem labelsAsWritten_gen (sk : Skel) (ex : Bool) (n : SNode) :
    labelsAsWritten Gen.Swc.labelRules sk ex n = autoLabel sk ex n := by
  unfold labelsAsWritten autoLabel Gen.Swc.labelRules lblSoma lblBranch lblEnd lblUndefined lblPost lblPre Gen.Swc.lblSoma
    Gen.Swc.lblBranch Gen.Swc.lblEnd Gen.Swc.lblUndefined Gen.Swc.lblPost Gen.Swc.lblPre
  simp only [List.foldl_cons, List.foldl_nil, selects]
  cases ex <;> simp <;> (repeat' split) <;> simp_all

/-! ### arbitrary (user supplied) headers -/

theorem isHeader_rowLine_none {l : Line} (h : isHeader l = true) : rowLine? l = none := by
  cases l <;> simp_all [isHeader, rowLine?]

theorem filterMap_dropWhile_isHeader (ls : List Line) : (ls.dropWhile isHeader).filterMap rowLine? = ls.filterMap rowLine? := by
  induction ls with
  | nil => rfl
  | cons a ls ih =>
    simp only [List.dropWhile_cons]
    cases h : isHeader a with
    | true => simp [isHeader_rowLine_none h, ih]
    | false => simp

/-- The reader's data rows are simply all row lines of the file: header, comment and blank lines never contribute. -/
theorem dataRows_eq_filterMap (ls : List Line) : dataRows ls = ls.filterMap rowLine? := filterMap_dropWhile_isHeader ls

theorem filterMap_rowLine_noRows (hl : List Line) (h : noRows hl = true) : hl.filterMap rowLine? = [] := by
  rw [List.filterMap_eq_nil_iff]
  intro l hl'
  have := List.all_eq_true.mp h l hl'
  simpa using this

theorem dataRows_custom (hl : List Line) (rs : List SwcRow) (h : noRows hl = true) :
    dataRows (hl ++ rs.map renderRow) = rs.map rowToks := by
  rw [dataRows_eq_filterMap, List.filterMap_append, filterMap_rowLine_noRows hl h, filterMap_rowLine_render]
  rfl

theorem headerOf_custom (hl : List Line) (rs : List SwcRow) : headerOf (hl ++ rs.map renderRow) = headerOf hl := by
  unfold headerOf
  induction hl with
  | nil =>
    cases rs with
    | nil => rfl
    | cons r rs => simp [renderRow, isHeader]
  | cons a hl ih =>
    simp only [List.cons_append, List.takeWhile_cons]
    split
    · rw [ih]
    · rfl

theorem parseSwc_custom (hl : List Line) (rs : List SwcRow) (h : noRows hl = true) :
    parseSwc (hl ++ rs.map renderRow) = some { props := metaOf hl, rows := rs } := by
  unfold parseSwc metaOf
  rw [dataRows_custom hl rs h, headerOf_custom, columnsOK_rowToks, if_pos rfl, List.map_map]
  have : (parseRow ∘ rowToks) = some := by funext r; exact parseRow_rowToks r
  rw [this, sanitiseRows_map_some]

theorem noRows_headerLines (wm : WriteMeta) (op : Opts) (sk : Skel) : noRows (headerLines wm op sk) = true := by
  unfold noRows
  rw [List.all_eq_true]
  intro l hl
  rw [isHeader_rowLine_none (headerLines_isHeader wm op sk l hl)]
  rfl

theorem readBack_writeH (cfg : ReadCfg) (hd : Header) (op : Opts) (sk : Skel) (o : List SNode)
    (h : noRows (headerFor hd op sk) = true) :
    readBack cfg (writeH hd op sk o) =
      some (ofFile cfg { props := metaOf (headerFor hd op sk), rows := finish (labelOf op sk) o }) := by
  unfold readBack writeH
  rw [parseSwc_custom _ _ h]
  rfl

end Navis.Swc
