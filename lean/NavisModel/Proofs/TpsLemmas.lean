import NavisModel.Model.Tps
/-! Helper lemmas for C08 (thin plate splines): the top block of the TPS system evaluated with the
kernel matrix of the landmarks IS the spline evaluated at the landmarks; residual bounds carry over;
the cache state machine of `copy()` / `__neg__`.  Core Lean only. -/
namespace Navis.Tps

theorem add_comm (p q : Pt) : add p q = add q p := by
  simp only [add, Rat.add_comm]

/-- `K · W + P · A`, with `K` the kernel matrix of the landmarks, row by row equals `xform` of the
landmarks. -/
theorem systemTop_kernelMatrix (kern : Pt → Pt → Rat) (src : List Pt) (W : List Pt) (A : AffCoef) :
    systemTop (kernelMatrix kern src) src W A = src.map (eval kern src W A) := by
  unfold systemTop kernelMatrix
  rw [List.zipWith_map_left, List.zipWith_self]
  apply List.map_congr_left
  intro s _
  simp only [topRow, eval]
  exact add_comm _ _

theorem close_refl_of_eq {eps : Rat} {p q : Pt} (h : p = q) (he : 0 ≤ eps) : close eps p q = true := by
  subst h
  simp [close, absR, Rat.sub_self, he]

theorem closeAll_getElem? {eps : Rat} : ∀ {xs ys : List Pt}, closeAll eps xs ys = true →
    xs.length = ys.length ∧ ∀ (i : Nat) p q, xs[i]? = some p → ys[i]? = some q → close eps p q = true
  | [], [], _ => ⟨rfl, fun i p q h => by simp at h⟩
  | [], _ :: _, h => by simp [closeAll] at h
  | _ :: _, [], h => by simp [closeAll] at h
  | x :: xs, y :: ys, h => by
    simp only [closeAll, Bool.and_eq_true] at h
    obtain ⟨hl, hr⟩ := closeAll_getElem? h.2
    refine ⟨by simp [hl], ?_⟩
    intro i p q hp hq
    cases i with
    | zero =>
      simp only [List.getElem?_cons_zero, Option.some.injEq] at hp hq
      subst hp hq
      exact h.1
    | succ i =>
      simp only [List.getElem?_cons_succ] at hp hq
      exact hr i p q hp hq

/-! ## The cache state machine -/
section Cache
variable {γ : Type}

/-- Cached coefficients, if any, are those of the object's CURRENT landmarks. -/
def Coherent (coefs : Nat → Nat → γ) (o : Obj γ) : Prop :=
  ∀ c, o.cache = some c → c = coefs o.src o.tgt

def proj (o : Obj γ) : Nat × Nat := (o.src, o.tgt)

theorem coherent_mk (coefs : Nat → Nat → γ) (s t : Nat) : Coherent coefs (mk s t) := by
  intro c h; simp [mk] at h

theorem use_spec (coefs : Nat → Nat → γ) (o : Obj γ) (h : Coherent coefs o) :
    (use coefs o).1 = coefs o.src o.tgt ∧ proj (use coefs o).2 = proj o ∧ Coherent coefs (use coefs o).2 := by
  unfold use
  cases hc : o.cache with
  | some c => exact ⟨h c hc, rfl, h⟩
  | none =>
    refine ⟨rfl, rfl, ?_⟩
    intro c hc'
    simp only [Option.some.injEq] at hc'
    exact hc'.symm

theorem copy_spec (coefs : Nat → Nat → γ) (carries : Bool) (o : Obj γ) (h : Coherent coefs o) :
    proj (copy carries o) = proj o ∧ Coherent coefs (copy carries o) := by
  unfold copy
  cases carries with
  | true => exact ⟨rfl, h⟩
  | false => exact ⟨rfl, coherent_mk coefs _ _⟩

theorem neg_spec (coefs : Nat → Nat → γ) (o : Obj γ) :
    proj (neg true true o) = (o.tgt, o.src) ∧ Coherent coefs (neg true true o) := by
  refine ⟨rfl, ?_⟩
  intro c h; simp [neg] at h

theorem set_self_of_getElem? {α} {l : List α} {i : Nat} {a : α} (h : l[i]? = some a) : l.set i a = l := by
  obtain ⟨hi, rfl⟩ := List.getElem?_eq_some_iff.mp h
  exact List.set_getElem_self hi

/-- With `__neg__` swapping the landmarks and starting without coefficients, every `use` along every
history observes the coefficients of the used object's own (source, target), whatever `copy` does
with the cache. -/
theorem run_eq_runRef (coefs : Nat → Nat → γ) (carries : Bool) (pool : List (Obj γ))
    (hp : ∀ o ∈ pool, Coherent coefs o) (ops : List Op) :
    (run true true carries coefs pool ops).1 = runRef coefs (pool.map proj) ops := by
  induction ops generalizing pool with
  | nil => rfl
  | cons op ops ih =>
    cases op with
    | mk s t =>
      simp only [run, runRef]
      rw [ih (pool ++ [mk s t])]
      · simp [proj, mk]
      · intro o ho
        rcases List.mem_append.mp ho with ho | ho
        · exact hp o ho
        · simp only [List.mem_singleton] at ho; subst ho; exact coherent_mk coefs s t
    | use i =>
      simp only [run, runRef, List.getElem?_map]
      cases hi : pool[i]? with
      | none => simpa using ih pool hp
      | some o =>
        have ho : o ∈ pool := List.mem_of_getElem? hi
        obtain ⟨h1, h2, h3⟩ := use_spec coefs o (hp o ho)
        simp only [Option.map_some]
        have hpool : (pool.set i (use coefs o).2).map proj = pool.map proj := by
          rw [List.map_set, h2]
          apply set_self_of_getElem?
          rw [List.getElem?_map, hi]; rfl
        have := ih (pool.set i (use coefs o).2) (by
          intro o' ho'
          rcases List.mem_or_eq_of_mem_set ho' with ho' | ho'
          · exact hp o' ho'
          · subst ho'; exact h3)
        rw [hpool] at this
        show (use coefs o).1 :: _ = _
        rw [this, h1]
        rfl
    | copy i =>
      simp only [run, runRef, List.getElem?_map]
      cases hi : pool[i]? with
      | none => simpa using ih pool hp
      | some o =>
        have ho : o ∈ pool := List.mem_of_getElem? hi
        obtain ⟨h1, h2⟩ := copy_spec coefs carries o (hp o ho)
        simp only [Option.map_some]
        rw [ih (pool ++ [copy carries o])]
        · simp [h1]
        · intro o' ho'
          rcases List.mem_append.mp ho' with ho' | ho'
          · exact hp o' ho'
          · simp only [List.mem_singleton] at ho'; subst ho'; exact h2
    | neg i =>
      simp only [run, runRef, List.getElem?_map]
      cases hi : pool[i]? with
      | none => simpa using ih pool hp
      | some o =>
        obtain ⟨h1, h2⟩ := neg_spec coefs o
        simp only [Option.map_some]
        rw [ih (pool ++ [neg true true o])]
        · simp [proj, neg]
        · intro o' ho'
          rcases List.mem_append.mp ho' with ho' | ho'
          · exact hp o' ho'
          · simp only [List.mem_singleton] at ho'; subst ho'; exact h2

end Cache
end Navis.Tps
