import NavisModel.Model.UnitsSpec
import NavisModel.Proofs.UnitsLemmas
/-! C15: interpreting the extracted operator table gives the hand-written model operators. -/
set_option linter.unusedSimpArgs false
set_option linter.unusedVariables false
namespace Navis.Units
open Navis.Gen.Units (OpFact)

theorem applyFact_core (f : OpFact) (n : Neuron) (a : Factor) (p : Int) :
    applyFact f n a p = applyFact (factCore f).toFact n a p := by
  cases f; rfl

theorem v3op_mul (a b : V3) : v3op (fun x y => x * y) a b = a.mul b := rfl
theorem v3op_div (a b : V3) : v3op (fun x y => x / y) a b = a.div b := rfl
theorem v3op_add (a b : V3) : v3op (fun x y => x + y) a b = a.add b := rfl
theorem v3op_sub (a b : V3) : v3op (fun x y => x - y) a b = a.sub b := rfl

/-- only skeletons carry a `radius` column -/
def RadiiOnlyOnTrees (n : Neuron) : Prop := n.kind ≠ .tree → n.radii = []

theorem expected_is_model (k : Kind) (op : OpK) (n : Neuron) (a : Factor) (p : Int) (hk : n.kind = k)
    (hr : RadiiOnlyOnTrees n) : applyFact (expectedCore k op).toFact n a p = modelOp op n a p := by
  subst hk
  unfold RadiiOnlyOnTrees at hr
  cases hkk : n.kind <;> cases op <;> cases a <;>
    simp [applyFact, expectedCore, OpCore.toFact, binop, factAccepts, modelOp, mul, div, add, sub, hkk, acceptsScale,
      acceptsShift, v3op_mul, v3op_div, v3op_add, v3op_sub, Factor.nz, Factor.xyz, Factor.rad, OpK.name, OpK.sym,
      OpK.inv, OpK.scaling] <;>
    (try simp [hkk] at hr) <;> (try split_ifs) <;> simp_all

theorem expectedCore_cls (k : Kind) (op : OpK) : (expectedCore k op).cls = clsOf k ∧ (expectedCore k op).op = op.name := by
  cases k <;> exact ⟨rfl, rfl⟩

theorem clsOf_inj {a b : Kind} (h : clsOf a = clsOf b) : a = b := by
  cases a <;> cases b <;> first | rfl | (exact absurd h (by decide))

theorem opName_inj {a b : OpK} (h : a.name = b.name) : a = b := by
  cases a <;> cases b <;> first | rfl | (exact absurd h (by decide))

theorem mem_expectedTable {c : OpCore} (h : c ∈ expectedTable) : ∃ k op, c = expectedCore k op := by
  simp only [expectedTable, allKinds, allOps, List.mem_flatMap, List.mem_map, List.mem_cons, List.not_mem_nil,
    or_false] at h
  obtain ⟨k, _, op, _, rfl⟩ := h
  exact ⟨k, op, rfl⟩

/-- a row of a table whose semantic fields are the expected ones acts as the hand-written model operator -/
theorem table_rows_are_model {facts : List OpFact} (ht : facts.map factCore = expectedTable) {f : OpFact} (hf : f ∈ facts)
    {k : Kind} {op : OpK} (hc : f.cls = clsOf k) (ho : f.op = op.name) (n : Neuron) (a : Factor) (p : Int)
    (hk : n.kind = k) (hr : RadiiOnlyOnTrees n) : applyFact f n a p = modelOp op n a p := by
  have hm : factCore f ∈ expectedTable := by rw [← ht]; exact List.mem_map_of_mem hf
  obtain ⟨k', op', he⟩ := mem_expectedTable hm
  obtain ⟨e1, e2⟩ := expectedCore_cls k' op'
  have hk' : k' = k := clsOf_inj (by rw [← e1, ← he]; exact hc)
  have ho' : op' = op := opName_inj (by rw [← e2, ← he]; exact ho)
  subst hk' ho'
  rw [applyFact_core, he]
  exact expected_is_model _ _ n a p hk hr

end Navis.Units
