import NavisModel.Proofs.HealKruskalLemmas
/-!
C11 helper lemmas, part 6 (core Lean only): optimality of Kruskal's forest.

* `acyclic_le_spanning`: an acyclic edge set whose edges are all connected through a second edge set
  has at most as many edges as the second set (rank of the graphic matroid, by counting union–find
  classes);
* `kruskal_dominates`: for every upward-closed set of lengths, Kruskal's forest has at most as many
  edges in it as any spanning subset of the candidate edges;
* `kruskal_sum_le`: hence its total weight is minimal for every monotone weight of the length.
-/
namespace Navis.Heal
open Navis.Forest

/-! ### replacing edges by paths -/

theorem Conn.bind {E E' : EL} (h : ∀ a b, Adj E a b → Conn E' a b) {a b : Int} (hc : Conn E a b) : Conn E' a b := by
  induction hc with
  | refl => exact .refl _
  | step _ hadj ih => exact ih.trans (h _ _ hadj)

theorem adj_qE {l : List CEdge} {a b : Int} (h : Adj (qE l) a b) :
    ∃ e ∈ l, (a = e.fa ∧ b = e.fb) ∨ (a = e.fb ∧ b = e.fa) := by
  unfold qE at h
  rcases h with h | h
  · obtain ⟨e, he, heq⟩ := List.mem_map.mp h
    exact ⟨e, he, Or.inl ⟨(congrArg Prod.fst heq).symm, (congrArg Prod.snd heq).symm⟩⟩
  · obtain ⟨e, he, heq⟩ := List.mem_map.mp h
    exact ⟨e, he, Or.inr ⟨(congrArg Prod.snd heq).symm, (congrArg Prod.fst heq).symm⟩⟩

theorem adj_qE_of_mem {l : List CEdge} {e : CEdge} (he : e ∈ l) : Adj (qE l) e.fa e.fb :=
  Or.inl (List.mem_map.mpr ⟨e, he, rfl⟩)

/-! ### what a scan accepts -/

theorem foldl_kStep_added_eq (l : List CEdge) (s : KState) :
    ∃ X, (l.foldl kStep s).added = s.added ++ X ∧ X.length ≤ l.length ∧ ∀ x ∈ X, x ∈ l := by
  induction l generalizing s with
  | nil => exact ⟨[], by simp, by simp, by simp⟩
  | cons e rest ih =>
    obtain ⟨X, h1, h2, h3⟩ := ih (kStep s e)
    rw [List.foldl_cons, h1]
    unfold kStep
    split
    · exact ⟨X, rfl, by simp; omega, fun x hx => List.mem_cons_of_mem _ (h3 x hx)⟩
    · refine ⟨e :: X, by simp, by simp; omega, ?_⟩
      intro x hx
      rcases List.mem_cons.mp hx with rfl | hx
      · exact List.mem_cons_self
      · exact List.mem_cons_of_mem _ (h3 x hx)

/-- An acyclic list is accepted completely. -/
theorem foldl_kStep_acyclic (l : List CEdge) : ∀ (s : KState), QInv s → Acyc (qE (s.added ++ l)) →
    (l.foldl kStep s).added = s.added ++ l := by
  induction l with
  | nil => intro s _ _; simp
  | cons e rest ih =>
    intro s hq hac
    have hne : s.comp e.fa ≠ s.comp e.fb := by
      intro heq
      have hc : Conn (qE s.added) e.fa e.fb := (hq.conn _ _).mpr heq
      have hmem : (e.fa, e.fb) ∈ qE (s.added ++ e :: rest) := by
        rw [qE_append]; exact List.mem_append_right _ (by simp [qE])
      apply hac.2 _ hmem
      apply hc.of_subset
      intro x hx
      rw [mem_erase_of_nodup hac.1]
      have hx' : x ∈ qE (s.added ++ e :: rest) := by rw [qE_append]; exact List.mem_append_left _ hx
      refine ⟨?_, hx'⟩
      -- the pair of `e` occurs only once in the (duplicate-free) list, namely after `s.added`
      intro hxe
      have hnd := hac.1
      rw [qE_append] at hnd
      exact (List.nodup_append.mp hnd).2.2 x hx (e.fa, e.fb) (by simp [qE]) hxe
    have hstep : kStep s e = ⟨merge s.comp e.fa e.fb, s.added ++ [e]⟩ := by
      unfold kStep; rw [if_neg hne]
    rw [List.foldl_cons]
    have hq' := hq.step e
    have := ih (kStep s e) hq' (by rw [hstep]; simpa using hac)
    rw [this, hstep]; simp

/-! ### counting union–find classes -/

/-- Representatives (fixed points of the labelling) among `V`. -/
def reps (V : List Int) (c : Int → Int) : List Int := V.filter fun v => c v == v

/-- The labelling maps `V` into `V` and every label is its own label. -/
def RepOK (V : List Int) (c : Int → Int) : Prop := ∀ v ∈ V, c v ∈ V ∧ c (c v) = c v

theorem merge_pos {c : Int → Int} {x y v : Int} (h : c v = c y) : merge c x y v = c x := by
  simp [merge, h]

theorem merge_neg {c : Int → Int} {x y v : Int} (h : ¬ c v = c y) : merge c x y v = c v := by
  simp [merge, h]

theorem reps_merge {V : List Int} (hnd : V.Nodup) {c : Int → Int} (hok : RepOK V c) {x y : Int}
    (hx : x ∈ V) (hy : y ∈ V) (hne : c x ≠ c y) :
    RepOK V (merge c x y) ∧ (reps V (merge c x y)).length + 1 = (reps V c).length := by
  constructor
  · intro v hv
    by_cases h1 : c v = c y
    · rw [merge_pos h1]
      refine ⟨(hok x hx).1, ?_⟩
      rw [merge_neg (by rw [(hok x hx).2]; exact hne)]
      exact (hok x hx).2
    · rw [merge_neg h1]
      refine ⟨(hok v hv).1, ?_⟩
      rw [merge_neg (by rw [(hok v hv).2]; exact h1)]
      exact (hok v hv).2
  · have heq : reps V (merge c x y) = (reps V c).erase (c y) := by
      unfold reps
      rw [List.Nodup.erase_eq_filter (l := V.filter fun v => c v == v) (hnd.filter _) (c y), List.filter_filter]
      apply List.filter_congr
      intro v hv
      rw [Bool.eq_iff_iff]
      simp only [beq_iff_eq, bne_iff_ne, ne_eq, Bool.and_eq_true]
      by_cases h1 : c v = c y
      · rw [merge_pos h1]
        constructor
        · intro hxv
          -- `v` fixed under the new labelling would give `c x = c y`
          exfalso
          apply hne
          rw [← h1, ← hxv, (hok x hx).2]
        · rintro ⟨h2, h3⟩
          exact absurd (h3.symm.trans h1) h2
      · rw [merge_neg h1]
        constructor
        · intro h2
          exact ⟨fun h3 => h1 (h2.trans h3), h2⟩
        · intro h; exact h.2
    have hmem : c y ∈ reps V c := by
      unfold reps
      exact List.mem_filter.mpr ⟨(hok y hy).1, by simp [(hok y hy).2]⟩
    rw [heq, List.length_erase_of_mem hmem]
    have := List.length_pos_of_mem hmem
    omega

/-- Number of classes + number of accepted edges is constant along a scan. -/
theorem foldl_kStep_count {V : List Int} (hnd : V.Nodup) (l : List CEdge)
    (hV : ∀ e ∈ l, e.fa ∈ V ∧ e.fb ∈ V) : ∀ s : KState, RepOK V s.comp →
    RepOK V (l.foldl kStep s).comp ∧
    (reps V (l.foldl kStep s).comp).length + (l.foldl kStep s).added.length =
      (reps V s.comp).length + s.added.length := by
  induction l with
  | nil => intro s h; exact ⟨h, rfl⟩
  | cons e rest ih =>
    intro s hok
    have he := hV e List.mem_cons_self
    have hrest : ∀ x ∈ rest, x.fa ∈ V ∧ x.fb ∈ V := fun x hx => hV x (List.mem_cons_of_mem _ hx)
    rw [List.foldl_cons]
    by_cases hc : s.comp e.fa = s.comp e.fb
    · have : kStep s e = s := by unfold kStep; rw [if_pos hc]
      rw [this]; exact ih hrest s hok
    · have hstep : kStep s e = ⟨merge s.comp e.fa e.fb, s.added ++ [e]⟩ := by unfold kStep; rw [if_neg hc]
      obtain ⟨h1, h2⟩ := reps_merge hnd hok he.1 he.2 hc
      obtain ⟨g1, g2⟩ := ih hrest (kStep s e) (by rw [hstep]; exact h1)
      refine ⟨g1, ?_⟩
      rw [g2, hstep]
      simp only [List.length_append, List.length_cons, List.length_nil]
      omega

/-- Duplicate-free list with the same members. -/
def dedupI : List Int → List Int
  | [] => []
  | x :: xs => if x ∈ dedupI xs then dedupI xs else x :: dedupI xs

theorem mem_dedupI {l : List Int} {a : Int} : a ∈ dedupI l ↔ a ∈ l := by
  induction l with
  | nil => simp [dedupI]
  | cons x xs ih =>
    unfold dedupI
    split
    · rename_i h
      rw [ih, List.mem_cons]
      constructor
      · exact Or.inr
      · rintro (rfl | h')
        · exact ih.mp h
        · exact h'
    · rw [List.mem_cons, List.mem_cons, ih]

theorem dedupI_nodup (l : List Int) : (dedupI l).Nodup := by
  induction l with
  | nil => simp [dedupI]
  | cons x xs ih =>
    unfold dedupI
    split
    · exact ih
    · rename_i h; exact List.nodup_cons.mpr ⟨h, ih⟩

theorem nodup_map_of_inj' {l : List Int} (hnd : l.Nodup) {f : Int → Int}
    (hinj : ∀ a ∈ l, ∀ b ∈ l, f a = f b → a = b) : (l.map f).Nodup := by
  induction l with
  | nil => simp
  | cons x xs ih =>
    rw [List.nodup_cons] at hnd
    rw [List.map_cons, List.nodup_cons]
    refine ⟨?_, ih hnd.2 fun a ha b hb => hinj a (List.mem_cons_of_mem _ ha) b (List.mem_cons_of_mem _ hb)⟩
    intro hm
    obtain ⟨y, hy, hxy⟩ := List.mem_map.mp hm
    have := hinj y (List.mem_cons_of_mem _ hy) x List.mem_cons_self hxy
    exact hnd.1 (this ▸ hy)

/-- **Rank lemma of the graphic matroid.** An acyclic edge list all of whose edges are connected
through `S` has at most `|S|` edges. -/
theorem acyclic_le_spanning (I S : List CEdge) (hac : Acyc (qE I))
    (hsp : ∀ e ∈ I, Conn (qE S) e.fa e.fb) : I.length ≤ S.length := by
  let V := dedupI ((I ++ S).flatMap fun e => [e.fa, e.fb])
  have hVnd : V.Nodup := dedupI_nodup _
  have hVmem : ∀ e ∈ I ++ S, e.fa ∈ V ∧ e.fb ∈ V := by
    intro e he
    constructor <;> (apply mem_dedupI.mpr; rw [List.mem_flatMap]; exact ⟨e, he, by simp⟩)
  have hVI : ∀ e ∈ I, e.fa ∈ V ∧ e.fb ∈ V := fun e he => hVmem e (List.mem_append_left _ he)
  have hVS : ∀ e ∈ S, e.fa ∈ V ∧ e.fb ∈ V := fun e he => hVmem e (List.mem_append_right _ he)
  have hinit : RepOK V kInit.comp := by intro v hv; exact ⟨hv, rfl⟩
  -- scan I: everything is accepted
  obtain ⟨okI, cntI⟩ := foldl_kStep_count hVnd I hVI kInit hinit
  have haddI : (I.foldl kStep kInit).added = I := by
    have := foldl_kStep_acyclic I kInit QInv.init (by simpa [kInit] using hac)
    simpa [kInit] using this
  -- scan S
  obtain ⟨okS, cntS⟩ := foldl_kStep_count hVnd S hVS kInit hinit
  obtain ⟨X, hX, hXlen, _⟩ := foldl_kStep_added_eq S kInit
  have hqI := QInv.init.foldl I
  have hqS := QInv.init.foldl S
  -- classes of I refine classes of S
  have href : ∀ u v, (I.foldl kStep kInit).comp u = (I.foldl kStep kInit).comp v →
      (S.foldl kStep kInit).comp u = (S.foldl kStep kInit).comp v := by
    intro u v h
    have hc : Conn (qE (I.foldl kStep kInit).added) u v := (hqI.conn _ _).mpr h
    rw [haddI] at hc
    have hc' : Conn (qE S) u v := by
      apply hc.bind
      intro a b hab
      obtain ⟨e, he, hcase⟩ := adj_qE hab
      rcases hcase with ⟨h1, h2⟩ | ⟨h1, h2⟩
      · rw [h1, h2]; exact hsp e he
      · rw [h1, h2]; exact (hsp e he).symm
    have hc'' : Conn (qE (S.foldl kStep kInit).added) u v := by
      apply hc'.bind
      intro a b hab
      obtain ⟨e, he, hcase⟩ := adj_qE hab
      have hj := foldl_kStep_joins S kInit e he
      have := (hqS.conn _ _).mpr hj
      rcases hcase with ⟨h1, h2⟩ | ⟨h1, h2⟩
      · rw [h1, h2]; exact this
      · rw [h1, h2]; exact this.symm
    exact (hqS.conn _ _).mp hc''
  -- hence at least as many classes
  have hle : (reps V (S.foldl kStep kInit).comp).length ≤ (reps V (I.foldl kStep kInit).comp).length := by
    have hnd : ((reps V (S.foldl kStep kInit).comp).map (I.foldl kStep kInit).comp).Nodup := by
      apply nodup_map_of_inj' (hVnd.filter _)
      intro a ha b hb hab
      have ha' := List.mem_filter.mp ha
      have hb' := List.mem_filter.mp hb
      have := href a b hab
      have e1 : (S.foldl kStep kInit).comp a = a := by simpa using ha'.2
      have e2 : (S.foldl kStep kInit).comp b = b := by simpa using hb'.2
      rw [e1, e2] at this; exact this
    have hsub : ∀ x ∈ (reps V (S.foldl kStep kInit).comp).map (I.foldl kStep kInit).comp,
        x ∈ reps V (I.foldl kStep kInit).comp := by
      intro x hx
      obtain ⟨r, hr, rfl⟩ := List.mem_map.mp hx
      have hrV := (List.mem_filter.mp hr).1
      exact List.mem_filter.mpr ⟨(okI r hrV).1, by simp [(okI r hrV).2]⟩
    have := List.Nodup.length_le_of_subset hnd hsub
    simpa using this
  rw [haddI] at cntI
  rw [hX, List.length_append] at cntS
  have hk0 : kInit.added.length = 0 := rfl
  omega

/-! ### sorted scan: short edges first -/

/-- A predicate on candidate edges that only depends on the length and is upward closed. -/
def UpClosed (P : CEdge → Bool) : Prop := ∀ e f : CEdge, e.d2 ≤ f.d2 → P e = true → P f = true

theorem sorted_split {L : List CEdge} (hs : L.Pairwise CEdge.le) {P : CEdge → Bool} (hP : UpClosed P) :
    L = L.filter (fun e => !P e) ++ L.filter P := by
  induction L with
  | nil => rfl
  | cons x xs ih =>
    rw [List.pairwise_cons] at hs
    by_cases hx : P x = true
    · have hall : ∀ y ∈ xs, P y = true := fun y hy => hP x y (CEdge.le_d2 (hs.1 y hy)) hx
      have h1 : xs.filter (fun e => !P e) = [] := by
        rw [List.filter_eq_nil_iff]; intro y hy; simp [hall y hy]
      have h2 : xs.filter P = xs := List.filter_eq_self.mpr hall
      simp [List.filter_cons, hx, h1, h2]
    · have hx' : P x = false := by simpa using hx
      have := ih hs.2
      simp only [List.filter_cons, hx', Bool.not_false, if_true, Bool.false_eq_true, if_false, List.cons_append]
      rw [← this]

/-- **Kruskal's forest dominates every spanning subset**: for every upward-closed set of lengths it has
at most as many edges in that set. -/
theorem kruskal_dominates (es T : List CEdge) (hT : ∀ e ∈ T, e ∈ es)
    (hspan : ∀ c ∈ es, Conn (qE T) c.fa c.fb) {P : CEdge → Bool} (hP : UpClosed P) :
    (kruskal es).countP P ≤ T.countP P := by
  have hsplit := sorted_split (sortEdges_sorted es) hP
  let lo := (sortEdges es).filter (fun e => !P e)
  let hi := (sortEdges es).filter P
  have hL : sortEdges es = lo ++ hi := hsplit
  let s1 := lo.foldl kStep kInit
  have hq1 : QInv s1 := QInv.init.foldl lo
  obtain ⟨A1, hA1, _, hA1mem⟩ := foldl_kStep_added_eq lo kInit
  obtain ⟨X, hX, _, hXmem⟩ := foldl_kStep_added_eq hi s1
  have hA1' : s1.added = A1 := hA1.trans (List.nil_append A1)
  have hK : kruskal es = A1 ++ X := by
    unfold kruskal
    rw [hL, List.foldl_append, hX, hA1']
  -- counting in Kruskal's forest: exactly the part accepted during `hi`
  have hA1P : A1.countP P = 0 := by
    rw [List.countP_eq_zero]
    intro x hx
    have := (List.mem_filter.mp (hA1mem x hx)).2
    simpa using this
  have hXP : X.countP P = X.length := by
    rw [List.countP_eq_length]
    intro x hx
    exact (List.mem_filter.mp (hXmem x hx)).2
  rw [hK, List.countP_append, hA1P, hXP, Nat.zero_add]
  -- rank lemma with I = A1 ++ X and S = A1 ++ T.filter P
  have hac : Acyc (qE (A1 ++ X)) := by rw [← hK]; exact kruskal_acyc es
  have hle := acyclic_le_spanning (A1 ++ X) (A1 ++ T.filter P) hac (by
    intro e he
    have hees : e ∈ es := kruskal_sub es e (hK ▸ he)
    apply (hspan e hees).bind
    intro a b hab
    obtain ⟨t, ht, hcase⟩ := adj_qE hab
    have key : Conn (qE (A1 ++ T.filter P)) t.fa t.fb := by
      by_cases hp : P t = true
      · exact Conn.single (adj_qE_of_mem (List.mem_append_right _ (List.mem_filter.mpr ⟨ht, hp⟩)))
      · -- a short edge: already joined by the forest accepted during `lo`
        have htl : t ∈ lo := List.mem_filter.mpr ⟨(sortEdges_perm es).mem_iff.mpr (hT t ht), by simpa using hp⟩
        have hj := foldl_kStep_joins lo kInit t htl
        have hc : Conn (qE s1.added) t.fa t.fb := (hq1.conn _ _).mpr hj
        rw [hA1'] at hc
        exact hc.of_subset fun x hx => by rw [qE_append]; exact List.mem_append_left _ hx
    rcases hcase with ⟨h1, h2⟩ | ⟨h1, h2⟩
    · rw [h1, h2]; exact key
    · rw [h1, h2]; exact key.symm)
  simp only [List.length_append] at hle
  have : (T.filter P).length = T.countP P := by rw [List.countP_eq_length_filter]
  omega

/-! ### from counts to sums -/

/-- `Σ_{k < M} #{x ∈ l | k < x}` -/
def layers (M : Nat) (l : List Nat) : Nat := ((List.range M).map fun k => l.countP fun x => decide (k < x)).sum

theorem sum_map_one (M : Nat) : ((List.range M).map fun _ => 1).sum = M := by
  induction M with
  | zero => rfl
  | succ n ih => rw [List.range_succ, List.map_append, List.sum_append, ih]; rfl

theorem sum_map_zero (L : List Nat) : (L.map fun _ => 0).sum = 0 := by
  induction L with
  | nil => rfl
  | cons a L ih => simp only [List.map_cons, List.sum_cons, ih]

theorem sum_range_lt (M x : Nat) (h : x ≤ M) : ((List.range M).map fun k => if k < x then 1 else 0).sum = x := by
  induction M with
  | zero => have : x = 0 := by omega
            subst this; simp
  | succ M ih =>
    rw [List.range_succ, List.map_append, List.sum_append]
    by_cases hx : x ≤ M
    · rw [ih hx]
      have : ¬ M < x := by omega
      simp [this]
    · have hxe : x = M + 1 := by omega
      subst hxe
      have : ((List.range M).map fun k => if k < M + 1 then 1 else 0) = (List.range M).map fun _ => 1 := by
        apply List.map_congr_left
        intro k hk
        have := List.mem_range.mp hk
        simp; omega
      rw [this, sum_map_one]
      simp

theorem layers_cons (M x : Nat) (l : List Nat) (h : x ≤ M) : layers M (x :: l) = x + layers M l := by
  unfold layers
  have : ((List.range M).map fun k => (x :: l).countP fun y => decide (k < y)) =
      (List.range M).map fun k => (if k < x then 1 else 0) + l.countP fun y => decide (k < y) := by
    apply List.map_congr_left
    intro k _
    rw [List.countP_cons]
    by_cases hk : k < x <;> simp [hk, Nat.add_comm]
  rw [this]
  have hsum : ∀ (f g : Nat → Nat) (L : List Nat), (L.map fun k => f k + g k).sum = (L.map f).sum + (L.map g).sum := by
    intro f g L
    induction L with
    | nil => rfl
    | cons a L ih => simp only [List.map_cons, List.sum_cons, ih]; omega
  rw [hsum, sum_range_lt M x h]

theorem layers_eq_sum (M : Nat) (l : List Nat) (h : ∀ x ∈ l, x ≤ M) : layers M l = l.sum := by
  induction l with
  | nil => simp only [layers, List.countP_nil, List.sum_nil]; exact sum_map_zero _
  | cons x xs ih =>
    rw [layers_cons M x xs (h x List.mem_cons_self), ih (fun y hy => h y (List.mem_cons_of_mem _ hy))]
    simp

theorem layers_le {M : Nat} {a b : List Nat}
    (h : ∀ k, (a.countP fun x => decide (k < x)) ≤ b.countP fun x => decide (k < x)) : layers M a ≤ layers M b := by
  unfold layers
  induction (List.range M) with
  | nil => simp
  | cons k ks ih => simp only [List.map_cons, List.sum_cons]; have := h k; omega

theorem foldl_max_ge (l : List Nat) (a : Nat) : a ≤ l.foldl max a ∧ ∀ x ∈ l, x ≤ l.foldl max a := by
  induction l generalizing a with
  | nil => simp
  | cons y ys ih =>
    obtain ⟨h1, h2⟩ := ih (max a y)
    refine ⟨by simp only [List.foldl_cons]; omega, ?_⟩
    intro x hx
    simp only [List.foldl_cons]
    rcases List.mem_cons.mp hx with rfl | hx
    · omega
    · exact h2 x hx

/-- Counting domination on all thresholds implies domination of the sums. -/
theorem sum_le_of_counts {a b : List Nat}
    (h : ∀ k, (a.countP fun x => decide (k < x)) ≤ b.countP fun x => decide (k < x)) : a.sum ≤ b.sum := by
  let M := (a ++ b).foldl max 0
  have hM : ∀ x ∈ a ++ b, x ≤ M := (foldl_max_ge (a ++ b) 0).2
  rw [← layers_eq_sum M a (fun x hx => hM x (List.mem_append_left _ hx)),
    ← layers_eq_sum M b (fun x hx => hM x (List.mem_append_right _ hx))]
  exact layers_le h

/-- **Kruskal's forest has minimal total weight** among the spanning subsets of the candidate edges, for
every monotone weight `w` of the squared length. -/
theorem kruskal_sum_le (es T : List CEdge) (hT : ∀ e ∈ T, e ∈ es)
    (hspan : ∀ c ∈ es, Conn (qE T) c.fa c.fb) (w : Nat → Nat) (hw : ∀ x y, x ≤ y → w x ≤ w y) :
    ((kruskal es).map fun e => w e.d2).sum ≤ (T.map fun e => w e.d2).sum := by
  apply sum_le_of_counts
  intro k
  rw [List.countP_map, List.countP_map]
  apply kruskal_dominates es T hT hspan
  intro e f hef he
  simp only [Function.comp, decide_eq_true_eq] at he ⊢
  have := hw _ _ hef
  omega

end Navis.Heal
