import NavisModel.Proofs.ResampleGeomLemmas
import Mathlib.Analysis.Real.Sqrt
/-! C13: the real-valued form of "resampling does not increase cable length": the Euclidean length of the
resampled chain (sum of square roots) is at most the arc length of the original segment. -/
namespace Navis.Resample

/-- Euclidean length of the polyline through the points (real-valued). -/
noncomputable def chainLen : List Pt → ℝ
  | a :: b :: rest => Real.sqrt ((sqd a b : Rat) : ℝ) + chainLen (b :: rest)
  | _ => 0

theorem chainLen_map_le (f : Nat → Pt) (step : Rat) (hs : 0 ≤ step)
    (h : ∀ j, sqd (f j) (f (j + 1)) ≤ step * step) (n s : Nat) :
    chainLen ((List.range' s (n + 1)).map f) ≤ (n : ℝ) * (step : ℝ) := by
  induction n generalizing s with
  | zero => simp [List.range', chainLen]
  | succ n ih =>
    have e : (List.range' s (n + 1 + 1)).map f = f s :: f (s + 1) :: (List.range' (s + 1 + 1) n).map f := by
      simp [List.range'_succ]
    have e2 : (List.range' (s + 1) (n + 1)).map f = f (s + 1) :: (List.range' (s + 1 + 1) n).map f := by
      simp [List.range'_succ]
    rw [e, chainLen, ← e2]
    have h1 : Real.sqrt ((sqd (f s) (f (s + 1)) : Rat) : ℝ) ≤ (step : ℝ) := by
      rw [Real.sqrt_le_iff]
      refine ⟨by exact_mod_cast hs, ?_⟩
      have := h s
      have : ((sqd (f s) (f (s + 1)) : Rat) : ℝ) ≤ ((step * step : Rat) : ℝ) := by exact_mod_cast this
      rw [sq]; push_cast at this; exact this
    have h2 := ih (s + 1)
    push_cast
    linarith

/-- **Resampling does not increase cable length**: the chain through the `k + 2` samples of a segment
(first anchor, `k` fresh nodes, last anchor) is at most `total` long, whenever the arc lengths used for the
interpolation do not under-estimate the true edge lengths (`ArcOK`). -/
theorem chainLen_samples_le (ks : List (Rat × Pt)) (h : ArcOK ks) (total : Rat) (ht : 0 ≤ total) (k : Nat) :
    chainLen (samples ks total k) ≤ (total : ℝ) := by
  have hpos : (0 : Rat) < (k : Rat) + 1 := by positivity
  have hstep : 0 ≤ total / ((k : Rat) + 1) := div_nonneg ht hpos.le
  have := chainLen_map_le (fun j => polyAt ks (samplePos total k j)) (total / ((k : Rat) + 1)) hstep
    (fun j => chord_le_arc ks h total ht k j) (k + 1) 0
  have e : samples ks total k = (List.range' 0 (k + 1 + 1)).map (fun j => polyAt ks (samplePos total k j)) := by
    unfold samples
    rw [List.range_eq_range']
  rw [e]
  calc _ ≤ ((k + 1 : Nat) : ℝ) * ((total / ((k : Rat) + 1) : Rat) : ℝ) := this
    _ = (total : ℝ) := by
      push_cast
      have : ((k : ℝ) + 1) ≠ 0 := by positivity
      field_simp

/-- If `len` never under-estimates the distance of two nodes, the knots of every id list are admissible. -/
theorem lensOK_seg (pt : Int → Pt) (len : Int → Int → Nat)
    (h : ∀ a b, sqd (pt a) (pt b) ≤ ((len a b : Nat) : Rat) * ((len a b : Nat) : Rat)) :
    ∀ s : List Int, LensOK (s.map pt) (segLens len s)
  | [] => trivial
  | [_] => trivial
  | a :: b :: rest => by
    have ih := lensOK_seg pt len h (b :: rest)
    exact ⟨by positivity, h a b, ih⟩

/-- Summing per-segment bounds. -/
theorem sum_chain_le {α} (F : α → ℝ) (G : α → Nat) (hFG : ∀ s, F s ≤ (G s : ℝ)) :
    ∀ l : List α, (l.map F).sum ≤ (((l.map G).sum : Nat) : ℝ)
  | [] => by simp
  | s :: l => by
    have := sum_chain_le F G hFG l
    have := hFG s
    simp only [List.map_cons, List.sum_cons, Nat.cast_add]
    linarith

end Navis.Resample
