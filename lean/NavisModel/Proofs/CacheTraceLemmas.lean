import NavisModel.Proofs.CacheLemmas
/-!
Helper lemmas for C02, second part: the *observed* form of composite events (what a trace of the real object
shows) refines the primitive form the freshness theorems are stated over.  Core Lean only.
-/
namespace Navis.Cache

/-- evaluating `is_stale` on a neuron whose flag is clear and whose stamp equals the content changes nothing -/
theorem isStaleS_current (sp : Spec) {s : St} (hst : s.stale = false) (hm : s.md5 = s.ver) : isStaleS sp s = s := by
  cases s with
  | mk ver hi md5 stale lock cache tver typeVer =>
    simp only at hst hm
    subst hst; subst hm
    unfold isStaleS
    simp

/-- lock, unlock and a classification of an already classified table leave the state as it is -/
theorem lock_unlock_classify (sp : Spec) {s : St} (ht : s.typeVer = s.tver) :
    run sp s [.lock, .unlock, .classify] = s := by
  cases s with
  | mk ver hi md5 stale lock cache tver typeVer =>
    simp only at ht
    subst ht
    simp [run, step, classifyS]

/-- the nested `classify_nodes` call of the `TreeNeuron` clear (entry check of `lock_neuron`, lock, unlock,
classification) changes nothing in the state the clear leaves behind -/
theorem classifyCall_noop {sp : Spec} (hr : sp.clearRestamps = true) (s : St) (excl : List String)
    (hx : excl.contains "classify_nodes" = false) :
    run sp (step sp s (.clear excl)) (classifyCallTrace sp (step sp s (.clear excl))) = step sp s (.clear excl) := by
  have hs' : step sp s (.clear excl) = classifyS (clearBase sp excl s) := by
    show clearS sp excl s = _
    unfold clearS; rw [if_neg (by rw [hx]; decide)]
  have hty : (step sp s (.clear excl)).typeVer = (step sp s (.clear excl)).tver := by rw [hs']; rfl
  have hlk : (step sp s (.clear excl)).lock = s.lock := clearS_lock sp excl s
  unfold classifyCallTrace lockedCall
  simp only [Bool.false_and, Bool.false_eq_true, if_false, List.append_nil]
  by_cases he : (!sp.lockChecksStale || decide (0 < (step sp s (.clear excl)).lock)) = true
  · have : lockEntryPrims sp (step sp s (.clear excl)) = [] := by unfold lockEntryPrims; rw [if_pos he]
    rw [this]
    exact lock_unlock_classify sp hty
  · -- unlocked: the base clear was effective, so the stamp is current and the flag is clear
    have hl0 : s.lock = 0 := by
      simp only [Bool.or_eq_true, Bool.not_eq_eq_eq_not, Bool.not_true, decide_eq_true_eq, not_or, Nat.not_lt,
        Nat.le_zero_eq] at he
      rw [← hlk]; exact he.2
    have hb : clearBase sp excl s =
        { s with md5 := s.ver, stale := false, cache := if sp.clearDeletes then retained sp excl s.cache else s.cache } := by
      unfold clearBase
      simp [hl0, hr]
    have hst : (step sp s (.clear excl)).stale = false := by rw [hs', hb]; rfl
    have hm : (step sp s (.clear excl)).md5 = (step sp s (.clear excl)).ver := by rw [hs', hb]; rfl
    have hcur := isStaleS_current sp hst hm
    have : lockEntryPrims sp (step sp s (.clear excl)) = [.isStale] := by
      unfold lockEntryPrims; rw [if_neg he, hcur, hst]; simp
    rw [this]
    show run sp (step sp (step sp s (.clear excl)) .isStale) [.lock, .unlock, .classify] = _
    have e2 : step sp (step sp s (.clear excl)) .isStale = step sp s (.clear excl) := hcur
    rw [e2]
    exact lock_unlock_classify sp hty

/-- **The observed form of a clear refines the primitive `clear`**: running the base clear followed by the
traced events of the nested `classify_nodes` call ends in the same state as the primitive event. -/
theorem clearTrace_refines {sp : Spec} (hr : sp.clearRestamps = true) (s : St) (excl : List String) :
    run sp s (clearTrace sp s excl) = step sp s (.clear excl) := by
  unfold clearTrace
  by_cases hx : excl.contains "classify_nodes" = true
  · rw [if_pos hx]; rfl
  · have hx' : excl.contains "classify_nodes" = false := by
      cases h : excl.contains "classify_nodes" with
      | true => exact absurd h hx
      | false => rfl
    rw [if_neg hx, run_append]
    exact classifyCall_noop hr s excl hx'

/-- … and so does every event list in which the clears are replaced by their observed form. -/
theorem expandClears_refines {sp : Spec} (hr : sp.clearRestamps = true) :
    ∀ (es : List Ev) (s : St), run sp s (expandClears sp s es) = run sp s es := by
  intro es
  induction es with
  | nil => intro s; rfl
  | cons e es ih =>
    intro s
    rw [run_cons]
    cases e with
    | clear excl =>
      simp only [expandClears]
      rw [run_append, clearTrace_refines hr]
      exact ih _
    | _ =>
      simp only [expandClears]
      rw [run_append]
      exact ih _

/-! ### The `type` column in lock-free user histories (finding `nodes.type/...clear(exclude=classify_nodes)`, repaired:
the in-place operators validate the caches before they run)

`τ` maps a content of the hashed columns to the content of `node_id,parent_id` inside it (the topology columns are
part of the hashed columns).  Invariant: the `type` column was computed from the topology of the *stamped*
content; so whenever the stamp is current the `type` column is current — also after edit / undo. -/

structure TInv (τ : Nat → Nat) (s : St) : Prop where
  unlocked : s.lock = 0
  topo : s.tver = τ s.ver
  typ : s.typeVer = τ s.md5

theorem TInv.current {τ : Nat → Nat} {s : St} (h : TInv τ s) (hm : s.md5 = s.ver) : s.typeVer = s.tver := by
  rw [h.typ, h.topo, hm]

/-- the common shape of the three validation steps (temp_property wrapper, lock_neuron entry, in-place operators) -/
def checkPrims (sp : Spec) (s : St) : List Ev :=
  if (isStaleS sp s).stale then [.isStale, .clear []] else [.isStale]

theorem check_establishes {sp : Spec} (hs : SoundFacts sp) {τ : Nat → Nat} {s : St} (h : TInv τ s) :
    TInv τ (run sp s (checkPrims sp s)) ∧ (run sp s (checkPrims sp s)).md5 = (run sp s (checkPrims sp s)).ver ∧
    (run sp s (checkPrims sp s)).ver = s.ver ∧ (run sp s (checkPrims sp s)).tver = s.tver := by
  obtain ⟨f1, _, f3, f4, _, f6, f7⟩ := isStaleS_fields sp s
  unfold checkPrims
  by_cases hst : (isStaleS sp s).stale = true
  · rw [if_pos hst]
    have e1 : run sp s [.isStale, .clear []] = classifyS (clearBase sp [] (isStaleS sp s)) := by
      show clearS sp [] (isStaleS sp s) = _
      unfold clearS; rw [if_neg (by decide)]
    have hb : clearBase sp [] (isStaleS sp s) =
        { isStaleS sp s with md5 := (isStaleS sp s).ver, stale := false,
                              cache := if sp.clearDeletes then retained sp [] (isStaleS sp s).cache else (isStaleS sp s).cache } := by
      unfold clearBase
      simp [f4, h.unlocked, hs.restamps]
    rw [e1, hb]
    refine ⟨⟨?_, ?_, ?_⟩, ?_, ?_, ?_⟩
    · show (isStaleS sp s).lock = 0; rw [f4]; exact h.unlocked
    · show (isStaleS sp s).tver = τ (isStaleS sp s).ver; rw [f6, f1]; exact h.topo
    · show (isStaleS sp s).tver = τ (isStaleS sp s).ver; rw [f6, f1]; exact h.topo
    · rfl
    · exact f1
    · exact f6
  · rw [if_neg hst]
    have hst' : (isStaleS sp s).stale = false := by simpa using hst
    have hmd : s.md5 = s.ver := by
      unfold isStaleS at hst'
      by_cases hc : (sp.isStaleSticky && s.stale) = true
      · rw [if_pos hc] at hst'
        simp only [Bool.and_eq_true] at hc
        rw [hc.2] at hst'; exact absurd hst' (by decide)
      · rw [if_neg hc, if_pos hs.recomputes] at hst'
        simpa using hst'
    have e1 : run sp s [.isStale] = isStaleS sp s := rfl
    rw [e1]
    exact ⟨⟨by rw [f4]; exact h.unlocked, by rw [f6, f1]; exact h.topo, by rw [f7, f3]; exact h.typ⟩,
      by rw [f3, f1]; exact hmd, f1, f6⟩

theorem wrapperPrims_check {sp : Spec} (hs : SoundFacts sp) {s : St} (hl : s.lock = 0) :
    wrapperPrims sp s = checkPrims sp s := by
  unfold wrapperPrims checkPrims; simp [hs.wrapper, hl]

theorem lockEntryPrims_check {sp : Spec} (hf : sp.lockChecksStale = true) {s : St} (hl : s.lock = 0) :
    lockEntryPrims sp s = checkPrims sp s := by
  unfold lockEntryPrims checkPrims; simp [hf, hl]

theorem validatePrims_check {sp : Spec} (hv : sp.iopValidates = true) {s : St} (hl : s.lock = 0) :
    validatePrims sp s = checkPrims sp s := by
  unfold validatePrims checkPrims; simp [hv, hl]

theorem TInv_fill {sp : Spec} {τ : Nat → Nat} {s : St} (h : TInv τ s) (v : View) :
    TInv τ (run sp s (fillPrims s v)) := by
  obtain ⟨t1, t2, t3, t4⟩ := fill_type sp s v
  exact ⟨by rw [fill_lock]; exact h.unlocked, by rw [t1, t4]; exact h.topo, by rw [t2, t3]; exact h.typ⟩

/-- state-dependent admissibility of a user event for the `type` invariant: an edit to content `v` has the
topology `τ v`; in-place arithmetic that skips the re-classification leaves the topology columns alone -/
def UAdmT (sp : Spec) (τ : Nat → Nat) (s : St) : UEv → Prop
  | .edit v t => t = τ v
  | .setNodes v t => t = τ v
  | .arith v t excl => knownExcl sp excl = true ∧
      (if excl.contains "classify_nodes" then τ v = s.tver else t = τ v)
  | _ => True

def uadmT (sp : Spec) (τ : Nat → Nat) : St → List UEv → Prop
  | _, [] => True
  | s, u :: us => UAdmT sp τ s u ∧ uadmT sp τ (ustep sp s u) us

theorem TInv_ustep {sp : Spec} (hs : SoundFacts sp) (hf : sp.lockChecksStale = true) (hv : sp.iopValidates = true)
    {τ : Nat → Nat} {s : St} (h : TInv τ s) (u : UEv) (hu : UAdmT sp τ s u) : TInv τ (ustep sp s u) := by
  cases u with
  | read v =>
    show TInv τ (readS sp s v)
    rw [readS_eq]
    by_cases hw : v.wrapped = true
    · have hp : viewPrefix sp s v = checkPrims sp s := by
        simp only [viewPrefix, hw, if_true]; exact wrapperPrims_check hs h.unlocked
      rw [hp]
      exact TInv_fill (check_establishes hs h).1 v
    · have hp : viewPrefix sp s v = [] := by simp [viewPrefix, hw]
      rw [hp]
      exact TInv_fill h v
  | edit v t =>
    have ht : t = τ v := hu
    exact ⟨h.unlocked, ht, h.typ⟩
  | setNodes v t =>
    have ht : t = τ v := hu
    have h1 : TInv τ (step sp s (.change v t)) := ⟨h.unlocked, ht, h.typ⟩
    show TInv τ (run sp s ([.change v t] ++ lockedCall sp (step sp s (.change v t)) [.classify] false))
    rw [run_append]
    show TInv τ (run sp (step sp s (.change v t)) (lockedCall sp (step sp s (.change v t)) [.classify] false))
    generalize step sp s (.change v t) = s1 at h1
    unfold lockedCall
    simp only [Bool.false_and, Bool.false_eq_true, if_false]
    rw [List.append_assoc, List.append_assoc, run_append, lockEntryPrims_check hf h1.unlocked]
    obtain ⟨k, km, _, _⟩ := check_establishes hs (sp := sp) h1
    generalize run sp s1 (checkPrims sp s1) = s2 at k km
    refine ⟨?_, k.topo, ?_⟩
    · show s2.lock + 1 - 1 = 0; rw [k.unlocked]
    · show s2.tver = τ s2.md5; rw [k.topo, km]
  | arith v t excl =>
    obtain ⟨hk, hcase⟩ := hu
    show TInv τ (run sp s (validatePrims sp s ++ _))
    rw [run_append, validatePrims_check hv h.unlocked]
    obtain ⟨k, km, _, ktv⟩ := check_establishes hs (sp := sp) h
    generalize run sp s (checkPrims sp s) = s1 at k km ktv
    by_cases hx : excl.contains "classify_nodes" = true
    · rw [if_pos hx] at hcase ⊢
      -- change to `v` with the topology left alone, then an effective clear without re-classification
      have e : run sp s1 [.change v s1.tver, .clear excl] =
          clearBase sp excl { s1 with ver := v, tver := s1.tver, hi := max s1.hi (v + 1) } := by
        show clearS sp excl _ = _
        unfold clearS; rw [if_pos hx]; rfl
      have hb : clearBase sp excl { s1 with ver := v, tver := s1.tver, hi := max s1.hi (v + 1) } =
          { s1 with ver := v, hi := max s1.hi (v + 1), md5 := v, stale := false,
                    cache := if sp.clearDeletes then retained sp excl s1.cache else s1.cache } := by
        unfold clearBase
        simp [k.unlocked, hs.restamps]
      rw [e, hb]
      refine ⟨k.unlocked, ?_, ?_⟩
      · show s1.tver = τ v; rw [ktv]; exact hcase.symm
      · show s1.typeVer = τ v; rw [k.typ, km, ← k.topo, ktv]; exact hcase.symm
    · rw [if_neg hx] at hcase ⊢
      have e : run sp s1 [.change v t, .clear excl] =
          classifyS (clearBase sp excl { s1 with ver := v, tver := t, hi := max s1.hi (v + 1) }) := by
        show clearS sp excl _ = _
        unfold clearS; rw [if_neg hx]; rfl
      have hb : clearBase sp excl { s1 with ver := v, tver := t, hi := max s1.hi (v + 1) } =
          { s1 with ver := v, tver := t, hi := max s1.hi (v + 1), md5 := v, stale := false,
                    cache := if sp.clearDeletes then retained sp excl s1.cache else s1.cache } := by
        unfold clearBase
        simp [k.unlocked, hs.restamps]
      rw [e, hb]
      exact ⟨k.unlocked, hcase, hcase⟩
  | isStale =>
    obtain ⟨f1, _, f3, f4, _, f6, f7⟩ := isStaleS_fields sp s
    exact ⟨by show (isStaleS sp s).lock = 0; rw [f4]; exact h.unlocked,
      by show (isStaleS sp s).tver = τ (isStaleS sp s).ver; rw [f6, f1]; exact h.topo,
      by show (isStaleS sp s).typeVer = τ (isStaleS sp s).md5; rw [f7, f3]; exact h.typ⟩
  | copyOut =>
    obtain ⟨f1, _, f3, f4, _, f6, f7⟩ := isStaleS_fields sp s
    exact ⟨by show (isStaleS sp s).lock = 0; rw [f4]; exact h.unlocked,
      by show (isStaleS sp s).tver = τ (isStaleS sp s).ver; rw [f6, f1]; exact h.topo,
      by show (isStaleS sp s).typeVer = τ (isStaleS sp s).md5; rw [f7, f3]; exact h.typ⟩
  | copy =>
    have hu' : TInv τ (unlocked sp s) := ⟨by simp [unlocked, h.unlocked], h.topo, h.typ⟩
    show TInv τ (copyS sp s)
    unfold copyS
    split
    · split
      · have hb : clearBase sp [] (unlocked sp s) =
            { unlocked sp s with md5 := (unlocked sp s).ver, stale := false,
                                 cache := if sp.clearDeletes then retained sp [] (unlocked sp s).cache else (unlocked sp s).cache } := by
          unfold clearBase
          simp [hu'.unlocked, hs.restamps]
        have e : clearS sp [] (unlocked sp s) = classifyS (clearBase sp [] (unlocked sp s)) := by
          unfold clearS; rw [if_neg (by decide)]
        rw [e, hb]
        exact ⟨hu'.unlocked, hu'.topo, hu'.topo⟩
      · exact hu'
    · exact hu'
  | pickle => exact ⟨h.unlocked, h.topo, h.typ⟩

theorem TInv_urun {sp : Spec} (hs : SoundFacts sp) (hf : sp.lockChecksStale = true) (hv : sp.iopValidates = true)
    {τ : Nat → Nat} : ∀ (us : List UEv) (s : St), TInv τ s → uadmT sp τ s us → TInv τ (urun sp s us) := by
  intro us
  induction us with
  | nil => intro s h _; exact h
  | cons u us ih => intro s h hu; exact ih _ (TInv_ustep hs hf hv h u hu.1) hu.2

/-! ### Objects shared between a neuron and its copy -/

structure PairInv (shared : Bool) (p : Pair) : Prop where
  ok : PairOK p
  same_shared : p.same = true → shared = true

theorem pairInv_step {shared detaches : Bool} (h : shared = true → detaches = true) {p : Pair}
    (hp : PairInv shared p) (e : PEv) : PairInv shared (pstep shared detaches p e) := by
  obtain ⟨⟨hA, hB⟩, hs⟩ := hp
  have hns : p.same = true → detaches = true := fun hc => h (hs hc)
  cases e with
  | warm b =>
    cases b <;> simp only [pstep] <;> split
    · exact ⟨⟨hA, hB⟩, hs⟩
    · exact ⟨⟨Or.inr rfl, hB⟩, by simp⟩
    · exact ⟨⟨hA, hB⟩, hs⟩
    · exact ⟨⟨hA, Or.inr rfl⟩, by simp⟩
  | copy b =>
    cases b <;> simp only [pstep]
    · exact ⟨⟨hA, hA⟩, by simp; intro a _; exact a⟩
    · exact ⟨⟨hB, hB⟩, by simp; intro a _; exact a⟩
  | edit b v =>
    cases b <;> simp only [pstep] <;> split
    · rename_i hn
      exact ⟨⟨Or.inl (by simpa using hn), hB⟩, hs⟩
    · split
      · exact ⟨⟨Or.inr rfl, hB⟩, by simp⟩
      · rename_i hc
        exfalso
        cases hd : detaches <;> cases hsm : p.same <;> simp [hd, hsm] at hc
        have := hns hsm; rw [hd] at this; exact absurd this (by decide)
    · rename_i hn
      exact ⟨⟨hA, Or.inl (by simpa using hn)⟩, hs⟩
    · split
      · exact ⟨⟨hA, Or.inr rfl⟩, by simp⟩
      · rename_i hc
        exfalso
        cases hd : detaches <;> cases hsm : p.same <;> simp [hd, hsm] at hc
        have := hns hsm; rw [hd] at this; exact absurd this (by decide)
  | change b v =>
    cases b <;> simp only [pstep]
    · exact ⟨⟨Or.inl rfl, hB⟩, by simp⟩
    · exact ⟨⟨hA, Or.inl rfl⟩, by simp⟩

theorem pairInv_run {shared detaches : Bool} (h : shared = true → detaches = true) :
    ∀ (es : List PEv) (p : Pair), PairInv shared p → PairInv shared (prun shared detaches p es) := by
  intro es
  induction es with
  | nil => intro p hp; exact hp
  | cons e es ih => intro p hp; exact ih _ (pairInv_step h hp e)

theorem aliasSafe_facts {sp : Spec} (h : aliasSafeB sp = true) :
    ∀ e ∈ sp.editors, (sp.sharedOnCopy.contains e.attr = true → e.detaches = true) := by
  unfold aliasSafeB at h
  rw [List.all_eq_true] at h
  intro e he hc
  have := h e he
  simp only [Bool.or_eq_true, Bool.not_eq_eq_eq_not, Bool.not_true] at this
  rcases this with h1 | h1
  · rw [hc] at h1; exact absurd h1 (by decide)
  · exact h1

/-! ### Completeness of the source-level checkers; sequences of catalogue operations -/

theorem soundB_complete {sp : Spec} (h : SoundFacts sp) : soundB sp = true := by
  unfold soundB
  simp only [Bool.and_eq_true, List.all_eq_true, List.contains_iff_mem, Bool.not_eq_eq_eq_not, Bool.not_true]
  exact ⟨⟨⟨⟨⟨h.restamps, h.deletes⟩, h.recomputes⟩, h.wrapper⟩, h.registered⟩, h.exclFree⟩

theorem aliasSafeB_complete {sp : Spec}
    (h : ∀ e ∈ sp.editors, (sp.sharedOnCopy.contains e.attr = true → e.detaches = true)) : aliasSafeB sp = true := by
  unfold aliasSafeB
  rw [List.all_eq_true]
  intro e he
  cases hc : sp.sharedOnCopy.contains e.attr with
  | false => simp
  | true => simp [h e he hc]

/-- one call of a catalogue operation: its clear site, the views read under the lock / written from the changed
table, the new content, whether the trailing clear is still there -/
structure OpCall where
  c : ClearSite
  pre : List View
  post : List View
  v : Nat
  t : Nat
  withClear : Bool

def opsRun (sp : Spec) : St → List OpCall → St
  | s, [] => s
  | s, o :: os => opsRun sp (run sp s (opPrims sp s o.c o.pre o.post o.v o.t o.withClear)) os

/-- admissible sequence: every call site is one of the source, reads / writes concern cached views of the spec,
every operation produces content not seen before -/
def opsAdm (sp : Spec) : St → List OpCall → Prop
  | _, [] => True
  | s, o :: os => (o.c ∈ sp.clearSites ∧ (∀ v ∈ o.pre, v ∈ sp.views) ∧ (∀ v ∈ o.post, v ∈ sp.views) ∧ s.hi ≤ o.v) ∧
      opsAdm sp (run sp s (opPrims sp s o.c o.pre o.post o.v o.t o.withClear)) os

/-! ### Sequences of reads -/

theorem J_fill {sp : Spec} {s : St} (h : J sp s) {v : View} (hv : v ∈ sp.views) : J sp (run sp s (fillPrims s v)) := by
  have ha : v.attr ∈ cachedAttrs sp := mem_cachedAttrs.mpr ⟨v, hv, rfl⟩
  unfold fillPrims
  split
  · exact h
  · by_cases hsc : v.selfCopy = true
    · simp only [hsc, if_true, run, List.cons_append, List.nil_append, List.foldl_cons, List.foldl_nil, step]
      exact J_put (J_isStale h) ha
    · simp only [hsc, run]
      exact J_put h ha

/-- a wrapped read on an unlocked neuron keeps the invariant, the lock state and the content -/
theorem J_readS {sp : Spec} (hs : SoundFacts sp) {s : St} (h : J sp s) (hl : s.lock = 0) {v : View}
    (hv : v ∈ sp.views) (hw : v.wrapped = true) :
    J sp (readS sp s v) ∧ (readS sp s v).lock = 0 ∧ (readS sp s v).ver = s.ver := by
  have hver := (read_current hs h hl hw).2
  rw [readS_eq] at hver ⊢
  have hp : viewPrefix sp s v = wrapperPrims sp s := by simp [viewPrefix, hw]
  rw [hp] at hver ⊢
  obtain ⟨_, _, _, e4, _, hJ⟩ := wrapper_establishes hs h hl
  exact ⟨J_fill hJ hv, by rw [fill_lock]; exact e4, hver⟩

theorem J_readsS {sp : Spec} (hs : SoundFacts sp) : ∀ (vs : List View) {s : St}, J sp s → s.lock = 0 →
    (∀ v ∈ vs, v ∈ sp.views ∧ v.wrapped = true) →
    J sp (readsS sp s vs) ∧ (readsS sp s vs).lock = 0 ∧ (readsS sp s vs).ver = s.ver := by
  intro vs
  induction vs with
  | nil => intro s h hl _; exact ⟨h, hl, rfl⟩
  | cons v vs ih =>
    intro s h hl hv
    obtain ⟨j, l, e⟩ := J_readS hs h hl (hv v (by simp)).1 (hv v (by simp)).2
    obtain ⟨j2, l2, e2⟩ := ih j l (fun w hw => hv w (by simp [hw]))
    exact ⟨j2, l2, e2.trans e⟩

/-! ### Nesting of `@lock_neuron` calls, pickling, copying (final theorem pass) -/

/-- a call nested inside a locked function skips the entry check -/
theorem lockEntryPrims_locked (sp : Spec) {s : St} (hl : 0 < s.lock) : lockEntryPrims sp s = [] := by
  unfold lockEntryPrims; simp [hl]

/-- taking the lock again keeps "all entries current, lock held" -/
theorem AllCur_lock {sp : Spec} {s : St} {v0 : Nat} (h : AllCur s v0) : AllCur (step sp s .lock) v0 :=
  ⟨h.ver, Nat.succ_pos _, h.cur⟩

/-- a locked call nested in a locked call: outer entry, lock, `pre`, the whole inner call (entry skipped, lock,
`inner`, unlock or not according to the `finally`), `post`, unlock — the counter returns to where it was -/
theorem nested_lockedCall_lock {sp : Spec} (hf : sp.lockFinally = true) (s : St) (pre inner post : List Ev)
    (hpre : ∀ e ∈ pre, lockNeutral e = true) (hin : ∀ e ∈ inner, lockNeutral e = true)
    (hpost : ∀ e ∈ post, lockNeutral e = true) (ri ro : Bool) :
    let s1 := run sp s (lockEntryPrims sp s ++ [Ev.lock] ++ pre)
    (run sp s (lockedCall sp s (pre ++ lockedCall sp s1 inner ri ++ post) ro)).lock = s.lock := by
  intro s1
  have h1 : s1.lock = s.lock + 1 := by
    show (run sp s (lockEntryPrims sp s ++ [Ev.lock] ++ pre)).lock = _
    rw [run_append, run_append, run_lock_neutral sp pre _ hpre]
    show (run sp s (lockEntryPrims sp s)).lock + 1 = _
    rw [run_lock_neutral sp _ s (lockEntryPrims_neutral sp s)]
  unfold lockedCall
  simp only [hf, Bool.not_true, Bool.and_false, Bool.false_eq_true, if_false]
  have e : lockEntryPrims sp s ++ [Ev.lock] ++ (pre ++ (lockEntryPrims sp s1 ++ [Ev.lock] ++ inner ++ [Ev.unlock]) ++ post) ++ [Ev.unlock]
      = (lockEntryPrims sp s ++ [Ev.lock] ++ pre) ++ ((lockEntryPrims sp s1 ++ [Ev.lock] ++ inner ++ [Ev.unlock]) ++ (post ++ [Ev.unlock])) := by
    simp [List.append_assoc]
  rw [e, run_append, run_append]
  have hi : (run sp s1 (lockEntryPrims sp s1 ++ [Ev.lock] ++ inner ++ [Ev.unlock])).lock = s1.lock := by
    have := lockedCall_lock hf s1 inner hin false
    unfold lockedCall at this
    simpa [hf] using this
  show (run sp (run sp s1 (lockEntryPrims sp s1 ++ [Ev.lock] ++ inner ++ [Ev.unlock])) (post ++ [Ev.unlock])).lock = s.lock
  generalize run sp s1 (lockEntryPrims sp s1 ++ [Ev.lock] ++ inner ++ [Ev.unlock]) = s2 at hi
  rw [run_append, ]
  show (run sp s2 post).lock - 1 = s.lock
  rw [run_lock_neutral sp post s2 hpost, hi, h1]
  omega

theorem has_pickleS_drop (sp : Spec) (s : St) {a : Attr} (ha : a ∈ sp.getstateDrops) : has (pickleS sp s) a = false := by
  unfold has pickleS
  rw [Bool.eq_false_iff]
  intro h
  rw [List.any_eq_true] at h
  obtain ⟨p, hp, hpa⟩ := h
  simp only [List.mem_filter] at hp
  have : p.1 = a := by simpa using hpa
  rw [this] at hp
  simp [ha] at hp

theorem copyS_not_stale (sp : Spec) {s : St} (h : (isStaleS sp s).stale = false) : copyS sp s = unlocked sp s := by
  unfold copyS; simp [h]

end Navis.Cache
