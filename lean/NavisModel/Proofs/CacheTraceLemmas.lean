import NavisModel.Proofs.CacheLemmas
/-!
Helper lemmas for C02, second part: the *observed* form of composite events (what a trace of the real object
shows) refines the primitive form the freshness theorems are stated over.  Core Lean only.
-/
namespace Navis.Cache

/-- evaluating `is_stale` on a neuron whose flag is clear and whose stamp equals the content changes nothing -/
theorem isStaleS_current (sp : Spec) {s : St} (hst : s.stale = false) (hm : s.md5 = s.ver) : isStaleS sp s = s := by
  cases s with
  | mk ver hi md5 stale lock cache tver typeVer =>
    simp only at hst hm
    subst hst; subst hm
    unfold isStaleS
    simp

/-- lock, unlock and a classification of an already classified table leave the state as it is -/
theorem lock_unlock_classify (sp : Spec) {s : St} (ht : s.typeVer = s.tver) :
    run sp s [.lock, .unlock, .classify] = s := by
  cases s with
  | mk ver hi md5 stale lock cache tver typeVer =>
    simp only at ht
    subst ht
    simp [run, step, classifyS]

/-- the nested `classify_nodes` call of the `TreeNeuron` clear (entry check of `lock_neuron`, lock, unlock,
classification) changes nothing in the state the clear leaves behind -/
theorem classifyCall_noop {sp : Spec} (hr : sp.clearRestamps = true) (s : St) (excl : List String)
    (hx : excl.contains "classify_nodes" = false) :
    run sp (step sp s (.clear excl)) (classifyCallTrace sp (step sp s (.clear excl))) = step sp s (.clear excl) := by
  have hs' : step sp s (.clear excl) = classifyS (clearBase sp excl s) := by
    show clearS sp excl s = _
    unfold clearS; rw [if_neg (by rw [hx]; decide)]
  have hty : (step sp s (.clear excl)).typeVer = (step sp s (.clear excl)).tver := by rw [hs']; rfl
  have hlk : (step sp s (.clear excl)).lock = s.lock := clearS_lock sp excl s
  unfold classifyCallTrace lockedCall
  simp only [Bool.false_and, Bool.false_eq_true, if_false, List.append_nil]
  by_cases he : (!sp.lockChecksStale || decide (0 < (step sp s (.clear excl)).lock)) = true
  · have : lockEntryPrims sp (step sp s (.clear excl)) = [] := by unfold lockEntryPrims; rw [if_pos he]
    rw [this]
    exact lock_unlock_classify sp hty
  · -- unlocked: the base clear was effective, so the stamp is current and the flag is clear
    have hl0 : s.lock = 0 := by
      simp only [Bool.or_eq_true, Bool.not_eq_eq_eq_not, Bool.not_true, decide_eq_true_eq, not_or, Nat.not_lt,
        Nat.le_zero_eq] at he
      rw [← hlk]; exact he.2
    have hb : clearBase sp excl s =
        { s with md5 := s.ver, stale := false, cache := if sp.clearDeletes then retained sp excl s.cache else s.cache } := by
      unfold clearBase
      simp [hl0, hr]
    have hst : (step sp s (.clear excl)).stale = false := by rw [hs', hb]; rfl
    have hm : (step sp s (.clear excl)).md5 = (step sp s (.clear excl)).ver := by rw [hs', hb]; rfl
    have hcur := isStaleS_current sp hst hm
    have : lockEntryPrims sp (step sp s (.clear excl)) = [.isStale] := by
      unfold lockEntryPrims; rw [if_neg he, hcur, hst]; simp
    rw [this]
    show run sp (step sp (step sp s (.clear excl)) .isStale) [.lock, .unlock, .classify] = _
    have e2 : step sp (step sp s (.clear excl)) .isStale = step sp s (.clear excl) := hcur
    rw [e2]
    exact lock_unlock_classify sp hty

/-- **The observed form of a clear refines the primitive `clear`**: running the base clear followed by the
traced events of the nested `classify_nodes` call ends in the same state as the primitive event. -/
theorem clearTrace_refines {sp : Spec} (hr : sp.clearRestamps = true) (s : St) (excl : List String) :
    run sp s (clearTrace sp s excl) = step sp s (.clear excl) := by
  unfold clearTrace
  by_cases hx : excl.contains "classify_nodes" = true
  · rw [if_pos hx]; rfl
  · have hx' : excl.contains "classify_nodes" = false := by
      cases h : excl.contains "classify_nodes" with
      | true => exact absurd h hx
      | false => rfl
    rw [if_neg hx, run_append]
    exact classifyCall_noop hr s excl hx'

/-- … and so does every event list in which the clears are replaced by their observed form. -/
theorem expandClears_refines {sp : Spec} (hr : sp.clearRestamps = true) :
    ∀ (es : List Ev) (s : St), run sp s (expandClears sp s es) = run sp s es := by
  intro es
  induction es with
  | nil => intro s; rfl
  | cons e es ih =>
    intro s
    rw [run_cons]
    cases e with
    | clear excl =>
      simp only [expandClears]
      rw [run_append, clearTrace_refines hr]
      exact ih _
    | _ =>
      simp only [expandClears]
      rw [run_append]
      exact ih _

/-! ### Objects shared between a neuron and its copy -/

structure PairInv (shared : Bool) (p : Pair) : Prop where
  ok : PairOK p
  same_shared : p.same = true → shared = true

theorem pairInv_step {shared detaches : Bool} (h : shared = true → detaches = true) {p : Pair}
    (hp : PairInv shared p) (e : PEv) : PairInv shared (pstep shared detaches p e) := by
  obtain ⟨⟨hA, hB⟩, hs⟩ := hp
  have hns : p.same = true → detaches = true := fun hc => h (hs hc)
  cases e with
  | warm b =>
    cases b <;> simp only [pstep] <;> split
    · exact ⟨⟨hA, hB⟩, hs⟩
    · exact ⟨⟨Or.inr rfl, hB⟩, by simp⟩
    · exact ⟨⟨hA, hB⟩, hs⟩
    · exact ⟨⟨hA, Or.inr rfl⟩, by simp⟩
  | copy b =>
    cases b <;> simp only [pstep]
    · exact ⟨⟨hA, hA⟩, by simp; intro a _; exact a⟩
    · exact ⟨⟨hB, hB⟩, by simp; intro a _; exact a⟩
  | edit b v =>
    cases b <;> simp only [pstep] <;> split
    · rename_i hn
      exact ⟨⟨Or.inl (by simpa using hn), hB⟩, hs⟩
    · split
      · exact ⟨⟨Or.inr rfl, hB⟩, by simp⟩
      · rename_i hc
        exfalso
        cases hd : detaches <;> cases hsm : p.same <;> simp [hd, hsm] at hc
        have := hns hsm; rw [hd] at this; exact absurd this (by decide)
    · rename_i hn
      exact ⟨⟨hA, Or.inl (by simpa using hn)⟩, hs⟩
    · split
      · exact ⟨⟨hA, Or.inr rfl⟩, by simp⟩
      · rename_i hc
        exfalso
        cases hd : detaches <;> cases hsm : p.same <;> simp [hd, hsm] at hc
        have := hns hsm; rw [hd] at this; exact absurd this (by decide)
  | change b v =>
    cases b <;> simp only [pstep]
    · exact ⟨⟨Or.inl rfl, hB⟩, by simp⟩
    · exact ⟨⟨hA, Or.inl rfl⟩, by simp⟩

theorem pairInv_run {shared detaches : Bool} (h : shared = true → detaches = true) :
    ∀ (es : List PEv) (p : Pair), PairInv shared p → PairInv shared (prun shared detaches p es) := by
  intro es
  induction es with
  | nil => intro p hp; exact hp
  | cons e es ih => intro p hp; exact ih _ (pairInv_step h hp e)

theorem aliasSafe_facts {sp : Spec} (h : aliasSafeB sp = true) :
    ∀ e ∈ sp.editors, (sp.sharedOnCopy.contains e.attr = true → e.detaches = true) := by
  unfold aliasSafeB at h
  rw [List.all_eq_true] at h
  intro e he hc
  have := h e he
  simp only [Bool.or_eq_true, Bool.not_eq_eq_eq_not, Bool.not_true] at this
  rcases this with h1 | h1
  · rw [hc] at h1; exact absurd h1 (by decide)
  · exact h1

end Navis.Cache
