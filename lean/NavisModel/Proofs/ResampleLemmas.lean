import NavisModel.Model.Resample
import NavisModel.Proofs.SegmentLemmas
import NavisModel.Proofs.OpsWF
/-! Helper lemmas for C13, structural part of `resample_skeleton` — core Lean only.

The segment loop is abstracted into a *plan* (`List SegOut`); `PlanOK t P` collects what the small
segments of a well-formed forest guarantee; everything about the resulting table (ids, anchors, chains of
fresh nodes, well-formedness) is derived from `PlanOK`. -/
namespace Navis.Resample
open Navis.Forest

/-! ### `fresh`, `newIds`, `linkPairs` -/

theorem mem_fresh {base : Int} {k : Nat} {i : Int} : i ∈ fresh base k ↔ base ≤ i ∧ i < base + k := by
  unfold fresh
  simp only [List.mem_map, List.mem_range]
  constructor
  · rintro ⟨j, hj, rfl⟩; omega
  · rintro ⟨h1, h2⟩; exact ⟨(i - base).toNat, by omega, by omega⟩

theorem fresh_length (base : Int) (k : Nat) : (fresh base k).length = k := by simp [fresh]

theorem fresh_nodup (base : Int) (k : Nat) : (fresh base k).Nodup := by
  unfold fresh
  exact List.Pairwise.map _ (fun a b (h : a ≠ b) => by omega) List.nodup_range

theorem fresh_succ (base : Int) (k : Nat) : fresh base (k + 1) = base :: fresh (base + 1) k := by
  unfold fresh
  rw [List.range_succ_eq_map]
  simp only [List.map_cons, List.map_map]
  congr 1
  · simp
  · apply List.map_congr_left
    intro a _
    simp only [Function.comp]
    omega

/-- Rows of a chain `first → b → b+1 → … → b+k-1 → last`. -/
theorem linkPairs_chain (first last base : Int) (k : Nat) :
    linkPairs (newIds first last base k) =
      match k with
      | 0 => [(first, last)]
      | k + 1 => (first, base) :: linkPairs (newIds base last (base + 1) k) := by
  cases k with
  | zero => simp [newIds, fresh, linkPairs]
  | succ k =>
    simp only
    unfold newIds
    rw [fresh_succ]
    simp [linkPairs]

theorem linkPairs_map_fst (first last base : Int) (k : Nat) :
    (linkPairs (newIds first last base k)).map Prod.fst = first :: fresh base k := by
  induction k generalizing first base with
  | zero => rw [linkPairs_chain]; simp [fresh]
  | succ k ih =>
    rw [linkPairs_chain]
    simp only [List.map_cons]
    rw [ih, fresh_succ]

/-- Every row of a chain: the child is `first` or fresh; the parent is the next fresh id or `last`. -/
theorem mem_linkPairs {first last base : Int} {k : Nat} {e : Int × Int}
    (h : e ∈ linkPairs (newIds first last base k)) :
    (e.1 = first ∧ ((k = 0 ∧ e.2 = last) ∨ (0 < k ∧ e.2 = base))) ∨
    (∃ j : Nat, j < k ∧ e.1 = base + j ∧ ((j + 1 = k ∧ e.2 = last) ∨ (j + 1 < k ∧ e.2 = base + j + 1))) := by
  induction k generalizing first base with
  | zero =>
    rw [linkPairs_chain] at h
    simp only [List.mem_singleton] at h
    subst h
    exact Or.inl ⟨rfl, Or.inl ⟨rfl, rfl⟩⟩
  | succ k ih =>
    rw [linkPairs_chain] at h
    simp only [List.mem_cons] at h
    rcases h with rfl | h
    · exact Or.inl ⟨rfl, Or.inr ⟨by omega, rfl⟩⟩
    · right
      rcases ih h with ⟨h1, h2⟩ | ⟨j, hj, h1, h2⟩
      · refine ⟨0, by omega, by simpa using h1, ?_⟩
        rcases h2 with ⟨hk, h2⟩ | ⟨hk, h2⟩
        · exact Or.inl ⟨by omega, h2⟩
        · exact Or.inr ⟨by omega, by simpa using h2⟩
      · refine ⟨j + 1, by omega, by rw [h1]; push_cast; omega, ?_⟩
        rcases h2 with ⟨hk, h2⟩ | ⟨hk, h2⟩
        · exact Or.inl ⟨by omega, h2⟩
        · exact Or.inr ⟨by omega, by rw [h2]; push_cast; omega⟩

/-- Conversely the chain rows are all there. -/
theorem linkPairs_first_mem (first last base : Int) (k : Nat) :
    (first, if k = 0 then last else base) ∈ linkPairs (newIds first last base k) := by
  cases k with
  | zero => rw [linkPairs_chain]; simp
  | succ k => rw [linkPairs_chain]; simp

theorem linkPairs_fresh_mem (first last base : Int) (k j : Nat) (hj : j < k) :
    (base + (j : Int), if j + 1 = k then last else base + (j : Int) + 1) ∈ linkPairs (newIds first last base k) := by
  induction k generalizing first base j with
  | zero => omega
  | succ k ih =>
    rw [linkPairs_chain]
    simp only [List.mem_cons]
    right
    cases j with
    | zero =>
      have := linkPairs_first_mem base last (base + 1) k
      simp only [Int.natCast_zero, Int.add_zero, Nat.zero_add]
      by_cases hk : k = 0
      · subst hk; simpa using this
      · rw [if_neg hk] at this
        rw [if_neg (by omega)]
        exact this
    | succ j =>
      have := ih base (base + 1) j (by omega)
      have e1 : base + ((j + 1 : Nat) : Int) = base + 1 + (j : Int) := by push_cast; omega
      rw [e1]
      by_cases hk : j + 1 = k
      · rw [if_pos hk] at this; rw [if_pos (by omega)]; exact this
      · rw [if_neg hk] at this; rw [if_neg (by omega)]; exact this

/-! ### the plan -/

theorem plan_cons (cnt : List Int → Option Nat) (s : List Int) (rest : List (List Int)) (base : Int) :
    plan cnt (s :: rest) base =
      ⟨segFirst s, segLast s, base, interior (cnt s)⟩ ::
        plan cnt rest (match cnt s with | none => base | some n => base + ((n - 2 : Nat) : Int) + 2) := by
  rw [plan]
  cases cnt s <;> rfl

theorem plan_map_first (cnt : List Int → Option Nat) (segs : List (List Int)) (base : Int) :
    (plan cnt segs base).map (·.first) = segs.map segFirst := by
  induction segs generalizing base with
  | nil => rfl
  | cons s rest ih => rw [plan_cons]; simp [ih]

theorem plan_length (cnt : List Int → Option Nat) (segs : List (List Int)) (base : Int) :
    (plan cnt segs base).length = segs.length := by
  have := congrArg List.length (plan_map_first cnt segs base)
  simpa using this

theorem mem_plan {cnt : List Int → Option Nat} {segs : List (List Int)} {base : Int} {o : SegOut}
    (h : o ∈ plan cnt segs base) :
    ∃ s ∈ segs, o.first = segFirst s ∧ o.last = segLast s ∧ o.k = interior (cnt s) ∧ base ≤ o.base := by
  induction segs generalizing base with
  | nil => simp [plan] at h
  | cons s rest ih =>
    rw [plan_cons] at h
    rcases List.mem_cons.mp h with rfl | h
    · exact ⟨s, by simp, rfl, rfl, rfl, Int.le_refl _⟩
    · obtain ⟨s', hs', h1, h2, h3, h4⟩ := ih h
      refine ⟨s', List.mem_cons_of_mem _ hs', h1, h2, h3, ?_⟩
      cases hc : cnt s with
      | none => rw [hc] at h4; exact h4
      | some n => rw [hc] at h4; simp only at h4; omega

theorem plan_of_mem {cnt : List Int → Option Nat} {segs : List (List Int)} {base : Int} {s : List Int}
    (h : s ∈ segs) : ∃ o ∈ plan cnt segs base, o.first = segFirst s ∧ o.last = segLast s ∧ o.k = interior (cnt s) := by
  induction segs generalizing base with
  | nil => simp at h
  | cons s' rest ih =>
    rw [plan_cons]
    rcases List.mem_cons.mp h with rfl | h
    · exact ⟨_, List.mem_cons_self, rfl, rfl, rfl⟩
    · obtain ⟨o, ho, h1⟩ := ih (base := match cnt s' with | none => base | some n => base + ((n - 2 : Nat) : Int) + 2) h
      exact ⟨o, List.mem_cons_of_mem _ ho, h1⟩

/-- The id ranges handed out by the loop are pairwise disjoint (the counter only grows). -/
theorem plan_pairwise (cnt : List Int → Option Nat) (segs : List (List Int)) (base : Int) :
    (plan cnt segs base).Pairwise (fun o o' => o.base + (o.k : Int) ≤ o'.base) := by
  induction segs generalizing base with
  | nil => simp [plan]
  | cons s rest ih =>
    rw [plan_cons]
    refine List.pairwise_cons.mpr ⟨?_, ih _⟩
    intro o' ho'
    obtain ⟨_, _, _, _, _, hb⟩ := mem_plan ho'
    simp only
    cases hc : cnt s with
    | none => rw [hc] at hb; simp only [interior] ; simpa using hb
    | some n => rw [hc] at hb; simp only [interior] at hb ⊢; omega

/-! ### what a plan over a well-formed forest satisfies -/

structure PlanOK (t : Table) (rk : Int → Nat) (P : List SegOut) : Prop where
  first_mem : ∀ o ∈ P, ∃ n ∈ t, n.id = o.first ∧ ¬ n.parent < 0
  last_mem : ∀ o ∈ P, o.last ∈ ids t
  rank : ∀ o ∈ P, rk o.last < rk o.first
  firsts_nodup : (P.map (·.first)).Nodup
  last_anchor : ∀ o ∈ P, (∃ n ∈ t, n.id = o.last ∧ n.parent < 0) ∨ ∃ o' ∈ P, o'.first = o.last
  base_gt : ∀ o ∈ P, maxId t < o.base
  disjoint : P.Pairwise (fun o o' => o.base + (o.k : Int) ≤ o'.base)

theorem segFirst_segOf (t : Table) (i : Int) : segFirst (segOf t i) = i := rfl

theorem segLast_concat (a : Int) (mid : List Int) (last : Int) : segLast (a :: mid ++ [last]) = last := by
  unfold segLast
  rw [show a :: mid ++ [last] = (a :: mid) ++ [last] from rfl, List.getLastD_concat]

theorem smallSegments_map_first (t : Table) :
    (smallSegments t).map segFirst = (t.filter fun n => !isRootNode n && childCount t n.id != 1).map (·.id) := by
  rw [smallSegments_eq, List.map_map]
  rfl

theorem planOf_ok {t : Table} (hw : WF t) {rk : Int → Nat}
    (hrk : ∀ n ∈ t, n.parent < 0 ∨ (n.parent ∈ ids t ∧ rk n.parent < rk n.id)) (cnt : List Int → Option Nat) :
    PlanOK t rk (planOf t cnt) := by
  have hseg : ∀ o ∈ planOf t cnt, ∃ n ∈ t, ¬ n.parent < 0 ∧ childCount t n.id ≠ 1 ∧ o.first = n.id ∧
      ∃ mid, SmallSeg t n.id mid o.last := by
    intro o ho
    obtain ⟨s, hs, h1, h2, _, _⟩ := mem_plan ho
    rw [smallSegments_eq] at hs
    obtain ⟨n, hn, rfl⟩ := List.mem_map.mp hs
    obtain ⟨hn1, hn2, hn3⟩ := mem_seeds.mp hn
    obtain ⟨mid, last, e, hss⟩ := segOf_spec hw hn1 hn2
    refine ⟨n, hn1, hn2, hn3, h1, mid, ?_⟩
    rw [h2, e, segLast_concat]; exact hss
  refine ⟨?_, ?_, ?_, ?_, ?_, ?_, plan_pairwise _ _ _⟩
  · intro o ho
    obtain ⟨n, hn, hp, _, h1, _⟩ := hseg o ho
    exact ⟨n, hn, h1.symm, hp⟩
  · intro o ho
    obtain ⟨n, _, _, _, _, mid, hss⟩ := hseg o ho
    exact hss.hlast
  · intro o ho
    obtain ⟨n, hn, _, _, h1, mid, hss⟩ := hseg o ho
    have hpw := (pathToRoot_ranks rk hrk (t.length + 1) n.id).1
    have hp : rootPath t n.id = (n.id :: mid) ++ rootPath t o.last := hss.path
    obtain ⟨rest, hr⟩ := rootPath_cons hss.hlast
    unfold rootPath at hp hr
    rw [hp, hr] at hpw
    rw [h1]
    exact (List.pairwise_cons.mp hpw).1 o.last (by simp)
  · unfold planOf
    rw [plan_map_first, smallSegments_map_first]
    exact hw.1.sublist (List.filter_sublist.map _)
  · intro o ho
    obtain ⟨n, _, _, _, _, mid, hss⟩ := hseg o ho
    obtain ⟨m, hm, hmid⟩ := mem_ids.mp hss.hlast
    by_cases hp : m.parent < 0
    · exact Or.inl ⟨m, hm, hmid, hp⟩
    · right
      have hst := hss.stop
      rw [← hmid, isBranchOrRoot_of_find (find?_of_mem hw.1 hm)] at hst
      simp only [Bool.or_eq_true, decide_eq_true_eq] at hst
      have hcc : childCount t m.id ≠ 1 := by
        rcases hst with h | h
        · exact absurd h hp
        · omega
      have hseed : segOf t m.id ∈ smallSegments t := by
        rw [smallSegments_eq]
        exact List.mem_map.mpr ⟨m, mem_seeds.mpr ⟨hm, hp, hcc⟩, rfl⟩
      obtain ⟨o', ho', h1, _⟩ := plan_of_mem (cnt := cnt) (base := maxId t + 1) hseed
      exact ⟨o', ho', by rw [h1, segFirst_segOf, hmid]⟩
  · intro o ho
    obtain ⟨_, _, _, _, _, hb⟩ := mem_plan ho
    omega

/-! ### the table built from a plan -/

/-- Table before `classify`. -/
def planTable (t : Table) (P : List SegOut) : Table :=
  (P.flatMap segRows).map (mkNode t) ++ t.filter isRootNode

theorem resampleStruct_eq (t : Table) (cnt : List Int → Option Nat) :
    resampleStruct t cnt = classify (dedupById (planTable t (planOf t cnt))) := rfl

theorem mkNode_id (t : Table) (e : Int × Int) : (mkNode t e).id = e.1 := by
  unfold mkNode
  cases hf : find? t e.1 with
  | none => rfl
  | some n => exact (find?_some hf).2

theorem mkNode_parent (t : Table) (e : Int × Int) : (mkNode t e).parent = e.2 := by
  unfold mkNode
  cases find? t e.1 <;> rfl

/-- ids handed out by a plan: per segment the first anchor and its fresh ids. -/
def planIds (P : List SegOut) : List Int := P.flatMap fun o => o.first :: fresh o.base o.k

theorem map_fst_flatMap_segRows (P : List SegOut) : (P.flatMap segRows).map Prod.fst = planIds P := by
  induction P with
  | nil => rfl
  | cons o rest ih =>
    simp only [List.flatMap_cons, List.map_append, ih, planIds]
    congr 1
    exact linkPairs_map_fst _ _ _ _

theorem ids_planTable (t : Table) (P : List SegOut) :
    ids (planTable t P) = planIds P ++ ids (t.filter isRootNode) := by
  unfold planTable
  rw [ids_append]
  congr 1
  unfold ids
  rw [List.map_map]
  have : ((fun n => n.id) ∘ mkNode t) = Prod.fst := by
    funext e; exact mkNode_id t e
  rw [this, map_fst_flatMap_segRows]

theorem mem_planIds {P : List SegOut} {i : Int} :
    i ∈ planIds P ↔ ∃ o ∈ P, i = o.first ∨ (o.base ≤ i ∧ i < o.base + o.k) := by
  unfold planIds
  simp only [List.mem_flatMap, List.mem_cons, mem_fresh]

theorem mem_rootIds {t : Table} {i : Int} : i ∈ ids (t.filter isRootNode) ↔ ∃ n ∈ t, n.id = i ∧ n.parent < 0 := by
  rw [mem_ids]
  simp only [List.mem_filter, isRootNode, decide_eq_true_eq]
  constructor
  · rintro ⟨n, ⟨h1, h2⟩, h3⟩; exact ⟨n, h1, h3, h2⟩
  · rintro ⟨n, h1, h3, h2⟩; exact ⟨n, ⟨h1, h2⟩, h3⟩

theorem planIds_nodup_aux {t : Table} {P : List SegOut} (hfo : ∀ o ∈ P, o.first ≤ maxId t)
    (hnd : (P.map (·.first)).Nodup) (hb : ∀ o ∈ P, maxId t < o.base)
    (hd : P.Pairwise (fun o o' => o.base + (o.k : Int) ≤ o'.base)) : (planIds P).Nodup := by
  induction P with
  | nil => simp [planIds]
  | cons o rest ih =>
    simp only [List.map_cons, List.nodup_cons] at hnd
    rw [List.pairwise_cons] at hd
    have ihr := ih (fun x hx => hfo x (List.mem_cons_of_mem _ hx)) hnd.2
      (fun x hx => hb x (List.mem_cons_of_mem _ hx)) hd.2
    have e : planIds (o :: rest) = (o.first :: fresh o.base o.k) ++ planIds rest := by
      simp [planIds]
    rw [e, List.nodup_append]
    refine ⟨?_, ihr, ?_⟩
    · rw [List.nodup_cons]
      refine ⟨?_, fresh_nodup _ _⟩
      intro hm
      have := (mem_fresh.mp hm).1
      have := hb o (by simp)
      have := hfo o (by simp)
      omega
    · intro a ha b hb' hab
      subst hab
      obtain ⟨o', ho', hcase⟩ := mem_planIds.mp hb'
      have hbo := hb o (by simp)
      have hbo' := hb o' (List.mem_cons_of_mem _ ho')
      have hdo := hd.1 o' ho'
      rcases List.mem_cons.mp ha with ha | ha
      · rcases hcase with h | h
        · exact hnd.1 (List.mem_map.mpr ⟨o', ho', by rw [← h, ha]⟩)
        · have := hfo o (by simp); omega
      · have hr := mem_fresh.mp ha
        rcases hcase with h | h
        · have := hfo o' (List.mem_cons_of_mem _ ho'); omega
        · omega

theorem planIds_nodup {t : Table} {rk : Int → Nat} {P : List SegOut} (h : PlanOK t rk P) : (planIds P).Nodup := by
  apply planIds_nodup_aux (t := t) _ h.firsts_nodup h.base_gt h.disjoint
  intro o ho
  obtain ⟨n, hn, hid, _⟩ := h.first_mem o ho
  exact hid ▸ le_maxId (mem_ids_of_mem hn)

theorem ids_planTable_nodup {t : Table} (hw : WF t) {rk : Int → Nat} {P : List SegOut} (h : PlanOK t rk P) :
    (ids (planTable t P)).Nodup := by
  rw [ids_planTable, List.nodup_append]
  refine ⟨planIds_nodup h, ?_, ?_⟩
  · exact hw.1.sublist (List.filter_sublist.map _)
  · intro a ha b hb hab
    subst hab
    obtain ⟨o, ho, hcase⟩ := mem_planIds.mp ha
    obtain ⟨m, hm, hmid, hmp⟩ := mem_rootIds.mp hb
    rcases hcase with h1 | h1
    · obtain ⟨n, hn, hid, hp⟩ := h.first_mem o ho
      have : n = m := by
        have h1' := find?_of_mem hw.1 hn
        have h2' := find?_of_mem hw.1 hm
        rw [hid, ← h1, ← hmid] at h1'
        rw [h1'] at h2'
        exact Option.some.inj h2'
      exact hp (this ▸ hmp)
    · have := h.base_gt o ho
      have := le_maxId (hmid ▸ mem_ids_of_mem hm)
      omega

/-! ### dedup is the identity on tables with unique ids -/

theorem dedupAux_of_nodup (seen : List Int) (l : Table) (hnd : (ids l).Nodup) (hdis : ∀ i ∈ ids l, i ∉ seen) :
    dedupAux seen l = l := by
  induction l generalizing seen with
  | nil => rfl
  | cons n rest ih =>
    have hn : n.id ∉ seen := hdis n.id (by simp [ids])
    simp only [ids, List.map_cons, List.nodup_cons] at hnd
    rw [dedupAux, if_neg (by simpa using hn)]
    congr 1
    apply ih _ hnd.2
    intro i hi hs
    rcases List.mem_cons.mp hs with h | h
    · exact hnd.1 (h ▸ hi)
    · exact hdis i (by simp only [ids, List.map_cons]; exact List.mem_cons_of_mem _ hi) h

theorem dedupById_of_nodup (l : Table) (hnd : (ids l).Nodup) : dedupById l = l :=
  dedupAux_of_nodup [] l hnd (fun _ _ h => by cases h)

/-! ### rank of the new table -/

/-- Rank of a fresh id: `M · rk(last) + (number of chain steps up to last)`. -/
def rkFresh (rk : Int → Nat) (M : Nat) : List SegOut → Int → Nat
  | [], _ => 0
  | o :: rest, i =>
    if o.base ≤ i ∧ i < o.base + (o.k : Int) then M * rk o.last + (o.base + (o.k : Int) - i).toNat
    else rkFresh rk M rest i

def rkNew (t : Table) (rk : Int → Nat) (M : Nat) (P : List SegOut) (i : Int) : Nat :=
  if i ≤ maxId t then M * rk i else rkFresh rk M P i

theorem rkFresh_of_mem (rk : Int → Nat) (M : Nat) {P : List SegOut}
    (hd : P.Pairwise (fun o o' => o.base + (o.k : Int) ≤ o'.base)) {o : SegOut} (ho : o ∈ P) {i : Int}
    (h1 : o.base ≤ i) (h2 : i < o.base + (o.k : Int)) :
    rkFresh rk M P i = M * rk o.last + (o.base + (o.k : Int) - i).toNat := by
  induction P with
  | nil => simp at ho
  | cons o0 rest ih =>
    rw [List.pairwise_cons] at hd
    rw [rkFresh]
    rcases List.mem_cons.mp ho with rfl | ho
    · rw [if_pos ⟨h1, h2⟩]
    · have := hd.1 o ho
      rw [if_neg (by omega)]
      exact ih hd.2 ho

theorem sum_k_ge {P : List SegOut} {o : SegOut} (ho : o ∈ P) : o.k ≤ (P.map (·.k)).sum := by
  induction P with
  | nil => simp at ho
  | cons x rest ih =>
    simp only [List.map_cons, List.sum_cons]
    rcases List.mem_cons.mp ho with rfl | ho
    · omega
    · have := ih ho; omega

/-- **The table built from an admissible plan is a well-formed forest.** -/
theorem WF_planTable {t : Table} (hw : WF t) {rk : Int → Nat}
    {P : List SegOut} (h : PlanOK t rk P) : WF (planTable t P) := by
  have hnd := ids_planTable_nodup hw h
  let M : Nat := 1 + (P.map (·.k)).sum
  have hM : ∀ o ∈ P, o.k < M := fun o ho => by have := sum_k_ge ho; omega
  have hidmem : ∀ i, i ∈ ids (planTable t P) ↔ i ∈ planIds P ∨ i ∈ ids (t.filter isRootNode) := by
    intro i; rw [ids_planTable, List.mem_append]
  -- anchors are old ids
  have hfirst_le : ∀ o ∈ P, o.first ≤ maxId t := by
    intro o ho
    obtain ⟨n, hn, hid, _⟩ := h.first_mem o ho
    exact hid ▸ le_maxId (mem_ids_of_mem hn)
  have hlast_le : ∀ o ∈ P, o.last ≤ maxId t := fun o ho => le_maxId (h.last_mem o ho)
  have hlast_in : ∀ o ∈ P, o.last ∈ ids (planTable t P) := by
    intro o ho
    rw [hidmem]
    rcases h.last_anchor o ho with ⟨n, hn, hid, hp⟩ | ⟨o', ho', hf⟩
    · exact Or.inr (mem_rootIds.mpr ⟨n, hn, hid, hp⟩)
    · exact Or.inl (mem_planIds.mpr ⟨o', ho', Or.inl hf.symm⟩)
  refine ⟨hnd, ?_, rkNew t rk M P, ?_⟩
  · intro m hm
    have := mem_ids_of_mem hm
    rw [hidmem] at this
    rcases this with hp | hr
    · obtain ⟨o, ho, hcase⟩ := mem_planIds.mp hp
      rcases hcase with h1 | h1
      · obtain ⟨n, hn, hid, _⟩ := h.first_mem o ho
        rw [h1, ← hid]; exact hw.2.1 n hn
      · have := h.base_gt o ho
        have := maxId_nonneg t
        omega
    · obtain ⟨n, hn, hid, _⟩ := mem_rootIds.mp hr
      rw [← hid]; exact hw.2.1 n hn
  · intro m hm
    unfold planTable at hm
    rcases List.mem_append.mp hm with hm | hm
    · obtain ⟨e, he, rfl⟩ := List.mem_map.mp hm
      obtain ⟨o, ho, heo⟩ := List.mem_flatMap.mp he
      rw [mkNode_id, mkNode_parent]
      right
      have hbg := h.base_gt o ho
      have hfl := hfirst_le o ho
      have hll := hlast_le o ho
      have hrank := h.rank o ho
      have hMk := hM o ho
      have hfresh_in : ∀ j : Nat, j < o.k → o.base + (j : Int) ∈ ids (planTable t P) := by
        intro j hj
        rw [hidmem]
        exact Or.inl (mem_planIds.mpr ⟨o, ho, Or.inr ⟨by omega, by omega⟩⟩)
      have hrk_fresh : ∀ j : Nat, j < o.k → rkNew t rk M P (o.base + (j : Int)) = M * rk o.last + (o.k - j) := by
        intro j hj
        unfold rkNew
        rw [if_neg (by omega), rkFresh_of_mem rk M h.disjoint ho (by omega) (by omega)]
        congr 1
        omega
      have hrk_first : rkNew t rk M P o.first = M * rk o.first := by unfold rkNew; rw [if_pos hfl]
      have hrk_last : rkNew t rk M P o.last = M * rk o.last := by unfold rkNew; rw [if_pos hll]
      have hmul : M * rk o.last + M ≤ M * rk o.first := by
        have : rk o.last + 1 ≤ rk o.first := hrank
        calc M * rk o.last + M = M * (rk o.last + 1) := by rw [Nat.mul_add, Nat.mul_one]
          _ ≤ M * rk o.first := Nat.mul_le_mul_left _ this
      unfold segRows segChain at heo
      rcases mem_linkPairs heo with ⟨h1, h2⟩ | ⟨j, hj, h1, h2⟩
      · rw [h1, hrk_first]
        rcases h2 with ⟨hk, h2⟩ | ⟨hk, h2⟩
        · rw [h2, hrk_last]
          exact ⟨hlast_in o ho, by omega⟩
        · rw [h2]
          have := hrk_fresh 0 hk
          simp only [Int.natCast_zero, Int.add_zero, Nat.sub_zero] at this
          rw [this]
          exact ⟨by simpa using hfresh_in 0 hk, by omega⟩
      · rw [h1, hrk_fresh j hj]
        rcases h2 with ⟨hk, h2⟩ | ⟨hk, h2⟩
        · rw [h2, hrk_last]
          exact ⟨hlast_in o ho, by omega⟩
        · rw [h2]
          have e : o.base + (j : Int) + 1 = o.base + ((j + 1 : Nat) : Int) := by push_cast; omega
          rw [e, hrk_fresh (j + 1) hk]
          exact ⟨hfresh_in (j + 1) hk, by omega⟩
    · left
      have := List.mem_filter.mp hm
      simpa [isRootNode] using this.2

/-- **`resample_skeleton` yields a well-formed forest** (any count function). -/
theorem WF_resampleStruct {t : Table} (hw : WF t) (cnt : List Int → Option Nat) : WF (resampleStruct t cnt) := by
  obtain ⟨rk, hrk, _⟩ := WF_rank_le hw
  have hok := planOf_ok hw hrk cnt
  rw [resampleStruct_eq, dedupById_of_nodup _ (ids_planTable_nodup hw hok)]
  exact WF_classify (WF_planTable hw hok)

theorem resampleStruct_eq' {t : Table} (hw : WF t) (cnt : List Int → Option Nat) :
    resampleStruct t cnt = classify (planTable t (planOf t cnt)) := by
  obtain ⟨rk, hrk, _⟩ := WF_rank_le hw
  rw [resampleStruct_eq, dedupById_of_nodup _ (ids_planTable_nodup hw (planOf_ok hw hrk cnt))]

/-! ### anchors and chains in the result -/

theorem mem_classify_of_mem {t : Table} {n : Node} (h : n ∈ t) : ∃ m ∈ classify t, m.id = n.id ∧ m.parent = n.parent ∧
    m.x = n.x ∧ m.y = n.y ∧ m.z = n.z := by
  refine ⟨{ n with label := classifyNode t n }, ?_, rfl, rfl, rfl, rfl, rfl⟩
  unfold classify
  exact List.mem_map.mpr ⟨n, h, rfl⟩

/-- Every row `(c, p)` of a planned chain is a row of the result; an anchor `c` keeps its coordinates. -/
theorem row_mem_resampleStruct {t : Table} (hw : WF t) (cnt : List Int → Option Nat) {o : SegOut}
    (ho : o ∈ planOf t cnt) {e : Int × Int} (he : e ∈ segRows o) :
    ∃ m ∈ resampleStruct t cnt, m.id = e.1 ∧ m.parent = e.2 ∧
      ∀ n ∈ t, n.id = e.1 → m.x = n.x ∧ m.y = n.y ∧ m.z = n.z := by
  rw [resampleStruct_eq' hw]
  have hmem : mkNode t e ∈ planTable t (planOf t cnt) := by
    unfold planTable
    exact List.mem_append_left _ (List.mem_map.mpr ⟨e, List.mem_flatMap.mpr ⟨o, ho, he⟩, rfl⟩)
  obtain ⟨m, hm, h1, h2, h3, h4, h5⟩ := mem_classify_of_mem hmem
  refine ⟨m, hm, by rw [h1, mkNode_id], by rw [h2, mkNode_parent], ?_⟩
  intro n hn hid
  have hf : find? t e.1 = some n := hid ▸ find?_of_mem hw.1 hn
  have : mkNode t e = { n with parent := e.2 } := by unfold mkNode; rw [hf]
  rw [h3, h4, h5, this]
  exact ⟨rfl, rfl, rfl⟩

/-- Roots are kept as they are. -/
theorem root_mem_resampleStruct {t : Table} (hw : WF t) (cnt : List Int → Option Nat) {n : Node}
    (hn : n ∈ t) (hp : n.parent < 0) :
    ∃ m ∈ resampleStruct t cnt, m.id = n.id ∧ m.parent = n.parent ∧ m.x = n.x ∧ m.y = n.y ∧ m.z = n.z := by
  rw [resampleStruct_eq' hw]
  apply mem_classify_of_mem
  unfold planTable
  exact List.mem_append_right _ (List.mem_filter.mpr ⟨hn, by simpa [isRootNode] using hp⟩)

theorem ids_resampleStruct {t : Table} (hw : WF t) (cnt : List Int → Option Nat) :
    ids (resampleStruct t cnt) = planIds (planOf t cnt) ++ ids (t.filter isRootNode) := by
  rw [resampleStruct_eq' hw, ids_classify, ids_planTable]

theorem planIds_length (P : List SegOut) : (planIds P).length = P.length + (P.map (·.k)).sum := by
  induction P with
  | nil => rfl
  | cons o rest ih =>
    have e : planIds (o :: rest) = (o.first :: fresh o.base o.k) ++ planIds rest := by simp [planIds]
    rw [e, List.length_append, ih]
    simp only [List.length_cons, fresh_length, List.map_cons, List.sum_cons]
    omega

/-- Roots, leafs and branch points (everything but a non-root node with exactly one child) keep their id
and coordinates. -/
theorem anchor_mem_resampleStruct {t : Table} (hw : WF t) (cnt : List Int → Option Nat) {n : Node} (hn : n ∈ t)
    (ha : n.parent < 0 ∨ childCount t n.id ≠ 1) :
    ∃ m ∈ resampleStruct t cnt, m.id = n.id ∧ m.x = n.x ∧ m.y = n.y ∧ m.z = n.z := by
  by_cases hp : n.parent < 0
  · obtain ⟨m, hm, h1, _, h3, h4, h5⟩ := root_mem_resampleStruct hw cnt hn hp
    exact ⟨m, hm, h1, h3, h4, h5⟩
  · have hcc : childCount t n.id ≠ 1 := by
      rcases ha with h | h
      · exact absurd h hp
      · exact h
    have hseed : segOf t n.id ∈ smallSegments t := by
      rw [smallSegments_eq]
      exact List.mem_map.mpr ⟨n, mem_seeds.mpr ⟨hn, hp, hcc⟩, rfl⟩
    obtain ⟨o, ho, h1, _, _⟩ := plan_of_mem (cnt := cnt) (base := maxId t + 1) hseed
    rw [segFirst_segOf] at h1
    have hrow := linkPairs_first_mem o.first o.last o.base o.k
    obtain ⟨m, hm, hid, _, hco⟩ := row_mem_resampleStruct hw cnt (o := o) ho (e := (o.first, if o.k = 0 then o.last else o.base)) hrow
    obtain ⟨hx, hy, hz⟩ := hco n hn h1.symm
    exact ⟨m, hm, by rw [hid]; exact h1, hx, hy, hz⟩

theorem length_resampleStruct {t : Table} (hw : WF t) (cnt : List Int → Option Nat) :
    (resampleStruct t cnt).length =
      (smallSegments t).length + ((planOf t cnt).map (·.k)).sum + (t.filter isRootNode).length := by
  have := congrArg List.length (ids_resampleStruct hw cnt)
  simp only [ids, List.length_map, List.length_append] at this
  rw [this, ← List.length_map (f := fun n : Node => n.id), planIds_length]
  unfold planOf
  rw [plan_length]

end Navis.Resample
