import NavisModel.Proofs.DistLemmas
import NavisModel.Proofs.RerootEdgesLemmas
/-!
Helper lemmas for the C05 theorems about undirected geodesic distances (`geo_symm`,
`geo_inf_iff_diff_tree`, `geo_eq_path_sum`), the cable length as a sum over segments, and the
correctness of the model's `smallSegments` / `segments`.  Core Lean only.
-/
namespace Navis.Forest

/-! ### pathLen -/

theorem pathLen_nil (len : Int → Int → Nat) : pathLen len [] = 0 := rfl
theorem pathLen_single (len : Int → Int → Nat) (a : Int) : pathLen len [a] = 0 := rfl
theorem pathLen_cons_cons (len : Int → Int → Nat) (a b : Int) (rest : List Int) :
    pathLen len (a :: b :: rest) = len a b + pathLen len (b :: rest) := rfl

/-- Splitting a path at an inner node. -/
theorem pathLen_append (len : Int → Int → Nat) (xs : List Int) (m : Int) (ys : List Int) :
    pathLen len (xs ++ m :: ys) = pathLen len (xs ++ [m]) + pathLen len (m :: ys) := by
  induction xs with
  | nil => simp [pathLen_single]
  | cons x xs ih =>
    cases xs with
    | nil => simp [pathLen_cons_cons, pathLen_single]
    | cons y xs' =>
      simp only [List.cons_append, pathLen_cons_cons] at ih ⊢
      omega

theorem pathLen_reverse {len : Int → Int → Nat} (hs : ∀ a b, len a b = len b a) (l : List Int) :
    pathLen len l.reverse = pathLen len l := by
  induction l with
  | nil => rfl
  | cons a l ih =>
    cases l with
    | nil => rfl
    | cons b l' =>
      rw [List.reverse_cons, List.reverse_cons, List.append_assoc]
      show pathLen len (l'.reverse ++ b :: [a]) = _
      rw [pathLen_append, ← List.reverse_cons, ih, pathLen_cons_cons, pathLen_cons_cons, pathLen_single, hs b a]
      omega

/-! ### undirected chains -/

/-- Consecutive nodes are adjacent in one direction or the other. -/
def UChain (t : Table) : List Int → Prop
  | a :: b :: rest => (adjacent t a b = true ∨ adjacent t b a = true) ∧ UChain t (b :: rest)
  | _ => True

theorem UChain_append {t : Table} (xs : List Int) (m : Int) (ys : List Int)
    (h1 : UChain t (xs ++ [m])) (h2 : UChain t (m :: ys)) : UChain t (xs ++ m :: ys) := by
  induction xs with
  | nil => exact h2
  | cons x xs ih =>
    cases xs with
    | nil => exact ⟨h1.1, h2⟩
    | cons y xs' => exact ⟨h1.1, ih h1.2⟩

theorem UChain_reverse {t : Table} (l : List Int) (h : UChain t l) : UChain t l.reverse := by
  induction l with
  | nil => exact h
  | cons a l ih =>
    cases l with
    | nil => exact h
    | cons b l' =>
      rw [List.reverse_cons, List.reverse_cons, List.append_assoc]
      show UChain t (l'.reverse ++ b :: [a])
      apply UChain_append
      · rw [← List.reverse_cons]; exact ih h.2
      · exact ⟨h.1.symm, trivial⟩

theorem UChain_spec {t : Table} (l : List Int) (h : UChain t l) :
    ∀ k (h1 : k + 1 < l.length),
      adjacent t (l[k]'(by omega)) (l[k+1]) = true ∨ adjacent t (l[k+1]) (l[k]'(by omega)) = true := by
  induction l with
  | nil => intro k h1; simp at h1
  | cons a rest ih =>
    cases rest with
    | nil => intro k h1; simp at h1
    | cons b rest' =>
      intro k h1
      cases k with
      | zero => simpa using h.1
      | succ k =>
        have := ih h.2 k (by simp at h1 ⊢; omega)
        simpa using this

theorem Linked_prefix {t : Table} : ∀ (xs ys : List Int), Linked t (xs ++ ys) → Linked t xs
  | [], _, _ => trivial
  | [_], _, _ => trivial
  | _ :: y :: xs, ys, h => ⟨h.1, Linked_prefix (y :: xs) ys h.2⟩

theorem Linked_UChain {t : Table} : ∀ (l : List Int), Linked t l → UChain t l
  | [], _ => trivial
  | [_], _ => trivial
  | a :: b :: rest, h => by
    obtain ⟨⟨n, h1, h2, h3⟩, h'⟩ := h
    exact ⟨Or.inl ((adjacent_iff t a b).mpr ⟨n, h1, by omega, h2⟩), Linked_UChain (b :: rest) h'⟩

theorem Linked_isParentPath {t : Table} : ∀ (l : List Int), l ≠ [] → Linked t l → isParentPath t l = true
  | [], h, _ => absurd rfl h
  | [_], _, _ => rfl
  | a :: b :: rest, _, h => by
    obtain ⟨⟨n, h1, h2, h3⟩, h'⟩ := h
    show (adjacent t a b && isParentPath t (b :: rest)) = true
    rw [(adjacent_iff t a b).mpr ⟨n, h1, by omega, h2⟩, Linked_isParentPath (b :: rest) (by simp) h']
    rfl

/-! ### where two root paths meet -/

theorem rootPath_of_not_mem {t : Table} {a : Int} (h : a ∉ ids t) : rootPath t a = [] := by
  cases hf : find? t a with
  | none => exact rootPath_absent hf
  | some n => exact absurd (mem_ids.mpr ⟨n, find?_some hf⟩) h

theorem rootPath_nodup {t : Table} (hw : WF t) (i : Int) : (rootPath t i).Nodup := pathToRoot_nodup hw _ i

theorem rootPath_sub {t : Table} {i x : Int} (h : x ∈ rootPath t i) : x ∈ ids t := pathToRoot_subset t _ i x h

theorem rootPath_linked (t : Table) (i : Int) : Linked t (rootPath t i) := pathToRoot_linked t _ i

/-- The root paths of `a` and `b` meet in `l`: they share the root path of `l`, and are disjoint
before it. -/
structure Meet (t : Table) (a b l : Int) (pa pb : List Int) : Prop where
  ha : rootPath t a = pa ++ rootPath t l
  hb : rootPath t b = pb ++ rootPath t l
  da : ∀ x ∈ pa, x ∉ rootPath t b
  db : ∀ x ∈ pb, x ∉ rootPath t a
  hl : l ∈ ids t

theorem Meet.symm {t : Table} {a b l : Int} {pa pb : List Int} (m : Meet t a b l pa pb) : Meet t b a l pb pa :=
  ⟨m.hb, m.ha, m.db, m.da, m.hl⟩

/-- In a well-formed forest two root paths are disjoint or meet (in the lowest common ancestor). -/
theorem meet_or_disjoint {t : Table} (hw : WF t) (a b : Int) :
    (∀ x ∈ rootPath t a, x ∉ rootPath t b) ∨ ∃ l pa pb, Meet t a b l pa pb := by
  by_cases ha : a ∈ ids t
  case neg => left; rw [rootPath_of_not_mem ha]; simp
  by_cases hb : b ∈ ids t
  case neg => left; rw [rootPath_of_not_mem hb]; simp
  refine WF_induct hw (fun a => (∀ x ∈ rootPath t a, x ∉ rootPath t b) ∨ ∃ l pa pb, Meet t a b l pa pb) ?_ a ha
  intro n hn hcase
  have hf := find?_of_mem hw.1 hn
  by_cases hin : n.id ∈ rootPath t b
  · right
    obtain ⟨pb, hpb⟩ := rootPath_suffix hw b hb n.id hin
    refine ⟨n.id, [], pb, by simp, hpb.symm, by simp, ?_, mem_ids_of_mem hn⟩
    intro x hx hx'
    have hnd := rootPath_nodup hw b
    rw [← hpb, List.nodup_append] at hnd
    exact hnd.2.2 x hx x hx' rfl
  · by_cases hp : n.parent < 0
    · left
      rw [rootPath_of_root hf hp]
      intro x hx; simp at hx; rw [hx]; exact hin
    · rcases hcase with hc | hc
      · exact absurd hc hp
      · have e := rootPath_of_nonroot hw hf hp
        rw [e]
        rcases hc with hd | ⟨l, pa, pb, m⟩
        · left
          intro x hx
          rcases List.mem_cons.mp hx with h | h
          · rw [h]; exact hin
          · exact hd x h
        · right
          refine ⟨l, n.id :: pa, pb, ?_, m.hb, ?_, ?_, m.hl⟩
          · rw [e, m.ha]; rfl
          · intro x hx
            rcases List.mem_cons.mp hx with h | h
            · rw [h]; exact hin
            · exact m.da x h
          · intro x hx hx'
            rw [e] at hx'
            rcases List.mem_cons.mp hx' with h | h
            · apply hin
              rw [← h, m.hb]; exact List.mem_append_left _ hx
            · exact m.db x hx h

theorem uptoIncl_append {l : Int} {pa : List Int} (rest : List Int) (h : l ∉ pa) :
    uptoIncl l (pa ++ l :: rest) = some (pa ++ [l]) := by
  induction pa with
  | nil => simp [uptoIncl]
  | cons x pa ih =>
    have hx : x ≠ l := fun he => h (he ▸ List.mem_cons_self)
    have := ih (fun hm => h (List.mem_cons_of_mem _ hm))
    simp [uptoIncl, hx, this]

namespace Meet
variable {t : Table} {a b l : Int} {pa pb : List Int}

theorem l_mem_b (m : Meet t a b l pa pb) : l ∈ rootPath t b := by
  rw [m.hb]; exact List.mem_append_right _ (rootPath_head_mem m.hl)

theorem l_mem_a (m : Meet t a b l pa pb) : l ∈ rootPath t a := m.symm.l_mem_b

theorem l_not_pa (m : Meet t a b l pa pb) : l ∉ pa := fun h => m.da l h m.l_mem_b

theorem lca_eq (m : Meet t a b l pa pb) : lca t a b = some l := by
  obtain ⟨rest, hr⟩ := rootPath_cons m.hl
  unfold lca
  simp only
  rw [m.ha, hr, List.find?_append]
  have h1 : List.find? (fun i => (rootPath t b).contains i) pa = none := by
    rw [List.find?_eq_none]
    intro x hx
    simpa using m.da x hx
  have h2 : (rootPath t b).contains l = true := by simpa using m.l_mem_b
  rw [h1, List.find?_cons, h2]; rfl

theorem distUp_eq (m : Meet t a b l pa pb) (len : Int → Int → Nat) :
    distUp t len a l = some (pathLen len (pa ++ [l])) := by
  obtain ⟨rest, hr⟩ := rootPath_cons m.hl
  unfold distUp
  rw [m.ha, hr, uptoIncl_append rest m.l_not_pa]; rfl

theorem geo_eq (m : Meet t a b l pa pb) (len : Int → Int → Nat) :
    geo t len false a b = some (pathLen len (pa ++ [l]) + pathLen len (pb ++ [l])) := by
  unfold geo
  simp only [Bool.false_eq_true, if_false, m.lca_eq, m.distUp_eq, m.symm.distUp_eq]

theorem rootOf_eq (m : Meet t a b l pa pb) : rootOf t a = rootOf t b := by
  obtain ⟨rest, hr⟩ := rootPath_cons m.hl
  unfold rootOf
  rw [m.ha, m.hb, List.getLast?_append, List.getLast?_append, hr]
  cases h : (l :: rest).getLast? with
  | none => simp at h
  | some r => rfl

end Meet

theorem lca_of_disjoint {t : Table} {a b : Int} (h : ∀ x ∈ rootPath t a, x ∉ rootPath t b) : lca t a b = none := by
  unfold lca
  simp only
  rw [List.find?_eq_none]
  intro x hx
  simpa using h x hx

theorem geo_of_disjoint {t : Table} {a b : Int} (len : Int → Int → Nat)
    (h : ∀ x ∈ rootPath t a, x ∉ rootPath t b) : geo t len false a b = none := by
  unfold geo
  simp only [Bool.false_eq_true, if_false, lca_of_disjoint h]

/-- Undirected distances are symmetric. -/
theorem geo_symm' {t : Table} (hw : WF t) (len : Int → Int → Nat) (a b : Int) :
    geo t len false a b = geo t len false b a := by
  rcases meet_or_disjoint hw a b with h | ⟨l, pa, pb, m⟩
  · rw [geo_of_disjoint len h, geo_of_disjoint len (fun x hx hx' => h x hx' hx)]
  · rw [m.geo_eq, m.symm.geo_eq, Nat.add_comm]

/-- Unreachable exactly across trees. -/
theorem geo_none_iff {t : Table} (hw : WF t) (len : Int → Int → Nat) {a b : Int} (ha : a ∈ ids t) (hb : b ∈ ids t) :
    geo t len false a b = none ↔ rootOf t a ≠ rootOf t b := by
  rcases meet_or_disjoint hw a b with h | ⟨l, pa, pb, m⟩
  · rw [geo_of_disjoint len h]
    refine ⟨fun _ he => ?_, fun _ => rfl⟩
    obtain ⟨ra, _, hla, _, _⟩ := rootPath_ends hw a ha
    obtain ⟨rb, _, hlb, _, _⟩ := rootPath_ends hw b hb
    unfold rootOf at he
    rw [hla, hlb] at he
    simp only [Option.some.injEq] at he
    exact h ra (List.mem_of_getLast? hla) (he ▸ List.mem_of_getLast? hlb)
  · rw [m.geo_eq]
    constructor
    · intro h; simp at h
    · intro h; exact absurd m.rootOf_eq h

/-- The distance is the length of an explicit undirected path: up to the lowest common ancestor and
down again. -/
theorem geo_path {t : Table} (hw : WF t) {len : Int → Int → Nat} (hs : ∀ a b, len a b = len b a) {a b : Int} {d : Nat}
    (h : geo t len false a b = some d) :
    ∃ p : List Int, p.head? = some a ∧ p.getLast? = some b ∧ p.Nodup ∧ UChain t p ∧ d = pathLen len p := by
  rcases meet_or_disjoint hw a b with hd | ⟨l, pa, pb, m⟩
  · rw [geo_of_disjoint len hd] at h; simp at h
  · rw [m.geo_eq] at h
    simp only [Option.some.injEq] at h
    obtain ⟨rest, hr⟩ := rootPath_cons m.hl
    have ha : a ∈ ids t := rootPath_sub (i := a) (by
      by_cases ha : a ∈ ids t
      · exact rootPath_head_mem ha
      · have := m.l_mem_a; rw [rootPath_of_not_mem ha] at this; simp at this)
    have hb : b ∈ ids t := rootPath_sub (i := b) (by
      by_cases hb : b ∈ ids t
      · exact rootPath_head_mem hb
      · have := m.l_mem_b; rw [rootPath_of_not_mem hb] at this; simp at this)
    have hha : (pa ++ [l]).head? = some a := by
      have h1 := pathToRoot_head t t.length a ha
      change (rootPath t a).head? = some a at h1
      rw [m.ha, hr] at h1
      cases pa with
      | nil => simpa using h1
      | cons x pa' => simpa using h1
    have hhb : (pb ++ [l]).head? = some b := by
      have h1 := pathToRoot_head t t.length b hb
      change (rootPath t b).head? = some b at h1
      rw [m.hb, hr] at h1
      cases pb with
      | nil => simpa using h1
      | cons x pb' => simpa using h1
    have hla : Linked t (pa ++ [l]) := by
      have := rootPath_linked t a
      rw [m.ha, hr] at this
      have e : pa ++ l :: rest = (pa ++ [l]) ++ rest := by simp
      rw [e] at this
      exact Linked_prefix _ _ this
    have hlb : Linked t (pb ++ [l]) := by
      have := rootPath_linked t b
      rw [m.hb, hr] at this
      have e : pb ++ l :: rest = (pb ++ [l]) ++ rest := by simp
      rw [e] at this
      exact Linked_prefix _ _ this
    have hrev : (pb ++ [l]).reverse = l :: pb.reverse := by simp
    refine ⟨pa ++ l :: pb.reverse, ?_, ?_, ?_, ?_, ?_⟩
    · cases pa with
      | nil => simpa using hha
      | cons x pa' => simpa using hha
    · rw [← hrev, List.getLast?_append, List.getLast?_reverse, hhb]; rfl
    · have hna := rootPath_nodup hw a
      have hnb := rootPath_nodup hw b
      rw [m.ha, hr] at hna
      rw [m.hb, List.nodup_append] at hnb
      rw [List.nodup_append] at hna ⊢
      refine ⟨hna.1, ?_, ?_⟩
      · rw [List.nodup_cons]
        refine ⟨?_, ?_⟩
        · intro hm
          exact m.db l (List.mem_reverse.mp hm) m.l_mem_a
        · exact List.pairwise_reverse.mpr (hnb.1.imp fun h => h.symm)
      · intro x hx y hy hxy
        rcases List.mem_cons.mp hy with h1 | h1
        · exact m.l_not_pa (h1 ▸ hxy ▸ hx)
        · apply m.db y (List.mem_reverse.mp h1)
          rw [m.ha, ← hxy]; exact List.mem_append_left _ hx
    · apply UChain_append
      · exact Linked_UChain _ hla
      · rw [← hrev]; exact UChain_reverse _ (Linked_UChain _ hlb)
    · rw [pathLen_append, ← hrev, pathLen_reverse hs, h]

/-! ### distance to the root, cable length as a sum over segments -/

theorem WF_parent_mem {t : Table} (hw : WF t) {n : Node} (hn : n ∈ t) (hp : ¬ n.parent < 0) : n.parent ∈ ids t := by
  rcases WF_parents hw n hn with h | h
  · exact absurd h hp
  · exact h

theorem distToRoot_root {t : Table} (len : Int → Int → Nat) {i : Int} {n : Node} (hf : find? t i = some n)
    (hp : n.parent < 0) : distToRoot t len i = 0 := by
  unfold distToRoot; rw [rootPath_of_root hf hp]; rfl

theorem distToRoot_parent {t : Table} (hw : WF t) (len : Int → Int → Nat) {n : Node} (hn : n ∈ t)
    (hp : ¬ n.parent < 0) : distToRoot t len n.id = len n.id n.parent + distToRoot t len n.parent := by
  obtain ⟨rest, hr⟩ := rootPath_cons (WF_parent_mem hw hn hp)
  unfold distToRoot
  rw [rootPath_of_nonroot hw (find?_of_mem hw.1 hn) hp, hr, pathLen_cons_cons]

/-- Length of the edge from `x` to its parent (0 for roots and absent nodes). -/
def upLen (t : Table) (len : Int → Int → Nat) (x : Int) : Nat :=
  match find? t x with
  | some n => if n.parent < 0 then 0 else len x n.parent
  | none => 0

/-- A child→parent path is as long as the parent edges of its non-last nodes. -/
theorem pathLen_parentPath {t : Table} (len : Int → Int → Nat) :
    ∀ (s : List Int), isParentPath t s = true → pathLen len s = (s.dropLast.map (upLen t len)).sum
  | [], h => by simp [isParentPath] at h
  | [_], _ => rfl
  | a :: b :: rest, h => by
    simp only [isParentPath, Bool.and_eq_true] at h
    obtain ⟨n, h1, h2, h3⟩ := (adjacent_iff t a b).mp h.1
    have hu : upLen t len a = len a b := by
      unfold upLen; rw [h1]; simp only; rw [if_neg (by omega), h3]
    rw [pathLen_cons_cons, pathLen_parentPath len (b :: rest) h.2, List.dropLast_cons_cons, List.map_cons,
      List.sum_cons, hu]

theorem sum_pathLen_segs {t : Table} (len : Int → Int → Nat) (segs : List (List Int))
    (hall : ∀ s ∈ segs, isParentPath t s = true) :
    (segs.map (pathLen len)).sum =
      (((segs.filter fun s => s.length > 1).flatMap fun s => s.dropLast).map (upLen t len)).sum := by
  induction segs with
  | nil => rfl
  | cons s segs ih =>
    have ih' := ih (fun s' hs' => hall s' (List.mem_cons_of_mem _ hs'))
    have hs := hall s List.mem_cons_self
    rw [List.map_cons, List.sum_cons, ih', pathLen_parentPath len s hs, List.filter_cons]
    by_cases hl : s.length > 1
    · simp only [hl, decide_true, if_true, List.flatMap_cons, List.map_append, List.sum_append]
    · simp only [hl, decide_false, Bool.false_eq_true, if_false]
      have : s.dropLast = [] := by
        cases s with
        | nil => rfl
        | cons a r =>
          cases r with
          | nil => rfl
          | cons b r' => simp at hl
      rw [this]; simp

theorem cable_eq_sum_upLen {t : Table} (hnd : (ids t).Nodup) (len : Int → Int → Nat) :
    cable t len = (((t.filter fun n => !isRootNode n).map (·.id)).map (upLen t len)).sum := by
  unfold cable
  rw [List.map_map]
  congr 1
  apply List.map_congr_left
  intro n hn
  have hn' := List.mem_filter.mp hn
  have hp : ¬ n.parent < 0 := by simpa [isRootNode] using hn'.2
  simp only [Function.comp, upLen, find?_of_mem hnd hn'.1, if_neg hp]

/-- Child→parent paths whose non-last nodes are the non-root nodes once each have total length `cable`. -/
theorem sum_pathLen_eq_cable {t : Table} (hnd : (ids t).Nodup) (len : Int → Int → Nat) (segs : List (List Int))
    (hall : ∀ s ∈ segs, isParentPath t s = true)
    (hperm : ((segs.filter fun s => s.length > 1).flatMap fun s => s.dropLast).Perm
      ((t.filter fun n => !isRootNode n).map (·.id))) :
    (segs.map (pathLen len)).sum = cable t len := by
  rw [sum_pathLen_segs len segs hall, cable_eq_sum_upLen hnd len]
  exact (hperm.map _).sum_nat

/-! ### sorting -/

theorem mem_insertBy {α} (lt : α → α → Bool) (x : α) (l : List α) (z : α) : z ∈ insertBy lt x l ↔ z = x ∨ z ∈ l := by
  rw [(insertBy_perm lt x l).mem_iff, List.mem_cons]

theorem insertBy_pairwise {α} {R : α → α → Prop} (lt : α → α → Bool) (htr : ∀ a b c, R a b → R b c → R a c)
    (h1 : ∀ y x, lt y x = true → R y x) (h2 : ∀ y x, lt y x = false → R x y) (x : α) (l : List α)
    (hl : l.Pairwise R) : (insertBy lt x l).Pairwise R := by
  induction l with
  | nil => simp [insertBy]
  | cons y ys ih =>
    rw [List.pairwise_cons] at hl
    unfold insertBy
    cases hlt : lt y x with
    | true =>
      simp only [if_true]
      rw [List.pairwise_cons]
      refine ⟨?_, ih hl.2⟩
      intro z hz
      rcases (mem_insertBy lt x ys z).mp hz with h | h
      · rw [h]; exact h1 y x hlt
      · exact hl.1 z h
    | false =>
      simp only [Bool.false_eq_true, if_false]
      rw [List.pairwise_cons, List.pairwise_cons]
      refine ⟨?_, hl⟩
      intro z hz
      rcases List.mem_cons.mp hz with h | h
      · rw [h]; exact h2 y x hlt
      · exact htr _ _ _ (h2 y x hlt) (hl.1 z h)

theorem sortBy_pairwise {α} {R : α → α → Prop} (lt : α → α → Bool) (htr : ∀ a b c, R a b → R b c → R a c)
    (h1 : ∀ y x, lt y x = true → R y x) (h2 : ∀ y x, lt y x = false → R x y) (l : List α) :
    (sortBy lt l).Pairwise R := by
  induction l with
  | nil => simp [sortBy]
  | cons x xs ih => exact insertBy_pairwise lt htr h1 h2 x _ ih

theorem sortedInts_pairwise (l : List Int) : (sortedInts l).Pairwise (· ≤ ·) := by
  apply sortBy_pairwise
  · intro a b c h1 h2; exact Int.le_trans h1 h2
  · intro y x h; simpa using h
  · intro y x h
    have : ¬ y ≤ x := by simpa using h
    omega

theorem sortedInts_eq_of_perm {a b : List Int} (h : a.Perm b) : sortedInts a = sortedInts b := by
  apply List.Perm.eq_of_pairwise (le := (· ≤ ·)) _ (sortedInts_pairwise a) (sortedInts_pairwise b)
  · exact ((sortBy_perm _ a).trans h).trans (sortBy_perm _ b).symm
  · intro x y _ _ h1 h2; omega

theorem coversEdgesOnce_of_perm {t : Table} {segs : List (List Int)}
    (h : ((segs.filter fun s => s.length > 1).flatMap fun s => s.dropLast).Perm
      ((t.filter fun n => !isRootNode n).map (·.id))) : coversEdgesOnce t segs = true := by
  unfold coversEdgesOnce
  rw [sortedInts_eq_of_perm h]; simp

/-! ### children -/

theorem childCount_pos_of_child {t : Table} {n : Node} (hn : n ∈ t) : 0 < childCount t n.parent := by
  unfold childCount
  exact List.length_pos_of_mem (List.mem_filter.mpr ⟨hn, by simp⟩)

theorem exists_child_of_pos {t : Table} {i : Int} (h : 0 < childCount t i) : ∃ c ∈ t, c.parent = i := by
  unfold childCount at h
  obtain ⟨c, hc⟩ := List.exists_mem_of_length_pos h
  have := List.mem_filter.mp hc
  exact ⟨c, this.1, by simpa using this.2⟩

theorem child_unique {t : Table} {i : Int} (h : childCount t i ≤ 1) {n n' : Node} (hn : n ∈ t) (hn' : n' ∈ t)
    (hp : n.parent = i) (hp' : n'.parent = i) : n = n' := by
  unfold childCount at h
  have h1 : n ∈ t.filter (fun m => m.parent == i) := List.mem_filter.mpr ⟨hn, by simpa using hp⟩
  have h2 : n' ∈ t.filter (fun m => m.parent == i) := List.mem_filter.mpr ⟨hn', by simpa using hp'⟩
  generalize t.filter (fun m => m.parent == i) = L at h h1 h2
  match L, h, h1, h2 with
  | [a], _, h1, h2 =>
    simp at h1 h2; rw [h1, h2]
  | _ :: _ :: _, h, _, _ => simp at h

theorem Linked_tail {t : Table} {a : Int} {l : List Int} (h : Linked t (a :: l)) : Linked t l := by
  cases l with
  | nil => trivial
  | cons b l' => exact h.2

theorem Linked_at {t : Table} (A : List Int) (y z : Int) (C : List Int) (h : Linked t (A ++ y :: z :: C)) :
    ∃ n, find? t y = some n ∧ n.parent = z ∧ 0 ≤ z := by
  induction A with
  | nil => exact h.1
  | cons a A ih => exact ih (Linked_tail h)

theorem Linked_childCount_pos {t : Table} (y : Int) (l : List Int) (h : Linked t (y :: l)) :
    ∀ x ∈ l, 0 < childCount t x := by
  induction l generalizing y with
  | nil => intro x hx; simp at hx
  | cons z l ih =>
    obtain ⟨⟨n, h1, h2, _⟩, h'⟩ := h
    intro x hx
    rcases List.mem_cons.mp hx with e | e
    · rw [e, ← h2]; exact childCount_pos_of_child (find?_some h1).1
    · exact ih z h' x e

/-! ### small segments -/

theorem isBranchOrRoot_of_find {t : Table} {i : Int} {n : Node} (hf : find? t i = some n) :
    isBranchOrRoot t i = (decide (n.parent < 0) || decide (childCount t i > 1)) := by
  unfold isBranchOrRoot; rw [hf]

theorem not_stop {t : Table} {x : Int} (h : isBranchOrRoot t x = false) :
    ∃ n, find? t x = some n ∧ ¬ n.parent < 0 ∧ childCount t x ≤ 1 := by
  cases hf : find? t x with
  | none => unfold isBranchOrRoot at h; rw [hf] at h; simp at h
  | some n =>
    rw [isBranchOrRoot_of_find hf] at h
    simp only [Bool.or_eq_false_iff, decide_eq_false_iff_not] at h
    exact ⟨n, rfl, h.1, by omega⟩

/-- `s :: mid ++ [last]` is a small segment starting at `s`. -/
structure SmallSeg (t : Table) (s : Int) (mid : List Int) (last : Int) : Prop where
  stop : isBranchOrRoot t last = true
  nostop : ∀ x ∈ mid, isBranchOrRoot t x = false
  path : rootPath t s = (s :: mid) ++ rootPath t last
  hlast : last ∈ ids t

theorem walkToStop_spec {t : Table} (hw : WF t) :
    ∀ (fuel : Nat) (i : Int) (n : Node), find? t i = some n → ¬ n.parent < 0 → (rootPath t i).length ≤ fuel →
      ∃ mid last, walkToStop t (isBranchOrRoot t) fuel i = mid ++ [last] ∧ SmallSeg t i mid last := by
  intro fuel
  induction fuel with
  | zero =>
    intro i n hf _ hlen
    obtain ⟨rest, hr⟩ := rootPath_cons (mem_ids.mpr ⟨n, find?_some hf⟩)
    rw [hr] at hlen; simp at hlen
  | succ fuel ih =>
    intro i n hf hp hlen
    have hn := find?_some hf
    have e := rootPath_of_nonroot hw hf hp
    have hpm := WF_parent_mem hw hn.1 hp
    unfold walkToStop
    rw [hf]
    simp only [if_neg hp]
    cases hst : isBranchOrRoot t n.parent with
    | true =>
      simp only [if_true]
      exact ⟨[], n.parent, rfl, hst, by simp, by rw [e]; rfl, hpm⟩
    | false =>
      simp only [Bool.false_eq_true, if_false]
      obtain ⟨pn, hfp, hpp, _⟩ := not_stop hst
      have hlen' : (rootPath t n.parent).length ≤ fuel := by rw [e] at hlen; simpa using hlen
      obtain ⟨mid, last, hw', hs⟩ := ih n.parent pn hfp hpp hlen'
      refine ⟨n.parent :: mid, last, by rw [hw']; rfl, hs.stop, ?_, ?_, hs.hlast⟩
      · intro x hx
        rcases List.mem_cons.mp hx with h | h
        · rw [h]; exact hst
        · exact hs.nostop x h
      · rw [e, hs.path]; rfl

/-- The small segment seeded at `i`. -/
def segOf (t : Table) (i : Int) : List Int := i :: walkToStop t (isBranchOrRoot t) (t.length + 1) i

theorem smallSegments_eq (t : Table) :
    smallSegments t = (t.filter fun n => !isRootNode n && childCount t n.id != 1).map fun n => segOf t n.id := rfl

theorem segOf_spec {t : Table} (hw : WF t) {n : Node} (hn : n ∈ t) (hp : ¬ n.parent < 0) :
    ∃ mid last, segOf t n.id = n.id :: mid ++ [last] ∧ SmallSeg t n.id mid last := by
  have hf := find?_of_mem hw.1 hn
  have hlen : (rootPath t n.id).length ≤ t.length + 1 := by
    have := pathToRoot_length_le hw (t.length + 1) n.id
    unfold rootPath; omega
  obtain ⟨mid, last, h1, h2⟩ := walkToStop_spec hw (t.length + 1) n.id n hf hp hlen
  exact ⟨mid, last, by unfold segOf; rw [h1]; rfl, h2⟩

namespace SmallSeg
variable {t : Table} {s : Int} {mid : List Int} {last : Int}

theorem linked (h : SmallSeg t s mid last) : Linked t (s :: mid ++ [last]) := by
  obtain ⟨rest, hr⟩ := rootPath_cons h.hlast
  have := rootPath_linked t s
  rw [h.path, hr] at this
  have e : (s :: mid) ++ last :: rest = (s :: mid ++ [last]) ++ rest := by simp
  rw [e] at this
  exact Linked_prefix _ _ this

theorem nodup (h : SmallSeg t s mid last) (hw : WF t) : (s :: mid).Nodup := by
  have := rootPath_nodup hw s
  rw [h.path, List.nodup_append] at this
  exact this.1

theorem dropLast_eq (mid : List Int) (s last : Int) : (s :: mid ++ [last]).dropLast = s :: mid := by
  have : s :: mid ++ [last] = (s :: mid) ++ [last] := rfl
  rw [this, List.dropLast_concat]

/-- Interior nodes are slabs. -/
theorem mid_slab (h : SmallSeg t s mid last) : ∀ x ∈ mid, childCount t x = 1 ∧ isBranchOrRoot t x = false := by
  intro x hx
  obtain ⟨_, _, _, hc⟩ := not_stop (h.nostop x hx)
  have hl : Linked t (s :: mid) := by
    have := h.linked
    have e : s :: mid ++ [last] = (s :: mid) ++ [last] := rfl
    rw [e] at this
    exact Linked_prefix _ _ this
  have := Linked_childCount_pos s mid hl x hx
  exact ⟨by omega, h.nostop x hx⟩

/-- The parent of a non-last node of a segment is the next node; if it is a slab it is again non-last. -/
theorem parent_mem (h : SmallSeg t s mid last) {c : Node} (hc : c ∈ t) (hnd : (ids t).Nodup) (hcm : c.id ∈ s :: mid)
    (hns : isBranchOrRoot t c.parent = false) : c.parent ∈ s :: mid := by
  obtain ⟨A, B, hAB⟩ := List.append_of_mem hcm
  have hl := h.linked
  have e : s :: mid ++ [last] = (s :: mid) ++ [last] := rfl
  rw [e, hAB] at hl
  have hf := find?_of_mem hnd hc
  cases B with
  | nil =>
    have e2 : (A ++ [c.id]) ++ [last] = A ++ c.id :: last :: [] := by simp
    rw [e2] at hl
    obtain ⟨n, h1, h2, _⟩ := Linked_at A c.id last [] hl
    rw [hf] at h1
    simp only [Option.some.injEq] at h1
    rw [← h1] at h2
    rw [h2, h.stop] at hns
    exact absurd hns (by decide)
  | cons z B' =>
    have e2 : (A ++ c.id :: z :: B') ++ [last] = A ++ c.id :: z :: (B' ++ [last]) := by simp
    rw [e2] at hl
    obtain ⟨n, h1, h2, _⟩ := Linked_at A c.id z _ hl
    rw [hf] at h1
    simp only [Option.some.injEq] at h1
    rw [← h1] at h2
    rw [hAB, h2]; simp

end SmallSeg

/-- `SlabUp t s x`: walking up from `s`, every node after `s` up to and including `x` is a slab. -/
inductive SlabUp (t : Table) (s : Int) : Int → Prop
  | refl : SlabUp t s s
  | step {y : Int} {n : Node} : SlabUp t s y → find? t y = some n → isBranchOrRoot t n.parent = false →
      SlabUp t s n.parent

theorem SlabUp.inv {t : Table} {s x : Int} (h : SlabUp t s x) :
    x = s ∨ ∃ y n, SlabUp t s y ∧ find? t y = some n ∧ isBranchOrRoot t n.parent = false ∧ x = n.parent := by
  cases h with
  | refl => exact Or.inl rfl
  | step h1 h2 h3 => exact Or.inr ⟨_, _, h1, h2, h3, rfl⟩

theorem slabUp_of_linked {t : Table} {s : Int} : ∀ (mid : List Int) (y : Int), SlabUp t s y → Linked t (y :: mid) →
    (∀ x ∈ mid, isBranchOrRoot t x = false) → ∀ x ∈ y :: mid, SlabUp t s x := by
  intro mid
  induction mid with
  | nil => intro y hy _ _ x hx; simp at hx; rw [hx]; exact hy
  | cons z mid ih =>
    intro y hy hl hns x hx
    rcases List.mem_cons.mp hx with e | e
    · rw [e]; exact hy
    · obtain ⟨⟨n, h1, h2, _⟩, hl'⟩ := hl
      have hz : SlabUp t s z := by
        rw [← h2]; exact SlabUp.step hy h1 (by rw [h2]; exact hns z List.mem_cons_self)
      exact ih z hz hl' (fun x hx => hns x (List.mem_cons_of_mem _ hx)) x e

theorem SmallSeg.slabUp {t : Table} {s : Int} {mid : List Int} {last : Int} (h : SmallSeg t s mid last) :
    ∀ x ∈ s :: mid, SlabUp t s x := by
  have hl : Linked t (s :: mid) := by
    have := h.linked
    have e : s :: mid ++ [last] = (s :: mid) ++ [last] := rfl
    rw [e] at this
    exact Linked_prefix _ _ this
  exact slabUp_of_linked mid s SlabUp.refl hl h.nostop

/-- A node lies above at most one seed through slabs only. -/
theorem SlabUp.unique {t : Table} {s1 s2 x : Int} (h1 : SlabUp t s1 x) (h2 : SlabUp t s2 x)
    (hs1 : childCount t s1 ≠ 1) (hs2 : childCount t s2 ≠ 1) : s1 = s2 := by
  induction h1 generalizing s2 with
  | refl =>
    rcases h2.inv with h | ⟨y, n, _, hf, hns, hx⟩
    · exact h
    · obtain ⟨_, _, _, hc⟩ := not_stop hns
      have := childCount_pos_of_child (find?_some hf).1
      rw [← hx] at hc this
      omega
  | @step y n h1' hf hns ih =>
    obtain ⟨_, _, _, hc⟩ := not_stop hns
    have hpos := childCount_pos_of_child (find?_some hf).1
    rcases h2.inv with h | ⟨y', n', h2', hf', _, hx⟩
    · rw [h] at hc hpos; omega
    · have hn := find?_some hf
      have hn' := find?_some hf'
      have : n = n' := child_unique hc hn.1 hn'.1 rfl hx.symm
      have hy : y' = y := by rw [← hn.2, ← hn'.2, this]
      rw [hy] at h2'
      exact ih h2' hs2

theorem rootPath_length_le {t : Table} (hw : WF t) (i : Int) : (rootPath t i).length ≤ t.length :=
  pathToRoot_length_le hw _ i

theorem mem_segOf_dropLast_self {t : Table} (hw : WF t) {n : Node} (hn : n ∈ t) (hp : ¬ n.parent < 0) :
    n.id ∈ (segOf t n.id).dropLast := by
  obtain ⟨mid, last, h1, _⟩ := segOf_spec hw hn hp
  rw [h1, SmallSeg.dropLast_eq]; exact List.mem_cons_self

/-- Below every non-root node there is a seed (leaf or branch point) reached through slabs only. -/
theorem exists_seed_below {t : Table} (hw : WF t) :
    ∀ (k : Nat) (x : Node), x ∈ t → ¬ x.parent < 0 → t.length < (rootPath t x.id).length + k →
      ∃ n ∈ t, ¬ n.parent < 0 ∧ childCount t n.id ≠ 1 ∧ x.id ∈ (segOf t n.id).dropLast := by
  intro k
  induction k with
  | zero =>
    intro x _ _ hk
    have := rootPath_length_le hw x.id
    omega
  | succ k ih =>
    intro x hx hp hk
    by_cases hcc : childCount t x.id = 1
    · obtain ⟨c, hc, hcp⟩ := exists_child_of_pos (t := t) (i := x.id) (by omega)
      have hcnr : ¬ c.parent < 0 := by rw [hcp]; have := hw.2.1 x hx; omega
      have e := rootPath_of_nonroot hw (find?_of_mem hw.1 hc) hcnr
      have hk' : t.length < (rootPath t c.id).length + k := by
        rw [e, hcp]; simp only [List.length_cons]; omega
      obtain ⟨n, hn, hnp, hncc, hmem⟩ := ih c hc hcnr hk'
      refine ⟨n, hn, hnp, hncc, ?_⟩
      obtain ⟨mid, last, h1, hs⟩ := segOf_spec hw hn hnp
      rw [h1, SmallSeg.dropLast_eq] at hmem ⊢
      have hns : isBranchOrRoot t c.parent = false := by
        rw [hcp, isBranchOrRoot_of_find (find?_of_mem hw.1 hx)]
        simp [hp, hcc]
      have := hs.parent_mem hc hw.1 hmem hns
      rw [hcp] at this; exact this
    · exact ⟨x, hx, hp, hcc, mem_segOf_dropLast_self hw hx hp⟩

theorem nonroot_ids_nodup {t : Table} (hnd : (ids t).Nodup) : ((t.filter fun n => !isRootNode n).map (·.id)).Nodup :=
  hnd.sublist (List.filter_sublist.map _)

theorem mem_nonroot_ids {t : Table} {x : Int} :
    x ∈ (t.filter fun n => !isRootNode n).map (·.id) ↔ ∃ n ∈ t, ¬ n.parent < 0 ∧ n.id = x := by
  simp only [List.mem_map, List.mem_filter, isRootNode, Bool.not_eq_true', decide_eq_false_iff_not]
  constructor
  · rintro ⟨n, ⟨h1, h2⟩, h3⟩; exact ⟨n, h1, h2, h3⟩
  · rintro ⟨n, h1, h2, h3⟩; exact ⟨n, ⟨h1, h2⟩, h3⟩

theorem mem_seeds {t : Table} {n : Node} :
    n ∈ (t.filter fun n => !isRootNode n && childCount t n.id != 1) ↔ n ∈ t ∧ ¬ n.parent < 0 ∧ childCount t n.id ≠ 1 := by
  simp [List.mem_filter, isRootNode]

theorem segOf_length {t : Table} (hw : WF t) {n : Node} (hn : n ∈ t) (hp : ¬ n.parent < 0) : (segOf t n.id).length > 1 := by
  obtain ⟨mid, last, h1, _⟩ := segOf_spec hw hn hp
  rw [h1]; simp

/-- **Edge partition by small segments**: the non-last nodes of the small segments are the non-root
nodes, each exactly once. -/
theorem smallSegments_cover {t : Table} (hw : WF t) :
    (((smallSegments t).filter fun s => s.length > 1).flatMap fun s => s.dropLast).Perm
      ((t.filter fun n => !isRootNode n).map (·.id)) := by
  have hfil : ((smallSegments t).filter fun s => s.length > 1) = smallSegments t := by
    rw [List.filter_eq_self]
    intro s hs
    rw [smallSegments_eq] at hs
    obtain ⟨n, hn, rfl⟩ := List.mem_map.mp hs
    obtain ⟨h1, h2, _⟩ := mem_seeds.mp hn
    simpa using segOf_length hw h1 h2
  rw [hfil, smallSegments_eq, List.flatMap_map]
  apply (List.perm_ext_iff_of_nodup ?_ (nonroot_ids_nodup hw.1)).mpr
  · intro x
    rw [mem_nonroot_ids, List.mem_flatMap]
    constructor
    · rintro ⟨n, hn, hx⟩
      obtain ⟨h1, h2, _⟩ := mem_seeds.mp hn
      obtain ⟨mid, last, e, hs⟩ := segOf_spec hw h1 h2
      rw [e, SmallSeg.dropLast_eq] at hx
      rcases List.mem_cons.mp hx with h | h
      · exact ⟨n, h1, h2, h.symm⟩
      · obtain ⟨nx, hf, hnp, _⟩ := not_stop (hs.nostop x h)
        exact ⟨nx, (find?_some hf).1, hnp, (find?_some hf).2⟩
    · rintro ⟨nx, h1, h2, rfl⟩
      obtain ⟨n, hn, hnp, hncc, hmem⟩ := exists_seed_below hw (t.length + 1) nx h1 h2 (by omega)
      exact ⟨n, mem_seeds.mpr ⟨hn, hnp, hncc⟩, hmem⟩
  · show List.Pairwise (· ≠ ·) _
    rw [List.pairwise_flatMap]
    constructor
    · intro n hn
      obtain ⟨h1, h2, _⟩ := mem_seeds.mp hn
      obtain ⟨mid, last, e, hs⟩ := segOf_spec hw h1 h2
      rw [e, SmallSeg.dropLast_eq]
      exact hs.nodup hw
    · have hp : t.Pairwise (fun a b => a.id ≠ b.id) := by
        have := hw.1; unfold ids at this
        exact List.pairwise_map.mp this
      refine List.Pairwise.imp_of_mem ?_ (hp.filter _)
      intro n1 n2 hn1 hn2 hne x hx1 y hx2 hxy
      obtain ⟨h1, h2, h3⟩ := mem_seeds.mp hn1
      obtain ⟨h1', h2', h3'⟩ := mem_seeds.mp hn2
      obtain ⟨mid, last, e, hs⟩ := segOf_spec hw h1 h2
      obtain ⟨mid', last', e', hs'⟩ := segOf_spec hw h1' h2'
      rw [e, SmallSeg.dropLast_eq] at hx1
      rw [e', SmallSeg.dropLast_eq] at hx2
      rw [← hxy] at hx2
      exact hne ((hs.slabUp x hx1).unique (hs'.slabUp x hx2) h3 h3')

/-- **Shape of the small segments**: child→parent paths of at least two nodes from a non-root
leaf/branch point to the first branch point or root above it, with only slabs in between. -/
theorem smallSegments_shape {t : Table} (hw : WF t) : ∀ s ∈ smallSegments t,
    (isParentPath t s && decide (s.length > 1) &&
    (match s.head? with
      | some h => (match find? t h with | some n => !(decide (n.parent < 0)) && childCount t h != 1 | none => false)
      | none => false) &&
    (match s.getLast? with | some l => isBranchOrRoot t l | none => false) &&
    (s.drop 1).dropLast.all (fun i => childCount t i == 1 && !isBranchOrRoot t i)) = true := by
  intro s hs
  rw [smallSegments_eq] at hs
  obtain ⟨n, hn, rfl⟩ := List.mem_map.mp hs
  obtain ⟨h1, h2, h3⟩ := mem_seeds.mp hn
  obtain ⟨mid, last, e, hseg⟩ := segOf_spec hw h1 h2
  have hpp : isParentPath t (segOf t n.id) = true := by
    rw [e]; exact Linked_isParentPath _ (by simp) hseg.linked
  have hlen : decide ((segOf t n.id).length > 1) = true := by simpa using segOf_length hw h1 h2
  have hhead : (segOf t n.id).head? = some n.id := rfl
  have hlast : (segOf t n.id).getLast? = some last := by
    rw [e]; exact List.getLast?_concat
  have hdrop : ((segOf t n.id).drop 1).dropLast = mid := by
    rw [e]; show (mid ++ [last]).dropLast = mid; exact List.dropLast_concat
  rw [hpp, hlen, hhead, hlast, hdrop]
  simp only [find?_of_mem hw.1 h1, hseg.stop, Bool.true_and, Bool.and_eq_true, List.all_eq_true]
  refine ⟨by simpa using ⟨by omega, h3⟩, ?_⟩
  intro x hx
  obtain ⟨hc, hns⟩ := hseg.mid_slab x hx
  simp [hc, hns]

theorem smallSegments_ok {t : Table} (hw : WF t) : smallSegmentsOKB t (smallSegments t) = true := by
  unfold smallSegmentsOKB
  rw [Bool.and_eq_true, List.all_eq_true]
  exact ⟨smallSegments_shape hw, coversEdgesOnce_of_perm (smallSegments_cover hw)⟩

/-! ### greedy segments: structure of the definition, ordering, isolated nodes -/

def leafIds (t : Table) : List Int := (t.filter fun n => !isRootNode n && childCount t n.id == 0).map (·.id)

def isolatedIds (t : Table) : List Int := (t.filter fun n => isRootNode n && childCount t n.id == 0).map (·.id)

def greedyStep (t : Table) (acc : List (List Int) × List Int) (l : Int) : List (List Int) × List Int :=
  ((acc.1 ++ [l :: (walkSeen t (t.length + 1) l acc.2).1]), (walkSeen t (t.length + 1) l acc.2).2)

/-- The leafs in the order in which `segments` processes them. -/
def sortedLeafs (t : Table) (len : Int → Int → Nat) : List Int :=
  sortBy (fun y x => decide (distToRoot t len x ≤ distToRoot t len y)) (leafIds t)

def greedySeqs (t : Table) (leafs : List Int) : List (List Int) := (leafs.foldl (greedyStep t) ([], [])).1

def segLt (len : Int → Int → Nat) (y x : List Int) : Bool :=
  decide (pathLen len x < pathLen len y) || (pathLen len x == pathLen len y && !lexLt y x)

theorem segments_eq (t : Table) (len : Int → Int → Nat) :
    segments t len =
      sortBy (segLt len) ((greedySeqs t (sortedLeafs t len)).filter fun s => s.length > 1) ++
        (isolatedIds t).map fun i => [i] := by
  unfold isolatedIds
  rw [List.map_map]
  rfl

theorem nonIncreasing_of_pairwise : ∀ (l : List Nat), l.Pairwise (fun a b => b ≤ a) → nonIncreasing l = true
  | [], _ => rfl
  | [_], _ => rfl
  | a :: b :: rest, h => by
    rw [List.pairwise_cons] at h
    simp only [nonIncreasing, Bool.and_eq_true, decide_eq_true_eq]
    exact ⟨h.1 b List.mem_cons_self, nonIncreasing_of_pairwise (b :: rest) h.2⟩

theorem sortBy_segLt_pairwise (len : Int → Int → Nat) (l : List (List Int)) :
    (sortBy (segLt len) l).Pairwise (fun a b => pathLen len b ≤ pathLen len a) := by
  apply sortBy_pairwise
  · intro a b c h1 h2; omega
  · intro y x h
    unfold segLt at h
    simp only [Bool.or_eq_true, decide_eq_true_eq, Bool.and_eq_true, beq_iff_eq] at h
    rcases h with h | h
    · omega
    · omega
  · intro y x h
    unfold segLt at h
    simp only [Bool.or_eq_false_iff, decide_eq_false_iff_not] at h
    omega

/-- **`segments` is sorted longest first** (the single-node segments of isolated nodes, of length 0, last). -/
theorem segments_nonIncreasing (t : Table) (len : Int → Int → Nat) :
    nonIncreasing ((segments t len).map (pathLen len)) = true := by
  apply nonIncreasing_of_pairwise
  rw [segments_eq, List.map_append, List.pairwise_append]
  refine ⟨List.pairwise_map.mpr (sortBy_segLt_pairwise len _), ?_, ?_⟩
  · rw [List.map_map]
    apply List.pairwise_map.mpr
    apply List.pairwise_of_forall
    intro x y
    show pathLen len [y] ≤ _
    rw [pathLen_single]; exact Nat.zero_le _
  · intro a _ b hb
    rw [List.map_map] at hb
    obtain ⟨i, _, rfl⟩ := List.mem_map.mp hb
    show pathLen len [i] ≤ _
    rw [pathLen_single]; exact Nat.zero_le _

theorem mem_sortBy {α} (lt : α → α → Bool) (l : List α) (z : α) : z ∈ sortBy lt l ↔ z ∈ l :=
  (sortBy_perm lt l).mem_iff

theorem flatten_map_singleton (l : List Int) : (l.map fun i => [i]).flatten = l := by
  induction l with
  | nil => rfl
  | cons a l ih => simp [ih]

/-- The multi-node part and the single-node part of `segments`. -/
theorem segments_filter_long (t : Table) (len : Int → Int → Nat) :
    ((segments t len).filter fun s => s.length > 1) =
      sortBy (segLt len) ((greedySeqs t (sortedLeafs t len)).filter fun s => s.length > 1) := by
  rw [segments_eq, List.filter_append]
  have h1 : ((sortBy (segLt len) ((greedySeqs t (sortedLeafs t len)).filter fun s => s.length > 1)).filter
      fun s => s.length > 1) = sortBy (segLt len) ((greedySeqs t (sortedLeafs t len)).filter fun s => s.length > 1) := by
    rw [List.filter_eq_self]
    intro s hs
    rw [mem_sortBy] at hs
    exact (List.mem_filter.mp hs).2
  have h2 : (((isolatedIds t).map fun i => [i]).filter fun s => s.length > 1) = [] := by
    rw [List.filter_eq_nil_iff]
    intro s hs
    obtain ⟨i, _, rfl⟩ := List.mem_map.mp hs
    simp
  rw [h1, h2, List.append_nil]

theorem segments_filter_single (t : Table) (len : Int → Int → Nat) :
    ((segments t len).filter fun s => s.length == 1) = (isolatedIds t).map fun i => [i] := by
  rw [segments_eq, List.filter_append]
  have h1 : ((sortBy (segLt len) ((greedySeqs t (sortedLeafs t len)).filter fun s => s.length > 1)).filter
      fun s => s.length == 1) = [] := by
    rw [List.filter_eq_nil_iff]
    intro s hs
    rw [mem_sortBy] at hs
    have := (List.mem_filter.mp hs).2
    simp only [decide_eq_true_eq] at this
    simp; omega
  have h2 : (((isolatedIds t).map fun i => [i]).filter fun s => s.length == 1) = (isolatedIds t).map fun i => [i] := by
    rw [List.filter_eq_self]
    intro s hs
    obtain ⟨i, _, rfl⟩ := List.mem_map.mp hs
    simp
  rw [h1, h2, List.nil_append]

/-- **The single-node segments are exactly the isolated nodes** (childless roots), in table order. -/
theorem segments_single_eq_isolated (t : Table) (len : Int → Int → Nat) :
    ((segments t len).filter fun s => s.length == 1).flatten = isolatedIds t := by
  rw [segments_filter_single, flatten_map_singleton]

/-! ### greedy segments: one walk -/

/-- Every non-last node of a linked list has its successor as parent. -/
theorem Linked_next_mem {t : Table} : ∀ (L : List Int) (a last : Int), Linked t (a :: L ++ [last]) →
    ∀ x ∈ a :: L, ∃ n, find? t x = some n ∧ ¬ n.parent < 0 ∧ n.parent ∈ L ++ [last] := by
  intro L
  induction L with
  | nil =>
    intro a last h x hx
    simp at hx
    obtain ⟨n, h1, h2, h3⟩ := h.1
    exact ⟨n, hx ▸ h1, by omega, by simp [h2]⟩
  | cons b L ih =>
    intro a last h x hx
    rcases List.mem_cons.mp hx with e | e
    · obtain ⟨n, h1, h2, h3⟩ := h.1
      exact ⟨n, e ▸ h1, by omega, by simp [h2]⟩
    · obtain ⟨n, h1, h2, h3⟩ := ih b last h.2 x e
      exact ⟨n, h1, h2, List.mem_cons_of_mem _ h3⟩

theorem walkSeen_root {t : Table} {i : Int} {n : Node} (hf : find? t i = some n) (hp : n.parent < 0) (fuel : Nat)
    (seen : List Int) : walkSeen t (fuel + 1) i seen = ([], seen) := by
  unfold walkSeen; rw [hf]; simp [hp]

/-- One greedy walk from `i` with `seen` already visited: it emits `mid ++ [last]` and returns `seen'`. -/
structure GreedySeg (t : Table) (seen : List Int) (i : Int) (mid : List Int) (last : Int) (seen' : List Int) : Prop where
  path : rootPath t i = (i :: mid) ++ rootPath t last
  hlast : last ∈ ids t
  fresh : ∀ x ∈ mid, x ∉ seen
  stop : last ∈ seen ∨ ∃ n, find? t last = some n ∧ n.parent < 0
  seen_iff : ∀ x, x ∈ seen' ↔ x ∈ mid ∨ x = last ∨ x ∈ seen

theorem walkSeen_spec {t : Table} (hw : WF t) :
    ∀ (fuel : Nat) (i : Int) (n : Node) (seen : List Int), find? t i = some n → ¬ n.parent < 0 →
      (rootPath t i).length ≤ fuel →
      ∃ mid last, (walkSeen t fuel i seen).1 = mid ++ [last] ∧
        GreedySeg t seen i mid last (walkSeen t fuel i seen).2 := by
  intro fuel
  induction fuel with
  | zero =>
    intro i n seen hf _ hlen
    obtain ⟨rest, hr⟩ := rootPath_cons (mem_ids.mpr ⟨n, find?_some hf⟩)
    rw [hr] at hlen; simp at hlen
  | succ fuel ih =>
    intro i n seen hf hp hlen
    have hn := find?_some hf
    have e := rootPath_of_nonroot hw hf hp
    have hpm := WF_parent_mem hw hn.1 hp
    have hlen' : (rootPath t n.parent).length ≤ fuel := by rw [e] at hlen; simpa using hlen
    unfold walkSeen
    rw [hf]
    simp only [if_neg hp]
    by_cases hseen : n.parent ∈ seen
    · have : seen.contains n.parent = true := by simpa using hseen
      simp only [this, if_true]
      exact ⟨[], n.parent, rfl, by rw [e]; rfl, hpm, by simp, Or.inl hseen, by
        intro x; constructor
        · intro h; exact Or.inr (Or.inr h)
        · rintro (h | h | h)
          · simp at h
          · rw [h]; exact hseen
          · exact h⟩
    · have : seen.contains n.parent = false := by simpa using hseen
      simp only [this, Bool.false_eq_true, if_false]
      obtain ⟨pn, hpn, hpid⟩ := mem_ids.mp hpm
      have hfp : find? t n.parent = some pn := hpid ▸ find?_of_mem hw.1 hpn
      by_cases hpp : pn.parent < 0
      · -- the parent is a root that had not been seen: the walk ends there
        obtain ⟨rest, hr⟩ := rootPath_cons hpm
        have hfuel : ∃ f, fuel = f + 1 := by
          cases fuel with
          | zero => rw [hr] at hlen'; simp at hlen'
          | succ f => exact ⟨f, rfl⟩
        obtain ⟨f, rfl⟩ := hfuel
        rw [walkSeen_root hfp hpp]
        exact ⟨[], n.parent, rfl, by rw [e]; rfl, hpm, by simp, Or.inr ⟨pn, hfp, hpp⟩, by
          intro x; simp⟩
      · obtain ⟨mid, last, h1, hs⟩ := ih n.parent pn (n.parent :: seen) hfp hpp hlen'
        have hne : last ≠ n.parent := by
          intro he
          have hnd := rootPath_nodup hw n.parent
          rw [hs.path, he] at hnd
          have h2 : n.parent ∈ mid ++ rootPath t n.parent := List.mem_append_right _ (rootPath_head_mem hpm)
          exact (List.nodup_cons.mp hnd).1 h2
        refine ⟨n.parent :: mid, last, by rw [h1]; rfl, ?_, hs.hlast, ?_, ?_, ?_⟩
        · rw [e, hs.path]; rfl
        · intro x hx
          rcases List.mem_cons.mp hx with h | h
          · rw [h]; exact hseen
          · exact fun hx' => hs.fresh x h (List.mem_cons_of_mem _ hx')
        · rcases hs.stop with h | h
          · rcases List.mem_cons.mp h with h' | h'
            · exact absurd h' hne
            · exact Or.inl h'
          · exact Or.inr h
        · intro x
          rw [hs.seen_iff x]
          simp only [List.mem_cons]
          constructor
          · rintro (h | h | h | h)
            · exact Or.inl (Or.inr h)
            · exact Or.inr (Or.inl h)
            · exact Or.inl (Or.inl h)
            · exact Or.inr (Or.inr h)
          · rintro ((h | h) | h | h)
            · exact Or.inr (Or.inr (Or.inl h))
            · exact Or.inl h
            · exact Or.inr (Or.inl h)
            · exact Or.inr (Or.inr (Or.inr h))

namespace GreedySeg
variable {t : Table} {seen : List Int} {i : Int} {mid : List Int} {last : Int} {seen' : List Int}

theorem linked (h : GreedySeg t seen i mid last seen') : Linked t (i :: mid ++ [last]) := by
  obtain ⟨rest, hr⟩ := rootPath_cons h.hlast
  have := rootPath_linked t i
  rw [h.path, hr] at this
  have e : (i :: mid) ++ last :: rest = (i :: mid ++ [last]) ++ rest := by simp
  rw [e] at this
  exact Linked_prefix _ _ this

theorem nodup (h : GreedySeg t seen i mid last seen') (hw : WF t) : (i :: mid).Nodup := by
  have := rootPath_nodup hw i
  rw [h.path, List.nodup_append] at this
  exact this.1

end GreedySeg

/-- In an upward-closed set, all ancestors of a member are members. -/
theorem closed_rootPath {t : Table} (hw : WF t) (seen : List Int)
    (hcl : ∀ n ∈ t, n.id ∈ seen → ¬ n.parent < 0 → n.parent ∈ seen) :
    ∀ i ∈ ids t, i ∈ seen → ∀ x ∈ rootPath t i, x ∈ seen := by
  refine WF_induct hw (fun i => i ∈ seen → ∀ x ∈ rootPath t i, x ∈ seen) ?_
  intro n hn hcase hs x hx
  have hf := find?_of_mem hw.1 hn
  by_cases hp : n.parent < 0
  · rw [rootPath_of_root hf hp] at hx
    simp at hx; rw [hx]; exact hs
  · rw [rootPath_of_nonroot hw hf hp] at hx
    rcases List.mem_cons.mp hx with h | h
    · rw [h]; exact hs
    · rcases hcase with hc | hc
      · exact absurd hc hp
      · exact hc (hcl n hn hs hp) x h

/-! ### greedy segments: the invariant of the fold over the leafs -/

/-- State of the greedy fold after the leafs `done`: `acc` are the segments so far, `seen` the visited
inner nodes. -/
structure GInv (t : Table) (done : List Int) (acc : List (List Int)) (seen : List Int) : Prop where
  pp : ∀ s ∈ acc, isParentPath t s = true ∧ s.length > 1
  nodup : (acc.flatMap fun s => s.dropLast).Nodup
  mem : ∀ x, x ∈ (acc.flatMap fun s => s.dropLast) ↔
    x ∈ done ∨ (x ∈ seen ∧ ∃ n, find? t x = some n ∧ ¬ n.parent < 0)
  closed : ∀ n ∈ t, n.id ∈ seen → ¬ n.parent < 0 → n.parent ∈ seen
  inner : ∀ x ∈ seen, 0 < childCount t x ∧ x ∈ ids t
  anc : ∀ l ∈ done, ∀ x ∈ (rootPath t l).tail, x ∈ seen
  leaf : ∀ l ∈ done, childCount t l = 0

theorem GInv.init (t : Table) : GInv t [] [] [] :=
  ⟨by simp, by simp, by simp, by simp, by simp, by simp, by simp⟩

theorem GInv.step {t : Table} (hw : WF t) {done : List Int} {acc : List (List Int)} {seen : List Int}
    (h : GInv t done acc seen) {nl : Node} (hnl : nl ∈ t) (hp : ¬ nl.parent < 0) (hcc : childCount t nl.id = 0)
    (hnd : nl.id ∉ done) :
    GInv t (done ++ [nl.id]) (greedyStep t (acc, seen) nl.id).1 (greedyStep t (acc, seen) nl.id).2 := by
  have hf := find?_of_mem hw.1 hnl
  have hlen : (rootPath t nl.id).length ≤ t.length + 1 := by
    have := rootPath_length_le hw nl.id; omega
  obtain ⟨mid, last, h1, hs⟩ := walkSeen_spec hw (t.length + 1) nl.id nl seen hf hp hlen
  unfold greedyStep
  simp only []
  rw [h1]
  generalize (walkSeen t (t.length + 1) nl.id seen).2 = seen' at hs ⊢
  have hnext := Linked_next_mem mid nl.id last hs.linked
  have hpos := Linked_childCount_pos nl.id (mid ++ [last]) hs.linked
  have hids : ∀ x ∈ mid ++ [last], x ∈ ids t := by
    intro x hx
    rcases List.mem_append.mp hx with h' | h'
    · apply rootPath_sub (i := nl.id)
      rw [hs.path]; exact List.mem_append_left _ (List.mem_cons_of_mem _ h')
    · simp at h'; rw [h']; exact hs.hlast
  have hflat : ((acc ++ [nl.id :: (mid ++ [last])]).flatMap fun s => s.dropLast) =
      (acc.flatMap fun s => s.dropLast) ++ (nl.id :: mid) := by
    rw [List.flatMap_append]
    simp only [List.flatMap_cons, List.flatMap_nil, List.append_nil]
    rw [show nl.id :: (mid ++ [last]) = nl.id :: mid ++ [last] from rfl, SmallSeg.dropLast_eq]
  have hlast_nr : (∃ n, find? t last = some n ∧ ¬ n.parent < 0) → last ∈ seen := by
    rintro ⟨n, hn1, hn2⟩
    rcases hs.stop with h' | ⟨n', hn1', hn2'⟩
    · exact h'
    · rw [hn1] at hn1'; simp only [Option.some.injEq] at hn1'; exact absurd (hn1' ▸ hn2') hn2
  refine ⟨?_, ?_, ?_, ?_, ?_, ?_, ?_⟩
  · intro s hs'
    rcases List.mem_append.mp hs' with h' | h'
    · exact h.pp s h'
    · simp only [List.mem_singleton] at h'
      rw [h']
      exact ⟨Linked_isParentPath _ (by simp) hs.linked, by simp⟩
  · rw [hflat, List.nodup_append]
    refine ⟨h.nodup, hs.nodup hw, ?_⟩
    intro x hx y hy hxy
    rw [hxy] at hx
    rcases (h.mem y).mp hx with h' | ⟨h', _⟩
    · rcases List.mem_cons.mp hy with e | e
      · exact hnd (e ▸ h')
      · have := hpos y (List.mem_append_left _ e)
        have := h.leaf y h'
        omega
    · rcases List.mem_cons.mp hy with e | e
      · have := (h.inner y h').1
        rw [e] at this; omega
      · exact hs.fresh y e h'
  · intro x
    rw [hflat, List.mem_append, h.mem x, hs.seen_iff x]
    constructor
    · rintro ((h' | ⟨h', hn⟩) | h')
      · exact Or.inl (List.mem_append_left _ h')
      · exact Or.inr ⟨Or.inr (Or.inr h'), hn⟩
      · rcases List.mem_cons.mp h' with e | e
        · exact Or.inl (List.mem_append_right _ (by simp [e]))
        · obtain ⟨n, hn1, hn2, _⟩ := hnext x h'
          exact Or.inr ⟨Or.inl e, n, hn1, hn2⟩
    · rintro (h' | ⟨h' | h' | h', hn⟩)
      · rcases List.mem_append.mp h' with e | e
        · exact Or.inl (Or.inl e)
        · simp at e; exact Or.inr (by simp [e])
      · exact Or.inr (List.mem_cons_of_mem _ h')
      · left; right
        subst h'
        exact ⟨hlast_nr hn, hn⟩
      · exact Or.inl (Or.inr ⟨h', hn⟩)
  · intro n hn hns hnp
    rw [hs.seen_iff] at hns ⊢
    have hfn := find?_of_mem hw.1 hn
    rcases hns with h' | h' | h'
    · obtain ⟨n', hn1, _, hn3⟩ := hnext n.id (List.mem_cons_of_mem _ h')
      rw [hfn] at hn1; simp only [Option.some.injEq] at hn1
      rw [← hn1] at hn3
      rcases List.mem_append.mp hn3 with e | e
      · exact Or.inl e
      · simp at e; exact Or.inr (Or.inl e)
    · right; right
      exact h.closed n hn (h' ▸ hlast_nr ⟨n, h' ▸ hfn, hnp⟩) hnp
    · right; right
      exact h.closed n hn h' hnp
  · intro x hx
    rcases (hs.seen_iff x).mp hx with h' | h' | h'
    · exact ⟨hpos x (List.mem_append_left _ h'), hids x (List.mem_append_left _ h')⟩
    · exact ⟨hpos x (List.mem_append_right _ (by simp [h'])), hids x (List.mem_append_right _ (by simp [h']))⟩
    · exact h.inner x h'
  · intro l hl x hx
    rw [hs.seen_iff]
    rcases List.mem_append.mp hl with e | e
    · exact Or.inr (Or.inr (h.anc l e x hx))
    · simp at e
      rw [e, hs.path] at hx
      simp only [List.cons_append, List.tail_cons] at hx
      rcases List.mem_append.mp hx with h' | h'
      · exact Or.inl h'
      · -- an ancestor-or-self of the stop node
        rcases hs.stop with hst | ⟨n, hn1, hn2⟩
        · exact Or.inr (Or.inr (closed_rootPath hw seen h.closed last hs.hlast hst x h'))
        · rw [rootPath_of_root hn1 hn2] at h'
          simp at h'; exact Or.inr (Or.inl h')
  · intro l hl
    rcases List.mem_append.mp hl with e | e
    · exact h.leaf l e
    · simp at e; rw [e]; exact hcc

theorem GInv.foldl {t : Table} (hw : WF t) :
    ∀ (ls done : List Int) (acc : List (List Int)) (seen : List Int), GInv t done acc seen →
      (∀ l ∈ ls, ∃ n ∈ t, n.id = l ∧ ¬ n.parent < 0 ∧ childCount t n.id = 0) → (done ++ ls).Nodup →
      GInv t (done ++ ls) (ls.foldl (greedyStep t) (acc, seen)).1 (ls.foldl (greedyStep t) (acc, seen)).2 := by
  intro ls
  induction ls with
  | nil => intro done acc seen h _ _; simpa using h
  | cons l ls ih =>
    intro done acc seen h hl hnd
    obtain ⟨n, hn, rfl, hp, hcc⟩ := hl l List.mem_cons_self
    have hnot : n.id ∉ done := by
      intro hm
      rw [List.nodup_append] at hnd
      exact hnd.2.2 n.id hm n.id List.mem_cons_self rfl
    have hstep := h.step hw hn hp hcc hnot
    have e : done ++ n.id :: ls = (done ++ [n.id]) ++ ls := by simp
    rw [List.foldl_cons, e]
    exact ih (done ++ [n.id]) _ _ hstep (fun l' hl' => hl l' (List.mem_cons_of_mem _ hl')) (e ▸ hnd)

/-! ### greedy segments: the edge partition -/

theorem mem_leafIds {t : Table} {x : Int} :
    x ∈ leafIds t ↔ ∃ n ∈ t, n.id = x ∧ ¬ n.parent < 0 ∧ childCount t n.id = 0 := by
  unfold leafIds
  simp only [List.mem_map, List.mem_filter, isRootNode, Bool.and_eq_true, Bool.not_eq_true', decide_eq_false_iff_not,
    beq_iff_eq]
  constructor
  · rintro ⟨n, ⟨h1, h2, h3⟩, h4⟩; exact ⟨n, h1, h4, h2, h3⟩
  · rintro ⟨n, h1, h4, h2, h3⟩; exact ⟨n, ⟨h1, h2, h3⟩, h4⟩

theorem leafIds_nodup {t : Table} (hnd : (ids t).Nodup) : (leafIds t).Nodup :=
  hnd.sublist (List.filter_sublist.map _)

/-- Below every non-root node there is a non-root leaf. -/
theorem exists_leaf_below {t : Table} (hw : WF t) :
    ∀ (k : Nat) (x : Node), x ∈ t → ¬ x.parent < 0 → t.length < (rootPath t x.id).length + k →
      ∃ l ∈ t, ¬ l.parent < 0 ∧ childCount t l.id = 0 ∧ x.id ∈ rootPath t l.id := by
  intro k
  induction k with
  | zero =>
    intro x _ _ hk
    have := rootPath_length_le hw x.id
    omega
  | succ k ih =>
    intro x hx hp hk
    by_cases hcc : childCount t x.id = 0
    · exact ⟨x, hx, hp, hcc, rootPath_head_mem (mem_ids_of_mem hx)⟩
    · obtain ⟨c, hc, hcp⟩ := exists_child_of_pos (t := t) (i := x.id) (by omega)
      have hcnr : ¬ c.parent < 0 := by rw [hcp]; have := hw.2.1 x hx; omega
      have e := rootPath_of_nonroot hw (find?_of_mem hw.1 hc) hcnr
      have hk' : t.length < (rootPath t c.id).length + k := by
        rw [e, hcp]; simp only [List.length_cons]; omega
      obtain ⟨l, hl, hlp, hlcc, hmem⟩ := ih c hc hcnr hk'
      refine ⟨l, hl, hlp, hlcc, ?_⟩
      have hsuf := rootPath_suffix hw l.id (mem_ids_of_mem hl) c.id hmem
      apply hsuf.subset
      rw [e, hcp]
      exact List.mem_cons_of_mem _ (rootPath_head_mem (mem_ids_of_mem hx))

theorem greedySeqs_spec {t : Table} (hw : WF t) (len : Int → Int → Nat) :
    (∀ s ∈ greedySeqs t (sortedLeafs t len), isParentPath t s = true ∧ s.length > 1) ∧
    ((greedySeqs t (sortedLeafs t len)).flatMap fun s => s.dropLast).Perm
      ((t.filter fun n => !isRootNode n).map (·.id)) := by
  have hperm : (sortedLeafs t len).Perm (leafIds t) := sortBy_perm _ _
  have hnd : ([] ++ sortedLeafs t len).Nodup := by
    rw [List.nil_append]; exact hperm.nodup_iff.mpr (leafIds_nodup hw.1)
  have hleaf : ∀ l ∈ sortedLeafs t len, ∃ n ∈ t, n.id = l ∧ ¬ n.parent < 0 ∧ childCount t n.id = 0 :=
    fun l hl => mem_leafIds.mp (hperm.mem_iff.mp hl)
  have hinv := GInv.foldl hw (sortedLeafs t len) [] [] [] (GInv.init t) hleaf hnd
  rw [List.nil_append] at hinv
  refine ⟨hinv.pp, ?_⟩
  apply (List.perm_ext_iff_of_nodup hinv.nodup (nonroot_ids_nodup hw.1)).mpr
  intro x
  show x ∈ (((sortedLeafs t len).foldl (greedyStep t) ([], [])).1.flatMap fun s => s.dropLast) ↔ _
  rw [hinv.mem x, mem_nonroot_ids]
  constructor
  · rintro (h | ⟨_, n, hn1, hn2⟩)
    · obtain ⟨n, hn, h1, h2, _⟩ := hleaf x h
      exact ⟨n, hn, h2, h1⟩
    · exact ⟨n, (find?_some hn1).1, hn2, (find?_some hn1).2⟩
  · rintro ⟨nx, hnx, hp, rfl⟩
    by_cases hcc : childCount t nx.id = 0
    · left
      exact hperm.mem_iff.mpr (mem_leafIds.mpr ⟨nx, hnx, rfl, hp, hcc⟩)
    · right
      refine ⟨?_, nx, find?_of_mem hw.1 hnx, hp⟩
      obtain ⟨l, hl, hlp, hlcc, hmem⟩ := exists_leaf_below hw (t.length + 1) nx hnx hp (by omega)
      have hl' : l.id ∈ sortedLeafs t len := hperm.mem_iff.mpr (mem_leafIds.mpr ⟨l, hl, rfl, hlp, hlcc⟩)
      apply hinv.anc l.id hl'
      obtain ⟨rest, hr⟩ := rootPath_cons (mem_ids_of_mem hl)
      rw [hr] at hmem ⊢
      rcases List.mem_cons.mp hmem with e | e
      · rw [e] at hcc; exact absurd hlcc hcc
      · exact e

/-- **`segments` is correct**: child→parent paths that partition the edges, longest first, isolated
nodes last. -/
theorem segments_ok {t : Table} (hw : WF t) (len : Int → Int → Nat) : segmentsOKB t len (segments t len) = true := by
  obtain ⟨hpp, hperm⟩ := greedySeqs_spec hw len
  have hfil : ((greedySeqs t (sortedLeafs t len)).filter fun s => s.length > 1) = greedySeqs t (sortedLeafs t len) := by
    rw [List.filter_eq_self]
    intro s hs; simpa using (hpp s hs).2
  unfold segmentsOKB
  simp only [Bool.and_eq_true, List.all_eq_true, beq_iff_eq]
  refine ⟨⟨⟨?_, ?_⟩, segments_nonIncreasing t len⟩, ?_⟩
  · intro s hs
    rw [segments_eq, List.mem_append] at hs
    rcases hs with h | h
    · rw [mem_sortBy, hfil] at h
      exact (hpp s h).1
    · obtain ⟨i, _, rfl⟩ := List.mem_map.mp h
      rfl
  · apply coversEdgesOnce_of_perm
    rw [segments_filter_long, hfil]
    exact ((sortBy_perm _ _).flatMap_right _).trans hperm
  · rw [segments_single_eq_isolated]; rfl

end Navis.Forest
