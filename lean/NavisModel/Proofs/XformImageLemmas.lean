import NavisModel.Model.XformImage
import NavisModel.Model.XformSpec
import NavisModel.Proofs.XformLemmas
import Mathlib.Tactic.Ring
import Mathlib.Tactic.FieldSimp
import Mathlib.Tactic.Linarith
/-! Helper lemmas for the image path of C16 (`Model/XformImage.lean`): inverse of an affine map and of a
sequence, index ↔ world arithmetic, tri-linear sampling at integer positions, bounding box of an axis-aligned
positive map, soundness of the run-time checkers. -/
namespace Navis.XformImage
open Navis.Xform

/-! ## affine inverse -/

theorem det_def (T : Aff) : T.det =
    T.a11 * (T.a22 * T.a33 - T.a23 * T.a32) - T.a12 * (T.a21 * T.a33 - T.a23 * T.a31)
      + T.a13 * (T.a21 * T.a32 - T.a22 * T.a31) := rfl

theorem inv_apply_apply (T : Aff) (h : T.det ≠ 0) (p : V3) : (inv T).apply (T.apply p) = p := by
  have hdef : T.det = _ := det_def T
  apply V3.ext' <;> simp only [Aff.apply, inv, invWith] <;> generalize T.det = d at * <;>
    field_simp <;> subst hdef <;> ring

theorem apply_inv_apply (T : Aff) (h : T.det ≠ 0) (p : V3) : T.apply ((inv T).apply p) = p := by
  have hdef : T.det = _ := det_def T
  apply V3.ext' <;> simp only [Aff.apply, inv, invWith] <;> generalize T.det = d at * <;>
    field_simp <;> subst hdef <;> ring

/-! ## sequences -/

theorem seqApply_cons (T : Aff) (ts : List Aff) (p : V3) : seqApply (T :: ts) p = seqApply ts (T.apply p) := rfl

theorem negSeq_cons (T : Aff) (ts : List Aff) : negSeq (T :: ts) = negSeq ts ++ [inv T] := by
  simp [negSeq, negSeqWith]

theorem negSeq_append (ts us : List Aff) : negSeq (ts ++ us) = negSeq us ++ negSeq ts := by
  simp [negSeq, negSeqWith, List.reverse_append]

theorem invertible_iff (ts : List Aff) : invertible ts = true ↔ ∀ T ∈ ts, T.det ≠ 0 := by
  simp [invertible]

theorem negSeq_left (ts : List Aff) (h : ∀ T ∈ ts, T.det ≠ 0) (p : V3) :
    seqApply (negSeq ts) (seqApply ts p) = p := by
  induction ts generalizing p with
  | nil => rfl
  | cons T ts ih =>
    rw [negSeq_cons, seqApply_append, seqApply_single]
    show (inv T).apply (seqApply (negSeq ts) (seqApply ts (T.apply p))) = p
    rw [ih (fun U hU => h U (List.mem_cons_of_mem _ hU)), inv_apply_apply T (h T List.mem_cons_self)]

theorem negSeq_right (ts : List Aff) (h : ∀ T ∈ ts, T.det ≠ 0) (p : V3) :
    seqApply ts (seqApply (negSeq ts) p) = p := by
  induction ts generalizing p with
  | nil => rfl
  | cons T ts ih =>
    rw [negSeq_cons, seqApply_append, seqApply_single]
    show seqApply ts (T.apply ((inv T).apply (seqApply (negSeq ts) p))) = p
    rw [apply_inv_apply T (h T List.mem_cons_self), ih (fun U hU => h U (List.mem_cons_of_mem _ hU))]

/-- a left inverse of a sequence is THE inverse: two sequences with the same forward map have the same pull-back -/
theorem negSeq_unique (ts us : List Aff) (hts : ∀ T ∈ ts, T.det ≠ 0) (hus : ∀ T ∈ us, T.det ≠ 0)
    (heq : ∀ p, seqApply ts p = seqApply us p) (w : V3) : seqApply (negSeq ts) w = seqApply (negSeq us) w := by
  have h := negSeq_left us hus (seqApply (negSeq ts) w)
  rw [← heq, negSeq_right ts hts] at h
  exact h.symm

/-- the comprehension without `[::-1]` on two members: an inverse exactly when the members commute -/
theorem unreversed_pair_iff (A B : Aff) (hA : A.det ≠ 0) (hB : B.det ≠ 0) :
    (∀ p, seqApply (negSeqWith false [A, B]) (seqApply [A, B] p) = p)
      ↔ (∀ p, B.apply (A.apply p) = A.apply (B.apply p)) := by
  have e1 : ∀ q, seqApply (negSeqWith false [A, B]) q = (inv B).apply ((inv A).apply q) := fun _ => rfl
  have e2 : ∀ p, seqApply [A, B] p = B.apply (A.apply p) := fun _ => rfl
  constructor
  · intro h p
    have := h p
    rw [e1, e2] at this
    have h2 := congrArg (fun q => A.apply (B.apply q)) this
    simp only [apply_inv_apply B hB, apply_inv_apply A hA] at h2
    exact h2
  · intro h p
    rw [e1, e2, h p, inv_apply_apply A hA, inv_apply_apply B hB]

/-! ## index ↔ world arithmetic -/

theorem world_srcIndex (bwd : RowFn) (g : Img) (lo' tp idx : V3)
    (hx : g.pitch.x ≠ 0) (hy : g.pitch.y ≠ 0) (hz : g.pitch.z ≠ 0) :
    worldOf g.off g.pitch (srcIndex bwd g lo' tp idx) = bwd (worldOf lo' tp idx) := by
  apply V3.ext' <;> simp only [worldOf, srcIndex, cdiv, cmul, V3.add, V3.sub, bboxLo] <;> field_simp <;> ring

theorem srcIndex_of_world (bwd : RowFn) (g : Img) (lo' tp idx u : V3)
    (hx : g.pitch.x ≠ 0) (hy : g.pitch.y ≠ 0) (hz : g.pitch.z ≠ 0)
    (h : bwd (worldOf lo' tp idx) = worldOf g.off g.pitch u) : srcIndex bwd g lo' tp idx = u := by
  simp only [srcIndex, h]
  apply V3.ext' <;> simp only [worldOf, cdiv, cmul, V3.add, V3.sub, bboxLo] <;> field_simp <;> ring

/-! ## tri-linear sampling at integer positions -/

theorem tri_zero (val : Int → Int → Int → Rat) (i j k : Int) : tri val i j k 0 0 0 = val i j k := by
  simp only [tri]; ring

theorem inRange_int (n : Nat) (i : Int) (h0 : 0 ≤ i) (h1 : i < n) : inRange n (i : Rat) = true := by
  have a : (0 : Rat) ≤ (i : Rat) := by exact_mod_cast h0
  have b : (i : Rat) ≤ (n : Rat) - 1 := by
    have : i + 1 ≤ (n : Int) := h1
    have : ((i + 1 : Int) : Rat) ≤ ((n : Int) : Rat) := by exact_mod_cast this
    push_cast at this
    linarith
  simp [inRange, a, b]

theorem sample_int (val : Int → Int → Int → Rat) (nx ny nz : Nat) (i j k : Int)
    (hi : 0 ≤ i ∧ i < nx) (hj : 0 ≤ j ∧ j < ny) (hk : 0 ≤ k ∧ k < nz) :
    sample val nx ny nz (idxV i j k) = val i j k := by
  simp only [sample, idxV, inRange_int nx i hi.1 hi.2, inRange_int ny j hj.1 hj.2, inRange_int nz k hk.1 hk.2,
    Bool.and_self, if_true, Rat.floor_intCast, sub_self, tri_zero]

/-! ## bounding box of an axis-aligned, orientation-preserving map -/

theorem rmin_self (a : Rat) : rmin a a = a := by simp [rmin]
theorem rmin_left {a b : Rat} (h : a ≤ b) : rmin a b = a := by simp [rmin, h]
theorem rmax_self (a : Rat) : rmax a a = a := by simp [rmax]
theorem rmax_right {a b : Rat} (h : a ≤ b) : rmax a b = b := by simp [rmax, h]
theorem rmax_left {a b : Rat} (h : a ≤ b) : rmax b a = b := by
  unfold rmax
  split
  · next h' => exact le_antisymm h h'
  · rfl

theorem absRat_nonneg {r : Rat} (h : 0 ≤ r) : absRat r = r := by
  unfold absRat
  rw [if_neg (not_lt.mpr h)]

/-- `F p = (dx·x + tx, dy·y + ty, dz·z + tz)` on every point -/
def IsDiag (F : RowFn) (d t : V3) : Prop := ∀ p : V3, F p = ⟨d.x * p.x + t.x, d.y * p.y + t.y, d.z * p.z + t.z⟩

theorem bboxXf_diag (F : RowFn) (d t : V3) (hF : IsDiag F d t) (g : Img)
    (hd : 0 < d.x ∧ 0 < d.y ∧ 0 < d.z) (hp : 0 < g.pitch.x ∧ 0 < g.pitch.y ∧ 0 < g.pitch.z) :
    bboxXf F g = (F (bboxLo g), F (bboxHi g)) := by
  have hnx : (0 : Rat) ≤ (g.nx : Rat) := Nat.cast_nonneg _
  have hny : (0 : Rat) ≤ (g.ny : Rat) := Nat.cast_nonneg _
  have hnz : (0 : Rat) ≤ (g.nz : Rat) := Nat.cast_nonneg _
  have hx : d.x * (bboxLo g).x + t.x ≤ d.x * (bboxHi g).x + t.x := by
    have : (bboxLo g).x ≤ (bboxHi g).x := by
      simp only [bboxLo, bboxHi, V3.add, cmul, Img.shapeV]
      have := mul_nonneg hnx hp.1.le
      linarith
    have := mul_le_mul_of_nonneg_left this hd.1.le
    linarith
  have hy : d.y * (bboxLo g).y + t.y ≤ d.y * (bboxHi g).y + t.y := by
    have : (bboxLo g).y ≤ (bboxHi g).y := by
      simp only [bboxLo, bboxHi, V3.add, cmul, Img.shapeV]
      have := mul_nonneg hny hp.2.1.le
      linarith
    have := mul_le_mul_of_nonneg_left this hd.2.1.le
    linarith
  have hz : d.z * (bboxLo g).z + t.z ≤ d.z * (bboxHi g).z + t.z := by
    have : (bboxLo g).z ≤ (bboxHi g).z := by
      simp only [bboxLo, bboxHi, V3.add, cmul, Img.shapeV]
      have := mul_nonneg hnz hp.2.2.le
      linarith
    have := mul_le_mul_of_nonneg_left this hd.2.2.le
    linarith
  simp only [bboxXf, bboxOfPts, corners, List.map, hF _, minOf, maxOf, List.foldl,
    rmin_self, rmin_left hx, rmin_left hy, rmin_left hz,
    rmax_self, rmax_right hx, rmax_right hy, rmax_right hz, rmax_left hx, rmax_left hy]

theorem outOff_diag (F : RowFn) (d t : V3) (hF : IsDiag F d t) (g : Img)
    (hd : 0 < d.x ∧ 0 < d.y ∧ 0 < d.z) (hp : 0 < g.pitch.x ∧ 0 < g.pitch.y ∧ 0 < g.pitch.z) :
    outOff F g = F g.off := by
  simp only [outOff, bboxXf_diag F d t hF g hd hp, bboxLo]

theorem outPitch_diag (F : RowFn) (d t : V3) (hF : IsDiag F d t) (g : Img)
    (hd : 0 < d.x ∧ 0 < d.y ∧ 0 < d.z) (hp : 0 < g.pitch.x ∧ 0 < g.pitch.y ∧ 0 < g.pitch.z)
    (hn : 0 < g.nx ∧ 0 < g.ny ∧ 0 < g.nz) :
    outPitch F g = cmul d g.pitch := by
  have hnx : (0 : Rat) < (g.nx : Rat) := by exact_mod_cast hn.1
  have hny : (0 : Rat) < (g.ny : Rat) := by exact_mod_cast hn.2.1
  have hnz : (0 : Rat) < (g.nz : Rat) := by exact_mod_cast hn.2.2
  simp only [outPitch, bboxXf_diag F d t hF g hd hp, targetPitch, hF _, bboxLo, bboxHi, V3.add, cmul, Img.shapeV]
  have ex : (d.x * ((g.nx : Rat) * g.pitch.x + g.off.x) + t.x - (d.x * g.off.x + t.x)) / (g.nx : Rat)
      = d.x * g.pitch.x := by field_simp; ring
  have ey : (d.y * ((g.ny : Rat) * g.pitch.y + g.off.y) + t.y - (d.y * g.off.y + t.y)) / (g.ny : Rat)
      = d.y * g.pitch.y := by field_simp; ring
  have ez : (d.z * ((g.nz : Rat) * g.pitch.z + g.off.z) + t.z - (d.z * g.off.z + t.z)) / (g.nz : Rat)
      = d.z * g.pitch.z := by field_simp; ring
  rw [ex, ey, ez, absRat_nonneg (mul_pos hd.1 hp.1).le, absRat_nonneg (mul_pos hd.2.1 hp.2.1).le,
    absRat_nonneg (mul_pos hd.2.2 hp.2.2).le]

/-- for such a map the world position of target index `idx` is the forward image of the source position of `idx` -/
theorem world_diag (F : RowFn) (d t : V3) (hF : IsDiag F d t) (off pitch idx : V3) :
    worldOf (F off) (cmul d pitch) idx = F (worldOf off pitch idx) := by
  rw [hF off, hF (worldOf off pitch idx)]
  apply V3.ext' <;> simp only [worldOf, cmul, V3.add] <;> ring

/-! ## indices of a grid -/

theorem mem_allIdx (nx ny nz : Nat) (a b c : Nat) (ha : a < nx) (hb : b < ny) (hc : c < nz) :
    ((a : Int), (b : Int), (c : Int)) ∈ allIdx nx ny nz := by
  simp only [allIdx, List.mem_flatMap, List.mem_map, List.mem_range]
  exact ⟨a, ha, b, hb, c, hc, rfl⟩

theorem closeV3_zero {a b : V3} (h : closeV3 0 a b = true) : a = b := by
  simp only [closeV3, Bool.and_eq_true] at h
  exact V3.ext' (closeRat_zero h.1.1) (closeRat_zero h.1.2) (closeRat_zero h.2)

/-! ## mid-points do not change the bounding box of an affine image -/

theorem rmin_le_left (a b : Rat) : rmin a b ≤ a := by unfold rmin; split <;> linarith
theorem rmin_le_right (a b : Rat) : rmin a b ≤ b := by unfold rmin; split <;> linarith
theorem le_rmax_left (a b : Rat) : a ≤ rmax a b := by unfold rmax; split <;> linarith
theorem le_rmax_right (a b : Rat) : b ≤ rmax a b := by unfold rmax; split <;> linarith

theorem foldl_rmin_le_init (sel : V3 → Rat) (l : List V3) (m : Rat) :
    l.foldl (fun m p => rmin m (sel p)) m ≤ m := by
  induction l generalizing m with
  | nil => exact le_refl _
  | cons p ps ih => exact le_trans (ih _) (rmin_le_left _ _)

theorem foldl_rmin_le_mem (sel : V3 → Rat) (l : List V3) (m : Rat) (p : V3) (hp : p ∈ l) :
    l.foldl (fun m p => rmin m (sel p)) m ≤ sel p := by
  induction l generalizing m with
  | nil => cases hp
  | cons q qs ih =>
    rcases List.mem_cons.mp hp with h | h
    · subst h; exact le_trans (foldl_rmin_le_init sel qs _) (rmin_le_right _ _)
    · exact ih _ h

theorem minOf_le (sel : V3 → Rat) (d : V3) (l : List V3) (p : V3) (hp : p ∈ d :: l) : minOf sel d l ≤ sel p := by
  rcases List.mem_cons.mp hp with h | h
  · subst h; exact foldl_rmin_le_init sel l _
  · exact foldl_rmin_le_mem sel l _ p h

theorem foldl_rmin_absorb (sel : V3 → Rat) (e : List V3) (m : Rat) (h : ∀ q ∈ e, m ≤ sel q) :
    e.foldl (fun m p => rmin m (sel p)) m = m := by
  induction e with
  | nil => rfl
  | cons q qs ih =>
    have : rmin m (sel q) = m := rmin_left (h q List.mem_cons_self)
    simp only [List.foldl, this]
    exact ih fun q' hq' => h q' (List.mem_cons_of_mem _ hq')

theorem minOf_append (sel : V3 → Rat) (d : V3) (l e : List V3) (h : ∀ q ∈ e, ∃ p ∈ d :: l, sel p ≤ sel q) :
    minOf sel d (l ++ e) = minOf sel d l := by
  simp only [minOf, List.foldl_append]
  apply foldl_rmin_absorb
  intro q hq
  obtain ⟨p, hp, hpq⟩ := h q hq
  exact le_trans (minOf_le sel d l p hp) hpq

theorem foldl_rmax_ge_init (sel : V3 → Rat) (l : List V3) (m : Rat) :
    m ≤ l.foldl (fun m p => rmax m (sel p)) m := by
  induction l generalizing m with
  | nil => exact le_refl _
  | cons p ps ih => exact le_trans (le_rmax_left _ _) (ih _)

theorem foldl_rmax_ge_mem (sel : V3 → Rat) (l : List V3) (m : Rat) (p : V3) (hp : p ∈ l) :
    sel p ≤ l.foldl (fun m p => rmax m (sel p)) m := by
  induction l generalizing m with
  | nil => cases hp
  | cons q qs ih =>
    rcases List.mem_cons.mp hp with h | h
    · subst h; exact le_trans (le_rmax_right _ _) (foldl_rmax_ge_init sel qs _)
    · exact ih _ h

theorem le_maxOf (sel : V3 → Rat) (d : V3) (l : List V3) (p : V3) (hp : p ∈ d :: l) : sel p ≤ maxOf sel d l := by
  rcases List.mem_cons.mp hp with h | h
  · subst h; exact foldl_rmax_ge_init sel l _
  · exact foldl_rmax_ge_mem sel l _ p h

theorem foldl_rmax_absorb (sel : V3 → Rat) (e : List V3) (m : Rat) (h : ∀ q ∈ e, sel q ≤ m) :
    e.foldl (fun m p => rmax m (sel p)) m = m := by
  induction e with
  | nil => rfl
  | cons q qs ih =>
    have : rmax m (sel q) = m := rmax_left (h q List.mem_cons_self)
    simp only [List.foldl, this]
    exact ih fun q' hq' => h q' (List.mem_cons_of_mem _ hq')

theorem maxOf_append (sel : V3 → Rat) (d : V3) (l e : List V3) (h : ∀ q ∈ e, ∃ p ∈ d :: l, sel q ≤ sel p) :
    maxOf sel d (l ++ e) = maxOf sel d l := by
  simp only [maxOf, List.foldl_append]
  apply foldl_rmax_absorb
  intro q hq
  obtain ⟨p, hp, hpq⟩ := h q hq
  exact le_trans hpq (le_maxOf sel d l p hp)

theorem apply_mid (T : Aff) (a b : V3) : T.apply (mid a b) = mid (T.apply a) (T.apply b) := by
  apply V3.ext' <;> simp only [Aff.apply, mid] <;> ring

theorem seqApply_mid (ts : List Aff) (a b : V3) : seqApply ts (mid a b) = mid (seqApply ts a) (seqApply ts b) := by
  induction ts generalizing a b with
  | nil => rfl
  | cons T ts ih => rw [seqApply_cons, seqApply_cons, seqApply_cons, apply_mid, ih]

/-- one coordinate of a mid-point lies between the two end points -/
theorem mid_between (sel : V3 → Rat) (hsel : ∀ a b, sel (mid a b) = (sel a + sel b) / 2) (a b : V3) :
    (sel a ≤ sel (mid a b) ∨ sel b ≤ sel (mid a b)) ∧ (sel (mid a b) ≤ sel a ∨ sel (mid a b) ≤ sel b) := by
  rw [hsel]
  constructor
  · by_cases h : sel a ≤ sel b
    · left; linarith
    · right; linarith
  · by_cases h : sel a ≤ sel b
    · right; linarith
    · left; linarith

theorem bboxOfPts_mid (ts : List Aff) (p : V3) (ps : List V3) (pairs : List (V3 × V3))
    (hp : ∀ pr ∈ pairs, pr.1 ∈ p :: ps ∧ pr.2 ∈ p :: ps) :
    bboxOfPts (((p :: ps) ++ pairs.map fun pr => mid pr.1 pr.2).map (seqApply ts))
      = bboxOfPts ((p :: ps).map (seqApply ts)) := by
  have key : ∀ (sel : V3 → Rat), (∀ a b, sel (mid a b) = (sel a + sel b) / 2) →
      ∀ q ∈ (pairs.map fun pr => mid pr.1 pr.2).map (seqApply ts),
        (∃ r ∈ seqApply ts p :: ps.map (seqApply ts), sel r ≤ sel q) ∧
        (∃ r ∈ seqApply ts p :: ps.map (seqApply ts), sel q ≤ sel r) := by
    intro sel hsel q hq
    simp only [List.mem_map] at hq
    obtain ⟨m, ⟨pr, hpr, rfl⟩, rfl⟩ := hq
    obtain ⟨h1, h2⟩ := hp pr hpr
    have m1 : seqApply ts pr.1 ∈ seqApply ts p :: ps.map (seqApply ts) := by
      have := List.mem_map_of_mem (f := seqApply ts) h1
      simpa using this
    have m2 : seqApply ts pr.2 ∈ seqApply ts p :: ps.map (seqApply ts) := by
      have := List.mem_map_of_mem (f := seqApply ts) h2
      simpa using this
    rw [seqApply_mid]
    obtain ⟨lo, hi⟩ := mid_between sel hsel (seqApply ts pr.1) (seqApply ts pr.2)
    exact ⟨lo.elim (fun h => ⟨_, m1, h⟩) (fun h => ⟨_, m2, h⟩), hi.elim (fun h => ⟨_, m1, h⟩) (fun h => ⟨_, m2, h⟩)⟩
  have kx := key V3.x (fun _ _ => rfl)
  have ky := key V3.y (fun _ _ => rfl)
  have kz := key V3.z (fun _ _ => rfl)
  simp only [List.map_append, List.map_cons, List.cons_append, bboxOfPts]
  rw [minOf_append V3.x _ _ _ (fun q hq => (kx q hq).1), minOf_append V3.y _ _ _ (fun q hq => (ky q hq).1),
    minOf_append V3.z _ _ _ (fun q hq => (kz q hq).1), maxOf_append V3.x _ _ _ (fun q hq => (kx q hq).2),
    maxOf_append V3.y _ _ _ (fun q hq => (ky q hq).2), maxOf_append V3.z _ _ _ (fun q hq => (kz q hq).2)]

theorem imageOK_unfold (eps : Rat) (ts : List Aff) (g : Img) (off' pitch' : V3) (val' : Int → Int → Int → Rat) :
    imageOK eps ts g off' pitch' val' =
      (invertible ts && closeV3 eps off' (imageOff ts g) && closeV3 eps pitch' (imagePitch ts g) &&
        (allIdx g.nx g.ny g.nz).all fun x => closeRat eps (val' x.1 x.2.1 x.2.2) (imageVal true ts g x.1 x.2.1 x.2.2)) := rfl

theorem powBase_ten (m : Int) : Navis.XformSpec.powBase 10 m = pow10 m := by
  simp [Navis.XformSpec.powBase, pow10]

end Navis.XformImage
