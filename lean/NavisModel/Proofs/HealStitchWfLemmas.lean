import NavisModel.Proofs.HealStitchLemmas
/-!
C11 helper lemmas, part 7 (core Lean only): the combined table of `stitch_skeletons` is a well-formed
forest (injective relabelling of each input, disjoint union of the results).
-/
namespace Navis.Heal
open Navis.Forest

theorem WF_nil : WF ([] : Table) := ⟨by simp [ids], by simp, fun _ => 0, by simp⟩

/-- Disjoint union of well-formed forests. -/
theorem WF_append {t1 t2 : Table} (h1 : WF t1) (h2 : WF t2) (hd : Disj (ids t1) (ids t2)) : WF (t1 ++ t2) := by
  obtain ⟨nd1, pos1, rk1, hr1⟩ := h1
  obtain ⟨nd2, pos2, rk2, hr2⟩ := h2
  have hids : ids (t1 ++ t2) = ids t1 ++ ids t2 := by simp [ids]
  refine ⟨?_, ?_, fun i => if i ∈ ids t1 then rk1 i else rk2 i, ?_⟩
  · rw [hids]
    exact List.nodup_append.mpr ⟨nd1, nd2, fun a ha b hb hab => hd a ha (hab ▸ hb)⟩
  · intro n hn
    rcases List.mem_append.mp hn with h | h
    · exact pos1 n h
    · exact pos2 n h
  · intro n hn
    rw [hids]
    rcases List.mem_append.mp hn with h | h
    · rcases hr1 n h with hp | ⟨hp, hrk⟩
      · exact Or.inl hp
      · right
        refine ⟨List.mem_append_left _ hp, ?_⟩
        simp only [if_pos hp, if_pos (mem_ids_of_mem h)]
        exact hrk
    · rcases hr2 n h with hp | ⟨hp, hrk⟩
      · exact Or.inl hp
      · right
        refine ⟨List.mem_append_right _ hp, ?_⟩
        have n1 : n.id ∉ ids t1 := fun hx => hd _ hx (mem_ids_of_mem h)
        have n2 : n.parent ∉ ids t1 := fun hx => hd _ hx hp
        simp only [if_neg n1, if_neg n2]
        exact hrk

/-- Relabelling by a map that is injective on the ids, fixes root markers and keeps ids non-negative. -/
theorem WF_remapNodes {t : Table} (hw : WF t) {m : List (Int × Int)}
    (hinj : ∀ a ∈ ids t, ∀ b ∈ ids t, remapId m a = remapId m b → a = b)
    (hneg : ∀ a, a < 0 → remapId m a = a) (hnn : ∀ a, 0 ≤ a → 0 ≤ remapId m a) :
    WF (t.map (remapNode m)) := by
  obtain ⟨nd, pos, rk, hr⟩ := hw
  have hids : ids (t.map (remapNode m)) = (ids t).map (remapId m) := by
    simp [ids, remapNode, List.map_map, Function.comp_def]
  let g : Int → Int := fun j => match (ids t).find? (fun i => remapId m i == j) with
    | some i => i
    | none => 0
  have hg : ∀ i ∈ ids t, g (remapId m i) = i := by
    intro i hi
    show (match (ids t).find? (fun x => remapId m x == remapId m i) with | some x => x | none => 0) = i
    cases hf : (ids t).find? (fun x => remapId m x == remapId m i) with
    | none =>
      rw [List.find?_eq_none] at hf
      exact absurd (by simp) (hf i hi)
    | some i' =>
      have h1 := List.find?_some hf
      have h2 := List.mem_of_find?_eq_some hf
      exact hinj i' h2 i hi (by simpa using h1)
  refine ⟨by rw [hids]; exact nodup_map_of_inj nd hinj, ?_, fun j => rk (g j), ?_⟩
  · intro n' hn'
    obtain ⟨n, hn, rfl⟩ := List.mem_map.mp hn'
    exact hnn _ (pos n hn)
  · intro n' hn'
    obtain ⟨n, hn, rfl⟩ := List.mem_map.mp hn'
    show remapId m n.parent < 0 ∨ (remapId m n.parent ∈ ids (t.map (remapNode m)) ∧
      rk (g (remapId m n.parent)) < rk (g (remapId m n.id)))
    rcases hr n hn with hp | ⟨hp, hrk⟩
    · left; rw [hneg _ hp]; exact hp
    · right
      rw [hids, hg _ hp, hg _ (mem_ids_of_mem hn)]
      exact ⟨List.mem_map.mpr ⟨_, hp, rfl⟩, hrk⟩

theorem WF_flatMap_nodes {l : List Skel} (hw : ∀ x ∈ l, WF x.nodes)
    (hp : l.Pairwise (fun a b => Disj (ids a.nodes) (ids b.nodes))) : WF (l.flatMap (·.nodes)) := by
  induction l with
  | nil => exact WF_nil
  | cons x xs ih =>
    rw [List.pairwise_cons] at hp
    rw [List.flatMap_cons]
    apply WF_append (hw x List.mem_cons_self) (ih (fun y hy => hw y (List.mem_cons_of_mem _ hy)) hp.2)
    intro a ha hb
    unfold ids at hb
    rw [List.map_flatMap, List.mem_flatMap] at hb
    obtain ⟨y, hy, hay⟩ := hb
    exact hp.1 y hy a ha hay

theorem SkelOK_of_WF {s : Skel} (hw : WF s.nodes) : SkelOK s :=
  ⟨hw.1, fun _ ha => ids_nonneg hw.2.1 ha⟩

theorem stitchRemap_pairwise (mIx : Nat) (l : List Skel) (hok : ∀ s ∈ l, SkelOK s) :
    (stitchRemap mIx l).Pairwise (fun a b => Disj (ids a.nodes) (ids b.nodes)) := by
  unfold stitchRemap
  have hM : ∀ m, ahead mIx 0 l = some m →
      ∀ a ∈ ids m.nodes, a ∈ (match l[mIx]? with | some m => ids m.nodes | none => []) := by
    intro m hm a ha
    simp only [ahead, Nat.zero_le, if_true, Nat.sub_zero] at hm
    rw [hm]; exact ha
  exact (stitchGo_inv mIx l 0 _ hok hM).1

theorem stitchRemap_length (mIx : Nat) (l : List Skel) : (stitchRemap mIx l).length = l.length := by
  unfold stitchRemap; exact stitchGo_length _ _ _ _

/-- The combined table (`method = 'NONE'`, `combine_neurons`) is a well-formed forest. -/
theorem combine_WF (mIx : Nat) (l : List Skel) (hw : ∀ s ∈ l, WF s.nodes) : WF (combine mIx l).nodes := by
  have hok : ∀ s ∈ l, SkelOK s := fun s hs => SkelOK_of_WF (hw s hs)
  show WF ((stitchRemap mIx l).flatMap (·.nodes))
  apply WF_flatMap_nodes _ (stitchRemap_pairwise mIx l hok)
  intro x hx
  obtain ⟨k, hk, hxk⟩ := List.mem_iff_getElem.mp hx
  have hk' : k < l.length := by rw [← stitchRemap_length mIx l]; exact hk
  have hs : l[k]? = some l[k] := List.getElem?_eq_getElem hk'
  obtain ⟨out, m, h1, h2, _⟩ := stitchRemap_get mIx l hok hs
  have : x = out := by
    rw [List.getElem?_eq_getElem hk, hxk] at h1
    exact Option.some.inj h1
  rw [this, h2.eq]
  exact WF_remapNodes (hw _ (List.getElem_mem hk')) h2.inj h2.neg h2.nonneg

end Navis.Heal
