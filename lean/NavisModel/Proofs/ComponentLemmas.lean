import NavisModel.Model.ComponentVariants
import NavisModel.Proofs.CutEquivLemmas
import NavisModel.Proofs.BackendLemmas
/-! Connected components: the undirected closure (igraph / networkx) of a node is the set of nodes with the
same root (navis-fastcore). -/
namespace Navis.CutEquiv
open Navis.Forest

theorem rootOf_parent {t : Table} (hw : WF t) {n : Node} (hn : n ∈ t) (hp : ¬ n.parent < 0) :
    rootOf t n.id = rootOf t n.parent := by
  unfold rootOf
  rw [rootPath_of_nonroot hw (find?_of_mem hw.1 hn) hp]
  obtain ⟨rest, hr⟩ := rootPath_cons (WF_parent_mem hw hn hp)
  rw [hr, List.getLast?_cons_cons]

/-- Soundness: the closure never leaves the tree of its seed. -/
theorem closure_same_root {t : Table} (hw : WF t) {i : Int} (hi : i ∈ ids t) (f : Nat) :
    ∀ j ∈ componentOf (edges t) f i, j ∈ ids t ∧ rootOf t j = rootOf t i := by
  apply componentOf_inv (P := fun x => x ∈ ids t ∧ rootOf t x = rootOf t i) ⟨hi, rfl⟩
  intro e he
  obtain ⟨n, hn, hp, rfl⟩ := mem_edges.mp he
  have hr := rootOf_parent hw hn hp
  constructor
  · rintro ⟨_, h2⟩
    exact ⟨WF_parent_mem hw hn hp, by rw [← hr]; exact h2⟩
  · rintro ⟨_, h2⟩
    exact ⟨mem_ids_of_mem hn, by rw [hr]; exact h2⟩

/-- Consecutive nodes of a linked list are an edge. -/
theorem edge_of_linked {t : Table} (A : List Int) (y z : Int) (C : List Int) (h : Linked t (A ++ y :: z :: C)) :
    (y, z) ∈ edges t := by
  obtain ⟨n, hf, hp, h0⟩ := Linked_at A y z C h
  have hn := find?_some hf
  exact mem_edges.mpr ⟨n, hn.1, by omega, by rw [hn.2, hp]⟩

/-- Ascending: the `k`-th node of a linked list starting at the seed is reached within `k` sweeps. -/
theorem asc_reach {t : Table} (i : Int) (L : List Int) (hl : Linked t (i :: L)) :
    ∀ (k : Nat) (A : List Int) (x : Int) (B : List Int), A.length = k → i :: L = A ++ x :: B →
      x ∈ componentOf (edges t) k i := by
  intro k
  induction k with
  | zero =>
    intro A x B hA he
    have : A = [] := List.length_eq_zero_iff.mp hA
    subst this
    simp only [List.nil_append, List.cons.injEq] at he
    rw [← he.1]; exact seed_mem_componentOf _ _ _
  | succ k ih =>
    intro A x B hA he
    have hne : A ≠ [] := by intro h; rw [h] at hA; simp at hA
    obtain ⟨A', y, rfl⟩ : ∃ A' y, A = A' ++ [y] := ⟨A.dropLast, A.getLast hne, (List.dropLast_concat_getLast hne).symm⟩
    have hA' : A'.length = k := by simp at hA; exact hA
    have he' : i :: L = A' ++ y :: (x :: B) := by rw [he]; simp
    have hy := ih A' y (x :: B) hA' he'
    have hedge : (y, x) ∈ edges t := edge_of_linked A' y x B (he' ▸ hl)
    exact (componentOf_step hedge).1 hy

/-- Descending: if the upper end `l` of a linked list `pb ++ [l]` has been reached after `f` sweeps, every
node of `pb` is reached after `f + |pb|` sweeps. -/
theorem desc_reach' {t : Table} {i l : Int} {f : Nat} (hl : l ∈ componentOf (edges t) f i) :
    ∀ (pb : List Int), Linked t (pb ++ [l]) → ∀ x ∈ pb, x ∈ componentOf (edges t) (f + pb.length) i := by
  intro pb
  induction pb with
  | nil => intro _ x hx; simp at hx
  | cons y pb ih =>
    intro hlink x hx
    have hlink' : Linked t (pb ++ [l]) := Linked_tail hlink
    have hrest := ih hlink'
    -- the parent of `y`
    have hz : ∃ z C, pb ++ [l] = z :: C ∧ z ∈ componentOf (edges t) (f + pb.length) i := by
      cases pb with
      | nil => exact ⟨l, [], rfl, by simpa using hl⟩
      | cons z pb' => exact ⟨z, pb' ++ [l], rfl, hrest z List.mem_cons_self⟩
    obtain ⟨z, C, hzC, hzm⟩ := hz
    have hedge : (y, z) ∈ edges t := by
      have : Linked t ([] ++ y :: z :: C) := by
        have e : (y :: pb) ++ [l] = [] ++ y :: z :: C := by simp [← hzC]
        rw [← e]; exact hlink
      exact edge_of_linked [] y z C this
    have hy : y ∈ componentOf (edges t) (f + pb.length + 1) i := (componentOf_step hedge).2 hzm
    have e : f + (y :: pb).length = f + pb.length + 1 := by simp; omega
    rw [e]
    rcases List.mem_cons.mp hx with h | h
    · rw [h]; exact hy
    · exact componentOf_mono (by omega) (hrest x h)

/-- Every node strictly below the meeting point has an edge to its parent. -/
theorem edge_of_prefix {t : Table} {a l : Int} {pa : List Int} (hl : l ∈ ids t) (ha : rootPath t a = pa ++ rootPath t l) :
    ∀ x ∈ pa, x ∈ (edges t).map Prod.fst := by
  intro x hx
  obtain ⟨rest, hr⟩ := rootPath_cons hl
  obtain ⟨A, B, hAB⟩ := List.append_of_mem hx
  have hlink := rootPath_linked t a
  rw [ha, hr, hAB] at hlink
  cases B with
  | nil =>
    have e : (A ++ [x]) ++ l :: rest = A ++ x :: l :: rest := by simp
    rw [e] at hlink
    exact List.mem_map.mpr ⟨(x, l), edge_of_linked A x l rest hlink, rfl⟩
  | cons z B' =>
    have e : (A ++ x :: z :: B') ++ l :: rest = A ++ x :: z :: (B' ++ l :: rest) := by simp
    rw [e] at hlink
    exact List.mem_map.mpr ⟨(x, z), edge_of_linked A x z _ hlink, rfl⟩

/-- Completeness: every node with the same root is reached within `|edges|` sweeps. -/
theorem same_root_closure {t : Table} (hw : WF t) {i j : Int} (hi : i ∈ ids t) (hj : j ∈ ids t)
    (hr : rootOf t j = rootOf t i) : j ∈ componentClosure t i := by
  unfold componentClosure
  rcases meet_or_disjoint hw i j with hd | ⟨l, pa, pb, m⟩
  · -- different trees: impossible with equal roots
    exfalso
    obtain ⟨ri, _, hli, _, _⟩ := rootPath_ends hw i hi
    have hmi : ri ∈ rootPath t i := List.mem_of_getLast? hli
    have hmj : ri ∈ rootPath t j := by
      have : (rootPath t j).getLast? = some ri := by
        have e1 : rootOf t i = some ri := hli
        unfold rootOf at hr; rw [hr]; exact e1
      exact List.mem_of_getLast? this
    exact hd ri hmi hmj
  · obtain ⟨rest, hrl⟩ := rootPath_cons m.hl
    -- up to the meeting point
    have hup : l ∈ componentOf (edges t) pa.length i := by
      obtain ⟨resti, hri⟩ := rootPath_cons hi
      have hlink := rootPath_linked t i
      rw [hri] at hlink
      have he : i :: resti = pa ++ l :: rest := by rw [← hri, m.ha, hrl]
      exact asc_reach i resti hlink pa.length pa l rest rfl he
    -- down to `j`
    have hlinkj : Linked t (pb ++ [l]) := by
      have := rootPath_linked t j
      rw [m.hb, hrl] at this
      have e : pb ++ l :: rest = (pb ++ [l]) ++ rest := by simp
      rw [e] at this
      exact Linked_prefix _ _ this
    have hdown := desc_reach' hup pb hlinkj
    -- fuel: the nodes strictly below the meeting point are distinct and each owns an edge
    have hnd : (pa ++ pb).Nodup := by
      have h1 := rootPath_nodup hw i
      have h2 := rootPath_nodup hw j
      rw [m.ha] at h1; rw [m.hb] at h2
      rw [List.nodup_append]
      refine ⟨(List.nodup_append.mp h1).1, (List.nodup_append.mp h2).1, ?_⟩
      intro x hx y hy hxy
      apply m.da x hx
      rw [m.hb, hxy]; exact List.mem_append_left _ hy
    have hsub : ∀ x ∈ pa ++ pb, x ∈ (edges t).map Prod.fst := by
      intro x hx
      rcases List.mem_append.mp hx with h | h
      · exact edge_of_prefix m.hl m.ha x h
      · exact edge_of_prefix m.hl m.hb x h
    have hlen : pa.length + pb.length ≤ (edges t).length := by
      have := List.Nodup.length_le_of_subset hnd hsub
      simpa using this
    cases pb with
    | nil =>
      -- `j` is the meeting point itself
      have : j = l := by
        obtain ⟨restj, hrj⟩ := rootPath_cons hj
        have := m.hb
        rw [hrj, hrl] at this
        simp only [List.nil_append, List.cons.injEq] at this
        exact this.1
      rw [this]; exact componentOf_mono (by omega) hup
    | cons y pb' =>
      have hjy : j = y := by
        obtain ⟨restj, hrj⟩ := rootPath_cons hj
        have := m.hb
        rw [hrj] at this
        simp only [List.cons_append, List.cons.injEq] at this
        exact this.1
      have := hdown y List.mem_cons_self
      rw [hjy]
      exact componentOf_mono (by simp at hlen ⊢; omega) this

/-- **The undirected component of a node (igraph / networkx) is the set of nodes with the same root
(navis-fastcore)** — every well-formed forest, every node. -/
theorem closure_iff_same_root {t : Table} (hw : WF t) {i : Int} (hi : i ∈ ids t) (j : Int) :
    j ∈ componentClosure t i ↔ j ∈ ids t ∧ rootOf t j = rootOf t i :=
  ⟨fun h => closure_same_root hw hi _ j h, fun h => same_root_closure hw hi h.1 h.2⟩

end Navis.CutEquiv
